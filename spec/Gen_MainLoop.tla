---------------------------- MODULE Gen_MainLoop ----------------------------
(***************************************************************************)
(* Program families for C11 (input bookkeeping).  The semantics is the     *)
(* input part of AwkSem: operand walk (NextMain), the getline forms, range *)
(* patterns, next / nextfile / exit.  Every rule body starts with a trace  *)
(* statement printing NR FNR FILENAME $0 NF v, so bookkeeping is observed  *)
(* at every step, not only at the end.                                     *)
(* A case is [fam, mech, prog, env] with env = [stdin, files (sequence of  *)
(* [name, recs]), args].                                                   *)
(***************************************************************************)
EXTENDS AwkBuild, Json

CONSTANT Families

B(str) == str
F1 == <<c_f, D1>>  F2 == <<c_f, D2>>  F3 == <<c_f, D3>>
FileList == << [name |-> F1, recs |-> << <<c_a, SP, D1>>, <<c_b>>, <<c_c, SP, D3, SP, c_y>> >>],
               [name |-> F2, recs |-> << <<c_d, SP, c_d>>, <<c_a>> >>],
               [name |-> F3, recs |-> <<>>],
               [name |-> <<D7>>, recs |-> << <<c_n, SP, D7>>, <<c_m>> >>],      \* a file whose name is a number
               [name |-> <<D7, EQ, c_x>>, recs |-> << <<c_q, SP, D1>> >>] >>     \* 7=x: a digit cannot start a variable name, so this is a file
FilesFn == [nm \in {FileList[j].name : j \in 1..Len(FileList)} |->
              FileList[CHOOSE j \in 1..Len(FileList) : FileList[j].name = nm].recs]
Stdin2 == << <<c_s, D1>>, <<c_b, SP, c_s>> >>
VEq(m) == <<c_v, EQ, 48 + m>>

ArgLists == { <<>>, <<F1>>, <<F1, F2>>, <<F2, <<MINUS>>, F1>>, <<<<>>, F1, <<>>>>, <<VEq(1), F1, VEq(2), F2>>,
              <<F1, VEq(5)>>, <<VEq(7)>>, <<F3, F1>>, <<F2, F2>>, <<<<MINUS>>>>, <<F1, F3, VEq(3), F2>>,
              <<F2, <<D7, EQ, c_x>>, VEq(4)>> }

\* FILENAME is not judged while standard input is read: the trace masks "-"
FName == Cnd(Bin("==", V("FILENAME"), S(<<MINUS>>)), S(<<>>), V("FILENAME"))
Tr(tag) == SPrint(<<S(tag), V("NR"), V("FNR"), FName, Fld(N(0)), V("NF"), V("v")>>)

\* abstract commands a rule body is made of
Cmds == {"none", "next", "nextfile", "exit3", "exit", "getline", "getline-v", "getline-f2", "getline-v-f2", "getline-fld",
         "getline-fld-f2", "getline-elem", "call-next", "call-nextfile", "call-exit", "call-getline", "getline-loop-f2", "close-f2",
         "getline-v-dash", "getline-dash"}
CmdStmts(cm) ==
  CASE cm = "none" -> <<>>
    [] cm = "next" -> <<SNext>>
    [] cm = "nextfile" -> <<SNextfile>>
    [] cm = "exit3" -> <<SExit(N(3))>>
    [] cm = "exit" -> <<SExit(NoE)>>
    [] cm = "getline" -> <<SPrint(<<S(<<c_g>>), GetL(NoE)>>), Tr(<<c_h>>)>>
    [] cm = "getline-v" -> <<SPrint(<<S(<<c_g>>), GetL(V("w")), V("w")>>), Tr(<<c_h>>)>>
    [] cm = "getline-f2" -> <<SPrint(<<S(<<c_g>>), GetF(NoE, S(F2))>>), Tr(<<c_h>>)>>
    [] cm = "getline-v-f2" -> <<SPrint(<<S(<<c_g>>), GetF(V("w"), S(F2)), V("w")>>), Tr(<<c_h>>)>>
    [] cm = "getline-fld" -> <<SPrint(<<S(<<c_g>>), GetL(Fld(N(2)))>>), Tr(<<c_h>>)>>
    [] cm = "getline-fld-f2" -> <<SPrint(<<S(<<c_g>>), GetF(Fld(N(2)), S(F2))>>), Tr(<<c_h>>)>>
    [] cm = "getline-elem" -> <<SPrint(<<S(<<c_g>>), GetL(Idx("a", V("NR"))), Bi("alength", <<V("a")>>)>>), Tr(<<c_h>>)>>
    [] cm = "call-next" -> <<SExpr(Call("fn", <<>>))>>
    [] cm = "call-nextfile" -> <<SExpr(Call("fnf", <<>>))>>
    [] cm = "call-exit" -> <<SExpr(Call("fx", <<>>))>>
    [] cm = "call-getline" -> <<SPrint(<<S(<<c_g>>), Call("fg", <<>>)>>), Tr(<<c_h>>)>>
    [] cm = "getline-loop-f2" -> <<SWhile(Bin(">", GetF(V("w"), S(F2)), N(0)), <<SExpr(Inc("++", FALSE, V("q")))>>), SPrint(<<S(<<c_q>>), V("q"), V("w")>>), Tr(<<c_h>>)>>
    [] cm = "close-f2" -> <<SPrint(<<S(<<c_g>>), GetF(V("w"), S(F2)), V("w"), CloseF(S(F2)), GetF(V("w"), S(F2)), V("w")>>), Tr(<<c_h>>)>>
    \* standard input read through getline < "-" while the main input comes from file operands
    [] cm = "getline-v-dash" -> <<SPrint(<<S(<<c_g>>), GetF(V("w"), S(<<MINUS>>)), V("w")>>), Tr(<<c_h>>)>>
    [] cm = "getline-dash" -> <<SPrint(<<S(<<c_g>>), GetF(NoE, S(<<MINUS>>))>>), Tr(<<c_h>>)>>
Helpers == << Func("fn", <<>>, <<T1(<<c_n>>), SNext>>), Func("fnf", <<>>, <<T1(<<c_n>>), SNextfile>>),
              Func("fx", <<>>, <<T1(<<c_x>>), SExit(N(2)), T1(<<c_y>>)>>),
              Func("fg", <<Param("p")>>, <<SExpr(Asg(V("p"), GetL(V("w")))), SRet(Cc(V("p"), V("w")))>>) >>

Pats == { NoE, Bin("==", V("NR"), N(2)), Bin("==", V("FNR"), N(1)), Mat(Fld(N(0)), Lit(c_b)), Bin("==", V("v"), N(2)) }
Ranges == { <<Bin("==", V("NR"), N(2)), Bin("==", V("NR"), N(3))>>, <<Mat(Fld(N(0)), Lit(c_a)), Mat(Fld(N(0)), Lit(c_c))>>,
            <<Bin("==", V("FNR"), N(1)), Bin("==", V("FNR"), N(1))>>, <<Mat(Fld(N(0)), Lit(c_b)), Bin("==", V("FNR"), N(1))>>,
            <<Bin("==", V("NR"), N(2)), N(0)>> }

Env(args) == [stdin |-> Stdin2, files |-> FileList, args |-> args]
EndTr == <<Tr(<<c_e>>)>>

\* one guarded command per program, crossed with every operand list
BodyCases ==
  {[fam |-> "body", mech |-> "body/" \o cm, env |-> Env(args),
    prog |-> Prog(IF hb THEN <<Tr(<<c_b>>)>> ELSE <<>>,
                  << Rule(p1, <<Tr(<<D1>>)>> \o CmdStmts(cm) \o <<T1(<<c_t>>)>>), Rule(NoE, <<Tr(<<D2>>)>>) >>,
                  EndTr, Helpers)]
   : cm \in Cmds, p1 \in Pats, args \in ArgLists, hb \in {FALSE}}

\* range patterns, alone and with a command that disturbs the input inside the range
RangeCases ==
  {[fam |-> "range", mech |-> "range/" \o cm, env |-> Env(args),
    prog |-> Prog(<<>>, << RangeRule(rg[1], rg[2], <<Tr(<<c_r>>)>> \o CmdStmts(cm)), Rule(NoE, <<Tr(<<D2>>)>>) >>, EndTr, Helpers)]
   : rg \in Ranges, cm \in {"none", "next", "nextfile", "getline", "getline-v", "getline-f2", "call-next", "exit3"}, args \in ArgLists} \cup
  {[fam |-> "range", mech |-> "range/nobody", env |-> Env(args),
    prog |-> Prog(<<>>, << RangeNoBody(rg[1], rg[2]), RangeNoBody(rg2[1], rg2[2]) >>, <<SPrint(<<V("NR")>>)>>, <<>>)]
   : rg \in Ranges, rg2 \in Ranges, args \in {<<F1, F2>>, <<>>, <<F2, <<MINUS>>, F1>>}}

\* BEGIN: getline before the main loop, ARGV / ARGC edited, exit in BEGIN
BeginCases ==
  {[fam |-> "begin", mech |-> "begin/" \o nm, env |-> Env(args),
    prog |-> Prog(bg, << Rule(NoE, <<Tr(<<D1>>)>>) >>, EndTr, Helpers)]
   : args \in ArgLists, <<nm, bg>> \in {
       <<"getline", <<SPrint(<<GetL(NoE)>>), Tr(<<c_b>>)>> >>,
       <<"getline-v", <<SPrint(<<GetL(V("w")), V("w")>>), Tr(<<c_b>>)>> >>,
       <<"getline-twice-file", <<SPrint(<<GetF(NoE, S(F1)), GetF(V("w"), S(F1)), V("w")>>), Tr(<<c_b>>)>> >>,
       <<"argv-replace", <<SExpr(Asg(Idx("ARGV", N(1)), S(F2))), Tr(<<c_b>>)>> >>,
       <<"argv-append", <<SExpr(Asg(Idx("ARGV", V("ARGC")), S(F2))), SExpr(Inc("++", FALSE, V("ARGC"))), Tr(<<c_b>>)>> >>,
       <<"argc-cut", <<SExpr(Asg(V("ARGC"), N(2))), Tr(<<c_b>>)>> >>,
       <<"argv-blank", <<SExpr(Asg(Idx("ARGV", N(1)), S(<<>>))), Tr(<<c_b>>)>> >>,
       <<"argv-delete", <<SDel("ARGV", N(1)), Tr(<<c_b>>)>> >>,
       \* an operand is the STRING value of the ARGV element, also when a number was assigned
       <<"argv-number", <<SExpr(Asg(Idx("ARGV", N(1)), N(7))), Tr(<<c_b>>)>> >>,
       <<"argv-number-appended", <<SExpr(Asg(Idx("ARGV", Inc("++", FALSE, V("ARGC"))), Bin("+", N(3), N(4)))), Tr(<<c_b>>)>> >>,
       <<"exit-in-begin", <<Tr(<<c_b>>), SExit(N(4)), T1(<<c_x>>)>> >>,
       <<"exit-in-begin-via-function", <<Tr(<<c_b>>), SExpr(Call("fx", <<>>)), T1(<<c_x>>)>> >>,
       <<"getline-all-then-main", <<SWhile(Bin(">", GetL(V("w")), N(0)), <<SExpr(Inc("++", FALSE, V("q")))>>), SPrint(<<V("q"), V("NR")>>)>> >> }}

\* END: $0 and NF of the last record, getline in END, exit in END
EndCases ==
  {[fam |-> "end", mech |-> "end/" \o nm, env |-> Env(args),
    prog |-> Prog(<<>>, rl, en, Helpers)]
   : args \in ArgLists, <<nm, rl, en>> \in {
       <<"last-record", <<Rule(NoE, <<SExpr(Asg(V("z"), N(1)))>>)>>, <<Tr(<<c_e>>), SPrint(<<Fld(N(1)), Fld(V("NF"))>>)>> >>,
       <<"only-end", <<>>, <<Tr(<<c_e>>)>> >>,
       <<"getline-in-end", <<Rule(NoE, <<SExpr(Asg(V("z"), N(1)))>>)>>, <<SPrint(<<GetL(NoE), GetF(V("w"), S(F2)), V("w")>>), Tr(<<c_e>>)>> >>,
       <<"exit-in-rule-then-end", <<Rule(Bin("==", V("NR"), N(2)), <<Tr(<<D1>>), SExit(N(3))>>)>>, <<Tr(<<c_e>>)>> >>,
       <<"exit-in-rule-end-exits-again", <<Rule(Bin("==", V("NR"), N(2)), <<SExit(N(3))>>)>>, <<Tr(<<c_e>>), SExit(NoE), T1(<<c_x>>)>> >>,
       <<"exit-in-rule-end-new-status", <<Rule(Bin("==", V("NR"), N(1)), <<SExit(N(3))>>)>>, <<SExit(N(6))>> >>,
       <<"nr-assigned", <<Rule(Bin("==", V("FNR"), N(2)), <<SExpr(Asg(V("NR"), N(10))), Tr(<<D1>>)>>), Rule(NoE, <<Tr(<<D2>>)>>)>>, <<Tr(<<c_e>>)>> >> }}

Helpers2 == << Func("skip", <<>>, <<SNext>>), Func("outer", <<>>, <<SExpr(Call("skip", <<>>))>>),
               Func("fg2", <<Param("p")>>, <<SExpr(Asg(V("p"), GetL(V("w")))), SRet(V("p"))>>),
               Func("fr", <<Param("p")>>, <<SWhile(N(1), <<SIf(Bin(">", Inc("++", TRUE, V("p")), N(4)), <<SRet(V("p"))>>, <<>>)>>)>>) >>
\* long inputs: something that must not accumulate per record (2100 records; the limit on nested calls is 1000)
LongStdin(m) == [j \in 1..m |-> IF j % 7 = 0 THEN <<c_b, SP, c_x>> ELSE <<c_a>>]
LongCases ==
  {[fam |-> "long", mech |-> "long/" \o nm, env |-> [stdin |-> LongStdin(2100), files |-> FileList, args |-> <<>>],
    prog |-> Prog(<<>>, rl, <<SPrint(<<V("NR"), V("n"), V("k")>>)>>, Helpers2)]
   : <<nm, rl>> \in {
       <<"next-in-function", <<Rule(Bin("==", Bin("%", V("NR"), N(2)), N(0)), <<SExpr(Call("skip", <<>>))>>), Rule(NoE, <<SExpr(Inc("++", FALSE, V("n")))>>)>> >>,
       <<"next-in-nested-function", <<Rule(Mat(Fld(N(0)), Lit(c_a)), <<SExpr(Call("outer", <<>>))>>), Rule(NoE, <<SExpr(Inc("++", FALSE, V("n")))>>)>> >>,
       <<"getline-in-function", <<Rule(NoE, <<SExpr(Aug("+", V("k"), Call("fg2", <<>>))), SExpr(Inc("++", FALSE, V("n")))>>)>> >>,
       <<"return-in-loop-in-function", <<Rule(NoE, <<SExpr(Aug("+", V("k"), Call("fr", <<N(3)>>))), SExpr(Inc("++", FALSE, V("n")))>>)>> >> }}
Cases(fm) == CASE fm = "long" -> LongCases [] fm = "body" -> BodyCases [] fm = "range" -> RangeCases [] fm = "begin" -> BeginCases [] fm = "end" -> EndCases
AllCases == UNION {Cases(fm) : fm \in Families}

VARIABLES cs, done
vars == <<cs, done>>
Init == cs \in AllCases /\ done = FALSE
Next ==
  /\ ~done /\ done' = TRUE /\ cs' = cs
  /\ LET fin == RunEnv(cs.prog, [stdin |-> cs.env.stdin, files |-> FilesFn, args |-> cs.env.args])
         o == Outcome(fin)
     IN /\ Assert(NRCountsTaken(fin), <<"MODEL DEFECT: NR does not count the records taken from the main input", cs.mech>>)
        /\ (~o.bad) => PrintT(ToJson([fam |-> cs.fam, mech |-> cs.mech, prog |-> cs.prog, env |-> cs.env,
                                   expect |-> [out |-> o.out, status |-> o.status, err |-> o.err]]))
Spec == Init /\ [][Next]_vars
=============================================================================
