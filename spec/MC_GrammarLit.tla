--------------------------- MODULE MC_GrammarLit ---------------------------
(* Self-consistency of the literal layer: reading what the specification's  *)
(* printers spell gives the value back (Read(Spell(v)) = v), for every value *)
(* of the menus the C20 check exports.  One state per value.                 *)
EXTENDS GrammarLit

CONSTANTS Pairs, ReLen

VARIABLES fam, val
vars == <<fam, val>>

Init == fam = "none" /\ val = <<>>
PickStr == fam = "none" /\ \E v \in StrValues(Pairs) : fam' = "str" /\ val' = v
PickEsc == fam = "none" /\ \E s \in EscSources : fam' = "esc" /\ val' = s
PickRe  == fam = "none" /\ \E s \in ReSources(ReLen) : fam' = "re" /\ val' = s
Next == PickStr \/ PickEsc \/ PickRe
Spec == Init /\ [][Next]_vars

StrRoundTrip == fam = "str" => LET r == ReadStr(Body(SpellStr(val))) IN r.ok /\ r.v = val
\* every escaped source of the menu is defined, and re-spelling its value reads back the same
EscRoundTrip == fam = "esc" => LET r == ReadStr(val) IN r.ok /\ ReadStr(Body(SpellStr(r.v))).v = r.v
ReRoundTrip  == fam = "re" => LET r == ReadRe(val) IN
                   r.ok /\ LET q == ReadRe(Body(SpellRe(r.v))) IN q.ok /\ q.v = r.v
\* spelled literals contain no raw quote / slash / newline that would end them early
SpellIsClosed == /\ fam = "str" => \A j \in 1..Len(SpellBody(val)) : SpellBody(val)[j] \notin {LF, CR}
                 /\ fam = "re" => LET b == Body(SpellRe(ReadRe(val).v)) IN \A j \in 1..Len(b) : b[j] = SLASH => (j > 1 /\ b[j - 1] = BSL)
=============================================================================
