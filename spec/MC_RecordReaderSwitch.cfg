SPECIFICATION Spec
CONSTANTS
  MaxLen = 5
  Afters = {1, 2}
INVARIANTS ChunkIndependence PrefixSafe Progress Lossless
CHECK_DEADLOCK FALSE
