----------------------- MODULE Gen_RecordReaderSwitch -----------------------
(* Case export for C07, RS assigned while the input is being read: one JSON    *)
(* line per (input, RS before, RS after, k) with the records RecordsSwitch     *)
(* predicts.  The program assigns the new RS in the action of record k.        *)
EXTENDS RecordReader, TLC, Json

CONSTANTS MaxLen, Afters

VARIABLES input, ment, phase
vars == <<input, ment, phase>>

CaseOf(inp, m, k) ==
  [fam |-> "rr", name |-> m.name, kind |-> "re", cls |-> m.cls, rstext |-> RsText(m.rs), rstext2 |-> RsText(m.rs2), after |-> k,
   input |-> inp, recs |-> RecordsSwitch(inp, m.rs, m.rs2, k), judge |-> TRUE, judgert |-> TRUE, prefixok |-> FALSE]

Init == ment \in SwitchMenu /\ input = <<>> /\ phase = 1

\* only inputs on which the switch happens before the end (more than k records under the first RS alone, or bytes left)
EmitCases(inp, m) == \A k \in Afters : (Len(Records(inp, m.rs)) > k => PrintT(ToJson(CaseOf(inp, m, k))))

Extend ==
  /\ Len(input) < MaxLen
  /\ \E ch \in ment.alpha : input' = Append(input, ch) /\ EmitCases(input', ment)
  /\ UNCHANGED <<ment, phase>>

Next == Extend
Spec == Init /\ [][Next]_vars
=============================================================================
