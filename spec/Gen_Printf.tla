------------------------------ MODULE Gen_Printf ------------------------------
(* Behaviour export for C09: the machine of MC_Printf (pick a conversion, an    *)
(* argument and a mode; then flags, width, precision) prints, for every case     *)
(* whose result the specification pins down, the format text, the arguments and  *)
(* the predicted bytes / error.  Families:                                        *)
(*  "d"  one directive "[%...]" with its arguments (incl. the ones for '*');      *)
(*       cn / cs: the argument converted the AWK way (for the C sanity gate)      *)
(*  "k"  the same shape on the argument-KIND family (KindArgs: text from input    *)
(*       = strnum, string constants and numbers of the same spelling, the         *)
(*       uninitialised value); isnum: is the argument a number for %c; alts: the  *)
(*       results of the other dialects where the argument is an open form         *)
(*  "m"  formats with several directives, literal text, %%, missing arguments,    *)
(*       dangling % and unknown conversions                                        *)
(*  "q"  a run: several calls in ONE interpreter with the result of each (the     *)
(*       specification has no state: every call is explained by Format alone)     *)
(*  "p"  one print line: argument list (numbers, strings, input text,             *)
(*       uninitialised) x OFMT text x CONVFMT text x output mode x OFS            *)
(*  "v"  %s of a number under a CONVFMT text                                       *)
(* Only the stratum Stratum of NStrata (chosen by the seed) of family "d" (and    *)
(* KStratum of KStrata of family "k") is exported; 1 exports everything.          *)
EXTENDS PrintfCases, TLC, Json

CONSTANTS NStrata, Stratum, KFull, KStrata, KStratum

VARIABLES fam, verb, v, chars, st
vars == <<fam, verb, v, chars, st>>

\* (the JSON text is built before PrintT is entered: PrintT evaluates its argument under a lock)
Out(rec) == LET j == ToJson(rec) IN Len(j) > 0 /\ PrintT(j)
Judged(r, alts) == ~IsUnmStr(r.out) /\ \A q \in alts : ~IsUnmStr(q.out)

Init == \/ fam = "d" /\ verb \in Verbs /\ v \in ArgsFor(verb) /\ chars \in ModesFor(verb) /\ st = 0
        \/ fam = "k" /\ verb \in Verbs /\ v \in KindArgs /\ chars \in ModesFor(verb) /\ st = 0
        \/ fam = "m" /\ verb = 0 /\ v = VNull /\ chars \in {FALSE, TRUE} /\ st = 0
        \/ fam = "q" /\ verb = 0 /\ v \in Seqs /\ chars \in {FALSE, TRUE} /\ st = 0
        \/ fam = "p" /\ verb = 0 /\ v \in PrintLists /\ chars = FALSE /\ st = 0
        \/ fam = "v" /\ verb = 0 /\ v \in {VNum(n1) : n1 \in PrintNums} /\ chars = FALSE /\ st = 0

DirCase(family, flags, wi, pi) ==
  LET d == MkDir(flags, wi, pi, verb)
      args == CaseArgs(wi, pi, v)
      f == CaseFmt(d)
  IN \E r \in {Format(f, args, chars, Cf6)} : \E alts \in {FormatAlts(f, args, chars, Cf6)} :
       IF ~Judged(r, alts) THEN TRUE ELSE          \* (IF, not \/: TLC explores both sides of a disjunction)
       Out(CallJ(family, f, d, args, chars, r, alts))
PickD ==
  /\ fam = "d" /\ st = 0 /\ st' = 1
  /\ \E flags \in SUBSET FlagChars : \E wi \in 1..Len(WOpts) : \E pi \in (IF verb = c_c THEN {1} ELSE 1..Len(POpts)) :
       /\ CaseHash(flags, wi, pi, verb) % NStrata = Stratum
       /\ DirCase("d", flags, wi, pi)
  /\ UNCHANGED <<fam, verb, v, chars>>
PickK ==
  /\ fam = "k" /\ st = 0 /\ st' = 1
  /\ \E flags \in KFlags(KFull) : \E wi \in KWs(KFull) : \E pi \in KPs(KFull, verb) :
       /\ CaseHash(flags, wi, pi, verb) % KStrata = KStratum
       /\ DirCase("k", flags, wi, pi)
  /\ UNCHANGED <<fam, verb, v, chars>>
PickM ==
  /\ fam = "m" /\ st = 0 /\ st' = 1
  /\ \E mc \in Multi : \E r \in {Format(mc.f, mc.a, chars, Cf6)} :
       IF IsUnmStr(r.out) THEN TRUE ELSE
       Out([fam |-> "m", fmt |-> mc.f, args |-> ArgsJ(mc.a), chars |-> chars, alts |-> {}, err |-> r.err, out |-> r.out])
  /\ UNCHANGED <<fam, verb, v, chars>>
\* a run is exported if every call of it is pinned down (no open form, nothing Unmodelled)
PickQ ==
  /\ fam = "q" /\ st = 0 /\ st' = 1
  /\ \E rs \in {RunResults(v, 1, chars)} :
       IF RunOpen(v) \/ \E k \in 1..Len(rs) : IsUnmStr(rs[k].out) THEN TRUE ELSE
       Out([fam |-> "q", chars |-> chars,
            calls |-> [k \in 1..Len(rs) |-> CallJ("k", v[k].f, DirOf(v[k].f), v[k].a, chars, rs[k], {})]])
  /\ UNCHANGED <<fam, verb, v, chars>>
PickP ==
  /\ fam = "p" /\ st = 0 /\ st' = 1
  /\ \E of \in OFmtTexts : \E cf \in CFmtTexts : \E mode \in PrintModes : \E ofs \in (IF mode = "default" THEN OfsTexts ELSE {<<SP>>}) :
       \E line \in {PrintLine(v, of, mode, ofs, <<LF>>)} :
         IF IsUnmStr(line) THEN TRUE ELSE
         Out([fam |-> "p", args |-> ArgsJ(v), of |-> of, cf |-> cf, mode |-> mode, ofs |-> ofs,
              fraction |-> HasFraction(v), defprec |-> (of \in {<<PCT, c_g>>, <<PCT, C_G>>}), out |-> line])
  /\ UNCHANGED <<fam, verb, v, chars>>
\* %s of a number: "the argument converted the AWK way" is the number -> string conversion under CONVFMT
PickV ==
  /\ fam = "v" /\ st = 0 /\ st' = 1
  /\ \E cf \in OFmtTexts : \E str \in {NumToText(v.n, cf)} :
       IF IsUnmStr(str) THEN TRUE ELSE
       Out([fam |-> "v", n |-> PNumJ(v.n), cf |-> cf, fraction |-> ~InInt64(v.n), defprec |-> (cf \in {<<PCT, c_g>>, <<PCT, C_G>>}), out |-> str])
  /\ UNCHANGED <<fam, verb, v, chars>>
Next == PickD \/ PickK \/ PickM \/ PickQ \/ PickP \/ PickV
Spec == Init /\ [][Next]_vars
=============================================================================
