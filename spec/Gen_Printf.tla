------------------------------ MODULE Gen_Printf ------------------------------
(* Behaviour export for C09: the machine of MC_Printf (pick a conversion, an    *)
(* argument and a mode; then flags, width, precision) prints, for every case     *)
(* whose result the specification pins down, the format text, the arguments and  *)
(* the predicted bytes / error.  Families:                                        *)
(*  "d"  one directive "[%...]" with its arguments (incl. the ones for '*');      *)
(*       cn / cs: the argument converted the AWK way (for the C sanity gate)      *)
(*  "m"  formats with several directives, literal text, %%, missing arguments,    *)
(*       dangling % and unknown conversions                                        *)
(*  "o"  print of a number under an OFMT setting                                   *)
(* Only the stratum Stratum of NStrata (chosen by the seed) of family "d" is       *)
(* exported; NStrata = 1 exports everything.                                       *)
EXTENDS PrintfCases, TLC, Json

CONSTANTS NStrata, Stratum

VARIABLES fam, verb, v, chars, st
vars == <<fam, verb, v, chars, st>>

PNumJ(n) == [t |-> n.t, neg |-> n.neg, d |-> n.d, x |-> n.x]
PValJ(a) == [tag |-> a.tag, s |-> a.s, n |-> PNumJ(a.n)]
ArgsJ(args) == [j \in 1..Len(args) |-> PValJ(args[j])]

OFMTs == << [verb |-> "g", prec |-> 6], [verb |-> "f", prec |-> 2], [verb |-> "e", prec |-> 3], [verb |-> "g", prec |-> 3] >>
PrintNums == { Zero, NatNum(1), NatNum(0 - 42), NatNum(100000), NatNum(1000000), NatNum(2147483647), Dec(FALSE, P53, 0), Dec(TRUE, P63, 0),
               Dec(FALSE, <<1>>, 18), Dec(FALSE, <<5>>, 0 - 1), Dec(TRUE, <<1, 2, 5>>, 0 - 3), Dec(FALSE, <<1, 2, 3, 4, 5, 6, 7, 5>>, 0 - 1),
               Dec(FALSE, <<1>>, 0 - 1), Dec(FALSE, <<3, 1, 4, 1, 5, 9, 2, 6, 5>>, 0 - 8), Dec(FALSE, <<1>>, 30), Dec(FALSE, <<1>>, 0 - 5),
               Dec(FALSE, <<1, 0, 0, 0, 0, 0, 0, 5>>, 0 - 1), Dec(FALSE, <<2, 5>>, 0 - 1) }

Init == \/ fam = "d" /\ verb \in Verbs /\ v \in ArgsFor(verb) /\ chars \in ModesFor(verb) /\ st = 0
        \/ fam = "m" /\ verb = 0 /\ v = VNull /\ chars \in {FALSE, TRUE} /\ st = 0
        \/ fam = "o" /\ verb = 0 /\ v \in {VNum(n1) : n1 \in PrintNums} /\ chars = FALSE /\ st = 0

ConvNum(vb, a) == IF vb \in IntVerbs \cup UnsVerbs \/ vb = c_c THEN IntArg(a) ELSE ToNum(a, GoawkDialect)

PickD ==
  /\ fam = "d" /\ st = 0 /\ st' = 1
  /\ \E flags \in SUBSET FlagChars : \E wi \in 1..Len(WOpts) : \E pi \in (IF verb = c_c THEN {1} ELSE 1..Len(POpts)) :
       /\ CaseHash(flags, wi, pi, verb) % NStrata = Stratum
       /\ LET d == MkDir(flags, wi, pi, verb)
              args == CaseArgs(wi, pi, v)
              r == Format(CaseFmt(d), args, chars, Cf6)
          IN IF IsUnmStr(r.out) THEN TRUE ELSE          \* (IF, not \/: TLC explores both sides of a disjunction)
             PrintT(ToJson([fam |-> "d", fmt |-> CaseFmt(d), args |-> ArgsJ(args), chars |-> chars, verb |-> verb,
                            flags |-> FlagText(flags), wk |-> d.wk, pk |-> d.pk, ub |-> UbFlags(d),
                            cn |-> PNumJ(ConvNum(verb, v)), cs |-> (IF verb = c_s THEN ToStr(v, Cf6) ELSE <<>>),
                            err |-> r.err, out |-> r.out]))
  /\ UNCHANGED <<fam, verb, v, chars>>
PickM ==
  /\ fam = "m" /\ st = 0 /\ st' = 1
  /\ \E mc \in Multi :
       LET r == Format(mc.f, mc.a, chars, Cf6)
       IN IF IsUnmStr(r.out) THEN TRUE ELSE
          PrintT(ToJson([fam |-> "m", fmt |-> mc.f, args |-> ArgsJ(mc.a), chars |-> chars, err |-> r.err, out |-> r.out]))
  /\ UNCHANGED <<fam, verb, v, chars>>
PickO ==
  /\ fam = "o" /\ st = 0 /\ st' = 1
  /\ \E j \in 1..Len(OFMTs) :
       LET str == NumToStr(v.n, OFMTs[j])
       IN IF IsUnmStr(str) THEN TRUE ELSE
          PrintT(ToJson([fam |-> "o", n |-> PNumJ(v.n), of |-> CfText(OFMTs[j]), integral |-> InInt64(v.n), out |-> str]))
  /\ UNCHANGED <<fam, verb, v, chars>>
Next == PickD \/ PickM \/ PickO
Spec == Init /\ [][Next]_vars
=============================================================================
