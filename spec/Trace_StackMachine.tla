-------------------------- MODULE Trace_StackMachine --------------------------
(* Validates the stack-pointer changes observed on the real VM (verif step     *)
(* hook: one event per distinct executed (opcode, operands, change)) against    *)
(* the Effect operator of StackMachine.tla.                                     *)
(*   {"ev":"delta","op":name,"a":[operand words],"d":change,"ns":n,"illegal":t} *)
(* ns = number of scalar parameters of the callee for CallUser.                 *)
EXTENDS StackMachine, TraceBase

VARIABLES l
Init == l = 1
TStep ==
  /\ l <= NLog /\ Log[l].ev = "delta"
  /\ LET ev == Log[l]
         pg == [illegal |-> ev.illegal, funcs |-> <<[numScalars |-> ev.ns]>>]
         a == IF ev.op = "CallUser" THEN <<0>> \o Tail(ev.a) ELSE ev.a
     IN IF ev.op \notin OpNames
        THEN Reject(l, [expected |-> "an opcode the specification knows"]) /\ l' = l + 1
        ELSE LET eff == Effect(ev.op, a, pg)
             IN IF ev.d = eff[2] - eff[1] THEN l' = l + 1
                ELSE Reject(l, [expected |-> eff[2] - eff[1]]) /\ l' = l + 1
TReset == l <= NLog /\ Log[l].ev = "reset" /\ l' = l + 1
TDone == l = NLog + 1 /\ PrintT("TRACE-END") /\ l' = l + 1
Next == TStep \/ TReset \/ TDone
Spec == Init /\ [][Next]_<<l>>
=============================================================================
