--------------------------- MODULE MC_NativeProgram ---------------------------
(* Every case of Native!PosCases (call positions x signatures x error modes)  *)
(* and of Native!KeepCases(MaxCalls) (result kinds x memory policies x        *)
(* holding places x argument lists): an error aborts the run in EVERY         *)
(* position; kept results never change.  Refuted for DropIn = {"range-stop"}  *)
(* and for Alias = TRUE (tools/props/c17.py runs both).                       *)
EXTENDS NativeProgram
=============================================================================
