SPECIFICATION Spec
CONSTANTS
  Pairs = TRUE
  ReLen = 3
INVARIANTS StrRoundTrip EscRoundTrip ReRoundTrip SpellIsClosed
CHECK_DEADLOCK FALSE
