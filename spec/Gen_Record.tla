----------------------------- MODULE Gen_Record -----------------------------
(* Behaviour export for Record: every history of Depth operation instances  *)
(* (exhaustive under TLC's BFS, random walks under -simulate), each with    *)
(* the observable record state the specification predicts after every step. *)
(* One JSON line per complete history is printed; the harness replays it.   *)
EXTENDS RecordMachine, Json

CONSTANT Depth, MaxNF, Rich

Texts == { <<>>, <<c_a, SP, c_b>>, <<SP, c_a, SP, SP, c_b, SP>>, <<c_a, COMMA, c_b, COMMA>>,
           <<c_a, COLON, c_b, COMMA, D1>>, <<c_a, c_a, c_b, c_a, c_b, c_b>>, <<D1, SP, D2>> }
         \cup (IF Rich THEN { <<c_a>>, <<COMMA, c_a, COMMA, COMMA, SP, c_b>>, <<c_a, TAB, c_b, SP, D1>>, <<c_b, c_b>> } ELSE {})
Set0Texts == { <<>>, <<c_a, TAB, c_b, LF, D1>>, <<c_a, COMMA, SP, c_b, COLON>> }
         \cup (IF Rich THEN { <<SP>>, <<c_b, c_a, c_b>> } ELSE {})
Vals  == { <<>>, <<c_x>>, <<c_a, SP, c_b>> } \cup (IF Rich THEN { <<c_a, COMMA, DQ>>, <<SP, D1>> } ELSE {})
FSs   == { FsSpace, FsChar(COMMA), FsRe(Cat(Lit(COMMA), Star(Lit(SP)))), FsRe(Alt(Lit(c_a), Cat(Lit(c_a), Lit(c_b)))),
           FsRe(Star(Lit(c_b))) }
         \cup (IF Rich THEN { FsChar(COLON), FsChar(TAB), FsChar(BAR), FsRe(Plus(Cls({COMMA, COLON}))), FsRe(Opt(Lit(c_a))) } ELSE {})
OFSs  == { <<MINUS>>, <<>> } \cup (IF Rich THEN { <<SP>>, <<COMMA, SP>> } ELSE {})

\* numeric spellings: n is the integer AWK truncates the source text to
IdxSpell == { [n |-> 0 - 1, src |-> "-1"], [n |-> 0, src |-> "0"], [n |-> 1, src |-> "1"], [n |-> 2, src |-> "2"],
              [n |-> 3, src |-> "3"], [n |-> 5, src |-> "NF+2"], [n |-> 2, src |-> "2.7"], [n |-> 0 - 4, src |-> "-4"],
              [n |-> MaxField + 1, src |-> "1000001"],
              \* beyond every integer type: still "beyond the limit", never a negative index
              [n |-> MaxField + 1, src |-> "2^64"], [n |-> MaxField + 1, src |-> "-log(0)"] }
            \cup (IF Rich THEN { [n |-> 0 - 2, src |-> "-2"], [n |-> 1, src |-> "\"1x\""], [n |-> 0, src |-> "-0.5"],
                                 [n |-> 1, src |-> "1.5"] } ELSE {})
NFSpell  == { [n |-> 0 - 1, src |-> "-1"], [n |-> 0, src |-> "0"], [n |-> 1, src |-> "1"], [n |-> 2, src |-> "2.7"],
              [n |-> 4, src |-> "4"], [n |-> MaxField + 1, src |-> "1000001"] }
            \cup (IF Rich THEN { [n |-> 2, src |-> "\"2x\""], [n |-> 3, src |-> "3"], [n |-> 0, src |-> "0.9"], [n |-> 0, src |-> "-0.9"] } ELSE {})

\* "NF+2" is relative to the current record, so the menu depends on it
Menu(rc) ==
       {[op |-> "read", s |-> s1] : s1 \in Texts}
  \cup {[op |-> "set0", s |-> s1] : s1 \in Set0Texts}
  \cup {[op |-> "setf", k |-> (IF sp.src = "NF+2" THEN RecNF(rc) + 2 ELSE sp.n), v |-> v1, src |-> sp.src] : sp \in IdxSpell, v1 \in Vals}
  \cup {[op |-> "setnf", m |-> sp.n, src |-> sp.src] : sp \in NFSpell}
  \cup {[op |-> "setfs", fsv |-> f1, text |-> FsText(f1)] : f1 \in FSs}
  \cup {[op |-> "setofs", s |-> s1] : s1 \in OFSs}
  \cup {[op |-> "setom", md |-> m1] : m1 \in {"default", "csv"} \cup (IF Rich THEN {"tsv"} ELSE {})}
  \cup {[op |-> "getf", k |-> (IF sp.src = "NF+2" THEN RecNF(rc) + 2 ELSE sp.n), src |-> sp.src] : sp \in {q \in IdxSpell : q.n <= MaxField}}
  \cup {[op |-> "getnf"]}
  \cup {[op |-> "incr", k |-> k1] : k1 \in {1, 2, 0 - 1, 0 - 4}}
  \cup {[op |-> "augf", k |-> k1, d |-> 2] : k1 \in {2, 0 - 1} \cup (IF Rich THEN {1, 4} ELSE {})}
  \cup {[op |-> "subf", k |-> k1, gl |-> g1, re |-> r1, rp |-> p1, text |-> Render(r1)]
         : k1 \in {0, 2, 4} \cup (IF Rich THEN {1, 0 - 1} ELSE {}), g1 \in BOOLEAN,
           r1 \in {Lit(c_b), Star(Lit(c_x))} \cup (IF Rich THEN {Cat(Lit(c_a), Opt(Lit(SP))), Lit(COMMA)} ELSE {}),
           p1 \in {<<AMP>>, <<c_q>>} \cup (IF Rich THEN {<<>>, <<AMP, COMMA, AMP>>} ELSE {})}
  \cup {[op |-> "getlinef", k |-> k1, s |-> s1] : k1 \in {0, 2, 4} \cup (IF Rich THEN {1, 0 - 1} ELSE {}),
                                                  s1 \in {<<c_x, SP, c_x>>} \cup (IF Rich THEN {<<>>, <<c_a, COMMA, DQ>>} ELSE {})}

VARIABLES rec, h
vars == <<rec, h>>

Init == rec = RecInit /\ h = <<>>

Next ==
  /\ Len(h) < Depth
  /\ ~rec.err
  /\ \E act \in Menu(rec) :
       /\ Enabled(rec, act, MaxNF)
       /\ rec' = Apply(rec, act)
       /\ h' = Append(h, [act |-> act, obs |-> RecObs(rec'), read |-> ReadValue(rec, act), err |-> rec'.err,
                           lenient |-> NegOutOfRange(rec, act)])
       /\ (Len(h') = Depth \/ rec'.err) => PrintT(ToJson([fam |-> "record", steps |-> h']))

Spec == Init /\ [][Next]_vars
=============================================================================
