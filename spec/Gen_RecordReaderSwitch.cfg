SPECIFICATION Spec
CONSTANTS
  MaxLen = 5
  Afters = {1, 2}
CHECK_DEADLOCK FALSE
