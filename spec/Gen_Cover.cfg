SPECIFICATION Spec
CONSTANTS
  MaxField = 1000000
  MaxNum = 30000
  Fuel = 150
  Families = {"call"}
CHECK_DEADLOCK FALSE
