SPECIFICATION Spec
CONSTANTS
  MaxField = 1000000
  MaxNum = 30000
  Fuel = 40
  Families = {"call"}
CHECK_DEADLOCK FALSE
