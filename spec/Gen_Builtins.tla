---------------------------- MODULE Gen_Builtins ----------------------------
(* Behaviour export for Builtins: every history of at most Depth builtin     *)
(* calls (first call from Menu, later calls from Menu2; which histories are  *)
(* extended: BuiltinsMenu!Extendable) from every subject in both modes, with *)
(* the observable state the specification predicts after every call.  One    *)
(* JSON line per complete history; the harness replays it.                   *)
EXTENDS BuiltinsMenu, TLC, Json

CONSTANT Depth

NumJ(x) == [k |-> x.k, v |-> x.v]
\* the call as the harness needs it: regexes as source text
ActJ(call) ==
  CASE call.op = "match"  -> [op |-> "match", re |-> RenderB(call.r)]
    [] call.op = "substr" -> [op |-> "substr", m |-> NumJ(call.m), n |-> NumJ(call.n)]
    [] call.op = "index"  -> [op |-> "index", pat |-> call.pat]
    [] call.op = "split"  -> [op |-> "split", sepk |-> call.sep.k, sep |-> SepText(call.sep)]
    [] call.op \in {"sub", "gsub"} -> [op |-> call.op, re |-> RenderB(call.r), repl |-> call.repl]
    [] call.op = "length" -> [op |-> "length"]
    [] call.op = "int"    -> [op |-> "int", x |-> NumJ(call.x)]

VARIABLES mode, s0, st, h
vars == <<mode, s0, st, h>>

Init == /\ mode \in {"bytes", "chars"}
        /\ s0 \in Subjects
        /\ st = StInit(s0)
        /\ h = <<>>

Next ==
  /\ Len(h) < Depth
  /\ h # <<>> => h[Len(h)].chg
  /\ \E call \in (IF h = <<>> THEN Menu(st) ELSE Menu2(st)) :
       /\ Enabled(st, call)
       /\ st' = Apply(st, call, mode)
       /\ h' = Append(h, [act |-> ActJ(call), obs |-> Obs(st'), open |-> Open(st, call, mode),
                          ms |-> MatchesOf(st, call), chg |-> Extendable(call, s0)])
       /\ (Len(h') = Depth \/ ~Extendable(call, s0)) =>
             PrintT(ToJson([fam |-> "builtins", mode |-> mode, s |-> s0, steps |-> h']))
  /\ UNCHANGED <<mode, s0>>

Spec == Init /\ [][Next]_vars
=============================================================================
