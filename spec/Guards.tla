------------------------------- MODULE Guards -------------------------------
(***************************************************************************)
(* C02, part 1: every place where a script-controlled value reaches a      *)
(* conversion or a limit of the interpreter, crossed with the value        *)
(* classes that matter there.  The specification only says which outcome   *)
(* CLASS the property prescribes:                                          *)
(*   "must-error"  the run has to end with an error value (runaway         *)
(*                 recursion, oversized field numbers, invalid dynamic     *)
(*                 regular expressions);                                   *)
(*   "no-panic"    any exit status or error value, but never a panic.      *)
(* A guard case is [site, val, cfg]; the harness owns the AWK spelling of  *)
(* each site and value (table in harness/c02), the specification owns the  *)
(* verdict rule.  Every case is executed twice on one Interpreter (a       *)
(* failure remembered from the first run must not crash the second).       *)
(***************************************************************************)
EXTENDS Integers, Sequences, FiniteSets, TLC, Json

\* numeric sites: a number reaches an index / length / count conversion
NumSites == {"field-read", "field-assign", "field-incr", "nf-assign", "argc-assign", "substr-pos", "substr-len", "printf-c",
             "printf-d", "printf-star-width", "printf-star-prec", "exit-status", "srand", "int", "subscript", "pow", "mod", "div",
             "getline-field", "split-limit", "nr-assign", "index-arg", "repeat-concat", "sprintf-width-literal"}
\* string sites: a string reaches a separator / mode / regex / name position
StrSites == {"rs", "fs", "subsep", "convfmt", "ofmt", "ors", "ofs", "dyn-regex-match", "dyn-regex-split", "dyn-regex-sub",
             "dyn-regex-matchfn", "inputmode", "outputmode", "getline-file", "close-name", "printf-format", "field-sep-arg",
             "rs-then-read", "fs-then-read", "operand-fs", "operand-rs", "operand-other",
             \* the separator is assigned while a reader made for another KIND of separator (regex, multi-byte character) is active
             "rs-regex-then-read", "rs-mbchar-then-read", "fs-regex-then-read"}
OtherSites == {"recursion", "mutual-recursion", "deep-expression", "many-fields", "long-record", "recursion-with-locals",
               "runaway-recursion-with-locals", "field-values", "getline-other-file-wider", "getline-var-in-csv",
               \* a format that was used correctly before is used again with fewer / other arguments (translations are memoised)
               "format-again-with-fewer-args", "format-again-with-other-kinds",
               \* a format that ends inside a conversion, after a flag / a width / a precision / a star
               "format-ends-after-flag", "format-ends-after-width", "format-ends-after-precision", "format-ends-after-star"}

\* numeric value classes: sign, magnitude relative to the field limit and the integer ranges, fractional or not
NumVals == {"-huge", "-int64", "-int32", "-1", "-0.5", "0", "0.5", "1", "limit-1", "limit", "limit+1", "int32", "int32+1", "int53",
            "int64", "huge", "inf", "-inf", "nan", "empty-string", "text", "1e400-string"}
Oversized == {"limit+1", "int32", "int32+1", "int53", "int64", "huge", "inf"}

StrVals == {"empty", "one-ascii", "one-nonutf8", "one-multibyte", "two-invalid", "valid-regex", "invalid-regex-paren",
            "invalid-regex-bracket", "invalid-regex-repeat", "long-70k", "nul", "backslash", "csv-mode", "bad-mode", "newline"}
InvalidRegex == {"invalid-regex-paren", "invalid-regex-bracket", "invalid-regex-repeat"}

Cfgs == {"default", "chars", "csv-in", "tsv-in-csv-out", "header"}

Class(site, val) ==
  IF site \in {"field-assign", "nf-assign", "field-incr", "getline-field"} /\ val \in Oversized THEN "must-error"
  ELSE IF site \in {"recursion", "mutual-recursion", "runaway-recursion-with-locals"} THEN "must-error"
  ELSE IF site \in {"dyn-regex-match", "dyn-regex-split", "dyn-regex-sub", "dyn-regex-matchfn"} /\ val \in InvalidRegex THEN "must-error"
  ELSE "no-panic"

Cases ==
       {[site |-> st, val |-> v, cfg |-> cf] : st \in NumSites, v \in NumVals, cf \in {"default", "chars"}}
  \cup {[site |-> st, val |-> v, cfg |-> cf] : st \in StrSites, v \in StrVals, cf \in Cfgs}
  \cup {[site |-> st, val |-> "none", cfg |-> cf] : st \in OtherSites, cf \in {"default", "chars", "csv-in", "tsv-in-csv-out"}}

VARIABLES cs, done
Init == cs \in Cases /\ done = FALSE
Next == /\ ~done /\ done' = TRUE /\ cs' = cs
        /\ PrintT(ToJson([site |-> cs.site, val |-> cs.val, cfg |-> cs.cfg, expect |-> Class(cs.site, cs.val)]))
Spec == Init /\ [][Next]_<<cs, done>>

\* every case has exactly one class, and "must-error" is demanded only where the statement demands it
ClassOK == Class(cs.site, cs.val) \in {"must-error", "no-panic"}
=============================================================================
