------------------------------ MODULE Gen_Values ------------------------------
(* Behaviour export for C05.  The machine of MC_Values (grow a string symbol by *)
(* symbol / pick the operands of a comparison / pick a number and a CONVFMT),   *)
(* printing for every case the observables the specification predicts:          *)
(*  fam "s": one string in its three provenance classes (numeric-string input,  *)
(*           string constant, computed number): ==, <, > against the comparators*)
(*           KS, !v, v+0, v "" (CONVFMT), print v (OFMT) -- under the documented *)
(*           GoAWK dialect (main) and under the other dialects that matter for  *)
(*           the string (alts: only consistency is judged on open forms);       *)
(*  fam "p": an ordered pair of the value set with the six operators;           *)
(*  fam "v": a number converted to a string with CONVFMT and OFMT;              *)
(*  fam "c": a decimal of 16-19 significant digits (beyond what this text can   *)
(*           turn into a float64, so its value is Unm): all that is predicted   *)
(*           is what Consistent states -- comparison and arithmetic read the    *)
(*           same number out of it, so v == v+0 holds and v < v+0, v > v+0 do   *)
(*           not, for the numeric-string provenances.                           *)
(* Strings of up to FullLen symbols are all exported; longer ones (up to        *)
(* MaxLen) only in the stratum Stratum of NStrata (chosen by the seed).         *)
EXTENDS ValuesCases, TLC, Json

CONSTANTS MaxLen, FullLen, NStrata, Stratum

VARIABLES k, s, len, a
vars == <<k, s, len, a>>

RECURSIVE WSum(_, _)
WSum(str, j) == IF j > Len(str) THEN 0 ELSE (j + 1) * str[j] + WSum(str, j + 1)
CfOf(str) == (WSum(str, 1) % NCF) + 1
OfOf(str) == ((WSum(str, 1) + 1 + (Len(str) % (NCF - 1))) % NCF) + 1
Selected(str, n) == n <= FullLen \/ (WSum(str, 1) % NStrata) = Stratum

NonIntegralNum(v) == v.tag = "num" /\ v.n.t = "fin" /\ ~IsIntegral(v.n)
PairCfs(a1, b1) == IF (NonIntegralNum(a1) /\ b1.tag \in {"str", "strnum"}) \/ (NonIntegralNum(b1) /\ a1.tag \in {"str", "strnum"})
                   THEN {1, 3, 6} ELSE {1}

\* digits of the long decimals: a fixed pseudo-random sequence per seed value
LDig(j, sd) == (j * j * 7 + j * sd * 3 + sd + (j \div 3) * (sd \div 2)) % 10
LongDec(ni, nf, sd, neg) ==
  (IF neg THEN <<MINUS>> ELSE <<>>)
  \o [j \in 1..ni |-> 48 + (IF j = 1 THEN 1 + (LDig(j, sd) % 9) ELSE LDig(j, sd))] \o <<DOT>>
  \o [j \in 1..nf |-> 48 + (IF j = nf THEN 1 + (LDig(ni + j, sd) % 9) ELSE LDig(ni + j, sd))]
LongDecs == {LongDec(ni, nf, sd, neg) : ni \in {0, 1, 3, 8}, nf \in 8..19, sd \in 1..6, neg \in BOOLEAN}
ConsCase(str) == [fam |-> "c", s |-> str, cls |-> "long-decimal", cf |-> CfText(CFs[1]), of |-> CfText(CFs[1]),
                  looks |-> WholeParse(str, GoawkDialect).t # "str"]

Init == \/ k = "c0" /\ s \in {str \in LongDecs : Len(SelectSeq(str, LAMBDA ch : ch >= 48 /\ ch <= 57)) \in 16..19} /\ len = 0 /\ a = VNull
        \/ k = "s0" /\ s = <<>> /\ len = 0 /\ a = VNull
        \/ k = "a" /\ s = <<>> /\ len = 0 /\ a \in Vals
        \/ k = "n" /\ s = <<>> /\ len = 0 /\ a \in {VNum(n1) : n1 \in ToStrNums}

Start == k = "s0" /\ k' = "s" /\ PrintT(ToJson(StrCase(<<>>, 1, 2))) /\ UNCHANGED <<s, len, a>>
Feed  == /\ k = "s" /\ len < MaxLen
         /\ \E sy \in Syms :
              /\ Selected(s \o sy, len + 1)
              /\ s' = s \o sy /\ len' = len + 1
              /\ PrintT(ToJson(StrCase(s', CfOf(s'), OfOf(s'))))
         /\ UNCHANGED <<k, a>>
PickB == /\ k = "a" /\ k' = "p"
         /\ \E b1 \in Vals : \E j \in PairCfs(a, b1) :
              /\ s' = b1.s /\ len' = j
              /\ PrintT(ToJson(PairCase(a, b1, j)))
         /\ UNCHANGED a
PickCf == /\ k = "n" /\ k' = "v"
          /\ \E j \in 1..NCF : \E i \in {j, (j % NCF) + 1} :
               /\ len' = j * 10 + i
               /\ PrintT(ToJson(ToStrCase(a.n, CFs[j], CFs[i])))
          /\ UNCHANGED <<s, a>>
Cons == /\ k = "c0" /\ k' = "c"
        /\ Assert(Consistent(s, GoawkDialect) /\ WholeParse(s, GoawkDialect).t # "str", <<"MODEL DEFECT: long decimal not consistent", s>>)
        /\ PrintT(ToJson(ConsCase(s)))
        /\ UNCHANGED <<s, len, a>>
Next == Start \/ Feed \/ PickB \/ PickCf \/ Cons
Spec == Init /\ [][Next]_vars
=============================================================================
