-------------------------- MODULE MC_SharedProgram --------------------------
(* All interleavings of NProc interpreters over one shared program, for     *)
(* every program body of at most MaxLen instructions over Menu.             *)
EXTENDS SharedProgram

CONSTANTS MaxLen

Menu == { [op |-> "set", g |-> 1, k |-> 3], [op |-> "set", g |-> 2, k |-> 4],
          [op |-> "add", g |-> 1, k |-> 2], [op |-> "add", g |-> 2, k |-> 3],
          [op |-> "match", g |-> 1, k |-> 1], [op |-> "match", g |-> 2, k |-> 2],
          [op |-> "call", g |-> 1, k |-> 0], [op |-> "print", g |-> 1, k |-> 0] }

RECURSIVE Bodies(_)
Bodies(n) == IF n = 0 THEN {<<>>} ELSE Bodies(n - 1) \cup {Append(b, m) : b \in {c \in Bodies(n - 1) : Len(c) = n - 1}, m \in Menu}

VARIABLES body, program, interp, acc
vars == <<body, program, interp, acc>>

NoAcc == [p |-> 0, reads |-> {}, writes |-> {}]
Init ==
  /\ body \in Bodies(MaxLen)
  /\ program = MkProgram(body)
  /\ interp = [i \in 1..NProc |-> NoInterp]
  /\ acc = NoAcc

\* interp.New(program): allocate private state (sizes are read from the program's tables)
New(i) ==
  /\ interp[i].status = "none"
  /\ interp' = [interp EXCEPT ![i] = NewInterp]
  /\ acc' = [p |-> i, reads |-> {PLoc("sizes", 0)}, writes |-> {ILoc(i, "g", 1), ILoc(i, "g", 2), ILoc(i, "pc", 0), ILoc(i, "out", 0)}]
  /\ UNCHANGED <<body, program>>
\* one VM instruction of interpreter i
Step(i) ==
  /\ interp[i].status = "run"
  /\ LET e == Exec1(program, interp[i], i)
     IN /\ interp' = [interp EXCEPT ![i] = e.it]
        /\ program' = e.pr
        /\ acc' = [p |-> i, reads |-> e.reads, writes |-> e.writes]
  /\ UNCHANGED body
Next == \E i \in 1..NProc : New(i) \/ Step(i)
Spec == Init /\ [][Next]_vars

Immutable     == [][program' = program]_vars
NoSharedWrite == NoSharedWriteP(acc)
NoForeignRead == NoForeignReadP(acc)
Equivalent    == EquivalentP(body, interp)
=============================================================================
