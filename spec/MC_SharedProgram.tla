-------------------------- MODULE MC_SharedProgram --------------------------
(* All interleavings of NProc processes over one shared program, each        *)
(* executing it MaxRuns times (every execution with an interpreter of its    *)
(* own), for every program body of at most MaxLen instructions over Menu.    *)
(* Cmds = TRUE: the menu of the instructions that start commands (system,     *)
(* cmd | getline, print | cmd, close), every process with a command string    *)
(* of its own; starting a command takes two steps, and the interleavings      *)
(* between them are where the SharedShellArgs slip shows.                     *)
(* Extra = "formats": conversions of a non-integer number, every process with *)
(* number formats of its own; refuted under SharedShellArgs (the determined    *)
(* format is one process-level location).                                     *)
(* Extra = "rules": the menu of range rules (executions that end inside a range  *)
(* included); with MaxRuns = 2 the SharedCache slip -- the in-range flags are  *)
(* a table of the program -- is refuted (Equivalent, NoSharedWrite).          *)
EXTENDS SharedProgram

CONSTANTS MaxLen, Cmds, Extra

\* regular expression 3 (/1|10/) is used both as the compiled literal ("match") and, with the same source, on the
\* run-time path ("rlen"), where leftmost-longest matters
CmdMenu == { [op |-> "set", g |-> 1, k |-> 3], [op |-> "print", g |-> 1, k |-> 0],
             [op |-> "system", g |-> 1, k |-> 0], [op |-> "cmdgetline", g |-> 1, k |-> 0],
             [op |-> "printcmd", g |-> 1, k |-> 0], [op |-> "close", g |-> 1, k |-> 0] }
\* Extra = "rules": programs with range rules  NR == lo, NR == hi  over the three records of the input -- closing before
\* the end, at the record that opens them, or never (hi = 9: the execution ends inside the range)
RuleMenu == { [op |-> "range", g |-> 1, k |-> 2], [op |-> "range", g |-> 2, k |-> 9], [op |-> "range", g |-> 3, k |-> 3],
              [op |-> "set", g |-> 1, k |-> 3], [op |-> "print", g |-> 1, k |-> 0] }
\* Extra = "formats": conversions of a non-integer number under the formats of the execution (OFMT, CONVFMT)
FmtMenu == { [op |-> "set", g |-> 1, k |-> 3], [op |-> "add", g |-> 1, k |-> 2], [op |-> "oprint", g |-> 1, k |-> 0],
             [op |-> "conv", g |-> 1, k |-> 0], [op |-> "print", g |-> 1, k |-> 0] }
Menu == IF Extra = "rules" THEN RuleMenu ELSE IF Extra = "formats" THEN FmtMenu ELSE IF Cmds THEN CmdMenu ELSE
        { [op |-> "set", g |-> 1, k |-> 3], [op |-> "set", g |-> 2, k |-> 4],
          [op |-> "add", g |-> 1, k |-> 2], [op |-> "add", g |-> 2, k |-> 3],
          [op |-> "match", g |-> 1, k |-> 1], [op |-> "match", g |-> 2, k |-> 3],
          [op |-> "rlen", g |-> 2, k |-> 3],
          [op |-> "call", g |-> 1, k |-> 0], [op |-> "print", g |-> 1, k |-> 0],
          [op |-> "rand", g |-> 1, k |-> 0], [op |-> "srand", g |-> 1, k |-> 3] }

RECURSIVE Bodies(_)
Bodies(n) == IF n = 0 THEN {<<>>} ELSE Bodies(n - 1) \cup {Append(b, m) : b \in {c \in Bodies(n - 1) : Len(c) = n - 1}, m \in Menu}

VARIABLES body, program, shell, interp, runs, spare, acc
vars == <<body, program, shell, interp, runs, spare, acc>>

NoAcc == [p |-> 0, reads |-> {}, writes |-> {}]
Init ==
  /\ body \in Bodies(MaxLen)
  /\ program = MkProgram(body)
  /\ shell = NoShell
  /\ interp = [i \in 1..NProc |-> NoInterp]
  /\ runs = [i \in 1..NProc |-> 0]
  /\ spare = NoInterp
  /\ acc = NoAcc

\* the next execution of process i begins -- interp.New(program) or the allocation inside interp.ExecProgram:
\* private state (sizes are read from the program's tables); the previous interpreter of the process is dropped
New(i) ==
  /\ interp[i].status \in {"none", "done"} /\ runs[i] < MaxRuns
  /\ interp' = [interp EXCEPT ![i] = StartInterpOf(i, spare)]
  /\ runs' = [runs EXCEPT ![i] = @ + 1]
  /\ spare' = IF ReuseInterp THEN NoInterp ELSE spare
  /\ acc' = [p |-> i, reads |-> {PLoc("sizes", 0)} \cup (IF ReuseInterp /\ spare.status = "done" THEN {<<"pool", 0>>} ELSE {}),
             writes |-> {ILoc(i, "g", 1), ILoc(i, "g", 2), ILoc(i, "pc", 0), ILoc(i, "out", 0), ILoc(i, "rc", 0), ILoc(i, "rng", 0),
                         ILoc(i, "cmd", 0), ILoc(i, "argv", 0), ILoc(i, "ph", 0), ILoc(i, "rd", 0), ILoc(i, "open", 0), ILoc(i, "fmt", 0)}]
  /\ UNCHANGED <<body, program, shell>>
\* one VM instruction of the current execution of process i (one of the two steps of one that starts a command)
Step(i) ==
  /\ interp[i].status = "run"
  /\ LET e == ExecP(program, shell, interp[i], i)
     IN /\ interp' = [interp EXCEPT ![i] = e.it]
        /\ program' = e.pr
        /\ shell' = e.sh
        /\ acc' = [p |-> i, reads |-> e.reads, writes |-> e.writes]
        /\ spare' = IF ReuseInterp /\ e.it.status = "done" THEN e.it ELSE spare
  /\ UNCHANGED <<body, runs>>
Next == \E i \in 1..NProc : New(i) \/ Step(i)
Spec == Init /\ [][Next]_vars

Immutable     == [][program' = program]_vars
NoSharedWrite == NoSharedWriteP(acc)
NoForeignRead == NoForeignReadP(acc)
Equivalent    == EquivalentP(body, interp)
\* what run-time compilation leaves behind stays in the interpreter: the program's regular expressions are the
\* parser's, leftmost-longest, before and after every execution
RegexesAsCompiled == \A r \in 1..NumRegex : program.regexes[r] = [src |-> r, longest |-> TRUE]
=============================================================================
