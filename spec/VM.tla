--------------------------------- MODULE VM ---------------------------------
(***************************************************************************)
(* The virtual machine of interp/vm.go as an executable specification: one *)
(* case per opcode, operating on the value stack and on the interpreter    *)
(* state of AwkSem (variables, arrays, record, input, output).  Data        *)
(* operations are AwkSem's; what this module adds is exactly what the      *)
(* compiler and the VM add to the meaning of a program: evaluation through *)
(* a stack, operand order, jumps, frames, nested execution for for-in and  *)
(* calls.                                                                  *)
(*                                                                         *)
(* It runs REAL byte code: a compiled program dumped by the harness        *)
(*   cp = [begin, actions (seq of [pattern (seq of code), body, nobody]),  *)
(*         end, funcs (seq of [name, scalarParams, arrayParams, code]),    *)
(*         nums, strs, regexes (trees), strRegex (regex tree of a string   *)
(*         constant used as a dynamic regex, or [k |-> "none"]),           *)
(*         scalarNames, arrayNames, specialNames, opnames, illegal, less,  *)
(*         scopeGlobal, scopeLocal, scopeSpecial]                          *)
(* MC_VM checks, for every program TLC generated for C01 and every random  *)
(* program recorded from the real interpreter, that the real compiler's    *)
(* code run on this machine yields the outcome of the reference semantics  *)
(* (translation validation of the compiler, inside TLC).                   *)
(***************************************************************************)
EXTENDS AwkSem, StackMachine

\* machine state: [st (AwkSem state), stack, fn (index of the executing function, 0 = none)]
Push(m, v) == [m EXCEPT !.stack = Append(@, v)]
Top1(m) == m.stack[Len(m.stack)]
Top2(m) == m.stack[Len(m.stack) - 1]       \* the value below the top
Top3(m) == m.stack[Len(m.stack) - 2]
PopN(m, n) == [m EXCEPT !.stack = SubSeq(@, 1, Len(@) - n)]
TopN(m, n) == SubSeq(m.stack, Len(m.stack) - n + 1, Len(m.stack))
WithSt(m, s2) == [m EXCEPT !.st = s2]
BadM(m) == WithSt(m, Halt(m.st, "bad"))
ErrM(m) == WithSt(m, Halt(m.st, "err"))

ScalarName(cp, m, scope, idx) ==
  IF scope = cp.scopeGlobal THEN cp.scalarNames[idx + 1]
  ELSE IF scope = cp.scopeLocal THEN cp.funcs[m.fn].scalarParams[idx + 1]
  ELSE cp.specialNames[ToString(idx)]
ArrayIdOf(cp, m, scope, idx) ==
  IF scope = cp.scopeGlobal THEN cp.arrayNames[idx + 1]
  ELSE m.st.fr[Len(m.st.fr)][cp.funcs[m.fn].arrayParams[idx + 1]].id

ElemGet(st, id, key) == LET ar == ArrGet(st, id) IN IF key \in DOMAIN ar THEN ar[key] ELSE Null
ElemTouch(st, id, key) ==       \* reading an element creates it
  LET ar == ArrGet(st, id) IN IF key \in DOMAIN ar THEN st ELSE [st EXCEPT !.arr = Update(@, id, Update(ar, key, Null))]
ElemSet(st, id, key, v) == [st EXCEPT !.arr = Update(@, id, Update(ArrGet(st, id), key, v))]

FieldIdx(m, v) == NumOf(v)       \* BADN if not a modelled number

BinArith == [Add |-> "+", Subtract |-> "-", Multiply |-> "*", Divide |-> "/", Power |-> "^", Modulo |-> "%"]
BinCmp == [Equals |-> "==", NotEquals |-> "!=", Less |-> "<", Greater |-> ">", LessOrEqual |-> "<=", GreaterOrEqual |-> ">=",
           JumpEquals |-> "==", JumpNotEquals |-> "!=", JumpLess |-> "<", JumpGreater |-> ">", JumpLessOrEqual |-> "<=",
           JumpGreaterOrEqual |-> ">="]
AugOps == <<"+", "-", "*", "/", "^", "%">>

\* numeric binary operation on two values: a value, or the machine halted
ArithM(m, op, l, r) ==      \* <<ok, value-or-machine>>
  LET x == NumOf(l) y == NumOf(r)
  IN IF x = BADN \/ y = BADN THEN <<FALSE, BadM(m)>>
     ELSE LET av == Arith(op, x, y)
          IN IF av.t = "divzero" THEN <<FALSE, ErrM(m)>>
             ELSE IF IsBadV(av) THEN <<FALSE, BadM(m)>> ELSE <<TRUE, av>>
CmpM(op, l, r) == IF l.t = "fstr" \/ r.t = "fstr" THEN 9 ELSE Cmp(l, r)
TruthM(v) == IF v.t = "fstr" THEN 2 ELSE Truth(v)

RECURSIVE Exe(_, _, _, _), Instr(_, _, _, _), ForInKeys(_, _, _, _, _, _)

\* assign v to the scalar (scope, idx)
SetScalar(cp, m, scope, idx, v) == WithSt(m, SetVar(m.st, ScalarName(cp, m, scope, idx), v))
GetScalar(cp, m, scope, idx) == GetVar(m.st, ScalarName(cp, m, scope, idx))

\* getline helper: <<ret, line, machine>>; redirect ILLEGAL = main input, LESS = file (name on the stack)
GetlineM(cp, m, redirect) ==
  IF redirect = cp.illegal THEN
    LET r == NextMain(m.st, 12)
    IN IF ~Live(r.st) THEN <<0, <<>>, WithSt(m, r.st)>>
       ELSE IF r.found THEN <<1, r.line, WithSt(m, r.st)>> ELSE <<0, <<>>, WithSt(m, r.st)>>
  ELSE IF redirect = cp.less THEN
    LET fname == ToStr(Norm(Top1(m)))
        m1 == PopN(m, 1)
    IN IF fname \notin DOMAIN m1.st.files THEN <<0 - 1, <<>>, m1>>
       ELSE LET pos == Lookup(m1.st.readers, fname, 1)
            IN IF pos > Len(m1.st.files[fname]) THEN <<0, <<>>, WithSt(m1, [m1.st EXCEPT !.readers = Update(@, fname, pos)])>>
               ELSE <<1, m1.st.files[fname][pos], WithSt(m1, [m1.st EXCEPT !.readers = Update(@, fname, pos + 1)])>>
  ELSE <<0, <<>>, BadM(m)>>

\* one instruction at ip of code; returns <<next ip, machine>>
Instr(cp, code, ip, m) ==
  LET op == cp.opnames[ToString(code[ip + 1])]
      A(j) == code[ip + 1 + j]
      na == IF op = "CallUser" THEN 2 + 2 * A(2) ELSE Operands[op]
      nx == ip + 1 + na
      st == m.st
  IN
  CASE op = "Nop" -> <<nx, m>>
    [] op = "Num" -> <<nx, Push(m, Num(cp.nums[A(1) + 1]))>>
    [] op = "Str" -> <<nx, Push(m, Str(cp.strs[A(1) + 1]))>>
    [] op = "Dupe" -> <<nx, Push(m, Top1(m))>>
    [] op = "Drop" -> <<nx, PopN(m, 1)>>
    [] op = "Swap" -> <<nx, Push(Push(PopN(m, 2), Top1(m)), Top2(m))>>
    [] op = "Rote" -> <<nx, Push(Push(Push(PopN(m, 3), Top2(m)), Top1(m)), Top3(m))>>
    [] op \in {"Field", "FieldInt"} ->
         LET k == IF op = "Field" THEN FieldIdx(m, Top1(m)) ELSE A(1)
             m1 == IF op = "Field" THEN PopN(m, 1) ELSE m
         IN IF k = BADN \/ k < 0 - RecNF(st.rec) THEN <<nx, BadM(m)>> ELSE <<nx, Push(m1, GetField(st, k))>>
    [] op \in {"Global", "Local", "Special"} ->
         <<nx, Push(m, GetScalar(cp, m, CASE op = "Global" -> cp.scopeGlobal [] op = "Local" -> cp.scopeLocal [] OTHER -> cp.scopeSpecial, A(1)))>>
    [] op \in {"ArrayGlobal", "ArrayLocal"} ->
         LET id == ArrayIdOf(cp, m, IF op = "ArrayGlobal" THEN cp.scopeGlobal ELSE cp.scopeLocal, A(1))
             key == ToStr(Norm(Top1(m)))
         IN <<nx, Push(WithSt(PopN(m, 1), ElemTouch(st, id, key)), ElemGet(st, id, key))>>
    [] op \in {"InGlobal", "InLocal"} ->
         LET id == ArrayIdOf(cp, m, IF op = "InGlobal" THEN cp.scopeGlobal ELSE cp.scopeLocal, A(1))
         IN <<nx, Push(PopN(m, 1), Bool(ToStr(Norm(Top1(m))) \in DOMAIN ArrGet(st, id)))>>
    [] op = "AssignField" ->          \* stack: value, index
         LET k == FieldIdx(m, Top1(m)) IN
         IF k = BADN THEN <<nx, BadM(m)>> ELSE <<nx, WithSt(PopN(m, 2), SetField(st, k, Norm(Top2(m))))>>
    [] op = "AssignFieldSub" ->       \* stack: n, value, index  (n stays)
         LET k == FieldIdx(m, Top1(m)) cnt == NumOf(Top3(m)) IN
         IF k = BADN \/ cnt = BADN THEN <<nx, BadM(m)>>
         ELSE <<nx, IF cnt > 0 THEN WithSt(PopN(m, 2), SetField(st, k, Norm(Top2(m)))) ELSE PopN(m, 2)>>
    [] op \in {"AssignGlobal", "AssignLocal", "AssignSpecial"} ->
         <<nx, SetScalar(cp, PopN(m, 1), CASE op = "AssignGlobal" -> cp.scopeGlobal [] op = "AssignLocal" -> cp.scopeLocal [] OTHER -> cp.scopeSpecial,
                          A(1), Norm(Top1(m)))>>
    [] op \in {"AssignArrayGlobal", "AssignArrayLocal"} ->     \* stack: value, index
         LET id == ArrayIdOf(cp, m, IF op = "AssignArrayGlobal" THEN cp.scopeGlobal ELSE cp.scopeLocal, A(1))
         IN <<nx, WithSt(PopN(m, 2), ElemSet(st, id, ToStr(Norm(Top1(m))), Norm(Top2(m))))>>
    [] op = "Delete" ->
         LET id == ArrayIdOf(cp, m, A(1), A(2))
         IN <<nx, WithSt(PopN(m, 1), [st EXCEPT !.arr = Update(@, id, Remove(ArrGet(st, id), ToStr(Norm(Top1(m)))))])>>
    [] op = "DeleteAll" -> <<nx, WithSt(m, [st EXCEPT !.arr = Update(@, ArrayIdOf(cp, m, A(1), A(2)), EmptyFn)])>>
    [] op = "IncrField" ->
         LET k == FieldIdx(m, Top1(m))
             old == IF k = BADN \/ k < 0 - RecNF(st.rec) THEN BADN ELSE NumOf(GetField(st, k))
         IN IF old = BADN \/ ~InRange(old + A(1)) THEN <<nx, BadM(m)>>
            ELSE <<nx, WithSt(PopN(m, 1), SetField(st, k, Num(old + A(1))))>>
    [] op \in {"IncrGlobal", "IncrLocal", "IncrSpecial"} ->
         LET sc == CASE op = "IncrGlobal" -> cp.scopeGlobal [] op = "IncrLocal" -> cp.scopeLocal [] OTHER -> cp.scopeSpecial
             old == NumOf(GetScalar(cp, m, sc, A(2)))
         IN IF old = BADN \/ ~InRange(old + A(1)) THEN <<nx, BadM(m)>> ELSE <<nx, SetScalar(cp, m, sc, A(2), Num(old + A(1)))>>
    [] op \in {"IncrArrayGlobal", "IncrArrayLocal"} ->
         LET id == ArrayIdOf(cp, m, IF op = "IncrArrayGlobal" THEN cp.scopeGlobal ELSE cp.scopeLocal, A(2))
             key == ToStr(Norm(Top1(m)))
             old == NumOf(ElemGet(st, id, key))
         IN IF old = BADN \/ ~InRange(old + A(1)) THEN <<nx, BadM(m)>> ELSE <<nx, WithSt(PopN(m, 1), ElemSet(st, id, key, Num(old + A(1))))>>
    [] op = "AugAssignField" ->       \* stack: right, index
         LET k == FieldIdx(m, Top1(m)) IN
         IF k = BADN \/ k < 0 - RecNF(st.rec) THEN <<nx, BadM(m)>>
         ELSE LET r == ArithM(m, AugOps[A(1) + 1], GetField(st, k), Top2(m))
              IN IF ~r[1] THEN <<nx, r[2]>> ELSE <<nx, WithSt(PopN(m, 2), SetField(st, k, r[2]))>>
    [] op \in {"AugAssignGlobal", "AugAssignLocal", "AugAssignSpecial"} ->
         LET sc == CASE op = "AugAssignGlobal" -> cp.scopeGlobal [] op = "AugAssignLocal" -> cp.scopeLocal [] OTHER -> cp.scopeSpecial
             r == ArithM(m, AugOps[A(1) + 1], GetScalar(cp, m, sc, A(2)), Top1(m))
         IN IF ~r[1] THEN <<nx, r[2]>> ELSE <<nx, SetScalar(cp, PopN(m, 1), sc, A(2), r[2])>>
    [] op \in {"AugAssignArrayGlobal", "AugAssignArrayLocal"} ->     \* stack: right, index
         LET id == ArrayIdOf(cp, m, IF op = "AugAssignArrayGlobal" THEN cp.scopeGlobal ELSE cp.scopeLocal, A(2))
             key == ToStr(Norm(Top1(m)))
             r == ArithM(m, AugOps[A(1) + 1], ElemGet(st, id, key), Top2(m))
         IN IF ~r[1] THEN <<nx, r[2]>> ELSE <<nx, WithSt(PopN(m, 2), ElemSet(st, id, key, r[2]))>>
    [] op = "Regex" -> <<nx, Push(m, Bool(Matches(cp.regexes[A(1) + 1], st.rec.line)))>>
    [] op = "IndexMulti" ->
         LET vs == TopN(m, A(1)) IN
         <<nx, Push(PopN(m, A(1)), Str(Join([j \in 1..A(1) |-> ToStr(Norm(vs[j]))], ToStr(GetVar(st, "SUBSEP")))))>>
    [] op = "ConcatMulti" ->
         LET vs == TopN(m, A(1)) IN <<nx, Push(PopN(m, A(1)), Str(Concat([j \in 1..A(1) |-> ToStr(Norm(vs[j]))])))>>
    [] op \in DOMAIN BinArith ->
         LET r == ArithM(m, BinArith[op], Top2(m), Top1(m)) IN IF ~r[1] THEN <<nx, r[2]>> ELSE <<nx, Push(PopN(m, 2), r[2])>>
    [] op \in {"Equals", "NotEquals", "Less", "Greater", "LessOrEqual", "GreaterOrEqual"} ->
         LET cv == CmpM(op, Top2(m), Top1(m)) IN
         IF cv = 9 THEN <<nx, BadM(m)>> ELSE <<nx, Push(PopN(m, 2), Bool(CmpOp(BinCmp[op], cv)))>>
    [] op = "Concat" -> <<nx, Push(PopN(m, 2), Str(ToStr(Norm(Top2(m))) \o ToStr(Norm(Top1(m)))))>>
    [] op \in {"Match", "NotMatch"} ->
         LET src == ToStr(Norm(Top1(m)))
             hits == {j \in 1..Len(cp.strs) : cp.strs[j] = src /\ cp.strRegex[j].k # "none"}
         IN IF hits = {} THEN <<nx, BadM(m)>>
            ELSE LET hit == Matches(cp.strRegex[CHOOSE j \in hits : TRUE], ToStr(Norm(Top2(m))))
                 IN <<nx, Push(PopN(m, 2), Bool(IF op = "Match" THEN hit ELSE ~hit))>>
    [] op = "Not" -> LET tv == TruthM(Top1(m)) IN IF tv = 2 THEN <<nx, BadM(m)>> ELSE <<nx, Push(PopN(m, 1), Bool(tv = 0))>>
    [] op = "Boolean" -> LET tv == TruthM(Top1(m)) IN IF tv = 2 THEN <<nx, BadM(m)>> ELSE <<nx, Push(PopN(m, 1), Bool(tv = 1))>>
    [] op \in {"UnaryMinus", "UnaryPlus"} ->
         LET x == NumOf(Top1(m)) IN IF x = BADN THEN <<nx, BadM(m)>> ELSE <<nx, Push(PopN(m, 1), Num(IF op = "UnaryMinus" THEN 0 - x ELSE x))>>
    [] op = "Jump" ->
         \* a backward jump costs fuel, so that every run is finite
         IF A(1) < 0 /\ st.fuel <= 0 THEN <<nx, BadM(m)>>
         ELSE <<ip + 2 + A(1), IF A(1) < 0 THEN WithSt(m, [st EXCEPT !.fuel = @ - 1]) ELSE m>>
    [] op \in {"JumpFalse", "JumpTrue"} ->
         LET tv == TruthM(Top1(m))
             taken == (op = "JumpTrue") = (tv = 1)
         IN IF tv = 2 \/ (A(1) < 0 /\ st.fuel <= 0) THEN <<nx, BadM(m)>>
            ELSE <<IF taken THEN ip + 2 + A(1) ELSE nx,
                   IF taken /\ A(1) < 0 THEN WithSt(PopN(m, 1), [st EXCEPT !.fuel = @ - 1]) ELSE PopN(m, 1)>>
    [] op \in CondJump2 ->
         LET cv == CmpM(op, Top2(m), Top1(m))
             taken == cv # 9 /\ CmpOp(BinCmp[op], cv)
         IN IF cv = 9 \/ (A(1) < 0 /\ st.fuel <= 0) THEN <<nx, BadM(m)>>
            ELSE <<IF taken THEN ip + 2 + A(1) ELSE nx,
                   IF taken /\ A(1) < 0 THEN WithSt(PopN(m, 2), [st EXCEPT !.fuel = @ - 1]) ELSE PopN(m, 2)>>
    [] op = "Next" -> <<nx, WithSt(m, Halt(st, "next"))>>
    [] op = "Nextfile" -> <<nx, WithSt(m, Halt(st, "nextfile"))>>
    [] op = "Exit" -> <<nx, WithSt(m, Halt(st, "exit"))>>
    [] op = "ExitStatus" ->
         LET x == NumOf(Top1(m)) IN
         IF x = BADN \/ x < 0 \/ x > 255 THEN <<nx, BadM(m)>> ELSE <<nx, WithSt(PopN(m, 1), [st EXCEPT !.sig = "exit", !.status = x])>>
    [] op = "ForIn" ->
         LET body == SubSeq(code, ip + 7, ip + 6 + A(5))
             keys == SortedKeys(DOMAIN ArrGet(st, ArrayIdOf(cp, m, A(3), A(4))))
         IN <<ip + 6 + A(5), ForInKeys(cp, body, keys, 1, m, <<A(1), A(2)>>)>>
    [] op = "BreakForIn" -> <<nx, WithSt(m, Halt(st, "break"))>>
    [] op = "CallBuiltin" ->
         LET bn == BuiltinNames[A(1) + 1] IN
         CASE bn = "Length" -> <<nx, Push(m, Num(Len(st.rec.line)))>>
           [] bn = "LengthArg" -> <<nx, Push(PopN(m, 1), Num(Len(ToStr(Norm(Top1(m))))))>>
           [] bn = "Int" -> LET x == NumOf(Top1(m)) IN IF x = BADN THEN <<nx, BadM(m)>> ELSE <<nx, Push(PopN(m, 1), Num(x))>>
           [] bn = "Index" ->
                LET pat == ToStr(Norm(Top1(m))) IN
                IF pat = <<>> THEN <<nx, BadM(m)>> ELSE <<nx, Push(PopN(m, 2), Num(FirstOcc(ToStr(Norm(Top2(m))), pat, 1)))>>
           [] bn \in {"Substr", "SubstrLength"} ->
                LET str == ToStr(Norm(IF bn = "Substr" THEN Top2(m) ELSE Top3(m)))
                    pos == NumOf(IF bn = "Substr" THEN Top1(m) ELSE Top2(m))
                    len == IF bn = "Substr" THEN Len(str) + 1 ELSE NumOf(Top1(m))
                IN IF pos = BADN \/ len = BADN \/ pos < 1 THEN <<nx, BadM(m)>>
                   ELSE <<nx, Push(PopN(m, IF bn = "Substr" THEN 2 ELSE 3), Str(SubSeq(str, pos, Clamp(pos + len - 1, pos - 1, Len(str)))))>>
           [] bn \in {"Sub", "Gsub"} ->         \* stack: regex source, replacement, input -> count, output
                LET src == ToStr(Norm(Top3(m)))
                    hits == {j \in 1..Len(cp.strs) : cp.strs[j] = src /\ cp.strRegex[j].k # "none"}
                IN IF hits = {} THEN <<nx, BadM(m)>>
                   ELSE LET res == Substitute(cp.strRegex[CHOOSE j \in hits : TRUE], ToStr(Norm(Top2(m))), ToStr(Norm(Top1(m))), bn = "Gsub")
                        IN <<nx, Push(Push(PopN(m, 3), Num(res[2])), Str(res[1]))>>
           [] bn = "Close" ->
                LET fname == ToStr(Norm(Top1(m))) IN
                IF fname \in DOMAIN st.readers THEN <<nx, Push(WithSt(PopN(m, 1), [st EXCEPT !.readers = Remove(@, fname)]), Num(0))>>
                ELSE <<nx, Push(PopN(m, 1), Num(0 - 1))>>
           [] OTHER -> <<nx, BadM(m)>>
    [] op = "CallLengthArray" -> <<nx, Push(m, Num(Cardinality(DOMAIN ArrGet(st, ArrayIdOf(cp, m, A(1), A(2))))))>>
    [] op \in {"CallSplit", "CallSplitSep"} ->
         LET str == ToStr(Norm(IF op = "CallSplit" THEN Top1(m) ELSE Top2(m)))
             fsv == FsOf(IF op = "CallSplit" THEN GetVar(st, "FS") ELSE Top1(m))
             id == ArrayIdOf(cp, m, A(1), A(2))
         IN IF fsv.k = "bad" \/ (op = "CallSplitSep" /\ A(3) # 0) THEN <<nx, BadM(m)>>
            ELSE LET parts == SplitFS(str, fsv)
                     newarr == [key \in {IntStr(j) : j \in 1..Len(parts)} |-> StrNum(parts[CHOOSE j \in 1..Len(parts) : IntStr(j) = key])]
                 IN <<nx, Push(WithSt(PopN(m, IF op = "CallSplit" THEN 1 ELSE 2), [st EXCEPT !.arr = Update(@, id, newarr)]), Num(Len(parts)))>>
    [] op \in {"CallSprintf", "Printf"} ->
         LET n == A(1)
             vs == TopN(m, n)
             vals == [j \in 1..n |-> Norm(vs[j])]
             txt == Format(ToStr(vals[1]), Tail(vals))
         IN IF txt = FmtBad \/ (op = "Printf" /\ A(2) # cp.illegal) THEN <<nx, BadM(m)>>
            ELSE IF txt = FmtErr THEN <<nx, ErrM(m)>>
            ELSE IF op = "Printf" THEN <<nx, WithSt(PopN(m, n), Emit(st, txt))>> ELSE <<nx, Push(PopN(m, n), Str(txt))>>
    [] op = "Print" ->
         LET n == A(1)
             vs == TopN(m, n)
         IN IF A(2) # cp.illegal THEN <<nx, BadM(m)>>
            ELSE IF n = 0 THEN <<nx, WithSt(m, Emit(st, st.rec.line \o ToStr(GetVar(st, "ORS"))))>>
            ELSE <<nx, WithSt(PopN(m, n), Emit(st, Join([j \in 1..n |-> ToStr(Norm(vs[j]))], ToStr(GetVar(st, "OFS"))) \o ToStr(GetVar(st, "ORS"))))>>
    [] op = "Nulls" -> <<nx, [m EXCEPT !.stack = @ \o [j \in 1..A(1) |-> Null]]>>
    [] op = "CallUser" ->
         LET fd == cp.funcs[A(1) + 1]
             ns == Len(fd.scalarParams)
             args == TopN(m, ns)
             given == A(2)
             \* array parameters: the first `given` are references from the operands, the rest fresh
             arefs == [j \in 1..Len(fd.arrayParams) |->
                         IF j <= given THEN ArrayIdOf(cp, m, A(1 + 2 * j), A(2 + 2 * j)) ELSE "tmp" \o ToString(st.fresh + j - given - 1)]
             frame == [nm \in {fd.scalarParams[j] : j \in 1..ns} \cup {fd.arrayParams[j] : j \in 1..Len(fd.arrayParams)} |->
                         IF \E j \in 1..ns : fd.scalarParams[j] = nm
                         THEN Norm(args[CHOOSE j \in 1..ns : fd.scalarParams[j] = nm])
                         ELSE [t |-> "aref", id |-> arefs[CHOOSE j \in 1..Len(fd.arrayParams) : fd.arrayParams[j] = nm]]]
         IN IF st.fuel <= 0 \/ Len(st.fr) >= 60 THEN <<nx, BadM(m)>>
            ELSE LET m1 == [PopN(m, ns) EXCEPT !.st = [st EXCEPT !.fr = Append(@, frame), !.fuel = @ - 1,
                                                                 !.fresh = @ + (Len(fd.arrayParams) - given)],
                                                !.fn = A(1) + 1]
                     m2 == Exe(cp, fd.code, 0, m1)
                     s3 == [m2.st EXCEPT !.fr = SubSeq(@, 1, Len(@) - 1)]
                     back == [m2 EXCEPT !.fn = m.fn, !.stack = PopN(m, ns).stack]
                 IN IF m2.st.sig = "ret" THEN <<nx, Push(WithSt(back, [s3 EXCEPT !.sig = "norm", !.rv = Null]), m2.st.rv)>>
                    ELSE IF m2.st.sig = "norm" THEN <<nx, Push(WithSt(back, s3), Null)>>
                    ELSE <<nx, WithSt(back, s3)>>
    [] op = "Return" -> <<nx, WithSt(PopN(m, 1), [st EXCEPT !.sig = "ret", !.rv = Norm(Top1(m))])>>
    [] op = "ReturnNull" -> <<nx, WithSt(m, [st EXCEPT !.sig = "ret", !.rv = Null])>>
    [] op = "Getline" ->
         LET r == GetlineM(cp, m, A(1)) IN
         IF ~Live(r[3].st) THEN <<nx, r[3]>>
         ELSE <<nx, Push(IF r[1] = 1 THEN WithSt(r[3], SetRecord(r[3].st, r[2])) ELSE r[3], Num(r[1]))>>
    [] op = "GetlineField" ->          \* stack: index, [name]
         LET r == GetlineM(cp, m, A(1))
             k == FieldIdx(r[3], Top1(r[3]))
         IN IF ~Live(r[3].st) THEN <<nx, r[3]>>
            ELSE IF k = BADN THEN <<nx, BadM(m)>>
            ELSE <<nx, Push(IF r[1] = 1 THEN WithSt(PopN(r[3], 1), SetField(r[3].st, k, StrNum(r[2]))) ELSE PopN(r[3], 1), Num(r[1]))>>
    [] op \in {"GetlineGlobal", "GetlineLocal", "GetlineSpecial"} ->
         LET r == GetlineM(cp, m, A(1))
             sc == CASE op = "GetlineGlobal" -> cp.scopeGlobal [] op = "GetlineLocal" -> cp.scopeLocal [] OTHER -> cp.scopeSpecial
         IN IF ~Live(r[3].st) THEN <<nx, r[3]>>
            ELSE <<nx, Push(IF r[1] = 1 THEN SetScalar(cp, r[3], sc, A(2), StrNum(r[2])) ELSE r[3], Num(r[1]))>>
    [] op = "GetlineArray" ->          \* stack: index, [name]
         LET r == GetlineM(cp, m, A(1))
             id == ArrayIdOf(cp, m, A(2), A(3))
         IN IF ~Live(r[3].st) THEN <<nx, r[3]>>
            ELSE LET key == ToStr(Norm(Top1(r[3])))
                 IN <<nx, Push(IF r[1] = 1 THEN WithSt(PopN(r[3], 1), ElemSet(r[3].st, id, key, StrNum(r[2]))) ELSE PopN(r[3], 1), Num(r[1]))>>
    [] OTHER -> <<nx, BadM(m)>>          \* FieldByName, CallNative, ...: not modelled here

\* run a code block from ip until its end or until the state stops being "norm"
Exe(cp, code, ip, m) ==
  IF ip >= Len(code) \/ ~Live(m.st) THEN m
  ELSE LET r == Instr(cp, code, ip, m) IN Exe(cp, code, r[1], r[2])

\* the for-in loop: the body is executed as a nested block for every key
ForInKeys(cp, body, keys, j, m, var) ==
  IF ~Live(m.st) \/ j > Len(keys) THEN m
  ELSE IF m.st.fuel <= 0 THEN BadM(m)
  ELSE LET m0 == SetScalar(cp, WithSt(m, [m.st EXCEPT !.fuel = @ - 1]), var[1], var[2], Str(keys[j]))
           m1 == Exe(cp, body, 0, m0)
       IN IF m1.st.sig = "break" THEN WithSt(m1, [m1.st EXCEPT !.sig = "norm"])
          ELSE ForInKeys(cp, body, keys, j + 1, m1, var)

\* ------------------------------------------------------------- the driver
\* (executeAll / execActions of interp/interp.go)
RunBlock(cp, code, st) == Exe(cp, code, 0, [st |-> st, stack |-> <<>>, fn |-> 0])

PatternTrue(cp, code, st) ==       \* <<truth, state>>
  LET m == RunBlock(cp, code, st)
  IN IF ~Live(m.st) THEN <<FALSE, m.st>>
     ELSE LET tv == TruthM(Top1(m)) IN IF tv = 2 THEN <<FALSE, Halt(m.st, "bad")>> ELSE <<tv = 1, m.st>>

RECURSIVE VMRules(_, _, _), VMMain(_, _)
VMRules(cp, j, st) ==
  IF j > Len(cp.actions) \/ ~Live(st) THEN st
  ELSE LET ac == cp.actions[j]
           mt == IF Len(ac.pattern) = 0 THEN <<TRUE, st>>
                 ELSE IF Len(ac.pattern) = 1 THEN PatternTrue(cp, ac.pattern[1], st)
                 ELSE LET op == IF j \in st.inrange THEN <<TRUE, st>> ELSE PatternTrue(cp, ac.pattern[1], st)
                      IN IF ~Live(op[2]) \/ ~op[1] THEN op
                         ELSE LET cl == PatternTrue(cp, ac.pattern[2], op[2])
                              IN <<TRUE, [cl[2] EXCEPT !.inrange = IF cl[1] THEN @ \ {j} ELSE @ \cup {j}]>>
       IN IF ~Live(mt[2]) THEN mt[2]
          ELSE IF ~mt[1] THEN VMRules(cp, j + 1, mt[2])
          ELSE LET s1 == IF ac.nobody THEN Emit(mt[2], mt[2].rec.line \o ToStr(GetVar(mt[2], "ORS")))
                         ELSE RunBlock(cp, ac.body, mt[2]).st
               IN VMRules(cp, j + 1, s1)

VMMain(cp, st) ==
  IF ~Live(st) THEN st
  ELSE IF st.fuel <= 0 THEN Halt(st, "bad")
  ELSE LET r == NextMain(st, 12)
       IN IF ~Live(r.st) \/ ~r.found THEN r.st
          ELSE LET s1 == VMRules(cp, 1, SetRecord([r.st EXCEPT !.fuel = @ - 1], r.line))
               IN IF s1.sig = "next" THEN VMMain(cp, [s1 EXCEPT !.sig = "norm"])
                  ELSE IF s1.sig = "nextfile" THEN VMMain(cp, [s1 EXCEPT !.sig = "norm", !.cur.open = FALSE])
                  ELSE VMMain(cp, s1)

RunVM(cp, env) ==
  LET s0 == InitState(env, <<>>)
      s1 == Settle(RunBlock(cp, cp.begin, s0).st)
      onlyBegin == cp.actions = <<>> /\ cp.end = <<>>
      s2 == IF s1.sig # "norm" \/ onlyBegin THEN s1 ELSE Settle(VMMain(cp, s1))
      s3 == IF s2.sig \in {"norm", "exit"} /\ ~onlyBegin
            THEN Settle(RunBlock(cp, cp.end, [s2 EXCEPT !.sig = "norm"]).st) ELSE s2
  IN s3
=============================================================================
