SPECIFICATION Spec
CONSTANTS
  MaxLen = 3
INVARIANTS StringLaws BlanksIgnored CmpLaws ModeLaw IntLaw
CHECK_DEADLOCK FALSE
