SPECIFICATION Spec
CONSTANTS
  MaxField = 1000000
  Depth = 3
  MaxNF = 6
  Rich = FALSE
CHECK_DEADLOCK FALSE
