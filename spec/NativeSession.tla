---------------------------- MODULE NativeSession ----------------------------
(* Property C17, the set-up verdict over HISTORIES: several Execute calls on  *)
(* ONE interp.Interpreter.  "Functions of any other shape, or named like a    *)
(* keyword, are rejected when the interpreter is set up ... never a panic at  *)
(* call time" -- every Execute sets the interpreter up with the Funcs it is   *)
(* given, so the verdict is a function of that Funcs value, not of what       *)
(* earlier calls left behind.                                                 *)
(*                                                                            *)
(* State of the interpreter that matters: table, the name-ordered native      *)
(* function table (anchor state "native function table ordered by name"):     *)
(*   "nil"      not built                                                     *)
(*   "built"    built from a Funcs value that passed validation               *)
(*   "partial"  allocated, but entries from the invalid function on are empty *)
(* A reusable interpreter builds the table once (documented: Funcs must not   *)
(* change between calls), so Execute validates and builds only while the      *)
(* table is "nil".  The design is right only if a REJECTED set-up leaves the  *)
(* table "nil".  Slip = "alloc-before-check" is the deliberately wrong        *)
(* variant (the table is allocated before the signatures are checked, in one  *)
(* loop): TLC refutes EveryBadRunRejected and NeverRunsOnPartialTable for it. *)
(*                                                                            *)
(* A run is "bad" (Funcs holds the invalid function) or "fixed" (the          *)
(* corrected function under the same name, Native!Fixed).  Histories in which *)
(* a "bad" run FOLLOWS an accepted one are outside the documented use (Funcs  *)
(* changed after it was in force) and are not part of the universe.           *)
EXTENDS Native

CONSTANTS Slip, MaxRuns

VARIABLES runs, done, table, outs
svars == <<runs, done, table, outs>>

RunKinds == {"bad", "fixed"}
RECURSIVE Hists(_)
Hists(n) == IF n = 0 THEN {<<>>} ELSE Hists(n - 1) \cup {Append(h, r) : h \in {g \in Hists(n - 1) : Len(g) = n - 1}, r \in RunKinds}
\* starts with a rejected set-up; no "bad" after a "fixed"
InUse(h) == Len(h) >= 2 /\ h[1] = "bad" /\ \A j \in 1..(Len(h) - 1) : h[j] = "fixed" => h[j + 1] = "fixed"
Histories(n) == {h \in Hists(n) : InUse(h)}

SInit == runs \in Histories(MaxRuns) /\ done = 0 /\ table = "nil" /\ outs = <<>>
SExecute ==
  /\ done < Len(runs)
  /\ done' = done + 1 /\ UNCHANGED runs
  /\ LET r == runs[done + 1]
     IN IF table = "nil"
        THEN IF r = "fixed" THEN table' = "built" /\ outs' = Append(outs, "run-like-fresh")
             ELSE /\ table' = (IF Slip = "alloc-before-check" THEN "partial" ELSE "nil")
                  /\ outs' = Append(outs, "setup-error")
        ELSE /\ table' = table
             /\ outs' = Append(outs, IF table = "built" THEN "run-like-fresh" ELSE "run-on-partial-table")
SNext == SExecute
SSpec == SInit /\ [][SNext]_svars

\* what the specification demands of a history (Native!SessionOutcomes says the same per run, with the outcome)
Demanded(r) == IF r = "bad" THEN "setup-error" ELSE "run-like-fresh"
EveryBadRunRejected == \A j \in 1..Len(outs) : runs[j] = "bad" => outs[j] = "setup-error"
FixedRunLikeFresh == \A j \in 1..Len(outs) : runs[j] = "fixed" => outs[j] \in {"run-like-fresh", "setup-error"}
NeverRunsOnPartialTable == \A j \in 1..Len(outs) : outs[j] # "run-on-partial-table"
VerdictIsFunctionOfFuncs == \A j \in 1..Len(outs) : outs[j] = Demanded(runs[j])
=============================================================================
