SPECIFICATION Spec
CONSTANTS
  MaxLen = 3
  FullLen = 2
  NStrata = 6
  Stratum = 0
CHECK_DEADLOCK FALSE
