------------------------------ MODULE IOStreams ------------------------------
(***************************************************************************)
(* The I/O of an AWK run (properties C12 and C13): standard output, files   *)
(* written with > and >>, commands written with |, files and commands read  *)
(* with getline, file operands, system(), close(), fflush(), the three deny *)
(* flags of the sandbox and the configurable open-file function.            *)
(*                                                                         *)
(* One run (one Execute call) is a value `st` (a record); every I/O form   *)
(* of the language is a pure transformer Apply(st, act) on it.  A reusable  *)
(* Interpreter is a SESSION: a sequence of runs, each started by            *)
(* NextRun(previous run, cfg): streams, process table and logs are fresh    *)
(* (the previous run closed everything at its end), the file system is what *)
(* the previous run left, and the deny flags and the open-file function are *)
(* those of the Config handed to THAT Execute, never an earlier one.  MC_IOStreams (invariants),       *)
(* Gen_IOStreams (export of behaviours with predictions) and                *)
(* Trace_IOStreams (validation of recorded executions) use exactly these    *)
(* operators.                                                               *)
(*                                                                         *)
(* act.op         arguments              AWK rendering                      *)
(* "print"        dest="stdout", form    print x / printf "%s", x /         *)
(*                                       print x, x   (form "print2")       *)
(* "print"        dest="file", name, mode("trunc"|"append"), form           *)
(*                                       print x > name / print x >> name   *)
(* "print"        dest="cmd", name, form print x | name                     *)
(* "close"        name                   close(name)                        *)
(* "fflush"       name ("" = all)        fflush(name) / fflush()            *)
(* "system"       name                   system(name)                       *)
(* "getline_file" name                   getline v < name                   *)
(* "getline_cmd"  name                   name | getline v                   *)
(* "operand"      name                   name is the file operand of a      *)
(*                                       program with a pattern-action rule *)
(* "exit" / "rterror" / "finish"         exit / a run-time error / the end  *)
(* Every act also carries cls ("lit" | "computed": how the name is written  *)
(* in the program), which the semantics ignores -- that it is ignored is    *)
(* part of the property.  The payload of the k-th action is the byte 96+k   *)
(* (a letter), followed by a newline for print, so that loss, duplication   *)
(* and reordering are all visible in the destinations.  Form "print2" is    *)
(* print with two arguments: letter, output field separator, letter,        *)
(* newline; the separator is that of the output mode (cfg.omode: "default"  *)
(* -> space, "csv" -> comma, "tsv" -> tab).                                 *)
(*                                                                         *)
(* Commands.  cat, cat3 read their standard input and echo it to the shared *)
(* standard output (all three forms).  exit3 = `exec 0<&-; exit 3` closes   *)
(* its standard input at once (output form only): what is written to it is  *)
(* discarded, close() still waits for it and reports its status 3.  showf1  *)
(* = `cat f1 2>/dev/null` (system() only) copies file f1, as it is on disk  *)
(* when the child runs, to the shared standard output.                      *)
(*                                                                         *)
(* The standard output writer (cfg.wkind): "plain" has no Flush method      *)
(* (every write goes straight to the underlying writer); the others are     *)
(* buffered writers with a Flush method ("bufio3", "bufio16", "bufio4096":  *)
(* the harness uses a *bufio.Writer of that size; the model only says that  *)
(* bytes may stay in the buffer until a flush point).                       *)
(***************************************************************************)
EXTENDS Strings, TLC

Files    == {"f1", "f2", "f3"}
Cmds     == {"cat", "cat3"}            \* cat: `cat`;  cat3: `sh -c 'cat; exit 3'`  (read stdin, echo it)
NoReadCmds == {"exit3"}                \* `sh -c 'exec 0<&-; exit 3'`: never reads what it is sent
FileCmds == {"showf1"}                 \* `cat f1 2>/dev/null`: shows a file the program may be writing (system() only)
OutCmds  == Cmds \cup NoReadCmds       \* usable with print | c
SysCmds  == Cmds \cup FileCmds         \* usable with system(c)
StdNames == {"-", "/dev/stdout", "/dev/stderr"}
SNames   == Files \cup OutCmds         \* names that can denote a stream of their own
NameSeq  == <<"f1", "f2", "f3", "cat", "cat3", "exit3">>
Status(c) == IF c \in {"cat3", "exit3"} THEN 3 ELSE 0
Reads(c)  == c \notin NoReadCmds
WKinds   == {"plain", "bufio3", "bufio16", "bufio4096"}
OModes   == {"default", "csv", "tsv"}
OldContent == <<c_o, LF>>              \* content of a file that exists before the run

\* The call sites of the open-file function and of os/exec in package interp that the
\* actions of this module stand for (compared with a go/ast scan of the tree under test;
\* a call site that is not listed means the MODEL is incomplete, exit 2).
CallSites == {
  [fn |-> "getOutputStream",     call |-> "p.openFile",          action |-> "print > / >> name"],
  [fn |-> "getOutputStream",     call |-> "p.execShell",         action |-> "print | cmd"],
  [fn |-> "getInputScannerFile", call |-> "p.openFile",          action |-> "getline < name"],
  [fn |-> "getInputScannerPipe", call |-> "p.execShell",         action |-> "cmd | getline"],
  [fn |-> "nextLine",            call |-> "p.openFile",          action |-> "file operand"],
  [fn |-> "callBuiltin",         call |-> "p.execShell",         action |-> "system(cmd)"],
  [fn |-> "execShell",           call |-> "exec.Command",        action |-> "the one process-start helper"],
  [fn |-> "execShell",           call |-> "exec.CommandContext", action |-> "the one process-start helper"] }

\* ---------------------------------------------------------------- helpers
Lines(c) == LET parts == SplitLit(c, <<LF>>)
            IN IF parts[Len(parts)] = <<>> THEN SubSeq(parts, 1, Len(parts) - 1) ELSE parts

NoOut == [open |-> FALSE, kind |-> "none", buf |-> <<>>, pid |-> 0, mode |-> "none", broken |-> FALSE]
NoIn  == [open |-> FALSE, kind |-> "none", lines |-> <<>>, pid |-> 0]

\* cfg = [ne, nw, nr, custom : BOOLEAN, failAt : Int (-1 = the writer never fails),
\*        wkind : WKinds (the standard output writer), omode : OModes (the output mode),
\*        stdin : sequence of lines, pre : set of files that exist before the (first) run]
InitState(cfg) ==
  [ flags    |-> [ne |-> cfg.ne, nw |-> cfg.nw, nr |-> cfg.nr],
    custom   |-> cfg.custom,
    failAt   |-> cfg.failAt,
    buffered |-> cfg.wkind # "plain",
    omode    |-> cfg.omode,
    outs     |-> [n \in SNames |-> NoOut],
    ins      |-> [n \in SNames |-> NoIn],
    fsys     |-> [n \in Files |-> IF n \in cfg.pre THEN [ex |-> TRUE, c |-> OldContent] ELSE [ex |-> FALSE, c |-> <<>>]],
    fsys0    |-> [n \in Files |-> IF n \in cfg.pre THEN [ex |-> TRUE, c |-> OldContent] ELSE [ex |-> FALSE, c |-> <<>>]],
    stdin    |-> cfg.stdin,
    taint    |-> FALSE,      \* a child process was given the run's standard input
    swritten |-> <<>>,       \* everything the program itself wrote to standard output, in order
    sbuf     |-> <<>>,       \* ... the part still in the writer's buffer
    sdel     |-> <<>>,       \* ... the part delivered to the underlying writer
    sfail    |-> FALSE,      \* the underlying writer has failed
    serr     |-> <<>>,       \* written to /dev/stderr
    noise    |-> FALSE,      \* the interpreter itself printed a diagnostic to stderr
    procs    |-> <<>>,       \* started processes, in start order
    opens    |-> <<>>,       \* calls of the open-file function, in order
    notes    |-> <<>>,       \* values the program observed (close / getline / system results, records)
    wr       |-> [n \in Files |-> [used |-> FALSE, base |-> <<>>, data |-> <<>>]],   \* ghost: current/last write session
    everRead |-> {},         \* ghost: files opened for reading
    denied   |-> FALSE,      \* an attempt was refused by a deny flag
    conflict |-> FALSE,      \* the run used a name in both directions at once (outcome not fixed by the statement)
    lostWrite |-> FALSE,     \* the run wrote to a command that never reads (whether that is an error is not fixed by the statement)
    mainDone |-> FALSE,      \* the operand has been read (only the normal end can follow)
    step     |-> 0,
    result   |-> "run" ]     \* "run" | "ok" | "exit" | "error"

\* The next Execute on the same Interpreter: everything of the run is fresh, the configuration is the one handed
\* to this Execute, the file system is what the previous run (which closed all its streams) left behind.
NextRun(prev, cfg) == [InitState(cfg) EXCEPT !.fsys = prev.fsys, !.fsys0 = prev.fsys]

\* ------------------------------------------------------------ stdout writer
Deliver(st) ==
  IF st.sfail THEN [st EXCEPT !.sbuf = <<>>]
  ELSE IF st.failAt >= 0 /\ Len(st.sdel) + Len(st.sbuf) > st.failAt
       THEN [st EXCEPT !.sdel = SubSeq(st.sdel \o st.sbuf, 1, st.failAt), !.sbuf = <<>>, !.sfail = TRUE]
       ELSE [st EXCEPT !.sdel = st.sdel \o st.sbuf, !.sbuf = <<>>]

WriteStdout(st, data) ==
  LET s1 == [st EXCEPT !.swritten = @ \o data, !.sbuf = @ \o data]
  IN IF st.buffered THEN s1 ELSE Deliver(s1)

\* ------------------------------------------------------------ output streams
FlushOut(st, n) ==
  LET o == st.outs[n]
  IN IF ~o.open THEN st
     ELSE IF o.kind = "file"
          THEN [st EXCEPT !.fsys[n].c = @ \o o.buf, !.outs[n].buf = <<>>]
          ELSE IF Reads(n)
          THEN [st EXCEPT !.procs[o.pid].fed = @ \o o.buf, !.outs[n].buf = <<>>]
          \* the command has closed its standard input: the bytes are discarded (the stream is broken from then on)
          ELSE [st EXCEPT !.outs[n].buf = <<>>, !.outs[n].broken = @ \/ o.buf # <<>>]

RECURSIVE FlushFrom(_, _)
FlushFrom(st, k) == IF k > Len(NameSeq) THEN st ELSE FlushFrom(FlushOut(st, NameSeq[k]), k + 1)
FlushAllOuts(st) == FlushFrom(st, 1)

ProcDone(st, pid) == [st EXCEPT !.procs[pid].hi = Len(st.swritten), !.procs[pid].done = TRUE]

CloseOut(st, n) ==
  LET s1 == FlushOut(st, n)
      o  == s1.outs[n]
      s2 == IF o.kind = "cmd" THEN ProcDone(s1, o.pid) ELSE s1
  IN [s2 EXCEPT !.outs[n] = NoOut]

CloseIn(st, n) ==
  LET i  == st.ins[n]
      s1 == IF i.kind = "cmd" THEN ProcDone(st, i.pid) ELSE st
  IN [s1 EXCEPT !.ins[n] = NoIn]

CloseName(st, n) == IF st.ins[n].open THEN CloseIn(st, n) ELSE IF st.outs[n].open THEN CloseOut(st, n) ELSE st

RECURSIVE CloseFrom(_, _)
CloseFrom(st, k) == IF k > Len(NameSeq) THEN st ELSE CloseFrom(CloseName(st, NameSeq[k]), k + 1)

\* the end of every run, however it ends: everything is closed and flushed
End(st, res) ==
  LET s1 == Deliver(CloseFrom(st, 1))
  IN [s1 EXCEPT !.result = IF s1.sfail THEN "error" ELSE res]

Deny(st)     == End([st EXCEPT !.denied = TRUE], "error")
Conflict(st) == End([st EXCEPT !.conflict = TRUE], "error")

Note(st, k, v, s, j) == [st EXCEPT !.notes = Append(@, [k |-> k, v |-> v, s |-> s, j |-> j])]

\* sysout: what a system() child itself writes to the shared standard output (showf1: the file as it is now)
StartProc(st, c, kind) ==
  [st EXCEPT !.procs = Append(@, [cmd |-> c, kind |-> kind, lo |-> Len(st.swritten), hi |-> 0 - 1,
                                  written |-> <<>>, fed |-> <<>>, status |-> Status(c), done |-> FALSE,
                                  sysout |-> IF kind = "sys" /\ c \in FileCmds /\ st.fsys["f1"].ex THEN st.fsys["f1"].c ELSE <<>>])]

FieldSep(st) == CASE st.omode = "csv" -> COMMA [] st.omode = "tsv" -> TAB [] OTHER -> SP
Payload(st, act) ==
  CASE act.form = "printf" -> <<96 + st.step>>
    [] act.form = "print2" -> <<96 + st.step, FieldSep(st), 96 + st.step, LF>>
    [] OTHER               -> <<96 + st.step, LF>>

\* ------------------------------------------------------------------ print
PrintFile(st, act, data) ==
  LET n == act.name IN
  IF n = "-" THEN WriteStdout(st, data)
  ELSE IF n \in Files /\ st.ins[n].open THEN Conflict(st)
  ELSE IF n \in Files /\ st.outs[n].open
       THEN [st EXCEPT !.outs[n].buf = @ \o data, !.wr[n].data = @ \o data]      \* one name = one stream
  ELSE IF st.flags.nw THEN Deny(st)
  ELSE IF n = "/dev/stdout" THEN WriteStdout(st, data)
  ELSE IF n = "/dev/stderr" THEN [st EXCEPT !.serr = @ \o data]
  ELSE LET base == IF act.mode = "trunc" \/ ~st.fsys[n].ex THEN <<>> ELSE st.fsys[n].c
           s1   == Deliver(st)
       IN [s1 EXCEPT !.fsys[n]  = [ex |-> TRUE, c |-> base],
                     !.outs[n]  = [open |-> TRUE, kind |-> "file", buf |-> data, pid |-> 0, mode |-> act.mode, broken |-> FALSE],
                     !.opens    = Append(@, [name |-> n, mode |-> act.mode]),
                     !.wr[n]    = [used |-> TRUE, base |-> base, data |-> data]]

PrintCmd(st, act, data) ==
  LET c == act.name IN
  IF st.ins[c].open THEN Conflict(st)
  ELSE IF st.outs[c].open
       THEN [st EXCEPT !.outs[c].buf = @ \o data, !.procs[st.outs[c].pid].written = @ \o data]
  ELSE IF st.flags.ne THEN Deny(st)
  ELSE LET s1 == StartProc(Deliver(st), c, "out")
           pid == Len(s1.procs)
       IN [s1 EXCEPT !.outs[c] = [open |-> TRUE, kind |-> "cmd", buf |-> data, pid |-> pid, mode |-> "pipe", broken |-> FALSE],
                     !.procs[pid].written = data,
                     \* a command that does not read: the interpreter may print a diagnostic when a flush fails
                     !.noise = @ \/ ~Reads(c), !.lostWrite = @ \/ ~Reads(c)]

PrintTo(st, act) ==
  LET data == Payload(st, act) IN
  CASE act.dest = "stdout" -> WriteStdout(st, data)
    [] act.dest = "file"   -> PrintFile(st, act, data)
    [] act.dest = "cmd"    -> PrintCmd(st, act, data)

\* ------------------------------------------------------- close / fflush / system
Close(st, act) ==
  LET n == act.name IN
  IF st.ins[n].open
  THEN LET i == st.ins[n]
       IN Note(CloseIn(st, n), "close", IF i.kind = "cmd" THEN st.procs[i.pid].status ELSE 0, <<>>, i.kind = "cmd")
  ELSE IF st.outs[n].open
  THEN LET o == st.outs[n]
       IN Note(CloseOut(st, n), "close", IF o.kind = "cmd" THEN st.procs[o.pid].status ELSE 0, <<>>, o.kind = "cmd")
  ELSE Note(st, "close", 0 - 1, <<>>, FALSE)

Fflush(st, act) ==
  IF act.name = "" THEN Note(Deliver(FlushAllOuts(st)), "fflush", 0, <<>>, FALSE)
  ELSE IF st.outs[act.name].open THEN Note(FlushOut(st, act.name), "fflush", 0, <<>>, FALSE)
  ELSE Note([st EXCEPT !.noise = TRUE], "fflush", 0 - 1, <<>>, FALSE)

\* system(c): everything is flushed, the child runs to completion with the run's stdin and stdout
System(st, act) ==
  IF st.flags.ne THEN Deny(st)
  ELSE LET s1  == StartProc(Deliver(FlushAllOuts(st)), act.name, "sys")
           pid == Len(s1.procs)
           s2  == ProcDone(s1, pid)
           rc  == IF act.name \in FileCmds THEN (IF s1.fsys["f1"].ex THEN 0 ELSE 1) ELSE Status(act.name)
       IN Note([s2 EXCEPT !.taint = @ \/ st.stdin # <<>>, !.stdin = <<>>], "system", rc, <<>>, FALSE)

\* ------------------------------------------------------------------ getline
ReadIn(st, n, judged) ==
  LET i == st.ins[n]
  IN IF i.lines = <<>> THEN Note(st, "getline", 0, <<>>, judged)
     ELSE Note([st EXCEPT !.ins[n].lines = Tail(@)], "getline", 1, Head(i.lines), judged)

GetlineFile(st, act) ==
  LET n == act.name IN
  IF n = "-"
  THEN IF st.stdin = <<>> THEN Note(st, "getline", 0, <<>>, ~st.taint)
       ELSE Note([st EXCEPT !.stdin = Tail(@)], "getline", 1, Head(st.stdin), ~st.taint)
  ELSE IF st.outs[n].open THEN Conflict(st)
  ELSE IF st.ins[n].open THEN ReadIn(st, n, TRUE)
  ELSE IF st.flags.nr THEN Deny(st)
  ELSE IF ~st.fsys[n].ex      \* the attempt is a call of the open-file function all the same
       THEN Note([st EXCEPT !.opens = Append(@, [name |-> n, mode |-> "read"])], "getline", 0 - 1, <<>>, FALSE)
  ELSE ReadIn([st EXCEPT !.ins[n]   = [open |-> TRUE, kind |-> "file", lines |-> Lines(st.fsys[n].c), pid |-> 0],
                         !.opens    = Append(@, [name |-> n, mode |-> "read"]),
                         !.everRead = @ \cup {n}], n, TRUE)

GetlineCmd(st, act) ==
  LET c == act.name IN
  IF st.outs[c].open THEN Conflict(st)
  ELSE IF st.ins[c].open THEN ReadIn(st, c, FALSE)
  ELSE IF st.flags.ne THEN Deny(st)
  ELSE LET s1  == StartProc(Deliver(st), c, "in")
           pid == Len(s1.procs)
       IN ReadIn([s1 EXCEPT !.ins[c] = [open |-> TRUE, kind |-> "cmd", lines |-> st.stdin, pid |-> pid],
                            !.taint = @ \/ st.stdin # <<>>, !.stdin = <<>>], c, FALSE)

\* ------------------------------------------------------------------ operand
RECURSIVE NoteRecs(_, _, _)
NoteRecs(st, ls, judged) == IF ls = <<>> THEN st ELSE NoteRecs(Note(st, "rec", 0, Head(ls), judged), Tail(ls), judged)

Operand(st, act) ==
  LET n == act.name IN
  IF n = "-" THEN NoteRecs([st EXCEPT !.stdin = <<>>, !.mainDone = TRUE], st.stdin, ~st.taint)
  ELSE IF st.flags.nr THEN Deny(st)
  ELSE NoteRecs([st EXCEPT !.opens = Append(@, [name |-> n, mode |-> "read"]), !.everRead = @ \cup {n}, !.mainDone = TRUE],
                Lines(st.fsys[n].c), TRUE)

\* -------------------------------------------------------------------- Apply
Apply0(st, act) ==
  CASE act.op = "print"        -> PrintTo(st, act)
    [] act.op = "close"        -> Close(st, act)
    [] act.op = "fflush"       -> Fflush(st, act)
    [] act.op = "system"       -> System(st, act)
    [] act.op = "getline_file" -> GetlineFile(st, act)
    [] act.op = "getline_cmd"  -> GetlineCmd(st, act)
    [] act.op = "operand"      -> Operand(st, act)
    [] act.op = "exit"         -> End(st, "exit")
    [] act.op = "rterror"      -> End(st, "error")
    [] act.op = "finish"       -> End(st, "ok")

Apply(st, act) == Apply0([st EXCEPT !.step = @ + 1], act)

\* What the specification leaves open is not generated:
\*  - output to "-", /dev/stdout, /dev/stderr while NoFileWrites is set (the statement only says that
\*    no FILE may be created, truncated or appended to);
\*  - a file operand that does not exist or is being written at that moment;
\*  - anything after the operand except the normal end (operands are read after BEGIN);
\*  - another print to a command that does not read after a flush of that stream has lost bytes.
Enabled(st, act) ==
  /\ st.result = "run"
  /\ (act.op = "print" /\ act.dest = "cmd" /\ act.name \in NoReadCmds) => ~st.outs[act.name].broken
  /\ (act.op = "print" /\ act.dest = "file" /\ act.name \in StdNames) => ~st.flags.nw
  /\ act.op = "operand" => (IF act.name = "-" THEN TRUE ELSE st.fsys[act.name].ex /\ ~st.outs[act.name].open)
  /\ st.mainDone => act.op = "finish"

\* ------------------------------------------------------------------- menus
\* Action instances over the given file names / name classes / print forms.
OutNames(fs) == fs \cup StdNames
Menu(fs, classes, forms) ==
       {[op |-> "print", dest |-> "stdout", name |-> "", mode |-> "none", form |-> f, cls |-> "lit"] : f \in forms}
  \cup {[op |-> "print", dest |-> "file", name |-> n, mode |-> m, form |-> f, cls |-> k] :
            n \in OutNames(fs), m \in {"trunc", "append"}, f \in forms, k \in classes}
  \cup {[op |-> "print", dest |-> "cmd", name |-> c, mode |-> "pipe", form |-> f, cls |-> k] : c \in Cmds, f \in forms, k \in classes}
  \cup {[op |-> "close", name |-> n, cls |-> k] : n \in fs \cup Cmds, k \in classes}
  \cup {[op |-> "fflush", name |-> n, cls |-> "lit"] : n \in fs \cup Cmds \cup {""}}
  \cup {[op |-> "system", name |-> c, cls |-> k] : c \in Cmds, k \in classes}
  \cup {[op |-> "getline_file", name |-> n, cls |-> k] : n \in fs \cup {"-"}, k \in classes}
  \cup {[op |-> "getline_cmd", name |-> c, cls |-> k] : c \in Cmds, k \in classes}
  \cup {[op |-> "operand", name |-> n, cls |-> "lit"] : n \in fs \cup {"-"}}
\* the C13 additions: a command that never reads, a system() child that shows a file, print with two arguments
ExtraMenu(classes) ==
       {[op |-> "print", dest |-> "cmd", name |-> c, mode |-> "pipe", form |-> "print", cls |-> k] : c \in NoReadCmds, k \in classes}
  \cup {[op |-> "close", name |-> c, cls |-> k] : c \in NoReadCmds, k \in classes}
  \cup {[op |-> "fflush", name |-> c, cls |-> "lit"] : c \in NoReadCmds}
  \cup {[op |-> "system", name |-> c, cls |-> k] : c \in FileCmds, k \in classes}
  \cup {[op |-> "print", dest |-> "stdout", name |-> "", mode |-> "none", form |-> "print2", cls |-> "lit"]}
Endings == {[op |-> "finish"], [op |-> "exit"], [op |-> "rterror"]}
IsIO(act) == act.op \in {"print", "system", "getline_file", "getline_cmd", "operand"}

\* ------------------------------------------------------------ standard output
\* The final standard output is some interleaving of what the program wrote (P) with the
\* output of every child that shared it (for `cat`: what it was fed), each stream in its own
\* order; a child's bytes come after everything the program had written when the child was
\* started (lo) and before everything the program wrote after it had been waited for (hi).  A system() child
\* is waited for at once (lo = hi): its output lies exactly between what the program wrote before and after
\* the call.  (cat as a system() child echoes the run's standard input: such runs are tainted and not judged.)
KidSeq(st) ==
  LET RECURSIVE From(_)
      From(k) == IF k > Len(st.procs) THEN <<>>
                 ELSE IF st.procs[k].kind = "out"
                      THEN <<[out |-> st.procs[k].fed, lo |-> st.procs[k].lo, hi |-> st.procs[k].hi, sys |-> FALSE]>> \o From(k + 1)
                      ELSE IF st.procs[k].kind = "sys" /\ st.procs[k].sysout # <<>>
                      THEN <<[out |-> st.procs[k].sysout, lo |-> st.procs[k].lo, hi |-> st.procs[k].hi, sys |-> TRUE]>> \o From(k + 1)
                      ELSE From(k + 1)
  IN From(1)

RECURSIVE SumSeq(_)
SumSeq(q) == IF q = <<>> THEN 0 ELSE Head(q) + SumSeq(Tail(q))

RECURSIVE Inter(_, _, _, _, _)
Inter(s, pp, kids, pi, cs) ==
  LET i == pi + SumSeq(cs) + 1
  IN IF i > Len(s) THEN TRUE
     ELSE \/ /\ pi < Len(pp) /\ pp[pi + 1] = s[i]
             /\ \A j \in 1..Len(kids) : cs[j] < Len(kids[j].out) => pi + 1 <= kids[j].hi
             /\ Inter(s, pp, kids, pi + 1, cs)
          \/ \E j \in 1..Len(kids) :
               /\ cs[j] < Len(kids[j].out) /\ kids[j].out[cs[j] + 1] = s[i]
               /\ pi >= kids[j].lo
               /\ Inter(s, pp, kids, pi, [cs EXCEPT ![j] = @ + 1])

IsAllowedStdout(s, pp, kids) ==
  /\ Len(s) = Len(pp) + SumSeq([j \in 1..Len(kids) |-> Len(kids[j].out)])
  /\ Inter(s, pp, kids, 0, [j \in 1..Len(kids) |-> 0])

\* the schedule in which every child writes at the moment it is waited for
RECURSIVE SeqSchedule(_, _, _)
SeqSchedule(pp, kids, pi) ==
  LET due == {j \in 1..Len(kids) : kids[j].hi = pi}
      RECURSIVE Outs(_)
      Outs(j) == IF j > Len(kids) THEN <<>> ELSE (IF j \in due THEN kids[j].out ELSE <<>>) \o Outs(j + 1)
  IN Outs(1) \o (IF pi < Len(pp) THEN <<pp[pi + 1]>> \o SeqSchedule(pp, kids, pi + 1) ELSE <<>>)

\* ------------------------------------------------------------- predictions
\* What the specification predicts about the observables of a finished run.
Prediction(st) ==
  [ err         |-> st.result = "error",
    errJudged   |-> ~st.conflict /\ ~st.lostWrite,
    opens       |-> st.opens,
    starts      |-> [k \in 1..Len(st.procs) |-> st.procs[k].cmd],
    files       |-> st.fsys,
    stdout      |-> [prog |-> st.sdel, kids |-> KidSeq(st)],
    stdoutJudged |-> ~st.taint /\ st.failAt < 0,
    serr        |-> st.serr,
    serrJudged  |-> ~st.noise /\ st.failAt < 0,
    notes       |-> st.notes,
    onlyErr     |-> st.failAt >= 0 ]
=============================================================================
