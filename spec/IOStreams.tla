------------------------------ MODULE IOStreams ------------------------------
(***************************************************************************)
(* The I/O of an AWK run (properties C12 and C13): standard output, files   *)
(* written with > and >>, commands written with |, files and commands read  *)
(* with getline, file operands, system(), close(), fflush(), the three deny *)
(* flags of the sandbox and the configurable open-file function.            *)
(*                                                                         *)
(* One run (one Execute call) is a value `st` (a record); every I/O form   *)
(* of the language is a pure transformer Apply(st, act) on it.  A reusable  *)
(* Interpreter is a SESSION: a sequence of runs, each started by            *)
(* NextRun(previous run, cfg): streams, process table and logs are fresh    *)
(* (the previous run closed everything at its end), the file system is what *)
(* the previous run left, and the deny flags and the open-file function are *)
(* those of the Config handed to THAT Execute, never an earlier one.  MC_IOStreams (invariants),       *)
(* Gen_IOStreams (export of behaviours with predictions) and                *)
(* Trace_IOStreams (validation of recorded executions) use exactly these    *)
(* operators.                                                               *)
(*                                                                         *)
(* act.op         arguments              AWK rendering                      *)
(* "print"        dest="stdout", form    print x / printf "%s", x /         *)
(*                                       print x, x   (form "print2") /     *)
(*                                       a rule with a pattern and NO       *)
(*                                       action, whose implied action is    *)
(*                                       print $0 (form "implied": the      *)
(*                                       record, then the output record     *)
(*                                       separator)                         *)
(* "print"        dest="file", name, mode("trunc"|"append"), form           *)
(*                                       print x > name / print x >> name   *)
(* "print"        dest="cmd", name, form print x | name                     *)
(* "close"        name                   close(name)                        *)
(* "fflush"       name ("" = all)        fflush(name) / fflush()            *)
(* "system"       name                   system(name)                       *)
(* "getline_file" name                   getline v < name                   *)
(* "getline_cmd"  name                   name | getline v                   *)
(* "operand"      name                   name is the next operand (ARGV     *)
(*                                       element; cls "computed": appended  *)
(*                                       to ARGV by the program at run      *)
(*                                       time) of a program with a          *)
(*                                       pattern-action rule                *)
(* "exit" / "rterror" / "finish"         exit / a run-time error / the end  *)
(* Every act also carries cls, how the name is written in the program:      *)
(* "lit" | "computed" (the same string, written literally or computed at    *)
(* run time) and, for the regular files, three more SPELLINGS of the path:  *)
(* "rel" (./relative/path/f1), "dotdot" (dir/../w/f1) and "devdd"           *)
(* (/dev/../dir/f1, a path that begins with /dev/ and is no device).  The   *)
(* semantics ignores cls -- that it is ignored is part of the property:     *)
(* every spelling of every name meets the same flag checks and the same     *)
(* open-file function.  (The interpreter keys its streams by the STRING; a  *)
(* run that used two spellings of one file would have two streams on it,    *)
(* about which the statement says nothing: within a run a file is used      *)
(* under one spelling only, see Enabled.)                                   *)
(*                                                                         *)
(* Names.  nd/g1: a file name whose directory nd does NOT exist: writing to  *)
(* it (> and >>) and reading it (getline, operand) are attempts like any    *)
(* other -- refused under the deny flag, else ONE call of the open-file      *)
(* function, which fails; NOTHING is created (Prediction.created lists the  *)
(* file-system entries a run creates: only files opened for writing through *)
(* the open-file function come into being, never a directory); the error    *)
(* outcome of the failed open is not judged.  Spellings: absolute (literal  *)
(* or computed), "rel", and -- with a custom open-file function only --      *)
(* "jailed": the program writes the name relative to the work directory and *)
(* the open-file function resolves it there (as os.Root.OpenFile would), so *)
(* that anything done to the name behind the function's back lands in the   *)
(* process's working directory instead.                                     *)
(* f1 f2 f3: regular files of the work directory.  /dev/null: a             *)
(* file like any other for the flags and the open-file function; what is    *)
(* written to it is discarded, reading it gives the end of input at once.   *)
(* d1: an existing directory (operand only).  Operands "" (skipped by       *)
(* design) and "v=1" (an assignment) are not files: nothing is opened, no   *)
(* flag applies; when no file operand follows them the standard input is    *)
(* the main input, as when the only operand is "-".  An operand that names  *)
(* a directory or a missing file IS an attempt to open a file for reading:  *)
(* refused under NoFileReads, else a call of the open-file function; after  *)
(* that the directory run ends with an error (nothing can be read from it), *)
(* the error outcome of a failed open is not judged.                        *)
(*                                                                         *)
(* The payload of the k-th action is built from the byte 96+k (a lower-case *)
(* letter) and 64+k (the same letter in upper case), so that loss,          *)
(* duplication and reordering are all visible in the destinations.  The     *)
(* SHAPE of a print action (act.shape, "plain" when absent) is the string   *)
(* argument:  plain  k        nl     k LF                                   *)
(*            mid    k LF K   midnl  k LF K LF     crlf   k CR LF K         *)
(*            block  ONE string of N copies of k, written by one print or   *)
(*                   printf.  N >= 1 is a parameter of the binding, which   *)
(*                   instantiates it with sizes around the buffer sizes of  *)
(*                   the output streams (4096, 64 KiB -1/+0/+1, 128 KiB+1); *)
(*                   in the model it is ONE symbol, Block(k) = 1000 + k:    *)
(*                   what the statement says (complete, in program order,   *)
(*                   once) does not depend on how long a written string is. *)
(* printf "%s" writes the argument, print writes the argument and then the  *)
(* output record separator LF.  Form "print2" is print with two arguments:  *)
(* letter, output field separator, letter, newline; the separator is that   *)
(* of the output mode (cfg.omode: "default" -> space, "csv" -> comma, "tsv" *)
(* -> tab).                                                                 *)
(*                                                                         *)
(* Newline output mode (cfg.nlmode): "raw" -- every written string is       *)
(* delivered as it is; "crlf" -- CRLF newlines are forced on output: in     *)
(* every written string each LF that is not already preceded by CR is       *)
(* delivered as CR LF, nothing else changes (CrlfOf); "smart" -- the mode   *)
(* of the platform, which is "raw" here (not Windows).  It applies to every *)
(* destination: standard output, files, commands, /dev/stderr.              *)
(*                                                                         *)
(* Commands.  cat, cat3 read their standard input and echo it to the shared *)
(* standard output (all three forms).  exit3 = `exec 0<&-; exit 3` closes   *)
(* its standard input at once (output form only): what is written to it is  *)
(* discarded, close() still waits for it and reports its status 3.  showf1  *)
(* = `cat f1 2>/dev/null` (system() only) copies file f1, as it is on disk  *)
(* when the child runs, to the shared standard output.  spcat = "  cat" (a   *)
(* command line that starts with blanks) is cat.  empty = "" and blank =    *)
(* "  " are command lines without a command: under NoExec each of the three *)
(* forms is refused like any other attempt to start a process; without it   *)
(* what they do is `sh -c` of that string, i.e. nothing: no output, nothing *)
(* read, status 0 -- whether a shell is really started for them is NOT      *)
(* judged then (Prediction lists them; the binding drops them from both     *)
(* sides unless NoExec is set), and print | "" is only generated under      *)
(* NoExec (a writer racing with a shell that exits at once).                *)
(*                                                                         *)
(* The standard output writer (cfg.wkind): "plain" has no Flush method      *)
(* (every write goes straight to the underlying writer); the others are     *)
(* buffered writers with a Flush method ("bufio3", "bufio16", "bufio4096":  *)
(* the harness uses a *bufio.Writer of that size; the model only says that  *)
(* bytes may stay in the buffer until a flush point).                       *)
(***************************************************************************)
EXTENDS Strings, TLC

Files    == {"f1", "f2", "f3"}         \* regular files of the work directory
NullFiles == {"/dev/null"}             \* a file for the flags and the open-file function; discards / is empty
AllFiles == Files \cup NullFiles
LostFiles == {"nd/g1"}                 \* file names in a directory that does not exist (never opened successfully, no stream)
Dirs     == {"d1"}                     \* an existing directory of the work directory (operand only)
SkipOperands == {"", "v=1"}            \* operands that are not files: skipped by design / an assignment
Cmds     == {"cat", "cat3"}            \* cat: `cat`;  cat3: `sh -c 'cat; exit 3'`  (read stdin, echo it)
LeadCmds == {"spcat"}                  \* "  cat": a command line that starts with blanks (= cat)
BlankCmds == {"empty", "blank"}        \* "" and "  ": command lines without a command
NoReadCmds == {"exit3"}                \* `sh -c 'exec 0<&-; exit 3'`: never reads what it is sent
FileCmds == {"showf1"}                 \* `cat f1 2>/dev/null`: shows a file the program may be writing (system() only)
EchoCmds == Cmds \cup LeadCmds         \* read their standard input and echo it
OutCmds  == Cmds \cup NoReadCmds \cup LeadCmds \cup BlankCmds      \* usable with print | c
SysCmds  == Cmds \cup FileCmds \cup LeadCmds \cup BlankCmds        \* usable with system(c)
InCmds   == Cmds \cup LeadCmds \cup BlankCmds                      \* usable with c | getline
StdNames == {"-", "/dev/stdout", "/dev/stderr"}
SNames   == AllFiles \cup OutCmds      \* names that can denote a stream of their own
NameSeq  == <<"f1", "f2", "f3", "/dev/null", "cat", "cat3", "exit3", "spcat", "empty", "blank">>
Status(c) == IF c \in {"cat3", "exit3"} THEN 3 ELSE 0
Reads(c)  == c \notin NoReadCmds \cup BlankCmds
PathClasses == {"rel", "dotdot", "devdd"}          \* spellings of a regular file's path other than the plain one
Spelling(k) == IF k \in PathClasses THEN k ELSE "abs"
NLModes  == {"raw", "crlf", "smart"}
Shapes   == {"plain", "nl", "mid", "midnl", "crlf", "block"}
Block(b) == 1000 + b                   \* the symbol for N copies of byte b written as ONE string
WKinds   == {"plain", "bufio3", "bufio16", "bufio4096"}
OModes   == {"default", "csv", "tsv"}
OldContent == <<c_o, LF>>              \* content of a file that exists before the run

\* The call sites of the open-file function and of os/exec in package interp that the
\* actions of this module stand for (compared with a go/ast scan of the tree under test;
\* a call site that is not listed means the MODEL is incomplete, exit 2).
CallSites == {
  [fn |-> "getOutputStream",     call |-> "p.openFile",          action |-> "print > / >> name"],
  [fn |-> "getOutputStream",     call |-> "p.execShell",         action |-> "print | cmd"],
  [fn |-> "getInputScannerFile", call |-> "p.openFile",          action |-> "getline < name"],
  [fn |-> "getInputScannerPipe", call |-> "p.execShell",         action |-> "cmd | getline"],
  [fn |-> "nextLine",            call |-> "p.openFile",          action |-> "file operand"],
  [fn |-> "callBuiltin",         call |-> "p.execShell",         action |-> "system(cmd)"],
  [fn |-> "execShell",           call |-> "exec.Command",        action |-> "the one process-start helper"],
  [fn |-> "execShell",           call |-> "exec.CommandContext", action |-> "the one process-start helper"] }

\* ---------------------------------------------------------------- helpers
Lines(c) == LET parts == SplitLit(c, <<LF>>)
            IN IF parts[Len(parts)] = <<>> THEN SubSeq(parts, 1, Len(parts) - 1) ELSE parts

NoOut == [open |-> FALSE, kind |-> "none", buf |-> <<>>, pid |-> 0, mode |-> "none", broken |-> FALSE]
NoIn  == [open |-> FALSE, kind |-> "none", lines |-> <<>>, pid |-> 0, judged |-> TRUE]

\* cfg = [ne, nw, nr, custom : BOOLEAN, failAt : Int (-1 = the writer never fails),
\*        wkind : WKinds (the standard output writer), omode : OModes (the output mode),
\*        nlmode : NLModes (the newline output mode),
\*        stdin : sequence of lines, pre : set of files that exist before the (first) run]
FileState0(cfg, n) == IF n \in NullFiles THEN [ex |-> TRUE, c |-> <<>>]
                      ELSE IF n \in cfg.pre THEN [ex |-> TRUE, c |-> OldContent] ELSE [ex |-> FALSE, c |-> <<>>]
InitState(cfg) ==
  [ flags    |-> [ne |-> cfg.ne, nw |-> cfg.nw, nr |-> cfg.nr],
    custom   |-> cfg.custom,
    failAt   |-> cfg.failAt,
    buffered |-> cfg.wkind # "plain",
    omode    |-> cfg.omode,
    crlf     |-> cfg.nlmode = "crlf",     \* "smart" is "raw" on this platform
    outs     |-> [n \in SNames |-> NoOut],
    ins      |-> [n \in SNames |-> NoIn],
    fsys     |-> [n \in AllFiles |-> FileState0(cfg, n)],
    fsys0    |-> [n \in AllFiles |-> FileState0(cfg, n)],
    stdin    |-> cfg.stdin,
    taint    |-> FALSE,      \* a child process was given the run's standard input
    racy     |-> FALSE,      \* ... a child that does not read it to the end: how much of it is left is not determined
    swritten |-> <<>>,       \* everything the program itself wrote to standard output, in order
    sbuf     |-> <<>>,       \* ... the part still in the writer's buffer
    sdel     |-> <<>>,       \* ... the part delivered to the underlying writer
    sfail    |-> FALSE,      \* the underlying writer has failed
    serr     |-> <<>>,       \* written to /dev/stderr
    noise    |-> FALSE,      \* the interpreter itself printed a diagnostic to stderr
    procs    |-> <<>>,       \* started processes, in start order
    opens    |-> <<>>,       \* calls of the open-file function, in order
    notes    |-> <<>>,       \* values the program observed (close / getline / system results, records)
    wr       |-> [n \in AllFiles |-> [used |-> FALSE, base |-> <<>>, data |-> <<>>]],   \* ghost: current/last write session
    spell    |-> [n \in Files |-> "none"],   \* ghost: the spelling under which the run uses the file
    everRead |-> {},         \* ghost: files opened for reading
    denied   |-> FALSE,      \* an attempt was refused by a deny flag
    conflict |-> FALSE,      \* the run used a name in both directions at once (outcome not fixed by the statement)
    lostWrite |-> FALSE,     \* the run wrote to a command that never reads (whether that is an error is not fixed by the statement)
    openFailed |-> FALSE,    \* the run opened something that cannot be opened (outcome not fixed by the statement)
    skipped  |-> FALSE,      \* an operand that is not a file has been passed (only operands and the normal end can follow)
    mainDone |-> FALSE,      \* the main input has been read (only the normal end can follow)
    step     |-> 0,
    result   |-> "run" ]     \* "run" | "ok" | "exit" | "error"

\* The next Execute on the same Interpreter: everything of the run is fresh, the configuration is the one handed
\* to this Execute, the file system is what the previous run (which closed all its streams) left behind.
NextRun(prev, cfg) == [InitState(cfg) EXCEPT !.fsys = prev.fsys, !.fsys0 = prev.fsys]

\* ------------------------------------------------------------ stdout writer
Deliver(st) ==
  IF st.sfail THEN [st EXCEPT !.sbuf = <<>>]
  ELSE IF st.failAt >= 0 /\ Len(st.sdel) + Len(st.sbuf) > st.failAt
       THEN [st EXCEPT !.sdel = SubSeq(st.sdel \o st.sbuf, 1, st.failAt), !.sbuf = <<>>, !.sfail = TRUE]
       ELSE [st EXCEPT !.sdel = st.sdel \o st.sbuf, !.sbuf = <<>>]

WriteStdout(st, data) ==
  LET s1 == [st EXCEPT !.swritten = @ \o data, !.sbuf = @ \o data]
  IN IF st.buffered THEN s1 ELSE Deliver(s1)

\* ------------------------------------------------------------ output streams
FlushOut(st, n) ==
  LET o == st.outs[n]
  IN IF ~o.open THEN st
     ELSE IF o.kind = "file"
          THEN (IF n \in NullFiles THEN [st EXCEPT !.outs[n].buf = <<>>]            \* discarded
                ELSE [st EXCEPT !.fsys[n].c = @ \o o.buf, !.outs[n].buf = <<>>])
          ELSE IF Reads(n)
          THEN [st EXCEPT !.procs[o.pid].fed = @ \o o.buf, !.outs[n].buf = <<>>]
          \* the command has closed its standard input: the bytes are discarded (the stream is broken from then on)
          ELSE [st EXCEPT !.outs[n].buf = <<>>, !.outs[n].broken = @ \/ o.buf # <<>>]

RECURSIVE FlushFrom(_, _)
FlushFrom(st, k) == IF k > Len(NameSeq) THEN st ELSE FlushFrom(FlushOut(st, NameSeq[k]), k + 1)
FlushAllOuts(st) == FlushFrom(st, 1)

ProcDone(st, pid) == [st EXCEPT !.procs[pid].hi = Len(st.swritten), !.procs[pid].done = TRUE]

CloseOut(st, n) ==
  LET s1 == FlushOut(st, n)
      o  == s1.outs[n]
      s2 == IF o.kind = "cmd" THEN ProcDone(s1, o.pid) ELSE s1
  IN [s2 EXCEPT !.outs[n] = NoOut]

CloseIn(st, n) ==
  LET i  == st.ins[n]
      s1 == IF i.kind = "cmd" THEN ProcDone(st, i.pid) ELSE st
  IN [s1 EXCEPT !.ins[n] = NoIn]

CloseName(st, n) == IF st.ins[n].open THEN CloseIn(st, n) ELSE IF st.outs[n].open THEN CloseOut(st, n) ELSE st

RECURSIVE CloseFrom(_, _)
CloseFrom(st, k) == IF k > Len(NameSeq) THEN st ELSE CloseFrom(CloseName(st, NameSeq[k]), k + 1)

\* the end of every run, however it ends: everything is closed and flushed
End(st, res) ==
  LET s1 == Deliver(CloseFrom(st, 1))
  IN [s1 EXCEPT !.result = IF s1.sfail THEN "error" ELSE res]

Deny(st)     == End([st EXCEPT !.denied = TRUE], "error")
Conflict(st) == End([st EXCEPT !.conflict = TRUE], "error")
OpenFails(st) == End([st EXCEPT !.openFailed = TRUE], "error")

Note(st, k, v, s, j) == [st EXCEPT !.notes = Append(@, [k |-> k, v |-> v, s |-> s, j |-> j])]

\* sysout: what a system() child itself writes to the shared standard output (showf1: the file as it is now)
StartProc(st, c, kind) ==
  [st EXCEPT !.procs = Append(@, [cmd |-> c, kind |-> kind, lo |-> Len(st.swritten), hi |-> 0 - 1,
                                  written |-> <<>>, fed |-> <<>>, status |-> Status(c), done |-> FALSE,
                                  sysout |-> IF kind = "sys" /\ c \in FileCmds /\ st.fsys["f1"].ex THEN st.fsys["f1"].c ELSE <<>>])]

FieldSep(st) == CASE st.omode = "csv" -> COMMA [] st.omode = "tsv" -> TAB [] OTHER -> SP

\* CRLF newlines forced on output: every LF of a written string that is not already preceded by CR becomes CR LF
CrlfOf(s) ==
  LET RECURSIVE From(_)
      From(i) == IF i > Len(s) THEN <<>>
                 ELSE (IF s[i] = LF /\ (i = 1 \/ s[i - 1] # CR) THEN <<CR, LF>> ELSE <<s[i]>>) \o From(i + 1)
  IN From(1)
\* one written string, as delivered
Out(st, s) == IF st.crlf THEN CrlfOf(s) ELSE s

ShapeOf(act) == IF "shape" \in DOMAIN act /\ act.shape # "" THEN act.shape ELSE "plain"
\* the string argument of the k-th action
ShapeArg(sh, k) ==
  CASE sh = "nl"    -> <<96 + k, LF>>
    [] sh = "mid"   -> <<96 + k, LF, 64 + k>>
    [] sh = "midnl" -> <<96 + k, LF, 64 + k, LF>>
    [] sh = "crlf"  -> <<96 + k, CR, LF, 64 + k>>
    [] sh = "block" -> <<Block(96 + k)>>
    [] OTHER        -> <<96 + k>>
\* the strings a print statement writes, in order: printf the argument; print the argument and the record separator;
\* print with two arguments also the field separator between them
Payload(st, act) ==
  LET arg == ShapeArg(ShapeOf(act), st.step)
  IN CASE act.form = "printf" -> Out(st, arg)
       [] act.form = "print2" -> Out(st, arg) \o Out(st, <<FieldSep(st)>>) \o Out(st, arg) \o Out(st, <<LF>>)
       [] OTHER               -> Out(st, arg) \o Out(st, <<LF>>)
NoCR(c) == \A i \in 1..Len(c) : c[i] # CR

\* ------------------------------------------------------------------ print
PrintFile(st, act, data) ==
  LET n == act.name IN
  IF n = "-" THEN WriteStdout(st, data)
  ELSE IF n \in AllFiles /\ st.ins[n].open THEN Conflict(st)
  ELSE IF n \in AllFiles /\ st.outs[n].open
       THEN [st EXCEPT !.outs[n].buf = @ \o data, !.wr[n].data = @ \o data]      \* one name = one stream
  ELSE IF st.flags.nw THEN Deny(st)
  \* the directory of the name does not exist: one call of the open-file function, which fails; nothing is created
  ELSE IF n \in LostFiles THEN OpenFails([st EXCEPT !.opens = Append(@, [name |-> n, mode |-> act.mode])])
  ELSE IF n = "/dev/stdout" THEN WriteStdout(st, data)
  ELSE IF n = "/dev/stderr" THEN [st EXCEPT !.serr = @ \o data]
  ELSE LET base == IF act.mode = "trunc" \/ ~st.fsys[n].ex THEN <<>> ELSE st.fsys[n].c
           s1   == Deliver(st)
       IN [s1 EXCEPT !.fsys[n]  = [ex |-> TRUE, c |-> base],
                     !.outs[n]  = [open |-> TRUE, kind |-> "file", buf |-> data, pid |-> 0, mode |-> act.mode, broken |-> FALSE],
                     !.opens    = Append(@, [name |-> n, mode |-> act.mode]),
                     !.wr[n]    = [used |-> TRUE, base |-> base, data |-> data]]

PrintCmd(st, act, data) ==
  LET c == act.name IN
  IF st.ins[c].open THEN Conflict(st)
  ELSE IF st.outs[c].open
       THEN [st EXCEPT !.outs[c].buf = @ \o data, !.procs[st.outs[c].pid].written = @ \o data]
  ELSE IF st.flags.ne THEN Deny(st)
  ELSE LET s1 == StartProc(Deliver(st), c, "out")
           pid == Len(s1.procs)
       IN [s1 EXCEPT !.outs[c] = [open |-> TRUE, kind |-> "cmd", buf |-> data, pid |-> pid, mode |-> "pipe", broken |-> FALSE],
                     !.procs[pid].written = data,
                     \* a command that does not read: the interpreter may print a diagnostic when a flush fails
                     !.noise = @ \/ ~Reads(c), !.lostWrite = @ \/ ~Reads(c)]

PrintTo(st, act) ==
  LET data == Payload(st, act) IN
  CASE act.dest = "stdout" -> WriteStdout(st, data)
    [] act.dest = "file"   -> PrintFile(st, act, data)
    [] act.dest = "cmd"    -> PrintCmd(st, act, data)

\* ------------------------------------------------------- close / fflush / system
Close(st, act) ==
  LET n == act.name IN
  IF st.ins[n].open
  THEN LET i == st.ins[n]
       IN Note(CloseIn(st, n), "close", IF i.kind = "cmd" THEN st.procs[i.pid].status ELSE 0, <<>>, i.kind = "cmd")
  ELSE IF st.outs[n].open
  THEN LET o == st.outs[n]
       IN Note(CloseOut(st, n), "close", IF o.kind = "cmd" THEN st.procs[o.pid].status ELSE 0, <<>>, o.kind = "cmd")
  ELSE Note(st, "close", 0 - 1, <<>>, FALSE)

Fflush(st, act) ==
  IF act.name = "" THEN Note(Deliver(FlushAllOuts(st)), "fflush", 0, <<>>, FALSE)
  ELSE IF st.outs[act.name].open THEN Note(FlushOut(st, act.name), "fflush", 0, <<>>, FALSE)
  ELSE Note([st EXCEPT !.noise = TRUE], "fflush", 0 - 1, <<>>, FALSE)

\* system(c): everything is flushed, the child runs to completion with the run's stdin and stdout
System(st, act) ==
  IF st.flags.ne THEN Deny(st)
  ELSE LET s1  == StartProc(Deliver(FlushAllOuts(st)), act.name, "sys")
           pid == Len(s1.procs)
           s2  == ProcDone(s1, pid)
           rc  == IF act.name \in FileCmds THEN (IF s1.fsys["f1"].ex THEN 0 ELSE 1) ELSE Status(act.name)
       IN Note([s2 EXCEPT !.taint = @ \/ st.stdin # <<>>, !.stdin = <<>>,
                          !.racy = @ \/ (st.stdin # <<>> /\ act.name \notin EchoCmds)], "system", rc, <<>>, FALSE)

\* ------------------------------------------------------------------ getline
ReadIn(st, n, judged) ==
  LET i == st.ins[n]
  IN IF i.lines = <<>> THEN Note(st, "getline", 0, <<>>, judged)
     ELSE Note([st EXCEPT !.ins[n].lines = Tail(@)], "getline", 1, Head(i.lines), judged)

GetlineFile(st, act) ==
  LET n == act.name IN
  IF n = "-"
  THEN IF st.stdin = <<>> THEN Note(st, "getline", 0, <<>>, ~st.taint)
       ELSE Note([st EXCEPT !.stdin = Tail(@)], "getline", 1, Head(st.stdin), ~st.taint)
  ELSE IF n \in LostFiles
  THEN IF st.flags.nr THEN Deny(st)
       ELSE Note([st EXCEPT !.opens = Append(@, [name |-> n, mode |-> "read"])], "getline", 0 - 1, <<>>, FALSE)
  ELSE IF st.outs[n].open THEN Conflict(st)
  ELSE IF st.ins[n].open THEN ReadIn(st, n, st.ins[n].judged)
  ELSE IF st.flags.nr THEN Deny(st)
  ELSE IF ~st.fsys[n].ex      \* the attempt is a call of the open-file function all the same
       THEN Note([st EXCEPT !.opens = Append(@, [name |-> n, mode |-> "read"])], "getline", 0 - 1, <<>>, FALSE)
  ELSE ReadIn([st EXCEPT !.ins[n]   = [open |-> TRUE, kind |-> "file", lines |-> Lines(st.fsys[n].c), pid |-> 0, judged |-> NoCR(st.fsys[n].c)],
                         !.opens    = Append(@, [name |-> n, mode |-> "read"]),
                         !.everRead = @ \cup {n}], n, NoCR(st.fsys[n].c))

GetlineCmd(st, act) ==
  LET c == act.name IN
  IF st.outs[c].open THEN Conflict(st)
  ELSE IF st.ins[c].open THEN ReadIn(st, c, FALSE)
  ELSE IF st.flags.ne THEN Deny(st)
  ELSE LET s1  == StartProc(Deliver(st), c, "in")
           pid == Len(s1.procs)
       IN ReadIn([s1 EXCEPT !.ins[c] = [open |-> TRUE, kind |-> "cmd", lines |-> IF c \in EchoCmds THEN st.stdin ELSE <<>>, pid |-> pid, judged |-> FALSE],
                            !.taint = @ \/ st.stdin # <<>>, !.stdin = <<>>,
                            !.racy = @ \/ (st.stdin # <<>> /\ c \notin EchoCmds)], c, FALSE)

\* ------------------------------------------------------------------ operand
RECURSIVE NoteRecs(_, _, _)
NoteRecs(st, ls, judged) == IF ls = <<>> THEN st ELSE NoteRecs(Note(st, "rec", 0, Head(ls), judged), Tail(ls), judged)

\* the standard input is the main input (the operand "-", or no file operand at all)
MainStdin(st) == NoteRecs([st EXCEPT !.stdin = <<>>, !.mainDone = TRUE], st.stdin, ~st.taint)

Operand(st, act) ==
  LET n == act.name
      opened == [st EXCEPT !.opens = Append(@, [name |-> n, mode |-> "read"]), !.mainDone = TRUE]
  IN
  IF n \in SkipOperands THEN [st EXCEPT !.skipped = TRUE]          \* not a file: nothing is opened, no flag applies
  ELSE IF n = "-" THEN MainStdin(st)
  ELSE IF st.flags.nr THEN Deny(st)                               \* every other operand is an attempt to open a file
  ELSE IF n \in Dirs THEN End(opened, "error")                    \* opened through the function; nothing can be read from it
  ELSE IF n \in LostFiles THEN OpenFails(opened)                  \* one call of the open-file function, which fails
  ELSE IF ~st.fsys[n].ex THEN OpenFails(opened)                   \* the attempt is a call of the open-file function all the same
  ELSE NoteRecs([opened EXCEPT !.everRead = @ \cup {n}], Lines(st.fsys[n].c), NoCR(st.fsys[n].c))

\* the normal end: when only operands that are not files were given, the standard input is the main input
Finish(st) == End(IF st.skipped /\ ~st.mainDone THEN MainStdin(st) ELSE st, "ok")

\* -------------------------------------------------------------------- Apply
Apply0(st, act) ==
  CASE act.op = "print"        -> PrintTo(st, act)
    [] act.op = "close"        -> Close(st, act)
    [] act.op = "fflush"       -> Fflush(st, act)
    [] act.op = "system"       -> System(st, act)
    [] act.op = "getline_file" -> GetlineFile(st, act)
    [] act.op = "getline_cmd"  -> GetlineCmd(st, act)
    [] act.op = "operand"      -> Operand(st, act)
    [] act.op = "exit"         -> End(st, "exit")
    [] act.op = "rterror"      -> End(st, "error")
    [] act.op = "finish"       -> Finish(st)

\* the regular file an action names ("" when it names none)
HasName(act) == act.op \in {"print", "close", "fflush", "system", "getline_file", "getline_cmd", "operand"}
FileOf(act) == IF HasName(act) /\ act.name \in Files /\ ~(act.op = "print" /\ act.dest # "file") THEN act.name ELSE ""
ClsOf(act)  == IF "cls" \in DOMAIN act THEN act.cls ELSE "lit"

Apply(st, act) ==
  LET f == FileOf(act)
      s1 == IF f # "" /\ st.spell[f] = "none" THEN [st EXCEPT !.spell[f] = Spelling(ClsOf(act))] ELSE st
  IN Apply0([s1 EXCEPT !.step = @ + 1], act)

\* What the specification leaves open is not generated:
\*  - output to "-", /dev/stdout, /dev/stderr while NoFileWrites is set (the statement only says that
\*    no FILE may be created, truncated or appended to);
\*  - a file operand that is being written at that moment;
\*  - anything after the file operand except the normal end, anything but operands after an operand (operands
\*    are read after BEGIN);
\*  - another print to a command that does not read after a flush of that stream has lost bytes;
\*  - print | "" and print | "  " unless NoExec refuses them (the shell exits at once: a race with the writer);
\*  - the standard input as main input after a child that does not read its input to the end was given it (the
\*    number of records left is a race between that child's exit and the copying of the input to it);
\*  - two spellings of one file in one run (two streams on one file);
\*  - payloads other than "plain" in CSV / TSV output mode (quoting rules of their own), or with two arguments;
\*  - the "jailed" spelling without a custom open-file function (the name would denote another file);
\*  - a name in a directory that does not exist when neither a custom open-file function is configured nor the deny
\*    flag of that direction is set (what the default open function does about the missing directory is the
\*    platform's business; the statement speaks about the deny flags and the configured function).
Enabled(st, act) ==
  /\ st.result = "run"
  /\ (act.op = "print" /\ act.dest = "cmd" /\ act.name \in NoReadCmds) => ~st.outs[act.name].broken
  /\ (act.op = "print" /\ act.dest = "cmd" /\ act.name \in BlankCmds) => st.flags.ne
  /\ (act.op = "print" /\ act.dest = "file" /\ act.name \in StdNames) => ~st.flags.nw
  /\ (act.op = "print" /\ ShapeOf(act) # "plain") => (st.omode = "default" /\ act.form # "print2")
  /\ act.op = "operand" => (IF act.name \in {"-"} \cup SkipOperands \cup Dirs \cup LostFiles THEN TRUE ELSE ~st.outs[act.name].open)
  /\ ClsOf(act) = "jailed" => st.custom
  /\ (HasName(act) /\ act.name \in LostFiles) => (IF st.custom THEN TRUE ELSE IF act.op = "print" THEN st.flags.nw ELSE st.flags.nr)
  /\ (act.op = "print" /\ act.form = "implied") => (act.dest = "stdout" /\ ShapeOf(act) = "plain")
  /\ FileOf(act) # "" => st.spell[FileOf(act)] \in {"none", Spelling(ClsOf(act))}
  /\ (st.racy /\ act.op = "operand") => act.name \notin {"-"} \cup SkipOperands
  /\ st.skipped => act.op \in {"operand", "finish"}
  /\ st.mainDone => act.op = "finish"

\* ------------------------------------------------------------------- menus
\* Action instances over the given file names / name classes / print forms.
OutNames(fs) == fs \cup StdNames
\* (the path spellings exist for the regular files only; a "computed" operand is one the program appends to ARGV
\* at run time)
ClsFits(n, k) == k \in PathClasses => n \in Files
Menu(fs, classes, forms) ==
  LET plainCls == classes \ PathClasses IN
       {[op |-> "print", dest |-> "stdout", name |-> "", mode |-> "none", form |-> f, cls |-> "lit"] : f \in forms}
  \cup {a \in {[op |-> "print", dest |-> "file", name |-> n, mode |-> m, form |-> f, cls |-> k] :
            n \in OutNames(fs), m \in {"trunc", "append"}, f \in forms, k \in classes} : ClsFits(a.name, a.cls)}
  \cup {[op |-> "print", dest |-> "cmd", name |-> c, mode |-> "pipe", form |-> f, cls |-> k] : c \in Cmds, f \in forms, k \in plainCls}
  \cup {a \in {[op |-> "close", name |-> n, cls |-> k] : n \in fs \cup Cmds, k \in classes} : ClsFits(a.name, a.cls)}
  \cup {[op |-> "fflush", name |-> n, cls |-> "lit"] : n \in fs \cup Cmds \cup {""}}
  \cup {[op |-> "system", name |-> c, cls |-> k] : c \in Cmds, k \in plainCls}
  \cup {a \in {[op |-> "getline_file", name |-> n, cls |-> k] : n \in fs \cup {"-"}, k \in classes} : ClsFits(a.name, a.cls)}
  \cup {[op |-> "getline_cmd", name |-> c, cls |-> k] : c \in Cmds, k \in plainCls}
  \cup {a \in {[op |-> "operand", name |-> n, cls |-> k] : n \in fs \cup {"-"}, k \in classes} : ClsFits(a.name, a.cls)}
\* every way of touching a file whose directory does not exist
LostMenu(classes) ==
       {[op |-> "print", dest |-> "file", name |-> n, mode |-> m, form |-> f, cls |-> k] :
            n \in LostFiles, m \in {"trunc", "append"}, f \in {"print", "printf"}, k \in classes}
  \cup {[op |-> o, name |-> n, cls |-> k] : o \in {"getline_file", "operand"}, n \in LostFiles, k \in classes \ {"jailed"}}
\* the C12 additions: command lines without a command / starting with blanks in all three forms, operands that are
\* a directory, skipped by design, an assignment
SandboxExtra(classes) ==
  LET plainCls == classes \ PathClasses IN
       {[op |-> "print", dest |-> "cmd", name |-> c, mode |-> "pipe", form |-> "print", cls |-> k] : c \in LeadCmds \cup BlankCmds, k \in plainCls}
  \cup {[op |-> "system", name |-> c, cls |-> k] : c \in LeadCmds \cup BlankCmds, k \in plainCls}
  \cup {[op |-> "getline_cmd", name |-> c, cls |-> k] : c \in LeadCmds \cup BlankCmds, k \in plainCls}
  \cup {[op |-> "close", name |-> c, cls |-> k] : c \in LeadCmds, k \in plainCls}
  \cup {[op |-> "operand", name |-> n, cls |-> k] : n \in Dirs \cup SkipOperands, k \in plainCls}
  \cup LostMenu(plainCls \cup {"rel", "jailed"})
\* the C13 addition of payload shapes: print / printf of a string with newlines in it to every kind of destination
ShapedPrints(fs, shapes) ==
  LET Sh(a, sh) == [op |-> "print", dest |-> a.dest, name |-> a.name, mode |-> a.mode, form |-> a.form, cls |-> a.cls, shape |-> sh]
      base == {a \in Menu(fs, {"lit"}, {"print", "printf"}) : a.op = "print"}
              \cup {[op |-> "print", dest |-> "cmd", name |-> c, mode |-> "pipe", form |-> f, cls |-> "lit"] : c \in LeadCmds, f \in {"print", "printf"}}
  IN {Sh(a, sh) : a \in base, sh \in shapes}
\* the C13 additions: a command that never reads, a system() child that shows a file, print with two arguments
ExtraMenu(classes) ==
       {[op |-> "print", dest |-> "cmd", name |-> c, mode |-> "pipe", form |-> "print", cls |-> k] : c \in NoReadCmds, k \in classes}
  \cup {[op |-> "close", name |-> c, cls |-> k] : c \in NoReadCmds, k \in classes}
  \cup {[op |-> "fflush", name |-> c, cls |-> "lit"] : c \in NoReadCmds}
  \cup {[op |-> "system", name |-> c, cls |-> k] : c \in FileCmds, k \in classes}
  \cup {[op |-> "print", dest |-> "stdout", name |-> "", mode |-> "none", form |-> f, cls |-> "lit"] : f \in {"print2", "implied"}}
Endings == {[op |-> "finish"], [op |-> "exit"], [op |-> "rterror"]}
IsIO(act) == act.op \in {"print", "system", "getline_file", "getline_cmd", "operand"}

\* ------------------------------------------------------------ standard output
\* The final standard output is some interleaving of what the program wrote (P) with the
\* output of every child that shared it (for `cat`: what it was fed), each stream in its own
\* order; a child's bytes come after everything the program had written when the child was
\* started (lo) and before everything the program wrote after it had been waited for (hi).  A system() child
\* is waited for at once (lo = hi): its output lies exactly between what the program wrote before and after
\* the call.  (cat as a system() child echoes the run's standard input: such runs are tainted and not judged.)
KidSeq(st) ==
  LET RECURSIVE From(_)
      From(k) == IF k > Len(st.procs) THEN <<>>
                 ELSE IF st.procs[k].kind = "out"
                      THEN <<[out |-> st.procs[k].fed, lo |-> st.procs[k].lo, hi |-> st.procs[k].hi, sys |-> FALSE]>> \o From(k + 1)
                      ELSE IF st.procs[k].kind = "sys" /\ st.procs[k].sysout # <<>>
                      THEN <<[out |-> st.procs[k].sysout, lo |-> st.procs[k].lo, hi |-> st.procs[k].hi, sys |-> TRUE]>> \o From(k + 1)
                      ELSE From(k + 1)
  IN From(1)

RECURSIVE SumSeq(_)
SumSeq(q) == IF q = <<>> THEN 0 ELSE Head(q) + SumSeq(Tail(q))

RECURSIVE Inter(_, _, _, _, _)
Inter(s, pp, kids, pi, cs) ==
  LET i == pi + SumSeq(cs) + 1
  IN IF i > Len(s) THEN TRUE
     ELSE \/ /\ pi < Len(pp) /\ pp[pi + 1] = s[i]
             /\ \A j \in 1..Len(kids) : cs[j] < Len(kids[j].out) => pi + 1 <= kids[j].hi
             /\ Inter(s, pp, kids, pi + 1, cs)
          \/ \E j \in 1..Len(kids) :
               /\ cs[j] < Len(kids[j].out) /\ kids[j].out[cs[j] + 1] = s[i]
               /\ pi >= kids[j].lo
               /\ Inter(s, pp, kids, pi, [cs EXCEPT ![j] = @ + 1])

IsAllowedStdout(s, pp, kids) ==
  /\ Len(s) = Len(pp) + SumSeq([j \in 1..Len(kids) |-> Len(kids[j].out)])
  /\ Inter(s, pp, kids, 0, [j \in 1..Len(kids) |-> 0])

\* the schedule in which every child writes at the moment it is waited for
RECURSIVE SeqSchedule(_, _, _)
SeqSchedule(pp, kids, pi) ==
  LET due == {j \in 1..Len(kids) : kids[j].hi = pi}
      RECURSIVE Outs(_)
      Outs(j) == IF j > Len(kids) THEN <<>> ELSE (IF j \in due THEN kids[j].out ELSE <<>>) \o Outs(j + 1)
  IN Outs(1) \o (IF pi < Len(pp) THEN <<pp[pi + 1]>> \o SeqSchedule(pp, kids, pi + 1) ELSE <<>>)

\* ------------------------------------------------------------- predictions
\* What the specification predicts about the observables of a finished run.
Prediction(st) ==
  [ err         |-> st.result = "error",
    errJudged   |-> ~st.conflict /\ ~st.lostWrite /\ ~st.openFailed,
    opens       |-> st.opens,
    starts      |-> [k \in 1..Len(st.procs) |-> st.procs[k].cmd],
    files       |-> [n \in Files |-> st.fsys[n]],
    \* the file-system entries the run brought into being (under the work directory or anywhere else)
    created     |-> {n \in Files : st.fsys[n].ex /\ ~st.fsys0[n].ex},
    stdout      |-> [prog |-> st.sdel, kids |-> KidSeq(st)],
    stdoutJudged |-> ~st.taint /\ st.failAt < 0,
    serr        |-> st.serr,
    serrJudged  |-> ~st.noise /\ st.failAt < 0,
    notes       |-> st.notes,
    onlyErr     |-> st.failAt >= 0 ]
=============================================================================
