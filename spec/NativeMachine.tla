---------------------------- MODULE NativeMachine ----------------------------
(* A call of a native function as a state machine (one action per stage of   *)
(* the real code):                                                            *)
(*   Parse    resolver: argument-count check (resolve.go:472-482)             *)
(*   Setup    interp: validate Funcs (functions.go checkNativeFunc)           *)
(*   Others   the calls of the other functions of the table made before       *)
(*   Call     vm CallNative -> callNative: the function the index reaches     *)
(*   Convert  toNative for every argument, zero-fill                          *)
(*   Return / Abort   fromNative of the result / the function's error         *)
(* and signature/argument universes shared by MC_Native and Gen_Native         *)
(* (ExtSigs: extreme results; GenSigs: shapes built from parts).              *)
EXTENDS Native

VARIABLES phase, sig, args, called, shadow, cf, recv, printed, ran
nvars == <<phase, sig, args, called, shadow, cf, recv, printed, ran>>
fixed == <<sig, args, called, shadow, cf>>      \* the case: never changes

Finals == {"parse-error", "setup-error", "not-called", "returned", "aborted"}

Parse ==
  /\ phase = "start"
  /\ phase' = IF called /\ ~IsVariadic(sig) /\ Len(args) > NumParams(sig) THEN "parse-error" ELSE "parsed"
  /\ UNCHANGED <<fixed, recv, printed, ran>>
Setup ==
  /\ phase = "parsed"
  /\ phase' = IF ~ValidSig(sig) THEN "setup-error" ELSE IF called THEN "others" ELSE "not-called"
  /\ UNCHANGED <<fixed, recv, printed, ran>>
OtherCalls ==
  /\ phase = "others" /\ phase' = "ready"
  /\ ran' = RanBefore(shadow)
  /\ UNCHANGED <<fixed, recv, printed>>
Call ==
  /\ phase = "ready" /\ phase' = "called"
  /\ ran' = Append(ran, Dispatch(FALSE, shadow, sig.name))
  /\ UNCHANGED <<fixed, recv, printed>>
Convert ==
  /\ phase = "called" /\ phase' = "converted"
  /\ recv' = ReceivedCf(sig, args, cf)
  /\ UNCHANGED <<fixed, printed, ran>>
Return ==
  /\ phase = "converted" /\ sig.err # "err" /\ phase' = "returned"
  /\ printed' = OutcomeFull(sig, args, called, shadow, cf).printed
  /\ UNCHANGED <<fixed, recv, ran>>
Abort ==
  /\ phase = "converted" /\ sig.err = "err" /\ phase' = "aborted"
  /\ UNCHANGED <<fixed, recv, printed, ran>>
NNext == Parse \/ Setup \/ OtherCalls \/ Call \/ Convert \/ Return \/ Abort

\* the outcome the machine ended with, in the shape of Native!Outcome
MachineOutcome ==
  CASE phase = "parse-error" -> [o |-> "parse-error"]
    [] phase = "setup-error" -> [o |-> "setup-error"]
    [] phase = "not-called"  -> [o |-> "not-called"]
    [] phase = "aborted"     -> [o |-> "abort", recv |-> recv, ran |-> ran, dlines |-> OtherLines(shadow)]
    [] phase = "returned"    -> IF sig.res = "ext"      \* the number an extreme result is: a function of the signature
                                THEN [o |-> "ok", recv |-> recv, ran |-> ran, dlines |-> OtherLines(shadow), printed |-> printed,
                                      num |-> ExtNum(sig.rk, sig.xv)]
                                ELSE [o |-> "ok", recv |-> recv, ran |-> ran, dlines |-> OtherLines(shadow), printed |-> printed]

\* ---- universes ----
ResModes(params, variadic) ==
  {[res |-> "none", rk |-> "int", err |-> "none"]}
  \cup {[res |-> "const", rk |-> k, err |-> e] : k \in Kinds, e \in {"none", "nil", "err"}}
  \cup (IF Len(params) >= 1 /\ ~(variadic /\ Len(params) = 1)
        THEN {[res |-> "echo", rk |-> params[1], err |-> e] : e \in {"none", "nil", "err"}} ELSE {})
MkSig(params, variadic, rm) ==
  [shape |-> "ok", name |-> "fn", params |-> params, variadic |-> variadic, res |-> rm.res, rk |-> rm.rk, err |-> rm.err]
InvalidSig(shape) ==
  [shape |-> shape, name |-> "fn", params |-> <<>>, variadic |-> FALSE, res |-> "none", rk |-> "int", err |-> "none"]
\* extreme results: every result kind x every extreme value of that kind x {no error result, nil error}
ExtSigs(params) == UNION {{MkExt(params, k, x, e) : x \in ExtOf(k), e \in {"none", "nil"}} : k \in Kinds}
\* shapes built from parts: one parameter of every kind (documented or not), plain and variadic; a documented and an
\* undocumented parameter in either order; 1..3 results with every first and second result type
GenParamSigs ==
  {MkGen(<<k>>, vr, 0, "int", "error") : k \in ParamKinds, vr \in {FALSE, TRUE}}
  \cup UNION {{MkGen(ps, vr, 0, "int", "error") : vr \in {FALSE, TRUE}}
              : ps \in UNION {{<<g, k>>, <<k, g>>} : g \in {"int", "string"}, k \in BadKinds}}
GenResultSigs ==
  UNION {{MkGen(ps, FALSE, 1, k, "error") : k \in ParamKinds}
         \cup {MkGen(ps, FALSE, 2, k, r) : k \in ParamKinds, r \in SecondKinds}
         \cup {MkGen(ps, FALSE, 3, k, r) : k \in {"int", "struct"}, r \in SecondKinds}
         : ps \in {<<>>, <<"int">>}}
GenSigs == GenParamSigs \cup GenResultSigs
KeywordSig(name) ==
  [shape |-> "ok", name |-> name, params |-> <<"int">>, variadic |-> FALSE, res |-> "const", rk |-> "int", err |-> "none"]
=============================================================================
