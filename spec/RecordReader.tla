---------------------------- MODULE RecordReader ----------------------------
(***************************************************************************)
(* Reading records from a byte stream that arrives in pieces (C07).        *)
(*                                                                         *)
(* Two independent definitions are given and related by TLC                *)
(* (MC_RecordReader):                                                      *)
(*  - Records(inp, rs): the reference, a function of the WHOLE input and   *)
(*    RS, written declaratively per RS kind (what the property states).    *)
(*  - the chunked reader: a state machine (delivered, consumed, eof,       *)
(*    emitted, nr) whose Split action applies the *intended* splitter      *)
(*    SplitStep(buf, eof, rs) to the bytes retained so far.  The intended  *)
(*    splitter answers "more" whenever bytes that have not arrived yet     *)
(*    could still change the decision (a match that could grow or start    *)
(*    earlier, a newline run that could continue).                         *)
(* RS kinds:  [k |-> "nl"]                      RS = "\n"                  *)
(*            [k |-> "sep", s |-> bytes]        one character (one byte,   *)
(*                                              possibly not UTF-8, or one *)
(*                                              multi-byte character)      *)
(*            [k |-> "para"]                    RS = ""                    *)
(*            [k |-> "re", r |-> regex]         a regular expression that  *)
(*                                              cannot match the empty     *)
(*                                              string (Regex.tla AST)     *)
(* A record is [rec |-> bytes, rt |-> bytes].                              *)
(***************************************************************************)
EXTENDS Regex

RsNl        == [k |-> "nl"]
RsSep(str)  == [k |-> "sep", s |-> str]
RsPara      == [k |-> "para"]
RsRe(r1)    == [k |-> "re", r |-> r1]
\* a regular expression written with a spelling Render does not produce (counted repetition): r is its meaning
RsReT(r1, t1) == [k |-> "re", r |-> r1, txt |-> t1]

\* the text assigned to the AWK variable RS
RsText(rs) ==
  CASE rs.k = "nl"   -> <<LF>>
    [] rs.k = "sep"  -> rs.s
    [] rs.k = "para" -> <<>>
    [] rs.k = "re"   -> IF "txt" \in DOMAIN rs THEN rs.txt ELSE Render(rs.r)

DropCR(str) == IF str # <<>> /\ str[Len(str)] = CR THEN SubSeq(str, 1, Len(str) - 1) ELSE str
Ident(str)  == str

\* ------------------------------------------------------------------------
\* Reference: the records of a whole input

\* literal separator: pieces between non-overlapping leftmost occurrences; a
\* final empty piece (input ends with the separator, or is empty) is no record
SepRecords(inp, sep, Fix(_)) ==
  LET raw == SplitLit(inp, sep)
      nr0 == IF raw[Len(raw)] = <<>> THEN Len(raw) - 1 ELSE Len(raw)
  IN [j \in 1..nr0 |-> [rec |-> Fix(raw[j]), rt |-> IF j < Len(raw) THEN sep ELSE <<>>]]

RECURSIVE SkipLF(_, _)
SkipLF(str, k) == IF k <= Len(str) /\ str[k] = LF THEN SkipLF(str, k + 1) ELSE k

\* paragraphs: leading newlines are skipped, a run of two or more newlines
\* ends a record (and is its RT), one newline before the end of input is
\* dropped from the last record
RECURSIVE ParaFrom(_, _)
ParaFrom(inp, from) ==
  LET st == SkipLF(inp, from)
  IN IF st > Len(inp) THEN <<>>
     ELSE LET k == FirstOcc(inp, <<LF, LF>>, st)
          IN IF k = 0
             THEN LET body == SubSeq(inp, st, Len(inp))
                      nl   == body[Len(body)] = LF
                  IN << [rec |-> IF nl THEN SubSeq(body, 1, Len(body) - 1) ELSE body,
                         rt  |-> IF nl THEN <<LF>> ELSE <<>>] >>
             ELSE LET e == SkipLF(inp, k)
                  IN << [rec |-> SubSeq(inp, st, k - 1), rt |-> SubSeq(inp, k, e - 1)] >> \o ParaFrom(inp, e)

\* regular expression: successive leftmost-longest matches over the whole
\* input; each ends a record and is its RT; what follows the last match is
\* the last record (RT empty) unless nothing follows
\* Find of Regex.tla, computed by scanning start positions left to right and
\* stopping at the first that has a match (same value; MC_RecordReader checks it)
RECURSIVE FindFirst(_, _, _)
FindFirst(r, str, k) ==
  IF k > Len(str) + 1 THEN <<0, 0>>
  ELSE LET e == Ends(r, str, k) IN IF e # {} THEN <<k, Max(e)>> ELSE FindFirst(r, str, k + 1)

RECURSIVE ReFrom(_, _, _)
ReFrom(inp, r, from) ==
  LET m == FindFirst(r, inp, from)
  IN IF m[1] = 0
     THEN IF from > Len(inp) THEN <<>> ELSE << [rec |-> SubSeq(inp, from, Len(inp)), rt |-> <<>>] >>
     ELSE << [rec |-> SubSeq(inp, from, m[1] - 1), rt |-> SubSeq(inp, m[1], m[2] - 1)] >> \o ReFrom(inp, r, m[2])

Records(inp, rs) ==
  CASE rs.k = "nl"   -> SepRecords(inp, <<LF>>, DropCR)
    [] rs.k = "sep"  -> SepRecords(inp, rs.s, Ident)
    [] rs.k = "para" -> ParaFrom(inp, 1)
    [] rs.k = "re"   -> ReFrom(inp, rs.r, 1)

RecTexts(recs) == [j \in 1..Len(recs) |-> recs[j].rec]
RecAndRT(recs) == Concat([j \in 1..Len(recs) |-> recs[j].rec \o recs[j].rt])

\* ------------------------------------------------------------------------
\* The intended splitter: one decision on the retained bytes
\*   [k |-> "emit", adv, rec, rt]   a record; adv bytes are consumed
\*   [k |-> "skip", adv]            bytes consumed, no record
\*   [k |-> "more"]                 undecided: more bytes (or EOF) are needed
\*   [k |-> "done"]                 end of input, nothing left
More == [k |-> "more"]
Done == [k |-> "done"]
Emit(a, rc, rt1) == [k |-> "emit", adv |-> a, rec |-> rc, rt |-> rt1]

SepStep(buf, eof, sep, Fix(_)) ==
  LET k == FirstOcc(buf, sep, 1)
  IN IF k > 0 THEN Emit(k + Len(sep) - 1, Fix(SubSeq(buf, 1, k - 1)), sep)
     ELSE IF ~eof THEN More
     ELSE IF buf = <<>> THEN Done
     ELSE Emit(Len(buf), Fix(buf), <<>>)

ParaStep(buf, eof) ==
  LET st == SkipLF(buf, 1)
  IN IF st > Len(buf)
     THEN IF buf # <<>> THEN [k |-> "skip", adv |-> Len(buf)] ELSE IF eof THEN Done ELSE More
     ELSE LET k == FirstOcc(buf, <<LF, LF>>, st)
          IN IF k > 0
             THEN LET e == SkipLF(buf, k)
                  IN IF e <= Len(buf) \/ eof      \* the newline run is known to be over
                     THEN Emit(e - 1, SubSeq(buf, st, k - 1), SubSeq(buf, k, e - 1))
                     ELSE More
             ELSE IF ~eof THEN More
             ELSE LET nl == buf[Len(buf)] = LF
                  IN Emit(Len(buf), SubSeq(buf, st, IF nl THEN Len(buf) - 1 ELSE Len(buf)), IF nl THEN <<LF>> ELSE <<>>)

\* Live(r, str, k): some extension str \o w (w non-empty) has a match of r that
\* starts at k and reaches into w -- i.e. a match attempt started at k is still
\* undecided when str ends.  (Every regex of the menus is satisfiable.)
RECURSIVE Live(_, _, _)
Live(r, str, k) ==
  CASE r.k \in {"lit", "any", "cls"} -> k = Len(str) + 1
    [] r.k \in {"eps", "bol", "eol"} -> FALSE
    [] r.k = "cat"  -> Live(r.l, str, k) \/ \E j \in Ends(r.l, str, k) : Live(r.r, str, j)
    [] r.k = "alt"  -> Live(r.l, str, k) \/ Live(r.r, str, k)
    [] r.k = "star" -> \E j \in CloseStar(r.r, str, {k}) : Live(r.r, str, j)
    [] r.k = "plus" -> \E j \in ({k} \cup CloseStar(r.r, str, Ends(r.r, str, k))) : Live(r.r, str, j)
    [] r.k = "opt"  -> Live(r.r, str, k)

ReStep(buf, eof, r) ==
  LET m == FindFirst(r, buf, 1)
  IN IF m[1] # 0 /\ (eof \/ ~\E k \in 1..m[1] : Live(r, buf, k))
     THEN Emit(m[2] - 1, SubSeq(buf, 1, m[1] - 1), SubSeq(buf, m[1], m[2] - 1))
     ELSE IF ~eof THEN More
     ELSE IF buf = <<>> THEN Done
     ELSE Emit(Len(buf), buf, <<>>)

SplitStep(buf, eof, rs) ==
  CASE rs.k = "nl"   -> SepStep(buf, eof, <<LF>>, DropCR)
    [] rs.k = "sep"  -> SepStep(buf, eof, rs.s, Ident)
    [] rs.k = "para" -> ParaStep(buf, eof)
    [] rs.k = "re"   -> ReStep(buf, eof, rs.r)

\* everything the intended splitter can emit knowing only `str` (and, if eof,
\* that nothing follows)
RECURSIVE SplitAll(_, _, _)
SplitAll(str, eof, rs) ==
  LET st == SplitStep(str, eof, rs)
  IN CASE st.k = "emit" -> << [rec |-> st.rec, rt |-> st.rt] >> \o SplitAll(SubSeq(str, st.adv + 1, Len(str)), eof, rs)
       [] st.k = "skip" -> SplitAll(SubSeq(str, st.adv + 1, Len(str)), eof, rs)
       [] OTHER -> <<>>

\* ------------------------------------------------------------------------
\* The RS menu shared by MC_, Gen_ and Trace_RecordReader.
\*   name   identifies the entry in exported cases and recorded traces
\*   cls    argument class used in failure signatures: can the decision on a
\*          partial buffer differ from the decision on the whole input?
\*   alpha  the input alphabet explored with this RS
\*   judge  "spec": records are compared with Records(); RT too when rtspec
ReABplus  == Cat(Lit(c_a), Plus(Lit(c_b)))                \* ab+      a match can grow
ReAorAB   == Alt(Lit(c_a), Cat(Lit(c_a), Lit(c_b)))       \* a|ab     alternatives of different length
ReBstarA  == Cat(Star(Lit(c_b)), Lit(c_a))                \* b*a      a match can start earlier
ReNLplus  == Plus(Lit(LF))                                \* \n+
ReABlit   == Cat(Lit(c_a), Lit(c_b))                      \* ab       fixed text of two characters
ReClsAB   == Cat(Cls({c_a, c_b}), Lit(c_a))               \* [ab]a    fixed length
ReAABorB  == Alt(Cat(Lit(c_a), Cat(Lit(c_a), Lit(c_b))), Lit(c_b))   \* aab|b  an earlier, longer alternative
ReXorCRLF == Alt(Lit(c_x), Cat(Opt(Lit(CR)), Lit(LF)))    \* x|\r?\n
ReABBBorB == Alt(Cat(Lit(c_a), Cat(Lit(c_b), Cat(Lit(c_b), Lit(c_b)))), Lit(c_b))   \* abbb|b  the short match can lie well inside the buffer

BaseMenu == {
  [name |-> "nl",     rs |-> RsNl,             cls |-> "nl",         alpha |-> {c_a, LF, CR}],
  [name |-> "byte-a", rs |-> RsSep(<<c_a>>),   cls |-> "byte",       alpha |-> {c_a, c_b, LF}],
  [name |-> "byte-ff",rs |-> RsSep(<<xFF>>),   cls |-> "byte-nonutf8", alpha |-> {xFF, c_a, xC3}],
  [name |-> "para",   rs |-> RsPara,           cls |-> "para",       alpha |-> {c_a, LF, c_b}],
  [name |-> "eacute", rs |-> RsSep(EACUTE),    cls |-> "mbchar",     alpha |-> {xC3, xA9, c_a}],
  [name |-> "ab+",    rs |-> RsRe(ReABplus),   cls |-> "re-growing", alpha |-> {c_a, c_b, c_x}],
  [name |-> "a|ab",   rs |-> RsRe(ReAorAB),    cls |-> "re-growing", alpha |-> {c_a, c_b, c_x}],
  [name |-> "b*a",    rs |-> RsRe(ReBstarA),   cls |-> "re-growing", alpha |-> {c_a, c_b, c_x}],
  [name |-> "nl+",    rs |-> RsRe(ReNLplus),   cls |-> "re-growing", alpha |-> {c_a, LF, CR}],
  \* counted repetition: b{2,} (two or more), ab{1,2}
  [name |-> "b{2,}",  rs |-> RsReT(Cat(Lit(c_b), Plus(Lit(c_b))), <<c_b, LBRC, D2, COMMA, RBRC>>), cls |-> "re-growing", alpha |-> {c_a, c_b, c_x}],
  [name |-> "ab{1,2}", rs |-> RsReT(Cat(Lit(c_a), Cat(Lit(c_b), Opt(Lit(c_b)))), <<c_a, c_b, LBRC, D1, COMMA, D2, RBRC>>), cls |-> "re-growing", alpha |-> {c_a, c_b, c_x}],
  [name |-> "ab",     rs |-> RsRe(ReABlit),    cls |-> "re-fixed",   alpha |-> {c_a, c_b, c_x}],
  [name |-> "[ab]a",  rs |-> RsRe(ReClsAB),    cls |-> "re-fixed",   alpha |-> {c_a, c_b, c_x}] }
RichMenu == BaseMenu \cup {
  [name |-> "aab|b",  rs |-> RsRe(ReAABorB),   cls |-> "re-growing", alpha |-> {c_a, c_b, c_x}],
  [name |-> "x|cr?nl",rs |-> RsRe(ReXorCRLF),  cls |-> "re-growing", alpha |-> {c_x, CR, LF, c_a}],
  [name |-> "abbb|b", rs |-> RsRe(ReABBBorB),  cls |-> "re-earlier", alpha |-> {c_a, c_b, c_x}],
  [name |-> "byte-semi", rs |-> RsSep(<<SEMI>>), cls |-> "byte",   alpha |-> {SEMI, LF, CR, c_a}],
  [name |-> "para-cr", rs |-> RsPara,          cls |-> "para-cr",    alpha |-> {c_a, LF, CR}] }
Menu(rich) == IF rich THEN RichMenu ELSE BaseMenu
\* Entries whose inputs are built from BLOCKS instead of single bytes (alpha is a set of byte strings): separators far
\* longer than the text of the pattern, so that a delivery boundary can fall deep inside one occurrence.
Rep(ch, m) == [j \in 1..m |-> ch]
ReAplusB  == Cat(Plus(Lit(c_a)), Lit(c_b))                    \* a+b
ReABplusC == Cat(Lit(c_a), Cat(Plus(Lit(c_b)), Lit(c_c)))     \* ab+c
ReNLdashNL == Cat(Lit(LF), Cat(Plus(Lit(MINUS)), Lit(LF)))     \* \n-+\n
LongMenu == {
  [name |-> "a+b",     rs |-> RsRe(ReAplusB),   cls |-> "re-long", alpha |-> {<<c_x>>, <<c_b>>, <<c_a>>, Rep(c_a, 11)}],
  [name |-> "ab+c",    rs |-> RsRe(ReABplusC),  cls |-> "re-long", alpha |-> {<<c_x>>, <<c_a>>, <<c_c>>, <<c_b>>, Rep(c_b, 13)}],
  [name |-> "nl-+nl",  rs |-> RsRe(ReNLdashNL), cls |-> "re-long", alpha |-> {<<c_x>>, <<LF>>, <<MINUS>>, Rep(MINUS, 12)}],
  [name |-> "ab+long", rs |-> RsRe(ReABplus),   cls |-> "re-long", alpha |-> {<<c_x>>, <<c_a>>, <<c_b>>, Rep(c_b, 14)}],
  [name |-> "para-long", rs |-> RsPara,         cls |-> "para",    alpha |-> {<<c_a>>, <<LF>>, Rep(LF, 9), Rep(c_a, 10)}],
  [name |-> "nl-long", rs |-> RsNl,             cls |-> "nl",      alpha |-> {<<c_a>>, <<LF>>, <<CR>>, Rep(c_a, 12)}] }
AllMenu == RichMenu \cup LongMenu
MenuSel(sel) == CASE sel = "base" -> BaseMenu [] sel = "extra" -> RichMenu \ BaseMenu [] sel = "all" -> RichMenu
                  [] sel = "long" -> LongMenu
                  [] OTHER -> {m \in AllMenu : m.name = sel}
MenuEntry(nm) == CHOOSE m \in AllMenu : m.name = nm

\* ------------------------------------------------------------------------
\* RS assigned while an input is being read.  What the statement determines: a record is split off with the RS in force
\* when it is read, so after the program assigned RS on seeing record number k, the rest of the input (everything after
\* record k and its terminator) is split by the new RS.  The entries start with a regular-expression RS, the case the
\* implementation treats (an active regex splitter follows the recompiled separator); the new RS is a newline, one
\* character or another regular expression, over alphabets without CR.
RsAt(rs1, rs2, k, nrec) == IF nrec >= k THEN rs2 ELSE rs1
RecordsSwitch(inp, rs1, rs2, k) ==
  LET r1 == Records(inp, rs1)
  IN IF Len(r1) <= k THEN r1
     ELSE LET hd   == SubSeq(r1, 1, k)
              used == Len(RecAndRT(hd))
          IN hd \o Records(SubSeq(inp, used + 1, Len(inp)), rs2)
SwitchMenu == {
  [name |-> "ab->nl",    rs |-> RsRe(ReABlit),  rs2 |-> RsNl,              cls |-> "switch-nl",   alpha |-> {c_a, c_b, LF}],
  [name |-> "ab+->nl",   rs |-> RsRe(ReABplus), rs2 |-> RsNl,              cls |-> "switch-nl",   alpha |-> {c_a, c_b, LF}],
  [name |-> "x|nl->nl",  rs |-> RsRe(Alt(Lit(c_x), Lit(LF))), rs2 |-> RsNl, cls |-> "switch-nl",  alpha |-> {c_a, c_x, LF}],
  [name |-> "ab->x",     rs |-> RsRe(ReABlit),  rs2 |-> RsSep(<<c_x>>),    cls |-> "switch-byte", alpha |-> {c_a, c_b, c_x}],
  [name |-> "ab->[ab]a", rs |-> RsRe(ReABlit),  rs2 |-> RsRe(ReClsAB),     cls |-> "switch-re",   alpha |-> {c_a, c_b, c_x}],
  [name |-> "[ab]a->ab+",rs |-> RsRe(ReClsAB),  rs2 |-> RsRe(ReABplus),    cls |-> "switch-re",   alpha |-> {c_a, c_b, c_x}],
  [name |-> "ab->eacute",rs |-> RsRe(ReABlit),  rs2 |-> RsSep(EACUTE),     cls |-> "switch-mbchar", alpha |-> {c_a, c_b, xC3, xA9}] }

\* Which parts of a case the statement pins down (the rest is compared across
\* delivery schedules only):
\*  - paragraph mode with carriage returns in the input: the statement says
\*    nothing about CR there -> records not judged against Records()
\*  - RT is defined by the statement for a regular-expression RS only
HasByte(str, ch) == \E j \in 1..Len(str) : str[j] = ch
JudgeRecs(inp, rs) == ~(rs.k = "para" /\ HasByte(inp, CR))
JudgeRT(rs)        == rs.k = "re"

\* Prefix law (used to place the same inputs behind a long first record, at
\* the edge of the reader's 64 KiB buffer): a filler byte that occurs neither
\* in RS nor in the alphabet only lengthens the first record, provided the
\* input has a first record that starts at the first byte.
Filler == c_z
PrefixOK(inp, rs) ==
  /\ Records(inp, rs) # <<>>
  /\ (rs.k = "para" => inp[1] # LF)
PrefixFirst(fill, recs) == [j \in 1..Len(recs) |-> IF j = 1 THEN [recs[1] EXCEPT !.rec = fill \o recs[1].rec] ELSE recs[j]]
=============================================================================
