SPECIFICATION Spec
CONSTANTS
  MaxOps = 2
  MaxOdd = 1
  Prods = {"name", "num", "str", "re", "grp", "field", "idx", "call", "u-", "u+", "u!", "in", "pget", "pgetv", "fget", "fgetv", "post++", "post--", "pre++", "pre--", "get", "getv", "||", "&&", "~", "!~", "<", "<=", "!=", "==", ">", ">=", "cat", "+", "-", "*", "/", "%", "^", "=", "+=", "?:", "lfield", "lidx"}
  Ctxs = {"stmt", "print", "printgt", "printpipe", "pat", "cond"}
INVARIANTS NeverRejected ParsesBack StacksBounded SxAgrees PrintGtIsRedirect RunIsMachine
CHECK_DEADLOCK FALSE
