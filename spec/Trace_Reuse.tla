---------------------------- MODULE Trace_Reuse ----------------------------
(* Validates histories recorded from one real Interpreter against Reuse.tla  *)
(* (ExecSpec, the same operator Gen_Reuse exports from).  Event shapes:      *)
(*   {"ev":"reset"}                       a new interpreter / new trace      *)
(*   {"ev":"step","op":"resetvars"}       ResetVars was called               *)
(*   {"ev":"step","op":"resetrand"}       ResetRand was called               *)
(*   {"ev":"step","op":"run","kind":k,"cfg":c,"tag":t,"status":n,"err":e,   *)
(*    "out":[{"k":key,"v":bytes},...]}                                       *)
(*        one Execute/ExecuteContext call and everything it printed; t makes *)
(*        the run's standard input its own.  The value of a rand() chunk     *)
(*        ("rand", "rnd") is written by the recorder as "seed:idx" when it   *)
(*        is the idx-th draw of a NEW interpreter seeded with seed (one of   *)
(*        the seeds the program uses; 1 = not seeded), else as "?"           *)
(* Whatever the code did is an event: an error class no run is predicted to  *)
(* have ("deadline" from a context that is not the call's own, "panic"), an  *)
(* empty output, output that is not of the program's form (chunk key "?"),   *)
(* a kind or configuration the specification does not know.  All of these    *)
(* are REJECTED (and then reproduced on the real code by the check); none    *)
(* may stop TLC.                                                             *)
EXTENDS Reuse, TraceBase

VARIABLES st, l
vars == <<st, l>>

Init == st = StInit /\ l = 1

OutMatches(exp, got) ==
  /\ Len(exp) = Len(got)
  /\ \A j \in 1..Len(exp) :
       /\ exp[j].k = got[j].k
       /\ CASE exp[j].cmp \in {"eq", "rnd"} -> exp[j].v = got[j].v
            [] OTHER                        -> TRUE

Explains(ev, ex) ==
  /\ ev.status = ex.res.status
  /\ ev.err = ex.res.err
  /\ OutMatches(ex.res.out, ev.out)

Known(ev) == ev.kind \in Kinds /\ ev.cfg \in CfgNames /\ ev.tag \in 1..99

TRun ==
  /\ l <= NLog /\ Log[l].ev = "step" /\ Log[l].op = "run"
  /\ \E ev \in {Log[l]} :
       IF ~Known(ev)
       THEN /\ Reject(l, [kind |-> ev.kind, cfg |-> ev.cfg, unknown |-> TRUE])
            /\ st' = StInit
            /\ l' = AfterNextReset(l)
       ELSE \E ex \in {ExecSpec(st, ev.kind, WithTag(CfgNamed(ev.cfg), ev.tag))} :
              IF Explains(ev, ex)
              THEN st' = ex.st /\ l' = l + 1
              ELSE /\ Reject(l, [kind |-> ev.kind, cfg |-> ev.cfg, expected |-> ex.res])
                   /\ st' = StInit
                   /\ l' = AfterNextReset(l)

TResetVars == l <= NLog /\ Log[l].ev = "step" /\ Log[l].op = "resetvars" /\ st' = ResetVarsOp(st) /\ l' = l + 1
TResetRand == l <= NLog /\ Log[l].ev = "step" /\ Log[l].op = "resetrand" /\ st' = ResetRandOp(st) /\ l' = l + 1
TReset     == l <= NLog /\ Log[l].ev = "reset" /\ st' = StInit /\ l' = l + 1
TDone      == l = NLog + 1 /\ PrintT("TRACE-END") /\ l' = l + 1 /\ UNCHANGED st

Next == TRun \/ TResetVars \/ TResetRand \/ TReset \/ TDone
Spec == Init /\ [][Next]_vars
=============================================================================
