--------------------------- MODULE RecordMachine ---------------------------
(***************************************************************************)
(* The record of Record.tla as a state machine over a menu of operation    *)
(* instances.  An operation instance is a record [op, ...]; Apply and      *)
(* LazyApply are total on enabled instances.  MC_Record, Gen_Record and    *)
(* Trace_Record all use exactly these operators.                           *)
(*                                                                         *)
(* op        arguments                 AWK rendering                       *)
(* "read"    s                         getline            (next input line)*)
(* "set0"    s                         $0 = s                              *)
(* "setf"    k, v, (src)               $(k) = v                            *)
(* "setnf"   m, (src)                  NF = m                              *)
(* "setfs"   fsv                       FS = ...                            *)
(* "setofs"  s                         OFS = s                             *)
(* "setom"   md                        OUTPUTMODE = md                     *)
(* "getf"    k                         x = $(k)                            *)
(* "getnf"                             x = NF                              *)
(* "incr"    k                         $(k)++    (fields that are small    *)
(*                                     non-negative integers or non-numeric)*)
(* "augf"    k, d                      $(k) += d  (same fields)            *)
(* "subf"    k, gl, re, rp, text       sub / gsub(/re/, rp, $(k)): when at *)
(*                                     least one match is replaced this is *)
(*                                     an assignment to $(k) (also when    *)
(*                                     the text comes out the same); with  *)
(*                                     no match nothing changes; the call  *)
(*                                     returns the number of replacements  *)
(* "getlinef" k, s                     getline $(k)   (next input line)    *)
(* Numeric arguments carry, next to the integer the language truncates     *)
(* them to (k, m), the AWK source text they are written as (src), so that  *)
(* fractional and string spellings are part of the menu.                   *)
(***************************************************************************)
EXTENDS Record, TLC

\* --- a tiny number reader for "incr": value of the longest digit prefix
\* after leading blanks (anything else is 0); enough for this machine, the
\* full conversion lives in Values.tla.
RECURSIVE DigitsVal(_, _, _)
DigitsVal(str, k, acc) ==
  IF k <= Len(str) /\ IsDigit(str[k]) THEN DigitsVal(str, k + 1, acc * 10 + (str[k] - 48)) ELSE acc
SmallNum(str) == DigitsVal(str, SkipBlanks(str, 1), 0)
\* strings "incr" is generated for: optional blanks, then no sign/dot/exponent forms
IncrOK(str) == \A j \in 1..Len(str) : str[j] \in {c_a, c_b, c_x, SP, COMMA, COLON, DQ, D1, D2}

Apply(rc, act) ==
  CASE act.op = "read"   -> RecSet0(rc, act.s)
    [] act.op = "set0"   -> RecSet0(rc, act.s)
    [] act.op = "setf"   -> RecSetField(rc, act.k, act.v)
    [] act.op = "setnf"  -> RecSetNF(rc, act.m)
    [] act.op = "setfs"  -> RecSetFS(rc, act.fsv)
    [] act.op = "setofs" -> RecSetOFS(rc, act.s)
    [] act.op = "setom"  -> RecSetOMode(rc, act.md)
    [] act.op = "getf"   -> rc
    [] act.op = "getnf"  -> rc
    [] act.op = "incr"   -> RecSetField(rc, act.k, IntStr(SmallNum(RecGet(rc, act.k)) + 1))
    [] act.op = "augf"   -> RecSetField(rc, act.k, IntStr(SmallNum(RecGet(rc, act.k)) + act.d))
    [] act.op = "subf"   -> LET res == Substitute(act.re, act.rp, RecGet(rc, act.k), act.gl)
                            IN IF res[2] = 0 THEN rc ELSE RecSetField(rc, act.k, res[1])
    [] act.op = "getlinef" -> RecSetField(rc, act.k, act.s)

\* value produced by a read operation (<<>> for the others)
ReadValue(rc, act) ==
  CASE act.op = "getf"  -> RecGet(rc, act.k)
    [] act.op = "getnf" -> IntStr(RecNF(rc))
    [] act.op = "subf"  -> IntStr(Substitute(act.re, act.rp, RecGet(rc, act.k), act.gl)[2])
    [] OTHER -> <<>>

LazyApply(lz, act) ==
  CASE act.op = "read"   -> LazySet0(lz, act.s)
    [] act.op = "set0"   -> LazySet0(lz, act.s)
    [] act.op = "setf"   -> LazySetField(lz, act.k, act.v)
    [] act.op = "setnf"  -> LazySetNF(lz, act.m)
    [] act.op = "setfs"  -> [lz EXCEPT !.fs = act.fsv]
    [] act.op = "setofs" -> [lz EXCEPT !.ofs = act.s]
    [] act.op = "setom"  -> [lz EXCEPT !.omode = act.md]
    [] act.op = "getf"   -> LazyGet(lz, act.k)[1]
    [] act.op = "getnf"  -> LazyGetNF(lz)[1]
    [] act.op = "incr"   -> LET gv == LazyGet(lz, act.k)
                            IN LazySetField(gv[1], act.k, IntStr(SmallNum(gv[2]) + 1))
    [] act.op = "augf"   -> LET gv == LazyGet(lz, act.k)
                            IN LazySetField(gv[1], act.k, IntStr(SmallNum(gv[2]) + act.d))
    [] act.op = "subf"   -> LET gv == LazyGet(lz, act.k)
                                res == Substitute(act.re, act.rp, gv[2], act.gl)
                            IN IF res[2] = 0 THEN gv[1] ELSE LazySetField(gv[1], act.k, res[1])
    [] act.op = "getlinef" -> LazySetField(lz, act.k, act.s)
LazyReadValue(lz, act) ==
  CASE act.op = "getf"  -> LazyGet(lz, act.k)[2]
    [] act.op = "getnf" -> IntStr(LazyGetNF(lz)[2])
    [] act.op = "subf"  -> IntStr(Substitute(act.re, act.rp, LazyGet(lz, act.k)[2], act.gl)[2])
    [] OTHER -> <<>>

\* An instance is enabled when the machine has not failed and the record stays inside the
\* bound.  "incr" is generated only on fields whose numeric value this module can read.
\* A negative index that designates no field (before $1) is a no-op in the specification;
\* the statement does not say whether an implementation may instead report an error there,
\* so the conformance harness accepts either "unchanged" or "error" for those steps
\* (NegOutOfRange) -- but never a change to some other field.
NegOutOfRange(rc, act) ==
  act.op \in {"setf", "getf", "incr", "augf", "subf", "getlinef"} /\ act.k < 0 /\ 0 - act.k > RecNF(rc)

Enabled(rc, act, maxNF) ==
  /\ ~rc.err
  /\ act.op = "setf" => (act.k <= MaxField => act.k <= maxNF)
  /\ act.op = "setnf" => (act.m <= MaxField => act.m <= maxNF)
  /\ act.op \in {"incr", "augf"} => /\ act.k # 0 /\ act.k <= maxNF
                                     /\ IncrOK(RecGet(rc, act.k))
                                     /\ SmallNum(RecGet(rc, act.k)) < 100
  /\ act.op \in {"subf", "getlinef"} => act.k <= maxNF
=============================================================================
