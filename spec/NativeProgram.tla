---------------------------- MODULE NativeProgram ----------------------------
(* Property C17, native calls inside WHOLE PROGRAMS: two small machines over  *)
(* the universes Native!PosCases and Native!KeepCases.                        *)
(*                                                                            *)
(* kind = "pos": a run is  begin -> pattern -> action -> end -> finished  over *)
(* one input record; the one call of the program is evaluated in the stage    *)
(* Native!StageOf(pos).  "A non-nil error aborts the run with exactly that    *)
(* error": from the call the run goes to "aborted" carrying the error, no     *)
(* later stage runs, the END marker is never printed.  DropIn (a set of       *)
(* positions) is the slip -- the error of a call in one of these positions is *)
(* computed and then not looked at, the run goes on -- that TLC refutes       *)
(* (AbortsEverywhere, PosMachineIsOutcome).                                   *)
(*                                                                            *)
(* kind = "keep": the Go function owns memory (heap: a sequence of byte       *)
(* strings; object 1 is its scratch buffer), every call returns a REFERENCE   *)
(* to an object; conversion of the result COPIES the bytes into an AWK value, *)
(* which is then kept.  Later calls overwrite the scratch buffer or wipe the  *)
(* object returned last.  ResultsAreValues: every kept value is, at every     *)
(* moment, the text the function returned for ITS call.  Alias = TRUE is the  *)
(* slip (the AWK value is the reference, not a copy) that TLC refutes.        *)
EXTENDS Native

CONSTANTS DropIn, Alias, MaxCalls

VARIABLES kind, pc, stage, calls, after, endmark, err, heap, held, last
pvars == <<kind, pc, stage, calls, after, endmark, err, heap, held, last>>

Stages == <<"begin", "pattern", "action", "end">>
NextStage(st) == CASE st = "begin" -> "pattern" [] st = "pattern" -> "action" [] st = "action" -> "end" [] st = "end" -> "finished"

PInit ==
  /\ \/ kind = "pos" /\ pc \in PosCases
     \/ kind = "keep" /\ pc \in KeepCases(MaxCalls)
  /\ stage = "begin" /\ calls = 0 /\ after = FALSE /\ endmark = FALSE /\ err = "none"
  /\ heap = <<"">> /\ held = <<>> /\ last = 0

\* ---- positions ----
\* one stage of the run: if the call is written there it is made; its error ends the run
RunStage ==
  /\ kind = "pos" /\ stage \in {"begin", "pattern", "action", "end"}
  /\ IF StageOf(pc.pos) = stage
     THEN /\ calls' = calls + 1
          /\ IF pc.sig.err = "err" /\ pc.pos \notin DropIn
             THEN stage' = "aborted" /\ err' = "own" /\ UNCHANGED <<after, endmark>>
             ELSE /\ stage' = NextStage(stage) /\ after' = TRUE /\ UNCHANGED err
                  /\ endmark' = (stage = "end")
     ELSE /\ stage' = NextStage(stage) /\ endmark' = (stage = "end") /\ UNCHANGED <<calls, after, err>>
  /\ UNCHANGED <<kind, pc, heap, held, last>>

PosMachineOutcome ==
  IF stage = "aborted" THEN [o |-> "abort", calls |-> calls, after |-> after, afterJudged |-> pc.pos # "range-stop", endmark |-> endmark]
  ELSE [o |-> "ok", calls |-> calls, after |-> after, afterJudged |-> TRUE, endmark |-> endmark]
PosMachineIsOutcome == (kind = "pos" /\ stage \in {"finished", "aborted"}) => PosMachineOutcome = PosOutcome(pc.sig, pc.args, pc.pos)
\* in EVERY position: once the function has returned an error nothing else of the program runs
AbortsEverywhere == (kind = "pos" /\ pc.sig.err = "err" /\ calls > 0) => (stage = "aborted" /\ err = "own" /\ ~endmark /\ ~after)
NoErrorNoAbort   == (kind = "pos" /\ pc.sig.err # "err") => (stage # "aborted" /\ err = "none")

\* ---- results are values ----
Deref(h) == IF Alias THEN heap[h.ref] ELSE h.s
KeepCall ==
  /\ kind = "keep" /\ calls < Len(pc.args)
  /\ LET t   == StrForm(pc.args[calls + 1])
         hp  == CASE pc.policy = "scratch" -> [heap EXCEPT ![1] = t]
                  [] pc.policy = "fresh"   -> Append(heap, t)
                  [] pc.policy = "wipe"    -> Append(IF last = 0 THEN heap ELSE [heap EXCEPT ![last] = Wiped], t)
         obj == IF pc.policy = "scratch" THEN 1 ELSE Len(hp)
     IN /\ heap' = hp /\ last' = obj
        \* the conversion of the result: the bytes of the object as they are NOW
        /\ held' = Append(held, IF Alias THEN [ref |-> obj] ELSE [s |-> hp[obj]])
  /\ calls' = calls + 1
  /\ stage' = (IF calls + 1 = Len(pc.args) THEN "finished" ELSE stage)
  /\ UNCHANGED <<kind, pc, after, endmark, err>>

ResultsAreValues == kind = "keep" => \A j \in 1..Len(held) : Deref(held[j]) = StrForm(pc.args[j])
\* what the program prints at the end is what Native!KeepOutcome says
KeepMachineIsOutcome ==
  (kind = "keep" /\ stage = "finished") =>
     LET oc == KeepOutcome(pc)
     IN /\ oc.calls = calls
        /\ IF pc.hold = "subscript"
           THEN \* one element per distinct subscript, holding the number of the last call that gave it
                \A q \in 1..Len(oc.kept) :
                   \E j \in 1..Len(held) : /\ Deref(held[j]) = oc.kept[q].key /\ ToString(j) = oc.kept[q].val
                                           /\ \A m \in (j + 1)..Len(held) : Deref(held[m]) # Deref(held[j])
           ELSE /\ Len(oc.kept) = Len(held)
                /\ \A j \in 1..Len(held) : oc.kept[j].val = Deref(held[j])

PNext == RunStage \/ KeepCall
PSpec == PInit /\ [][PNext]_pvars
PosNeverStuck == (kind = "pos" /\ stage \notin {"finished", "aborted"}) => ENABLED RunStage
=============================================================================
