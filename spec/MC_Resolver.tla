---------------------------- MODULE MC_Resolver ----------------------------
(* Exhaustive check of the resolver model: for every program of a universe  *)
(* of ResolverGen and every order of visiting the function bodies that Go's *)
(* map iteration and the depth-first topological walk can produce, the      *)
(* multi-pass inference gives the declarative verdict and types.            *)
(* Family "forms" (and Forms # {} in family "usage"): arguments of calls    *)
(* and of length() in every form -- bare variable, (x), x "", x[length(x)], *)
(* constant; VisitCall / VisitUse treat every form but the bare variable as *)
(* an expression, and Exact / Sound / order independence hold for them.     *)
(* Family "collect" (C19a) has no resolver run: its states are the sources  *)
(* with several collected errors, and the invariant CollectDet says that    *)
(* the error reported for each is the same for every walk over the table.   *)
EXTENDS ResolverGen

CONSTANTS Family,        \* "usage", "multi", "frames", "forms" or "collect"
          MapOrder,      \* "any" (as built) or "sorted" (iteration over sorted keys)
          CollectRel     \* "lex" (a total order on positions) or "either" (the refuted slip)

Slots == CASE Family = "usage" -> UsageSlots [] Family = "multi" -> MultiSlots
           [] Family = "frames" -> FramesSlots [] Family = "collect" -> CollectSlots
           [] Family = "forms" -> FormsSlots
Opts(k, chosen) == CASE Family = "usage" -> SlotOpts(Slots[k], chosen) [] Family = "multi" -> MultiOpts(Slots[k])
                     [] Family = "frames" -> FramesOpts(Slots[k]) [] Family = "collect" -> CollectOpts(Slots[k], chosen)
                     [] Family = "forms" -> FormsOpts(Slots[k])
Program(chosen) == CASE Family = "usage" -> UsageProgram(chosen) [] Family = "multi" -> MultiProgram(chosen)
                     [] Family = "frames" -> FramesProgram(chosen) [] Family = "forms" -> FormsProgram(chosen)
                     [] Family = "collect" -> [funcs |-> <<>>, main |-> <<>>, sites |-> CollectSites(chosen)]

VARIABLES ch, built, prog, rs
vars == <<ch, built, prog, rs>>

Init == ch = <<>> /\ built = FALSE /\ prog = <<>> /\ rs = <<>>

\* ---- building a program of the universe ----
Build ==
  /\ ~built /\ Len(ch) < Len(Slots)
  /\ \E c \in Opts(Len(ch) + 1, ch) : ch' = Append(ch, c)
  /\ UNCHANGED <<built, prog, rs>>
Finish ==
  /\ ~built /\ Len(ch) = Len(Slots)
  /\ built' = TRUE /\ ch' = <<>>
  /\ prog' = Program(ch)
  /\ rs' = RInit(prog')

\* ---- the resolver (thin wrappers around the step functions of Resolver.tla) ----
GOrder == IdentityOrder(prog)
ChooseOrder ==
  /\ built /\ rs.phase = "order"
  /\ \E o \in PossibleOrders(prog, MapOrder) : rs' = RChooseOrder(prog, rs, o)
  /\ UNCHANGED <<ch, built, prog>>
\* One statement of the body being visited.  The three cases of resolve.go's visitor are the step
\* functions RVisitUse (VarExpr / IndexExpr / length(v)), RVisitCall (UserCallExpr: the argument and
\* parameter propagation cases) and RFail (a use or an argument contradicts what is known: parse
\* error with message and position); they are one TLC action so that the step is evaluated once.
VisitStmt ==
  /\ built /\ AtStmt(prog, rs)
  /\ rs' = RVisitStmt(prog, rs) /\ UNCHANGED <<ch, built, prog>>
VisitUse  == VisitStmt /\ BodyOf(prog, CurFunc(rs))[rs.si].k # "call" /\ ~Failed(rs')
VisitCall == VisitStmt /\ BodyOf(prog, CurFunc(rs))[rs.si].k = "call" /\ ~Failed(rs')
Reject    == VisitStmt /\ Failed(rs')
EndPass  == built /\ AtPassEnd(rs) /\ rs' = REndPass(prog, rs) /\ UNCHANGED <<ch, built, prog>>
DefaultUnknownToScalar ==
  built /\ rs.phase = "default" /\ rs' = RDefault(prog, rs) /\ UNCHANGED <<ch, built, prog>>
AssignIndexes ==
  built /\ rs.phase = "index" /\ rs' = RAssignIndexes(prog, rs, GOrder) /\ UNCHANGED <<ch, built, prog>>

Next == Build \/ Finish \/ ChooseOrder \/ VisitStmt \/ EndPass
        \/ DefaultUnknownToScalar \/ AssignIndexes
Spec == Init /\ [][Next]_vars

\* ---- properties ----
InPrecondition == (built /\ rs.phase = "order") => WellFormed(prog)
\* C16: the verdict is the declarative one on every path (hence independent of the order) ...
ExactInv  == built => Exact(prog, rs)
\* ... accepted programs type every use consistently with its component ...
SoundInv  == built => Sound(prog, rs)
\* ... and the 100-pass limit is never the reason of a rejection
\* (the pass counter only grows, so it is enough to look at finished resolutions)
PassBoundInv == (built /\ rs.phase = "done") => (PassBound(prog, rs) /\ (rs.verdict = "reject" => rs.err.kind # "toomany"))
\* every order is a permutation of the functions; callees precede callers when the call graph is acyclic
OrdersOK ==
  (built /\ rs.phase = "order") =>
     \A o \in PossibleOrders(prog, MapOrder) :
        LET w == WalkList(o)
        IN /\ Len(w) = NumFuncs(prog) + 1
           /\ \A f \in 1..NumFuncs(prog) : \E k \in 1..Len(w) : w[k] = f
\* the actions and the function RRun are the same machine
RunAgrees == (built /\ rs.phase = "done") => rs = RunWithOrder(prog, rs.order, GOrder)
\* C19a: verdict, types and indexes do not depend on the path through ChooseOrder
DeterministicVerdict ==
  (built /\ rs.phase = "order") =>
     Cardinality({ObsVerdict(RunWithOrder(prog, o, GOrder)) : o \in PossibleOrders(prog, MapOrder)}) = 1
\* C19a, collected errors: one report whatever the walk over the table (refuted for CollectRel = "either")
CollectDet == (built /\ Family = "collect") => CollectDeterministic(CollectRel, prog.sites)
\* C19a: neither do the message and the position of a rejection.  This holds for MapOrder = "sorted"
\* and is VIOLATED for MapOrder = "any" (two paths with different first errors): the candidate that
\* the replay then looks for in the real parser.
DeterministicError ==
  (built /\ rs.phase = "order") =>
     Cardinality({ObsError(RunWithOrder(prog, o, GOrder)) : o \in PossibleOrders(prog, MapOrder)}) = 1
=============================================================================
