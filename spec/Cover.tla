-------------------------------- MODULE Cover --------------------------------
(***************************************************************************)
(* Coverage instrumentation (C18), specified over the syntax trees of      *)
(* AwkSem.                                                                  *)
(*                                                                         *)
(* Label(prog) gives every statement of every statement list a unique      *)
(* label; the reference semantics counts in its ghost map `cnt` how often   *)
(* each labelled statement began executing.  Blocks(prog) is the partition *)
(* the instrumentation must report: every statement list is cut into       *)
(* maximal runs that end at a control-flow statement (if, for, for-in,     *)
(* while, do-while, block), recursively for the bodies.  A block's count   *)
(* is the ghost count of its first statement.                              *)
(***************************************************************************)
EXTENDS AwkSem

IsControl(s) == s.k \in {"if", "for", "forin", "while", "do", "block"}

\* ------------------------------------------------------------- labelling
RECURSIVE LabelList(_, _), LabelStmt(_, _)
\* <<labelled list, next free number>>
LabelList(ss, m) ==
  IF ss = <<>> THEN <<<<>>, m>>
  ELSE LET hd == LabelStmt(ss[1], m)
           tl == LabelList(Tail(ss), hd[2])
       IN <<<<hd[1]>> \o tl[1], tl[2]>>
WithLbl(s, m) == [lbl |-> "s" \o ToString(m)] @@ s
LabelStmt(s, m) ==
  CASE s.k = "if" -> LET t == LabelList(s.t, m + 1) f == LabelList(s.f, t[2])
                     IN <<WithLbl([s EXCEPT !.t = t[1], !.f = f[1]], m), f[2]>>
    [] s.k \in {"for", "forin", "while", "do", "block"} ->
                     LET b == LabelList(s.b, m + 1) IN <<WithLbl([s EXCEPT !.b = b[1]], m), b[2]>>
    [] OTHER -> <<WithLbl(s, m), m + 1>>

RECURSIVE LabelRules(_, _), LabelFuncs(_, _)
LabelRules(rs, m) ==
  IF rs = <<>> THEN <<<<>>, m>>
  ELSE LET b == LabelList(rs[1].body, m)
           tl == LabelRules(Tail(rs), b[2])
       IN <<<<[rs[1] EXCEPT !.body = b[1]]>> \o tl[1], tl[2]>>
LabelFuncs(fs, m) ==
  IF fs = <<>> THEN <<<<>>, m>>
  ELSE LET b == LabelList(fs[1].body, m)
           tl == LabelFuncs(Tail(fs), b[2])
       IN <<<<[fs[1] EXCEPT !.body = b[1]]>> \o tl[1], tl[2]>>

Label(prog) ==
  LET bg == LabelList(prog.begin, 1)
      rl == LabelRules(prog.rules, bg[2])
      en == LabelList(prog.end, rl[2])
      fn == LabelFuncs(prog.funcs, en[2])
  IN [begin |-> bg[1], rules |-> rl[1], end |-> en[1], funcs |-> fn[1]]

\* ---------------------------------------------------------------- blocks
\* a block: [first (label of its first statement), n (number of statements)]
RECURSIVE BlocksOf(_, _), Nested(_)
Nested(s) ==
  CASE s.k = "if" -> BlocksOf(s.t, <<>>) \o BlocksOf(s.f, <<>>)
    [] s.k \in {"for", "forin", "while", "do", "block"} -> BlocksOf(s.b, <<>>)
    [] OTHER -> <<>>
\* run: labels of the statements accumulated in the current run
BlocksOf(ss, run) ==
  IF ss = <<>> THEN (IF run = <<>> THEN <<>> ELSE <<[first |-> run[1], n |-> Len(run)]>>)
  ELSE LET r2 == Append(run, ss[1].lbl)
       IN IF IsControl(ss[1])
          THEN <<[first |-> r2[1], n |-> Len(r2)]>> \o Nested(ss[1]) \o BlocksOf(Tail(ss), <<>>)
          ELSE BlocksOf(Tail(ss), r2)

RECURSIVE ConcatAll(_)
ConcatAll(sq) == IF sq = <<>> THEN <<>> ELSE sq[1] \o ConcatAll(Tail(sq))
Blocks(lp) ==
  BlocksOf(lp.begin, <<>>)
  \o ConcatAll([j \in 1..Len(lp.rules) |-> BlocksOf(lp.rules[j].body, <<>>)])
  \o BlocksOf(lp.end, <<>>)
  \o ConcatAll([j \in 1..Len(lp.funcs) |-> BlocksOf(lp.funcs[j].body, <<>>)])

\* number of statements in statement lists (what the blocks must add up to)
RECURSIVE NStmts(_)
NStmts(ss) ==
  IF ss = <<>> THEN 0
  ELSE 1 + (CASE ss[1].k = "if" -> NStmts(ss[1].t) + NStmts(ss[1].f)
              [] ss[1].k \in {"for", "forin", "while", "do", "block"} -> NStmts(ss[1].b)
              [] OTHER -> 0) + NStmts(Tail(ss))
RECURSIVE SumSeq(_)
SumSeq(sq) == IF sq = <<>> THEN 0 ELSE sq[1] + SumSeq(Tail(sq))
TotalStmts(lp) ==
  NStmts(lp.begin) + SumSeq([j \in 1..Len(lp.rules) |-> NStmts(lp.rules[j].body)]) + NStmts(lp.end)
  + SumSeq([j \in 1..Len(lp.funcs) |-> NStmts(lp.funcs[j].body)])

\* the partition law of the statement, on the model: block sizes add up to the number of statements
\* and no label starts two blocks
PartitionOK(lp) ==
  LET bl == Blocks(lp)
  IN /\ SumSeq([j \in 1..Len(bl) |-> bl[j].n]) = TotalStmts(lp)
     /\ \A i, j \in 1..Len(bl) : i # j => bl[i].first # bl[j].first

\* predicted profile: for each block its count in count mode (set mode: 1 iff count > 0)
Profile(lp, st) == [j \in 1..Len(Blocks(lp)) |->
                      [first |-> Blocks(lp)[j].first, n |-> Blocks(lp)[j].n, count |-> Lookup(st.cnt, Blocks(lp)[j].first, 0)]]
\* ---------------------------------------------------------------- the profile FILE over several runs
\* The file named by -coverprofile is a value of its own: absent, or a sequence of lines.  A run with coverage
\* writes "mode: M" followed by its block lines when the file is absent or -coverappend is off (whatever the file
\* held before is gone: the new file is exactly header + blocks, also when the old one was longer), and adds only
\* its block lines at the end when the file exists and -coverappend is on.
NoFile == [ex |-> FALSE, lines |-> <<>>]
WriteProfileFile(file, mode, body, append) ==
  IF file.ex /\ append THEN [ex |-> TRUE, lines |-> file.lines \o body]
  ELSE [ex |-> TRUE, lines |-> <<"mode: " \o mode>> \o body]
\* what the harness drives: a history of runs of the same program on one path
RECURSIVE ProfileFileAfter(_, _, _, _)
ProfileFileAfter(file, mode, body, appends) ==
  IF appends = <<>> THEN file
  ELSE ProfileFileAfter(WriteProfileFile(file, mode, body, appends[1]), mode, body, Tail(appends))
\* laws: without append the result does not depend on the earlier content; with append nothing of it is lost
ProfileFileLaws(mode, body, old) ==
  /\ WriteProfileFile(old, mode, body, FALSE) = WriteProfileFile(NoFile, mode, body, FALSE)
  /\ old.ex => SubSeq(WriteProfileFile(old, mode, body, TRUE).lines, 1, Len(old.lines)) = old.lines
  /\ Len(WriteProfileFile(old, mode, body, TRUE).lines) = (IF old.ex THEN Len(old.lines) ELSE 1) + Len(body)
=============================================================================
