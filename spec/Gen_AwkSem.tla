----------------------------- MODULE Gen_AwkSem -----------------------------
(* Behaviour export for C01: every case of the selected program families    *)
(* (AwkFamilies.tla) is evaluated with the reference semantics; TLC asserts   *)
(* that the equivalent spellings are equivalent on the model and exports the *)
(* prediction.                                                               *)
EXTENDS AwkFamilies, Json

VARIABLES cs, done
vars == <<cs, done>>
Init == cs \in AllCases /\ done = FALSE

Result(pg, inp) == Outcome(Run(pg, inp))

Next ==
  /\ ~done /\ done' = TRUE /\ cs' = cs
  /\ LET o == Result(cs.prog, cs.input)
     IN /\ \A j \in 1..Len(cs.variants) :
              Assert(o.bad \/ Result(cs.variants[j], cs.input) = o,
                     <<"MODEL DEFECT: an 'equivalent spelling' is not equivalent under AwkSem", cs.mech, j>>)
        /\ (~o.bad) => PrintT(ToJson([fam |-> cs.fam, mech |-> cs.mech, prog |-> cs.prog, variants |-> cs.variants,
                                      input |-> cs.input, expect |-> [out |-> o.out, status |-> o.status, err |-> o.err]]))
        \* equivalence-only cases: no prediction, the spellings must agree with each other
        /\ (o.bad /\ "equiv" \in DOMAIN cs) => PrintT(ToJson([fam |-> cs.fam, mech |-> cs.mech, prog |-> cs.prog, variants |-> cs.variants,
                                      input |-> cs.input, equivonly |-> TRUE, expect |-> [out |-> <<>>, status |-> 0, err |-> FALSE]]))
Spec == Init /\ [][Next]_vars
=============================================================================
