--------------------------- MODULE Gen_GrammarExtra ---------------------------
(* A unary operator directly after ^ (or * / % + -).  These texts are outside  *)
(* the strict language of Grammar!Parse (an operand of lower level without     *)
(* parentheses), but the POSIX grammar (non_unary_expr '^' expr, with expr ->   *)
(* '-' expr) together with the table still determines their tree: the unary    *)
(* row binds LOOSER than ^, so in `a ^ - b ^ c` the inner ^ is applied first   *)
(* and the unary expression as a whole is the right operand of the outer ^;    *)
(* it binds TIGHTER than * / % + -, so there the unary expression ends before  *)
(* the next such operator.  Each case gives the bare token text, the fully     *)
(* parenthesised text of Grammar!FullTop for the prescribed tree (checked with *)
(* the specification's own parser), and the S-expression.                      *)
EXTENDS Grammar, Json

CONSTANT Ctxs

A1 == Atom(LeafNames[1])  A2 == Atom(LeafNames[2])  A3 == Atom(LeafNames[3])
N1 == LeafNames[1]        N2 == LeafNames[2]        N3 == LeafNames[3]
Un(op, e) == [k |-> "un", op |-> op, e |-> e]
Bn(op, l, r) == [k |-> "bin", op |-> op, l |-> l, r |-> r]

\* <<bare tokens, prescribed tree>>
Shapes(u) ==
  { << <<N1, "^", u, N2>>,               Bn("^", A1, Un(u, A2)) >>,
    << <<N1, "^", u, N2, "^", N3>>,      Bn("^", A1, Un(u, Bn("^", A2, A3))) >>,
    << <<N1, "^", u, N2, "*", N3>>,      Bn("*", Bn("^", A1, Un(u, A2)), A3) >>,
    << <<N1, "^", u, N2, "+", N3>>,      Bn("+", Bn("^", A1, Un(u, A2)), A3) >>,
    << <<N1, "*", u, N2, "^", N3>>,      Bn("*", A1, Un(u, Bn("^", A2, A3))) >>,
    << <<N1, "*", u, N2, "*", N3>>,      Bn("*", Bn("*", A1, Un(u, A2)), A3) >>,
    << <<N1, "%", u, N2, "^", N3>>,      Bn("%", A1, Un(u, Bn("^", A2, A3))) >>,
    << <<N1, "-", u, N2, "^", N3>>,      Bn("-", A1, Un(u, Bn("^", A2, A3))) >>,
    << <<N1, "+", u, N2, "*", N3>>,      Bn("+", A1, Bn("*", Un(u, A2), A3)) >>,
    << <<u, N1, "^", u, N2, "^", N3>>,   Un(u, Bn("^", A1, Un(u, Bn("^", A2, A3)))) >> }

Cases == {[toks |-> sh[1], t |-> sh[2], ctx |-> c] : sh \in UNION {Shapes(u) : u \in {"-", "+", "!"}}, c \in Ctxs}

VARIABLES cs, done
Init == cs \in Cases /\ done = FALSE
Next ==
  /\ ~done /\ done' = TRUE /\ cs' = cs
  /\ LET fl == FullTop(cs.t, cs.ctx)
         pf == Parse(fl, cs.ctx)
     IN /\ Assert(pf.ok /\ Strip(pf.t) = Strip(cs.t), <<"spec parser does not return the tree of its own full text", fl>>)
        /\ PrintT(ToJson([fam |-> "expr", ctx |-> cs.ctx, min |-> cs.toks \o CtxTail(cs.ctx), full |-> fl \o CtxTail(cs.ctx),
                          loose |-> cs.toks \o CtxTail(cs.ctx), sx |-> CtxSx(cs.ctx, Sx(cs.t)), rt |-> CtxSx(cs.ctx, Sx(cs.t)),
                          nops |-> 3, condtail |-> FALSE, deriv |-> <<"unary-after-operator", "^">>]))
Spec == Init /\ [][Next]_<<cs, done>>
=============================================================================
