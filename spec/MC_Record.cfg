SPECIFICATION Spec
CONSTANTS
  MaxField = 1000000
  Depth = 4
  MaxNF = 5
INVARIANTS Refines ReadsAgree NFIsCount SplitLaws
PROPERTIES ReadsAreSilent
CHECK_DEADLOCK FALSE
