SPECIFICATION Spec
CONSTANTS
  MaxField = 1000000
  Depth = 4
  MaxNF = 5
  WithSub = FALSE
INVARIANTS Refines ReadsAgree NFIsCount SplitLaws
PROPERTIES ReadsAreSilent AssignRebuilds SubAssigns
CHECK_DEADLOCK FALSE
