SPECIFICATION GSpec
CONSTANTS
  CheckEvery = 3
  MaxDepth = 3
  MaxPrint = 1
  MaxRecords = 1
  SharedCounter = TRUE
  PreferCtxErr = TRUE
  FlushOnCtxErr = TRUE
  WaitErrChecksDone = TRUE
  Outcomes = {"zero", "nonzero", "signal", "waitfail"}
  PrintKinds = {"pr_direct", "pr_buffered", "pr_file", "pr_cmd"}
CONSTRAINT NotCancelled
CHECK_DEADLOCK FALSE
