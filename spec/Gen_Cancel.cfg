SPECIFICATION GSpec
CONSTANTS
  CheckEvery = 3
  MaxDepth = 3
  MaxPrint = 1
  MaxRecords = 1
  SharedCounter = TRUE
  PreferCtxErr = TRUE
  FlushOnCtxErr = TRUE
CONSTRAINT NotCancelled
CHECK_DEADLOCK FALSE
