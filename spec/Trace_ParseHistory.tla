------------------------- MODULE Trace_ParseHistory -------------------------
(* Validates histories of parses recorded from the real parser: ONE process   *)
(* parses a long sequence of sources rendered from abstract sources that are  *)
(* richer than those the model checker enumerates (up to four nested loops of *)
(* any kinds).  Events:                                                       *)
(*   {"ev":"step","op":"parse","src":{"ctx":..,"loops":[..],"stmt":..,        *)
(*    "brk":..},"v":"accept"|"reject"|"panic","same":B}                        *)
(*        the source was parsed; v: what ParseProgram did; B: verdict, error   *)
(*        text and position, disassembly and compiled tables are those of the  *)
(*        first parse of the same text in the process                          *)
(* The module steps through the log with the operators of ParseHistory: the    *)
(* parse starts from `pool` (NextPool: Fresh, for the specification), its       *)
(* verdict must be the one observed, and B must hold.  A reset event separates *)
(* histories; the process -- and so `pool` -- goes on.                          *)
EXTENDS ParseHistory, TraceBase

VARIABLES l, pool
vars == <<l, pool>>

Init == l = 1 /\ pool = Fresh

SrcOf(ev) == [ctx |-> ev.src.ctx, loops |-> ev.src.loops, stmt |-> ev.src.stmt, brk |-> ev.src.brk]
InModel(s) == /\ s.ctx \in Ctxs /\ s.stmt \in Stmts /\ s.brk \in Brks /\ WellFormed(s)
              /\ \A k \in 1..Len(s.loops) : s.loops[k] \in LoopKinds

TStep ==
  /\ l <= NLog /\ Log[l].ev = "step"
  /\ LET ev == Log[l]
         s  == SrcOf(ev)
         r  == ParseWith(s, pool)
     IN /\ Assert(ev.op = "parse" /\ InModel(s), <<"recorded parse outside the specified domain", l>>)
        /\ IF ev.v = r.v /\ ev.same
           THEN l' = l + 1 /\ pool' = NextPool(r.flags)
           ELSE /\ Reject(l, [op |-> "parse", expected |-> [v |-> r.v, err |-> r.err, same |-> TRUE]])
                /\ l' = AfterNextReset(l) /\ pool' = Fresh
TReset == l <= NLog /\ Log[l].ev = "reset" /\ l' = l + 1 /\ UNCHANGED pool
TDone == l = NLog + 1 /\ PrintT("TRACE-END") /\ l' = l + 1 /\ UNCHANGED pool
Next == TStep \/ TReset \/ TDone
Spec == Init /\ [][Next]_vars
=============================================================================
