SPECIFICATION PSpec
CONSTANTS
  DropIn = {}
  Alias = FALSE
  MaxCalls = 3
INVARIANTS PosMachineIsOutcome AbortsEverywhere NoErrorNoAbort ResultsAreValues KeepMachineIsOutcome PosNeverStuck
CHECK_DEADLOCK FALSE
