------------------------------- MODULE Lexer -------------------------------
(***************************************************************************)
(* The AWK lexer of GoAWK as a transducer over byte strings, and the       *)
(* position bookkeeping it must keep in step with the byte offset (C03).   *)
(*                                                                         *)
(* A source is a sequence of bytes 0..255.  Offsets are 0-based: offset k  *)
(* designates the byte src[k+1]; offset Len(src) is the end of the source. *)
(*                                                                         *)
(*  - TruePos(src, k) is the DEFINING position of offset k: line = 1 +     *)
(*    number of LF before k; column = 1 + number of bytes since the last   *)
(*    LF that are not CR (columns count bytes, a CR counts as zero).       *)
(*  - The position state ps = [off, cur, nxt] mirrors lexer.Lexer's        *)
(*    (offset, pos, nextPos): cur is the position of the look-ahead byte   *)
(*    At(off), nxt that of the byte after it.  PsAdvance is next(),        *)
(*    PsUnread is the INTENDED unread() (the back-up over a dangling       *)
(*    exponent `1e`, `1e+`), PsUnreadAsBuilt transcribes what the pinned   *)
(*    tree does and is used only to show that the invariant bites.         *)
(*  - ScanTok(src, k, pend) is one call of Scan()/ScanRegex() on offsets   *)
(*    only: where the next token starts, where it ends, how far the        *)
(*    look-ahead went (r) and whether the scan stops with an error.        *)
(*  - TokStep composes both: it moves ps with PsAdvance / PsUnread exactly *)
(*    as the scan does and reports the tracked position at the token       *)
(*    start.  Lex(src, rx) iterates it to EOF / ILLEGAL.                   *)
(***************************************************************************)
EXTENDS Strings

APOS == 39      \* '
BQUOTE == 96    \* `

IsLetter(b) == (b >= 65 /\ b <= 90) \/ (b >= 97 /\ b <= 122) \/ b = USCORE
IsOct(b)    == b >= 48 /\ b <= 55
IsHex(b)    == IsDigit(b) \/ (b >= 97 /\ b <= 102) \/ (b >= 65 /\ b <= 70)
IsExp(b)    == b = c_e \/ b = C_E
IsSign(b)   == b = PLUS \/ b = MINUS
HexDigit(b) == IF IsDigit(b) THEN b - 48 ELSE IF b >= 97 THEN b - 87 ELSE b - 55

\* the byte at offset k; NUL beyond the end (the real lexer uses the same sentinel,
\* which is why a NUL byte inside the source ends the token stream like EOF does)
At(src, k) == IF k < Len(src) THEN src[k + 1] ELSE NUL
Cap(src, k) == IF k > Len(src) THEN Len(src) ELSE k

\* ------------------------------------------------------------ positions ----
Pos(l, c) == [line |-> l, col |-> c]

TruePos(src, k) ==
  LET lfs  == {i \in 1..k : src[i] = LF}
      last == IF lfs = {} THEN 0 ELSE Max(lfs)
  IN Pos(1 + Cardinality(lfs), 1 + Cardinality({i \in (last + 1)..k : src[i] # CR}))

\* one past the end: the sentinel position the real lexer keeps in nextPos
TruePosExt(src, k) ==
  IF k <= Len(src) THEN TruePos(src, k)
  ELSE LET p == TruePos(src, Len(src)) IN Pos(p.line, p.col + 1)

\* line table: for every line its first offset lo, the offset hi of its LF (or Len(src)) and
\* the number w of its bytes that are not CR.  (Recursion over the LINES, each found with a set
\* filter: a recursion over the bytes of a 32 KiB source is prohibitively slow in TLC.)
RECURSIVE LineTabFrom(_, _)
LineTabFrom(src, lo) ==
  LET n   == Len(src)
      lfs == {i \in (lo + 1)..n : src[i] = LF}
      e   == IF lfs = {} THEN n + 1 ELSE Min(lfs)      \* 1-based index of the LF ending this line
      row == [lo |-> lo, hi |-> e - 1, w |-> Cardinality({i \in (lo + 1)..(e - 1) : src[i] # CR})]
  IN IF lfs = {} THEN <<row>> ELSE <<row>> \o LineTabFrom(src, e)
LineTable(src) == LineTabFrom(src, 0)

\* (line, col) designates a byte position that exists in the source (the position of a byte,
\* or of the end of the source)
ValidPosIn(lt, line, col) == line >= 1 /\ line <= Len(lt) /\ col >= 1 /\ col <= lt[line].w + 1
ValidPos(src, line, col)  == ValidPosIn(LineTable(src), line, col)
\* the definition it is equivalent to (MC_Lexer checks the equivalence)
ValidPosDef(src, line, col) == \E k \in 0..Len(src) : TruePos(src, k) = Pos(line, col)

\* what the command line tool parses: every program file / the inline program gets a newline
\* appended unless it ends with one (internal/parseutil FileReader.AddFile)
CliSource(src) == IF src # <<>> /\ src[Len(src)] = LF THEN src ELSE Append(src, LF)

\* ------------------------------------------------- position bookkeeping ----
StepPos(p, b) == IF b = LF THEN Pos(p.line + 1, 1) ELSE IF b = CR THEN p ELSE Pos(p.line, p.col + 1)

PsInit(src) == [off |-> 0, cur |-> Pos(1, 1), nxt |-> StepPos(Pos(1, 1), At(src, 0))]

\* next(): load the following byte; idempotent at the end of the source
PsAdvance(src, ps) ==
  IF ps.off >= Len(src) THEN ps
  ELSE [off |-> ps.off + 1, cur |-> ps.nxt, nxt |-> StepPos(ps.nxt, At(src, ps.off + 1))]

\* unread(), intended: make the previous byte the look-ahead again.  Precondition (guaranteed by
\* the number scanner, the only caller): off >= 1 and the byte stepped back TO is neither LF nor CR
\* (it is e, E, + or -), so its column is one less; the byte stepped back OVER may be anything,
\* including LF, CR and the end-of-source sentinel, so nxt must become the old cur, not nxt - 1.
UnreadOK(src, ps) == ps.off >= 1 /\ At(src, ps.off - 1) \notin {LF, CR}
PsUnread(src, ps) == [off |-> ps.off - 1, cur |-> Pos(ps.cur.line, ps.cur.col - 1), nxt |-> ps.cur]
\* unread() as found in the pinned tree ("doesn't handle line boundaries")
PsUnreadAsBuilt(src, ps) ==
  [off |-> ps.off - 1, cur |-> Pos(ps.cur.line, ps.cur.col - 1), nxt |-> Pos(ps.nxt.line, ps.nxt.col - 1)]

PosInStep(src, ps) == ps.cur = TruePos(src, ps.off) /\ ps.nxt = TruePosExt(src, ps.off + 1)

RECURSIVE PsAdvTo(_, _, _)
PsAdvTo(src, ps, k) == IF ps.off >= k \/ ps.off >= Len(src) THEN ps ELSE PsAdvTo(src, PsAdvance(src, ps), k)
RECURSIVE PsUnreadN(_, _, _)
PsUnreadN(src, ps, n) == IF n <= 0 THEN ps ELSE PsUnreadN(src, PsUnread(src, ps), n - 1)

\* ------------------------------------------------------------- scanning ----
RECURSIVE SkipDigits(_, _)
SkipDigits(src, k) == IF IsDigit(At(src, k)) THEN SkipDigits(src, k + 1) ELSE k
RECURSIVE SkipName(_, _)
SkipName(src, k) == IF IsLetter(At(src, k)) \/ IsDigit(At(src, k)) THEN SkipName(src, k + 1) ELSE k
RECURSIVE SkipHexMax(_, _, _)
SkipHexMax(src, k, m) == IF m > 0 /\ IsHex(At(src, k)) THEN SkipHexMax(src, k + 1, m - 1) ELSE k
RECURSIVE SkipOctMax(_, _, _)
SkipOctMax(src, k, m) == IF m > 0 /\ IsOct(At(src, k)) THEN SkipOctMax(src, k + 1, m - 1) ELSE k
RECURSIVE SkipComment(_, _)
SkipComment(src, k) == IF At(src, k) = LF \/ At(src, k) = NUL THEN k ELSE SkipComment(src, k + 1)

\* value of the hex digits at offsets i..h-1, saturated just above the largest code point
RuneSat == 1114112
RECURSIVE HexAcc(_, _, _, _)
HexAcc(src, i, h, acc) ==
  IF i >= h THEN acc
  ELSE LET v == acc * 16 + HexDigit(At(src, i)) IN HexAcc(src, i + 1, h, IF v > RuneSat THEN RuneSat ELSE v)
ValidRune(v) == (v >= 0 /\ v < 55296) \/ (v > 57343 /\ v <= 1114111)

\* a token: kind k, start s, end e (offset of the look-ahead once the token is delivered), r >= e the
\* furthest look-ahead offset reached (r > e: r - e bytes are un-read), div > 0 for / and /= (length)
Tok(k, s, e, r)     == [k |-> k, s |-> s, e |-> e, r |-> r, err |-> FALSE, eo |-> s, why |-> "", div |-> 0]
\* the scan stops with ILLEGAL; eo is the offset of the offending byte
ErrTok(s, eo, why)  == [k |-> "illegal", s |-> s, e |-> eo, r |-> eo, err |-> TRUE, eo |-> eo, why |-> why, div |-> 0]

\* blanks, CR and backslash-[CR]-newline before a token
RECURSIVE SkipTrivia(_, _)
SkipTrivia(src, k) ==
  LET b == At(src, k) IN
  IF b = SP \/ b = TAB \/ b = CR THEN SkipTrivia(src, k + 1)
  ELSE IF b = BSL
       THEN LET j == IF At(src, k + 1) = CR THEN k + 2 ELSE k + 1
            IN IF At(src, j) = LF THEN SkipTrivia(src, j + 1) ELSE [k |-> j, err |-> TRUE]
       ELSE [k |-> k, err |-> FALSE]

ScanNumber(src, s) ==
  LET b   == At(src, s)
      d1  == SkipDigits(src, s + 1)
      k1  == IF b = DOT THEN s + 1 ELSE IF At(src, d1) = DOT THEN d1 + 1 ELSE d1
      k2  == SkipDigits(src, k1)
      got == b # DOT \/ k2 > k1
      j1  == IF IsSign(At(src, k2 + 1)) THEN k2 + 2 ELSE k2 + 1
      j2  == SkipDigits(src, j1)
  IN IF ~got THEN ErrTok(s, k2, "digits")
     ELSE IF ~IsExp(At(src, k2)) THEN Tok("number", s, k2, k2)
     ELSE IF j2 > j1 THEN Tok("number", s, j2, j2)
     ELSE Tok("number", s, k2, j1)     \* `1e` / `1e+` not followed by a digit: the exponent is un-read

\* body of a string literal from offset k on; q is the quote byte
RECURSIVE StrScan(_, _, _, _)
StrScan(src, s, q, k) ==
  LET c == At(src, k)
      d == At(src, k + 1)
  IN IF c = q THEN Tok("string", s, k + 1, k + 1)
     ELSE IF c = NUL THEN ErrTok(s, k, "str-eof")
     ELSE IF c = CR \/ c = LF THEN ErrTok(s, k, "str-nl")
     ELSE IF c # BSL THEN StrScan(src, s, q, k + 1)
     ELSE IF d \in {c_n, c_t, c_r, c_a, c_b, c_f, c_v} THEN StrScan(src, s, q, k + 2)
     ELSE IF d = c_x
          THEN IF ~IsHex(At(src, k + 2)) THEN ErrTok(s, k + 2, "str-hex")
               ELSE StrScan(src, s, q, SkipHexMax(src, k + 3, 1))
     ELSE IF d = c_u
          THEN IF ~IsHex(At(src, k + 2)) THEN ErrTok(s, k + 2, "str-hex")
               ELSE LET h == SkipHexMax(src, k + 3, 7)
                    IN IF ~ValidRune(HexAcc(src, k + 2, h, 0)) THEN ErrTok(s, h, "str-rune")
                       ELSE StrScan(src, s, q, h)
     ELSE IF IsOct(d) THEN StrScan(src, s, q, SkipOctMax(src, k + 2, 2))
     ELSE IF k + 1 >= Len(src) THEN ErrTok(s, Len(src), "str-esc-eof")   \* backslash, then the source ends
     ELSE StrScan(src, s, q, k + 2)          \* any other byte is taken literally (also LF, CR, NUL, the quote)

\* ScanRegex(): the body of /regex/ from offset k on
RECURSIVE RxScan(_, _, _)
RxScan(src, s, k) ==
  LET c == At(src, k) IN
  IF c = SLASH THEN Tok("regex", s, k + 1, k + 1)
  ELSE IF c = NUL THEN ErrTok(s, k, "rx-eof")
  ELSE IF c = CR \/ c = LF THEN ErrTok(s, k, "rx-nl")
  ELSE IF c = BSL
       THEN IF k + 1 >= Len(src) THEN ErrTok(s, Len(src), "rx-esc-eof")
            ELSE RxScan(src, s, k + 2)
       ELSE RxScan(src, s, k + 1)

Single == {DOLLAR, AT, LBRC, RBRC, LPAR, RPAR, COMMA, SEMI, LBRK, RBRK, TILDE, QM, COLON}
\* length of the operator starting with b (maximal munch); 0: `&` not followed by `&`; -1: no token starts with b
OpLen(b, b1, b2) ==
  CASE b \in {EQ, LT, SLASH, PCT, CARET} -> IF b1 = EQ THEN 2 ELSE 1
    [] b = GT    -> IF b1 = EQ \/ b1 = GT THEN 2 ELSE 1
    [] b = PLUS  -> IF b1 = PLUS \/ b1 = EQ THEN 2 ELSE 1
    [] b = MINUS -> IF b1 = MINUS \/ b1 = EQ THEN 2 ELSE 1
    [] b = STAR  -> IF b1 = STAR THEN (IF b2 = EQ THEN 3 ELSE 2) ELSE IF b1 = EQ THEN 2 ELSE 1
    [] b = BANG  -> IF b1 = EQ \/ b1 = TILDE THEN 2 ELSE 1
    [] b = BAR   -> IF b1 = BAR THEN 2 ELSE 1
    [] b = AMP   -> IF b1 = AMP THEN 2 ELSE 0
    [] b \in Single -> 1
    [] OTHER -> 0 - 1

\* One Scan() (pend = 0) or ScanRegex() (pend = length of the / or /= token just delivered) with the
\* look-ahead at offset k0.
ScanTok(src, k0, pend) ==
  IF pend > 0 THEN RxScan(src, k0 - pend, k0)
  ELSE LET tv == SkipTrivia(src, k0) IN
    IF tv.err THEN ErrTok(tv.k, tv.k, "cont")
    ELSE LET s  == IF At(src, tv.k) = HASH THEN SkipComment(src, tv.k + 1) ELSE tv.k
             b  == At(src, s)
             n  == OpLen(b, At(src, s + 1), At(src, s + 2))
         IN IF b = NUL THEN Tok("eof", s, s, s)
            ELSE IF IsLetter(b) THEN Tok("word", s, SkipName(src, s + 1), SkipName(src, s + 1))
            ELSE IF IsDigit(b) \/ b = DOT THEN ScanNumber(src, s)
            ELSE IF b = DQ \/ b = APOS THEN StrScan(src, s, b, s + 1)
            ELSE IF b = LF THEN Tok("newline", s, s + 1, s + 1)
            ELSE IF n > 0 THEN [Tok("op", s, s + n, s + n) EXCEPT !.div = IF b = SLASH THEN n ELSE 0]
            ELSE IF n = 0 THEN ErrTok(s, s + 1, "amp")
            ELSE ErrTok(s, s, "char")

\* class of the byte the un-read steps back over (for failure signatures only)
ByteClass(src, k) ==
  IF k >= Len(src) THEN "eof" ELSE IF src[k + 1] = LF THEN "lf" ELSE IF src[k + 1] = CR THEN "cr"
  ELSE IF src[k + 1] = NUL THEN "nul" ELSE "other"

\* One token with the bookkeeping the scan performs (the token record carries `why` for ILLEGAL, and
\* ub = number of un-read bytes, uc = class of the byte stepped back over, when an un-read happened): advance to the start (report cur), advance to
\* the furthest look-ahead, un-read back to the end.  For a regex the start lies `pend` bytes behind
\* the look-ahead on the same line, and the reported column is cur.col - pend (as ScanRegex computes
\* it).  For ILLEGAL the reported position is that of the offending byte.
TokStep(src, ps, pend) ==
  LET tk == ScanTok(src, ps.off, pend)
      p1 == PsAdvTo(src, ps, IF tk.err THEN tk.eo ELSE tk.s)
      p2 == IF tk.err THEN p1 ELSE PsUnreadN(src, PsAdvTo(src, p1, tk.r), tk.r - tk.e)
      rp == IF pend > 0 /\ ~tk.err THEN Pos(ps.cur.line, ps.cur.col - pend) ELSE p1.cur
      ub == tk.r - tk.e
  IN [tok |-> IF tk.err THEN [k |-> tk.k, s |-> tk.s, line |-> rp.line, col |-> rp.col, why |-> tk.why]
              ELSE IF ub > 0 THEN [k |-> tk.k, s |-> tk.s, line |-> rp.line, col |-> rp.col,
                                   ub |-> ub, uc |-> ByteClass(src, tk.r)]
              ELSE [k |-> tk.k, s |-> tk.s, line |-> rp.line, col |-> rp.col],
      ps |-> p2, div |-> tk.div, stop |-> tk.err \/ tk.k = "eof"]

\* the whole token stream; rx: ScanRegex() is called after every / and /= token
RECURSIVE LexFrom(_, _, _, _)
LexFrom(src, rx, ps, pend) ==
  LET st == TokStep(src, ps, pend)
  IN IF st.stop THEN <<st.tok>> ELSE <<st.tok>> \o LexFrom(src, rx, st.ps, IF rx THEN st.div ELSE 0)
Lex(src, rx) == LexFrom(src, rx, PsInit(src), 0)

\* what Gen_* modules export for one source (no token prediction for sources beyond MaxLexLen bytes,
\* which are used for the parser only)
MaxLexLen == 6000
Export(fam, src, rx) ==
  [fam |-> fam, src |-> src, rx |-> rx, toks |-> IF Len(src) > MaxLexLen THEN <<>> ELSE Lex(src, rx),
   lt |-> LineTable(src), clt |-> LineTable(CliSource(src)), cliadd |-> (CliSource(src) # src)]
=============================================================================
