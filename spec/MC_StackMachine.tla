--------------------------- MODULE MC_StackMachine ---------------------------
(* Abstract interpretation of REAL compiled programs (programs.ndjson, dumped  *)
(* by the harness from parser.Program.Compiled) with the table of              *)
(* StackMachine.tla: all paths, all branch outcomes.  A fault found is         *)
(* recorded in `bad` (invariant NoFault) together with where it happened.      *)
EXTENDS StackMachine

Progs == ndJsonDeserialize("programs.ndjson")

VARIABLES pi, bi, win, ip, depth, bad
vars == <<pi, bi, win, ip, depth, bad>>

Pg == Progs[pi]
Blk == Pg.blocks[bi]
Code == Blk.code
At(k) == Code[k + 1]                      \* code is 0-based in the implementation
Top == win[Len(win)]

OpName(n) == LET key == ToString(n) IN IF key \in DOMAIN Pg.opnames THEN Pg.opnames[key] ELSE "?"

Init ==
  /\ pi \in 1..Len(Progs)
  /\ bi \in 1..Len(Progs[pi].blocks)
  /\ win = <<[lo |-> 0, hi |-> Len(Progs[pi].blocks[bi].code), base |-> 0, ret |-> 0 - 1]>>
  /\ ip = 0 /\ depth = 0 /\ bad = ""

Halt == ip' = 0 - 1 /\ UNCHANGED <<pi, bi, win, depth, bad>>
Fault(msg) == bad' = msg /\ ip' = 0 - 1 /\ UNCHANGED <<pi, bi, win, depth>>

\* index checks: operand values that index a table of the program
InFunc == Blk.kind = "func"
NumLocals == IF InFunc THEN Pg.funcs[Blk.fn + 1].numScalars ELSE 0
NumLocalArrays == IF InFunc THEN Pg.funcs[Blk.fn + 1].numArrays ELSE 0
ScopeOK(scope, idx, isArray) ==        \* resolver.Scope: 1 global, 2 local, 3 special (0 is "none")
  CASE scope = Pg.scopeGlobal -> idx >= 0 /\ idx < (IF isArray THEN Pg.arrays ELSE Pg.scalars)
    [] scope = Pg.scopeLocal -> idx >= 0 /\ idx < (IF isArray THEN NumLocalArrays ELSE NumLocals)
    [] scope = Pg.scopeSpecial -> ~isArray /\ idx >= 1 /\ idx <= Pg.specials
    [] OTHER -> FALSE
IndexOK(op, a) ==
  CASE op = "Num" -> a[1] >= 0 /\ a[1] < Pg.nums
    [] op \in {"Str", "FieldByNameStr"} -> a[1] >= 0 /\ a[1] < Pg.strs
    [] op = "Regex" -> a[1] >= 0 /\ a[1] < Pg.regexes
    [] op \in {"Global", "AssignGlobal"} -> a[1] >= 0 /\ a[1] < Pg.scalars
    [] op \in {"IncrGlobal", "AugAssignGlobal", "GetlineGlobal"} -> a[2] >= 0 /\ a[2] < Pg.scalars
    [] op \in {"Local", "AssignLocal"} -> a[1] >= 0 /\ a[1] < NumLocals
    [] op \in {"IncrLocal", "AugAssignLocal", "GetlineLocal"} -> a[2] >= 0 /\ a[2] < NumLocals
    [] op \in {"Special", "AssignSpecial"} -> a[1] >= 1 /\ a[1] <= Pg.specials
    [] op \in {"IncrSpecial", "AugAssignSpecial", "GetlineSpecial"} -> a[2] >= 1 /\ a[2] <= Pg.specials
    [] op \in {"ArrayGlobal", "InGlobal", "AssignArrayGlobal"} -> a[1] >= 0 /\ a[1] < Pg.arrays
    [] op \in {"IncrArrayGlobal", "AugAssignArrayGlobal"} -> a[2] >= 0 /\ a[2] < Pg.arrays
    [] op \in {"ArrayLocal", "InLocal", "AssignArrayLocal"} -> a[1] >= 0 /\ a[1] < NumLocalArrays
    [] op \in {"IncrArrayLocal", "AugAssignArrayLocal"} -> a[2] >= 0 /\ a[2] < NumLocalArrays
    [] op \in {"Delete", "DeleteAll", "CallLengthArray", "CallSplit", "CallSplitSep"} -> ScopeOK(a[1], a[2], TRUE)
    [] op = "GetlineArray" -> ScopeOK(a[2], a[3], TRUE)
    [] op = "ForIn" -> ScopeOK(a[1], a[2], FALSE) /\ ScopeOK(a[3], a[4], TRUE)
    [] op = "CallBuiltin" -> a[1] >= 0 /\ a[1] < Len(BuiltinNames)
    [] op = "CallUser" -> /\ a[1] >= 0 /\ a[1] < Len(Pg.funcs)
                          /\ a[2] >= 0 /\ a[2] <= Pg.funcs[a[1] + 1].numArrays
                          /\ \A j \in 1..a[2] : ScopeOK(a[1 + 2 * j], a[2 + 2 * j], TRUE)
    [] op = "CallNative" -> a[1] >= 0 /\ a[1] < Pg.natives /\ a[2] >= 0
    [] op \in {"IndexMulti", "ConcatMulti", "Nulls"} -> a[1] >= 0
    [] op = "CallSprintf" -> a[1] >= 1
    [] op \in {"Print", "Printf"} -> a[1] >= (IF op = "Printf" THEN 1 ELSE 0)
    [] OTHER -> TRUE

Step ==
  /\ ip >= 0 /\ bad = ""
  /\ IF ip = Top.hi
     THEN \* end of the current window
          IF Len(win) > 1
          THEN IF depth # Top.base THEN Fault("for-in body ends with a different stack depth than it started with")
               ELSE ip' = Top.ret /\ win' = SubSeq(win, 1, Len(win) - 1) /\ UNCHANGED <<pi, bi, depth, bad>>
          ELSE IF Blk.kind = "expr" /\ depth # 1 THEN Fault("pattern block does not leave exactly one value")
               ELSE IF Blk.kind # "expr" /\ depth # 0 THEN Fault("statement block does not end with an empty stack")
               ELSE Halt
     ELSE LET op == OpName(At(ip))
          IN IF op \notin OpNames THEN Fault("unknown opcode")
             ELSE LET na == IF op = "CallUser" /\ ip + 2 < Top.hi THEN 2 + 2 * At(ip + 2) ELSE Operands[op]
                  IN IF na < 0 \/ ip + 1 + na > Top.hi THEN Fault("instruction runs past the end of its block")
                     ELSE LET a == [j \in 1..na |-> At(ip + j)]
                              eff == Effect(op, a, Pg)
                              nd == depth - eff[1] + eff[2]
                              nxt == ip + 1 + na
                          IN IF ~IndexOK(op, a) THEN Fault("operand indexes outside its table: " \o op)
                             ELSE IF depth - Top.base < eff[1] THEN Fault("stack underflow at " \o op)
                             ELSE IF op = "Return" /\ depth - Top.base # 1 THEN Fault("return with extra values on the stack")
                             ELSE IF op \in Terminal THEN Halt
                             ELSE IF op = "Jump"
                                  THEN LET tg == ip + 2 + a[1]
                                       IN IF tg < Top.lo \/ tg > Top.hi THEN Fault("jump outside the block")
                                          ELSE ip' = tg /\ depth' = nd /\ UNCHANGED <<pi, bi, win, bad>>
                             ELSE IF op \in CondJump1 \cup CondJump2
                                  THEN LET tg == ip + 2 + a[1]
                                       IN IF tg < Top.lo \/ tg > Top.hi THEN Fault("jump outside the block")
                                          ELSE /\ ip' \in {tg, nxt} /\ depth' = nd /\ UNCHANGED <<pi, bi, win, bad>>
                             ELSE IF op = "ForIn"
                                  THEN LET bs == ip + 6
                                           be == bs + a[5]
                                       IN IF a[5] < 0 \/ be > Top.hi THEN Fault("for-in body outside the block")
                                          ELSE \/ ip' = be /\ UNCHANGED <<pi, bi, win, depth, bad>>          \* no (more) keys
                                               \/ /\ ip' = bs
                                                  /\ win' = Append(win, [lo |-> bs, hi |-> be, base |-> depth, ret |-> be])
                                                  /\ UNCHANGED <<pi, bi, depth, bad>>
                             ELSE ip' = nxt /\ depth' = nd /\ UNCHANGED <<pi, bi, win, bad>>

\* BreakForIn leaves the innermost for-in body: treated as Terminal above (the loop's
\* continuation is explored through the "no more keys" branch of ForIn).

\* every ip reached must be an instruction boundary: implied by construction (ip only moves to
\* nxt / jump targets, and a jump into the middle of an instruction decodes garbage that the
\* checks above catch); bounded depth keeps the state space finite for loops that would leak
Spec == Init /\ [][Step]_vars
NoFault == bad = ""
DepthBounded == depth <= 64
=============================================================================
