------------------------------- MODULE Reuse -------------------------------
(***************************************************************************)
(* Reusing one Interpreter for many runs (interp/newexecute.go).           *)
(*                                                                         *)
(* The interpreter's state is a record st = [vars, pr, rnd]:               *)
(*   vars  what a program can keep between runs: a global scalar, an array *)
(*         element, FS RS OFS ORS CONVFMT OFMT SUBSEP                      *)
(*   pr    per-run state: record ($0, NF), NR, FNR, FILENAME, RSTART,      *)
(*         RLENGTH, the main scanner, the scanner of getline < "-", named  *)
(*         input and output streams, CSV header names, input and output    *)
(*         mode, exit status, value-stack pointer (pending frames), the    *)
(*         context that governs the interpreter (polled every 1000         *)
(*         instructions, handed to the commands it starts)                 *)
(*   rnd   random generator: seed and number of draws since seeding        *)
(*                                                                         *)
(* One AWK program (harness/c14/program.go) has 43 modes ("run kinds"),    *)
(* selected by the variable `mode` given through Config.Vars; every mode   *)
(* first prints a fingerprint of all the state it can see in BEGIN, then   *)
(* does what its kind says.  Run(st, kind, cfg) is the transcription of    *)
(* that program: it reads the state it is started in (so a stale value     *)
(* WOULD be seen) and returns the new state with the run's output (a       *)
(* sequence of chunks), exit status and error class.                       *)
(*                                                                         *)
(* Two Execute operators use the same Run:                                 *)
(*  - ExecSpec: what the property states -- every run starts from the      *)
(*    initial per-run state (nothing of pr carries over), vars and rnd     *)
(*    carry over until ResetVars / ResetRand.  This is the oracle.         *)
(*  - ExecCode(Clears): what newexecute.go does -- resetCore clears the    *)
(*    fields named in Clears, setExecuteConfig overwrites the fields it    *)
(*    sets from the Config, closeAll closes streams but leaves them in the *)
(*    maps.  MC_Reuse checks that with the intended Clears this refines    *)
(*    ExecSpec, and which clears are load-bearing.                         *)
(*                                                                         *)
(* What a run can do besides the original 16 kinds:                        *)
(*  - read its standard input through each path: the main loop, plain      *)
(*    getline (gl_plain), getline < "-" (gl_dash), getline var < "-"       *)
(*    (gl_dashvar).  Every run is handed its OWN standard input (Config.   *)
(*    Stdin): StdinOf(cfg) ends in a record that names the run (cfg.tag),  *)
(*    so text read from an earlier run's input cannot pass for this run's. *)
(*    A run reads its standard input through one path only, or through a   *)
(*    second one after the first reached the end (how two half-read        *)
(*    scanners share buffered input is nobody's promise and not modelled). *)
(*  - end by `exit N` outside END and then fail in END: by a run-time      *)
(*    error (exit_enderr, exitbegin) or by cancellation (exit_endcancel).  *)
(*    Execute then returns status 0 and the error; N must not reach any    *)
(*    later run.                                                           *)
(*  - be called through Execute, ExecuteContext(Background), or            *)
(*    ExecuteContext with a context that is cancelled (api "ctx") or       *)
(*    expires (api "ctxdl") AFTER the call returned (the idiom `ctx,       *)
(*    cancel := context.WithTimeout(..); defer cancel()`).  A run is       *)
(*    governed by the context of its own call only.  Where a stale context *)
(*    would show: a loop longer than one poll interval (p_func), a         *)
(*    run-time error (reported as the context's error), a command being    *)
(*    started (sys: system(), pipe: cmd | getline).                        *)
(*                                                                         *)
(* Second extension -- kinds of state an earlier run can leave behind:     *)
(*  - range patterns.  The program has one range pattern; whether it is    *)
(*    open (pr.rng) belongs to ONE pass over the input.  The kinds rg_*    *)
(*    open it and end in every way: it is closed by a later record         *)
(*    (rg_close, rg_next), stays open to the end of the input (rg_eof,     *)
(*    rg_nextfile: the rest of the input is skipped, rg_getline: the body  *)
(*    consumes the closing record), or the run leaves the main loop inside *)
(*    the range by exit (rg_exit), a run-time error (rg_err) or            *)
(*    cancellation (rg_cancel).  Every kind evaluates the range rule, so a *)
(*    range left open WOULD match the records before the start pattern.   *)
(*  - the random generator rnd = [seed, idx].  Every rand() of the program *)
(*    is printed and predicted as the idx-th draw after seeding with seed  *)
(*    (chunk comparison "rnd": the harness takes the value from a NEW      *)
(*    interpreter that does srand(seed) and idx+1 draws; seed 1 is the     *)
(*    seed of a new interpreter).  As documented for Execute and           *)
(*    ResetRand, the sequence continues from run to run and restarts with  *)
(*    ResetRand; srand(n) restarts it with seed n and returns the previous *)
(*    seed; after srand() (time of day, seed -1) nothing is predicted      *)
(*    until the next srand(n) / ResetRand.  The kinds call rand / srand in *)
(*    every order: fp() draws first except in the kinds NoFpRand (nr_plain *)
(*    never draws, sr_first seeds before its first draw, sr_only only      *)
(*    seeds, sr_time seeds from the clock).                                *)
(*  - the arrays the interpreter fills: ARGV and ENVIRON from every run's  *)
(*    own Config.Args / Argv0 / Environ (configurations c5, c6 have        *)
(*    different, longer and shorter ones), FIELDS from a CSV header.  They *)
(*    are arrays, so ResetVars empties them; every run enumerates them     *)
(*    completely and reads ARGV beyond ARGC.  av_write / av_del add and    *)
(*    delete elements.  Without ResetVars the statement does not say       *)
(*    whether elements the new Config does not assign survive: such an     *)
(*    enumeration is predicted only when no such element exists            *)
(*    (pr.argvOk, pr.envOk); the elements below ARGC always are.  FIELDS   *)
(*    and RT are predicted (empty) when no earlier run since ResetVars set *)
(*    them.                                                                *)
(*  - what the Config switches per run: Chars (c6), NoExec / NoFileWrites  *)
(*    / NoFileReads / NoArgVars (c7), `var=value` operands (c5 assigns g). *)
(*                                                                         *)
(* Third extension:                                                        *)
(*  - formatted output.  fp() formats with printf and sprintf: %c of       *)
(*    numbers above 127 and of strings that start with a multi-byte        *)
(*    character, %s of a number, %d -- with format strings that are the    *)
(*    same text in every run; the kind fmtc with one built at run time.    *)
(*    What they yield follows the Config (Chars) and the variables         *)
(*    (CONVFMT) of the run that executes them, whatever an earlier run     *)
(*    that used the same format string was configured with (FmtLine).      *)
(*  - nested calls.  The kinds dp_* call a user-defined function           *)
(*    cfg.depth deep (c8..c11: 400, 700, CallLimit, CallLimit + 1) and     *)
(*    there return, fail, exit or are cancelled.  A new interpreter allows *)
(*    CallLimit nested calls; calls a run was aborted in (pr.depth) are    *)
(*    not pending in the next run, so a probe may again nest CallLimit     *)
(*    deep, whatever earlier runs were aborted how deep.                   *)
(***************************************************************************)
EXTENDS Csv, TLC

\* ------------------------------------------------------------------ values
FmtDefault == <<PCT, DOT, D6, c_g>>
Fmt2       == <<PCT, DOT, D2, c_g>>
Fmt3       == <<PCT, DOT, D3, c_g>>
\* the number 0.1234567 rendered with a %.<n>g format
FmtNum(fmt) == CASE fmt = FmtDefault -> <<D0, DOT, D1, D2, D3, D4, D5, D7>>
                 [] fmt = Fmt2       -> <<D0, DOT, D1, D2>>
                 [] fmt = Fmt3       -> <<D0, DOT, D1, D2, D3>>

\* ARGV, ENVIRON: one value per key of a fixed universe (ARGV[0..5]; ENVIRON["home"], ["lang"], ["token"], ["user"],
\* in the byte order of the keys), Absent where the array has no such element
Absent   == <<0 - 1>>
ArgvLen  == 6
EnvKeys  == << <<c_h, c_o, c_m, c_e>>, <<c_l, c_a, c_n, c_g>>, <<c_t, c_o, c_k, c_e, c_n>>, <<c_u, c_s, c_e, c_r>> >>
NoArgv   == [j \in 1..ArgvLen |-> Absent]
NoEnv    == [j \in 1..Len(EnvKeys) |-> Absent]

VarsInit == [g |-> <<>>, ak |-> <<MINUS>>, fs |-> <<SP>>, rs |-> <<LF>>, ofs |-> <<SP>>, ors |-> <<LF>>,
             convfmt |-> FmtDefault, ofmt |-> FmtDefault, subsep |-> <<28>>,
             argv |-> NoArgv, env |-> NoEnv,
             fields |-> <<>>,       \* the array FIELDS: the header names of the last header row read
             rtset |-> FALSE]       \* RT was set by reading a record of the main input
\* seed: what the generator was last seeded with (1: a new interpreter / ResetRand; -1: the time of day, srand());
\* idx: draws since then
RndInit  == [seed |-> 1, idx |-> 0]

ModeDefault == [m |-> "default", hdr |-> FALSE]
ImodeText(im) ==
  (CASE im.m = "default" -> <<>> [] im.m = "csv" -> <<c_c, c_s, c_v>> [] im.m = "tsv" -> <<c_t, c_s, c_v>>)
  \o (IF im.m # "default" /\ im.hdr THEN <<SP, c_h, c_e, c_a, c_d, c_e, c_r>> ELSE <<>>)
OmodeText(om) == CASE om = "default" -> <<>> [] om = "csv" -> <<c_c, c_s, c_v>> [] om = "tsv" -> <<c_t, c_s, c_v>>

PrInit == [line |-> <<>>, nf |-> 0, nr |-> 0, fnr |-> 0, filename |-> <<>>, rstart |-> 0, rlength |-> 0,
           scanner |-> FALSE,     \* the main input scanner exists (stale if it survives into the next run)
           outs |-> {}, ins |-> {},   \* names in the output / input stream maps
           hdr |-> <<>>,          \* CSV header names (<<>> = none)
           imode |-> ModeDefault, omode |-> "default",
           status |-> 0, sp |-> 0, argc |-> 1,
           rng |-> FALSE,         \* the range pattern of the program is open
           chars |-> FALSE, sandbox |-> FALSE,    \* Config.Chars; Config.NoExec + NoFileWrites + NoFileReads + NoArgVars
           argvOk |-> TRUE, envOk |-> TRUE,       \* at the start of the run ARGV / ENVIRON held no element its Config does not assign
           dash |-> [open |-> FALSE, rest |-> <<>>],   \* the scanner of getline < "-" and the records it still holds
           depth |-> 0,           \* user-function calls entered and not left (a run aborted inside functions abandons them)
           stdinUsed |-> FALSE,   \* this run's standard input was handed to a scanner (set anew by every call)
           mainEof |-> FALSE,     \* this run's main input was read to its end
           ctx |-> [check |-> FALSE, done |-> "no"]]   \* governing context; done: "no", "canceled", "deadline"

StInit == [vars |-> VarsInit, pr |-> PrInit, rnd |-> RndInit]

\* ----------------------------------------------------------- configurations
\* c0: zero Config, input on stdin, Execute.
\* c1: Vars FS=":", OutputMode tsv, input from a file operand, ExecuteContext with a context that is cancelled when
\*     the call has returned (never while it runs, unless the run's kind cancels).
\* c2: InputMode csv with header, input on stdin, Execute.
\* c3: zero Config, input on stdin, ExecuteContext with a context whose deadline passes when the call has returned.
\* c4: zero Config, input on stdin, ExecuteContext(context.Background()).
\* c5: Argv0 "prog", Args "g=G5" "o2=B" "o3=C" (assignment operands: the first sets the program's global g when the
\*     main input is opened, the others name no variable of the program), Environ home=hh lang=c, input on stdin, Execute.
\* c6: Args "o9=X", Environ user=bob, Chars, input on stdin, Execute.
\* c7: NoExec, NoFileWrites, NoFileReads, NoArgVars, input on stdin, Execute.
\* c8 .. c11: zero Config, input on stdin, Execute, Vars depth = 400 / 700 / 1000 / 1001: how deep the kinds dp_* nest
\*     calls of a user-defined function (every other configuration: 3).  CallLimit nested calls is what a NEW
\*     interpreter allows; the call that would be one more is a run-time error.
\* tag: which run of the history this is; it only makes the run's standard input its own.
InfName == <<c_i, c_n, c_f>>                      \* the harness substitutes the real path (the program prints ARGV values without their directory)
Cfg0 == [name |-> "c0", fsvar |-> FALSE, omode |-> "default", imode |-> ModeDefault, src |-> "stdin", api |-> "exec", tag |-> 1,
         argv0 |-> <<>>, args |-> <<>>, env |-> NoEnv, gset |-> <<>>, chars |-> FALSE, sandbox |-> FALSE, depth |-> 3]
CallLimit == 1000
Cfgs == { Cfg0,
          [Cfg0 EXCEPT !.name = "c1", !.fsvar = TRUE, !.omode = "tsv", !.src = "file", !.api = "ctx", !.args = <<InfName>>],
          [Cfg0 EXCEPT !.name = "c2", !.imode = [m |-> "csv", hdr |-> TRUE]],
          [Cfg0 EXCEPT !.name = "c3", !.api = "ctxdl"],
          [Cfg0 EXCEPT !.name = "c4", !.api = "ctxbg"],
          [Cfg0 EXCEPT !.name = "c5", !.argv0 = <<c_p, c_r, c_o, c_g>>,
                       !.args = << <<c_g, EQ, C_G, D5>>, <<c_o, D2, EQ, C_B>>, <<c_o, D3, EQ, C_C>> >>,
                       !.env = << <<c_h, c_h>>, <<c_c>>, Absent, Absent >>, !.gset = <<C_G, D5>>],
          [Cfg0 EXCEPT !.name = "c6", !.args = << <<c_o, D9, EQ, C_X>> >>,
                       !.env = << Absent, Absent, Absent, <<c_b, c_o, c_b>> >>, !.chars = TRUE],
          [Cfg0 EXCEPT !.name = "c7", !.sandbox = TRUE],
          [Cfg0 EXCEPT !.name = "c8", !.depth = 400],
          [Cfg0 EXCEPT !.name = "c9", !.depth = 700],
          [Cfg0 EXCEPT !.name = "c10", !.depth = CallLimit],
          [Cfg0 EXCEPT !.name = "c11", !.depth = CallLimit + 1] }
CfgNames == {c.name : c \in Cfgs}
CfgNamed(nm) == CHOOSE c \in Cfgs : c.name = nm
WithTag(cfg, n) == [cfg EXCEPT !.tag = n]

\* the standard input handed to a run: two records and one that names the run
TagField(cfg) == <<c_t>> \o IntStr(cfg.tag)
StdinOf(cfg) == CASE cfg.name = "c0" -> <<c_x, SP, c_y, LF, D5, SP, D6, LF>> \o TagField(cfg) \o <<SP, D9, LF>>
                  [] cfg.name = "c1" -> <<c_p, COLON, c_q, LF, D7, COLON, D8, LF>> \o TagField(cfg) \o <<COLON, D9, LF>>
                  [] cfg.name = "c2" -> <<c_x, COMMA, c_y, LF, D5, COMMA, D6, LF>> \o TagField(cfg) \o <<COMMA, D9, LF>>
                  [] cfg.name = "c3" -> <<c_x, SP, c_y, LF, D7, SP, D8, LF>> \o TagField(cfg) \o <<SP, D9, LF>>
                  [] cfg.name = "c4" -> <<c_x, SP, c_y, LF, D3, SP, D4, LF>> \o TagField(cfg) \o <<SP, D9, LF>>
                  [] cfg.name = "c5" -> <<c_x, SP, c_y, LF, D2, SP, D1, LF>> \o TagField(cfg) \o <<SP, D9, LF>>
                  [] cfg.name = "c6" -> <<c_x, SP, c_y, LF, D4, SP, D2, LF>> \o TagField(cfg) \o <<SP, D9, LF>>
                  [] cfg.name = "c7" -> <<c_x, SP, c_y, LF, D6, SP, D3, LF>> \o TagField(cfg) \o <<SP, D9, LF>>
                  [] cfg.name = "c8" -> <<c_x, SP, c_y, LF, D8, SP, D1, LF>> \o TagField(cfg) \o <<SP, D9, LF>>
                  [] cfg.name = "c9" -> <<c_x, SP, c_y, LF, D9, SP, D1, LF>> \o TagField(cfg) \o <<SP, D9, LF>>
                  [] cfg.name = "c10" -> <<c_x, SP, c_y, LF, D1, SP, D1, LF>> \o TagField(cfg) \o <<SP, D9, LF>>
                  [] cfg.name = "c11" -> <<c_x, SP, c_y, LF, D1, SP, D2, LF>> \o TagField(cfg) \o <<SP, D9, LF>>
InfContent == <<c_x, COLON, c_y, LF, D5, COLON, D6, LF>>   \* the file operand of c1
MainInput(cfg) == IF cfg.src = "file" THEN InfContent ELSE StdinOf(cfg)
RfContent == <<c_r, D1, LF, c_r, D2, LF, c_r, D3, LF>>
WfWritten == <<80, LF>>                          \* "P\n"
StaleContent == <<c_s, c_t, c_a, c_l, c_e, LF>>   \* what a file holds when a write went to a dead stream

RangeKinds == {"rg_close", "rg_eof", "rg_exit", "rg_err", "rg_cancel", "rg_next", "rg_nextfile", "rg_getline"}
Kinds == {"plain", "setglob", "setfs", "csvhdr", "setmodes", "openout", "exit3", "errfunc", "errforin", "cancel",
          "rand", "srand5", "midfile", "match", "p_io", "p_func",
          "gl_plain", "gl_dash", "gl_dashvar",              \* standard input through getline / getline < "-" / getline var < "-"
          "exit_enderr", "exitbegin", "exit_endcancel",     \* exit N outside END, then END fails
          "sys", "pipe",                                    \* a command is started: system(), cmd | getline
          "nr_plain", "sr_first", "sr_only", "sr_time",     \* never rand(); srand(7) before the first rand(); srand(9) only; srand()
          "av_write", "av_del",                             \* the program adds / deletes elements of ARGV and ENVIRON
          "fmtc",                                           \* %c through a format string built at run time
          "dp_ok", "dp_err", "dp_exit", "dp_cancel"}        \* cfg.depth nested calls, then return / run-time error / exit 3 / cancellation at the bottom
         \cup RangeKinds                                     \* the range pattern is opened and the run ends in every way
\* kinds whose fingerprint does not call rand()
NoFpRand == {"nr_plain", "sr_first", "sr_only", "sr_time"}
\* kinds that cancel their own call: they need a context that can be cancelled whatever the configuration says
CancelKinds == {"cancel", "exit_endcancel", "rg_cancel", "dp_cancel"}
DepthKinds == {"dp_ok", "dp_err", "dp_exit", "dp_cancel"}
Errors == {"error", "canceled", "deadline"}
ApiOf(kind, cfg) == IF kind \in CancelKinds /\ cfg.api \in {"exec", "ctxbg"} THEN "ctx" ELSE cfg.api
\* how a run that makes its own context done ends: context.Canceled, or DeadlineExceeded for a deadline context
OwnCtxErr(kind, cfg) == IF ApiOf(kind, cfg) = "ctxdl" THEN "deadline" ELSE "canceled"
\* a context that is done governs the interpreter (never at the start of a run under ExecSpec)
Governed(st) == st.pr.ctx.check /\ st.pr.ctx.done # "no"
\* a run-time error: executeAll reports the context's error in its place when the governing context is done
ErrStop(st) == IF Governed(st) THEN st.pr.ctx.done ELSE "error"

\* --------------------------------------------------------- reading records
Pieces(content, sep) ==
  IF content = <<>> THEN <<>>
  ELSE LET p == SplitLit(content, sep)
       IN IF p[Len(p)] = <<>> THEN SubSeq(p, 1, Len(p) - 1) ELSE p

FieldsOf(line, fs) ==
  IF fs = <<SP>> THEN SplitBlanks(line) ELSE IF line = <<>> THEN <<>> ELSE SplitLit(line, fs)

\* a new scanner on `content` in the modes of st: header names it sets (or the old ones) and its records
Scan(st, content) ==
  LET im == st.pr.imode IN
  IF im.m = "default"
  THEN [hdr |-> st.pr.hdr, newhdr |-> FALSE,
        recs |-> LET ps == Pieces(content, st.vars.rs)
                 IN [j \in 1..Len(ps) |-> [line |-> ps[j], fields |-> FieldsOf(ps[j], st.vars.fs)]]]
  ELSE LET sep  == IF im.m = "csv" THEN <<COMMA>> ELSE <<TAB>>
           rows == Pieces(content, <<LF>>)
           all  == [j \in 1..Len(rows) |-> [line |-> rows[j], fields |-> SplitLit(rows[j], sep)]]
       IN IF im.hdr /\ Len(rows) > 0
          THEN [hdr |-> all[1].fields, newhdr |-> TRUE, recs |-> SubSeq(all, 2, Len(all))]
          ELSE [hdr |-> st.pr.hdr, newhdr |-> FALSE, recs |-> all]
NoScan(st) == [hdr |-> st.pr.hdr, newhdr |-> FALSE, recs |-> <<>>]
\* the header names a scanner has read become the names of @"name" and the array FIELDS
SetHdr(st, sc) == [st EXCEPT !.pr.hdr = sc.hdr, !.vars.fields = IF sc.newhdr THEN sc.hdr ELSE @]

\* @"name": <<found?, value>>; the last column of that name wins
FieldByName(st, fields, name) ==
  IF st.pr.hdr = <<>> THEN [err |-> TRUE, val |-> <<>>]
  ELSE LET P == {j \in 1..Len(st.pr.hdr) : st.pr.hdr[j] = name}
       IN IF P = {} THEN [err |-> FALSE, val |-> <<>>]
          ELSE LET k == Max(P) IN [err |-> FALSE, val |-> IF k <= Len(fields) THEN fields[k] ELSE <<>>]

\* leading decimal digits of a field as a number (the inputs hold nothing else numeric)
RECURSIVE LeadDigits(_, _, _)
LeadDigits(str, k, acc) ==
  IF k <= Len(str) /\ IsDigit(str[k]) THEN LeadDigits(str, k + 1, acc * 10 + (str[k] - 48)) ELSE acc
NumOf(str) == LeadDigits(str, SkipBlanks(str, 1), 0)

\* ----------------------------------------------------------------- output
Chunk(key, val) == [k |-> key, v |-> val, cmp |-> "eq"]
RawChunk(val)   == [k |-> "", v |-> val, cmp |-> "eq"]

\* print a, b  in the current output mode
PrintLine(st, flds) ==
  CASE st.pr.omode = "default" -> Join(flds, st.vars.ofs) \o st.vars.ors
    [] st.pr.omode = "csv"     -> CsvEncode(flds, <<COMMA>>) \o <<LF>>
    [] st.pr.omode = "tsv"     -> CsvEncode(flds, <<TAB>>) \o <<LF>>

\* a chunk whose value is predicted only under a condition
ChunkIf(cond, key, val) == [k |-> key, v |-> IF cond THEN val ELSE <<>>, cmp |-> IF cond THEN "eq" ELSE "any"]

\* ---- the random generator
\* the value of a rand(): the idx-th draw (from 0) after seeding with seed, as a new interpreter yields it
RndChunk(key, rnd) ==
  IF rnd.seed < 0 THEN [k |-> key, v |-> <<>>, cmp |-> "any"]
  ELSE [k |-> key, v |-> IntStr(rnd.seed) \o <<COLON>> \o IntStr(rnd.idx), cmp |-> "rnd"]
\* the value of srand(..): the previous seed
SeedChunk(rnd) == ChunkIf(rnd.seed >= 0, "sr", IntStr(rnd.seed))
Draw(st) == [st EXCEPT !.rnd.idx = IF st.rnd.seed < 0 THEN 0 ELSE @ + 1]
Seeded(st, n) == [st EXCEPT !.rnd = [seed |-> n, idx |-> 0]]

\* ---- the arrays ARGV and ENVIRON
\* enum(a): "key=value;" for every element, in the byte order of the keys
RECURSIVE EnumFrom(_, _, _)
EnumFrom(arr, keys, j) ==
  IF j > Len(arr) THEN <<>>
  ELSE (IF arr[j] = Absent THEN <<>> ELSE keys[j] \o <<EQ>> \o arr[j] \o <<SEMI>>) \o EnumFrom(arr, keys, j + 1)
ArgvKeys == [j \in 1..ArgvLen |-> IntStr(j - 1)]
EnumArgv(av) == EnumFrom(av, ArgvKeys, 1)
EnumEnv(ev)  == EnumFrom(ev, EnvKeys, 1)
\* argvto(lo, hi): "value," or "-," for ARGV[lo] .. ARGV[hi-1]
RECURSIVE ArgvTo(_, _, _)
ArgvTo(av, lo, hi) ==
  IF lo >= hi THEN <<>>
  ELSE (IF lo + 1 > Len(av) \/ av[lo + 1] = Absent THEN <<MINUS>> ELSE av[lo + 1]) \o <<COMMA>> \o ArgvTo(av, lo + 1, hi)

\* ---- formatted output: printf / sprintf under the run's own Config
\* %c of a number / of a string (Config.Chars: "count using Unicode chars instead of bytes for index(), length(),
\* match(), substr(), and printf %c"): the byte with that value / the first byte of the string, or with Chars the
\* UTF-8 encoding of that code point / the first character of the string.  (Numbers below 256 only: what a byte
\* conversion of a larger number yields is nobody's promise.)
Utf8Of(n) == IF n < 128 THEN <<n>>
             ELSE IF n < 2048 THEN <<192 + (n \div 64), 128 + (n % 64)>>
             ELSE <<224 + (n \div 4096), 128 + ((n \div 64) % 64), 128 + (n % 64)>>
PctCNum(n, chars) == IF chars THEN Utf8Of(n) ELSE <<n>>
FirstCharLen(str) == IF str[1] >= 224 THEN 3 ELSE IF str[1] >= 192 THEN 2 ELSE 1     \* (well-formed UTF-8 only)
PctCStr(str, chars) == IF str = <<>> THEN <<0>> ELSE IF chars THEN SubSeq(str, 1, FirstCharLen(str)) ELSE <<str[1]>>
EAcute == <<195, 169>>           \* U+00E9
Euro   == <<226, 130, 172>>      \* U+20AC
\* The line fp() writes with
\*   printf "%c%c|%c%c|", 233, 65, "\303\251x", "\342\202\254";  s = sprintf("%c%c", 233, "\303\251x")
\*   printf "%s|%s|%d\n", s, 0.1234567, 3.9
\* The format strings are the same text in every run on the interpreter; what they yield is decided by the Config
\* (Chars) and the variables (CONVFMT) of the run that executes them.
FmtLine(st) ==
  LET ch == st.pr.chars
  IN PctCNum(233, ch) \o PctCNum(65, ch) \o <<BAR>> \o PctCStr(EAcute \o <<c_x>>, ch) \o PctCStr(Euro, ch) \o <<BAR>>
     \o PctCNum(233, ch) \o PctCStr(EAcute \o <<c_x>>, ch) \o <<BAR>> \o FmtNum(st.vars.convfmt) \o <<BAR, D3, LF>>
\* kind fmtc: the same with a format string built at run time, f = "%c" "/%c":
\*   s = sprintf(f, 200, "\342\202\254");  printf f "|%s\n", 233, "\303\251x", s
FmtDynLine(st) ==
  LET ch == st.pr.chars
  IN PctCNum(233, ch) \o <<SLASH>> \o PctCStr(EAcute \o <<c_x>>, ch) \o <<BAR>>
     \o PctCNum(200, ch) \o <<SLASH>> \o PctCStr(Euro, ch) \o <<LF>>

\* what function fp() of the program prints in BEGIN
Fingerprint(st, kind) ==
  << Chunk("g", st.vars.g), Chunk("ak", st.vars.ak),
     Chunk("FS", st.vars.fs), Chunk("RS", st.vars.rs), Chunk("OFS", st.vars.ofs), Chunk("ORS", st.vars.ors),
     Chunk("CONVFMT", st.vars.convfmt), Chunk("OFMT", st.vars.ofmt), Chunk("SUBSEP", st.vars.subsep),
     Chunk("cv", FmtNum(st.vars.convfmt)),
     Chunk("ss", <<D1>> \o st.vars.subsep \o <<D2>>),
     Chunk("NR", IntStr(st.pr.nr)), Chunk("FNR", IntStr(st.pr.fnr)), Chunk("NF", IntStr(st.pr.nf)),
     Chunk("line", st.pr.line), Chunk("FILENAME", st.pr.filename),
     Chunk("RSTART", IntStr(st.pr.rstart)), Chunk("RLENGTH", IntStr(st.pr.rlength)),
     ChunkIf(~st.vars.rtset, "RT", <<>>),
     Chunk("INPUTMODE", ImodeText(st.pr.imode)), Chunk("OUTPUTMODE", OmodeText(st.pr.omode)),
     Chunk("chars", IF st.pr.chars THEN <<D1>> ELSE <<D2>>),          \* length("\303\251")
     Chunk("ARGC", IntStr(st.pr.argc)),
     Chunk("argvc", ArgvTo(st.vars.argv, 0, st.pr.argc)),
     ChunkIf(st.pr.argvOk, "argv", EnumArgv(st.vars.argv)),
     ChunkIf(st.pr.argvOk, "argvx", ArgvTo(st.vars.argv, st.pr.argc, st.pr.argc + 2)),
     ChunkIf(st.pr.envOk, "env", EnumEnv(st.vars.env)),
     ChunkIf(st.vars.fields = <<>>, "FIELDS", <<>>) >>
  \o (IF kind \in NoFpRand THEN <<>> ELSE <<RndChunk("rand", st.rnd)>>)
  \o << Chunk("pl", <<>>), RawChunk(PrintLine(st, <<FmtNum(st.vars.ofmt), <<c_q>>>>)),
        Chunk("pf", <<>>), RawChunk(FmtLine(st)) >>

\* ------------------------------------------------------------- one run
\* The run proceeds through phases (BEGIN, main loop, END); a phase result is
\* [st, out, stop] with stop in {"", "exit"} \cup Errors.

\* getline ln < name  on a file with the given content, not read before in this run
\* (err: the file may not be opened -- Config.NoFileReads -- which is a run-time error)
GetlineFile(st, name, content) ==
  IF name \in st.pr.ins
  THEN [st |-> st, ret |-> 0 - 1, val |-> <<>>, err |-> FALSE]       \* a dead stream left in the map
  ELSE IF st.pr.sandbox THEN [st |-> st, ret |-> 0, val |-> <<>>, err |-> TRUE]
  ELSE LET sc == Scan(st, content)
       IN [st  |-> [SetHdr(st, sc) EXCEPT !.pr.ins = @ \cup {name}],
           ret |-> IF sc.recs = <<>> THEN 0 ELSE 1,
           val |-> IF sc.recs = <<>> THEN <<>> ELSE sc.recs[1].line,
           err |-> FALSE]

\* The main input is opened (by the main loop or by a plain getline, whichever comes first): the state
\* afterwards and the records the scanner will yield.  A scanner left over from an earlier run would be
\* read instead (it is at EOF or dead); standard input that another scanner of this run has read to its
\* end yields nothing more.
OpenMain(st, cfg) ==
  LET noNew == st.pr.scanner \/ st.pr.mainEof
      sc    == IF noNew \/ (cfg.src = "stdin" /\ st.pr.stdinUsed) THEN NoScan(st) ELSE Scan(st, MainInput(cfg))
  IN [st |-> [SetHdr(st, sc) EXCEPT
                        !.pr.filename = IF noNew THEN @ ELSE IF cfg.src = "file" THEN InfName ELSE <<MINUS>>,
                        !.pr.fnr = IF noNew THEN @ ELSE 0,
                        !.pr.stdinUsed = @ \/ (cfg.src = "stdin" /\ ~noNew),
                        \* on the way to the first input the assignment operands are carried out
                        !.vars.g = IF ~noNew /\ cfg.gset # <<>> THEN cfg.gset ELSE @,
                        !.vars.rtset = TRUE],             \* reading the main input sets RT
      recs |-> sc.recs]

\* getline < "-" / getline var < "-": the scanner named "-" is created on the run's standard input at the
\* first call and keeps what it has not yet handed out
NoRec == [line |-> <<>>, fields |-> <<>>]
GetlineDash(st, cfg) ==
  LET d  == st.pr.dash
      op == IF d.open THEN [st |-> st, rest |-> d.rest]
            ELSE LET sc == IF st.pr.stdinUsed THEN NoScan(st) ELSE Scan(st, StdinOf(cfg))
                 IN [st |-> [SetHdr(st, sc) EXCEPT !.pr.stdinUsed = TRUE], rest |-> sc.recs]
  IN IF op.rest = <<>>
     THEN [st |-> [op.st EXCEPT !.pr.dash = [open |-> TRUE, rest |-> <<>>]], ret |-> 0, rec |-> NoRec]
     ELSE [st |-> [op.st EXCEPT !.pr.dash = [open |-> TRUE, rest |-> Tail(op.rest)]], ret |-> 1, rec |-> Head(op.rest)]

\* while ((getline < "-") > 0) emit("gd", $0)
RECURSIVE DashAll(_, _, _)
DashAll(st, cfg, out) ==
  LET gd == GetlineDash(st, cfg)
  IN IF gd.ret = 0 THEN [st |-> gd.st, out |-> out]
     ELSE DashAll([gd.st EXCEPT !.pr.line = gd.rec.line, !.pr.nf = Len(gd.rec.fields)], cfg,
                  Append(out, Chunk("gd", gd.rec.line)))

\* while ((getline) > 0) emit("gl", $0)   on the records of the main input
RECURSIVE PlainAll(_, _, _, _)
PlainAll(st, recs, j, out) ==
  IF j > Len(recs) THEN [st |-> [st EXCEPT !.pr.scanner = FALSE, !.pr.mainEof = TRUE], out |-> out]
  ELSE PlainAll([st EXCEPT !.pr.line = recs[j].line, !.pr.nf = Len(recs[j].fields), !.pr.nr = @ + 1, !.pr.fnr = @ + 1,
                           !.pr.scanner = TRUE],
                recs, j + 1, Append(out, Chunk("gl", recs[j].line)))

BeginPhase(st0, kind, cfg) ==
  LET fp == Fingerprint(st0, kind)
      st == IF kind \in NoFpRand THEN st0 ELSE Draw(st0)
  IN CASE kind = "setfs" ->
            [st |-> [st EXCEPT !.vars.fs = <<COMMA>>, !.vars.rs = <<SEMI>>, !.vars.ofs = <<MINUS>>,
                               !.vars.ors = <<BANG, LF>>, !.vars.convfmt = Fmt2, !.vars.ofmt = Fmt3,
                               !.vars.subsep = <<COLON>>],
             out |-> fp, stop |-> ""]
       [] kind = "csvhdr" ->
            [st |-> [st EXCEPT !.pr.imode = [m |-> "csv", hdr |-> TRUE]], out |-> fp, stop |-> ""]
       [] kind = "setmodes" ->
            [st |-> [st EXCEPT !.pr.imode = [m |-> "tsv", hdr |-> FALSE], !.pr.omode = "csv"], out |-> fp, stop |-> ""]
       [] kind = "rand" ->           \* emit("rnd", rand()); emit("rnd", rand())
            [st |-> Draw(Draw(st)), out |-> fp \o <<RndChunk("rnd", st.rnd), RndChunk("rnd", Draw(st).rnd)>>, stop |-> ""]
       [] kind = "srand5" ->         \* emit("sr", srand(5)); emit("rnd", rand())
            [st |-> Draw(Seeded(st, 5)), out |-> fp \o <<SeedChunk(st.rnd), RndChunk("rnd", Seeded(st, 5).rnd)>>, stop |-> ""]
       [] kind = "sr_first" ->       \* emit("sr", srand(7)); emit("rnd", rand()); emit("rnd", rand())
            [st |-> Draw(Draw(Seeded(st, 7))),
             out |-> fp \o <<SeedChunk(st.rnd), RndChunk("rnd", Seeded(st, 7).rnd), RndChunk("rnd", Draw(Seeded(st, 7)).rnd)>>,
             stop |-> ""]
       [] kind = "sr_only" ->        \* emit("sr", srand(9))
            [st |-> Seeded(st, 9), out |-> fp \o <<SeedChunk(st.rnd)>>, stop |-> ""]
       [] kind = "sr_time" ->        \* emit("sr", srand()); emit("rnd", rand())
            [st |-> Seeded(st, 0 - 1), out |-> fp \o <<SeedChunk(st.rnd), RndChunk("rnd", Seeded(st, 0 - 1).rnd)>>, stop |-> ""]
       [] kind = "av_write" ->       \* ARGV[5] = "zz"; ENVIRON["token"] = "tk"; both arrays are enumerated again
            LET s1 == [st EXCEPT !.vars.argv[6] = <<c_z, c_z>>, !.vars.env[3] = <<c_t, c_k>>]
            IN [st |-> s1,
                out |-> fp \o <<ChunkIf(st.pr.argvOk, "argvw", EnumArgv(s1.vars.argv)), ChunkIf(st.pr.envOk, "envw", EnumEnv(s1.vars.env))>>,
                stop |-> ""]
       [] kind = "av_del" ->         \* delete ARGV[2]; delete ENVIRON["home"]; both arrays are enumerated again
            LET s1 == [st EXCEPT !.vars.argv[3] = Absent, !.vars.env[1] = Absent]
            IN [st |-> s1,
                out |-> fp \o <<ChunkIf(st.pr.argvOk, "argvw", EnumArgv(s1.vars.argv)), ChunkIf(st.pr.envOk, "envw", EnumEnv(s1.vars.env))>>,
                stop |-> ""]
       [] kind = "fmtc" ->           \* a format string built at run time, through sprintf and printf
            [st |-> st, out |-> fp \o <<Chunk("fc", <<>>), RawChunk(FmtDynLine(st))>>, stop |-> ""]
       [] kind = "midfile" ->
            LET gl == GetlineFile(st, "rf", RfContent)
            IN IF gl.err THEN [st |-> gl.st, out |-> fp, stop |-> ErrStop(gl.st)]
               ELSE [st |-> gl.st, out |-> fp \o <<Chunk("midret", IntStr(gl.ret)), Chunk("mid", gl.val)>>, stop |-> ""]
       [] kind = "match" ->
            [st |-> [st EXCEPT !.pr.rstart = 3, !.pr.rlength = 3], out |-> fp, stop |-> ""]
       [] kind = "p_io" ->
            \* printf "P\n" > wf; close(wf); read wf back to the end; close(wf); getline ln < rf
            \* (under Config.NoFileWrites the first statement is a run-time error)
            LET dead    == "wf" \in st.pr.outs
                content == IF dead THEN StaleContent ELSE WfWritten
                s1      == [st EXCEPT !.pr.outs = @ \ {"wf"}]
                sc      == Scan(s1, content)
                s2      == SetHdr(s1, sc)
                gl      == GetlineFile(s2, "rf", RfContent)
            IN IF st.pr.sandbox THEN [st |-> st, out |-> fp, stop |-> ErrStop(st)]
               ELSE [st |-> gl.st,
                     out |-> fp \o <<Chunk("wclose", <<D0>>)>>
                                \o [j \in 1..Len(sc.recs) |-> Chunk("wline", sc.recs[j].line)]
                                \o <<Chunk("rret", IntStr(gl.ret)), Chunk("rline", gl.val)>>,
                     stop |-> ""]
       [] kind = "p_func" ->
            \* fact(5), a for-in sum, boom(1), a 600-iteration loop (longer than one poll interval of the
            \* context: a done context that governs the interpreter ends the run there), match("zzab", /ab/)
            LET pre == fp \o <<Chunk("fact", <<D1, D2, D0>>), Chunk("forin", <<D3>>), Chunk("boom", <<D1>>)>>
            IN IF Governed(st) THEN [st |-> st, out |-> pre, stop |-> st.pr.ctx.done]
               ELSE [st |-> [st EXCEPT !.pr.rstart = 3, !.pr.rlength = 2],
                     out |-> pre \o <<Chunk("loop", <<D6, D0, D0>>), Chunk("rstart", <<D3>>)>>,
                     stop |-> ""]
       [] kind = "gl_plain" ->
            LET om == OpenMain(st, cfg)
                rd == PlainAll(om.st, om.recs, 1, fp)
            IN [st |-> rd.st, out |-> rd.out, stop |-> ""]
       [] kind = "gl_dash" ->
            LET rd == DashAll(st, cfg, fp)
            IN [st |-> rd.st, out |-> rd.out, stop |-> ""]
       [] kind = "exitbegin" ->
            [st |-> [st EXCEPT !.pr.status = 6], out |-> fp, stop |-> "exit"]
       [] OTHER -> [st |-> st, out |-> fp, stop |-> ""]

\* the rules of the main loop applied to record number j of recs
RECURSIVE MainFrom(_, _, _, _, _, _, _)
MainFrom(st, kind, cfg, recs, j, out, acc) ==       \* acc: running sum of $1 (p_func)
  IF j > Len(recs) THEN [st |-> [st EXCEPT !.pr.scanner = FALSE], out |-> out, stop |-> "", acc |-> acc]
  ELSE
    LET rc  == recs[j]
        f1  == IF Len(rc.fields) >= 1 THEN rc.fields[1] ELSE <<>>
        s0  == [st EXCEPT !.pr.line = rc.line, !.pr.nf = Len(rc.fields), !.pr.nr = @ + 1, !.pr.fnr = @ + 1,
                          !.pr.scanner = TRUE]
        o0  == Append(out, Chunk("rec", IntStr(s0.pr.nr) \o <<SLASH>> \o IntStr(s0.pr.nf) \o <<SLASH>> \o f1))
        \* the range rule  (mode ~ /^rg_/ && $1 ~ /^[0-9]/), ($1 ~ /^t/ && mode != "rg_eof") { emit("rg", $1) }:
        \* it matches when the range is open or opens here; the matching record may close it
        dig == f1 # <<>> /\ IsDigit(f1[1])
        inr == s0.pr.rng \/ (kind \in RangeKinds /\ dig)
        cls == inr /\ f1 # <<>> /\ f1[1] = c_t /\ kind # "rg_eof"
        s1  == [s0 EXCEPT !.pr.rng = inr /\ ~cls]
        o1  == IF inr THEN Append(o0, Chunk("rg", f1)) ELSE o0
    IN CASE kind = "setglob" ->
              MainFrom([s1 EXCEPT !.vars.g = <<c_g>> \o IntStr(s1.pr.nr), !.vars.ak = <<c_a>> \o IntStr(s1.pr.nr)],
                       kind, cfg, recs, j + 1, o1, acc)
         [] kind \in {"csvhdr", "p_io"} ->
              LET fb == FieldByName(s1, rc.fields, <<c_x>>)
              IN IF fb.err THEN [st |-> s1, out |-> o1, stop |-> ErrStop(s1), acc |-> acc]
                 ELSE MainFrom(s1, kind, cfg, recs, j + 1, Append(o1, Chunk("x", fb.val)), acc)
         [] kind = "openout" ->         \* print $0 > wf   (a run-time error under Config.NoFileWrites)
              IF s1.pr.sandbox /\ "wf" \notin s1.pr.outs THEN [st |-> s1, out |-> o1, stop |-> ErrStop(s1), acc |-> acc]
              ELSE MainFrom([s1 EXCEPT !.pr.outs = @ \cup {"wf"}], kind, cfg, recs, j + 1, o1, acc)
         [] kind \in {"exit3", "exit_enderr", "exit_endcancel"} ->
              [st |-> [s1 EXCEPT !.pr.status = CASE kind = "exit3" -> 3 [] kind = "exit_enderr" -> 4 [] OTHER -> 5],
               out |-> o1, stop |-> "exit", acc |-> acc]
         [] kind \in {"errfunc", "errforin"} ->     \* (errfunc fails one call deep)
              [st |-> [s1 EXCEPT !.pr.sp = 1, !.pr.depth = IF kind = "errfunc" /\ @ < CallLimit THEN @ + 1 ELSE @],
               out |-> o1, stop |-> ErrStop(s1), acc |-> acc]
         \* emit("deep", deep(depth, mode)): deep(n, ..) calls itself down to n = 1 (depth nested calls), where it
         \* returns (dp_ok: the calls add up to depth), divides by zero (dp_err), executes exit 3 (dp_exit), or
         \* cancels the context of the call and loops (dp_cancel).  Calls still pending from an earlier run would
         \* count: the call that would make more than CallLimit is a run-time error (all CallLimit calls then pending).
         [] kind \in DepthKinds ->
              IF s1.pr.depth + cfg.depth > CallLimit
              THEN [st |-> [s1 EXCEPT !.pr.depth = CallLimit], out |-> o1, stop |-> ErrStop(s1), acc |-> acc]
              ELSE (CASE kind = "dp_ok" ->
                          MainFrom(s1, kind, cfg, recs, j + 1, Append(o1, Chunk("deep", IntStr(cfg.depth))), acc)
                     [] kind = "dp_err" ->
                          [st |-> [s1 EXCEPT !.pr.depth = @ + cfg.depth], out |-> o1, stop |-> ErrStop(s1), acc |-> acc]
                     [] kind = "dp_exit" ->
                          [st |-> [s1 EXCEPT !.pr.depth = @ + cfg.depth, !.pr.status = 3], out |-> o1, stop |-> "exit", acc |-> acc]
                     [] kind = "dp_cancel" ->
                          [st |-> [s1 EXCEPT !.pr.depth = @ + cfg.depth], out |-> o1, stop |-> OwnCtxErr(kind, cfg), acc |-> acc])
         [] kind = "cancel" ->
              [st |-> [s1 EXCEPT !.pr.sp = 1], out |-> o1, stop |-> OwnCtxErr(kind, cfg), acc |-> acc]
         [] kind = "p_func" ->
              MainFrom(s1, kind, cfg, recs, j + 1, o1, acc + NumOf(f1))
         \* the kinds that do something inside the range, at the record that opens it
         [] kind = "rg_exit" /\ dig ->       \* exit 3
              [st |-> [s1 EXCEPT !.pr.status = 3], out |-> o1, stop |-> "exit", acc |-> acc]
         [] kind = "rg_err" /\ dig ->        \* z = 1 / (NF - NF)
              [st |-> s1, out |-> o1, stop |-> ErrStop(s1), acc |-> acc]
         [] kind = "rg_cancel" /\ dig ->     \* j = 0; while (1) spin(j++)
              [st |-> [s1 EXCEPT !.pr.sp = 1], out |-> o1, stop |-> OwnCtxErr(kind, cfg), acc |-> acc]
         [] kind = "rg_next" /\ dig ->       \* emit("nx", $1); next
              MainFrom(s1, kind, cfg, recs, j + 1, Append(o1, Chunk("nx", f1)), acc)
         [] kind = "rg_nextfile" /\ dig ->   \* nextfile: the rest of the input (the only one) is skipped
              [st |-> [s1 EXCEPT !.pr.scanner = FALSE], out |-> o1, stop |-> "", acc |-> acc]
         [] kind = "rg_getline" /\ dig ->    \* r = getline; emit("rgl", r ":" $1): the next record is consumed by the body
              IF j + 1 <= Len(recs)
              THEN LET r2 == recs[j + 1]
                       g1 == IF Len(r2.fields) >= 1 THEN r2.fields[1] ELSE <<>>
                   IN MainFrom([s1 EXCEPT !.pr.line = r2.line, !.pr.nf = Len(r2.fields), !.pr.nr = @ + 1, !.pr.fnr = @ + 1],
                               kind, cfg, recs, j + 2, Append(o1, Chunk("rgl", <<D1, COLON>> \o g1)), acc)
              ELSE MainFrom(s1, kind, cfg, recs, j + 1, Append(o1, Chunk("rgl", <<D0, COLON>> \o f1)), acc)
         [] OTHER -> MainFrom(s1, kind, cfg, recs, j + 1, o1, acc)

\* the END block (runs after a normal main loop and after exit outside END)
EndPhase(st, kind, cfg, out0, acc) ==
  LET o1 == Append(out0, Chunk("endNR", IntStr(st.pr.nr)))
  IN CASE kind = "p_func" ->             \* emit("sum", s); exit       (a bare exit leaves the status alone)
            [st |-> st, out |-> Append(o1, Chunk("sum", IntStr(acc))), stop |-> "exit"]
       [] kind = "gl_dashvar" ->         \* ln = ""; r = (getline ln < "-")
            LET gd == GetlineDash(st, cfg)
            IN [st |-> gd.st, out |-> o1 \o <<Chunk("gvr", IntStr(gd.ret)), Chunk("gv", gd.rec.line)>>, stop |-> ""]
       [] kind = "sys" ->                \* r = system("exit 3")       (a command started under a done context fails)
            \* (and system() is a run-time error under Config.NoExec)
            IF Governed(st) \/ st.pr.sandbox THEN [st |-> st, out |-> o1, stop |-> ErrStop(st)]
            ELSE [st |-> st, out |-> Append(o1, Chunk("sysrc", <<D3>>)), stop |-> ""]
       [] kind = "pipe" ->               \* ln = ""; r = ("echo hi" | getline ln); emit("pipe", r ":" ln); close("echo hi")
            \* (the command's output is read by a scanner in the current input mode: with a CSV header the one row is the header)
            IF Governed(st) \/ st.pr.sandbox THEN [st |-> st, out |-> o1, stop |-> ErrStop(st)]
            ELSE LET sc == Scan(st, <<c_h, c_i, LF>>)
                     rt == IF sc.recs = <<>> THEN 0 ELSE 1
                     vl == IF sc.recs = <<>> THEN <<>> ELSE sc.recs[1].line
                 IN [st |-> SetHdr(st, sc),
                     out |-> Append(o1, Chunk("pipe", IntStr(rt) \o <<COLON>> \o vl)), stop |-> ""]
       [] kind \in {"exit_enderr", "exitbegin"} ->      \* z = 1 / (NR - NR)
            [st |-> st, out |-> o1, stop |-> ErrStop(st)]
       [] kind = "exit_endcancel" ->     \* j = 0; while (1) spin(j++)      spin(7) cancels the run's own context
            [st |-> [st EXCEPT !.pr.sp = 1], out |-> o1, stop |-> OwnCtxErr(kind, cfg)]
       [] OTHER -> [st |-> st, out |-> o1, stop |-> ""]

\* Run the program in mode `kind` from state st (already prepared for the run: see ExecSpec / ExecCode).
\* When the call has returned, the context it was given (if any) is cancelled / expires.
\* (With CallLimit - 1 or more calls pending from an earlier run not even fp() could call emit(): the run fails before it
\* prints anything.  Never so under ExecSpec, where no call is pending at the start of a run.)
Run(st, kind, cfg) ==
  LET bp == IF st.pr.depth + 2 > CallLimit THEN [st |-> st, out |-> <<>>, stop |-> ErrStop(st)]
            ELSE BeginPhase(st, kind, cfg)
      mp == IF bp.stop # "" THEN [st |-> bp.st, out |-> bp.out, stop |-> bp.stop, acc |-> 0]    \* exit in BEGIN: no input is read
            ELSE LET om == OpenMain(bp.st, cfg) IN MainFrom(om.st, kind, cfg, om.recs, 1, bp.out, 0)
      ep == IF mp.stop \in Errors THEN [st |-> mp.st, out |-> mp.out, stop |-> mp.stop]
            ELSE EndPhase(mp.st, kind, cfg, mp.out, mp.acc)
      failed == ep.stop \in Errors
      cx == ep.st.pr.ctx
  IN [st  |-> [ep.st EXCEPT !.pr.ctx.done = IF cx.check /\ cx.done = "no"        \* the context of this very call
                                            THEN (IF ApiOf(kind, cfg) = "ctxdl" THEN "deadline" ELSE "canceled")
                                            ELSE @],
      res |-> [out |-> ep.out,
               status |-> IF failed THEN 0 ELSE ep.st.pr.status,
               err |-> IF failed THEN ep.stop ELSE "none"]]

\* ------------------------------------------------- start of a run, two ways
\* what setExecuteConfig and Execute / ExecuteContext overwrite on every run (unsetsCtx: a call without a
\* context of its own -- Execute, ExecuteContext(Background) -- switches the checking of the previous call's off)
AssignArgv(av, cfg) ==
  [j \in 1..ArgvLen |-> IF j = 1 THEN cfg.argv0 ELSE IF j - 1 <= Len(cfg.args) THEN cfg.args[j - 1] ELSE av[j]]
AssignEnv(ev, cfg) == [j \in 1..Len(EnvKeys) |-> IF cfg.env[j] # Absent THEN cfg.env[j] ELSE ev[j]]
ApplyCfg(st, kind, cfg, unsetsCtx) ==
  [st EXCEPT !.pr.imode = cfg.imode, !.pr.omode = cfg.omode,
             !.pr.argc = 1 + Len(cfg.args),
             !.pr.chars = cfg.chars, !.pr.sandbox = cfg.sandbox,
             \* ARGV[0..len(Args)] and one ENVIRON element per configured variable are assigned
             !.vars.argv = AssignArgv(@, cfg), !.vars.env = AssignEnv(@, cfg),
             !.pr.argvOk = \A j \in 1..ArgvLen : st.vars.argv[j] # Absent => j <= 1 + Len(cfg.args),
             !.pr.envOk  = \A j \in 1..Len(EnvKeys) : st.vars.env[j] # Absent => cfg.env[j] # Absent,
             !.pr.stdinUsed = FALSE, !.pr.mainEof = FALSE,
             !.pr.ctx = IF ApiOf(kind, cfg) \in {"ctx", "ctxdl"} THEN [check |-> TRUE, done |-> "no"]
                        ELSE IF unsetsCtx THEN [check |-> FALSE, done |-> "no"] ELSE @,
             !.vars.fs = IF cfg.fsvar THEN <<COLON>> ELSE @]

\* The property: nothing of the per-run state carries over.
\* (FIELDS holds the CSV header names and RT the terminator of the last record read: "CSV header names" and "record
\* state" of the statement, although the model keeps them next to the variables)
ExecSpec(st, kind, cfg) == Run(ApplyCfg([st EXCEPT !.pr = PrInit, !.vars.fields = <<>>, !.vars.rtset = FALSE], kind, cfg, TRUE), kind, cfg)

\* The code: resetCore clears the named fields (the record state is one group, as are the streams);
\* after the run closeAll closes all streams (they stay in the maps, dead).  "dash": the scanners map
\* (the scanner of getline < "-" has no stream of its own); "ctx": Execute and
\* ExecuteContext(Background) set checkCtx to false (ExecuteContext with a real context installs it in any case).
\* "range": the flags of the range patterns are not a field of the interpreter at all -- a local of execActions,
\* new for every pass over the input; in the model that is one more clear.
\* "depth": the count of nested calls (the code also counts it down while an error propagates through the calls; in
\* the model an aborted run abandons its calls, and the clear is what makes the next run start with none).
CoreFields == {"scanner", "ins", "outs", "sp", "record", "match", "status", "hdr", "argc", "dash", "ctx", "range", "depth"}
ResetCore(pr, clears) ==
  [pr EXCEPT !.scanner = IF "scanner" \in clears THEN FALSE ELSE @,
             !.ins     = IF "ins" \in clears THEN {} ELSE @,
             !.outs    = IF "outs" \in clears THEN {} ELSE @,
             !.sp      = IF "sp" \in clears THEN 0 ELSE @,
             !.line    = IF "record" \in clears THEN <<>> ELSE @,
             !.nf      = IF "record" \in clears THEN 0 ELSE @,
             !.nr      = IF "record" \in clears THEN 0 ELSE @,
             !.fnr     = IF "record" \in clears THEN 0 ELSE @,
             !.filename = IF "record" \in clears THEN <<>> ELSE @,
             !.rstart  = IF "match" \in clears THEN 0 ELSE @,
             !.rlength = IF "match" \in clears THEN 0 ELSE @,
             !.status  = IF "status" \in clears THEN 0 ELSE @,
             !.hdr     = IF "hdr" \in clears THEN <<>> ELSE @,
             !.argc    = IF "argc" \in clears THEN 0 ELSE @,
             !.rng     = IF "range" \in clears THEN FALSE ELSE @,
             !.depth   = IF "depth" \in clears THEN 0 ELSE @,
             !.dash    = IF "dash" \in clears THEN [open |-> FALSE, rest |-> <<>>] ELSE @]
ExecCode(st, kind, cfg, clears) ==
  Run(ApplyCfg([st EXCEPT !.pr = ResetCore(@, clears),
                          !.vars.fields = IF "hdr" \in clears THEN <<>> ELSE @,
                          !.vars.rtset = IF "record" \in clears THEN FALSE ELSE @], kind, cfg, "ctx" \in clears), kind, cfg)

\* What of the per-run state a run leaves behind can still matter to a later ExecCode(.., clears): the fields resetCore
\* does not clear, minus those ApplyCfg overwrites whatever they hold.  (ResetCore is idempotent, so
\* ExecCode([st EXCEPT !.pr = Settled(@, clears)], ..) = ExecCode(st, ..); MC_Reuse keeps states in this form, which
\* keeps the reachable states from being multiplied by everything a run can leave in fields that are cleared anyway.)
Settled(pr, clears) ==
  [ResetCore(pr, clears) EXCEPT !.imode = PrInit.imode, !.omode = PrInit.omode, !.chars = PrInit.chars, !.sandbox = PrInit.sandbox,
                                !.stdinUsed = PrInit.stdinUsed, !.mainEof = PrInit.mainEof,
                                !.argvOk = PrInit.argvOk, !.envOk = PrInit.envOk,
                                !.argc = IF "argc" \in clears THEN PrInit.argc ELSE @]

ResetVarsOp(st) == [st EXCEPT !.vars = VarsInit]
ResetRandOp(st) == [st EXCEPT !.rnd = RndInit]

\* reset variants applied before a run
Variants == {"none", "vars", "rand", "both"}
ApplyVariant(st, vr) ==
  CASE vr = "none" -> st
    [] vr = "vars" -> ResetVarsOp(st)
    [] vr = "rand" -> ResetRandOp(st)
    [] vr = "both" -> ResetRandOp(ResetVarsOp(st))
=============================================================================
