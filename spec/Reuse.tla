------------------------------- MODULE Reuse -------------------------------
(***************************************************************************)
(* Reusing one Interpreter for many runs (interp/newexecute.go).           *)
(*                                                                         *)
(* The interpreter's state is a record st = [vars, pr, rnd]:               *)
(*   vars  what a program can keep between runs: a global scalar, an array *)
(*         element, FS RS OFS ORS CONVFMT OFMT SUBSEP                      *)
(*   pr    per-run state: record ($0, NF), NR, FNR, FILENAME, RSTART,      *)
(*         RLENGTH, the main scanner, the scanner of getline < "-", named  *)
(*         input and output streams, CSV header names, input and output    *)
(*         mode, exit status, value-stack pointer (pending frames), the    *)
(*         context that governs the interpreter (polled every 1000         *)
(*         instructions, handed to the commands it starts)                 *)
(*   rnd   random generator: seed and number of draws since seeding        *)
(*                                                                         *)
(* One AWK program (harness/c14/program.go) has 24 modes ("run kinds"),    *)
(* selected by the variable `mode` given through Config.Vars; every mode   *)
(* first prints a fingerprint of all the state it can see in BEGIN, then   *)
(* does what its kind says.  Run(st, kind, cfg) is the transcription of    *)
(* that program: it reads the state it is started in (so a stale value     *)
(* WOULD be seen) and returns the new state with the run's output (a       *)
(* sequence of chunks), exit status and error class.                       *)
(*                                                                         *)
(* Two Execute operators use the same Run:                                 *)
(*  - ExecSpec: what the property states -- every run starts from the      *)
(*    initial per-run state (nothing of pr carries over), vars and rnd     *)
(*    carry over until ResetVars / ResetRand.  This is the oracle.         *)
(*  - ExecCode(Clears): what newexecute.go does -- resetCore clears the    *)
(*    fields named in Clears, setExecuteConfig overwrites the fields it    *)
(*    sets from the Config, closeAll closes streams but leaves them in the *)
(*    maps.  MC_Reuse checks that with the intended Clears this refines    *)
(*    ExecSpec, and which clears are load-bearing.                         *)
(*                                                                         *)
(* What a run can do besides the original 16 kinds:                        *)
(*  - read its standard input through each path: the main loop, plain      *)
(*    getline (gl_plain), getline < "-" (gl_dash), getline var < "-"       *)
(*    (gl_dashvar).  Every run is handed its OWN standard input (Config.   *)
(*    Stdin): StdinOf(cfg) ends in a record that names the run (cfg.tag),  *)
(*    so text read from an earlier run's input cannot pass for this run's. *)
(*    A run reads its standard input through one path only, or through a   *)
(*    second one after the first reached the end (how two half-read        *)
(*    scanners share buffered input is nobody's promise and not modelled). *)
(*  - end by `exit N` outside END and then fail in END: by a run-time      *)
(*    error (exit_enderr, exitbegin) or by cancellation (exit_endcancel).  *)
(*    Execute then returns status 0 and the error; N must not reach any    *)
(*    later run.                                                           *)
(*  - be called through Execute, ExecuteContext(Background), or            *)
(*    ExecuteContext with a context that is cancelled (api "ctx") or       *)
(*    expires (api "ctxdl") AFTER the call returned (the idiom `ctx,       *)
(*    cancel := context.WithTimeout(..); defer cancel()`).  A run is       *)
(*    governed by the context of its own call only.  Where a stale context *)
(*    would show: a loop longer than one poll interval (p_func), a         *)
(*    run-time error (reported as the context's error), a command being    *)
(*    started (sys: system(), pipe: cmd | getline).                        *)
(***************************************************************************)
EXTENDS Csv, TLC

\* ------------------------------------------------------------------ values
FmtDefault == <<PCT, DOT, D6, c_g>>
Fmt2       == <<PCT, DOT, D2, c_g>>
Fmt3       == <<PCT, DOT, D3, c_g>>
\* the number 0.1234567 rendered with a %.<n>g format
FmtNum(fmt) == CASE fmt = FmtDefault -> <<D0, DOT, D1, D2, D3, D4, D5, D7>>
                 [] fmt = Fmt2       -> <<D0, DOT, D1, D2>>
                 [] fmt = Fmt3       -> <<D0, DOT, D1, D2, D3>>

VarsInit == [g |-> <<>>, ak |-> <<MINUS>>, fs |-> <<SP>>, rs |-> <<LF>>, ofs |-> <<SP>>, ors |-> <<LF>>,
             convfmt |-> FmtDefault, ofmt |-> FmtDefault, subsep |-> <<28>>]
RndInit  == [seed |-> 1, idx |-> 0]

ModeDefault == [m |-> "default", hdr |-> FALSE]
ImodeText(im) ==
  (CASE im.m = "default" -> <<>> [] im.m = "csv" -> <<c_c, c_s, c_v>> [] im.m = "tsv" -> <<c_t, c_s, c_v>>)
  \o (IF im.m # "default" /\ im.hdr THEN <<SP, c_h, c_e, c_a, c_d, c_e, c_r>> ELSE <<>>)
OmodeText(om) == CASE om = "default" -> <<>> [] om = "csv" -> <<c_c, c_s, c_v>> [] om = "tsv" -> <<c_t, c_s, c_v>>

PrInit == [line |-> <<>>, nf |-> 0, nr |-> 0, fnr |-> 0, filename |-> <<>>, rstart |-> 0, rlength |-> 0,
           scanner |-> FALSE,     \* the main input scanner exists (stale if it survives into the next run)
           outs |-> {}, ins |-> {},   \* names in the output / input stream maps
           hdr |-> <<>>,          \* CSV header names (<<>> = none)
           imode |-> ModeDefault, omode |-> "default",
           status |-> 0, sp |-> 0, argc |-> 1,
           dash |-> [open |-> FALSE, rest |-> <<>>],   \* the scanner of getline < "-" and the records it still holds
           stdinUsed |-> FALSE,   \* this run's standard input was handed to a scanner (set anew by every call)
           mainEof |-> FALSE,     \* this run's main input was read to its end
           ctx |-> [check |-> FALSE, done |-> "no"]]   \* governing context; done: "no", "canceled", "deadline"

StInit == [vars |-> VarsInit, pr |-> PrInit, rnd |-> RndInit]

\* ----------------------------------------------------------- configurations
\* c0: zero Config, input on stdin, Execute.
\* c1: Vars FS=":", OutputMode tsv, input from a file operand, ExecuteContext with a context that is cancelled when
\*     the call has returned (never while it runs, unless the run's kind cancels).
\* c2: InputMode csv with header, input on stdin, Execute.
\* c3: zero Config, input on stdin, ExecuteContext with a context whose deadline passes when the call has returned.
\* c4: zero Config, input on stdin, ExecuteContext(context.Background()).
\* tag: which run of the history this is; it only makes the run's standard input its own.
Cfgs == { [name |-> "c0", fsvar |-> FALSE, omode |-> "default", imode |-> ModeDefault, src |-> "stdin", api |-> "exec", tag |-> 1],
          [name |-> "c1", fsvar |-> TRUE,  omode |-> "tsv",     imode |-> ModeDefault, src |-> "file",  api |-> "ctx", tag |-> 1],
          [name |-> "c2", fsvar |-> FALSE, omode |-> "default", imode |-> [m |-> "csv", hdr |-> TRUE], src |-> "stdin", api |-> "exec", tag |-> 1],
          [name |-> "c3", fsvar |-> FALSE, omode |-> "default", imode |-> ModeDefault, src |-> "stdin", api |-> "ctxdl", tag |-> 1],
          [name |-> "c4", fsvar |-> FALSE, omode |-> "default", imode |-> ModeDefault, src |-> "stdin", api |-> "ctxbg", tag |-> 1] }
CfgNames == {c.name : c \in Cfgs}
CfgNamed(nm) == CHOOSE c \in Cfgs : c.name = nm
WithTag(cfg, n) == [cfg EXCEPT !.tag = n]

\* the standard input handed to a run: two records and one that names the run
TagField(cfg) == <<c_t>> \o IntStr(cfg.tag)
StdinOf(cfg) == CASE cfg.name = "c0" -> <<c_x, SP, c_y, LF, D5, SP, D6, LF>> \o TagField(cfg) \o <<SP, D9, LF>>
                  [] cfg.name = "c1" -> <<c_p, COLON, c_q, LF, D7, COLON, D8, LF>> \o TagField(cfg) \o <<COLON, D9, LF>>
                  [] cfg.name = "c2" -> <<c_x, COMMA, c_y, LF, D5, COMMA, D6, LF>> \o TagField(cfg) \o <<COMMA, D9, LF>>
                  [] cfg.name = "c3" -> <<c_x, SP, c_y, LF, D7, SP, D8, LF>> \o TagField(cfg) \o <<SP, D9, LF>>
                  [] cfg.name = "c4" -> <<c_x, SP, c_y, LF, D3, SP, D4, LF>> \o TagField(cfg) \o <<SP, D9, LF>>
InfContent == <<c_x, COLON, c_y, LF, D5, COLON, D6, LF>>   \* the file operand of c1
MainInput(cfg) == IF cfg.src = "file" THEN InfContent ELSE StdinOf(cfg)
InfName == <<c_i, c_n, c_f>>                      \* the harness substitutes the real path
RfContent == <<c_r, D1, LF, c_r, D2, LF, c_r, D3, LF>>
WfWritten == <<80, LF>>                          \* "P\n"
StaleContent == <<c_s, c_t, c_a, c_l, c_e, LF>>   \* what a file holds when a write went to a dead stream

Kinds == {"plain", "setglob", "setfs", "csvhdr", "setmodes", "openout", "exit3", "errfunc", "errforin", "cancel",
          "rand", "srand5", "midfile", "match", "p_io", "p_func",
          "gl_plain", "gl_dash", "gl_dashvar",              \* standard input through getline / getline < "-" / getline var < "-"
          "exit_enderr", "exitbegin", "exit_endcancel",     \* exit N outside END, then END fails
          "sys", "pipe"}                                    \* a command is started: system(), cmd | getline
\* kinds that cancel their own call: they need a context that can be cancelled whatever the configuration says
CancelKinds == {"cancel", "exit_endcancel"}
Errors == {"error", "canceled", "deadline"}
ApiOf(kind, cfg) == IF kind \in CancelKinds /\ cfg.api \in {"exec", "ctxbg"} THEN "ctx" ELSE cfg.api
\* how a run that makes its own context done ends: context.Canceled, or DeadlineExceeded for a deadline context
OwnCtxErr(kind, cfg) == IF ApiOf(kind, cfg) = "ctxdl" THEN "deadline" ELSE "canceled"
\* a context that is done governs the interpreter (never at the start of a run under ExecSpec)
Governed(st) == st.pr.ctx.check /\ st.pr.ctx.done # "no"
\* a run-time error: executeAll reports the context's error in its place when the governing context is done
ErrStop(st) == IF Governed(st) THEN st.pr.ctx.done ELSE "error"

\* --------------------------------------------------------- reading records
Pieces(content, sep) ==
  IF content = <<>> THEN <<>>
  ELSE LET p == SplitLit(content, sep)
       IN IF p[Len(p)] = <<>> THEN SubSeq(p, 1, Len(p) - 1) ELSE p

FieldsOf(line, fs) ==
  IF fs = <<SP>> THEN SplitBlanks(line) ELSE IF line = <<>> THEN <<>> ELSE SplitLit(line, fs)

\* a new scanner on `content` in the modes of st: header names it sets (or the old ones) and its records
Scan(st, content) ==
  LET im == st.pr.imode IN
  IF im.m = "default"
  THEN [hdr |-> st.pr.hdr,
        recs |-> LET ps == Pieces(content, st.vars.rs)
                 IN [j \in 1..Len(ps) |-> [line |-> ps[j], fields |-> FieldsOf(ps[j], st.vars.fs)]]]
  ELSE LET sep  == IF im.m = "csv" THEN <<COMMA>> ELSE <<TAB>>
           rows == Pieces(content, <<LF>>)
           all  == [j \in 1..Len(rows) |-> [line |-> rows[j], fields |-> SplitLit(rows[j], sep)]]
       IN IF im.hdr /\ Len(rows) > 0
          THEN [hdr |-> all[1].fields, recs |-> SubSeq(all, 2, Len(all))]
          ELSE [hdr |-> st.pr.hdr, recs |-> all]

\* @"name": <<found?, value>>; the last column of that name wins
FieldByName(st, fields, name) ==
  IF st.pr.hdr = <<>> THEN [err |-> TRUE, val |-> <<>>]
  ELSE LET P == {j \in 1..Len(st.pr.hdr) : st.pr.hdr[j] = name}
       IN IF P = {} THEN [err |-> FALSE, val |-> <<>>]
          ELSE LET k == Max(P) IN [err |-> FALSE, val |-> IF k <= Len(fields) THEN fields[k] ELSE <<>>]

\* leading decimal digits of a field as a number (the inputs hold nothing else numeric)
RECURSIVE LeadDigits(_, _, _)
LeadDigits(str, k, acc) ==
  IF k <= Len(str) /\ IsDigit(str[k]) THEN LeadDigits(str, k + 1, acc * 10 + (str[k] - 48)) ELSE acc
NumOf(str) == LeadDigits(str, SkipBlanks(str, 1), 0)

\* ----------------------------------------------------------------- output
Chunk(key, val) == [k |-> key, v |-> val, cmp |-> "eq"]
RawChunk(val)   == [k |-> "", v |-> val, cmp |-> "eq"]

\* print a, b  in the current output mode
PrintLine(st, flds) ==
  CASE st.pr.omode = "default" -> Join(flds, st.vars.ofs) \o st.vars.ors
    [] st.pr.omode = "csv"     -> CsvEncode(flds, <<COMMA>>) \o <<LF>>
    [] st.pr.omode = "tsv"     -> CsvEncode(flds, <<TAB>>) \o <<LF>>

\* what function fp() of the program prints in BEGIN
Fingerprint(st) ==
  << Chunk("g", st.vars.g), Chunk("ak", st.vars.ak),
     Chunk("FS", st.vars.fs), Chunk("RS", st.vars.rs), Chunk("OFS", st.vars.ofs), Chunk("ORS", st.vars.ors),
     Chunk("CONVFMT", st.vars.convfmt), Chunk("OFMT", st.vars.ofmt), Chunk("SUBSEP", st.vars.subsep),
     Chunk("cv", FmtNum(st.vars.convfmt)),
     Chunk("ss", <<D1>> \o st.vars.subsep \o <<D2>>),
     Chunk("NR", IntStr(st.pr.nr)), Chunk("FNR", IntStr(st.pr.fnr)), Chunk("NF", IntStr(st.pr.nf)),
     Chunk("line", st.pr.line), Chunk("FILENAME", st.pr.filename),
     Chunk("RSTART", IntStr(st.pr.rstart)), Chunk("RLENGTH", IntStr(st.pr.rlength)),
     Chunk("INPUTMODE", ImodeText(st.pr.imode)), Chunk("OUTPUTMODE", OmodeText(st.pr.omode)),
     \* rand(): the statement fixes its value only relative to a fresh interpreter
     [k |-> "rand", v |-> <<>>, cmp |-> IF st.rnd = RndInit THEN "fresh" ELSE "any"],
     RawChunk(PrintLine(st, <<FmtNum(st.vars.ofmt), <<c_q>>>>)) >>

\* ------------------------------------------------------------- one run
\* The run proceeds through phases (BEGIN, main loop, END); a phase result is
\* [st, out, stop] with stop in {"", "exit"} \cup Errors.

\* getline ln < name  on a file with the given content, not read before in this run
GetlineFile(st, name, content) ==
  IF name \in st.pr.ins
  THEN [st |-> st, ret |-> 0 - 1, val |-> <<>>]                      \* a dead stream left in the map
  ELSE LET sc == Scan(st, content)
       IN [st  |-> [st EXCEPT !.pr.hdr = sc.hdr, !.pr.ins = @ \cup {name}],
           ret |-> IF sc.recs = <<>> THEN 0 ELSE 1,
           val |-> IF sc.recs = <<>> THEN <<>> ELSE sc.recs[1].line]

\* The main input is opened (by the main loop or by a plain getline, whichever comes first): the state
\* afterwards and the records the scanner will yield.  A scanner left over from an earlier run would be
\* read instead (it is at EOF or dead); standard input that another scanner of this run has read to its
\* end yields nothing more.
OpenMain(st, cfg) ==
  LET noNew == st.pr.scanner \/ st.pr.mainEof
      sc    == IF noNew \/ (cfg.src = "stdin" /\ st.pr.stdinUsed)
               THEN [hdr |-> st.pr.hdr, recs |-> <<>>] ELSE Scan(st, MainInput(cfg))
  IN [st |-> [st EXCEPT !.pr.hdr = sc.hdr,
                        !.pr.filename = IF noNew THEN @ ELSE IF cfg.src = "file" THEN InfName ELSE <<MINUS>>,
                        !.pr.fnr = IF noNew THEN @ ELSE 0,
                        !.pr.stdinUsed = @ \/ (cfg.src = "stdin" /\ ~noNew)],
      recs |-> sc.recs]

\* getline < "-" / getline var < "-": the scanner named "-" is created on the run's standard input at the
\* first call and keeps what it has not yet handed out
NoRec == [line |-> <<>>, fields |-> <<>>]
GetlineDash(st, cfg) ==
  LET d  == st.pr.dash
      op == IF d.open THEN [st |-> st, rest |-> d.rest]
            ELSE LET sc == IF st.pr.stdinUsed THEN [hdr |-> st.pr.hdr, recs |-> <<>>] ELSE Scan(st, StdinOf(cfg))
                 IN [st |-> [st EXCEPT !.pr.hdr = sc.hdr, !.pr.stdinUsed = TRUE], rest |-> sc.recs]
  IN IF op.rest = <<>>
     THEN [st |-> [op.st EXCEPT !.pr.dash = [open |-> TRUE, rest |-> <<>>]], ret |-> 0, rec |-> NoRec]
     ELSE [st |-> [op.st EXCEPT !.pr.dash = [open |-> TRUE, rest |-> Tail(op.rest)]], ret |-> 1, rec |-> Head(op.rest)]

\* while ((getline < "-") > 0) emit("gd", $0)
RECURSIVE DashAll(_, _, _)
DashAll(st, cfg, out) ==
  LET gd == GetlineDash(st, cfg)
  IN IF gd.ret = 0 THEN [st |-> gd.st, out |-> out]
     ELSE DashAll([gd.st EXCEPT !.pr.line = gd.rec.line, !.pr.nf = Len(gd.rec.fields)], cfg,
                  Append(out, Chunk("gd", gd.rec.line)))

\* while ((getline) > 0) emit("gl", $0)   on the records of the main input
RECURSIVE PlainAll(_, _, _, _)
PlainAll(st, recs, j, out) ==
  IF j > Len(recs) THEN [st |-> [st EXCEPT !.pr.scanner = FALSE, !.pr.mainEof = TRUE], out |-> out]
  ELSE PlainAll([st EXCEPT !.pr.line = recs[j].line, !.pr.nf = Len(recs[j].fields), !.pr.nr = @ + 1, !.pr.fnr = @ + 1,
                           !.pr.scanner = TRUE],
                recs, j + 1, Append(out, Chunk("gl", recs[j].line)))

BeginPhase(st0, kind, cfg) ==
  LET fp == Fingerprint(st0)
      st == [st0 EXCEPT !.rnd.idx = @ + 1]
  IN CASE kind = "setfs" ->
            [st |-> [st EXCEPT !.vars.fs = <<COMMA>>, !.vars.rs = <<SEMI>>, !.vars.ofs = <<MINUS>>,
                               !.vars.ors = <<BANG, LF>>, !.vars.convfmt = Fmt2, !.vars.ofmt = Fmt3,
                               !.vars.subsep = <<COLON>>],
             out |-> fp, stop |-> ""]
       [] kind = "csvhdr" ->
            [st |-> [st EXCEPT !.pr.imode = [m |-> "csv", hdr |-> TRUE]], out |-> fp, stop |-> ""]
       [] kind = "setmodes" ->
            [st |-> [st EXCEPT !.pr.imode = [m |-> "tsv", hdr |-> FALSE], !.pr.omode = "csv"], out |-> fp, stop |-> ""]
       [] kind = "rand" ->
            [st |-> [st EXCEPT !.rnd.idx = @ + 2], out |-> fp, stop |-> ""]
       [] kind = "srand5" ->
            [st |-> [st EXCEPT !.rnd = [seed |-> 5, idx |-> 1]], out |-> fp, stop |-> ""]
       [] kind = "midfile" ->
            LET gl == GetlineFile(st, "rf", RfContent)
            IN [st |-> gl.st, out |-> fp \o <<Chunk("midret", IntStr(gl.ret)), Chunk("mid", gl.val)>>, stop |-> ""]
       [] kind = "match" ->
            [st |-> [st EXCEPT !.pr.rstart = 3, !.pr.rlength = 3], out |-> fp, stop |-> ""]
       [] kind = "p_io" ->
            \* printf "P\n" > wf; close(wf); read wf back to the end; close(wf); getline ln < rf
            LET dead    == "wf" \in st.pr.outs
                content == IF dead THEN StaleContent ELSE WfWritten
                s1      == [st EXCEPT !.pr.outs = @ \ {"wf"}]
                sc      == Scan(s1, content)
                s2      == [s1 EXCEPT !.pr.hdr = sc.hdr]
                gl      == GetlineFile(s2, "rf", RfContent)
            IN [st |-> gl.st,
                out |-> fp \o <<Chunk("wclose", <<D0>>)>>
                           \o [j \in 1..Len(sc.recs) |-> Chunk("wline", sc.recs[j].line)]
                           \o <<Chunk("rret", IntStr(gl.ret)), Chunk("rline", gl.val)>>,
                stop |-> ""]
       [] kind = "p_func" ->
            \* fact(5), a for-in sum, boom(1), a 600-iteration loop (longer than one poll interval of the
            \* context: a done context that governs the interpreter ends the run there), match("zzab", /ab/)
            LET pre == fp \o <<Chunk("fact", <<D1, D2, D0>>), Chunk("forin", <<D3>>), Chunk("boom", <<D1>>)>>
            IN IF Governed(st) THEN [st |-> st, out |-> pre, stop |-> st.pr.ctx.done]
               ELSE [st |-> [st EXCEPT !.pr.rstart = 3, !.pr.rlength = 2],
                     out |-> pre \o <<Chunk("loop", <<D6, D0, D0>>), Chunk("rstart", <<D3>>)>>,
                     stop |-> ""]
       [] kind = "gl_plain" ->
            LET om == OpenMain(st, cfg)
                rd == PlainAll(om.st, om.recs, 1, fp)
            IN [st |-> rd.st, out |-> rd.out, stop |-> ""]
       [] kind = "gl_dash" ->
            LET rd == DashAll(st, cfg, fp)
            IN [st |-> rd.st, out |-> rd.out, stop |-> ""]
       [] kind = "exitbegin" ->
            [st |-> [st EXCEPT !.pr.status = 6], out |-> fp, stop |-> "exit"]
       [] OTHER -> [st |-> st, out |-> fp, stop |-> ""]

\* the rules of the main loop applied to record number j of recs
RECURSIVE MainFrom(_, _, _, _, _, _, _)
MainFrom(st, kind, cfg, recs, j, out, acc) ==       \* acc: running sum of $1 (p_func)
  IF j > Len(recs) THEN [st |-> [st EXCEPT !.pr.scanner = FALSE], out |-> out, stop |-> "", acc |-> acc]
  ELSE
    LET rc  == recs[j]
        f1  == IF Len(rc.fields) >= 1 THEN rc.fields[1] ELSE <<>>
        s1  == [st EXCEPT !.pr.line = rc.line, !.pr.nf = Len(rc.fields), !.pr.nr = @ + 1, !.pr.fnr = @ + 1,
                          !.pr.scanner = TRUE]
        o1  == Append(out, Chunk("rec", IntStr(s1.pr.nr) \o <<SLASH>> \o IntStr(s1.pr.nf) \o <<SLASH>> \o f1))
    IN CASE kind = "setglob" ->
              MainFrom([s1 EXCEPT !.vars.g = <<c_g>> \o IntStr(s1.pr.nr), !.vars.ak = <<c_a>> \o IntStr(s1.pr.nr)],
                       kind, cfg, recs, j + 1, o1, acc)
         [] kind \in {"csvhdr", "p_io"} ->
              LET fb == FieldByName(s1, rc.fields, <<c_x>>)
              IN IF fb.err THEN [st |-> s1, out |-> o1, stop |-> ErrStop(s1), acc |-> acc]
                 ELSE MainFrom(s1, kind, cfg, recs, j + 1, Append(o1, Chunk("x", fb.val)), acc)
         [] kind = "openout" ->
              MainFrom([s1 EXCEPT !.pr.outs = @ \cup {"wf"}], kind, cfg, recs, j + 1, o1, acc)
         [] kind \in {"exit3", "exit_enderr", "exit_endcancel"} ->
              [st |-> [s1 EXCEPT !.pr.status = CASE kind = "exit3" -> 3 [] kind = "exit_enderr" -> 4 [] OTHER -> 5],
               out |-> o1, stop |-> "exit", acc |-> acc]
         [] kind \in {"errfunc", "errforin"} ->
              [st |-> [s1 EXCEPT !.pr.sp = 1], out |-> o1, stop |-> ErrStop(s1), acc |-> acc]
         [] kind = "cancel" ->
              [st |-> [s1 EXCEPT !.pr.sp = 1], out |-> o1, stop |-> OwnCtxErr(kind, cfg), acc |-> acc]
         [] kind = "p_func" ->
              MainFrom(s1, kind, cfg, recs, j + 1, o1, acc + NumOf(f1))
         [] OTHER -> MainFrom(s1, kind, cfg, recs, j + 1, o1, acc)

\* the END block (runs after a normal main loop and after exit outside END)
EndPhase(st, kind, cfg, out0, acc) ==
  LET o1 == Append(out0, Chunk("endNR", IntStr(st.pr.nr)))
  IN CASE kind = "p_func" ->             \* emit("sum", s); exit       (a bare exit leaves the status alone)
            [st |-> st, out |-> Append(o1, Chunk("sum", IntStr(acc))), stop |-> "exit"]
       [] kind = "gl_dashvar" ->         \* ln = ""; r = (getline ln < "-")
            LET gd == GetlineDash(st, cfg)
            IN [st |-> gd.st, out |-> o1 \o <<Chunk("gvr", IntStr(gd.ret)), Chunk("gv", gd.rec.line)>>, stop |-> ""]
       [] kind = "sys" ->                \* r = system("exit 3")       (a command started under a done context fails)
            IF Governed(st) THEN [st |-> st, out |-> o1, stop |-> st.pr.ctx.done]
            ELSE [st |-> st, out |-> Append(o1, Chunk("sysrc", <<D3>>)), stop |-> ""]
       [] kind = "pipe" ->               \* ln = ""; r = ("echo hi" | getline ln); emit("pipe", r ":" ln); close("echo hi")
            \* (the command's output is read by a scanner in the current input mode: with a CSV header the one row is the header)
            IF Governed(st) THEN [st |-> st, out |-> o1, stop |-> st.pr.ctx.done]
            ELSE LET sc == Scan(st, <<c_h, c_i, LF>>)
                     rt == IF sc.recs = <<>> THEN 0 ELSE 1
                     vl == IF sc.recs = <<>> THEN <<>> ELSE sc.recs[1].line
                 IN [st |-> [st EXCEPT !.pr.hdr = sc.hdr],
                     out |-> Append(o1, Chunk("pipe", IntStr(rt) \o <<COLON>> \o vl)), stop |-> ""]
       [] kind \in {"exit_enderr", "exitbegin"} ->      \* z = 1 / (NR - NR)
            [st |-> st, out |-> o1, stop |-> ErrStop(st)]
       [] kind = "exit_endcancel" ->     \* j = 0; while (1) spin(j++)      spin(7) cancels the run's own context
            [st |-> [st EXCEPT !.pr.sp = 1], out |-> o1, stop |-> OwnCtxErr(kind, cfg)]
       [] OTHER -> [st |-> st, out |-> o1, stop |-> ""]

\* Run the program in mode `kind` from state st (already prepared for the run: see ExecSpec / ExecCode).
\* When the call has returned, the context it was given (if any) is cancelled / expires.
Run(st, kind, cfg) ==
  LET bp == BeginPhase(st, kind, cfg)
      mp == IF bp.stop # "" THEN [st |-> bp.st, out |-> bp.out, stop |-> bp.stop, acc |-> 0]    \* exit in BEGIN: no input is read
            ELSE LET om == OpenMain(bp.st, cfg) IN MainFrom(om.st, kind, cfg, om.recs, 1, bp.out, 0)
      ep == IF mp.stop \in Errors THEN [st |-> mp.st, out |-> mp.out, stop |-> mp.stop]
            ELSE EndPhase(mp.st, kind, cfg, mp.out, mp.acc)
      failed == ep.stop \in Errors
      cx == ep.st.pr.ctx
  IN [st  |-> [ep.st EXCEPT !.pr.ctx.done = IF cx.check /\ cx.done = "no"        \* the context of this very call
                                            THEN (IF ApiOf(kind, cfg) = "ctxdl" THEN "deadline" ELSE "canceled")
                                            ELSE @],
      res |-> [out |-> ep.out,
               status |-> IF failed THEN 0 ELSE ep.st.pr.status,
               err |-> IF failed THEN ep.stop ELSE "none"]]

\* ------------------------------------------------- start of a run, two ways
\* what setExecuteConfig and Execute / ExecuteContext overwrite on every run (unsetsCtx: a call without a
\* context of its own -- Execute, ExecuteContext(Background) -- switches the checking of the previous call's off)
ApplyCfg(st, kind, cfg, unsetsCtx) ==
  [st EXCEPT !.pr.imode = cfg.imode, !.pr.omode = cfg.omode,
             !.pr.argc = IF cfg.src = "file" THEN 2 ELSE 1,
             !.pr.stdinUsed = FALSE, !.pr.mainEof = FALSE,
             !.pr.ctx = IF ApiOf(kind, cfg) \in {"ctx", "ctxdl"} THEN [check |-> TRUE, done |-> "no"]
                        ELSE IF unsetsCtx THEN [check |-> FALSE, done |-> "no"] ELSE @,
             !.vars.fs = IF cfg.fsvar THEN <<COLON>> ELSE @]

\* The property: nothing of the per-run state carries over.
ExecSpec(st, kind, cfg) == Run(ApplyCfg([st EXCEPT !.pr = PrInit], kind, cfg, TRUE), kind, cfg)

\* The code: resetCore clears the named fields (the record state is one group, as are the streams);
\* after the run closeAll closes all streams (they stay in the maps, dead).  "dash": the scanners map
\* (the scanner of getline < "-" has no stream of its own); "ctx": Execute and
\* ExecuteContext(Background) set checkCtx to false (ExecuteContext with a real context installs it in any case).
CoreFields == {"scanner", "ins", "outs", "sp", "record", "match", "status", "hdr", "argc", "dash", "ctx"}
ResetCore(pr, clears) ==
  [pr EXCEPT !.scanner = IF "scanner" \in clears THEN FALSE ELSE @,
             !.ins     = IF "ins" \in clears THEN {} ELSE @,
             !.outs    = IF "outs" \in clears THEN {} ELSE @,
             !.sp      = IF "sp" \in clears THEN 0 ELSE @,
             !.line    = IF "record" \in clears THEN <<>> ELSE @,
             !.nf      = IF "record" \in clears THEN 0 ELSE @,
             !.nr      = IF "record" \in clears THEN 0 ELSE @,
             !.fnr     = IF "record" \in clears THEN 0 ELSE @,
             !.filename = IF "record" \in clears THEN <<>> ELSE @,
             !.rstart  = IF "match" \in clears THEN 0 ELSE @,
             !.rlength = IF "match" \in clears THEN 0 ELSE @,
             !.status  = IF "status" \in clears THEN 0 ELSE @,
             !.hdr     = IF "hdr" \in clears THEN <<>> ELSE @,
             !.argc    = IF "argc" \in clears THEN 0 ELSE @,
             !.dash    = IF "dash" \in clears THEN [open |-> FALSE, rest |-> <<>>] ELSE @]
ExecCode(st, kind, cfg, clears) ==
  Run(ApplyCfg([st EXCEPT !.pr = ResetCore(@, clears)], kind, cfg, "ctx" \in clears), kind, cfg)

ResetVarsOp(st) == [st EXCEPT !.vars = VarsInit]
ResetRandOp(st) == [st EXCEPT !.rnd = RndInit]

\* reset variants applied before a run
Variants == {"none", "vars", "rand", "both"}
ApplyVariant(st, vr) ==
  CASE vr = "none" -> st
    [] vr = "vars" -> ResetVarsOp(st)
    [] vr = "rand" -> ResetRandOp(st)
    [] vr = "both" -> ResetRandOp(ResetVarsOp(st))
=============================================================================
