------------------------------ MODULE Gen_Cover ------------------------------
(* Behaviour export for C18: programs of the C01 families (control flow, calls, *)
(* patterns, misc) plus coverage-specific shapes (empty bodies, else-if chains, *)
(* early exits from blocks) are labelled, evaluated with the reference          *)
(* semantics (which counts statement starts), and exported with the predicted   *)
(* output, exit status and block profile.  TLC checks on the model that the     *)
(* blocks partition the statements and that labelling does not change the       *)
(* program's meaning.                                                           *)
EXTENDS AwkFamilies, Cover, Json

CoverShapes ==
  {[fam |-> "covershape", mech |-> "cover/" \o nm, prog |-> pg, variants |-> <<>>, input |-> inp] : <<nm, pg, inp>> \in {
    <<"empty-action", Prog(<<>>, <<Rule(NoE, <<>>)>>, <<>>, <<>>), << <<c_a>>, <<c_b>> >> >>,
    <<"empty-action/with-other-rules", Prog(<<T1(<<c_b>>)>>, <<Rule(Bin("==", V("NR"), N(1)), <<>>), Rule(NoE, <<SPrint(<<V("NR")>>)>>)>>, <<T1(<<c_e>>)>>, <<>>), << <<c_a>>, <<c_b>> >> >>,
    <<"empty-begin-and-end", Prog(<<>>, <<Rule(NoE, <<SPrint(<<V("NR")>>)>>)>>, <<>>, <<>>), << <<c_a>> >> >>,
    <<"pattern-only", Prog(<<>>, <<RuleNoBody(Bin("==", V("NR"), N(2))), Rule(NoE, <<SExpr(Inc("++", FALSE, V("n")))>>)>>, <<SPrint(<<V("n")>>)>>, <<>>), << <<c_a>>, <<c_b>>, <<c_c>> >> >>,
    <<"all-sections-and-functions",
      Prog(<<T1(<<c_b>>), SExpr(Asg(V("n"), Call("f", <<N(2)>>)))>>,
           <<Rule(NoE, <<SExpr(Aug("+", V("n"), Call("g", <<V("NR")>>)))>>), Rule(Bin("==", V("NR"), N(2)), <<T1(<<c_r>>), SExpr(Call("f", <<N(1)>>))>>)>>,
           <<SPrint(<<V("n")>>)>>,
           <<Func("f", <<Param("p")>>, <<SWhile(Bin(">", V("p"), N(0)), <<SExpr(Inc("--", FALSE, V("p"))), SExpr(Inc("++", FALSE, V("c")))>>), SRet(V("c"))>>),
             Func("g", <<Param("p")>>, <<SIf(Bin("==", V("p"), N(1)), <<SRet(N(10))>>, <<>>), SRet(N(1))>>)>>),
      << <<c_a>>, <<c_b>>, <<c_c>> >> >>,
    <<"empty-function", Prog(<<SExpr(Call("f", <<>>)), T1(<<c_x>>)>>, <<>>, <<>>, <<Func("f", <<>>, <<>>)>>), <<>> >>,
    <<"else-if-chain",
      Prog(<<>>, <<Rule(NoE, <<SIf(Bin("==", V("NR"), N(1)), <<T1(<<D1>>)>>,
                                   <<SIf(Bin("==", V("NR"), N(2)), <<T1(<<D2>>), T1(<<D2>>)>>, <<SIf(Bin("==", V("NR"), N(3)), <<>>, <<T1(<<D4>>)>>)>>)>>),
                                SPrint(<<V("NR")>>)>>)>>, <<>>, <<>>), << <<c_a>>, <<c_b>>, <<c_c>>, <<c_d>> >> >>,
    <<"statements-after-control",
      BeginOnly(<<T1(<<c_a>>), T1(<<c_b>>), SIf(N(1), <<T1(<<c_c>>)>>, <<>>), T1(<<c_d>>), SWhile(Bin("<", Inc("++", FALSE, V("i")), N(2)), <<T1(<<c_w>>), T1(<<c_w>>)>>),
                  SBlock(<<T1(<<c_k>>)>>), T1(<<c_z>>), T1(<<c_z>>)>>), <<>> >>,
    <<"early-exits-from-blocks",
      Prog(<<>>, <<Rule(NoE, <<T1(<<c_a>>), SIf(Bin("==", V("NR"), N(2)), <<T1(<<c_n>>), SNext, T1(<<c_x>>)>>, <<>>), T1(<<c_b>>),
                                SFor(SExpr(Asg(V("i"), N(0))), Bin("<", V("i"), N(3)), SExpr(Inc("++", FALSE, V("i"))),
                                     <<SIf(Bin("==", V("i"), N(1)), <<SCont>>, <<>>), T1(<<c_f>>), SIf(Bin("==", V("NR"), N(3)), <<SBreak>>, <<>>), T1(<<c_g>>)>>),
                                SIf(Bin("==", V("NR"), N(3)), <<SExit(N(2))>>, <<>>), T1(<<c_z>>)>>)>>, <<T1(<<c_e>>)>>, <<>>),
      << <<c_a>>, <<c_b>>, <<c_c>>, <<c_d>> >> >>,
    \* a jump statement as the last (or only) statement of its block: the block still extends over it
    <<"jump-is-last-statement",
      Prog(<<>>, <<Rule(Re0(Lit(c_b)), <<SNext>>), Rule(Bin("==", V("NR"), N(3)), <<T1(<<c_n>>), SNextfile>>),
                   Rule(NoE, <<SIf(Bin("==", V("NR"), N(1)), <<SNext>>, <<T1(<<c_o>>), SNext>>)>>), Rule(NoE, <<T1(<<c_x>>)>>)>>,
           <<T1(<<c_e>>), SIf(Bin(">", V("NR"), N(0)), <<SExit(N(3))>>, <<>>)>>, <<>>),
      << <<c_a>>, <<c_b>>, <<c_c>>, <<c_d>> >> >>,
    <<"do-while-and-forin",
      BeginOnly(<<SExpr(Bi("split", <<S(<<c_a, SP, c_b, SP, c_c>>), V("r")>>)), SDo(<<SExpr(Inc("++", FALSE, V("i"))), T1(<<c_d>>)>>, Bin("<", V("i"), N(3))),
                  SForIn("q", "r", <<SExpr(Inc("++", FALSE, V("n"))), SIf(Bin(">=", V("n"), N(2)), <<SBreak>>, <<>>)>>), SPrint(<<V("n")>>)>>), <<>> >>,
    <<"return-leaves-block",
      Prog(<<SPrint(<<Call("f", <<N(1)>>), Call("f", <<N(0)>>)>>)>>, <<>>, <<>>,
           <<Func("f", <<Param("p")>>, <<T1(<<c_f>>), SIf(V("p"), <<SRet(N(7)), T1(<<c_x>>)>>, <<T1(<<c_g>>)>>), T1(<<c_h>>), SRet(N(8))>>)>>), <<>> >>
  }}

CoverCases == CoverShapes \cup UNION {Cases(fm) : fm \in Families}

VARIABLES cs, done
vars == <<cs, done>>
Init == cs \in CoverCases /\ done = FALSE

Next ==
  /\ ~done /\ done' = TRUE /\ cs' = cs
  /\ LET lp == Label(cs.prog)
         fin == Run(lp, cs.input)
         o == Outcome(fin)
     IN /\ Assert(PartitionOK(lp), <<"MODEL DEFECT: blocks do not partition the statements", cs.mech>>)
        /\ Assert(\A old \in {NoFile, [ex |-> TRUE, lines |-> <<"mode: count", "x", "y", "z", "w">>]} :
                     ProfileFileLaws("count", <<"b1", "b2">>, old), "MODEL DEFECT: profile file laws")
        /\ Assert(o.bad \/ Outcome(Run(cs.prog, cs.input)) = o, <<"MODEL DEFECT: labelling changed the meaning", cs.mech>>)
        /\ (~o.bad) => PrintT(ToJson([fam |-> cs.fam, mech |-> cs.mech, prog |-> lp, input |-> cs.input,
                                      expect |-> [out |-> o.out, status |-> o.status, err |-> o.err],
                                      profile |-> Profile(lp, fin), total |-> TotalStmts(lp),
                                      \* histories of runs on one profile path (TRUE = -coverappend), starting from
                                      \* no file and from a longer stale file; the harness fills in the block lines
                                      filehist |-> << <<FALSE, FALSE>>, <<FALSE, TRUE>>, <<TRUE, TRUE>>, <<TRUE, FALSE>> >>]))
Spec == Init /\ [][Next]_vars
=============================================================================
