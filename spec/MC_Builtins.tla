---------------------------- MODULE MC_Builtins ----------------------------
(* Exhaustive check of the equations property C10 states, on the            *)
(* specification itself: a byte-mode machine and a character-mode machine   *)
(* execute the same history of builtin calls (BuiltinsMenu) from the same   *)
(* subject; the invariants relate the results of one call to the other      *)
(* builtins (match vs substr, split vs join, sub vs gsub, int vs identity)  *)
(* and the two modes to each other.                                         *)
EXTENDS BuiltinsMenu, TLC

CONSTANT Depth

NoCall == [op |-> "none"]

VARIABLES s0,          \* the subject the history started from
          stB, stC,    \* state of the byte-mode / character-mode machine
          prevB, prevC, \* their states before the last call
          last,        \* the last call
          steps
vars == <<s0, stB, stC, prevB, prevC, last, steps>>
prevT == prevB.t       \* the target before the last call (the same in both machines)

Init ==
  /\ s0 \in Subjects
  /\ stB = StInit(s0) /\ stC = StInit(s0) /\ prevB = StInit(s0) /\ prevC = StInit(s0)
  /\ last = NoCall /\ steps = 0

Step(call) ==
  /\ steps < Depth
  /\ steps >= 1 => Extendable(last, s0)
  /\ Enabled(stB, call) /\ Enabled(stC, call)
  /\ stB' = Apply(stB, call, "bytes")
  /\ stC' = Apply(stC, call, "chars")
  /\ prevB' = stB /\ prevC' = stC
  /\ last' = call
  /\ steps' = steps + 1
  /\ UNCHANGED s0

Next == \E call \in (IF steps = 0 THEN Menu(stB) ELSE Menu2(stB)) : Step(call)
Spec == Init /\ [][Next]_vars

Both(P(_, _)) == P(stB, "bytes") /\ P(stC, "chars")
IsAscii(str) == \A j \in 1..Len(str) : str[j] < 128
Abs(m) == IF m < 0 THEN 0 - m ELSE m

\* regular expressions work on characters, so both machines hold the same target
SameTarget == stB.t = stC.t /\ stB.arr = stC.arr /\ stB.matched = stC.matched /\ prevB.t = prevC.t

\* substr(s, RSTART, RLENGTH) is the leftmost-longest match; 0 and -1 when none
MatchLaw ==
  last.op = "match" =>
    LET bd == Bounds(prevT)
        Can(b) == Ends(last.r, prevT, b) \cap bd      \* where a match starting at b can end
        L(st, mode) ==
          IF \A b \in bd : Can(b) = {}
          THEN st.rstart = 0 /\ st.rlength = 0 - 1
          ELSE /\ st.rstart >= 1 /\ st.rlength >= 0
               /\ st.ret = IntStr(st.rstart)
               /\ LET mt == Substr(prevT, IntN(st.rstart), IntN(st.rlength), mode)
                      b0 == CHOOSE b \in bd : UnitPos(prevT, b, mode) = st.rstart
                  IN /\ b0 + Len(mt) \in Can(b0)                          \* it is a match
                     /\ \A b \in bd : b < b0 => Can(b) = {}              \* leftmost
                     /\ \A e \in Can(b0) : e <= b0 + Len(mt)             \* longest
                     /\ mt = SubSeq(prevT, b0, b0 + Len(mt) - 1)
    IN Both(L)

\* index: the first occurrence, in units of the mode
IndexLaw ==
  last.op = "index" =>
    LET L(st, mode) ==
          LET pos == CHOOSE q \in 0..(Len(prevT) + 1) : IntStr(q) = st.ret
              np  == IntN(Length(last.pat, mode))
          IN IF pos = 0 THEN FirstOcc(prevT, last.pat, 1) = 0
             ELSE /\ Substr(prevT, IntN(pos), np, mode) = last.pat
                  /\ \A q \in 1..(pos - 1) : Substr(prevT, IntN(q), np, mode) # last.pat
    IN Both(L)

\* split on a single character: the pieces joined by it give the string back,
\* and no piece contains it
SplitLaw ==
  (last.op = "split" /\ last.sep.k = "char") =>
    /\ Join(stB.arr, last.sep.c) = prevT
    /\ \A j \in 1..Len(stB.arr) : FirstOcc(stB.arr[j], last.sep.c, 1) = 0
    /\ stB.ret = IntStr(Len(stB.arr))

\* gsub(r, "&", t) leaves t unchanged and counts the non-overlapping
\* leftmost-longest matches: for every regex of the menu on every subject, and
\* for the regex just used on the target a sub/gsub produced
GsubAmp(r, str) ==
  LET g  == Gsub(r, <<AMP>>, str)
      ms == FindAllC(r, str)
  IN /\ g.out = str
     /\ g.n = Len(ms)
     /\ \A j \in 1..Len(ms) :
          /\ ms[j][1] <= ms[j][2]
          /\ j > 1 => /\ ms[j][1] >= ms[j - 1][2]                       \* non-overlapping, in order
                      /\ ~(ms[j][1] = ms[j][2] /\ ms[j][1] = ms[j - 1][2])
          /\ ms[j] = FindC(r, str, ms[j][1])                            \* each leftmost-longest where it starts
     /\ (ms # <<>>) => ms[1] = FindC(r, str, 1)
     /\ (ms = <<>>) => FindC(r, str, 1)[1] = 0
GsubAmpLaw ==
  /\ steps = 0 => \A r \in Regexes : GsubAmp(r, stB.t)
  /\ last.op \in {"sub", "gsub"} => GsubAmp(last.r, stB.t)
  /\ (last.op = "gsub" /\ last.repl = <<AMP>>) => stB.t = prevT /\ stB.ret = IntStr(Len(FindAllC(last.r, prevT)))

\* sub performs exactly the first of gsub's replacements
SubLaw ==
  last.op = "sub" =>
    LET ms    == FindAllC(last.r, prevT)
        first == IF ms = <<>> THEN <<>> ELSE <<ms[1]>>
    IN /\ stB.t = ReplFrom(prevT, first, 1, 1, last.repl)
       /\ stB.ret = IntStr(Len(first))

\* & is the match, \& a literal ampersand
AmpLaw ==
  last.op \in {"sub", "gsub"} =>
    LET m == FindC(last.r, prevT, 1)
    IN m[1] # 0 =>
         /\ Expand(<<AMP>>, Matched(prevT, m)) = Matched(prevT, m)
         /\ Expand(<<BSL, AMP>>, Matched(prevT, m)) = <<AMP>>
         /\ (last.repl = <<BSL, AMP>> /\ last.op = "sub") =>
               stB.t = SubSeq(prevT, 1, m[1] - 1) \o <<AMP>> \o SubSeq(prevT, m[2], Len(prevT))

\* character mode never cuts a character: what substr returns lies between two
\* character boundaries, and it has the number of characters asked for
NeverCuts ==
  last.op = "substr" =>
    /\ \E b \in Bounds(prevT) : \E e \in Bounds(prevT) : b <= e /\ stC.ret = SubSeq(prevT, b, e - 1)
    /\ \A x \in {Resolve(last.n, stC)} :
         (x.k = "fin" /\ TruncH(x.v) >= 0) => NumChars(stC.ret) <= TruncH(x.v)
    /\ Len(stB.ret) <= Len(prevT)

\* the statement of substr, case by case, on integers
SubstrLaw ==
  last.op = "substr" =>
    LET L(st, mode) ==
          LET x == Resolve(last.m, st)
              y == Resolve(last.n, st)
              u == Units(prevT, mode)
          IN /\ (y.k = "none" /\ x.k = "fin" /\ TruncH(x.v) <= 1) => st.ret = prevT
             /\ (y.k \in {"huge", "inf", "big", "bigh"} /\ y.v > 0) => st.ret = Substr(prevT, x, NoArg, mode)
             /\ (y.k \in {"huge", "inf", "big", "bigh"} /\ y.v < 0) => st.ret = <<>>
             /\ (y.k = "fin" /\ y.v < 0) => st.ret = <<>>
             /\ (x.k \in {"huge", "inf", "big", "bigh"} /\ x.v > 0) => st.ret = <<>>
             /\ (x.k \in {"huge", "inf", "big", "bigh"} /\ x.v < 0) => st.ret = Substr(prevT, IntN(1), y, mode)
             /\ (x.k = "fin" /\ y.k = "fin") =>                      \* fractions are truncated
                   st.ret = Substr(prevT, IntN(TruncH(x.v)), IntN(TruncH(y.v)), mode)
             /\ (x.k = "fin" /\ y.k = "fin" /\ TruncH(x.v) >= 1 /\ TruncH(y.v) >= 0) =>
                   st.ret = Concat(SubSeq(u, TruncH(x.v), Min({Len(u), TruncH(x.v) + TruncH(y.v) - 1})))
    IN Both(L)

\* on ASCII text byte mode and character mode agree
AsciiAgree == (IsAscii(prevT) /\ IsAscii(stB.t)) => Obs(stB) = Obs(stC)

\* int truncates toward zero and is the identity on integers of any magnitude
IntLaw ==
  last.op = "int" =>
    LET x == last.x
        y == IntOf(x)
    IN /\ IsIntegerN(y)
       /\ IsIntegerN(x) => y = x
       /\ x.k = "fin" => /\ y.k = "fin" /\ Abs(y.v) <= Abs(x.v) /\ Abs(x.v) - Abs(y.v) < 2
                         /\ (y.v # 0 => (y.v > 0) = (x.v > 0))
       /\ x.k = "bigh" => y = Num("big", x.v)
       /\ stB.ret = NumSrc(y)

\* length counts the units of the mode
LengthLaw ==
  last.op = "length" =>
    /\ stB.ret = IntStr(Len(prevT)) /\ stC.ret = IntStr(NumChars(prevT))
    /\ Length(prevT, "chars") <= Length(prevT, "bytes")

\* only sub/gsub change the target, only match changes RSTART/RLENGTH, only split the array
Frames ==
  LET F(st, pv) ==
        /\ (last.op \notin {"sub", "gsub", "set", "none"} => st.t = pv.t)
        /\ (last.op # "match" => st.rstart = pv.rstart /\ st.rlength = pv.rlength)
        /\ (last.op # "split" => st.arr = pv.arr)
  IN F(stB, prevB) /\ F(stC, prevC)
=============================================================================
