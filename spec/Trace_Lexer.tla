---------------------------- MODULE Trace_Lexer ----------------------------
(* Validates what the real lexer and parser reported for sources the        *)
(* harness chose (corpus programs, sources embedded in the repository's Go  *)
(* tests, mutated windows of both, a few sources near 32 KiB) against       *)
(* Lexer.tla.  The log is walked once; the state is the position machine    *)
(* of Lexer.tla (offset, current and next position), stepped with TokStep   *)
(* -- the operator MC_Lexer checks and Gen_Lexer exports from.              *)
(* Event shapes:                                                            *)
(*   {"ev":"reset"}                                  next source follows    *)
(*   {"ev":"src","src":[bytes],"rx":bool}            the source; rx: the    *)
(*        driver called ScanRegex after every / and /= token                *)
(*   {"ev":"step","k":kind class,"line":L,"col":C}   one Scan()/ScanRegex() *)
(*        result, kind in word number string newline op regex eof illegal   *)
(*   {"ev":"step","k":"parse-error","line":L,"col":C} ParseProgram returned *)
(*        a *ParseError; "parse-ok" / "parse-other-error": no position      *)
(*   {"ev":"step","k":"parse-panic"|"lex-panic",...} the call panicked      *)
(* A token event is explained when the specification's next token has the   *)
(* same kind class and the reported position is the tracked (= true)        *)
(* position of its first byte; an ILLEGAL or ParseError position when it    *)
(* exists in the source; a panic never.  A difference in kind class is a    *)
(* disagreement about tokenisation, reported as such and not judged.        *)
EXTENDS Lexer, TraceBase

\* si: index of the current source's "src" event in the log (0: none yet).  The source is read from
\* the log rather than kept in the state, which keeps TLC's per-state work independent of its size.
VARIABLES l, si, rx, ps, pend, fin
vars == <<l, si, rx, ps, pend, fin>>

src == IF si = 0 THEN <<>> ELSE Log[si].src

Fresh(s) == ps' = PsInit(s) /\ pend' = 0 /\ fin' = FALSE

Init == l = 1 /\ si = 0 /\ rx = FALSE /\ ps = PsInit(<<>>) /\ pend = 0 /\ fin = FALSE

TReset == l <= NLog /\ Log[l].ev = "reset" /\ l' = l + 1 /\ si' = 0 /\ Fresh(<<>>) /\ rx' = FALSE
TSrc   == l <= NLog /\ Log[l].ev = "src" /\ l' = l + 1 /\ si' = l /\ Fresh(Log[l].src) /\ rx' = Log[l].rx

Accept == l' = l + 1
Refuse(info) == /\ Reject(l, info)
                /\ l' = AfterNextReset(l)
                /\ si' = 0 /\ Fresh(<<>>) /\ rx' = FALSE

IsTokenEvent(ev) == ev.k \notin {"parse-ok", "parse-other-error", "parse-error", "parse-panic", "lex-panic"}

\* (ev and st are bound by \E over singleton sets so that TLC computes each of them once per step)
TStep ==
  /\ l <= NLog /\ Log[l].ev = "step"
  /\ \E ev \in {Log[l]} :
     \E st \in {IF IsTokenEvent(ev) /\ ~fin THEN TokStep(src, ps, pend) ELSE [stop |-> TRUE]} :
       IF ev.k \in {"parse-ok", "parse-other-error"}
       THEN Accept /\ UNCHANGED <<si, rx, ps, pend, fin>>
       ELSE IF ev.k = "parse-error"
       THEN IF ValidPos(src, ev.line, ev.col)
            THEN Accept /\ UNCHANGED <<si, rx, ps, pend, fin>>
            ELSE Refuse([kind |-> "parse-position", lines |-> Len(LineTable(src))])
       ELSE IF ev.k \in {"parse-panic", "lex-panic"}
       THEN Refuse([kind |-> ev.k])
       ELSE IF fin
       THEN Refuse([kind |-> "tokenisation", expected |-> "no token after EOF / ILLEGAL"])
       ELSE IF st.tok.k # ev.k
       THEN Refuse([kind |-> "tokenisation", expected |-> st.tok])
       ELSE IF st.tok.k = "illegal"
       THEN IF ValidPos(src, ev.line, ev.col)
            THEN Accept /\ fin' = TRUE /\ UNCHANGED <<si, rx, ps, pend>>
            ELSE Refuse([kind |-> "illegal-position", expected |-> st.tok])
       ELSE IF ev.line = st.tok.line /\ ev.col = st.tok.col
       THEN /\ Accept /\ ps' = st.ps /\ pend' = (IF rx THEN st.div ELSE 0) /\ fin' = st.stop
            /\ UNCHANGED <<si, rx>>
       ELSE Refuse([kind |-> "position", expected |-> st.tok])

TDone == l = NLog + 1 /\ PrintT("TRACE-END") /\ l' = l + 1 /\ UNCHANGED <<si, rx, ps, pend, fin>>

Next == TReset \/ TSrc \/ TStep \/ TDone
Spec == Init /\ [][Next]_vars
=============================================================================
