SPECIFICATION Spec
CONSTANTS
  Clears = {"scanner", "ins", "outs", "sp", "record", "match", "status", "hdr", "argc"}
  MaxDraws = 4
  JudgeKinds = {"plain", "p_io", "p_func"}
CONSTRAINT Bounded
INVARIANTS Refines FreshAfterReset OnlyVarsCarry ResetsAreExact
CHECK_DEADLOCK FALSE
