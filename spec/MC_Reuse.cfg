SPECIFICATION Spec
CONSTANTS
  Clears = {"scanner", "ins", "outs", "sp", "record", "match", "status", "hdr", "argc", "dash", "ctx", "range", "depth"}
  MaxDraws = 4
  JudgeKinds = {"plain", "p_io", "p_func", "gl_dash", "sys"}
  JudgeCfgs = {"c0", "c1", "c2"}
  McKinds = {"plain", "setglob", "setfs", "csvhdr", "setmodes", "openout", "exit3", "errfunc", "errforin", "cancel", "rand", "srand5", "midfile", "match", "p_io", "p_func", "gl_plain", "gl_dash", "gl_dashvar", "exit_enderr", "exitbegin", "exit_endcancel", "sys", "pipe", "nr_plain", "sr_first", "sr_only", "sr_time", "av_write", "av_del", "rg_close", "rg_eof", "rg_exit", "rg_err", "rg_cancel", "rg_next", "rg_nextfile", "rg_getline", "fmtc", "dp_ok", "dp_err", "dp_exit", "dp_cancel"}
  McCfgs = {"c0", "c1", "c2", "c3", "c4", "c5", "c6", "c7", "c8", "c9", "c10", "c11"}
  McTags = {1, 2}
CONSTRAINT Bounded
INVARIANTS Refines FreshAfterReset OnlyVarsCarry ResetsAreExact
CHECK_DEADLOCK FALSE
