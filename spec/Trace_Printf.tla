----------------------------- MODULE Trace_Printf -----------------------------
(* Validates sprintf calls recorded from the real interpreter (many calls in ONE *)
(* run, so that the memoised format translation is exercised) against Printf.tla.*)
(*   {"ev":"step","fmt":bytes,"args":[{"tag","s","n":{"t","neg","d","x"}}],     *)
(*    "chars":bool,"err":bool,"out":bytes,"k":call number}                        *)
(*   {"ev":"reset"}   a new interpreter / new trace                               *)
(* The specification has no state here -- that the cache is invisible is exactly  *)
(* what is checked: every call must be explained by Format alone.  A call whose   *)
(* result the specification does not pin down (Unmodelled) is accepted.           *)
EXTENDS PrintfCases, TraceBase

VARIABLES l
vars == <<l>>
Init == l = 1

ArgV(a) == IF a.tag = "num" THEN VNum(MkNum(a.n.neg, a.n.d, a.n.x)) ELSE VStr(a.s)
ArgsOf(ev) == [j \in 1..Len(ev.args) |-> ArgV(ev.args[j])]

Explains(ev, r) ==
  IF r.err THEN ev.err
  ELSE IF IsUnmStr(r.out) THEN TRUE
  ELSE ~ev.err /\ r.out = ev.out

\* the (single) directive of the format, for the failure signature
DirOf(fmt) == LET sc == Scan(fmt)
                  ds == IF sc.err THEN <<>> ELSE SelectSeq(sc.items, LAMBDA it : it.k = "dir")
              IN IF Len(ds) = 1 THEN ds[1].d ELSE EmptyDir
PNumJ(n) == [t |-> n.t, neg |-> n.neg, d |-> n.d, x |-> n.x]
Info(ev, r) ==
  LET d == DirOf(ev.fmt)
      args == ArgsOf(ev)
      v == IF args = <<>> THEN VNull ELSE args[Len(args)]
  IN [fam |-> "d", fmt |-> ev.fmt, args |-> ev.args, chars |-> ev.chars, verb |-> d.verb,
      flags |-> FlagText(d.flags), wk |-> d.wk, pk |-> d.pk, ub |-> UbFlags(d),
      cn |-> PNumJ(IF d.verb \in IntVerbs \cup UnsVerbs \/ d.verb = c_c THEN IntArg(v) ELSE ToNum(v, GoawkDialect)),
      cs |-> (IF d.verb = c_s /\ ~IsUnmStr(ToStr(v, Cf6)) THEN ToStr(v, Cf6) ELSE <<>>),
      err |-> r.err, out |-> r.out]

TStep ==
  /\ l <= NLog /\ Log[l].ev = "step"
  /\ LET ev == Log[l]
         r == Format(ev.fmt, ArgsOf(ev), ev.chars, Cf6)
     IN IF Explains(ev, r)
        THEN l' = l + 1
        ELSE /\ Reject(l, Info(ev, r))
             /\ l' = l + 1          \* the specification is stateless: the next call can still be judged
TReset == l <= NLog /\ Log[l].ev = "reset" /\ l' = l + 1
TDone == l = NLog + 1 /\ PrintT("TRACE-END") /\ l' = l + 1
Next == TStep \/ TReset \/ TDone
Spec == Init /\ [][Next]_vars
=============================================================================
