----------------------------- MODULE Trace_Printf -----------------------------
(* Validates sprintf calls and print statements recorded from the real           *)
(* interpreter (many in ONE run, so that the memoised format translation is      *)
(* exercised) against Printf.tla.                                                 *)
(*   {"ev":"step","fmt":bytes,"args":[{"tag","s","n":{"t","neg","d","x"}}],     *)
(*    "chars":bool,"cf":CONVFMT text in force ("%.Ng" / "%.Nf" / "%.Ne"),         *)
(*    "err":bool,"out":bytes,"k":call number}                                     *)
(*        tag "num" / "str" (a constant) / "strnum" (text the program read from   *)
(*        its input) / "null" (an uninitialised variable)                          *)
(*   {"ev":"print","args":[...],"of":OFMT text,"cf":CONVFMT text,                 *)
(*    "mode":"default"|"csv"|"tsv","ofs":bytes,"out":bytes,"k":..}                *)
(*   {"ev":"reset"}   a new interpreter / new trace                               *)
(* The specification has no state here -- that the cache is invisible is exactly  *)
(* what is checked: every call must be explained by Format alone, every print     *)
(* line by PrintLine alone (whatever CONVFMT is and whatever was printed before). *)
(* A call whose result the specification does not pin down (Unmodelled) is        *)
(* accepted; with an argument of an open form (hex, inf/nan, NBSP) the result of  *)
(* any dialect is.                                                                *)
EXTENDS PrintfCases, TraceBase

VARIABLES l
vars == <<l>>
Init == l = 1

ArgV(a) == CASE a.tag = "num" -> VNum(MkNum(a.n.neg, a.n.d, a.n.x))
             [] a.tag = "strnum" -> VStrnum(a.s)
             [] a.tag = "null" -> VNull
             [] OTHER -> VStr(a.s)
ArgsOf(ev) == [j \in 1..Len(ev.args) |-> ArgV(ev.args[j])]

\* the CONVFMT in force at a call (%s of a number is the number -> string conversion under it)
CfOf(ev) == LET d == DirOf(ev.cf)
            IN [verb |-> (CASE d.verb = c_f -> "f" [] d.verb = c_e -> "e" [] OTHER -> "g"), prec |-> d.pn]
Explains(ev, r) ==
  IF r.err THEN ev.err
  ELSE IF IsUnmStr(r.out) THEN TRUE
  ELSE ~ev.err /\ r.out = ev.out
ExplainsSome(ev, r, args) ==
  \/ Explains(ev, r)
  \/ HasOpenArg(args) /\ \E dl \in Dialects : Explains(ev, FormatD(ev.fmt, args, ev.chars, CfOf(ev), dl))

\* what the specification says about a rejected call (with the description the failure signature needs)
Info(ev, r) ==
  LET args == ArgsOf(ev)
      alts == FormatAlts(ev.fmt, args, ev.chars, CfOf(ev))
  IN CallJ("k", ev.fmt, DirOf(ev.fmt), args, ev.chars, r, {q \in alts : ~IsUnmStr(q.out)}) @@ [cf |-> ev.cf]

TStep ==
  /\ l <= NLog /\ Log[l].ev = "step"
  /\ LET ev == Log[l]
         args == ArgsOf(ev)
         r == Format(ev.fmt, args, ev.chars, CfOf(ev))
     IN IF ExplainsSome(ev, r, args)
        THEN l' = l + 1
        ELSE /\ Reject(l, Info(ev, r))
             /\ l' = l + 1          \* the specification is stateless: the next call can still be judged
\* a print statement: the line is PrintLine of the arguments under the OFMT in force -- CONVFMT is recorded
\* but not used
PInfo(ev, line) ==
  [fam |-> "p", args |-> ArgsJ(ArgsOf(ev)), of |-> ev.of, cf |-> ev.cf, mode |-> ev.mode, ofs |-> ev.ofs,
   fraction |-> HasFraction(ArgsOf(ev)), defprec |-> (ev.of \in {<<PCT, c_g>>, <<PCT, C_G>>}), out |-> line]
TPrint ==
  /\ l <= NLog /\ Log[l].ev = "print"
  /\ LET ev == Log[l]
         line == PrintLine(ArgsOf(ev), ev.of, ev.mode, ev.ofs, <<LF>>)
     IN IF IsUnmStr(line) \/ line = ev.out
        THEN l' = l + 1
        ELSE /\ Reject(l, PInfo(ev, line))
             /\ l' = l + 1
TReset == l <= NLog /\ Log[l].ev = "reset" /\ l' = l + 1
TDone == l = NLog + 1 /\ PrintT("TRACE-END") /\ l' = l + 1
Next == TStep \/ TPrint \/ TReset \/ TDone
Spec == Init /\ [][Next]_vars
=============================================================================
