------------------------------- MODULE Printf -------------------------------
(***************************************************************************)
(* printf / sprintf of AWK (property C09): the format scanner as a state   *)
(* machine, and the C conversion of every directive on the exact decimal   *)
(* numbers of Values.tla.                                                  *)
(*                                                                         *)
(* A directive is [flags, wk, wn, pk, pn, verb]:                           *)
(*   flags  subset of {MINUS, PLUS, SP, HASH, D0}                          *)
(*   wk     "none" | "n" | "star"      (wn: the literal width)             *)
(*   pk     "none" | "n" | "star" | "empty"   (pn: the literal precision;  *)
(*          "empty" is a lone '.', which C reads as precision 0)           *)
(*   verb   a byte                                                         *)
(* Format(fmt, args, chars) scans the format, consumes arguments (one per  *)
(* '*', one per conversion), converts and pads; it yields                  *)
(*   [err |-> TRUE, out |-> <<>>]  for a dangling %, an unknown conversion *)
(*                                 or too few arguments                    *)
(*   [err |-> FALSE, out |-> bytes] otherwise (out may be UnmStr: outside  *)
(*                                 what the statement and C pin down).     *)
(*                                                                         *)
(* The KIND of an argument is part of the model ("the argument converted   *)
(* the AWK way"): an argument is a value of Values.tla, i.e. a number, a   *)
(* string (constant / concatenation), or a strnum -- text that came from   *)
(* INPUT (a field, a getline variable, a split() element, a -v variable).  *)
(* A strnum that looks numeric (WholeParse) IS a number: %c gives the      *)
(* character with that code, d i o x X u e f g convert its value; one that *)
(* does not look numeric is a string: %c gives its first character, the    *)
(* numeric conversions use its longest numeric prefix.  %s of any strnum   *)
(* keeps the text as it is.  Whether hexadecimal, inf/nan and NBSP-padded  *)
(* texts are numbers is left open by POSIX: every operator takes the       *)
(* dialect dl (Values.Dialects); FormatD is Format under a given dialect,  *)
(* and the conformance check accepts the result of ANY dialect on an       *)
(* argument on which they differ (OpenArg).                                *)
(*                                                                         *)
(* print: PrintLine(args, ofmt, mode, ofs, ors) -- every argument that is  *)
(* a number is written as an exact integer if it is integral (int64) and   *)
(* through the format text OFMT otherwise (NumToText: the ONE float        *)
(* directive of OFMT applied the C way, so OFMT = "%g" means %.6g);        *)
(* strings, strnums and the uninitialised value are written as their text. *)
(* CONVFMT does not occur in the definition: that is the statement.  The   *)
(* output MODE ("default": joined with OFS, ended by ORS; "csv" / "tsv":   *)
(* Csv.CsvEncode with , / TAB and a newline) only decides how the texts    *)
(* are joined, never how a number becomes text.                            *)
(***************************************************************************)
EXTENDS Values, Csv

FlagChars == {MINUS, PLUS, SP, HASH, D0}
IntVerbs   == {c_d, c_i}
UnsVerbs   == {c_o, c_x, C_X, c_u}
FloatVerbs == {c_e, C_E, c_f, c_g, C_G}
Verbs == IntVerbs \cup UnsVerbs \cup FloatVerbs \cup {c_c, c_s}

Dir(flags, wk, wn, pk, pn, verb) == [flags |-> flags, wk |-> wk, wn |-> wn, pk |-> pk, pn |-> pn, verb |-> verb]
EmptyDir == Dir({}, "none", 0, "none", 0, 0)

\* ------------------------------------------------------------ the scanner
\* state: [mode, items, cur, err]; items: sequence of [k |-> "lit", ch] / [k |-> "dir", d]
ScanInit == [mode |-> "text", items |-> <<>>, cur |-> EmptyDir, err |-> FALSE]
Finish(st, ch) ==
  IF ch \in Verbs
  THEN [st EXCEPT !.mode = "text", !.items = @ \o <<[k |-> "dir", d |-> [st.cur EXCEPT !.verb = ch], ch |-> 0]>>, !.cur = EmptyDir]
  ELSE [st EXCEPT !.mode = "error", !.err = TRUE]          \* unknown conversion
Lit(st, ch) == [st EXCEPT !.mode = "text", !.items = @ \o <<[k |-> "lit", d |-> EmptyDir, ch |-> ch]>>]
InFlags(st, ch) ==
  IF ch \in FlagChars THEN [st EXCEPT !.mode = "flags", !.cur.flags = @ \cup {ch}]
  ELSE IF IsDig(ch) THEN [st EXCEPT !.mode = "width", !.cur.wk = "n", !.cur.wn = ch - 48]
  ELSE IF ch = STAR THEN [st EXCEPT !.mode = "wdone", !.cur.wk = "star"]
  ELSE IF ch = DOT THEN [st EXCEPT !.mode = "dot", !.cur.pk = "empty"]
  ELSE Finish(st, ch)
ScanStep(st, ch) ==
  CASE st.mode = "text"  -> IF ch = PCT THEN [st EXCEPT !.mode = "pct"] ELSE Lit(st, ch)
    [] st.mode = "pct"   -> IF ch = PCT THEN Lit(st, PCT) ELSE InFlags(st, ch)
    [] st.mode = "flags" -> InFlags(st, ch)
    [] st.mode = "width" -> IF IsDig(ch) THEN [st EXCEPT !.cur.wn = IF @ > 9999 THEN @ ELSE @ * 10 + (ch - 48)]
                            ELSE IF ch = DOT THEN [st EXCEPT !.mode = "dot", !.cur.pk = "empty"]
                            ELSE Finish(st, ch)
    [] st.mode = "wdone" -> IF ch = DOT THEN [st EXCEPT !.mode = "dot", !.cur.pk = "empty"] ELSE Finish(st, ch)
    [] st.mode = "dot"   -> IF IsDig(ch) THEN [st EXCEPT !.mode = "prec", !.cur.pk = "n", !.cur.pn = ch - 48]
                            ELSE IF ch = STAR THEN [st EXCEPT !.mode = "pdone", !.cur.pk = "star"]
                            ELSE Finish(st, ch)
    [] st.mode = "prec"  -> IF IsDig(ch) THEN [st EXCEPT !.cur.pn = IF @ > 9999 THEN @ ELSE @ * 10 + (ch - 48)]
                            ELSE Finish(st, ch)
    [] st.mode = "pdone" -> Finish(st, ch)
    [] st.mode = "error" -> st
RECURSIVE ScanRun(_, _, _)
ScanRun(st, fmt, k) == IF k > Len(fmt) THEN st ELSE ScanRun(ScanStep(st, fmt[k]), fmt, k + 1)
\* the items of a format, or an error (dangling % at the end / unknown conversion)
Scan(fmt) ==
  LET st == ScanRun(ScanInit, fmt, 1)
  IN IF st.err \/ st.mode # "text" THEN [err |-> TRUE, items |-> <<>>] ELSE [err |-> FALSE, items |-> st.items]

\* source text of a directive (flags in the order - + space # 0)
FlagText(flags) == (IF MINUS \in flags THEN <<MINUS>> ELSE <<>>) \o (IF PLUS \in flags THEN <<PLUS>> ELSE <<>>) \o
                   (IF SP \in flags THEN <<SP>> ELSE <<>>) \o (IF HASH \in flags THEN <<HASH>> ELSE <<>>) \o
                   (IF D0 \in flags THEN <<D0>> ELSE <<>>)
DirText(d) ==
  <<PCT>> \o FlagText(d.flags) \o
  (CASE d.wk = "none" -> <<>> [] d.wk = "n" -> NatDigits(d.wn) [] d.wk = "star" -> <<STAR>>) \o
  (CASE d.pk = "none" -> <<>> [] d.pk = "empty" -> <<DOT>> [] d.pk = "n" -> <<DOT>> \o NatDigits(d.pn) [] d.pk = "star" -> <<DOT, STAR>>) \o
  <<d.verb>>

\* ------------------------------------------------------------ conversions
Blanks(k) == [j \in 1..k |-> SP]
ZeroB(k)  == [j \in 1..k |-> D0]
Pad(body, w, left) ==
  IF Len(body) >= w THEN body ELSE IF left THEN body \o Blanks(w - Len(body)) ELSE Blanks(w - Len(body)) \o body
\* sign/prefix, then zeros up to the width, then the digits
ZeroPad(prefix, body, w) ==
  IF Len(prefix) + Len(body) >= w THEN prefix \o body ELSE prefix \o ZeroB(w - Len(prefix) - Len(body)) \o body

\* a - b on digit sequences (a >= b)
RECURSIVE SubRev(_, _, _)
SubRev(a, b, borrow) ==         \* a, b of equal length
  IF a = <<>> THEN <<>>
  ELSE LET v == a[Len(a)] - b[Len(b)] - borrow
       IN SubRev(SubSeq(a, 1, Len(a) - 1), SubSeq(b, 1, Len(b) - 1), IF v < 0 THEN 1 ELSE 0) \o <<IF v < 0 THEN v + 10 ELSE v>>
SubDigits(a, b) == StripLead(SubRev(a, Zeros(Len(a) - Len(b)) \o b, 0))

RECURSIVE ToBase(_, _)          \* digits (values) of a decimal digit sequence in another base; <<>> for 0
ToBase(d, base) == IF d = <<>> THEN <<>> ELSE LET q == DivSmall(d, base) IN ToBase(q[1], base) \o <<q[2]>>
BaseChars(ds, upper) == [j \in 1..Len(ds) |-> IF ds[j] < 10 THEN 48 + ds[j] ELSE (IF upper THEN 55 ELSE 87) + ds[j]]

\* the argument converted the AWK way for an integer conversion: truncated toward zero; must fit int64
IntArgD(v, dl) ==
  LET n == Trunc(ToNum(v, dl))
  IN IF n.t = "fin" /\ InInt64(n) /\ n.ex THEN n ELSE Unm
IntArg(v) == IntArgD(v, GoawkDialect)
\* a small integer argument (for '*'): its value, or 100000 if not one
RECURSIVE DigitsVal(_, _)
DigitsVal(d, acc) == IF d = <<>> THEN acc ELSE DigitsVal(Tail(d), acc * 10 + d[1])
StarArg(v, dl) ==
  LET n == IntArgD(v, dl)
  IN IF n.t # "fin" \/ Len(IntDigits(n)) > 4 THEN 100000
     ELSE IF n.neg THEN 0 - DigitsVal(IntDigits(n), 0) ELSE DigitsVal(IntDigits(n), 0)

\* digits with the precision rule of the integer conversions (p < 0: none)
WithPrec(ds, p) == IF p < 0 THEN (IF ds = <<>> THEN <<D0>> ELSE ds)
                   ELSE IF Len(ds) >= p THEN ds ELSE ZeroB(p - Len(ds)) \o ds

ConvSigned(flags, w, p, v, dl) ==
  LET n == IntArgD(v, dl)
      ds == WithPrec(IF n.d = <<>> THEN <<>> ELSE DigBytes(IntDigits(n)), p)
      sign == IF n.neg /\ n.d # <<>> THEN <<MINUS>> ELSE IF PLUS \in flags THEN <<PLUS>> ELSE IF SP \in flags THEN <<SP>> ELSE <<>>
  IN IF n.t # "fin" THEN UnmStr
     ELSE IF D0 \in flags /\ MINUS \notin flags /\ p < 0 THEN ZeroPad(sign, ds, w)
     ELSE Pad(sign \o ds, w, MINUS \in flags)

ConvUnsigned(flags, w, p, verb, v, dl) ==
  LET n == IntArgD(v, dl)
      u == IF n.neg /\ n.d # <<>> THEN SubDigits(P64, IntDigits(n)) ELSE (IF n.d = <<>> THEN <<>> ELSE IntDigits(n))
      base == CASE verb = c_o -> 8 [] verb \in {c_x, C_X} -> 16 [] OTHER -> 10
      raw == BaseChars(ToBase(u, base), verb = C_X)
      ds0 == WithPrec(raw, p)
      \* '#': octal gets a leading 0 unless it has one; hexadecimal a 0x prefix unless the value is 0
      ds == IF HASH \in flags /\ verb = c_o /\ (ds0 = <<>> \/ ds0[1] # D0) THEN <<D0>> \o ds0 ELSE ds0
      prefix == IF HASH \in flags /\ verb \in {c_x, C_X} /\ u # <<>> THEN <<D0, verb>> ELSE <<>>
  IN IF n.t # "fin" THEN UnmStr
     ELSE IF D0 \in flags /\ MINUS \notin flags /\ p < 0 THEN ZeroPad(prefix, ds, w)
     ELSE Pad(prefix \o ds, w, MINUS \in flags)

ConvFloat(flags, w, p, verb, v, dl) ==
  LET n == ToNum(v, dl)
      pp == IF p < 0 THEN 6 ELSE p
      alt == HASH \in flags
      body == CASE verb = c_e -> FmtE(n, pp, alt, FALSE) [] verb = C_E -> FmtE(n, pp, alt, TRUE)
                [] verb = c_f -> FmtF(n, pp, alt)
                [] verb = c_g -> FmtG(n, pp, alt, FALSE) [] verb = C_G -> FmtG(n, pp, alt, TRUE)
      sign == IF n.neg /\ n.d # <<>> THEN <<MINUS>> ELSE IF PLUS \in flags THEN <<PLUS>> ELSE IF SP \in flags THEN <<SP>> ELSE <<>>
  IN IF n.t # "fin" THEN UnmStr                          \* spelling of inf / nan: not judged
     ELSE IF IsUnmStr(body) THEN UnmStr
     ELSE IF D0 \in flags /\ MINUS \notin flags THEN ZeroPad(sign, body, w)
     ELSE Pad(sign \o body, w, MINUS \in flags)

IsAscii(str) == \A j \in 1..Len(str) : str[j] < 128
Utf8(cp) == IF cp < 128 THEN <<cp>>
            ELSE IF cp < 2048 THEN <<192 + (cp \div 64), 128 + (cp % 64)>>
            ELSE <<224 + (cp \div 4096), 128 + ((cp \div 64) % 64), 128 + (cp % 64)>>
\* %s: precision truncates, the flags + space # 0 have no effect.  In bytes mode widths and precisions
\* count bytes (C); in chars mode a non-ASCII string with a width or precision is left open.
ConvS(flags, w, p, v, chars, cf) ==
  LET str == ToStr(v, cf)
      cut == IF p >= 0 /\ Len(str) > p THEN SubSeq(str, 1, p) ELSE str
  IN IF IsUnmStr(str) THEN UnmStr
     ELSE IF chars /\ ~IsAscii(str) /\ (p >= 0 \/ w > 0) THEN UnmStr
     ELSE Pad(cut, w, MINUS \in flags)
\* Is the argument a NUMBER for %c ("of a number the character with that code, of a string its first
\* character")?  A number is; a string constant is not; text from input is exactly when it looks numeric.
\* The uninitialised value is both (the statement does not say which side %c takes): "open".
ArgIsNumber(v, dl) ==
  CASE v.tag = "num" -> "yes"
    [] v.tag = "str" -> "no"
    [] v.tag = "strnum" -> (IF LooksNumeric(v.s, dl) THEN "yes" ELSE "no")
    [] OTHER -> "open"
\* %c: a number gives the character with that code, a string its first character
ConvC(flags, w, v, chars, dl) ==
  LET n == IntArgD(v, dl)
      code == IF n.t = "fin" /\ ~n.neg /\ Len(IntDigits(n)) <= 5 THEN DigitsVal(IntDigits(n), 0) ELSE 0 - 1
      isn == ArgIsNumber(v, dl)
      ch == IF isn = "yes"
            THEN (IF code < 0 THEN UnmStr
                  ELSE IF chars THEN (IF code < 55296 THEN Utf8(code) ELSE UnmStr)
                  ELSE IF code < 256 THEN <<code>> ELSE UnmStr)
            ELSE IF isn = "no" /\ v.s # <<>> THEN (IF chars THEN Chars(v.s)[1] ELSE <<v.s[1]>>)
            ELSE UnmStr                                   \* empty string, uninitialised: not pinned down
  IN IF IsUnmStr(ch) THEN UnmStr
     ELSE IF chars /\ Len(ch) > 1 /\ w > 0 THEN UnmStr
     ELSE Pad(ch, w, MINUS \in flags)

\* one directive with its width w (0: none; negative: left-justify) and precision p (-1: none) resolved
Convert(d, w0, p, v, chars, cf, dl) ==
  LET flags == IF w0 < 0 THEN d.flags \cup {MINUS} ELSE d.flags
      w == IF w0 < 0 THEN 0 - w0 ELSE w0
  IN CASE d.verb \in IntVerbs   -> ConvSigned(flags, w, p, v, dl)
       [] d.verb \in UnsVerbs   -> ConvUnsigned(flags, w, p, d.verb, v, dl)
       [] d.verb \in FloatVerbs -> ConvFloat(flags, w, p, d.verb, v, dl)
       [] d.verb = c_s          -> ConvS(flags, w, p, v, chars, cf)
       [] d.verb = c_c          -> IF p >= 0 THEN UnmStr ELSE ConvC(flags, w, v, chars, dl)

\* ------------------------------------------------------------ the whole format
NeededArgs(d) == 1 + (IF d.wk = "star" THEN 1 ELSE 0) + (IF d.pk = "star" THEN 1 ELSE 0)
RECURSIVE Emit(_, _, _, _, _, _, _)
Emit(items, k, args, a, chars, cf, dl) ==      \* output of items k.. with arguments a..
  IF k > Len(items) THEN <<>>
  ELSE IF items[k].k = "lit" THEN <<items[k].ch>> \o Emit(items, k + 1, args, a, chars, cf, dl)
  ELSE LET d == items[k].d
           a1 == IF d.wk = "star" THEN a + 1 ELSE a
           a2 == IF d.pk = "star" THEN a1 + 1 ELSE a1
           w == CASE d.wk = "none" -> 0 [] d.wk = "n" -> d.wn [] d.wk = "star" -> StarArg(args[a], dl)
           pr == CASE d.pk = "none" -> 0 - 1 [] d.pk = "empty" -> 0 [] d.pk = "n" -> d.pn
                   [] d.pk = "star" -> (LET q == StarArg(args[a1], dl) IN IF q < 0 THEN 0 - 1 ELSE q)
           piece == IF w > 1000 \/ w < 0 - 1000 \/ pr > 1000 THEN UnmStr ELSE Convert(d, w, pr, args[a2], chars, cf, dl)
           rest == Emit(items, k + 1, args, a2 + 1, chars, cf, dl)
       IN IF IsUnmStr(piece) \/ IsUnmStr(rest) THEN UnmStr ELSE piece \o rest
RECURSIVE TotalArgs(_, _)
TotalArgs(items, k) == IF k > Len(items) THEN 0
                       ELSE (IF items[k].k = "dir" THEN NeededArgs(items[k].d) ELSE 0) + TotalArgs(items, k + 1)

FormatD(fmt, args, chars, cf, dl) ==
  LET sc == Scan(fmt)
  IN IF sc.err THEN [err |-> TRUE, out |-> <<>>]
     ELSE IF TotalArgs(sc.items, 1) > Len(args) THEN [err |-> TRUE, out |-> <<>>]
     ELSE [err |-> FALSE, out |-> Emit(sc.items, 1, args, 1, chars, cf, dl)]
Format(fmt, args, chars, cf) == FormatD(fmt, args, chars, cf, GoawkDialect)

\* ------------------------------------------------------------ the open forms
\* An argument on which the dialects differ (0x.., inf/nan spellings, NBSP blanks; in a string constant
\* as well as in input text): whether it is a number, or which number it is, is left open by POSIX.
OpenText(str) == \E dl \in Dialects : WholeParse(str, dl) # WholeParse(str, GoawkDialect) \/ PrefixValue(str, dl) # PrefixValue(str, GoawkDialect)
OpenArg(v) == v.tag \in {"str", "strnum"} /\ OpenText(v.s)
HasOpenArg(args) == \E j \in 1..Len(args) : OpenArg(args[j])
\* the results of the other dialects (a set of [err, out]); {} if no argument is open
FormatAlts(fmt, args, chars, cf) ==
  IF HasOpenArg(args) THEN {FormatD(fmt, args, chars, cf, dl) : dl \in Dialects} \ {Format(fmt, args, chars, cf)} ELSE {}

\* ------------------------------------------------------------ print
\* An OFMT (CONVFMT) text the statement gives a meaning to: literal text and exactly one directive, a
\* floating-point conversion without '*'.  Anything else is undefined (POSIX) and not judged.
FmtDirs(items) == SelectSeq(items, LAMBDA it : it.k = "dir")
IsNumFmt(text) ==
  LET sc == Scan(text)
  IN /\ ~sc.err
     /\ LET ds == FmtDirs(sc.items)
        IN Len(ds) = 1 /\ ds[1].d.verb \in FloatVerbs /\ ds[1].d.wk # "star" /\ ds[1].d.pk # "star"
\* number -> text under a format text: "integral ones as integers, non-integral ones with OFMT"
NumToText(n, text) ==
  IF n.t # "fin" THEN UnmStr
  ELSE IF InInt64(n) THEN NumToStr(n, [verb |-> "g", prec |-> 6])          \* the format is not consulted
  ELSE IF ~IsNumFmt(text) THEN UnmStr
  ELSE Format(text, <<VNum(n)>>, FALSE, [verb |-> "g", prec |-> 6]).out
\* the text print writes for one argument
PrintText(v, ofmt) == IF v.tag = "num" THEN NumToText(v.n, ofmt) ELSE v.s
PrintModes == {"default", "csv", "tsv"}
PrintLine(args, ofmt, mode, ofs, ors) ==
  LET texts == [j \in 1..Len(args) |-> PrintText(args[j], ofmt)]
  IN IF \E j \in 1..Len(texts) : IsUnmStr(texts[j]) THEN UnmStr
     ELSE CASE mode = "default" -> Join(texts, ofs) \o ors
            [] mode = "csv"     -> CsvEncode(texts, <<COMMA>>) \o <<LF>>
            [] mode = "tsv"     -> CsvEncode(texts, <<TAB>>) \o <<LF>>
=============================================================================
