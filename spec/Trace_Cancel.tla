---------------------------- MODULE Trace_Cancel ----------------------------
(* Validates runs recorded from the real ExecuteContext (instruction hook)   *)
(* against Cancel.tla.  The recorded events are folded into Cancel's own     *)
(* variables and the PROPERTIES of Cancel.tla (Prompt, EndsRight,            *)
(* NoSpuriousCtxErr, RightIdentity, DeliveredBefore -- per destination of the *)
(* output: unbuffered / bufio.Writer standard output, file, command --, and   *)
(* invisibility of a context that is never cancelled) must hold in every      *)
(* state so obtained,                                                         *)
(* with CheckEvery = the bound the statement gives for the real code (one    *)
(* poll interval of 1000 instructions + slack).  Deliberately NOT demanded:  *)
(* that the run is a behaviour of Cancel's counter -- where inside the       *)
(* interval the code polls is its own business.                              *)
(* Events: see harness/c15/record.go.                                        *)
EXTENDS Cancel, TraceBase

VARIABLES l, same
tvars == <<vars, l, same>>

TInit == Init /\ useCtx = TRUE /\ l = 1 /\ same = TRUE

Fresh == /\ ops' = 0 /\ cancelled' = FALSE /\ why' = "none" /\ since' = 0 /\ ps' = PsInit /\ bs' = PsInit
         /\ atCancel' = [printed |-> Zero, ops |-> 0] /\ result' = "running" /\ errId' = "none" /\ delivered' = Zero
         /\ same' = TRUE

\* the state after event ev (a record of the primed values that change)
Holds ==  \* the properties of Cancel.tla, on the primed state
  /\ Prompt' /\ EndsRight' /\ NoSpuriousCtxErr' /\ RightIdentity' /\ DeliveredBefore'
  /\ (~cancelled' /\ result' # "running") => same'

Apply(ev) ==
  CASE ev.op = "start" ->
         /\ useCtx' = ev.ctx /\ Fresh
         /\ IF ev.pre THEN TRUE ELSE TRUE
    [] ev.op = "print" ->      \* (how much of it is pending in a buffer cannot be seen from outside and is not recorded)
         /\ ps' = [ps EXCEPT !.printed[ev.dest] = @ + ev.n]
         /\ UNCHANGED <<useCtx, ops, cancelled, why, since, bs, atCancel, result, errId, delivered, same>>
    [] ev.op = "exec" ->
         /\ ops' = (ops + ev.n) % CheckEvery
         /\ since' = IF cancelled THEN since + ev.n ELSE since
         /\ UNCHANGED <<useCtx, cancelled, why, ps, bs, atCancel, result, errId, delivered, same>>
    [] ev.op = "cancel" ->
         /\ cancelled' = TRUE /\ why' = ev.why /\ since' = 0
         /\ atCancel' = [printed |-> ps.printed, ops |-> ops]
         /\ UNCHANGED <<useCtx, ops, ps, bs, result, errId, delivered, same>>
    [] ev.op = "end" ->
         /\ result' = ev.result /\ errId' = ev.errid /\ same' = ev.same
         /\ delivered' = [d \in Dests |-> ev.delivered[d]]
         /\ UNCHANGED <<useCtx, ops, cancelled, why, since, ps, bs, atCancel>>

TStep ==
  /\ l <= NLog /\ Log[l].ev = "step"
  /\ LET ev == Log[l]
     IN /\ Apply(ev)
        /\ IF Holds
           THEN l' = l + 1
           ELSE /\ Reject(l, [op |-> ev.op,
                              violated |-> [prompt |-> ~Prompt', endsright |-> ~EndsRight', spurious |-> ~NoSpuriousCtxErr',
                                            identity |-> ~RightIdentity', delivery |-> ~DeliveredBefore',
                                            invisible |-> ~((~cancelled' /\ result' # "running") => same')],
                              since |-> since', bound |-> CheckEvery])
                /\ l' = AfterNextReset(l)

TReset == l <= NLog /\ Log[l].ev = "reset" /\ l' = l + 1 /\ Fresh /\ UNCHANGED useCtx
TDone  == l = NLog + 1 /\ PrintT("TRACE-END") /\ l' = l + 1 /\ UNCHANGED <<vars, same>>

TNext == TStep \/ TReset \/ TDone
TSpec == TInit /\ [][TNext]_tvars
=============================================================================
