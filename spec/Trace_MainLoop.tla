--------------------------- MODULE Trace_MainLoop ---------------------------
(* Validates input-bookkeeping programs recorded from the real interpreter    *)
(* (random rules, ranges, getline forms, operands, file contents) against the *)
(* input part of AwkSem.  Event: {"ev":"step","prog":tree,"env":{stdin,files, *)
(* args},"obs":{out,status,err}}.                                             *)
EXTENDS AwkSem, TraceBase

VARIABLES l
vars == <<l>>
Init == l = 1

FilesOf(fl) == [nm \in {fl[j].name : j \in 1..Len(fl)} |-> fl[CHOOSE j \in 1..Len(fl) : fl[j].name = nm].recs]

TStep ==
  /\ l <= NLog /\ Log[l].ev = "step"
  /\ LET ev == Log[l]
         o == Outcome(RunEnv(ev.prog, [stdin |-> ev.env.stdin, files |-> FilesOf(ev.env.files), args |-> ev.env.args]))
         exp == [out |-> o.out, status |-> o.status, err |-> o.err]
     IN IF o.bad THEN PrintT(ToJson([skip |-> l])) /\ l' = l + 1
        ELSE IF exp.out = ev.obs.out /\ exp.err = ev.obs.err /\ (exp.err \/ exp.status = ev.obs.status)
             THEN l' = l + 1
             ELSE Reject(l, [expected |-> exp]) /\ l' = AfterNextReset(l)

TReset == l <= NLog /\ Log[l].ev = "reset" /\ l' = l + 1
TDone == l = NLog + 1 /\ PrintT("TRACE-END") /\ l' = l + 1
Next == TStep \/ TReset \/ TDone
Spec == Init /\ [][Next]_vars
=============================================================================
