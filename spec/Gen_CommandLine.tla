--------------------------- MODULE Gen_CommandLine ---------------------------
(* Every argument vector of at most MaxArgs arguments over the menu (longer  *)
(* ones over the reduced menu) with the outcome CommandLine!Outcome0 predicts *)
(* -- and, inside TLC, the laws of the option scan on each of them.          *)
EXTENDS CommandLine, Json

CONSTANTS MaxArgs, MaxArgsSmall, MaxUnits,
          ErrThin     \* error / version outcomes of the longest vectors: one in ErrThin is exported (1 = all)

Colon == <<COLON>>
X1 == <<c_x, EQ, D1>>       Y3 == <<c_w, EQ, D3>>
Menu == { Arg(OptF), Arg(Colon), Arg(OptF \o Colon), Arg(Optv), Arg(X1), Arg(Optv \o <<c_x, EQ, D2>>), Arg(Optv \o <<c_w, EQ, c_a, BSL, c_t, c_b>>),
          Arg(Optf), Arg(P1), Arg(Optf \o P2), Arg(DashDash), Arg(Dash), ProgArg, Arg(File1), Arg(Y3), Arg(OptE), Arg(OptE \o P1),
          Arg(Optc), Arg(OptVersion), Arg(<<MINUS, AT>>), Arg(OptN \o ModeCrlf) }
SmallMenu == { Arg(OptF \o Colon), Arg(Optv), Arg(X1), Arg(Optf), Arg(P1), Arg(DashDash), ProgArg, Arg(File1), Arg(Y3), Arg(Dash), Arg(OptE) }

\* structured vectors: up to MaxUnits complete option units, then the program (or not) and operands
Units == { <<Arg(OptF \o Colon)>>, <<Arg(OptF), Arg(Colon)>>, <<Arg(Optv), Arg(X1)>>, <<Arg(Optv \o <<c_x, EQ, D2>>)>>,
           <<Arg(Optv \o <<c_w, EQ, c_a, BSL, c_t, c_b>>)>>, <<Arg(Optf), Arg(P1)>>, <<Arg(Optf \o P2)>>, <<Arg(Optc)>>, <<Arg(DashDash)>>,
           <<Arg(OptN), Arg(ModeCrlf)>>, <<Arg(OptN \o ModeRaw)>>, <<Arg(OptN \o <<c_q>>)>> }
Tails == { <<>>, <<ProgArg>>, <<ProgArg, Arg(File1)>>, <<ProgArg, Arg(Y3), Arg(File1)>>, <<ProgArg, Arg(File1), Arg(X1), Arg(Dash)>>,
           <<Arg(File1)>>, <<Arg(File1), Arg(Y3), Arg(File1)>>, <<Arg(Dash), Arg(X1)>> }
RECURSIVE UnitSeqs(_)
UnitSeqs(n) == IF n = 0 THEN {<<>>} ELSE UnitSeqs(n - 1) \cup {u \o w : u \in Units, w \in UnitSeqs(n - 1)}
StructVecs == {u \o t : u \in UnitSeqs(MaxUnits), t \in Tails}

VARIABLES av, done
vars == <<av, done>>
\* done: "grow" (a vector under construction), "s" (a structured vector), "done"
Init == (av = <<>> /\ done = "grow") \/ (av \in StructVecs /\ Len(av) > MaxArgs /\ done = "s")
AddArg == /\ done = "grow"
          /\ \E a \in (IF Len(av) < MaxArgs THEN Menu ELSE SmallMenu) :
               /\ Len(av) < MaxArgsSmall
               /\ (Len(av) >= MaxArgs => \A j \in 1..Len(av) : av[j] \in SmallMenu)
               /\ av' = Append(av, a)
          /\ UNCHANGED done
EmitCase == /\ done # "done" /\ done' = "done" /\ av' = av
        /\ Assert(ScanStopsAtProgram(av) /\ ScanInBounds(av), <<"MODEL DEFECT: option scan law", av>>)
        /\ Assert(av = <<>> \/ \A b \in SmallMenu : PrefixDetermines(av, [av EXCEPT ![Len(av)] = b]),
                  <<"MODEL DEFECT: an argument the scan did not reach changed the scan", av>>)
        \* vectors the model does not judge are exported too (the tool must still not crash on them), thinned to one in eight
        /\ LET o == Outcome0(av)
               h == IF av = <<>> THEN 0 ELSE Len(av) * 7 + Len(av[Len(av)].b) * 3 + Len(av[1].b)
           IN (\/ o.kind = "run"
               \/ o.kind = "unjudged" /\ h % (8 * ErrThin) = 0
               \/ o.kind \in {"error", "version"} /\ (Len(av) < MaxArgs \/ h % ErrThin = 0 \/ done = "s")) => PrintT(ToJson([fam |-> "cli", argv |-> av, expect |-> o]))
Next == AddArg \/ EmitCase
Spec == Init /\ [][Next]_vars
=============================================================================
