SPECIFICATION Spec
CONSTANTS
  Depth = 3
  Sandbox = TRUE
  FailMax = 0
  MaxRuns = 2
  Modes = {"default", "csv", "tsv"}
  NLs = {"smart"}
  Rich = 0
INVARIANTS ConfigIsThisRuns RunStartsFresh CloseOfNonReader SystemSeesFlushed NoExecConfines NoWritesConfines NoReadsConfines DeniedEndsRun TouchedAreOpened FileDelivered CmdDelivered StdoutDelivered FailingWriteFails OneNameOneStream CloseReportsStatus SeqScheduleAllowed LossNotAllowed AttemptIsDenied NullStaysEmpty OperandKinds OneSpelling CrlfEverywhere LostFileKinds CreatedAreOpened
CHECK_DEADLOCK FALSE
