SPECIFICATION Spec
CONSTANTS
  Depth = 3
  Sandbox = TRUE
  FailMax = 0
INVARIANTS NoExecConfines NoWritesConfines NoReadsConfines DeniedEndsRun TouchedAreOpened FileDelivered CmdDelivered StdoutDelivered FailingWriteFails OneNameOneStream CloseReportsStatus SeqScheduleAllowed LossNotAllowed AttemptIsDenied
CHECK_DEADLOCK FALSE
