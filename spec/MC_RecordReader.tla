-------------------------- MODULE MC_RecordReader --------------------------
(* Every delivery schedule of every input up to MaxLen over the alphabet of  *)
(* each RS menu entry: the chunked reader with the intended splitter emits   *)
(* exactly Records(input, rs) -- which is what licenses Records as the       *)
(* oracle of the replays -- and Records obeys the equations of the property. *)
EXTENDS RecordReader, TLC

CONSTANTS MaxLen, Rich

VARIABLES input, ment, delivered, consumed, eof, emitted, nr,
          ref          \* Records(input, rs), computed once per input
vars == <<input, ment, delivered, consumed, eof, emitted, nr, ref>>

rs  == ment.rs
buf == SubSeq(input, consumed + 1, delivered)

Init ==
  /\ ment \in Menu(Rich)
  /\ input \in StrUpTo(ment.alpha, MaxLen)
  /\ delivered = 0 /\ consumed = 0 /\ eof = FALSE /\ emitted = <<>> /\ nr = 0
  /\ ref = Records(input, ment.rs)

\* the schedule: any number of the remaining bytes arrives
Deliver(k) ==
  /\ ~eof /\ delivered + k <= Len(input)
  /\ delivered' = delivered + k
  /\ UNCHANGED <<input, ment, consumed, eof, emitted, nr, ref>>

DeliverEOF ==
  /\ ~eof /\ delivered = Len(input)
  /\ eof' = TRUE
  /\ UNCHANGED <<input, ment, delivered, consumed, emitted, nr, ref>>

Split ==
  LET st == SplitStep(buf, eof, rs)
  IN /\ st.k \in {"emit", "skip"}
     /\ consumed' = consumed + st.adv
     /\ IF st.k = "emit"
        THEN emitted' = Append(emitted, [rec |-> st.rec, rt |-> st.rt]) /\ nr' = nr + 1
        ELSE UNCHANGED <<emitted, nr>>
     /\ UNCHANGED <<input, ment, delivered, eof, ref>>

Next == (\E k \in 1..MaxLen : Deliver(k)) \/ DeliverEOF \/ Split
Spec == Init /\ [][Next]_vars

Terminated == eof /\ SplitStep(buf, eof, rs).k = "done"
IsPrefix(s1, s2) == Len(s1) <= Len(s2) /\ \A j \in 1..Len(s1) : s1[j] = s2[j]

\* ---- the property, on every path ----
ChunkIndependence == Terminated => emitted = ref
PrefixSafe        == IsPrefix(emitted, ref)
NRCount           == nr = Len(emitted)
\* the reader never waits for bytes that cannot come, never consumes undelivered bytes
Progress          == (eof => SplitStep(buf, eof, rs).k # "more") /\ consumed <= delivered
\* SplitAll (used by Trace_RecordReader) is the same thing as running the machine
SplitAllAgrees    == (delivered = Len(input) /\ eof) => IsPrefix(emitted, SplitAll(input, TRUE, rs)) /\ SplitAll(input, TRUE, rs) = ref

\* ---- the equations of the statement, on the reference (checked once per input) ----
Laws ==
  (delivered = 0 /\ ~eof) =>
    LET recs == ref IN
    /\ rs.k = "re" => RecAndRT(recs) = input                                  \* lossless
    /\ rs.k = "re" => \A k \in 1..(Len(input) + 1) : FindFirst(rs.r, input, k) = Find(rs.r, input, k)
    /\ rs.k = "sep" => LET jn == Join(RecTexts(recs), rs.s) IN jn = input \/ jn \o rs.s = input
    /\ rs.k = "sep" => \A j \in 1..Len(recs) : FirstOcc(recs[j].rec, rs.s, 1) = 0
    /\ rs.k = "nl" => /\ \A j \in 1..Len(recs) : ~HasByte(recs[j].rec, LF)
                      /\ Len(recs) = Len(SepRecords(input, <<LF>>, Ident))
                      /\ \A j \in 1..Len(recs) : LET ln == SepRecords(input, <<LF>>, Ident)[j].rec
                                                 IN recs[j].rec = ln \/ recs[j].rec \o <<CR>> = ln
    /\ (rs.k = "para" /\ JudgeRecs(input, rs)) =>
          /\ \A j \in 1..Len(recs) : /\ recs[j].rec # <<>>
                                     /\ recs[j].rec[1] # LF /\ recs[j].rec[Len(recs[j].rec)] # LF
                                     /\ FirstOcc(recs[j].rec, <<LF, LF>>, 1) = 0
          /\ \A j \in 1..(Len(recs) - 1) : Len(recs[j].rt) >= 2
          \* non-newline bytes are preserved in order
          /\ SelectSeq(Concat(RecTexts(recs)), LAMBDA ch : ch # LF) = SelectSeq(input, LAMBDA ch : ch # LF)
    \* the prefix law that places inputs at the 64 KiB buffer edge
    /\ (PrefixOK(input, rs) /\ JudgeRecs(input, rs)) =>
          Records(<<Filler, Filler>> \o input, rs) = PrefixFirst(<<Filler, Filler>>, recs)
=============================================================================
