------------------------------ MODULE MC_Printf ------------------------------
(* TLC checks the laws of the printf model over every directive of the family  *)
(* (32 flag sets x 5 widths x 7 precisions x 13 conversions) on a few          *)
(* arguments each: the machine picks a conversion and an argument (Init), then  *)
(* flags, width and precision (Pick); the laws are invariants of the picked     *)
(* case.  The argument-kind dimension: every conversion is also applied to text *)
(* from input (strnum) on the small grid of PrintfCases; KindLaws says what the  *)
(* statement says about it (a numeric-looking input text behaves as the number   *)
(* it denotes under every conversion, any other input text as the string         *)
(* constant of the same spelling; %s keeps the text).  print: PrintLaws (the     *)
(* text of a number under an OFMT "%.Ng" / "%.Nf" / "%.Ne" is the number ->      *)
(* string conversion of Values.tla; integral numbers ignore OFMT; the output     *)
(* mode only changes how the texts are joined).                                   *)
EXTENDS PrintfCases, TLC

CONSTANT McFull          \* FALSE: two arguments per conversion class (quick tier)

VARIABLES verb, v, chars, flags, wi, pi, st
vars == <<verb, v, chars, flags, wi, pi, st>>

\* a sub-sample of the arguments keeps the model run short; Gen_Printf exports all of them
McArgsFull(vb) == IF vb \in IntVerbs \cup UnsVerbs
              THEN {VNum(Zero), VNum(NatNum(0 - 42)), VNum(NatNum(255)), VNum(Dec(FALSE, <<2, 5>>, 0 - 1)), VStr(<<>>)}
              ELSE IF vb \in FloatVerbs
              THEN {VNum(Zero), VNum(Dec(TRUE, <<1, 2, 5>>, 0 - 3)), VNum(Dec(FALSE, <<1, 2, 3, 4, 5, 6, 7, 5>>, 0 - 1)), VNum(Dec(FALSE, <<1>>, 0 - 5))}
              ELSE IF vb = c_s THEN {VStr(<<>>), VStr(<<c_a, c_b, c_c>>), VNum(Dec(TRUE, <<1, 2, 5>>, 0 - 3))}
              ELSE {VNum(NatNum(65)), VStr(<<c_a, c_b, c_c>>)}

McArgs(vb) == IF McFull THEN McArgsFull(vb)
              ELSE IF vb \in IntVerbs \cup UnsVerbs THEN {VNum(NatNum(0 - 42)), VNum(Zero)}
              ELSE IF vb \in FloatVerbs THEN {VNum(Dec(TRUE, <<1, 2, 5>>, 0 - 3)), VNum(Dec(FALSE, <<1, 2, 3, 4, 5, 6, 7, 5>>, 0 - 1))}
              ELSE IF vb = c_s THEN {VStr(<<c_a, c_b, c_c>>), VNum(Dec(TRUE, <<1, 2, 5>>, 0 - 3))}
              ELSE {VNum(NatNum(65)), VStr(<<c_a, c_b, c_c>>)}

\* input texts: numeric-looking (plain, blank-padded, exponent form), numeric prefix only, non-numeric
McInputs == IF McFull THEN {VStrnum(str) : str \in InputTexts}
            ELSE {VStrnum(<<SP, D6, D5, SP>>), VStrnum(<<D6, DOT, D5, c_e, D1>>), VStrnum(<<D6, D5, c_a, c_b, c_c>>), VStrnum(<<c_a, c_b, c_c>>)}
McPrintOfmts == << [verb |-> "g", prec |-> 6], [verb |-> "f", prec |-> 2], [verb |-> "e", prec |-> 3], [verb |-> "g", prec |-> 3], [verb |-> "f", prec |-> 0] >>

Init == \/ /\ verb \in Verbs /\ v \in McArgs(verb) \cup McInputs /\ chars = FALSE
           /\ flags = {} /\ wi = 1 /\ pi = 1 /\ st = "picked-arg"
        \/ /\ verb = 0 /\ v \in PrintLists /\ chars = FALSE /\ flags = {} /\ wi = 1 /\ pi = 1 /\ st = "print"
Pick == /\ st = "picked-arg" /\ st' = "case"
        /\ flags' \in (IF v.tag = "strnum" THEN KFlags(FALSE) ELSE SUBSET FlagChars)
        /\ wi' \in (IF v.tag = "strnum" THEN KWs(FALSE) ELSE 1..Len(WOpts))
        /\ pi' \in (IF v.tag = "strnum" THEN KPs(FALSE, c_d) ELSE 1..Len(POpts))
        /\ UNCHANGED <<verb, v, chars>>
Spec == Init /\ [][Pick]_vars

D == MkDir(flags, wi, pi, verb)
Res == Format(CaseFmt(D), CaseArgs(wi, pi, v), chars, Cf6)
Body(r) == SubSeq(r.out, 2, Len(r.out) - 1)             \* without the brackets
\* the same directive without a width
NoW == Format(CaseFmt(MkDir(flags, 1, pi, verb)), CaseArgs(1, pi, v), chars, Cf6)
WVal == IF WOpts[wi][2] < 0 THEN 0 - WOpts[wi][2] ELSE WOpts[wi][2]
Left == MINUS \in flags \/ WOpts[wi][2] < 0
RECURSIVE AllBlank(_)
AllBlank(str) == str = <<>> \/ (str[1] = SP /\ AllBlank(Tail(str)))
IsPrefixOf(a, b) == Len(a) <= Len(b) /\ SubSeq(b, 1, Len(a)) = a
IsSuffixOf(a, b) == Len(a) <= Len(b) /\ SubSeq(b, Len(b) - Len(a) + 1, Len(b)) = a

\* (each law binds the formatted results once with LET: TLC re-evaluates a defined operator at every mention)
\* every directive x argument yields a byte string, the Unmodelled marker, or a declared error
Totality == st = "case" =>
  LET r == Res
  IN /\ r.err = FALSE
     /\ IsUnmStr(r.out) \/ (\A j \in 1..Len(r.out) : r.out[j] \in 0..255)
\* the scanner reads back the directive the renderer wrote
ScanRoundTrip == st = "case" =>
  LET sc == Scan(DirText(D)) IN ~sc.err /\ Len(sc.items) = 1 /\ sc.items[1].k = "dir" /\ sc.items[1].d = D
\* width and justification
WidthLaws == st = "case" =>
  LET r == Res
      n == NoW
  IN ~IsUnmStr(r.out) /\ ~IsUnmStr(n.out) =>
      LET br == Body(r)
          bn == Body(n)
      IN /\ Len(br) >= WVal
         /\ Len(br) = Max({WVal, Len(bn)})
         /\ Left => IsPrefixOf(bn, br) /\ AllBlank(SubSeq(br, Len(bn) + 1, Len(br)))
         /\ (~Left /\ (D0 \notin flags \/ verb \in {c_s, c_c})) =>
               IsSuffixOf(bn, br) /\ AllBlank(SubSeq(br, 1, Len(br) - Len(bn)))
\* %d of an integer with no flags, width, precision is the number -> string conversion of the value model
PlainD == st = "case" /\ verb \in IntVerbs /\ flags = {} /\ wi = 1 /\ pi = 1 /\ v.tag = "num" /\ IsIntegral(v.n) =>
  Body(Res) = NumToStr(v.n, Cf6)
\* i is d; u of a non-negative number is d; X is x in upper case; E and G are e and g in upper case
Other(vb) == Format(CaseFmt(MkDir(flags, wi, pi, vb)), CaseArgs(wi, pi, v), chars, Cf6)
UpperStr(str) == [j \in 1..Len(str) |-> IF str[j] >= 97 /\ str[j] <= 122 THEN str[j] - 32 ELSE str[j]]
VerbLaws == st = "case" /\ verb \in {c_i, C_X, C_E, C_G, c_u} =>
  LET r == Res
  IN ~IsUnmStr(r.out) =>
      /\ verb = c_i => r = Other(c_d)
      /\ verb = C_X => r.out = UpperStr(Other(c_x).out)
      /\ verb = C_E => r.out = UpperStr(Other(c_e).out)
      /\ verb = C_G => r.out = UpperStr(Other(c_g).out)
      /\ verb = c_u /\ flags \cap {PLUS, SP, HASH} = {} /\ IntArg(v).t = "fin" /\ ~IntArg(v).neg => r = Other(c_d)
\* the + and space flags add at most the sign
SignLaws == st = "case" /\ wi = 1 /\ flags \cap {PLUS, SP} # {} =>
  LET r == Res
      plain == Format(CaseFmt(MkDir(flags \ {PLUS, SP}, wi, pi, verb)), CaseArgs(wi, pi, v), chars, Cf6)
  IN ~IsUnmStr(r.out) /\ ~IsUnmStr(plain.out) => Len(r.out) - Len(plain.out) \in {0, 1}
\* the kind of the argument: input text that looks numeric is the number it denotes, under every conversion
\* but s; input text that does not is the string constant of the same spelling; s keeps the text
AsKind(w) == Format(CaseFmt(D), CaseArgs(wi, pi, w), chars, Cf6)
KindLaws == st = "case" /\ v.tag = "strnum" /\ ~OpenArg(v) =>
  LET r == Res
      wp == WholeParse(v.s, GoawkDialect)
  IN /\ verb = c_s => r = AsKind(VStr(v.s))
     /\ verb # c_s /\ wp.t = "str" => r = AsKind(VStr(v.s))
     /\ verb # c_s /\ wp.t \notin {"str", "unm"} => r = AsKind(VNum(wp))
\* print
PrintLaws == st = "print" =>
  /\ \A j \in 1..Len(McPrintOfmts) : \A k \in 1..Len(v) :
        v[k].tag = "num" => NumToText(v[k].n, CfText(McPrintOfmts[j])) = NumToStr(v[k].n, McPrintOfmts[j])
  /\ \A of \in OFmtTexts :
        LET dl == PrintLine(v, of, "default", <<COMMA>>, <<LF>>)
            cl == PrintLine(v, of, "csv", <<SP>>, <<LF>>)
            tl == PrintLine(v, of, "tsv", <<SP>>, <<LF>>)
            texts == [k \in 1..Len(v) |-> PrintText(v[k], of)]
        IN ~IsUnmStr(dl) =>
             \* integral numbers and everything that is not a number do not depend on OFMT
             /\ \A k \in 1..Len(v) : (v[k].tag # "num" \/ InInt64(v[k].n)) => texts[k] = PrintText(v[k], <<PCT, DOT, D6, c_g>>)
             \* the mode joins the same texts: without anything to quote, CSV is the default line with OFS = ","
             /\ (\A k \in 1..Len(v) : ~NeedsQuotes(texts[k], <<COMMA>>)) /\ texts # << <<>> >> => cl = dl
             /\ Len(tl) >= Len(Join(texts, <<TAB>>)) + 1
=============================================================================
