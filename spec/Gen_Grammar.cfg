SPECIFICATION Spec
CONSTANTS
  MaxOps = 2
  MaxOdd = 1
  MinLen = 0
  Prods = {"name", "num", "str", "re", "grp", "field", "idx", "call", "u-", "u+", "u!", "in", "pget", "pgetv", "fget", "fgetv", "post++", "post--", "pre++", "pre--", "get", "getv", "||", "&&", "~", "!~", "<", "<=", "!=", "==", ">", ">=", "cat", "+", "-", "*", "/", "%", "^", "=", "+=", "?:", "lfield", "lidx"}
  Ctxs = {"stmt", "print", "printgt", "printpipe", "pat", "cond"}
  OddCtxs = {"stmt", "print", "printgt", "printpipe", "pat", "cond"}
CHECK_DEADLOCK FALSE
