---------------------------- MODULE GrammarLit ----------------------------
(***************************************************************************)
(* String and regular-expression literals of AWK source text, as byte      *)
(* strings (Strings.tla): how a literal is READ (the POSIX lexical rules)  *)
(* and a printer SPELL that writes any value as a literal.  Used by C20:   *)
(* the printed form of a program must denote the same string and regex     *)
(* contents.                                                               *)
(*                                                                         *)
(* ReadStr is defined only on the escapes POSIX defines (\" \\ \/ \a \b \f *)
(* \n \r \t \v and \ddd with one to three octal digits, value <= 255); any *)
(* other escape makes the literal "undefined" (ok = FALSE) and texts that  *)
(* contain one are not judged by the specification.                        *)
(***************************************************************************)
EXTENDS Strings, TLC

IsOct(ch) == ch >= 48 /\ ch <= 55
SimpleEsc == (c_n :> LF) @@ (c_t :> TAB) @@ (c_r :> CR) @@ (c_a :> 7) @@ (c_b :> 8) @@ (c_f :> 12) @@ (c_v :> 11)
             @@ (DQ :> DQ) @@ (BSL :> BSL) @@ (SLASH :> SLASH)
Bad == [ok |-> FALSE, v |-> <<>>]

\* the value of the characters between the quotes of a string literal
RECURSIVE ReadStrFrom(_, _, _)
ReadStrFrom(s, j, acc) ==
  IF j > Len(s) THEN [ok |-> TRUE, v |-> acc]
  ELSE IF s[j] \in {LF, CR, DQ} THEN Bad
  ELSE IF s[j] # BSL THEN ReadStrFrom(s, j + 1, Append(acc, s[j]))
  ELSE IF j = Len(s) THEN Bad
  ELSE LET e == s[j + 1] IN
       IF e \in DOMAIN SimpleEsc THEN ReadStrFrom(s, j + 2, Append(acc, SimpleEsc[e]))
       ELSE IF IsOct(e) THEN
            LET n2 == j + 2 <= Len(s) /\ IsOct(s[j + 2])
                n3 == n2 /\ j + 3 <= Len(s) /\ IsOct(s[j + 3])
                val == IF n3 THEN (e - 48) * 64 + (s[j + 2] - 48) * 8 + (s[j + 3] - 48)
                       ELSE IF n2 THEN (e - 48) * 8 + (s[j + 2] - 48) ELSE e - 48
                nxt == j + (IF n3 THEN 4 ELSE IF n2 THEN 3 ELSE 2)
            IN IF val > 255 THEN Bad ELSE ReadStrFrom(s, nxt, Append(acc, val))
       ELSE Bad
ReadStr(body) == ReadStrFrom(body, 1, <<>>)

\* the specification's own printer for strings: printable ASCII as itself,
\* the quote and the backslash escaped, every other byte as three octal digits
Oct3(b) == <<BSL, 48 + (b \div 64), 48 + ((b \div 8) % 8), 48 + (b % 8)>>
SpellByte(b) == IF b = DQ THEN <<BSL, DQ>> ELSE IF b = BSL THEN <<BSL, BSL>>
                ELSE IF b >= 32 /\ b < 127 THEN <<b>> ELSE Oct3(b)
SpellBody(v) == Concat([j \in 1..Len(v) |-> SpellByte(v[j])])
SpellStr(v) == <<DQ>> \o SpellBody(v) \o <<DQ>>

\* the value (regex source) of the characters between the slashes of an ERE
\* token: an escaped slash stands for a slash, every other character --
\* including a backslash and the character after it -- for itself
RECURSIVE ReadReFrom(_, _, _)
ReadReFrom(s, j, acc) ==
  IF j > Len(s) THEN [ok |-> TRUE, v |-> acc]
  ELSE IF s[j] \in {LF, CR, SLASH} THEN Bad
  ELSE IF s[j] # BSL THEN ReadReFrom(s, j + 1, Append(acc, s[j]))
  ELSE IF j = Len(s) THEN Bad
  ELSE IF s[j + 1] = SLASH THEN ReadReFrom(s, j + 2, Append(acc, SLASH))
  ELSE IF s[j + 1] \in {LF, CR} THEN Bad
  ELSE ReadReFrom(s, j + 2, acc \o <<BSL, s[j + 1]>>)
ReadRe(body) == ReadReFrom(body, 1, <<>>)

\* the specification's own printer for regexes: a slash is escaped; a
\* backslash pair is copied (a value never holds a backslash directly before
\* a slash or at its end -- RegexValue)
RECURSIVE SpellReFrom(_, _)
SpellReFrom(v, j) ==
  IF j > Len(v) THEN <<>>
  ELSE IF v[j] = BSL /\ j < Len(v) THEN <<BSL, v[j + 1]>> \o SpellReFrom(v, j + 2)
  ELSE IF v[j] = SLASH THEN <<BSL, SLASH>> \o SpellReFrom(v, j + 1)
  ELSE <<v[j]>> \o SpellReFrom(v, j + 1)
SpellRe(v) == <<SLASH>> \o SpellReFrom(v, 1) \o <<SLASH>>
Body(lit) == SubSeq(lit, 2, Len(lit) - 1)

\* ---- menus ----
HexFollowers == {D0, D7, D8, c_a, c_f, C_A, C_F, c_g}
\* multi-byte sequences: valid UTF-8 (printable and not), and invalid ones
Multi == { <<195, 169>>,            \* U+00E9  printable
           <<194, 133>>,            \* U+0085  control
           <<194, 173>>,            \* U+00AD  soft hyphen
           <<226, 128, 168>>,       \* U+2028  line separator
           <<239, 187, 191>>,       \* U+FEFF
           <<239, 191, 189>>,       \* U+FFFD
           <<240, 159, 152, 128>>,  \* U+1F600 printable, above U+FFFF
           <<243, 160, 128, 129>>,  \* U+E0001 not printable, above U+FFFF
           <<195>>, <<240, 159>>, <<237, 160, 128>>, <<192, 128>>, <<255>> }
StrValues(pairs) ==
     {<<b>> : b \in 0..255}
  \cup (IF pairs THEN {<<b, h>> : b \in 0..255, h \in HexFollowers} ELSE {<<b, h>> : b \in {0, 7, 31, 127, 128, 133, 255}, h \in {D0, c_a}})
  \cup Multi \cup {m \o <<h>> : m \in Multi, h \in {D0, c_a, C_F, c_g}}
  \cup { <<>>, <<c_a, DQ, c_b>>, <<BSL, c_n>>, <<c_a, LF, c_b>>, <<BSL, BSL, DQ>>, <<SLASH>>, <<39>> }

\* source spellings of strings that use the other POSIX escapes
EscSources == { <<BSL, c_n>>, <<BSL, c_t>>, <<BSL, c_r>>, <<BSL, c_a>>, <<BSL, c_b>>, <<BSL, c_f>>, <<BSL, c_v>>,
                <<BSL, SLASH>>, <<BSL, DQ>>, <<BSL, BSL>>, <<BSL, D0>>, <<BSL, D7, D8>>, <<BSL, D1, D2, D3, D4>>,
                <<BSL, D3, D7, D7>>, <<BSL, D1, D0, D1, c_a>>, <<c_a, BSL, BSL, c_n>>, <<BSL, BSL, BSL, DQ>>,
                <<BSL, D0, D0, D0, D1>> }

\* regex sources are sequences of these units
ReUnits == << <<c_a>>, <<BSL, SLASH>>, <<BSL, BSL>>, <<BSL, DOT>>, <<LBRK, BSL, SLASH, RBRK>>, <<EQ>>, <<SP>>, <<DQ>>,
              <<DOT>>, <<LBRK, c_a, BSL, SLASH, RBRK>>, <<BSL, DQ>>, <<c_b, STAR>> >>
RECURSIVE UnitSeqs(_)
UnitSeqs(n) == IF n = 0 THEN {<<>>} ELSE {<<u>> \o w : u \in 1..Len(ReUnits), w \in UnitSeqs(n - 1)}
ReSource(us) == Concat([j \in 1..Len(us) |-> ReUnits[us[j]]])
ReSources(n) == {ReSource(us) : us \in UNION {UnitSeqs(m) : m \in 1..n}}
=============================================================================
