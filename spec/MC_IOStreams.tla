---------------------------- MODULE MC_IOStreams ----------------------------
(* Exhaustive check of the C12 and C13 invariants on IOStreams over all      *)
(* histories of at most Depth actions, for every configuration in Cfgs, and  *)
(* over all sessions of at most MaxRuns such runs on one Interpreter, each   *)
(* run with a configuration of its own (C12: the flags and the open-file     *)
(* function in force are those of the current Execute).  Rich = 0: the menu   *)
(* of the files f1 f2 and the commands cat, cat3 plus ONE representative of   *)
(* each newer dimension (/dev/null, a /dev/.. spelling, a blank command line  *)
(* in the three forms, the directory / skipped / assignment operands; C13: a  *)
(* payload with an interior newline and one with CR LF in it, to stdout, a    *)
(* file and a command, a block appended to a file; C12: a file name in a       *)
(* directory that does not exist, written and read); Rich = 1: all of them.   *)
(* C13 runs take every newline                                                *)
(* output mode in NLs.                                                        *)
EXTENDS IOStreams, Json

CONSTANT Depth,        \* actions before the ending
         Sandbox,      \* TRUE: all 8 flag sets x custom open (C12);  FALSE: flags off (C13)
         FailMax,      \* C13: the stdout writer fails at offsets 0..FailMax (and never), plain and buffered,
                       \*      in every output mode
         MaxRuns,      \* Execute calls on one Interpreter
         Modes,        \* C13: the output modes (a subset of OModes)
         NLs,          \* C13: the newline output modes (a subset of NLModes; CRLF only with the default output mode)
         Rich          \* 0: one representative of each newer dimension, 1: all

ASSUME PrintT(ToJson([callsites |-> CallSites]))
ASSUME {NameSeq[k] : k \in 1..Len(NameSeq)} = SNames /\ Len(NameSeq) = Cardinality(SNames)

\* CRLF conversion: idempotent, leaves no bare LF, changes nothing but the CRs it adds
NoBareLF(s) == \A i \in 1..Len(s) : s[i] = LF => (i > 1 /\ s[i - 1] = CR)
StripCR(s) == SelectSeq(s, LAMBDA ch : ch # CR)
CrlfSamples == {ShapeArg(sh, 1) : sh \in Shapes} \cup {<<>>, <<LF>>, <<LF, LF>>, <<CR>>, <<CR, LF, LF>>, <<c_a, CR, CR, LF>>, <<c_a, LF, CR, LF>>}
ASSUME \A s \in CrlfSamples : /\ NoBareLF(CrlfOf(s)) /\ CrlfOf(CrlfOf(s)) = CrlfOf(s) /\ StripCR(CrlfOf(s)) = StripCR(s)
                               /\ (NoBareLF(s) => CrlfOf(s) = s)
                               /\ Len(CrlfOf(s)) = Len(s) + Cardinality({i \in 1..Len(s) : s[i] = LF /\ (i = 1 \/ s[i - 1] # CR)})

MFiles == {"f1", "f2"}
Cfgs ==
  IF Sandbox
  THEN {[ne |-> a, nw |-> b, nr |-> c, custom |-> d, failAt |-> 0 - 1, wkind |-> "plain", omode |-> "default", nlmode |-> "smart",
          stdin |-> << <<c_s>> >>, pre |-> {"f1"}] :
          a \in BOOLEAN, b \in BOOLEAN, c \in BOOLEAN, d \in BOOLEAN}
  ELSE {x \in {[ne |-> FALSE, nw |-> FALSE, nr |-> FALSE, custom |-> TRUE, failAt |-> k, wkind |-> w, omode |-> m, nlmode |-> nl,
                 stdin |-> <<>>, pre |-> {"f1"}] :
                 k \in (0 - 1)..FailMax, w \in {"plain", "bufio16"}, m \in Modes, nl \in NLs} :
          \* CRLF newlines: default output mode, and (the failing writer adds nothing there) a writer that never fails
          x.nlmode = "crlf" => (x.omode = "default" /\ x.failAt < 0 /\ x.wkind = "plain")}

MkPrint(dest, name, mode, form, sh) == [op |-> "print", dest |-> dest, name |-> name, mode |-> mode, form |-> form, cls |-> "lit", shape |-> sh]
MkAct(op, name, cls) == [op |-> op, name |-> name, cls |-> cls]
SandboxNew ==
  IF Rich = 1
  THEN Menu(MFiles \cup NullFiles, {"lit"} \cup PathClasses, {"print"}) \cup SandboxExtra({"lit"})
  ELSE { [op |-> "print", dest |-> "file", name |-> "/dev/null", mode |-> "trunc", form |-> "print", cls |-> "lit"],
         [op |-> "print", dest |-> "file", name |-> "f2", mode |-> "append", form |-> "print", cls |-> "devdd"],
         MkAct("getline_file", "/dev/null", "lit"), MkAct("getline_file", "f1", "devdd"), MkAct("operand", "f1", "dotdot"),
         MkAct("operand", "f2", "lit"), MkAct("operand", "d1", "lit"), MkAct("operand", "", "lit"), MkAct("operand", "v=1", "lit"),
         MkAct("system", "blank", "lit"), MkAct("getline_cmd", "empty", "lit"), MkAct("system", "spcat", "lit"),
         [op |-> "print", dest |-> "file", name |-> "nd/g1", mode |-> "append", form |-> "print", cls |-> "jailed"],
         MkAct("getline_file", "nd/g1", "lit"),
         [op |-> "print", dest |-> "cmd", name |-> "blank", mode |-> "pipe", form |-> "print", cls |-> "lit"] }
DeliveryNew ==
  IF Rich = 1 THEN ShapedPrints(MFiles, Shapes \ {"plain"})
  ELSE { MkPrint("stdout", "", "none", "printf", "mid"), MkPrint("stdout", "", "none", "print", "crlf"), MkPrint("file", "f2", "trunc", "printf", "mid"),
         MkPrint("file", "f1", "append", "print", "midnl"), MkPrint("cmd", "cat", "pipe", "printf", "mid"), MkPrint("file", "/dev/stderr", "trunc", "printf", "nl"),
         MkPrint("file", "f1", "append", "printf", "block") }

TheMenu == IF Sandbox THEN Menu(MFiles, {"lit"}, {"print"}) \cup SandboxNew
           ELSE Menu(MFiles, {"lit"}, {"print", "printf"}) \cup ExtraMenu({"lit"}) \cup DeliveryNew

VARIABLES st, cfg, last, run
vars == <<st, cfg, last, run>>
\* last = the action just taken and what the state before it looked like (for AttemptIsDenied)
NoLast == [act |-> [op |-> "none"], no |-> 0, np |-> 0, busy |-> FALSE, pid |-> 0]

Init == \E c \in Cfgs : cfg = c /\ st = InitState(c) /\ last = NoLast /\ run = 1

Busy(act) == IF act.op \in {"finish", "exit", "rterror"} \/ act.name \notin SNames THEN FALSE
             ELSE st.ins[act.name].open \/ st.outs[act.name].open

\* runs after the first are one action shorter (what they add is the change of configuration and the
\* file system left by their predecessor, not longer histories)
RunDepth == IF run = 1 THEN Depth ELSE Depth - 1

Step(act) == /\ Enabled(st, act)
             /\ (act \notin Endings => st.step < RunDepth)
             /\ st' = Apply(st, act)
             /\ last' = [act |-> act, no |-> Len(st.opens), np |-> Len(st.procs), busy |-> Busy(act),
                          pid |-> IF Busy(act) /\ st.outs[act.name].open THEN st.outs[act.name].pid ELSE 0]
             /\ UNCHANGED <<cfg, run>>

\* the next Execute on the same Interpreter, with any configuration
NewRun == /\ st.result # "run" /\ run < MaxRuns
          /\ \E c \in Cfgs : cfg' = c /\ st' = NextRun(st, c)
          /\ last' = NoLast /\ run' = run + 1

Next == (\E act \in TheMenu \cup Endings : Step(act)) \/ NewRun
Spec == Init /\ [][Next]_vars

OpenModes(m) == {k \in 1..Len(st.opens) : st.opens[k].mode \in m}

\* ------------------------------------------------------------------- C12
\* the flags and the open-file function in force are those of the Config of the current Execute
ConfigIsThisRuns == st.flags = [ne |-> cfg.ne, nw |-> cfg.nw, nr |-> cfg.nr] /\ st.custom = cfg.custom
\* every run starts with nothing open, nothing started, nothing logged
RunStartsFresh == st.step = 0 => (st.procs = <<>> /\ st.opens = <<>> /\ \A n \in SNames : ~st.outs[n].open /\ ~st.ins[n].open)
NoExecConfines   == st.flags.ne => st.procs = <<>>
NoWritesConfines == st.flags.nw => (OpenModes({"trunc", "append"}) = {} /\ st.fsys = st.fsys0)
NoReadsConfines  == st.flags.nr => (OpenModes({"read"}) = {} /\ st.everRead = {})
DeniedEndsRun    == st.denied => st.result = "error"
\* every touched file went through the open-file function
TouchedAreOpened ==
  \A n \in AllFiles :
    /\ st.fsys[n] # st.fsys0[n] => \E k \in OpenModes({"trunc", "append"}) : st.opens[k].name = n
    /\ n \in st.everRead => \E k \in OpenModes({"read"}) : st.opens[k].name = n
\* an attempt under a deny flag is refused at that very step, and a refused step opens / starts nothing
AttemptIsDenied ==
  LET act == last.act
      starts == act.op \in {"system", "getline_cmd"} \/ (act.op = "print" /\ act.dest = "cmd")
      \* whatever the name is and however it is spelled: any regular file, /dev/null, a directory, a missing file,
      \* any command line (also one without a command)
      writes == act.op = "print" /\ act.dest = "file" /\ act.name \in AllFiles \cup LostFiles
      reads  == act.op \in {"getline_file", "operand"} /\ act.name \in AllFiles \cup Dirs \cup LostFiles
  IN /\ (st.flags.ne /\ starts /\ ~last.busy) => st.denied
     /\ (st.flags.nw /\ writes /\ ~last.busy) => st.denied
     /\ (st.flags.nr /\ reads /\ ~last.busy) => st.denied
     /\ (st.denied /\ last.act.op \notin {"finish", "exit", "rterror", "none"}) =>
           (Len(st.opens) = last.no /\ Len(st.procs) = last.np)

\* /dev/null stays what it is
NullStaysEmpty == \A n \in NullFiles : st.fsys[n] = [ex |-> TRUE, c |-> <<>>]
\* operands that are not files open nothing and are never refused; a directory operand is refused or opened through
\* the function, and ends the run with an error either way
OperandKinds ==
  /\ (last.act.op = "operand" /\ last.act.name \in SkipOperands) => (Len(st.opens) = last.no /\ ~st.denied /\ st.result = "run")
  /\ (last.act.op = "operand" /\ last.act.name \in Dirs) =>
        /\ st.result = "error"
        /\ st.denied \/ (Len(st.opens) = last.no + 1 /\ st.opens[Len(st.opens)] = [name |-> last.act.name, mode |-> "read"])
\* a name in a directory that does not exist: refused, or exactly one call of the open-file function; and whatever a
\* run does, the file-system entries it creates are files it opened for writing through the open-file function
LostFileKinds ==
  (last.act.op \in {"print", "getline_file", "operand"} /\ last.act.name \in LostFiles) =>
     /\ st.denied \/ (Len(st.opens) = last.no + 1 /\ st.opens[Len(st.opens)].name = last.act.name)
     /\ last.act.op # "getline_file" => st.result = "error"
CreatedAreOpened ==
  \A n \in Prediction(st).created : \E k \in OpenModes({"trunc", "append"}) : st.opens[k].name = n
\* within a run a file is used under one spelling
OneSpelling == st.result = "run" => \A n \in Files : (st.outs[n].open \/ st.ins[n].open) => st.spell[n] # "none"

\* ------------------------------------------------------------------- C13
Ended == st.result # "run"
\* CRLF newlines forced on output: nothing that was written to any destination contains a bare LF
CrlfEverywhere ==
  st.crlf => /\ NoBareLF(st.swritten) /\ NoBareLF(st.serr)
             /\ \A n \in AllFiles : NoBareLF(st.wr[n].data)
             /\ \A k \in 1..Len(st.procs) : NoBareLF(st.procs[k].written)
FileDelivered ==
  \A n \in Files : st.wr[n].used =>
    /\ st.fsys[n].c \o (IF st.outs[n].open THEN st.outs[n].buf ELSE <<>>) = st.wr[n].base \o st.wr[n].data
    /\ Ended => ~st.outs[n].open
CmdDelivered ==
  \A k \in 1..Len(st.procs) :
    /\ (st.procs[k].kind = "out" /\ st.procs[k].done /\ Reads(st.procs[k].cmd)) => st.procs[k].fed = st.procs[k].written
    /\ ~Reads(st.procs[k].cmd) => st.procs[k].fed = <<>>        \* nothing reaches a command that does not read
    /\ Ended => st.procs[k].done /\ st.procs[k].hi >= st.procs[k].lo
StdoutDelivered ==
  /\ st.swritten = (IF st.sfail THEN st.swritten ELSE st.sdel \o st.sbuf)
  /\ (Ended /\ ~st.sfail) => st.sdel = st.swritten /\ st.sbuf = <<>>
FailingWriteFails == (st.result \in {"ok", "exit"}) => (st.sdel = st.swritten /\ (st.failAt < 0 \/ Len(st.swritten) <= st.failAt))
OneNameOneStream ==
  /\ \A n \in SNames : ~(st.outs[n].open /\ st.ins[n].open)
  /\ \A c \in Cmds : Cardinality({k \in 1..Len(st.procs) : st.procs[k].cmd = c /\ ~st.procs[k].done}) <= 1
CloseReportsStatus ==
  \A k \in 1..Len(st.notes) : (st.notes[k].k = "close" /\ st.notes[k].j) => st.notes[k].v \in {Status(c) : c \in OutCmds \cup InCmds}
\* close() of a command that does not read still reports its exit status (never "not open", never a flush failure)
CloseOfNonReader ==
  (last.act.op = "close" /\ last.busy /\ last.act.name \in NoReadCmds) =>
     (st.notes[Len(st.notes)].v = Status(last.act.name) /\ st.notes[Len(st.notes)].j /\ st.procs[last.pid].done)
\* a system() child finds every open output stream flushed: a child that shows file f1 shows everything the
\* program has written to it so far, and its output lies exactly between the program's output before and after
SystemSeesFlushed ==
  (last.act.op = "system" /\ ~st.denied) =>
     /\ \A n \in SNames : st.outs[n].open => st.outs[n].buf = <<>>
     /\ st.sbuf = <<>>
     /\ last.act.name \in FileCmds =>
          LET pr == st.procs[Len(st.procs)]
          IN /\ pr.sysout = (IF st.fsys["f1"].ex THEN st.fsys["f1"].c ELSE <<>>)
             /\ st.wr["f1"].used /\ st.outs["f1"].open => pr.sysout = st.wr["f1"].base \o st.wr["f1"].data
             /\ pr.lo = pr.hi /\ pr.done
\* the schedule "every child writes when it is waited for" is always one of the allowed outputs
SeqScheduleAllowed ==
  (Ended /\ ~st.sfail) => IsAllowedStdout(SeqSchedule(st.sdel, KidSeq(st), 0), st.sdel, KidSeq(st))
\* an output that drops the last byte of a child, or moves a child's byte in front of its window, is not
LossNotAllowed ==
  (Ended /\ ~st.sfail /\ KidSeq(st) # <<>>) =>
     LET s == SeqSchedule(st.sdel, KidSeq(st), 0)
     IN s # <<>> => ~IsAllowedStdout(SubSeq(s, 1, Len(s) - 1), st.sdel, KidSeq(st))
=============================================================================
