---------------------------- MODULE MC_IOStreams ----------------------------
(* Exhaustive check of the C12 and C13 invariants on IOStreams over all      *)
(* histories of at most Depth actions, for every configuration in Cfgs.      *)
EXTENDS IOStreams, Json

CONSTANT Depth,        \* actions before the ending
         Sandbox,      \* TRUE: all 8 flag sets x custom open (C12);  FALSE: flags off (C13)
         FailMax       \* C13: the stdout writer fails at offsets 0..FailMax (and never), plain and buffered

ASSUME PrintT(ToJson([callsites |-> CallSites]))

MFiles == {"f1", "f2"}
Cfgs ==
  IF Sandbox
  THEN {[ne |-> a, nw |-> b, nr |-> c, custom |-> d, failAt |-> 0 - 1, buffered |-> FALSE, stdin |-> << <<c_s>> >>, pre |-> {"f1"}] :
          a \in BOOLEAN, b \in BOOLEAN, c \in BOOLEAN, d \in BOOLEAN}
  ELSE {[ne |-> FALSE, nw |-> FALSE, nr |-> FALSE, custom |-> TRUE, failAt |-> k, buffered |-> b, stdin |-> <<>>, pre |-> {"f1"}] :
          k \in (0 - 1)..FailMax, b \in BOOLEAN}

TheMenu == IF Sandbox THEN Menu(MFiles, {"lit"}, {"print"}) ELSE Menu(MFiles, {"lit"}, {"print", "printf"})

VARIABLES st, cfg, last
vars == <<st, cfg, last>>
\* last = the action just taken and what the state before it looked like (for AttemptIsDenied)
NoLast == [act |-> [op |-> "none"], no |-> 0, np |-> 0, busy |-> FALSE]

Init == \E c \in Cfgs : cfg = c /\ st = InitState(c) /\ last = NoLast

Busy(act) == IF act.op \in {"finish", "exit", "rterror"} \/ act.name \notin SNames THEN FALSE
             ELSE st.ins[act.name].open \/ st.outs[act.name].open

Step(act) == /\ Enabled(st, act)
             /\ (act \notin Endings => st.step < Depth)
             /\ st' = Apply(st, act)
             /\ last' = [act |-> act, no |-> Len(st.opens), np |-> Len(st.procs), busy |-> Busy(act)]
             /\ UNCHANGED cfg

Next == \E act \in TheMenu \cup Endings : Step(act)
Spec == Init /\ [][Next]_vars

OpenModes(m) == {k \in 1..Len(st.opens) : st.opens[k].mode \in m}

\* ------------------------------------------------------------------- C12
NoExecConfines   == st.flags.ne => st.procs = <<>>
NoWritesConfines == st.flags.nw => (OpenModes({"trunc", "append"}) = {} /\ st.fsys = st.fsys0)
NoReadsConfines  == st.flags.nr => (OpenModes({"read"}) = {} /\ st.everRead = {})
DeniedEndsRun    == st.denied => st.result = "error"
\* every touched file went through the open-file function
TouchedAreOpened ==
  \A n \in Files :
    /\ st.fsys[n] # st.fsys0[n] => \E k \in OpenModes({"trunc", "append"}) : st.opens[k].name = n
    /\ n \in st.everRead => \E k \in OpenModes({"read"}) : st.opens[k].name = n
\* an attempt under a deny flag is refused at that very step, and a refused step opens / starts nothing
AttemptIsDenied ==
  LET act == last.act
      starts == act.op \in {"system", "getline_cmd"} \/ (act.op = "print" /\ act.dest = "cmd")
      writes == act.op = "print" /\ act.dest = "file" /\ act.name \in Files
      reads  == act.op \in {"getline_file", "operand"} /\ act.name \in Files
  IN /\ (st.flags.ne /\ starts /\ ~last.busy) => st.denied
     /\ (st.flags.nw /\ writes /\ ~last.busy) => st.denied
     /\ (st.flags.nr /\ reads /\ ~last.busy) => st.denied
     /\ (st.denied /\ last.act.op \notin {"finish", "exit", "rterror", "none"}) =>
           (Len(st.opens) = last.no /\ Len(st.procs) = last.np)

\* ------------------------------------------------------------------- C13
Ended == st.result # "run"
FileDelivered ==
  \A n \in Files : st.wr[n].used =>
    /\ st.fsys[n].c \o (IF st.outs[n].open THEN st.outs[n].buf ELSE <<>>) = st.wr[n].base \o st.wr[n].data
    /\ Ended => ~st.outs[n].open
CmdDelivered ==
  \A k \in 1..Len(st.procs) :
    /\ st.procs[k].kind = "out" /\ st.procs[k].done => st.procs[k].fed = st.procs[k].written
    /\ Ended => st.procs[k].done /\ st.procs[k].hi >= st.procs[k].lo
StdoutDelivered ==
  /\ st.swritten = (IF st.sfail THEN st.swritten ELSE st.sdel \o st.sbuf)
  /\ (Ended /\ ~st.sfail) => st.sdel = st.swritten /\ st.sbuf = <<>>
FailingWriteFails == (st.result \in {"ok", "exit"}) => (st.sdel = st.swritten /\ (st.failAt < 0 \/ Len(st.swritten) <= st.failAt))
OneNameOneStream ==
  /\ \A n \in SNames : ~(st.outs[n].open /\ st.ins[n].open)
  /\ \A c \in Cmds : Cardinality({k \in 1..Len(st.procs) : st.procs[k].cmd = c /\ ~st.procs[k].done}) <= 1
CloseReportsStatus ==
  \A k \in 1..Len(st.notes) : (st.notes[k].k = "close" /\ st.notes[k].j) => st.notes[k].v \in {Status(c) : c \in Cmds}
\* the schedule "every child writes when it is waited for" is always one of the allowed outputs
SeqScheduleAllowed ==
  (Ended /\ ~st.sfail) => IsAllowedStdout(SeqSchedule(st.sdel, KidSeq(st), 0), st.sdel, KidSeq(st))
\* an output that drops the last byte of a child, or moves a child's byte in front of its window, is not
LossNotAllowed ==
  (Ended /\ ~st.sfail /\ KidSeq(st) # <<>>) =>
     LET s == SeqSchedule(st.sdel, KidSeq(st), 0)
     IN s # <<>> => ~IsAllowedStdout(SubSeq(s, 1, Len(s) - 1), st.sdel, KidSeq(st))
=============================================================================
