----------------------------- MODULE Trace_Values -----------------------------
(* Validates observations recorded from the real interpreter against Values.tla *)
(* (code -> spec direction of C05).  The recorder runs the probe program of the *)
(* replay harness on longer random strings over a richer alphabet than the      *)
(* exhaustive model enumerates and writes, per string, one event for every      *)
(* distinct observation of a provenance class:                                   *)
(*   {"ev":"step","s":bytes,"class":"sn"|"st"|"nm","provs":[names],"cfi":i,     *)
(*    "ofi":j,"obs":{"eq":[..],"lt":[..],"gt":[..],"not":0|1,                    *)
(*                   "num":{"t","neg","d","x","ed","ex"},"cat":bytes,"prt":bytes}}*)
(*   {"ev":"reset"}  between strings                                             *)
(* An event is explained if SOME dialect that matters for the string predicts    *)
(* every observable that the specification pins down (entries -1 / Unmodelled    *)
(* are not compared).                                                            *)
EXTENDS ValuesCases, TraceBase

VARIABLES l
vars == <<l>>
Init == l = 1

BitsMatch(p, o) == Len(p) = Len(o) /\ \A j \in 1..Len(p) : p[j] < 0 \/ p[j] = o[j]
NumMatch(p, o) ==
  \/ p.t = "unm"
  \/ /\ p.t = o.t
     /\ CASE p.t = "nan" -> TRUE
          [] p.t = "inf" -> p.neg = o.neg
          [] p.t = "fin" -> IF p.d = <<>> THEN o.d = <<>>
                            ELSE p.neg = o.neg /\ ((p.d = o.d /\ p.x = o.x) \/ (p.d = o.ed /\ p.x = o.ex))
StrMatch(p, o) == IsUnmStr(p) \/ p = o
ObsMatch(p, o) ==
  /\ BitsMatch(p.eq, o.eq) /\ BitsMatch(p.lt, o.lt) /\ BitsMatch(p.gt, o.gt)
  /\ (p.not < 0 \/ p.not = o.not)
  /\ NumMatch(p.num, o.num)
  /\ StrMatch(p.cat, o.cat) /\ StrMatch(p.prt, o.prt)

Pred(ev, dl) ==
  LET sp == StrPred(ev.s, dl, ev.cfi, ev.ofi)
  IN CASE ev.class = "sn" -> sp.sn [] ev.class = "st" -> sp.st [] ev.class = "nm" -> sp.nm

Explains(ev) == \E dl \in RelDialects(ev.s) : ObsMatch(Pred(ev, dl), ev.obs)

TStep ==
  /\ l <= NLog /\ Log[l].ev = "step"
  /\ LET ev == Log[l]
     IN IF Explains(ev)
        THEN l' = l + 1
        ELSE /\ Reject(l, [class |-> ev.class, cls |-> StrClass(ev.s), expected |-> Pred(ev, GoawkDialect)])
             /\ l' = l + 1           \* observations are independent: the next one can still be judged
TReset == l <= NLog /\ Log[l].ev = "reset" /\ l' = l + 1
TDone == l = NLog + 1 /\ PrintT("TRACE-END") /\ l' = l + 1
Next == TStep \/ TReset \/ TDone
Spec == Init /\ [][Next]_vars
=============================================================================
