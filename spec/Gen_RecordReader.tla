-------------------------- MODULE Gen_RecordReader --------------------------
(* Case export for C07: one JSON line per (input, RS) with the records the    *)
(* specification predicts.  The delivery schedules of MC_RecordReader (every  *)
(* composition of Len(input)) are regenerated mechanically by the harness, so *)
(* that the 2^(n-1) factor costs replay time and not TLC output.  Under BFS   *)
(* every input of length <= MaxLen over the entry's alphabet is exported;     *)
(* under -simulate the walks build random inputs and only those of length     *)
(* >= EmitMin are exported.                                                   *)
EXTENDS RecordReader, TLC, Json

CONSTANTS MaxLen, EmitMin, Sel      \* Sel: "base", "extra" (the entries only the rich menu has), "all", "long" (inputs built
                                    \* from blocks; MaxLen then counts blocks) or the name of one entry

VARIABLES input, ment, phase
vars == <<input, ment, phase>>

CaseOf(inp, m) ==
  [fam |-> "rr", name |-> m.name, kind |-> m.rs.k, cls |-> m.cls, rstext |-> RsText(m.rs), input |-> inp,
   recs |-> Records(inp, m.rs), judge |-> JudgeRecs(inp, m.rs), judgert |-> JudgeRT(m.rs),
   prefixok |-> PrefixOK(inp, m.rs) /\ JudgeRecs(inp, m.rs)]

Init == ment \in MenuSel(Sel) /\ input = <<>> /\ phase = 0

Start ==
  /\ phase = 0 /\ phase' = 1
  /\ (EmitMin = 0 => PrintT(ToJson(CaseOf(input, ment))))
  /\ UNCHANGED <<input, ment>>

\* phase - 1 = number of symbols (bytes, or blocks for the entries of LongMenu) appended so far
Blk(m, ch) == IF m \in LongMenu THEN ch ELSE <<ch>>
Extend ==
  /\ phase >= 1 /\ phase - 1 < MaxLen /\ phase' = phase + 1
  /\ \E ch \in ment.alpha :
       /\ input' = input \o Blk(ment, ch)
       /\ (phase >= EmitMin => PrintT(ToJson(CaseOf(input', ment))))
  /\ UNCHANGED <<ment>>

Next == Start \/ Extend
Spec == Init /\ [][Next]_vars
=============================================================================
