-------------------------- MODULE Gen_RecordReader --------------------------
(* Case export for C07: one JSON line per (input, RS) with the records the    *)
(* specification predicts.  The delivery schedules of MC_RecordReader (every  *)
(* composition of Len(input)) are regenerated mechanically by the harness, so *)
(* that the 2^(n-1) factor costs replay time and not TLC output.  Under BFS   *)
(* every input of length <= MaxLen over the entry's alphabet is exported;     *)
(* under -simulate the walks build random inputs and only those of length     *)
(* >= EmitMin are exported.                                                   *)
EXTENDS RecordReader, TLC, Json

CONSTANTS MaxLen, EmitMin, Sel      \* Sel: "base", "extra" (the entries only the rich menu has) or "all"

VARIABLES input, ment, phase
vars == <<input, ment, phase>>

CaseOf(inp, m) ==
  [fam |-> "rr", name |-> m.name, kind |-> m.rs.k, cls |-> m.cls, rstext |-> RsText(m.rs), input |-> inp,
   recs |-> Records(inp, m.rs), judge |-> JudgeRecs(inp, m.rs), judgert |-> JudgeRT(m.rs),
   prefixok |-> PrefixOK(inp, m.rs) /\ JudgeRecs(inp, m.rs)]

Init == ment \in MenuSel(Sel) /\ input = <<>> /\ phase = 0

Start ==
  /\ phase = 0 /\ phase' = 1
  /\ (EmitMin = 0 => PrintT(ToJson(CaseOf(input, ment))))
  /\ UNCHANGED <<input, ment>>

Extend ==
  /\ phase = 1 /\ Len(input) < MaxLen
  /\ \E ch \in ment.alpha :
       /\ input' = Append(input, ch)
       /\ (Len(input') >= EmitMin => PrintT(ToJson(CaseOf(input', ment))))
  /\ UNCHANGED <<ment, phase>>

Next == Start \/ Extend
Spec == Init /\ [][Next]_vars
=============================================================================
