----------------------------- MODULE Gen_Lexer -----------------------------
(* Behaviour export for Lexer.tla (spec -> code direction of C03).           *)
(*                                                                           *)
(* Families (Fams selects which are generated in a run):                     *)
(* "bytes": every source over the byte alphabet Alpha of length 1..MaxBytes  *)
(*   (BFS), or random sources whose length is drawn from Targets (-simulate; *)
(*   a source is exported when it reaches its target length).                *)
(* "soup": sources spelled as sequences of token spellings (TokAlpha,        *)
(*   indices TokSet), each followed by a separator from Seps (nothing,       *)
(*   blank, newline, backslash-newline, CR LF, ...): all sequences of        *)
(*   1..MaxToks tokens (BFS) or random ones (-simulate).                     *)
(* "file": the sources listed in srcs.ndjson ({"src":[bytes],"rx":bool} per  *)
(*   line) -- windows of the repository's AWK corpus with one mutation,      *)
(*   truncated programs, sources of rejected recorded traces -- chosen by    *)
(*   the harness; the prediction is still entirely the specification's.      *)
(* Each exported line carries the source, the token stream Lex predicts      *)
(* (kind class, start offset, TRUE line and column of the first byte), the   *)
(* line table that decides which error positions exist in the source, and    *)
(* the line table of the text the command line tool parses.  A bytes/soup    *)
(* source that contains a slash is exported a second time with rx = TRUE     *)
(* (ScanRegex is called after every / and /= token).                         *)
EXTENDS Lexer, Json, TLC

CONSTANTS Fams, Alpha, MaxBytes, MaxToks, Targets, Sim, TokSet, SepSet

\* ---- token spellings and separators of the soup family ----
TokAlpha ==
  << <<D1, c_e>>, <<D1, c_e, PLUS>>, <<DOT, D5, C_E, MINUS>>, <<D1>>, <<D1, DOT, D5, c_e, D3>>,
     <<c_x>>, <<c_e, D1>>, <<C_B, C_E, C_G, C_I, C_N>>, <<c_p, c_r, c_i, c_n, c_t>>,
     <<DQ, c_s, DQ>>, <<DQ, BSL, LF, DQ>>, <<SLASH>>, <<LPAR>>, <<RPAR>>, <<LBRC>>, <<RBRC>>, <<SEMI>>, <<EQ>>,
     <<PLUS, PLUS>>, <<MINUS>>, <<DOLLAR>>, <<HASH, c_c>>, <<195, 169>>, <<DQ, c_s>>,
     \* (1..24 above: the quick menu)
     <<c_g, c_e, c_t, c_l, c_i, c_n, c_e>>, <<c_f, c_u, c_n, c_c, c_t, c_i, c_o, c_n>>, <<c_i, c_n>>,
     <<D1, DOT>>, <<DQ, BSL, DQ, DQ>>, <<APOS, c_q, APOS>>, <<DQ, 195, 169, DQ>>, <<DQ, BSL, c_x, D4, D1, DQ>>,
     <<SLASH, EQ>>, <<COMMA>>, <<PLUS>>, <<TILDE>>, <<BAR, BAR>>, <<AMP, AMP>>, <<LT>>, <<GT, GT>>,
     <<STAR, STAR, EQ>>, <<BANG>>, <<LBRK>>, <<RBRK>>, <<QM>>, <<COLON>>, <<AMP>>, <<DOT>>, <<NUL>>, <<BSL>> >>
Toks == {TokAlpha[i] : i \in TokSet \cap (1..Len(TokAlpha))}
SepAlpha == << <<>>, <<SP>>, <<LF>>, <<BSL, LF>>, <<CR, LF>>, <<BSL, CR, LF>>, <<TAB>>, <<CR>> >>
Seps == {SepAlpha[i] : i \in SepSet \cap (1..Len(SepAlpha))}

Srcs == ndJsonDeserialize("srcs.ndjson")

HasSlash(s) == \E i \in 1..Len(s) : s[i] = SLASH
\* (the JSON text is computed before PrintT is entered: TLC evaluates PrintT's argument under a
\* global lock, which would serialise the workers)
Out(f, s, r) == LET j == ToJson(Export(f, s, r)) IN Len(j) > 0 /\ PrintT(j)
Emit(f, s) == Out(f, s, FALSE) /\ (HasSlash(s) => Out(f, s, TRUE))

\* n: number of chunks appended so far (for "file": index into Srcs); target: chunks to append
VARIABLES fam, src, n, target
vars == <<fam, src, n, target>>

Init == \/ /\ fam \in Fams \cap {"bytes", "soup"} /\ src = <<>> /\ n = 0
           /\ target \in (IF Sim THEN Targets ELSE {IF fam = "bytes" THEN MaxBytes ELSE MaxToks})
           /\ ((~Sim /\ fam = "bytes") => Emit(fam, <<>>))
        \/ /\ "file" \in Fams /\ fam = "file" /\ src = <<>> /\ target = 0
           /\ n \in 1..Len(Srcs)

Chunks(f) == IF f = "bytes" THEN {<<b>> : b \in Alpha} ELSE {t \o p : t \in Toks, p \in Seps}

\* (In simulation mode TLC evaluates every successor of a state before picking one; a random source is
\* therefore grown with RandomElement -- one successor per step, drawn from TLC's seeded generator --
\* and exported in a separate last step.  Under BFS every source is exported when it is created.)
Next == \/ /\ ~Sim /\ fam \in {"bytes", "soup"} /\ n < target
           /\ \E c \in Chunks(fam) :
                /\ src' = src \o c
                /\ n' = n + 1
                /\ Emit(fam, src')
           /\ UNCHANGED <<fam, target>>
        \/ /\ Sim /\ fam \in {"bytes", "soup"} /\ n < target
           /\ src' = src \o RandomElement(Chunks(fam))
           /\ n' = n + 1
           /\ UNCHANGED <<fam, target>>
        \/ /\ Sim /\ fam \in {"bytes", "soup"} /\ n = target
           /\ Emit(fam, src)
           /\ n' = n + 1 /\ UNCHANGED <<fam, src, target>>
        \/ /\ fam = "file" /\ target = 0
           /\ Out("file", Srcs[n].src, Srcs[n].rx)
           /\ target' = 1 /\ UNCHANGED <<fam, src, n>>

Spec == Init /\ [][Next]_vars
=============================================================================
