---------------------------- MODULE Trace_Grammar ----------------------------
(* Code -> spec direction for Grammar.tla and GrammarLit.tla.                 *)
(*                                                                            *)
(* kind "expr": the harness records, for the statement-level expressions of a *)
(* corpus of real AWK programs, the tokens of the text the REAL printer gives *)
(* the expression (atoms renamed into the specification's alphabet) and the   *)
(* REAL syntax tree as an S-expression.  The specification's parser -- the    *)
(* shift/reduce machine MC_Grammar explores -- reads the tokens.  If the text *)
(* is inside the strict language, the tree the table gives it must be the     *)
(* recorded one.                                                              *)
(* kind "str" / "re": a string or regex literal as the REAL printer writes it *)
(* (strconv.Quote / formatRegex applied to a node of a real syntax tree) with *)
(* the node's value.  The specification reads the printed literal with the    *)
(* POSIX lexical rules (ReadStr / ReadRe) and must obtain the node's value.   *)
(*                                                                            *)
(* A text outside the strict language, or a string literal that uses an       *)
(* escape POSIX does not define (\x.., \u....), is not judged: the module     *)
(* prints {"unjudged": line} and goes on (the replay direction judges those   *)
(* with the real lexer and parser).                                           *)
(*   {"ev":"step","kind":"expr","ctx":c,"toks":[...],"sx":"..."}              *)
(*   {"ev":"step","kind":"str"|"re","lit":[bytes],"val":[bytes]}              *)
(*   {"ev":"reset"}                                                           *)
EXTENDS Grammar, GrammarLit, TraceBase

VARIABLES l, judged
vars == <<l, judged>>

Init == l = 1 /\ judged = 0

CtxOf(ev) == IF ev.ctx \in Contexts THEN ev.ctx ELSE "stmt"
Bytes(x) == [j \in 1..Len(x) |-> x[j]]
WellDelimited(lit, q) == Len(lit) >= 2 /\ lit[1] = q /\ lit[Len(lit)] = q

\* verdict on one event: [judged, ok, info]
Verdict(ev) ==
  IF ev.kind = "expr" THEN
     LET r == Parse(ev.toks, CtxOf(ev))
         sx == CtxSx(CtxOf(ev), Sx(r.t))
     IN [judged |-> r.ok, ok |-> sx = ev.sx, info |-> [sx |-> sx]]
  ELSE
     LET lit == Bytes(ev.lit)
         q == IF ev.kind = "str" THEN DQ ELSE SLASH
         wd == WellDelimited(lit, q)
         r == IF ~wd THEN [ok |-> TRUE, v |-> <<>>]
              ELSE IF ev.kind = "str" THEN ReadStr(Body(lit)) ELSE ReadRe(Body(lit))
     IN [judged |-> r.ok, ok |-> wd /\ r.v = Bytes(ev.val), info |-> [val |-> r.v, delimited |-> wd]]

TStep ==
  /\ l <= NLog /\ Log[l].ev = "step"
  /\ LET v == Verdict(Log[l])
     IN IF ~v.judged
        THEN /\ PrintT(ToJson([unjudged |-> l]))
             /\ l' = l + 1 /\ judged' = judged
        ELSE IF v.ok
        THEN l' = l + 1 /\ judged' = judged + 1
        ELSE /\ Reject(l, v.info)
             /\ l' = AfterNextReset(l) /\ judged' = judged + 1

TReset == l <= NLog /\ Log[l].ev = "reset" /\ l' = l + 1 /\ UNCHANGED judged

TDone == l = NLog + 1 /\ PrintT(ToJson([judged |-> judged])) /\ PrintT("TRACE-END") /\ l' = l + 1 /\ UNCHANGED judged

Next == TStep \/ TReset \/ TDone
Spec == Init /\ [][Next]_vars
=============================================================================
