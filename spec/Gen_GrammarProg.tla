--------------------------- MODULE Gen_GrammarProg ---------------------------
(* Behaviour export for C20 (GrammarProg.tla + GrammarLit.tla).  Families:    *)
(*  "prog"  every program whose body is a derivation of at most MaxS statement *)
(*          productions, for every rotation of the expression menu: source     *)
(*          text (the specification's own printer) and S-expression;           *)
(*  "shape" the fixed menu of program shapes;                                  *)
(*  "str"   string values (every byte, bytes followed by hex digits, multi-    *)
(*          byte sequences) spelled by SpellStr; "esc" sources using the       *)
(*          other POSIX escapes with the value ReadStr gives them;             *)
(*  "re"    regex sources with the value ReadRe gives them;                    *)
(*  "num"   numeric literal spellings (no predicted value: numbers are         *)
(*          compared to six significant digits by the replayer).               *)
(* `rt` is the prediction the property makes: what the program printed by the  *)
(* real printer must denote when parsed again (the same as the source).        *)
EXTENDS GrammarProg, GrammarLit, Json

CONSTANTS MaxS, Shifts, Pairs, ReLen

VARIABLES deriv, pending, lit
vars == <<deriv, pending, lit>>

NumSpellings == <<"0", "1", "42", "1e3", "1e6", "1e15", "1e16", "1e21", "1e999", "1e-400", ".5", "1.", "1.5e", "0x10", "010",
                  "100000000000000000000", "1234567.5", "9223372036854775808", "9223372036854775807", "0.1234567", "1e-7",
                  "123456789", "1.5", "3.14159265358979", "1E3", "1e+3", "0.000001", "1234567", "999999.5", "4294967296",
                  "2147483648", "1e300", "1.7976931348623157e308", "5e-324", "0.1", "100000", "1000000", "123456.7">>

Init == deriv = <<>> /\ pending = <<"S">> /\ lit = "start"

ExpandS(p) ==
  /\ lit = "start"
  /\ CanExpandS(deriv, pending, p, MaxS)
  /\ deriv' = Append(deriv, p)
  /\ pending' = SHoles(p, Head(pending)) \o Tail(pending)
  /\ UNCHANGED lit
  /\ pending' = <<>> =>
       \A sh \in Shifts :
         LET b == BuildProg(deriv', sh)
         IN PrintT(ToJson([fam |-> "prog", toks |-> b.toks, sx |-> b.sx, rt |-> b.sx, deriv |-> deriv', shift |-> sh]))

\* the literal and shape families are exported once, from the initial state
Literals ==
  /\ lit = "start" /\ deriv = <<>>
  /\ lit' = "done"
  /\ UNCHANGED <<deriv, pending>>
  /\ \A j \in 1..NX : Assert(MenuEntryOK(XMenu[j]), <<"expression menu entry is not what the strict parser reads", j>>)
  /\ \A v \in StrValues(Pairs) :
        Assert(ReadStr(Body(SpellStr(v))) = [ok |-> TRUE, v |-> v], <<"ReadStr(SpellStr(v)) # v", v>>) /\
        PrintT(ToJson([fam |-> "str", lit |-> SpellStr(v), val |-> v, rt |-> v]))
  /\ \A s \in EscSources : LET r == ReadStr(s) IN
        Assert(r.ok, <<"escape menu entry outside POSIX", s>>) /\
        PrintT(ToJson([fam |-> "str", lit |-> <<DQ>> \o s \o <<DQ>>, val |-> r.v, rt |-> r.v]))
  /\ \A s \in ReSources(ReLen) : LET r == ReadRe(s) IN
        Assert(r.ok /\ ReadRe(Body(SpellRe(r.v))) = r, <<"regex menu entry unreadable, or ReadRe(SpellRe(v)) # v", s>>) /\
        PrintT(ToJson([fam |-> "re", lit |-> <<SLASH>> \o s \o <<SLASH>>, val |-> r.v, rt |-> r.v]))
  /\ \A j \in 1..Len(NumSpellings) : PrintT(ToJson([fam |-> "num", lit |-> NumSpellings[j]]))
  /\ \A j \in 1..Len(Shapes) : PrintT(ToJson([fam |-> "shape", toks |-> Shapes[j].toks, sx |-> Shapes[j].sx, rt |-> Shapes[j].sx]))
  /\ \A j \in 1..NX : PrintT(ToJson([fam |-> "shape", toks |-> <<"BEGIN", "{">> \o XMenu[j].toks \o <<"}">>,
                                     sx |-> "(program (begin (expr " \o XMenu[j].sx \o ")))",
                                     rt |-> "(program (begin (expr " \o XMenu[j].sx \o ")))"]))
  \* a parenthesised print list of two arguments, for every pair of menu entries of which one is only safe in a print
  \* argument when the list (or the argument) keeps its parentheses (ptoks # toks: a bare > or | getline inside)
  /\ \A j \in 1..NX : \A k \in 1..NX :
        (XMenu[j].ptoks # XMenu[j].toks \/ XMenu[k].ptoks # XMenu[k].toks) =>
          LET sx == "(program (begin (print " \o XMenu[j].sx \o " " \o XMenu[k].sx \o ")))"
          IN PrintT(ToJson([fam |-> "shape", toks |-> <<"BEGIN", "{", "print", "(">> \o XMenu[j].toks \o <<",">> \o XMenu[k].toks \o <<")", "}">>,
                            sx |-> sx, rt |-> sx]))

Next == (\E p \in SProds \cup BProds : ExpandS(p)) \/ Literals
Spec == Init /\ [][Next]_vars
=============================================================================
