---------------------------- MODULE Gen_IOStreams ----------------------------
(* Behaviour export for IOStreams.  Three families (CONSTANT Family):        *)
(*  "sandbox"  (C12) every single I/O action (names written literally and     *)
(*             computed at run time), every pair of actions, and every triple *)
(*             X(n); close(n); Y(n) on one name, under the 8 flag sets, with  *)
(*             and without a custom open-file function;                       *)
(*  "delivery" (C13) every history of at most Depth actions, flags off,       *)
(*             ending normally, by exit, or by a run-time error;              *)
(*  "failure"  (C13) histories that write to standard output, with the        *)
(*             writer failing at every byte offset, plain and buffered.       *)
(* One JSON line per finished run: configuration, actions, Prediction(st).    *)
EXTENDS IOStreams, Json

CONSTANT Family, Depth, Rich

GFiles == {"f1", "f2"}
Act(op, name, cls) == [op |-> op, name |-> name, cls |-> cls]
Pr(dest, name, mode, form, cls) == [op |-> "print", dest |-> dest, name |-> name, mode |-> mode, form |-> form, cls |-> cls]

SandboxCfgs == {[ne |-> a, nw |-> b, nr |-> c, custom |-> d, failAt |-> 0 - 1, buffered |-> FALSE, stdin |-> << <<c_s>> >>, pre |-> {"f1"}] :
                  a \in BOOLEAN, b \in BOOLEAN, c \in BOOLEAN, d \in BOOLEAN}
DeliveryCfg == [ne |-> FALSE, nw |-> FALSE, nr |-> FALSE, custom |-> TRUE, failAt |-> 0 - 1, buffered |-> FALSE, stdin |-> <<>>, pre |-> {"f1"}]
FailureCfgs == {[DeliveryCfg EXCEPT !.failAt = k, !.buffered = b] : k \in 0..(2 * Depth), b \in BOOLEAN}

SandboxMenu(classes) == Menu(GFiles, classes, {"print"})
\* Rich = 0: the core actions (used for the deepest histories), 1: the standard menu, 2: + printf forms, cat3 readers
CoreMenu ==
  { Pr("stdout", "", "none", "print", "lit"), Pr("file", "f1", "trunc", "print", "lit"), Pr("file", "f1", "append", "print", "lit"),
    Pr("file", "/dev/stdout", "trunc", "print", "lit"), Pr("cmd", "cat", "pipe", "print", "lit"),
    Act("close", "f1", "lit"), Act("close", "cat", "lit"), Act("fflush", "", "lit"), Act("fflush", "cat", "lit"),
    Act("getline_file", "f1", "lit"), Act("system", "cat", "lit"), Act("operand", "f1", "lit") }
StdMenu ==
       {Pr("stdout", "", "none", f, "lit") : f \in (IF Rich = 2 THEN {"print", "printf"} ELSE {"print"})}
  \cup {Pr("file", n, m, "print", "lit") : n \in GFiles, m \in {"trunc", "append"}}
  \cup {Pr("file", n, "trunc", "print", "lit") : n \in StdNames}
  \cup {Pr("cmd", c, "pipe", "print", "lit") : c \in Cmds}
  \cup {Act("close", n, "lit") : n \in GFiles \cup Cmds}
  \cup {Act("fflush", n, "lit") : n \in {"", "cat", "f1"}}
  \cup {Act("system", "cat", "lit"), Act("getline_cmd", "cat", "lit")}
  \cup {Act("getline_file", n, "lit") : n \in GFiles \cup {"-"}}
  \cup {Act("operand", n, "lit") : n \in GFiles}
  \cup (IF Rich = 2 THEN {Pr("file", "f1", "trunc", "printf", "lit"), Pr("cmd", "cat", "pipe", "printf", "lit"),
                          Act("system", "cat3", "lit"), Act("getline_cmd", "cat3", "lit")} ELSE {})
DeliveryMenu == IF Rich = 0 THEN CoreMenu ELSE StdMenu
FailureMenu ==
       {Pr("stdout", "", "none", f, "lit") : f \in {"print", "printf"}}
  \cup {Pr("file", n, "trunc", "print", "lit") : n \in {"-", "/dev/stdout", "f2"}}
  \cup {Act("fflush", "", "lit"), Act("close", "f2", "lit")}

VARIABLES st, cfg, h
vars == <<st, cfg, h>>

Init == /\ cfg \in (CASE Family = "sandbox" -> SandboxCfgs [] Family = "delivery" -> {DeliveryCfg} [] Family = "failure" -> FailureCfgs)
        /\ st = InitState(cfg)
        /\ h = <<>>

SameName(a, b) == a.op \notin {"exit", "rterror", "finish"} /\ a.name \in SNames /\ b.name = a.name

\* Process starts are by far the most expensive thing to replay: where NoExec is off (so that processes
\* really start) the sandbox family uses the process-starting actions on their own only (unless Rich = 2).
IsExec(a) == a.op \in {"system", "getline_cmd"} \/ (a.op = "print" /\ a.dest = "cmd")
IsPrintf(a) == a.op = "print" /\ a.form = "printf"
Cheap(S) == IF cfg.ne \/ Rich = 2 THEN S ELSE {a \in S : ~IsExec(a)}
Choices ==
  IF Family = "sandbox"
  THEN CASE Len(h) = 0 -> SandboxMenu({"lit", "computed"}) \cup Menu(GFiles, {"lit"}, {"printf"})   \* printf is an opcode of its own
         [] Len(h) = 1 -> IF h[1].cls = "lit" /\ ~IsPrintf(h[1]) /\ (cfg.ne \/ Rich = 2 \/ ~IsExec(h[1])) THEN Cheap(SandboxMenu({"lit"})) ELSE {}
         [] Len(h) = 2 -> IF IsIO(h[1]) /\ h[2].op = "close" /\ SameName(h[1], h[2])
                          THEN {a \in Cheap(SandboxMenu({"lit"})) : IsIO(a) /\ a.name = h[1].name} ELSE {}
         [] OTHER -> {}
  ELSE IF Family = "delivery" THEN DeliveryMenu
  ELSE FailureMenu

TheEndings == IF Family = "sandbox" THEN {[op |-> "finish"]} ELSE Endings

Export(s2, h2) ==
  PrintT(ToJson([fam |-> Family,
                 cfg |-> [ne |-> cfg.ne, nw |-> cfg.nw, nr |-> cfg.nr, custom |-> cfg.custom, failAt |-> cfg.failAt,
                          buffered |-> cfg.buffered, stdin |-> cfg.stdin, pre |-> cfg.pre],
                 acts |-> h2, pred |-> Prediction(s2)]))

\* one more action; a run that ends by itself (refusal, name conflict) is exported at once
Do == /\ st.result = "run" /\ Len(h) < Depth
      /\ \E act \in Choices :
           /\ Enabled(st, act)
           /\ st' = Apply(st, act)
           /\ h' = Append(h, act)
           /\ st'.result # "run" => Export(st', h')
           /\ UNCHANGED cfg

\* the run ends here (every prefix is a history of its own)
\* (random walks, Depth > 4, only export the longer histories)
MinStop == IF Depth > 4 THEN Depth - 3 ELSE 1
Stop == /\ st.result = "run" /\ Len(h) >= MinStop
        /\ \E act \in TheEndings :
             /\ Enabled(st, act)
             /\ st' = Apply(st, act)
             /\ h' = Append(h, act)
             /\ (Family = "failure" => (cfg.failAt <= Len(st'.swritten) /\ st'.swritten # <<>>))
             /\ Export(st', h')
             /\ UNCHANGED cfg

Next == Do \/ Stop
Spec == Init /\ [][Next]_vars
=============================================================================
