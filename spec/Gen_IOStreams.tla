---------------------------- MODULE Gen_IOStreams ----------------------------
(* Behaviour export for IOStreams.  Four families (CONSTANT Family):         *)
(*  "sandbox"  (C12) every single I/O action (names written literally and     *)
(*             computed at run time; the regular files also under the three   *)
(*             other spellings of their path; /dev/null; command lines that   *)
(*             are empty, blank, or start with blanks in all three forms;     *)
(*             operands that are a directory, a missing file, the empty       *)
(*             string, an assignment; a file name in a directory that does    *)
(*             not exist, written with > and >> by print and printf, read by  *)
(*             getline and as an operand, spelled absolute / computed /       *)
(*             relative / relative to the root of a name-mapping open-file    *)
(*             function), every pair of actions of the older                  *)
(*             menu, the pairs of an older action and one of NewPair (a       *)
(*             representative of each newer dimension) in both orders, every  *)
(*             operand after an operand that is not a file, and every triple  *)
(*             X(n); close(n); Y(n) on one name, under the 8 flag sets, with  *)
(*             and without a custom open-file function; and (Runs >= 2)       *)
(*             SESSIONS: Runs Execute calls on one Interpreter, a short first *)
(*             run (nothing / a file written / a file read) followed by a run *)
(*             of one I/O action under a DIFFERENT configuration (Rich < 2:   *)
(*             one flag or the custom open function flipped; Rich = 2: any,   *)
(*             and two actions where one thing was flipped);                  *)
(*  "delivery" (C13) every history of at most Depth actions, flags off,       *)
(*             ending normally, by exit, or by a run-time error;              *)
(*  "failure"  (C13) histories that write to standard output (print, printf,  *)
(*             print with two arguments, and the implied print of a rule that *)
(*             has a pattern and no action), in default, CSV and TSV mode,    *)
(*             with the writer failing at every byte offset (and never: the   *)
(*             control in which everything must arrive), the writer being     *)
(*             plain or a buffered writer of 3, 16 or 4096 bytes;             *)
(*  "newline"  (C13) the newline output modes raw, crlf and smart x print and *)
(*             printf of every payload shape (plain; ending with a newline;   *)
(*             an interior newline with and without a final one; CR LF inside;*)
(*             one string as large as a stream buffer, "block")               *)
(*             to standard output, "-", /dev/stdout, /dev/stderr, a file (>   *)
(*             and >>), `cat` and "  cat": every single action with every     *)
(*             ending, and (Depth >= 2) every pair of such actions on ONE     *)
(*             destination, or one followed by close / fflush (Rich < 2:      *)
(*             pairs in raw and crlf mode only, the second payload one of     *)
(*             plain / mid / crlf / block; a block is paired with plain and   *)
(*             block payloads only).                                          *)
(* One JSON line per finished run: configuration, actions, Prediction(st);    *)
(* for a session: fam = "session", runs = one such record per Execute.        *)
EXTENDS IOStreams, Json

CONSTANT Family, Depth, Rich, Runs

GFiles == {"f1", "f2"}
Act(op, name, cls) == [op |-> op, name |-> name, cls |-> cls]
Pr(dest, name, mode, form, cls) == [op |-> "print", dest |-> dest, name |-> name, mode |-> mode, form |-> form, cls |-> cls]

SandboxCfgs == {[ne |-> a, nw |-> b, nr |-> c, custom |-> d, failAt |-> 0 - 1, wkind |-> "plain", omode |-> "default", nlmode |-> "smart",
                  stdin |-> << <<c_s>> >>, pre |-> {"f1"}] :
                  a \in BOOLEAN, b \in BOOLEAN, c \in BOOLEAN, d \in BOOLEAN}
DeliveryCfg == [ne |-> FALSE, nw |-> FALSE, nr |-> FALSE, custom |-> TRUE, failAt |-> 0 - 1, wkind |-> "plain", omode |-> "default", nlmode |-> "smart",
                stdin |-> <<>>, pre |-> {"f1"}]
NewlineCfgs == {[DeliveryCfg EXCEPT !.nlmode = nl] : nl \in NLModes}
\* a failure at every byte offset (a history of Depth actions writes at most 4 * Depth bytes), and never (-1)
\* Rich = 1 leaves out the combinations that add least: the 16-byte writer in default mode, and in TSV mode
\* (which differs from CSV mode in the separator only) the 3-byte and the 4096-byte writer.  Rich = 0 (used for
\* the deepest histories) keeps the plain and the 4096-byte writer in default mode, the plain and the 3-byte one in CSV mode.
WriterModes == {wm \in WKinds \X OModes :
                  CASE Rich = 2 -> TRUE
                    [] Rich = 0 -> wm \in {<<"plain", "default">>, <<"bufio4096", "default">>, <<"plain", "csv">>, <<"bufio3", "csv">>}
                    [] OTHER    -> ~(wm[2] = "default" /\ wm[1] = "bufio16") /\ ~(wm[2] = "tsv" /\ wm[1] \in {"bufio3", "bufio4096"})}
FailureCfgs == {[DeliveryCfg EXCEPT !.failAt = k, !.wkind = wm[1], !.omode = wm[2]] : k \in (0 - 1)..(4 * Depth), wm \in WriterModes}

SandboxMenu(classes) == Menu(GFiles, classes, {"print"})
\* every action of the newer dimensions (used on its own)
NewSingles == {a \in Menu(GFiles \cup NullFiles, {"lit", "computed"} \cup PathClasses, {"print"}) \cup SandboxExtra({"lit", "computed"}) :
                 a \notin SandboxMenu({"lit", "computed"}) /\ (a.cls \in PathClasses => IsIO(a))}
\* one representative of each newer dimension (used in pairs with the older menu, and in the later runs of sessions)
NewPair == { Pr("file", "/dev/null", "trunc", "print", "lit"), Act("getline_file", "/dev/null", "lit"), Act("getline_file", "f1", "devdd"),
             Pr("file", "f2", "append", "print", "devdd"), Act("system", "blank", "lit"), Act("operand", "d1", "lit"), Act("operand", "", "lit") }
           \cup (IF Rich = 2 THEN {Pr("file", "nd/g1", "trunc", "print", "lit")} ELSE {})
\* the newline family: shaped print / printf to every kind of destination
NewlineMenu == {a \in ShapedPrints({"f1"}, Shapes) : ~(a.dest = "file" /\ a.name \in StdNames /\ a.mode = "append") /\ a.name # "cat3"
                                                     /\ ~(ShapeOf(a) = "block" /\ a.name \in LeadCmds)}
\* a block is paired with plain payloads and blocks only
BlockOK(a, b) == "block" \in {ShapeOf(a), ShapeOf(b)} => {ShapeOf(a), ShapeOf(b)} \subseteq {"plain", "block"}
SameDest(a, b) == a.dest = b.dest /\ a.name = b.name
\* Rich = 0: the core actions (used for the deepest histories), 1: the standard menu, 2: + printf forms, cat3 readers
CoreMenu ==
  { Pr("stdout", "", "none", "print", "lit"), Pr("file", "f1", "trunc", "print", "lit"), Pr("file", "f1", "append", "print", "lit"),
    Pr("file", "/dev/stdout", "trunc", "print", "lit"), Pr("cmd", "cat", "pipe", "print", "lit"),
    Act("close", "f1", "lit"), Act("close", "cat", "lit"), Act("fflush", "", "lit"), Act("fflush", "cat", "lit"),
    Act("getline_file", "f1", "lit"), Act("system", "cat", "lit"), Act("operand", "f1", "lit"),
    Pr("cmd", "exit3", "pipe", "print", "lit"), Act("close", "exit3", "lit"), Act("system", "showf1", "lit") }
StdMenu ==
       {Pr("stdout", "", "none", f, "lit") : f \in (IF Rich = 2 THEN {"print", "printf"} ELSE {"print"})}
  \cup {Pr("file", n, m, "print", "lit") : n \in GFiles, m \in {"trunc", "append"}}
  \cup {Pr("file", n, "trunc", "print", "lit") : n \in StdNames}
  \cup {Pr("cmd", c, "pipe", "print", "lit") : c \in Cmds}
  \cup {Act("close", n, "lit") : n \in GFiles \cup Cmds}
  \cup {Act("fflush", n, "lit") : n \in {"", "cat", "f1"}}
  \cup {Act("system", "cat", "lit"), Act("getline_cmd", "cat", "lit")}
  \cup {Pr("cmd", "exit3", "pipe", "print", "lit"), Act("close", "exit3", "lit"), Act("system", "showf1", "lit")}
  \cup {Act("getline_file", n, "lit") : n \in GFiles \cup {"-"}}
  \cup {Act("operand", n, "lit") : n \in GFiles}
  \cup (IF Rich = 2 THEN {Pr("file", "f1", "trunc", "printf", "lit"), Pr("cmd", "cat", "pipe", "printf", "lit"),
                          Act("system", "cat3", "lit"), Act("getline_cmd", "cat3", "lit"),
                          Act("fflush", "exit3", "lit"), Pr("stdout", "", "none", "print2", "lit")} ELSE {})
DeliveryMenu == IF Rich = 0 THEN CoreMenu ELSE StdMenu
FailureMenu ==
       {Pr("stdout", "", "none", f, "lit") : f \in {"print", "printf", "print2", "implied"}}
  \cup {Pr("file", n, "trunc", "print", "lit") : n \in {"-", "/dev/stdout", "f2"}}
  \cup {Act("fflush", "", "lit"), Act("close", "f2", "lit")}

\* prev: the finished runs of the session so far, as exported ([cfg, acts, pred]); <<>> in the first run
VARIABLES st, cfg, h, prev
vars == <<st, cfg, h, prev>>

Init == /\ cfg \in (CASE Family = "sandbox" -> SandboxCfgs [] Family = "delivery" -> {DeliveryCfg} [] Family = "failure" -> FailureCfgs
                        [] Family = "newline" -> NewlineCfgs)
        /\ st = InitState(cfg)
        /\ h = <<>>
        /\ prev = <<>>

SameName(a, b) == a.op \notin {"exit", "rterror", "finish"} /\ a.name \in SNames /\ b.name = a.name

\* Process starts are by far the most expensive thing to replay: where NoExec is off (so that processes
\* really start) the sandbox family uses the process-starting actions on their own only (unless Rich = 2).
IsExec(a) == a.op \in {"system", "getline_cmd"} \/ (a.op = "print" /\ a.dest = "cmd")
IsPrintf(a) == a.op = "print" /\ a.form = "printf"
Cheap(S) == IF cfg.ne \/ Rich = 2 THEN S ELSE {a \in S : ~IsExec(a)}
\* ---- sessions (family "sandbox", Runs >= 2)
CfgOut(c) == [ne |-> c.ne, nw |-> c.nw, nr |-> c.nr, custom |-> c.custom, failAt |-> c.failAt,
              wkind |-> c.wkind, omode |-> c.omode, nlmode |-> c.nlmode, stdin |-> c.stdin, pre |-> c.pre]
Bits(c) == <<c.ne, c.nw, c.nr, c.custom>>
NDiff(a, b) == Cardinality({k \in 1..4 : Bits(a)[k] # Bits(b)[k]})
\* the configuration of the next Execute: different from this one's
NextCfgs(c) == {d \in SandboxCfgs : IF Rich = 2 THEN d # c ELSE NDiff(c, d) = 1}
\* first runs worth continuing: nothing, a file written, a file read (each possibly refused by this run's flags)
WarmUps == {Pr("file", "f2", "trunc", "print", "lit"), Act("getline_file", "f1", "lit")}
\* what a later run does: one I/O action, or a close() (nothing of the previous run is open any more).  Where
\* NoExec is off, process-starting actions only after an empty first run under NoExec (the change that matters
\* for them), unless Rich = 2.
LaterMenu == {a \in SandboxMenu({"lit"}) \cup NewPair : (IsIO(a) \/ a.op = "close") /\ (IsExec(a) => (cfg.ne \/ Rich = 2 \/ (prev[Len(prev)].cfg.ne /\ Len(prev[Len(prev)].acts) = 1)))}

Choices ==
  IF Family = "sandbox" /\ prev # <<>>
  THEN (IF Len(h) = 0 THEN LaterMenu
        \* Rich = 2: a second action (no process start) where one thing changed between the configurations
        \* (not with the representatives of the newer name dimensions: they are paired within one run, see below)
        ELSE IF Rich = 2 /\ Len(h) = 1 /\ ~IsExec(h[1]) /\ h[1] \notin NewPair /\ NDiff(prev[Len(prev)].cfg, cfg) = 1
        THEN {a \in LaterMenu : ~IsExec(a) /\ a \notin NewPair} ELSE {})
  ELSE IF Family = "sandbox"
  THEN CASE Len(h) = 0 -> SandboxMenu({"lit", "computed"}) \cup Menu(GFiles, {"lit"}, {"printf"})   \* printf is an opcode of its own
                          \cup NewSingles
         [] Len(h) = 1 -> IF h[1].op = "operand" /\ h[1].name \in SkipOperands      \* every operand after one that is not a file
                          THEN {a \in SandboxMenu({"lit"}) \cup NewSingles : a.op = "operand" /\ a.cls = "lit"}
                          ELSE IF h[1] \in NewPair /\ (cfg.ne \/ Rich = 2 \/ ~IsExec(h[1])) THEN Cheap(SandboxMenu({"lit"}))
                          ELSE IF h[1] \in NewSingles THEN (IF Rich = 2 /\ h[1].cls = "lit" THEN Cheap(SandboxMenu({"lit"})) ELSE {})
                          ELSE IF h[1].cls = "lit" /\ ~IsPrintf(h[1]) /\ (cfg.ne \/ Rich = 2 \/ ~IsExec(h[1]))
                          THEN Cheap(SandboxMenu({"lit"}) \cup NewPair) ELSE {}
         [] Len(h) = 2 -> IF h[1].op = "operand" THEN {}
                          ELSE IF IsIO(h[1]) /\ h[2].op = "close" /\ SameName(h[1], h[2])
                          THEN {a \in Cheap(SandboxMenu({"lit"})) : IsIO(a) /\ a.name = h[1].name} ELSE {}
         [] OTHER -> {}
  ELSE IF Family = "delivery" THEN DeliveryMenu
  ELSE IF Family = "newline"
  THEN (IF Len(h) = 0 THEN NewlineMenu
        ELSE IF Len(h) = 1 /\ (Rich = 2 \/ cfg.nlmode # "smart")
        THEN {a \in NewlineMenu : SameDest(a, h[1]) /\ BlockOK(a, h[1]) /\ (Rich = 2 \/ ShapeOf(a) \in {"plain", "mid", "crlf", "block"})}
             \cup (IF h[1].name \in SNames THEN {Act("close", h[1].name, "lit"), Act("fflush", h[1].name, "lit")} ELSE {})
        ELSE IF Len(h) >= 2 /\ Rich = 2 THEN {a \in NewlineMenu : SameDest(a, h[1]) /\ ShapeOf(a) \in {"mid", "crlf"}}
        ELSE {})
  ELSE FailureMenu

TheEndings == IF Family = "sandbox" \/ (Family = "newline" /\ Len(h) > 1 /\ Rich < 2) THEN {[op |-> "finish"]} ELSE Endings

RunRec(s2, h2) == [cfg |-> CfgOut(cfg), acts |-> h2, pred |-> Prediction(s2)]
Export(s2, h2) ==
  IF prev = <<>>
  THEN PrintT(ToJson([fam |-> Family, cfg |-> CfgOut(cfg), acts |-> h2, pred |-> Prediction(s2)]))
  ELSE PrintT(ToJson([fam |-> "session", runs |-> Append(prev, RunRec(s2, h2))]))

\* one more action; a run that ends by itself (refusal, name conflict) is exported at once
Do == /\ st.result = "run" /\ Len(h) < Depth
      /\ \E act \in Choices :
           /\ Enabled(st, act)
           /\ st' = Apply(st, act)
           /\ h' = Append(h, act)
           /\ st'.result # "run" => Export(st', h')
           /\ UNCHANGED <<cfg, prev>>

\* the run ends here (every prefix is a history of its own)
\* (random walks, Depth > 4, only export the longer histories)
MinStop == IF Depth > 4 THEN Depth - 3 ELSE 1
Stop == /\ st.result = "run" /\ Len(h) >= MinStop
        /\ \E act \in TheEndings :
             /\ Enabled(st, act)
             /\ st' = Apply(st, act)
             /\ h' = Append(h, act)
             /\ (Family = "failure" => (cfg.failAt <= Len(st'.swritten) /\ st'.swritten # <<>>))
             /\ Export(st', h')
             /\ UNCHANGED <<cfg, prev>>

\* the next Execute on the same Interpreter: the short run so far ends normally here (or has been ended by a
\* refusal), and a run with another configuration follows
IsEnding(a) == a.op \in {"finish", "exit", "rterror"}
Continue ==
  /\ Family = "sandbox" /\ Len(prev) + 1 < Runs
  /\ h = <<>> \/ (Len(h) = 1 /\ h[1] \in WarmUps)
  /\ LET sEnd == IF st.result = "run" THEN Apply(st, [op |-> "finish"]) ELSE st
         hEnd == IF st.result = "run" THEN Append(h, [op |-> "finish"]) ELSE h
     IN \E c \in NextCfgs(cfg) :
          /\ prev' = Append(prev, RunRec(sEnd, hEnd))
          /\ cfg' = c
          /\ st' = NextRun(sEnd, c)
          /\ h' = <<>>

Next == Do \/ Stop \/ Continue
Spec == Init /\ [][Next]_vars
=============================================================================
