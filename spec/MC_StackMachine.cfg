SPECIFICATION Spec
INVARIANTS NoFault DepthBounded
CHECK_DEADLOCK FALSE
