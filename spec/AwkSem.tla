------------------------------- MODULE AwkSem -------------------------------
(***************************************************************************)
(* Reference semantics of AWK programs: a big-step evaluator over the      *)
(* syntax tree.  This is what "direct evaluation of the program's syntax   *)
(* tree under AWK semantics" means in property C01; it knows nothing about *)
(* byte code.  C11 (input bookkeeping), C18 (coverage ghost counters) and  *)
(* C02 (guards) reuse it.                                                  *)
(*                                                                         *)
(* Numbers are integers of magnitude <= MaxNum; a computation that leaves  *)
(* the modelled domain (inexact division, large values, numeric-looking    *)
(* strings that are not plain integers, exhausted loop fuel) yields the    *)
(* signal "bad" and the program is not exported.                           *)
(*                                                                         *)
(* Syntax trees are records tagged by field k.                             *)
(* Expressions                                                             *)
(*  [k|->"num",n]  [k|->"str",s]  [k|->"var",name]  [k|->"field",e]        *)
(*  [k|->"idx",arr,e]       a[e]      (e may be [k|->"multi",es] for a[i,j]) *)
(*  [k|->"bin",op,l,r]      op in + - * / % ^ < <= == != > >= cat && ||    *)
(*  [k|->"un",op,e]         op in - + !                                    *)
(*  [k|->"assign",lv,e]  [k|->"aug",op,lv,e]  [k|->"incr",op,pre,lv]       *)
(*  [k|->"cond",c,t,f]  [k|->"in",e,arr]  [k|->"match",neg,e,re]           *)
(*  [k|->"call",f,args]  [k|->"bi",f,args] (builtins)  [k|->"group",e]     *)
(* Statements                                                              *)
(*  [k|->"print",args] [k|->"expr",e] [k|->"if",c,t,f] [k|->"while",c,b]   *)
(*  [k|->"do",b,c] [k|->"for",pre,c,post,b] [k|->"forin",v,arr,b]          *)
(*  [k|->"break"] [k|->"continue"] [k|->"next"] [k|->"exit",e]             *)
(*  [k|->"return",e] [k|->"delete",arr,e] [k|->"block",b] [k|->"getline"]  *)
(* "No expression" is NoE; statement lists are sequences.                  *)
(* Program: [begin, rules (seq of [pat, body, nobody]), end, funcs]        *)
(*  funcs: sequence of [name, params (seq of [n, arr]), body]              *)
(***************************************************************************)
EXTENDS Record, TLC

CONSTANTS MaxNum, Fuel

NoE == [k |-> "none"]

\* ------------------------------------------------------------------ values
Null      == [t |-> "null"]
Num(m)    == [t |-> "num", n |-> m]
Str(str)  == [t |-> "str", s |-> str]
StrNum(str) == [t |-> "strnum", s |-> str]     \* input-derived text
Bad       == [t |-> "bad"]
NaN       == [t |-> "nan"]             \* the not-a-number value (log of a negative number): unordered, not zero

Abs(m) == IF m < 0 THEN 0 - m ELSE m

\* integer prefix: blanks, optional sign, digits.  Returns <<value, endpos, ndigits>>
RECURSIVE DigitRun(_, _, _, _)
DigitRun(str, k, acc, cnt) ==
  IF k <= Len(str) /\ IsDigit(str[k]) /\ cnt < 7
  THEN DigitRun(str, k + 1, acc * 10 + (str[k] - 48), cnt + 1)
  ELSE <<acc, k, cnt>>
IntPrefix(str) ==
  LET st0 == SkipBlanks(str, 1)
      neg == st0 <= Len(str) /\ str[st0] = MINUS
      sgn == st0 <= Len(str) /\ str[st0] \in {MINUS, PLUS}
      dr  == DigitRun(str, IF sgn THEN st0 + 1 ELSE st0, 0, 0)
  IN [val |-> IF neg THEN 0 - dr[1] ELSE dr[1], end |-> dr[2], nd |-> dr[3]]

\* Strings whose numeric reading this model is sure of: printable ASCII (plus tab, newline) whose
\* numeric prefix, if any, is a plain integer of at most 6 digits -- nothing that could be a
\* fraction, an exponent, a hex, inf or nan form.
SafeStr(str) ==
  /\ \A j \in 1..Len(str) : (str[j] >= 32 /\ str[j] <= 126) \/ str[j] \in {TAB, LF}
  /\ LET st0 == SkipBlanks(str, 1)
         k == IF st0 <= Len(str) /\ str[st0] \in {MINUS, PLUS} THEN st0 + 1 ELSE st0
     IN IF k > Len(str) THEN TRUE
        ELSE IF str[k] \in {c_i, C_I, c_n, C_N, DOT} THEN FALSE
        ELSE IF IsDigit(str[k])
             THEN LET dr == DigitRun(str, k, 0, 0)
                  IN dr[3] < 7 /\ (dr[2] > Len(str) \/ str[dr[2]] \notin {DOT, c_e, C_E, c_x, C_X, c_p, 80, USCORE})
             ELSE TRUE

\* the whole string is blanks? sign? digits+ blanks?
LooksInt(str) ==
  LET ip == IntPrefix(str) IN ip.nd > 0 /\ SkipBlanks(str, ip.end) > Len(str)

BADN == 2000000000        \* "not a modelled number"
StrToNum(str) ==          \* an integer, or BADN
  IF ~SafeStr(str) THEN BADN
  ELSE LET ip == IntPrefix(str) IN IF ip.nd >= 7 THEN BADN ELSE ip.val

InRange(m) == Abs(m) <= MaxNum

ToNum(v) ==               \* integer or BADN
  CASE v.t = "null" -> 0
    [] v.t = "num"  -> v.n
    [] v.t \in {"str", "strnum"} -> StrToNum(v.s)
    [] OTHER -> BADN

ToStr(v) ==               \* byte string
  CASE v.t = "null" -> <<>>
    [] v.t = "num"  -> IntStr(v.n)
    [] v.t = "nan"  -> <<c_n, c_a, c_n>>
    [] OTHER -> v.s

IsBadV(v) == v.t = "bad"

\* true string?  (comparison is numeric iff neither operand is one)
TrueStr(v) == v.t = "str" \/ (v.t = "strnum" /\ ~LooksInt(v.s))
Risky(v)   == v.t \in {"str", "strnum"} /\ ~SafeStr(v.s)

B2I(bv) == IF bv THEN 1 ELSE 0
Truth(v) ==               \* 1 true / 0 false / 2 outside the model
  CASE v.t = "null" -> 0
    [] v.t = "nan"  -> 1
    [] v.t = "num"  -> B2I(v.n # 0)
    [] v.t = "str"  -> B2I(v.s # <<>>)
    [] v.t = "strnum" -> IF ~SafeStr(v.s) THEN 2
                         ELSE IF LooksInt(v.s) THEN (IF StrToNum(v.s) = BADN THEN 2 ELSE B2I(StrToNum(v.s) # 0))
                         ELSE B2I(v.s # <<>>)
    [] OTHER -> 2

\* byte-wise lexicographic order
RECURSIVE StrLess(_, _)
StrLess(x, y) ==
  IF y = <<>> THEN FALSE
  ELSE IF x = <<>> THEN TRUE
  ELSE IF x[1] # y[1] THEN x[1] < y[1]
  ELSE StrLess(Tail(x), Tail(y))

\* -1 / 0 / 1, or 9 (outside the model)
\* 0 - 1 / 0 / 1, 8 = unordered (a NaN compared numerically), 9 = outside the model
Cmp(x, y) ==
  IF Risky(x) \/ Risky(y) THEN 9
  ELSE IF x.t = "nan" \/ y.t = "nan"
       THEN IF TrueStr(x) \/ TrueStr(y) THEN 9 ELSE 8
  ELSE IF TrueStr(x) \/ TrueStr(y)
       THEN LET sx == ToStr(x) sy == ToStr(y)
            IN IF sx = sy THEN 0 ELSE IF StrLess(sx, sy) THEN 0 - 1 ELSE 1
       ELSE LET nx == ToNum(x) ny == ToNum(y)
            IN IF nx = BADN \/ ny = BADN THEN 9
               ELSE IF nx = ny THEN 0 ELSE IF nx < ny THEN 0 - 1 ELSE 1

CmpOp(op, cv) ==
  IF cv = 8 THEN op = "!="         \* unordered: every comparison is false except !=
  ELSE
  CASE op = "<"  -> cv < 0
    [] op = "<=" -> cv <= 0
    [] op = "==" -> cv = 0
    [] op = "!=" -> cv # 0
    [] op = ">"  -> cv > 0
    [] op = ">=" -> cv >= 0

Bool(bv) == IF bv THEN Num(1) ELSE Num(0)

RECURSIVE IPowAcc(_, _, _)
IPowAcc(acc, x, y) == IF y = 0 \/ Abs(acc) > MaxNum THEN acc ELSE IPowAcc(acc * x, x, y - 1)
IPow(x, y) == IF Abs(x) > MaxNum THEN x ELSE IPowAcc(1, x, y)

\* arithmetic on integers; returns a value, Bad, or DivZero
DivZero == [t |-> "divzero"]
Arith(op, x, y) ==
  CASE op = "+" -> IF InRange(x + y) THEN Num(x + y) ELSE Bad
    [] op = "-" -> IF InRange(x - y) THEN Num(x - y) ELSE Bad
    [] op = "*" -> IF InRange(x * y) THEN Num(x * y) ELSE Bad
    [] op = "/" -> IF y = 0 THEN DivZero
                   ELSE IF (Abs(x) % Abs(y)) # 0 THEN Bad
                   ELSE LET q == Abs(x) \div Abs(y) IN Num(IF (x < 0) # (y < 0) THEN 0 - q ELSE q)
    [] op = "%" -> IF y = 0 THEN DivZero
                   ELSE LET q == Abs(x) % Abs(y) IN Num(IF x < 0 THEN 0 - q ELSE q)
    [] op = "^" -> IF y < 0 \/ y > 12 THEN Bad
                   ELSE LET pw == IPow(x, y) IN IF InRange(pw) THEN Num(pw) ELSE Bad

\* ------------------------------------------------------------------- state
\* g     globals: function name -> value
\* fr    stack of frames: function name -> value | [t |-> "aref", id]
\* arr   arrays: function id -> (function key -> value)
\* rec   the record (Record.tla);  ftag: which fields were assigned by the program
\* sp    special variables other than NF: name -> value
\* out   standard output;  sig/rv control signal;  fuel; fresh;  input environment: see InitState
\* cnt   ghost: how many times each labelled statement began (C18)
Lookup(fn, key, dflt) == IF key \in DOMAIN fn THEN fn[key] ELSE dflt
Update(fn, key, val) == [x \in DOMAIN fn \cup {key} |-> IF x = key THEN val ELSE fn[x]]
Remove(fn, key) == [x \in DOMAIN fn \ {key} |-> fn[x]]
EmptyFn == [x \in {} |-> 0]

Specials == {"NF", "NR", "FNR", "OFS", "ORS", "FS", "SUBSEP", "RSTART", "RLENGTH", "CONVFMT", "OFMT", "FILENAME", "RS", "ARGC"}

\* Input environment: env = [stdin (records), files (name -> records), args (operands)]
\*   cur      the main-input source now open: [open, name, pos]  (name "-" is standard input)
\*   argi     index of the next ARGV element to look at;  hadFiles as in the implementation
\*   stdinpos next unread record of standard input;  readers: getline-from-file positions
InitState(env, funcs) ==
  [g |-> EmptyFn, fr |-> <<>>,
   arr |-> [x \in {"ARGV"} |-> [key \in {IntStr(j) : j \in 0..Len(env.args)} |->
                                  IF key = <<D0>> THEN Str(<<c_g, c_o, c_a, c_w, c_k>>)
                                  ELSE StrNum(env.args[CHOOSE j \in 1..Len(env.args) : IntStr(j) = key])]],
   rec |-> RecInit, ftag |-> {}, ltag |-> FALSE, funcs |-> funcs,
   sp |-> [x \in {"NR", "FNR", "OFS", "ORS", "FS", "SUBSEP", "RSTART", "RLENGTH", "ARGC", "FILENAME"} |->
             CASE x \in {"NR", "FNR", "RSTART", "RLENGTH"} -> Num(0)
               [] x = "ARGC" -> Num(Len(env.args) + 1)
               [] x = "FILENAME" -> Null
               [] x = "OFS" -> Str(<<SP>>) [] x = "ORS" -> Str(<<LF>>)
               [] x = "FS" -> Str(<<SP>>) [] x = "SUBSEP" -> Str(<<28>>)],
   out |-> <<>>, sig |-> "norm", rv |-> Null, fuel |-> Fuel, fresh |-> 0, status |-> 0,
   stdin |-> env.stdin, stdinpos |-> 1, files |-> env.files, argi |-> 1, hadFiles |-> FALSE,
   cur |-> [open |-> FALSE, name |-> <<>>, pos |-> 1], readers |-> EmptyFn, inrange |-> {},
   taken |-> 0, nrSet |-> FALSE,        \* ghosts: records taken from the main input; NR assigned by the program
   noArgVars |-> ("noargvars" \in DOMAIN env) /\ env.noargvars,   \* operands of the form var=value are file names (goawk -E)
   mainStdin |-> FALSE, dashUsed |-> FALSE,   \* ghosts: standard input read by the main loop / through getline < "-"
   cnt |-> EmptyFn]

Halt(st, sg) == [st EXCEPT !.sig = sg]
Live(st) == st.sig = "norm"

IsLocal(st, name) == st.fr # <<>> /\ name \in DOMAIN st.fr[Len(st.fr)]
ArrId(st, name) == IF IsLocal(st, name) THEN st.fr[Len(st.fr)][name].id ELSE name
ArrGet(st, id) == Lookup(st.arr, id, EmptyFn)

GetVar(st, name) ==
  IF IsLocal(st, name) THEN st.fr[Len(st.fr)][name]
  ELSE IF name = "NF" THEN Num(RecNF(st.rec))
  ELSE IF name \in Specials THEN Lookup(st.sp, name, Null)
  ELSE Lookup(st.g, name, Null)

FsOf(v) ==                 \* FS value -> Record separator, or [k |-> "bad"]
  LET str == ToStr(v)
  IN IF str = <<SP>> THEN FsSpace
     ELSE IF Len(str) = 1 /\ str[1] \in {COMMA, COLON, SEMI, TAB, SLASH} THEN FsChar(str[1])
     ELSE [k |-> "bad"]

SetVar(st, name, v) ==
  IF IsLocal(st, name) THEN [st EXCEPT !.fr[Len(st.fr)] = Update(@, name, v)]
  ELSE IF name = "NF" THEN
    LET m == ToNum(v)
    IN IF m = BADN THEN Halt(st, "bad")
       ELSE IF m < 0 THEN Halt(st, "err")
       ELSE IF m > 20 THEN Halt(st, "bad")
       ELSE [st EXCEPT !.rec = RecSetNF(st.rec, m), !.ftag = {j \in st.ftag : j <= m}, !.ltag = TRUE]
  ELSE IF name = "FS" THEN
    LET fsv == FsOf(v)
    IN IF fsv.k = "bad" THEN Halt(st, "bad")
       ELSE [st EXCEPT !.sp = Update(@, name, v), !.rec = RecSetFS(st.rec, fsv)]
  ELSE IF name = "OFS" THEN [st EXCEPT !.sp = Update(@, name, v), !.rec = RecSetOFS(st.rec, ToStr(v))]
  ELSE IF name \in {"NR", "FNR", "ORS", "SUBSEP", "RSTART", "RLENGTH", "ARGC", "FILENAME"}
       THEN [st EXCEPT !.sp = Update(@, name, v), !.nrSet = @ \/ name = "NR"]
  ELSE IF name \in Specials THEN Halt(st, "bad")
  ELSE [st EXCEPT !.g = Update(@, name, v)]

GetField(st, m) ==
  IF m = 0 THEN (IF ~st.ltag THEN StrNum(st.rec.line) ELSE [t |-> "fstr", s |-> st.rec.line])
  ELSE LET j == IF m < 0 THEN RecNF(st.rec) + 1 + m ELSE m
       IN IF j >= 1 /\ j <= RecNF(st.rec)
          THEN (IF j \in st.ftag THEN [t |-> "fstr", s |-> st.rec.fields[j]] ELSE StrNum(st.rec.fields[j]))
          ELSE Str(<<>>)
\* a field the program assigned: its comparison typing is left open here, so a
\* comparison or truth test on it is outside the model ("fstr" is not handled by
\* Cmp/Truth and becomes bad through Norm below); everything else treats it as text.
Norm(v) == IF v.t = "fstr" THEN Str(v.s) ELSE v

SetField(st, m, v) ==
  IF m < 0 \/ m > 20 THEN Halt(st, "bad")
  ELSE IF m = 0 THEN [st EXCEPT !.rec = RecSet0(st.rec, ToStr(v)), !.ftag = {}, !.ltag = TRUE]
  ELSE [st EXCEPT !.rec = RecSetField(st.rec, m, ToStr(v)), !.ftag = @ \cup {m}, !.ltag = TRUE]

\* ------------------------------------------------- sub/gsub and printf text
\* ExpandRepl and Substitute (sub / gsub on a text) are in Regex.tla

\* printf/sprintf for the directives %d %s %c(har of a string) %% with optional '-' and width;
\* anything else is outside this model.  Returns bytes, or <<0 - 1>> for "outside the model",
\* or <<0 - 2>> for a run-time error (too few arguments).
PadTo(txt, width, left) ==
  IF Len(txt) >= width THEN txt
  ELSE LET pad == [j \in 1..(width - Len(txt)) |-> SP] IN IF left THEN txt \o pad ELSE pad \o txt
FmtBad == <<0 - 1>>
FmtErr == <<0 - 2>>
RECURSIVE FormatFrom(_, _, _, _)
FormatFrom(fm, k, vals, ai) ==
  IF k > Len(fm) THEN <<>>
  ELSE IF fm[k] # PCT THEN
         LET rest == FormatFrom(fm, k + 1, vals, ai)
         IN IF rest = FmtBad \/ rest = FmtErr THEN rest ELSE <<fm[k]>> \o rest
  ELSE IF k = Len(fm) THEN FmtBad
  ELSE IF fm[k + 1] = PCT THEN
         LET rest == FormatFrom(fm, k + 2, vals, ai)
         IN IF rest = FmtBad \/ rest = FmtErr THEN rest ELSE <<PCT>> \o rest
  ELSE LET left == fm[k + 1] = MINUS
           ws == IF left THEN k + 2 ELSE k + 1
           dr == DigitRun(fm, ws, 0, 0)
           vk == dr[2]
       IN IF vk > Len(fm) \/ fm[vk] \notin {c_d, c_s} \/ dr[3] > 2 THEN FmtBad
          ELSE IF ai > Len(vals) THEN FmtErr
          ELSE LET v == vals[ai]
                   txt == IF fm[vk] = c_s THEN ToStr(v)
                          ELSE IF ToNum(v) = BADN THEN FmtBad ELSE IntStr(ToNum(v))
                   rest == FormatFrom(fm, vk + 1, vals, ai + 1)
               IN IF txt = FmtBad THEN FmtBad
                  ELSE IF rest = FmtBad \/ rest = FmtErr THEN rest
                  ELSE PadTo(txt, dr[1], left) \o rest
Format(fm, vals) == FormatFrom(fm, 1, vals, 1)

\* ------------------------------------------------------------- expressions
RECURSIVE Eval(_, _), EvalArgs(_, _, _), Subscript(_, _), LvRead(_, _, _), LvWrite(_, _, _, _), LvKey(_, _),
          Exec(_, _), ExecList(_, _), Loop(_, _, _, _, _), ForIn(_, _, _, _, _), CallUser(_, _, _), BindArgs(_, _, _, _, _, _),
          BuiltinCall(_, _, _), Getline(_, _)

\* the value of an expression that needs a number: <<int | "bad", state>>
NumOf(v) == ToNum(Norm(v))

\* Subscript of a[...]: evaluates the index expression(s) and returns <<key bytes, state>>
Subscript(e, st) ==
  IF e.k = "multi"
  THEN LET RECURSIVE Go(_, _, _)
           Go(j, acc, s1) ==
             IF j > Len(e.es) THEN <<acc, s1>>
             ELSE LET r == Eval(e.es[j], s1)
                  IN Go(j + 1, (IF j = 1 THEN <<>> ELSE acc \o ToStr(GetVar(r[2], "SUBSEP"))) \o ToStr(Norm(r[1])), r[2])
       IN Go(1, <<>>, st)
  ELSE LET r == Eval(e, st) IN <<ToStr(Norm(r[1])), r[2]>>

\* An lvalue is resolved (index evaluated once) to a key:
\*   [k |-> "var", name], [k |-> "field", m], [k |-> "elem", id, key]
LvKey(lv, st) ==
  CASE lv.k = "var" -> <<[k |-> "var", name |-> lv.name], st>>
    [] lv.k = "field" ->
         LET r == Eval(lv.e, st)
             m == NumOf(r[1])
         IN IF ~Live(r[2]) THEN <<NoE, r[2]>>
            ELSE IF m = BADN THEN <<NoE, Halt(r[2], "bad")>>
            ELSE <<[k |-> "field", m |-> m], r[2]>>
    [] lv.k = "idx" ->
         LET r == Subscript(lv.e, st)
         IN <<[k |-> "elem", id |-> ArrId(r[2], lv.arr), key |-> r[1]], r[2]>>

LvRead(key, st, create) ==      \* <<value, state>>; reading an array element creates it
  CASE key.k = "var" -> <<GetVar(st, key.name), st>>
    [] key.k = "field" -> IF key.m < 0 - RecNF(st.rec) THEN <<Null, Halt(st, "bad")>> ELSE <<GetField(st, key.m), st>>
    [] key.k = "elem" ->
         LET ar == ArrGet(st, key.id)
         IN IF key.key \in DOMAIN ar THEN <<ar[key.key], st>>
            ELSE <<Null, IF create THEN [st EXCEPT !.arr = Update(@, key.id, Update(ar, key.key, Null))] ELSE st>>

LvWrite(key, st, v, dummy) ==
  CASE key.k = "var" -> SetVar(st, key.name, v)
    [] key.k = "field" -> SetField(st, key.m, v)
    [] key.k = "elem" -> [st EXCEPT !.arr = Update(@, key.id, Update(ArrGet(st, key.id), key.key, v))]

EvalArgs(es, st, acc) ==          \* left to right; <<sequence of values, state>>
  IF es = <<>> \/ ~Live(st) THEN <<acc, st>>
  ELSE LET r == Eval(es[1], st) IN EvalArgs(Tail(es), r[2], Append(acc, r[1]))

Eval(e, st) ==
  IF ~Live(st) THEN <<Null, st>>
  ELSE
  CASE e.k = "num" -> <<Num(e.n), st>>
    [] e.k = "fnum" -> <<Null, Halt(st, "bad")>>      \* a non-integer literal (source text in e.src): outside this model
    [] e.k = "str" -> <<Str(e.s), st>>
    [] e.k = "group" -> Eval(e.e, st)
    [] e.k = "var" -> <<GetVar(st, e.name), st>>
    [] e.k = "field" ->
         LET r == Eval(e.e, st)
             m == NumOf(r[1])
         IN IF ~Live(r[2]) THEN r
            ELSE IF m = BADN \/ m < 0 - RecNF(r[2].rec) THEN <<Null, Halt(r[2], "bad")>>
            ELSE <<GetField(r[2], m), r[2]>>
    [] e.k = "idx" ->
         LET r == LvKey(e, st) IN IF ~Live(r[2]) THEN <<Null, r[2]>> ELSE LvRead(r[1], r[2], TRUE)
    [] e.k = "in" ->
         LET r == Subscript(e.e, st)
         IN <<Bool(r[1] \in DOMAIN ArrGet(r[2], ArrId(r[2], e.arr))), r[2]>>
    [] e.k = "un" ->
         LET r == Eval(e.e, st)
         IN IF ~Live(r[2]) THEN r
            ELSE IF e.op = "!" THEN
                   LET tv == IF r[1].t = "fstr" THEN 2 ELSE Truth(r[1])
                   IN IF tv = 2 THEN <<Null, Halt(r[2], "bad")>> ELSE <<Bool(tv = 0), r[2]>>
            ELSE LET m == NumOf(r[1])
                 IN IF m = BADN THEN <<Null, Halt(r[2], "bad")>>
                    ELSE <<Num(IF e.op = "-" THEN 0 - m ELSE m), r[2]>>
    [] e.k = "bin" ->
         IF e.op = "&&" \/ e.op = "||" THEN
           LET r == Eval(e.l, st)
               tv == IF r[1].t = "fstr" THEN 2 ELSE Truth(r[1])
           IN IF ~Live(r[2]) THEN r
              ELSE IF tv = 2 THEN <<Null, Halt(r[2], "bad")>>
              ELSE IF (e.op = "&&" /\ tv = 0) \/ (e.op = "||" /\ tv = 1) THEN <<Bool(tv = 1), r[2]>>
              ELSE LET q == Eval(e.r, r[2])
                       tq == IF q[1].t = "fstr" THEN 2 ELSE Truth(q[1])
                   IN IF ~Live(q[2]) THEN q
                      ELSE IF tq = 2 THEN <<Null, Halt(q[2], "bad")>> ELSE <<Bool(tq = 1), q[2]>>
         ELSE
           LET r == Eval(e.l, st)
               q == Eval(e.r, r[2])
           IN IF ~Live(q[2]) THEN <<Null, q[2]>>
              ELSE IF e.op = "cat" THEN <<Str(ToStr(Norm(r[1])) \o ToStr(Norm(q[1]))), q[2]>>
              ELSE IF e.op \in {"<", "<=", "==", "!=", ">", ">="} THEN
                     LET cv == IF r[1].t = "fstr" \/ q[1].t = "fstr" THEN 9 ELSE Cmp(r[1], q[1])
                     IN IF cv = 9 THEN <<Null, Halt(q[2], "bad")>> ELSE <<Bool(CmpOp(e.op, cv)), q[2]>>
              ELSE LET x == NumOf(r[1]) y == NumOf(q[1])
                   IN IF x = BADN \/ y = BADN THEN <<Null, Halt(q[2], "bad")>>
                      ELSE LET av == Arith(e.op, x, y)
                           IN IF av.t = "divzero" THEN <<Null, Halt(q[2], "err")>>
                              ELSE IF IsBadV(av) THEN <<Null, Halt(q[2], "bad")>>
                              ELSE <<av, q[2]>>
    [] e.k = "match" ->
         LET r == Eval(e.e, st)
             hit == Matches(e.re, ToStr(Norm(r[1])))
         IN <<Bool(IF e.neg THEN ~hit ELSE hit), r[2]>>
    [] e.k = "cond" ->
         LET r == Eval(e.c, st)
             tv == IF r[1].t = "fstr" THEN 2 ELSE Truth(r[1])
         IN IF ~Live(r[2]) THEN r
            ELSE IF tv = 2 THEN <<Null, Halt(r[2], "bad")>>
            ELSE IF tv = 1 THEN Eval(e.t, r[2]) ELSE Eval(e.f, r[2])
    [] e.k = "assign" ->            \* right-hand side first, then the lvalue's index
         LET r == Eval(e.e, st)
             kk == LvKey(e.lv, r[2])
             v == Norm(r[1])
         IN IF ~Live(kk[2]) THEN <<Null, kk[2]>>
            ELSE <<v, LvWrite(kk[1], kk[2], v, 0)>>
    [] e.k = "aug" ->
         LET r == Eval(e.e, st)
             kk == LvKey(e.lv, r[2])
         IN IF ~Live(kk[2]) THEN <<Null, kk[2]>>
            ELSE LET old == LvRead(kk[1], kk[2], FALSE)
                     x == NumOf(old[1]) y == NumOf(r[1])
                 IN IF ~Live(old[2]) THEN <<Null, old[2]>>
                    ELSE IF x = BADN \/ y = BADN THEN <<Null, Halt(old[2], "bad")>>
                    ELSE LET av == Arith(e.op, x, y)
                         IN IF av.t = "divzero" THEN <<Null, Halt(old[2], "err")>>
                            ELSE IF IsBadV(av) THEN <<Null, Halt(old[2], "bad")>>
                            ELSE <<av, LvWrite(kk[1], old[2], av, 0)>>
    [] e.k = "incr" ->
         LET kk == LvKey(e.lv, st)
         IN IF ~Live(kk[2]) THEN <<Null, kk[2]>>
            ELSE LET old == LvRead(kk[1], kk[2], FALSE)
                     x == NumOf(old[1])
                 IN IF ~Live(old[2]) THEN <<Null, old[2]>>
                    ELSE IF x = BADN THEN <<Null, Halt(old[2], "bad")>>
                    ELSE LET nv == IF e.op = "++" THEN x + 1 ELSE x - 1
                         IN IF ~InRange(nv) THEN <<Null, Halt(old[2], "bad")>>
                            ELSE <<Num(IF e.pre THEN nv ELSE x), LvWrite(kk[1], old[2], Num(nv), 0)>>
    [] e.k = "getline" -> Getline(e, st)
    [] e.k = "close" ->            \* close(name) of a getline-from-file reader: the next getline re-reads the file
         LET r == Eval(e.name, st) fname == ToStr(Norm(r[1]))
         IN IF ~Live(r[2]) THEN r
            ELSE IF fname \in DOMAIN r[2].readers THEN <<Num(0), [r[2] EXCEPT !.readers = Remove(@, fname)]>>
            ELSE <<Num(0 - 1), r[2]>>
    [] e.k = "re0" -> <<Bool(Matches(e.re, st.rec.line)), st>>        \* a bare /re/ is $0 ~ /re/
    [] e.k = "subst" ->           \* sub / gsub (re, repl, target); target index first, then the replacement
         LET kk == LvKey(e.lv, st)
         IN IF ~Live(kk[2]) THEN <<Null, kk[2]>>
            ELSE LET old == LvRead(kk[1], kk[2], TRUE)
                     rp == Eval(e.repl, old[2])
                 IN IF ~Live(rp[2]) THEN <<Null, rp[2]>>
                    ELSE LET res == Substitute(e.re, ToStr(Norm(rp[1])), ToStr(Norm(old[1])), e.global)
                         IN IF res[2] = 0 /\ kk[1].k = "field" THEN <<Num(0), rp[2]>>     \* no match: the record is left alone
                            ELSE <<Num(res[2]), LvWrite(kk[1], rp[2], Str(res[1]), 0)>>
    [] e.k = "matchfn" ->         \* match(s, /re/): position of the leftmost-longest match, RSTART and RLENGTH set
         LET r == Eval(e.e, st)
         IN IF ~Live(r[2]) THEN <<Null, r[2]>>
            ELSE LET m == Find(e.re, ToStr(Norm(r[1])), 1)
                     rs == IF m[1] = 0 THEN 0 ELSE m[1]
                     rl == IF m[1] = 0 THEN 0 - 1 ELSE m[2] - m[1]
                 IN <<Num(rs), SetVar(SetVar(r[2], "RSTART", Num(rs)), "RLENGTH", Num(rl))>>
    [] e.k = "call" -> CallUser(e.f, e.args, st)
    [] e.k = "bi" -> BuiltinCall(e.f, e.args, st)

\* ---------------------------------------------------------------- builtins
Clamp(x, lo, hi) == IF x < lo THEN lo ELSE IF x > hi THEN hi ELSE x

BuiltinCall(f, args, st) ==
  CASE f = "length" ->
         IF args = <<>> THEN <<Num(Len(st.rec.line)), st>>
         ELSE LET r == Eval(args[1], st) IN <<Num(Len(ToStr(Norm(r[1])))), r[2]>>
    [] f = "alength" -> <<Num(Cardinality(DOMAIN ArrGet(st, ArrId(st, args[1].name)))), st>>
    [] f = "substr" ->
         LET r == EvalArgs(args, st, <<>>)
         IN IF ~Live(r[2]) THEN <<Null, r[2]>>
            ELSE LET str == ToStr(Norm(r[1][1]))
                     m == NumOf(r[1][2])
                     n == IF Len(args) = 3 THEN NumOf(r[1][3]) ELSE Len(str) + 1
                 IN IF m = BADN \/ n = BADN \/ m < 1 THEN <<Null, Halt(r[2], "bad")>>
                    ELSE <<Str(SubSeq(str, m, Clamp(m + n - 1, m - 1, Len(str)))), r[2]>>
    [] f = "index" ->
         LET r == EvalArgs(args, st, <<>>)
         IN IF ~Live(r[2]) THEN <<Null, r[2]>>
            ELSE LET str == ToStr(Norm(r[1][1])) pat == ToStr(Norm(r[1][2]))
                 IN IF pat = <<>> THEN <<Null, Halt(r[2], "bad")>> ELSE <<Num(FirstOcc(str, pat, 1)), r[2]>>
    [] f = "sprintf" ->
         LET r == EvalArgs(args, st, <<>>)
         IN IF ~Live(r[2]) THEN <<Null, r[2]>>
            ELSE LET vals == [j \in 1..Len(r[1]) |-> Norm(r[1][j])]
                     txt == Format(ToStr(vals[1]), Tail(vals))
                 IN IF txt = FmtBad THEN <<Null, Halt(r[2], "bad")>>
                    ELSE IF txt = FmtErr THEN <<Null, Halt(r[2], "err")>>
                    ELSE <<Str(txt), r[2]>>
    [] f \in {"tolower", "toupper"} ->       \* ASCII letters only change (the subjects of the families are ASCII)
         LET r == Eval(args[1], st)
             str == ToStr(Norm(r[1]))
             Conv(ch) == IF f = "tolower" /\ ch >= 65 /\ ch <= 90 THEN ch + 32
                         ELSE IF f = "toupper" /\ ch >= 97 /\ ch <= 122 THEN ch - 32 ELSE ch
         IN IF ~Live(r[2]) THEN r ELSE <<Str([j \in 1..Len(str) |-> Conv(str[j])]), r[2]>>
    \* the mathematical functions at the points where their value is an integer (the numeric model of AwkSem);
    \* everywhere else the value is outside the model ("bad": no prediction, spellings are still compared)
    [] f \in {"sqrt", "exp", "log", "sin", "cos"} ->
         LET r == Eval(args[1], st) x == NumOf(r[1])
         IN IF ~Live(r[2]) THEN r
            ELSE IF x = BADN THEN <<Null, Halt(r[2], "bad")>>
            ELSE IF f = "log" /\ x < 0 THEN <<NaN, r[2]>>
            ELSE CASE f = "sqrt" /\ x >= 0 /\ (\E q \in 0..100 : q * q = x) -> <<Num(CHOOSE q \in 0..100 : q * q = x), r[2]>>
                   [] f = "exp" /\ x = 0 -> <<Num(1), r[2]>>
                   [] f = "log" /\ x = 1 -> <<Num(0), r[2]>>
                   [] f = "sin" /\ x = 0 -> <<Num(0), r[2]>>
                   [] f = "cos" /\ x = 0 -> <<Num(1), r[2]>>
                   [] OTHER -> <<Null, Halt(r[2], "bad")>>
    [] f = "atan2" ->
         LET r == EvalArgs(args, st, <<>>)
         IN IF ~Live(r[2]) THEN <<Null, r[2]>>
            ELSE LET y == NumOf(r[1][1]) x == NumOf(r[1][2])
                 IN IF y = 0 /\ x # BADN /\ x > 0 THEN <<Num(0), r[2]>> ELSE <<Null, Halt(r[2], "bad")>>
    [] f = "int" ->
         LET r == Eval(args[1], st) m == NumOf(r[1])
         IN IF ~Live(r[2]) THEN r ELSE IF m = BADN THEN <<Null, Halt(r[2], "bad")>> ELSE <<Num(m), r[2]>>
    [] f = "split" ->            \* split(s, a [, single-character separator])
         LET r == Eval(args[1], st)
             q == IF Len(args) = 3 THEN Eval(args[3], r[2]) ELSE <<GetVar(r[2], "FS"), r[2]>>
             fsv == FsOf(q[1])
         IN IF ~Live(q[2]) THEN <<Null, q[2]>>
            ELSE IF fsv.k = "bad" THEN <<Null, Halt(q[2], "bad")>>
            ELSE LET parts == SplitFS(ToStr(Norm(r[1])), fsv)
                     id == ArrId(q[2], args[2].name)
                     newarr == [key \in {IntStr(j) : j \in 1..Len(parts)} |->
                                  StrNum(parts[CHOOSE j \in 1..Len(parts) : IntStr(j) = key])]
                 IN <<Num(Len(parts)), [q[2] EXCEPT !.arr = Update(@, id, newarr)]>>
    [] OTHER -> <<Null, Halt(st, "bad")>>      \* rand, srand, ...: outside the model (spellings are still compared)

\* ---------------------------------------------------------- user functions
FuncByName(funcs, name) == funcs[CHOOSE j \in 1..Len(funcs) : funcs[j].name = name]

\* bind arguments left to right: scalar arguments are evaluated, array arguments are references
BindArgs(params, args, j, frame, st, caller) ==
  IF j > Len(params) \/ ~Live(st) THEN <<frame, st>>
  ELSE LET pr == params[j]
       IN IF pr.arr
          THEN IF j <= Len(args)
               THEN BindArgs(params, args, j + 1, Update(frame, pr.n, [t |-> "aref", id |-> ArrId(st, args[j].name)]), st, caller)
               ELSE LET id == "tmp" \o ToString(st.fresh)
                    IN BindArgs(params, args, j + 1, Update(frame, pr.n, [t |-> "aref", id |-> id]),
                                [st EXCEPT !.fresh = @ + 1], caller)
          ELSE IF j <= Len(args)
               THEN LET r == Eval(args[j], st)
                    IN BindArgs(params, args, j + 1, Update(frame, pr.n, Norm(r[1])), r[2], caller)
               ELSE BindArgs(params, args, j + 1, Update(frame, pr.n, Null), st, caller)

CallUser(fname, args, st) ==
  LET fd == FuncByName(st.funcs, fname)
      b == BindArgs(fd.params, args, 1, EmptyFn, st, 0)
  IN IF ~Live(b[2]) THEN <<Null, b[2]>>
     ELSE IF b[2].fuel <= 0 \/ Len(b[2].fr) >= 60 THEN <<Null, Halt(b[2], "bad")>>
     ELSE LET s1 == [b[2] EXCEPT !.fr = Append(@, b[1]), !.fuel = @ - 1]
              s2 == ExecList(fd.body, s1)
              s3 == [s2 EXCEPT !.fr = SubSeq(@, 1, Len(@) - 1)]
          IN IF s2.sig = "ret" THEN <<s2.rv, [s3 EXCEPT !.sig = "norm", !.rv = Null]>>
             ELSE IF s2.sig = "norm" THEN <<Null, s3>>
             ELSE <<Null, s3>>           \* next / exit / err / bad propagate

\* -------------------------------------------------------------- statements
CondOf(c, st) ==      \* <<TRUE/FALSE, state>>; a missing condition is true
  IF c.k = "none" THEN <<TRUE, st>>
  ELSE LET r == Eval(c, st)
           tv == IF r[1].t = "fstr" THEN 2 ELSE Truth(r[1])
       IN IF ~Live(r[2]) THEN <<FALSE, r[2]>>
          ELSE IF tv = 2 THEN <<FALSE, Halt(r[2], "bad")>> ELSE <<tv = 1, r[2]>>

Emit(st, bytes) == [st EXCEPT !.out = @ \o bytes]

Count(st, lbl) == IF lbl = "" THEN st ELSE [st EXCEPT !.cnt = Update(@, lbl, Lookup(@, lbl, 0) + 1)]

\* ---- the main input: operands walked left to right (interp/io.go nextLine) ----
\* an operand  name=value  (name: letters, digits, underscore, not starting with a digit)
IsNameCh(ch) == (ch >= 97 /\ ch <= 122) \/ (ch >= 65 /\ ch <= 90) \/ ch = USCORE \/ IsDigit(ch)
AssignSplit(arg) ==        \* position of the '=' of a var=value operand, or 0
  LET eqs == {j \in 1..Len(arg) : arg[j] = EQ}
  IN IF eqs = {} THEN 0
     ELSE LET q == Min(eqs)
          IN IF q > 1 /\ ~IsDigit(arg[1]) /\ \A j \in 1..(q - 1) : IsNameCh(arg[j]) THEN q ELSE 0
\* operand variable names the model knows (a TLA+ string is needed to address a variable)
VarNameOf(bytes) ==
  CASE bytes = <<c_v>> -> "v" [] bytes = <<c_w>> -> "w" [] bytes = <<c_k>> -> "k" [] bytes = <<c_x>> -> "x"
    [] bytes = <<C_F, C_S>> -> "FS" [] bytes = <<C_N, C_R>> -> "NR" [] OTHER -> ""

CurContent(st) == IF st.cur.name = <<MINUS>> THEN st.stdin ELSE st.files[st.cur.name]
CurPos(st) == IF st.cur.name = <<MINUS>> THEN st.stdinpos ELSE st.cur.pos

\* Standard input read both by the main loop and through getline < "-" is outside the model (the two readers
\* buffer independently, so how the records are divided between them depends on read sizes).
OpenSource(st, name) ==
  \* ... and so is a second "-" operand while records of standard input that the first one left unread (nextfile)
  \* may sit in the abandoned reader's buffer: whether they are seen again depends on read sizes
  IF name = <<MINUS>> /\ (st.dashUsed \/ (st.mainStdin /\ st.stdinpos <= Len(st.stdin))) THEN Halt(st, "bad")
  ELSE
  [st EXCEPT !.cur = [open |-> TRUE, name |-> name, pos |-> 1], !.hadFiles = TRUE,
             !.mainStdin = @ \/ name = <<MINUS>>,
             !.sp = Update(Update(@, "FILENAME", StrNum(name)), "FNR", Num(0))]

\* NextMain(st, n): [found, line, st]; n bounds the operand walk
RECURSIVE NextMain(_, _)
NextMain(st, n) ==
  IF n = 0 THEN [found |-> FALSE, line |-> <<>>, st |-> Halt(st, "bad")]
  ELSE IF st.cur.open THEN
    IF CurPos(st) <= Len(CurContent(st))
    THEN LET nrv == NumOf(GetVar(st, "NR")) fnv == NumOf(GetVar(st, "FNR"))
             s1 == IF st.cur.name = <<MINUS>> THEN [st EXCEPT !.stdinpos = @ + 1] ELSE [st EXCEPT !.cur.pos = @ + 1]
         IN IF nrv = BADN \/ fnv = BADN THEN [found |-> FALSE, line |-> <<>>, st |-> Halt(st, "bad")]
            ELSE [found |-> TRUE, line |-> CurContent(st)[CurPos(st)],
                  st |-> [s1 EXCEPT !.sp = Update(Update(@, "NR", Num(nrv + 1)), "FNR", Num(fnv + 1)), !.taken = @ + 1]]
    ELSE NextMain([st EXCEPT !.cur.open = FALSE], n - 1)
  ELSE LET argc == NumOf(GetVar(st, "ARGC"))
       IN IF argc = BADN THEN [found |-> FALSE, line |-> <<>>, st |-> Halt(st, "bad")]
          ELSE IF st.argi >= argc THEN
                 IF ~st.hadFiles THEN NextMain(OpenSource(st, <<MINUS>>), n - 1)
                 ELSE [found |-> FALSE, line |-> <<>>, st |-> st]
          ELSE LET arg == ToStr(Lookup(ArrGet(st, "ARGV"), IntStr(st.argi), Null))
                   s1 == [st EXCEPT !.argi = @ + 1]
                   q == IF st.noArgVars THEN 0 ELSE AssignSplit(arg)
               IN IF q > 0 THEN
                    LET nm == VarNameOf(SubSeq(arg, 1, q - 1))
                    IN IF nm = "" THEN [found |-> FALSE, line |-> <<>>, st |-> Halt(st, "bad")]
                       ELSE NextMain(SetVar(s1, nm, StrNum(SubSeq(arg, q + 1, Len(arg)))), n - 1)
                  ELSE IF arg = <<>> THEN NextMain(s1, n - 1)
                  ELSE IF arg = <<MINUS>> THEN NextMain(OpenSource(s1, arg), n - 1)
                  ELSE IF arg \in DOMAIN st.files THEN NextMain(OpenSource(s1, arg), n - 1)
                  ELSE [found |-> FALSE, line |-> <<>>, st |-> Halt(s1, "bad")]     \* missing file: not modelled

SetRecord(st, ln) == [st EXCEPT !.rec = RecSet0(st.rec, ln), !.ftag = {}, !.ltag = FALSE]

\* getline in all its forms.  e = [k |-> "getline", src ("main" | "file"), name (expr), lv (lvalue | NoE)]
\* value 1 / 0 (end of input) / -1 (no such file)
Getline(e, st) ==
  LET kk == IF e.lv.k = "none" THEN <<NoE, st>> ELSE LvKey(e.lv, st)          \* the target's index first
      nm == IF e.src = "file" THEN Eval(e.name, kk[2]) ELSE <<Null, kk[2]>>
      s1 == nm[2]
      Deliver(ln, s2) == IF e.lv.k = "none" THEN SetRecord(s2, ln) ELSE LvWrite(kk[1], s2, StrNum(ln), 0)
  IN IF ~Live(s1) THEN <<Null, s1>>
     ELSE IF e.src = "main" THEN
            LET r == NextMain(s1, 12)
            IN IF ~Live(r.st) THEN <<Null, r.st>>
               ELSE IF r.found THEN <<Num(1), Deliver(r.line, r.st)>> ELSE <<Num(0), r.st>>
     ELSE LET fname == ToStr(Norm(nm[1]))
          IN IF fname = <<MINUS>>        \* getline < "-": the next record of standard input
             THEN IF s1.mainStdin THEN <<Null, Halt(s1, "bad")>>
                  ELSE IF s1.stdinpos > Len(s1.stdin) THEN <<Num(0), [s1 EXCEPT !.dashUsed = TRUE]>>
                  ELSE <<Num(1), Deliver(s1.stdin[s1.stdinpos], [s1 EXCEPT !.stdinpos = @ + 1, !.dashUsed = TRUE])>>
             ELSE IF fname \notin DOMAIN s1.files THEN <<Num(0 - 1), s1>>
             ELSE LET pos == Lookup(s1.readers, fname, 1)
                  IN IF pos > Len(s1.files[fname]) THEN <<Num(0), [s1 EXCEPT !.readers = Update(@, fname, pos)]>>
                     ELSE <<Num(1), Deliver(s1.files[fname][pos], [s1 EXCEPT !.readers = Update(@, fname, pos + 1)])>>

\* Loop(kind-specific pieces): cond checked first unless first = FALSE
Loop(c, body, post, st, checkFirst) ==
  IF ~Live(st) THEN st
  ELSE IF st.fuel <= 0 THEN Halt(st, "bad")
  ELSE LET cr == IF checkFirst THEN CondOf(c, st) ELSE <<TRUE, st>>
       IN IF ~Live(cr[2]) \/ ~cr[1] THEN cr[2]
          ELSE LET s1 == ExecList(body, [cr[2] EXCEPT !.fuel = @ - 1])
               IN IF s1.sig = "break" THEN [s1 EXCEPT !.sig = "norm"]
                  ELSE IF s1.sig \in {"norm", "cont"}
                       THEN LET s2 == IF post.k = "none" THEN [s1 EXCEPT !.sig = "norm"]
                                      ELSE Exec(post, [s1 EXCEPT !.sig = "norm"])
                            IN Loop(c, body, post, s2, TRUE)
                       ELSE s1

SortedKeys(S) ==     \* a fixed order of the keys (bodies are generated to be order independent)
  LET RECURSIVE Srt(_)
      Srt(T) == IF T = {} THEN <<>>
                ELSE LET m == CHOOSE x \in T : \A y \in T : x = y \/ StrLess(x, y) IN <<m>> \o Srt(T \ {m})
  IN Srt(S)

ForIn(var, keys, body, st, j) ==
  IF ~Live(st) \/ j > Len(keys) THEN st
  ELSE IF st.fuel <= 0 THEN Halt(st, "bad")
  ELSE LET s0 == SetVar(st, var, Str(keys[j]))
           s1 == ExecList(body, [s0 EXCEPT !.fuel = @ - 1])
       IN IF s1.sig = "break" THEN [s1 EXCEPT !.sig = "norm"]
          ELSE IF s1.sig \in {"norm", "cont"} THEN ForIn(var, keys, body, [s1 EXCEPT !.sig = "norm"], j + 1)
          ELSE s1

Exec(s, st0) ==
  IF ~Live(st0) THEN st0
  ELSE LET st == Count(st0, IF "lbl" \in DOMAIN s THEN s.lbl ELSE "") IN
  CASE s.k = "expr" -> Eval(s.e, st)[2]
    [] s.k = "print" ->
         IF s.args = <<>> THEN Emit(st, st.rec.line \o ToStr(GetVar(st, "ORS")))
         ELSE LET r == EvalArgs(s.args, st, <<>>)
              IN IF ~Live(r[2]) THEN r[2]
                 ELSE Emit(r[2], Join([j \in 1..Len(r[1]) |-> ToStr(Norm(r[1][j]))], ToStr(GetVar(r[2], "OFS")))
                                 \o ToStr(GetVar(r[2], "ORS")))
    [] s.k = "printf" ->
         LET r == EvalArgs(s.args, st, <<>>)
         IN IF ~Live(r[2]) THEN r[2]
            ELSE LET vals == [j \in 1..Len(r[1]) |-> Norm(r[1][j])]
                     txt == Format(ToStr(vals[1]), Tail(vals))
                 IN IF txt = FmtBad THEN Halt(r[2], "bad")
                    ELSE IF txt = FmtErr THEN Halt(r[2], "err")
                    ELSE Emit(r[2], txt)
    [] s.k = "if" ->
         LET cr == CondOf(s.c, st)
         IN IF ~Live(cr[2]) THEN cr[2] ELSE IF cr[1] THEN ExecList(s.t, cr[2]) ELSE ExecList(s.f, cr[2])
    [] s.k = "while" -> Loop(s.c, s.b, NoE, st, TRUE)
    [] s.k = "do" -> Loop(s.c, s.b, NoE, st, FALSE)
    [] s.k = "for" -> Loop(s.c, s.b, s.post, IF s.pre.k = "none" THEN st ELSE Exec(s.pre, st), TRUE)
    [] s.k = "forin" -> ForIn(s.v, SortedKeys(DOMAIN ArrGet(st, ArrId(st, s.arr))), s.b, st, 1)
    [] s.k = "break" -> Halt(st, "break")
    [] s.k = "continue" -> Halt(st, "cont")
    [] s.k = "next" -> Halt(st, "next")
    [] s.k = "exit" ->
         IF s.e.k = "none" THEN Halt(st, "exit")
         ELSE LET r == Eval(s.e, st) m == NumOf(r[1])
              IN IF ~Live(r[2]) THEN r[2]
                 ELSE IF m = BADN \/ m < 0 \/ m > 255 THEN Halt(r[2], "bad")
                 ELSE [r[2] EXCEPT !.sig = "exit", !.status = m]
    [] s.k = "return" ->
         IF s.e.k = "none" THEN [st EXCEPT !.sig = "ret", !.rv = Null]
         ELSE LET r == Eval(s.e, st) IN IF ~Live(r[2]) THEN r[2] ELSE [r[2] EXCEPT !.sig = "ret", !.rv = Norm(r[1])]
    [] s.k = "delete" ->
         IF s.e.k = "none" THEN [st EXCEPT !.arr = Update(@, ArrId(st, s.arr), EmptyFn)]
         ELSE LET r == Subscript(s.e, st) id == ArrId(r[2], s.arr)
              IN IF ~Live(r[2]) THEN r[2] ELSE [r[2] EXCEPT !.arr = Update(@, id, Remove(ArrGet(r[2], id), r[1]))]
    [] s.k = "block" -> ExecList(s.b, st)
    [] s.k = "getline" ->        \* plain getline as a statement: next main-input record, if any
         Getline([k |-> "getline", src |-> "main", name |-> NoE, lv |-> NoE], st)[2]
    [] s.k = "nextfile" -> Halt(st, "nextfile")

ExecList(ss, st) ==
  IF ss = <<>> \/ ~Live(st) THEN st ELSE ExecList(Tail(ss), Exec(ss[1], st))

\* ----------------------------------------------------------------- program
\* rules: sequence of [pat (expr or NoE), pat2 (NoE unless a range pattern), body, nobody]
\* A range pattern selects from a record matching pat through the next record matching pat2,
\* inclusive, possibly the same record.
RECURSIVE RunRules(_, _, _), MainLoop(_, _)
RuleMatches(rl, j, st) ==      \* <<matched, state>>
  IF "pat2" \notin DOMAIN rl \/ rl.pat2.k = "none" THEN CondOf(rl.pat, st)
  ELSE LET op == IF j \in st.inrange THEN <<TRUE, st>> ELSE CondOf(rl.pat, st)
       IN IF ~Live(op[2]) \/ ~op[1] THEN op
          ELSE LET cl == CondOf(rl.pat2, op[2])
               IN <<TRUE, [cl[2] EXCEPT !.inrange = IF cl[1] THEN @ \ {j} ELSE @ \cup {j}]>>

RunRules(rules, j, st) ==
  IF j > Len(rules) \/ ~Live(st) THEN st
  ELSE LET rl == rules[j]
           cr == RuleMatches(rl, j, st)
       IN IF ~Live(cr[2]) THEN cr[2]
          ELSE IF ~cr[1] THEN RunRules(rules, j + 1, cr[2])
          ELSE LET s1 == IF rl.nobody THEN Emit(cr[2], cr[2].rec.line \o ToStr(GetVar(cr[2], "ORS")))
                         ELSE ExecList(rl.body, cr[2])
               IN RunRules(rules, j + 1, s1)

MainLoop(rules, st) ==
  IF ~Live(st) THEN st
  ELSE IF st.fuel <= 0 THEN Halt(st, "bad")
  ELSE LET r == NextMain(st, 12)
       IN IF ~Live(r.st) \/ ~r.found THEN r.st
          ELSE LET s1 == RunRules(rules, 1, SetRecord([r.st EXCEPT !.fuel = @ - 1], r.line))
               IN IF s1.sig = "next" THEN MainLoop(rules, [s1 EXCEPT !.sig = "norm"])
                  ELSE IF s1.sig = "nextfile" THEN MainLoop(rules, [s1 EXCEPT !.sig = "norm", !.cur.open = FALSE])
                  ELSE MainLoop(rules, s1)

\* a signal that may not escape where it is: break/continue outside a loop and
\* return outside a function are rejected by the parser, next in BEGIN/END likewise;
\* such programs are not generated, and are reported as bad if they occur.
Settle(st) == IF st.sig \in {"break", "cont", "ret", "next", "nextfile"} THEN Halt(st, "bad") ELSE st

RunEnv(prog, env) ==
  LET s0 == InitState(env, prog.funcs)
      s1 == Settle(ExecList(prog.begin, s0))
      onlyBegin == prog.rules = <<>> /\ prog.end = <<>>
      s2 == IF s1.sig # "norm" \/ onlyBegin THEN s1 ELSE Settle(MainLoop(prog.rules, s1))
      s3 == IF s2.sig \in {"norm", "exit"} /\ ~onlyBegin
            THEN Settle(ExecList(prog.end, [s2 EXCEPT !.sig = "norm"])) ELSE s2
  IN s3

Run(prog, input) == RunEnv(prog, [stdin |-> input, files |-> EmptyFn, args |-> <<>>])

\* C11, on the model itself: NR counts every record taken from the main input (by the main
\* loop, plain getline or getline var) unless the program assigns NR; FNR never exceeds NR then.
NRCountsTaken(st) ==
  st.sig = "bad" \/ st.nrSet \/ (GetVar(st, "NR") = Num(st.taken) /\ NumOf(GetVar(st, "FNR")) <= st.taken)

\* what the property compares
Outcome(st) ==
  [out |-> st.out,
   status |-> IF st.sig = "err" THEN 0 ELSE st.status,
   err |-> st.sig = "err",
   bad |-> st.sig = "bad"]
=============================================================================
