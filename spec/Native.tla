------------------------------- MODULE Native -------------------------------
(***************************************************************************)
(* Property C17: Go functions exposed to AWK (interp.Config.Funcs) convert *)
(* arguments and results as documented.                                    *)
(*                                                                         *)
(* AWK argument values are taken from a menu (value ids); for every id the *)
(* tables below give its number (in HALVES, because TLC has no reals:      *)
(* 2.5 is 5), its truth value and its string form -- the three conversions *)
(* the AWK language defines.  A Go value is                                *)
(*    [k |-> "b", b |-> BOOLEAN]   [k |-> "i", n |-> Int]                  *)
(*    [k |-> "f", h |-> halves]    [k |-> "s", s |-> STRING]               *)
(* ToGo(kind, v) is the documented conversion of an argument, FromGo(kind, *)
(* g) that of a result; Outcome(sig, args) says what a call does: parse    *)
(* error (too many arguments), set-up error (invalid signature or name),   *)
(* abort with the function's error, or the values received and the text    *)
(* printed for the result.  NativeMachine.tla runs this as the state       *)
(* machine Parse -> Setup -> Call -> Convert -> Return/Abort.              *)
(***************************************************************************)
EXTENDS Integers, Sequences, FiniteSets, TLC

Kinds    == {"bool", "int", "int8", "int16", "int32", "int64", "uint", "uint8", "uint16", "uint32", "uint64",
             "float32", "float64", "string", "bytes"}
Signed   == {"int", "int8", "int16", "int32", "int64"}
Unsigned == {"uint", "uint8", "uint16", "uint32", "uint64"}
IntKinds == Signed \cup Unsigned
FloatKinds == {"float32", "float64"}
StrKinds == {"string", "bytes"}

\* ---- the menu of AWK argument values ----
\*  id        AWK source            meaning
\*  three     3                     number 3
\*  negthree  -3                    number -3
\*  twohalf   2.5                   number 2.5
\*  n300      300                   number 300 (out of range for int8/uint8)
\*  zero      0                     number 0
\*  abc       "abc"                 string, not numeric
\*  s12       "12"                  string constant that looks numeric (still a string)
\*  s0        "0"                   string constant "0": true as a string
\*  empty     ""                    empty string
\*  sn12      $1 (input "12 0")     numeric string 12
\*  sn0       $2 (input "12 0")     numeric string 0: false, because it is a number
\*  unset     u                     uninitialised variable
\*  huge      1e30                  beyond every integer kind: only "no panic" is required
\*  nan       log(-1)               not a number: only "no panic" is required
PlainValues == {"three", "negthree", "twohalf", "n300", "zero", "abc", "s12", "s0", "empty", "sn12", "sn0", "unset"}
WildValues  == {"huge", "nan"}
Values      == PlainValues \cup WildValues

NumHalves(v) ==       \* twice the numeric value (leading numeric prefix for strings)
  CASE v = "three" -> 6 [] v = "negthree" -> 0 - 6 [] v = "twohalf" -> 5 [] v = "n300" -> 600 [] v = "zero" -> 0
    [] v = "abc" -> 0 [] v = "s12" -> 24 [] v = "s0" -> 0 [] v = "empty" -> 0 [] v = "sn12" -> 24 [] v = "sn0" -> 0
    [] v = "unset" -> 0
Truth(v) ==           \* numbers and numeric strings: non-zero; strings: non-empty; unset: false
  v \in {"three", "negthree", "twohalf", "n300", "abc", "s12", "s0", "sn12"}
StrForm(v) ==
  CASE v = "three" -> "3" [] v = "negthree" -> "-3" [] v = "twohalf" -> "2.5" [] v = "n300" -> "300" [] v = "zero" -> "0"
    [] v = "abc" -> "abc" [] v = "s12" -> "12" [] v = "s0" -> "0" [] v = "empty" -> "" [] v = "sn12" -> "12" [] v = "sn0" -> "0"
    [] v = "unset" -> ""

\* truncation toward zero of a number given in halves
TruncHalves(h) == IF h >= 0 THEN h \div 2 ELSE 0 - ((0 - h) \div 2)

\* is integer n representable in kind k?  (the menu never exceeds 32 bits)
InRange(k, n) ==
  CASE k = "int8"   -> n >= 0 - 128 /\ n <= 127
    [] k = "uint8"  -> n >= 0 /\ n <= 255
    [] k = "int16"  -> n >= 0 - 32768 /\ n <= 32767
    [] k = "uint16" -> n >= 0 /\ n <= 65535
    [] k \in Unsigned -> n >= 0
    [] OTHER -> TRUE

Unspecified == [ok |-> FALSE, val |-> [k |-> "none"]]
Known(g)     == [ok |-> TRUE, val |-> g]

\* the documented conversion of an AWK argument to a Go parameter of kind k
ToGo(k, v) ==
  IF v \in WildValues THEN Unspecified
  ELSE CASE k = "bool"       -> Known([k |-> "b", b |-> Truth(v)])
         [] k \in IntKinds   -> LET n == TruncHalves(NumHalves(v))
                                IN IF InRange(k, n) THEN Known([k |-> "i", n |-> n]) ELSE Unspecified
         [] k \in FloatKinds -> Known([k |-> "f", h |-> NumHalves(v)])
         [] k \in StrKinds   -> Known([k |-> "s", s |-> StrForm(v)])

ZeroOf(k) ==
  CASE k = "bool" -> [k |-> "b", b |-> FALSE]
    [] k \in IntKinds -> [k |-> "i", n |-> 0]
    [] k \in FloatKinds -> [k |-> "f", h |-> 0]
    [] k \in StrKinds -> [k |-> "s", s |-> ""]

\* the documented conversion of a Go result of kind k to an AWK value:
\* [t |-> "num", h |-> halves]  or  [t |-> "str", s |-> STRING]
FromGo(k, g) ==
  CASE k = "bool"       -> [t |-> "num", h |-> IF g.b THEN 2 ELSE 0]
    [] k \in IntKinds   -> [t |-> "num", h |-> 2 * g.n]
    [] k \in FloatKinds -> [t |-> "num", h |-> g.h]
    [] k \in StrKinds   -> [t |-> "str", s |-> g.s]
AwkNull == [t |-> "str", s |-> ""]

\* how print shows an AWK value (integers as integers, 2.5 as 2.5)
AwkPrint(a) ==
  IF a.t = "str" THEN a.s
  ELSE LET neg == a.h < 0
           m   == IF neg THEN 0 - a.h ELSE a.h
           txt == IF m % 2 = 0 THEN ToString(m \div 2) ELSE ToString(m \div 2) \o ".5"
       IN IF neg THEN "-" \o txt ELSE txt

\* the constant a recording function returns when it does not echo
RetConst(k) ==
  CASE k = "bool" -> [k |-> "b", b |-> TRUE]
    [] k \in Signed -> [k |-> "i", n |-> 0 - 5]
    [] k \in Unsigned -> [k |-> "i", n |-> 5]
    [] k \in FloatKinds -> [k |-> "f", h |-> 5]
    [] k \in StrKinds -> [k |-> "s", s |-> "ret"]

\* ---- signatures ----
\* sig = [shape, name, params (kinds), variadic, res ("none" | "const" | "echo"), rk (result kind), err ("none" | "nil" | "err")]
\* shape "ok": parameters and result over Kinds.  Other shapes are the invalid ones; each has one parameter
\* slot (so that a call with one argument parses) except the result-shaped ones.
InvalidShapes == {"struct-param", "map-param", "chan-param", "complex-param", "func-param", "intslice-param",
                  "pointer-param", "interface-param", "three-results", "second-not-error", "struct-result",
                  "variadic-struct"}
KeywordNames == {"print", "BEGIN", "function", "getline", "length", "in", "substr"}
NumParams(sig) == IF sig.shape = "ok" THEN Len(sig.params)
                  ELSE IF sig.shape \in {"three-results", "second-not-error", "struct-result"} THEN 0 ELSE 1
IsVariadic(sig) == IF sig.shape = "ok" THEN sig.variadic ELSE sig.shape = "variadic-struct"
ValidSig(sig) == sig.shape = "ok" /\ sig.name \notin KeywordNames

\* kind of the parameter that receives argument number j
ParamKind(sig, j) ==
  IF sig.variadic /\ j >= Len(sig.params) THEN sig.params[Len(sig.params)] ELSE sig.params[j]

\* what the Go function receives: the converted arguments, then zero values for the missing
\* non-variadic parameters (a variadic tail without arguments is empty)
Received(sig, args) ==
  LET fixed == IF sig.variadic THEN Len(sig.params) - 1 ELSE Len(sig.params)
      n     == IF Len(args) > fixed THEN Len(args) ELSE fixed
  IN [j \in 1..n |-> IF j <= Len(args) THEN ToGo(ParamKind(sig, j), args[j]) ELSE Known(ZeroOf(sig.params[j]))]

\* the outcome of   { r = name(args); print "R:" r }   under Funcs = {name: function of signature sig}
\* called = FALSE: the program does not mention the function (keyword-like names cannot be called)
Outcome(sig, args, called) ==
  IF called /\ ~IsVariadic(sig) /\ Len(args) > NumParams(sig) THEN [o |-> "parse-error"]
  ELSE IF ~ValidSig(sig) THEN [o |-> "setup-error"]
  ELSE IF ~called THEN [o |-> "not-called"]
  ELSE LET recv == Received(sig, args)
       IN IF sig.err = "err" THEN [o |-> "abort", recv |-> recv]
          ELSE [o |-> "ok", recv |-> recv,
                printed |-> CASE sig.res = "none"  -> Known(AwkPrint(AwkNull))
                              [] sig.res = "const" -> Known(AwkPrint(FromGo(sig.rk, RetConst(sig.rk))))
                              [] sig.res = "echo"  -> IF recv[1].ok THEN Known(AwkPrint(FromGo(sig.rk, recv[1].val)))
                                                      ELSE Unspecified]

\* an "echo" function returns its first parameter: it needs one, of the result's kind
WellFormedSig(sig) ==
  /\ sig.shape = "ok" => /\ \A j \in 1..Len(sig.params) : sig.params[j] \in Kinds
                         /\ (sig.variadic => Len(sig.params) >= 1)
                         /\ (sig.res # "none" => sig.rk \in Kinds)
                         /\ (sig.res = "echo" => (Len(sig.params) >= 1 /\ ~(sig.variadic /\ Len(sig.params) = 1)
                                                  /\ sig.params[1] = sig.rk))
                         /\ (sig.res = "none" => sig.err = "none")
=============================================================================
