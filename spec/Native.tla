------------------------------- MODULE Native -------------------------------
(***************************************************************************)
(* Property C17: Go functions exposed to AWK (interp.Config.Funcs) convert *)
(* arguments and results as documented.                                    *)
(*                                                                         *)
(* AWK argument values are taken from a menu (value ids); for every id the *)
(* tables below give its number (in HALVES, because TLC has no reals:      *)
(* 2.5 is 5), its truth value and its string form -- the three conversions *)
(* the AWK language defines.  A Go value is                                *)
(*    [k |-> "b", b |-> BOOLEAN]   [k |-> "i", n |-> Int]                  *)
(*    [k |-> "f", h |-> halves]    [k |-> "s", s |-> STRING]               *)
(* ToGo(kind, v) is the documented conversion of an argument, FromGo(kind, *)
(* g) that of a result; Outcome(sig, args) says what a call does: parse    *)
(* error (too many arguments), set-up error (invalid signature or name),   *)
(* abort with the function's error, or the values received and the text    *)
(* printed for the result.  NativeMachine.tla runs this as the state       *)
(* machine Parse -> Setup -> Others -> Call -> Convert -> Return/Abort.    *)
(*                                                                         *)
(* String kinds (string and []byte alike) receive the STRING FORM of the   *)
(* argument: a string as it is, an integral number as an integer, any      *)
(* other number through the current CONVFMT (cf: one of ConvFmts; the      *)
(* first is the default, which the program then does not assign).  Where   *)
(* the spelling is not pinned down by the statement (nan, inf, -inf, and   *)
(* integral numbers beyond 64 bits) the prediction is AwkText: "exactly    *)
(* the text that the AWK conversion (v "") of this argument gives in the   *)
(* same program" -- whatever it is, a string and a []byte parameter        *)
(* receive the same.                                                       *)
(*                                                                         *)
(* Dispatch: Funcs is a table of names (here Table: the called function    *)
(* "fn" and three others); the resolver numbers the Go functions by name   *)
(* order over ALL names of the table, the interpreter builds its table the *)
(* same way; an AWK `function` of the same name as an entry (shadow) takes *)
(* precedence for calls of that name and must not change which Go function *)
(* the calls of the OTHER names reach (DispatchAgrees).                    *)
(*                                                                         *)
(* Shapes: besides the fixed menu InvalidShapes, a signature of shape      *)
(* "gen" is built from parts -- parameters over ParamKinds (the documented *)
(* Kinds and BadKinds: struct, map, chan, complex, func, []int, []string,  *)
(* pointer, interface, array), variadic or not, 0..3 results, first result *)
(* over ParamKinds, second result over SecondKinds (the interface type     *)
(* error itself; concrete types that merely IMPLEMENT error: a named int,  *)
(* a pointer type, a struct; int; string).  GenValid is the documented     *)
(* rule: every parameter (the element of a variadic tail) of a documented  *)
(* kind; no result, one result of a documented kind, or two results        *)
(* (documented kind, error).  "error" is the type `error`: a concrete type *)
(* with an Error method is a function of another shape.                    *)
(*                                                                         *)
(* Extreme results: result mode "ext" returns, for the result kind rk, the *)
(* value named xv \in ExtOf(rk) (minimum, maximum, -1, 2^63, 2^63-1,       *)
(* 2^53+1, +-MaxFloat, +-smallest denormal; int and uint are 64 bits       *)
(* wide).  "Returns the converted result" means the AWK number IS that     *)
(* value: ExtNum gives its sign, its exact decimal digits (digit-sequence  *)
(* arithmetic below: TLC has 32-bit integers), whether a float64 holds it  *)
(* exactly, and its decimal exponent.                                      *)
(*                                                                         *)
(* Calls inside whole programs (NativeProgram.tla): PosOutcome -- the call *)
(* written in every syntactic POSITION of a program (BEGIN, action,        *)
(* pattern, both expressions of a range pattern, function body, END, file  *)
(* name of a getline, condition, subscript, argument of a builtin / an AWK *)
(* function / printf): an error aborts the run there; KeepOutcome --       *)
(* several calls whose []byte / string results are KEPT (variable, array   *)
(* element, field, array subscript) while the Go function reuses or wipes  *)
(* the memory it returned: a result is a value, it never changes.          *)
(***************************************************************************)
EXTENDS Integers, Sequences, FiniteSets, TLC

Kinds    == {"bool", "int", "int8", "int16", "int32", "int64", "uint", "uint8", "uint16", "uint32", "uint64",
             "float32", "float64", "string", "bytes"}
Signed   == {"int", "int8", "int16", "int32", "int64"}
Unsigned == {"uint", "uint8", "uint16", "uint32", "uint64"}
IntKinds == Signed \cup Unsigned
FloatKinds == {"float32", "float64"}
StrKinds == {"string", "bytes"}

\* ---- the menu of AWK argument values ----
\*  id        AWK source            meaning
\*  three     3                     number 3
\*  negthree  -3                    number -3
\*  twohalf   2.5                   number 2.5
\*  n300      300                   number 300 (out of range for int8/uint8)
\*  zero      0                     number 0
\*  abc       "abc"                 string, not numeric
\*  s12       "12"                  string constant that looks numeric (still a string)
\*  s0        "0"                   string constant "0": true as a string
\*  empty     ""                    empty string
\*  sn12      $1 (input "12 0")     numeric string 12
\*  sn0       $2 (input "12 0")     numeric string 0: false, because it is a number
\*  unset     u                     uninitialised variable
\*  big       1000000               an integer that %.6g would spell 1e+06: integers convert as integers
\*  huge      1e30                  beyond every integer kind: only "no panic" is required of numeric kinds
\*  nan       log(-1)               not a number: only "no panic" is required of numeric kinds
\*  inf       -log(0)               +infinity (same)
\*  neginf    log(0)                -infinity (same)
PlainValues == {"three", "negthree", "twohalf", "n300", "zero", "abc", "s12", "s0", "empty", "sn12", "sn0", "unset", "big"}
WildValues  == {"huge", "nan", "inf", "neginf"}
Values      == PlainValues \cup WildValues

\* CONVFMT settings: the first is the default (the program does not assign CONVFMT)
DefaultCf == "%.6g"
ConvFmts  == {"%.6g", "%.2f", "%.3e"}

NumHalves(v) ==       \* twice the numeric value (leading numeric prefix for strings)
  CASE v = "three" -> 6 [] v = "negthree" -> 0 - 6 [] v = "twohalf" -> 5 [] v = "n300" -> 600 [] v = "zero" -> 0
    [] v = "abc" -> 0 [] v = "s12" -> 24 [] v = "s0" -> 0 [] v = "empty" -> 0 [] v = "sn12" -> 24 [] v = "sn0" -> 0
    [] v = "unset" -> 0 [] v = "big" -> 2000000
Truth(v) ==           \* numbers and numeric strings: non-zero; strings: non-empty; unset: false
  v \in {"three", "negthree", "twohalf", "n300", "abc", "s12", "s0", "sn12", "big"}
StrForm(v) ==           \* under the default CONVFMT
  CASE v = "three" -> "3" [] v = "negthree" -> "-3" [] v = "twohalf" -> "2.5" [] v = "n300" -> "300" [] v = "zero" -> "0"
    [] v = "abc" -> "abc" [] v = "s12" -> "12" [] v = "s0" -> "0" [] v = "empty" -> "" [] v = "sn12" -> "12" [] v = "sn0" -> "0"
    [] v = "unset" -> "" [] v = "big" -> "1000000"

\* 2.5 (the only non-integral magnitude of the model) under a CONVFMT setting
TwoHalfText(cf) == CASE cf = "%.6g" -> "2.5" [] cf = "%.2f" -> "2.50" [] cf = "%.3e" -> "2.500e+00"
\* the string form under CONVFMT cf: only a non-integral number depends on it
StrFormCf(v, cf) == IF v = "twohalf" THEN TwoHalfText(cf) ELSE StrForm(v)

\* truncation toward zero of a number given in halves
TruncHalves(h) == IF h >= 0 THEN h \div 2 ELSE 0 - ((0 - h) \div 2)

\* is integer n representable in kind k?  (the menu never exceeds 32 bits)
InRange(k, n) ==
  CASE k = "int8"   -> n >= 0 - 128 /\ n <= 127
    [] k = "uint8"  -> n >= 0 /\ n <= 255
    [] k = "int16"  -> n >= 0 - 32768 /\ n <= 32767
    [] k = "uint16" -> n >= 0 /\ n <= 65535
    [] k \in Unsigned -> n >= 0
    [] OTHER -> TRUE

Unspecified == [ok |-> FALSE, val |-> [k |-> "none"]]
Known(g)     == [ok |-> TRUE, val |-> g]
\* "the text the AWK conversion (v "") of this argument gives in the same program"
AwkText      == [ok |-> TRUE, val |-> [k |-> "awk"]]
\* the same as a prediction of printed text (there val is a string): "the line  print (arg1 "")  gives"
AwkTextPrinted == [ok |-> TRUE, awk |-> TRUE, val |-> ""]

\* the documented conversion of an AWK argument to a Go parameter of kind k, CONVFMT being cf
ToGoCf(k, v, cf) ==
  IF k \in StrKinds THEN (IF v \in WildValues THEN AwkText ELSE Known([k |-> "s", s |-> StrFormCf(v, cf)]))
  ELSE IF v \in WildValues THEN Unspecified
  ELSE CASE k = "bool"       -> Known([k |-> "b", b |-> Truth(v)])
         [] k \in IntKinds   -> LET n == TruncHalves(NumHalves(v))
                                IN IF InRange(k, n) THEN Known([k |-> "i", n |-> n]) ELSE Unspecified
         [] k \in FloatKinds -> Known([k |-> "f", h |-> NumHalves(v)])
ToGo(k, v) == ToGoCf(k, v, DefaultCf)

ZeroOf(k) ==
  CASE k = "bool" -> [k |-> "b", b |-> FALSE]
    [] k \in IntKinds -> [k |-> "i", n |-> 0]
    [] k \in FloatKinds -> [k |-> "f", h |-> 0]
    [] k \in StrKinds -> [k |-> "s", s |-> ""]

\* the documented conversion of a Go result of kind k to an AWK value:
\* [t |-> "num", h |-> halves]  or  [t |-> "str", s |-> STRING]
FromGo(k, g) ==
  CASE k = "bool"       -> [t |-> "num", h |-> IF g.b THEN 2 ELSE 0]
    [] k \in IntKinds   -> [t |-> "num", h |-> 2 * g.n]
    [] k \in FloatKinds -> [t |-> "num", h |-> g.h]
    [] k \in StrKinds   -> [t |-> "str", s |-> g.s]
AwkNull == [t |-> "str", s |-> ""]

\* how  print "R:" r  shows an AWK value (the concatenation converts a number to a string: integers as
\* integers, 2.5 through CONVFMT; 2.5 is the only non-integral magnitude)
AwkPrintCf(a, cf) ==
  IF a.t = "str" THEN a.s
  ELSE LET neg == a.h < 0
           m   == IF neg THEN 0 - a.h ELSE a.h
           txt == IF m % 2 = 0 THEN ToString(m \div 2)
                  ELSE IF m = 5 THEN TwoHalfText(cf) ELSE ToString(m \div 2) \o ".5"
       IN IF neg THEN "-" \o txt ELSE txt
AwkPrint(a) == AwkPrintCf(a, DefaultCf)

\* the constant a recording function returns when it does not echo
RetConst(k) ==
  CASE k = "bool" -> [k |-> "b", b |-> TRUE]
    [] k \in Signed -> [k |-> "i", n |-> 0 - 5]
    [] k \in Unsigned -> [k |-> "i", n |-> 5]
    [] k \in FloatKinds -> [k |-> "f", h |-> 5]
    [] k \in StrKinds -> [k |-> "s", s |-> "ret"]

\* ---- extreme results ----
\* digit sequences (most significant first) for the values TLC's 32-bit integers cannot hold
RECURSIVE DMulAdd(_, _, _)          \* d * c + carry
DMulAdd(d, c, carry) ==
  IF d = <<>> THEN (IF carry = 0 THEN <<>> ELSE DMulAdd(<<>>, c, carry \div 10) \o <<carry % 10>>)
  ELSE LET v == d[Len(d)] * c + carry
       IN DMulAdd(SubSeq(d, 1, Len(d) - 1), c, v \div 10) \o <<v % 10>>
RECURSIVE DMulPow2(_, _)            \* d * 2^n   (by factors of 2^16 while possible: digit * 65536 + carry fits easily)
DMulPow2(d, n) == IF n = 0 THEN d ELSE IF n >= 16 THEN DMulPow2(DMulAdd(d, 65536, 0), n - 16) ELSE DMulPow2(DMulAdd(d, 2, 0), n - 1)
DPow2(n) == DMulPow2(<<1>>, n)
DIncr(d) == DMulAdd(d, 1, 1)
RECURSIVE DDecr(_)                  \* d - 1 for d >= 1 (a leading zero may remain only for d = 1: <<0>>)
DDecr(d) == IF d[Len(d)] > 0 THEN [d EXCEPT ![Len(d)] = @ - 1]
            ELSE DDecr(SubSeq(d, 1, Len(d) - 1)) \o <<9>>
RECURSIVE DText(_)
DText(d) == IF d = <<>> THEN "" ELSE ToString(d[1]) \o DText(Tail(d))

Bits(k) == CASE k \in {"int8", "uint8"} -> 8 [] k \in {"int16", "uint16"} -> 16 [] k \in {"int32", "uint32"} -> 32
             [] k \in {"int", "int64", "uint", "uint64"} -> 64          \* 64-bit platforms
\* the extreme values of a result kind
ExtOf(k) ==
  CASE k \in Signed     -> {"min", "max", "minus1"} \cup (IF Bits(k) = 64 THEN {"p53p1", "negp53p1"} ELSE {})
    [] k \in Unsigned   -> {"max"} \cup (IF Bits(k) = 64 THEN {"p63", "p63m1", "p63p1", "p53p1"} ELSE {})
    [] k \in FloatKinds -> {"fmax", "negfmax", "fden", "negfden"}
    [] OTHER -> {}
\* an integer needs at most 53 significant bits to be a float64; 2^n - 1 has n of them, 2^n one, 2^n + 1 has n + 1
\* [neg, int (integer-valued), d (digits of the magnitude, integer-valued only), exact (a float64 holds it), e10]
ExtVal(k, x) ==
  LET I(neg, d, ex) == [neg |-> neg, int |-> TRUE, d |-> d, exact |-> ex, e10 |-> Len(d) - 1]
      Small(neg, e) == [neg |-> neg, int |-> FALSE, d |-> <<>>, exact |-> TRUE, e10 |-> e]
  IN CASE x = "min"      -> I(TRUE, DPow2(Bits(k) - 1), TRUE)
       [] x = "max"      -> IF k \in Signed THEN I(FALSE, DDecr(DPow2(Bits(k) - 1)), Bits(k) - 1 <= 53)
                            ELSE I(FALSE, DDecr(DPow2(Bits(k))), Bits(k) <= 53)
       [] x = "minus1"   -> I(TRUE, <<1>>, TRUE)
       [] x = "p53p1"    -> I(FALSE, DIncr(DPow2(53)), FALSE)
       [] x = "negp53p1" -> I(TRUE, DIncr(DPow2(53)), FALSE)
       [] x = "p63"      -> I(FALSE, DPow2(63), TRUE)
       [] x = "p63m1"    -> I(FALSE, DDecr(DPow2(63)), FALSE)
       [] x = "p63p1"    -> I(FALSE, DIncr(DPow2(63)), FALSE)
       \* MaxFloat64 = (2^53 - 1) * 2^971, MaxFloat32 = (2^24 - 1) * 2^104; the smallest denormals 2^-1074 = 4.94..e-324
       \* and 2^-149 = 1.40..e-45 (a float64 holds every float32 exactly)
       [] x \in {"fmax", "negfmax"} -> I(x = "negfmax", IF k = "float64" THEN DMulPow2(DDecr(DPow2(53)), 971)
                                                         ELSE DMulPow2(DDecr(DPow2(24)), 104), TRUE)
       [] x \in {"fden", "negfden"} -> Small(x = "negfden", IF k = "float64" THEN 0 - 324 ELSE 0 - 45)
\* as exported: the digits as text.  ExtTable is a constant without parameters: TLC computes it once (MaxFloat64 costs
\* 61 long multiplications of a 300-digit sequence).
ExtKinds == IntKinds \cup FloatKinds
ExtTable == [k \in ExtKinds |-> [x \in ExtOf(k) |-> LET v == ExtVal(k, x)
                                                     IN [neg |-> v.neg, int |-> v.int, digits |-> DText(v.d), exact |-> v.exact, e10 |-> v.e10]]]
ExtNum(k, x) == ExtTable[k][x]
MkExt(params, k, x, e) ==
  [shape |-> "ok", name |-> "fn", params |-> params, variadic |-> FALSE, res |-> "ext", rk |-> k, err |-> e, xv |-> x]

\* ---- signatures ----
\* sig = [shape, name, params (kinds), variadic, res ("none" | "const" | "echo"), rk (result kind), err ("none" | "nil" | "err")]
\* shape "ok": parameters and result over Kinds.  Other shapes are the invalid ones; each has one parameter
\* slot (so that a call with one argument parses) except the result-shaped ones.
InvalidShapes == {"struct-param", "map-param", "chan-param", "complex-param", "func-param", "intslice-param",
                  "pointer-param", "interface-param", "three-results", "second-not-error", "struct-result",
                  "variadic-struct"}
KeywordNames == {"print", "BEGIN", "function", "getline", "length", "in", "substr"}
\* shape "gen": [shape, name, params (over ParamKinds), variadic, nres (0..3), rk (first result), r2 (second result),
\*               res, err (as for "ok": what the synthesised function does when the signature is valid)]
BadKinds    == {"struct", "map", "chan", "complex", "func", "intslice", "strslice", "pointer", "interface", "array"}
ParamKinds  == Kinds \cup BadKinds
\* second results: the type error; errno = a named int with an Error method; perr = a pointer type with an Error
\* method; errstruct = a struct type with an Error method (all three IMPLEMENT error); int and string do not
SecondKinds == {"error", "errno", "perr", "errstruct", "int", "string"}
ImplementsError == {"error", "errno", "perr", "errstruct"}
\* the documented rule (doc comment of interp.Config.Funcs)
GenValid(sig) ==
  /\ \A j \in 1..Len(sig.params) : sig.params[j] \in Kinds
  /\ \/ sig.nres = 0
     \/ sig.nres = 1 /\ sig.rk \in Kinds
     \/ sig.nres = 2 /\ sig.rk \in Kinds /\ sig.r2 = "error"
MkGen(params, variadic, nres, rk, r2) ==
  [shape |-> "gen", name |-> "fn", params |-> params, variadic |-> variadic, nres |-> nres, rk |-> rk, r2 |-> r2,
   res |-> IF nres = 0 THEN "none" ELSE "const", err |-> IF nres = 2 THEN "nil" ELSE "none"]
NumParams(sig) == IF sig.shape \in {"ok", "gen"} THEN Len(sig.params)
                  ELSE IF sig.shape \in {"three-results", "second-not-error", "struct-result"} THEN 0 ELSE 1
IsVariadic(sig) == IF sig.shape \in {"ok", "gen"} THEN sig.variadic ELSE sig.shape = "variadic-struct"
ValidSig(sig) == sig.name \notin KeywordNames /\ (sig.shape = "ok" \/ (sig.shape = "gen" /\ GenValid(sig)))
\* the corrected function a maintainer would put under the same name: every undocumented parameter kind replaced by
\* string, one result of a documented kind (int if it was not) and a second result of type error
Fixed(sig) ==
  IF sig.shape = "gen"
  THEN [shape |-> "ok", name |-> sig.name, params |-> [j \in 1..Len(sig.params) |-> IF sig.params[j] \in Kinds THEN sig.params[j] ELSE "string"],
        variadic |-> sig.variadic, res |-> "const", rk |-> IF sig.nres >= 1 /\ sig.rk \in Kinds THEN sig.rk ELSE "int", err |-> "nil"]
  ELSE [shape |-> "ok", name |-> sig.name, params |-> IF NumParams(sig) = 1 THEN <<"string">> ELSE <<>>,
        variadic |-> IsVariadic(sig), res |-> "const", rk |-> "int", err |-> "nil"]

\* kind of the parameter that receives argument number j
ParamKind(sig, j) ==
  IF sig.variadic /\ j >= Len(sig.params) THEN sig.params[Len(sig.params)] ELSE sig.params[j]

\* what the Go function receives: the converted arguments, then zero values for the missing
\* non-variadic parameters (a variadic tail without arguments is empty)
ReceivedCf(sig, args, cf) ==
  LET fixed == IF sig.variadic THEN Len(sig.params) - 1 ELSE Len(sig.params)
      n     == IF Len(args) > fixed THEN Len(args) ELSE fixed
  IN [j \in 1..n |-> IF j <= Len(args) THEN ToGoCf(ParamKind(sig, j), args[j], cf) ELSE Known(ZeroOf(sig.params[j]))]
Received(sig, args) == ReceivedCf(sig, args, DefaultCf)

\* ---- dispatch ----
\* The Funcs table of the model, in name order, and the call the program makes of each of the others BEFORE it
\* calls fn:  aa(7)  mm("q")  zz(2, 3).  As Go functions: aa(x int) int = x + 100, mm(s string) string = s "!",
\* zz(a, b int) int = 10a + b; as AWK functions (when shadowed): return "awk:" first argument.
Table   == <<"aa", "fn", "mm", "zz">>
Others  == <<"aa", "mm", "zz">>
Shadows == {"none", "aa", "mm", "zz"}
GoResultOf(name)  == CASE name = "aa" -> "107" [] name = "mm" -> "q!" [] name = "zz" -> "23"
AwkResultOf(name) == CASE name = "aa" -> "awk:7" [] name = "mm" -> "awk:q" [] name = "zz" -> "awk:2"
PosIn(seq, e) == CHOOSE k \in 1..Len(seq) : seq[k] = e
\* the index the resolver gives a Go function: its place in name order among ALL names of Funcs.  renumber = TRUE is
\* the slip (numbering only the names that no AWK function shadows) that DispatchAgrees excludes.
ResolverIndex(renumber, shadow, name) ==
  IF renumber THEN PosIn(SelectSeq(Table, LAMBDA nm : nm # shadow), name) ELSE PosIn(Table, name)
\* the interpreter's table: every name of Funcs, in name order
InterpTable == Table
\* which function a call of `name` reaches
Dispatch(renumber, shadow, name) ==
  IF name = shadow THEN "awk:" \o name ELSE InterpTable[ResolverIndex(renumber, shadow, name)]
DispatchAgrees(renumber) ==
  \A sh \in Shadows : \A k \in 1..Len(Table) : Table[k] # sh => Dispatch(renumber, sh, Table[k]) = Table[k]
\* the Go functions that run, in order, up to and including fn; and the lines printed for the calls of the others
RanBefore(shadow) == SelectSeq(Others, LAMBDA nm : nm # shadow)
OtherLines(shadow) == [k \in 1..Len(Others) |-> IF Others[k] = shadow THEN AwkResultOf(Others[k]) ELSE GoResultOf(Others[k])]

\* the outcome of   { r = name(args); print "R:" r }   under Funcs = {name: function of signature sig, ...},
\* CONVFMT = cf.  called = FALSE: the program does not mention the function (keyword-like names cannot be called)
OutcomeConv(sig, args, called, cf) ==
  IF called /\ ~IsVariadic(sig) /\ Len(args) > NumParams(sig) THEN [o |-> "parse-error"]
  ELSE IF ~ValidSig(sig) THEN [o |-> "setup-error"]
  ELSE IF ~called THEN [o |-> "not-called"]
  ELSE LET recv == ReceivedCf(sig, args, cf)
       IN IF sig.err = "err" THEN [o |-> "abort", recv |-> recv]
          ELSE IF sig.res = "ext"     \* the spelling of print is not pinned down beyond 64 bits: the NUMBER is (num)
          THEN [o |-> "ok", recv |-> recv, printed |-> Unspecified, num |-> ExtNum(sig.rk, sig.xv)]
          ELSE [o |-> "ok", recv |-> recv,
                printed |-> CASE sig.res = "none"  -> Known(AwkPrintCf(AwkNull, cf))
                              [] sig.res = "const" -> Known(AwkPrintCf(FromGo(sig.rk, RetConst(sig.rk)), cf))
                              [] sig.res = "echo"  -> IF ~recv[1].ok THEN Unspecified
                                                      ELSE IF recv[1].val.k = "awk" THEN AwkTextPrinted   \* the echoed text, printed
                                                      ELSE Known(AwkPrintCf(FromGo(sig.rk, recv[1].val), cf))]
\* the outcome of   { print "D:" aa(7); print "D:" mm("q"); print "D:" zz(2, 3); r = fn(args); print "R:" r }
\* under Funcs = Table and an AWK function named `shadow`: as above, and
\* ran = the Go functions that ran, in order; dlines = the text printed after "D:" for the three other calls
OutcomeFull(sig, args, called, shadow, cf) ==
  LET oc  == OutcomeConv(sig, args, called, cf)
      ran == Append(RanBefore(shadow), Dispatch(FALSE, shadow, sig.name))
  IN CASE oc.o = "abort" -> [o |-> "abort", recv |-> oc.recv, ran |-> ran, dlines |-> OtherLines(shadow)]
       [] oc.o = "ok"    -> IF "num" \in DOMAIN oc
                            THEN [o |-> "ok", recv |-> oc.recv, ran |-> ran, dlines |-> OtherLines(shadow), printed |-> oc.printed, num |-> oc.num]
                            ELSE [o |-> "ok", recv |-> oc.recv, ran |-> ran, dlines |-> OtherLines(shadow), printed |-> oc.printed]
       [] OTHER          -> oc
\* a table with only the called function matters to the conversion tables: no shadow, default CONVFMT
Outcome(sig, args, called) == OutcomeConv(sig, args, called, DefaultCf)

\* ---- sessions: several Execute calls on ONE interpreter ----
\* A run is "bad" (Funcs holds the function of the invalid signature sig) or "fixed" (the same table with the
\* corrected function Fixed(sig) under the same name).  The set-up verdict of an Execute is a function of the Funcs
\* it is given: every "bad" run is rejected at set-up, whatever happened before.  A "fixed" run after a rejected one:
\* nothing was set up by the rejected calls, so it behaves like the first Execute of a fresh interpreter; because the
\* documentation also says that Funcs must not change between calls, an implementation that keeps rejecting is not
\* judged wrong (orsetup = TRUE: "this outcome, or a set-up error").
SessionOutcomes(sig, args, called, runs) ==
  [j \in 1..Len(runs) |->
     IF runs[j] = "bad" THEN [orsetup |-> FALSE, outcome |-> OutcomeFull(sig, args, called, "none", DefaultCf)]
     ELSE [orsetup |-> TRUE, outcome |-> OutcomeFull(Fixed(sig), args, called, "none", DefaultCf)]]

\* ---- native calls inside whole programs (NativeProgram.tla runs both as state machines) ----
\* (1) POSITIONS.  "A non-nil error aborts the run with exactly that error" -- wherever in the program the call is
\* written.  A case is [sig, args, pos]: the function (no or one int parameter, a constant result, every error mode) is
\* called ONCE, in the syntactic position pos, while the one input record is processed (BEGIN and END: there); a
\* statement placed right after the call prints the marker "A:", and the program ends with  END { print "E:end" }.
\*    begin        BEGIN { x = fn(..); print "A:" x }
\*    action       { x = fn(..); print "A:" x }
\*    pattern      fn(..) { print "A:" }                      (the constant results are all true)
\*    range-start  fn(..), 0 { print "A:" }
\*    range-stop   1, fn(..) { print "A:" }                  (evaluated for the record that opens the range)
\*    func-body    function w(a) { a = fn(..); return a }  { x = w(1); print "A:" x }
\*    end          END { x = fn(..); print "A:" x }
\*    getline-file { getline ln < ("/nonexistent-c17/" fn(..)); print "A:" }
\*    cond         { if (fn(..)) print "A:" }
\*    subscript    { arr[fn(..)] = 1; print "A:" }
\*    builtin-arg  { x = length(fn(..)); print "A:" x }
\*    user-arg     function w(a) { return a }  { x = w(fn(..)); print "A:" x }
\*    printf-arg   { printf "A:%s\n", fn(..) }
Positions == {"begin", "action", "pattern", "range-start", "range-stop", "func-body", "end", "getline-file", "cond",
              "subscript", "builtin-arg", "user-arg", "printf-arg"}
\* the part of a run in which the call of position pos is evaluated
StageOf(pos) == CASE pos = "begin" -> "begin" [] pos = "end" -> "end"
                  [] pos \in {"pattern", "range-start", "range-stop"} -> "pattern" [] OTHER -> "action"
\* Outcome: the error aborts the run -- Execute returns that error, the END marker is never printed, and the statement
\* after the call does not run (after = FALSE).  For range-stop the marker "A:" is in the action of the same record;
\* whether that action runs before the stop expression is evaluated is not said anywhere: afterJudged = FALSE.
\* Without an error everything runs: one call, both markers.
PosOutcome(sig, args, pos) ==
  IF sig.err = "err" THEN [o |-> "abort", calls |-> 1, after |-> FALSE, afterJudged |-> pos # "range-stop", endmark |-> FALSE]
  ELSE [o |-> "ok", calls |-> 1, after |-> TRUE, afterJudged |-> TRUE, endmark |-> TRUE]

\* (2) RESULTS ARE VALUES.  "Returns the converted result": the AWK value of fn(x) is the string form of the bytes the
\* Go function returned WHEN IT RETURNED, and stays that -- whatever the function does with its memory afterwards.  A
\* case is [rk, policy, hold, args]: fn(s string) rk returns the text of s
\*    policy "fresh"    in newly allocated memory
\*           "scratch"  in ONE buffer of its own, which every call overwrites (buf = append(buf[:0], s...); return buf)
\*           "wipe"     in new memory, after filling the memory it returned the last time with '#'
\* and the program calls it Len(args) times, KEEPING every result
\*    hold "var"        r1 = fn(a1); r2 = fn(a2) ...           print "K:" r1 ...
\*         "elem"       h[1] = fn(a1); h[2] = fn(a2) ...       print "K:" h[1] ...
\*         "field"      $5 = fn(a1); $6 = fn(a2) ...           print "K:" $5 ...
\*         "subscript"  s[fn(a1)] = 1; s[fn(a2)] = 2 ...       for (k in s) print "S:" k ":" s[k]   (in any order)
\* before it looks at any of them.
KeepRks == {"bytes", "string"}
KeepPolicies(rk) == IF rk = "bytes" THEN {"fresh", "scratch", "wipe"} ELSE {"fresh"}      \* a Go string cannot be overwritten
KeepHolds == {"var", "elem", "field", "subscript"}
KeepValues == {"three", "negthree", "abc", "s12", "n300", "big"}
Wiped == "#wiped#"
\* the calls whose text no later call repeats (an array has ONE element per subscript: the last assignment stays)
LastCalls(args) == SelectSeq([j \in 1..Len(args) |-> j], LAMBDA j : \A m \in (j + 1)..Len(args) : StrForm(args[m]) # StrForm(args[j]))
KeepOutcome(c) ==
  IF c.hold = "subscript"
  THEN LET lc == LastCalls(c.args)
       IN [o |-> "ok", calls |-> Len(c.args), kept |-> [q \in 1..Len(lc) |-> [key |-> StrForm(c.args[lc[q]]), val |-> ToString(lc[q])]]]
  ELSE [o |-> "ok", calls |-> Len(c.args), kept |-> [j \in 1..Len(c.args) |-> [key |-> ToString(j), val |-> StrForm(c.args[j])]]]

\* the universes of the two families (shared by MC_NativeProgram and Gen_Native)
PosRks  == {"int", "string", "bytes", "bool", "float64"}
PosSigs == {[shape |-> "ok", name |-> "fn", params |-> ps, variadic |-> FALSE, res |-> "const", rk |-> k, err |-> e]
            : ps \in {<<>>, <<"int">>}, k \in PosRks, e \in {"none", "nil", "err"}}
PosCases == {[sig |-> sg, args |-> [j \in 1..Len(sg.params) |-> "three"], pos |-> ps] : sg \in PosSigs, ps \in Positions}
RECURSIVE KeepArgLists(_)
KeepArgLists(n) == IF n = 0 THEN {<<>>} ELSE {Append(a, v) : a \in KeepArgLists(n - 1), v \in KeepValues}
KeepCases(maxcalls) ==
  UNION {UNION {{[rk |-> k, policy |-> pl, hold |-> h, args |-> a] : a \in UNION {KeepArgLists(n) : n \in 2..maxcalls}, h \in KeepHolds}
                : pl \in KeepPolicies(k)} : k \in KeepRks}

\* an "echo" function returns its first parameter: it needs one, of the result's kind
WellFormedSig(sig) ==
  /\ sig.shape = "ok" => /\ \A j \in 1..Len(sig.params) : sig.params[j] \in Kinds
                         /\ (sig.variadic => Len(sig.params) >= 1)
                         /\ (sig.res # "none" => sig.rk \in Kinds)
                         /\ (sig.res = "echo" => (Len(sig.params) >= 1 /\ ~(sig.variadic /\ Len(sig.params) = 1)
                                                  /\ sig.params[1] = sig.rk))
                         /\ (sig.res = "none" => sig.err = "none")
                         /\ (sig.res = "ext" => (sig.xv \in ExtOf(sig.rk) /\ sig.err \in {"none", "nil"}))
  /\ sig.shape = "gen" => /\ \A j \in 1..Len(sig.params) : sig.params[j] \in ParamKinds
                          /\ (sig.variadic => Len(sig.params) >= 1)
                          /\ sig.nres \in 0..3 /\ sig.rk \in ParamKinds /\ sig.r2 \in SecondKinds
                          /\ sig.res = (IF sig.nres = 0 THEN "none" ELSE "const") /\ sig.err = (IF sig.nres = 2 THEN "nil" ELSE "none")
=============================================================================
