------------------------------- MODULE Native -------------------------------
(***************************************************************************)
(* Property C17: Go functions exposed to AWK (interp.Config.Funcs) convert *)
(* arguments and results as documented.                                    *)
(*                                                                         *)
(* AWK argument values are taken from a menu (value ids); for every id the *)
(* tables below give its number (in HALVES, because TLC has no reals:      *)
(* 2.5 is 5), its truth value and its string form -- the three conversions *)
(* the AWK language defines.  A Go value is                                *)
(*    [k |-> "b", b |-> BOOLEAN]   [k |-> "i", n |-> Int]                  *)
(*    [k |-> "f", h |-> halves]    [k |-> "s", s |-> STRING]               *)
(* ToGo(kind, v) is the documented conversion of an argument, FromGo(kind, *)
(* g) that of a result; Outcome(sig, args) says what a call does: parse    *)
(* error (too many arguments), set-up error (invalid signature or name),   *)
(* abort with the function's error, or the values received and the text    *)
(* printed for the result.  NativeMachine.tla runs this as the state       *)
(* machine Parse -> Setup -> Others -> Call -> Convert -> Return/Abort.    *)
(*                                                                         *)
(* String kinds (string and []byte alike) receive the STRING FORM of the   *)
(* argument: a string as it is, an integral number as an integer, any      *)
(* other number through the current CONVFMT (cf: one of ConvFmts; the      *)
(* first is the default, which the program then does not assign).  Where   *)
(* the spelling is not pinned down by the statement (nan, inf, -inf, and   *)
(* integral numbers beyond 64 bits) the prediction is AwkText: "exactly    *)
(* the text that the AWK conversion (v "") of this argument gives in the   *)
(* same program" -- whatever it is, a string and a []byte parameter        *)
(* receive the same.                                                       *)
(*                                                                         *)
(* Dispatch: Funcs is a table of names (here Table: the called function    *)
(* "fn" and three others); the resolver numbers the Go functions by name   *)
(* order over ALL names of the table, the interpreter builds its table the *)
(* same way; an AWK `function` of the same name as an entry (shadow) takes *)
(* precedence for calls of that name and must not change which Go function *)
(* the calls of the OTHER names reach (DispatchAgrees).                    *)
(***************************************************************************)
EXTENDS Integers, Sequences, FiniteSets, TLC

Kinds    == {"bool", "int", "int8", "int16", "int32", "int64", "uint", "uint8", "uint16", "uint32", "uint64",
             "float32", "float64", "string", "bytes"}
Signed   == {"int", "int8", "int16", "int32", "int64"}
Unsigned == {"uint", "uint8", "uint16", "uint32", "uint64"}
IntKinds == Signed \cup Unsigned
FloatKinds == {"float32", "float64"}
StrKinds == {"string", "bytes"}

\* ---- the menu of AWK argument values ----
\*  id        AWK source            meaning
\*  three     3                     number 3
\*  negthree  -3                    number -3
\*  twohalf   2.5                   number 2.5
\*  n300      300                   number 300 (out of range for int8/uint8)
\*  zero      0                     number 0
\*  abc       "abc"                 string, not numeric
\*  s12       "12"                  string constant that looks numeric (still a string)
\*  s0        "0"                   string constant "0": true as a string
\*  empty     ""                    empty string
\*  sn12      $1 (input "12 0")     numeric string 12
\*  sn0       $2 (input "12 0")     numeric string 0: false, because it is a number
\*  unset     u                     uninitialised variable
\*  big       1000000               an integer that %.6g would spell 1e+06: integers convert as integers
\*  huge      1e30                  beyond every integer kind: only "no panic" is required of numeric kinds
\*  nan       log(-1)               not a number: only "no panic" is required of numeric kinds
\*  inf       -log(0)               +infinity (same)
\*  neginf    log(0)                -infinity (same)
PlainValues == {"three", "negthree", "twohalf", "n300", "zero", "abc", "s12", "s0", "empty", "sn12", "sn0", "unset", "big"}
WildValues  == {"huge", "nan", "inf", "neginf"}
Values      == PlainValues \cup WildValues

\* CONVFMT settings: the first is the default (the program does not assign CONVFMT)
DefaultCf == "%.6g"
ConvFmts  == {"%.6g", "%.2f", "%.3e"}

NumHalves(v) ==       \* twice the numeric value (leading numeric prefix for strings)
  CASE v = "three" -> 6 [] v = "negthree" -> 0 - 6 [] v = "twohalf" -> 5 [] v = "n300" -> 600 [] v = "zero" -> 0
    [] v = "abc" -> 0 [] v = "s12" -> 24 [] v = "s0" -> 0 [] v = "empty" -> 0 [] v = "sn12" -> 24 [] v = "sn0" -> 0
    [] v = "unset" -> 0 [] v = "big" -> 2000000
Truth(v) ==           \* numbers and numeric strings: non-zero; strings: non-empty; unset: false
  v \in {"three", "negthree", "twohalf", "n300", "abc", "s12", "s0", "sn12", "big"}
StrForm(v) ==           \* under the default CONVFMT
  CASE v = "three" -> "3" [] v = "negthree" -> "-3" [] v = "twohalf" -> "2.5" [] v = "n300" -> "300" [] v = "zero" -> "0"
    [] v = "abc" -> "abc" [] v = "s12" -> "12" [] v = "s0" -> "0" [] v = "empty" -> "" [] v = "sn12" -> "12" [] v = "sn0" -> "0"
    [] v = "unset" -> "" [] v = "big" -> "1000000"

\* 2.5 (the only non-integral magnitude of the model) under a CONVFMT setting
TwoHalfText(cf) == CASE cf = "%.6g" -> "2.5" [] cf = "%.2f" -> "2.50" [] cf = "%.3e" -> "2.500e+00"
\* the string form under CONVFMT cf: only a non-integral number depends on it
StrFormCf(v, cf) == IF v = "twohalf" THEN TwoHalfText(cf) ELSE StrForm(v)

\* truncation toward zero of a number given in halves
TruncHalves(h) == IF h >= 0 THEN h \div 2 ELSE 0 - ((0 - h) \div 2)

\* is integer n representable in kind k?  (the menu never exceeds 32 bits)
InRange(k, n) ==
  CASE k = "int8"   -> n >= 0 - 128 /\ n <= 127
    [] k = "uint8"  -> n >= 0 /\ n <= 255
    [] k = "int16"  -> n >= 0 - 32768 /\ n <= 32767
    [] k = "uint16" -> n >= 0 /\ n <= 65535
    [] k \in Unsigned -> n >= 0
    [] OTHER -> TRUE

Unspecified == [ok |-> FALSE, val |-> [k |-> "none"]]
Known(g)     == [ok |-> TRUE, val |-> g]
\* "the text the AWK conversion (v "") of this argument gives in the same program"
AwkText      == [ok |-> TRUE, val |-> [k |-> "awk"]]
\* the same as a prediction of printed text (there val is a string): "the line  print (arg1 "")  gives"
AwkTextPrinted == [ok |-> TRUE, awk |-> TRUE, val |-> ""]

\* the documented conversion of an AWK argument to a Go parameter of kind k, CONVFMT being cf
ToGoCf(k, v, cf) ==
  IF k \in StrKinds THEN (IF v \in WildValues THEN AwkText ELSE Known([k |-> "s", s |-> StrFormCf(v, cf)]))
  ELSE IF v \in WildValues THEN Unspecified
  ELSE CASE k = "bool"       -> Known([k |-> "b", b |-> Truth(v)])
         [] k \in IntKinds   -> LET n == TruncHalves(NumHalves(v))
                                IN IF InRange(k, n) THEN Known([k |-> "i", n |-> n]) ELSE Unspecified
         [] k \in FloatKinds -> Known([k |-> "f", h |-> NumHalves(v)])
ToGo(k, v) == ToGoCf(k, v, DefaultCf)

ZeroOf(k) ==
  CASE k = "bool" -> [k |-> "b", b |-> FALSE]
    [] k \in IntKinds -> [k |-> "i", n |-> 0]
    [] k \in FloatKinds -> [k |-> "f", h |-> 0]
    [] k \in StrKinds -> [k |-> "s", s |-> ""]

\* the documented conversion of a Go result of kind k to an AWK value:
\* [t |-> "num", h |-> halves]  or  [t |-> "str", s |-> STRING]
FromGo(k, g) ==
  CASE k = "bool"       -> [t |-> "num", h |-> IF g.b THEN 2 ELSE 0]
    [] k \in IntKinds   -> [t |-> "num", h |-> 2 * g.n]
    [] k \in FloatKinds -> [t |-> "num", h |-> g.h]
    [] k \in StrKinds   -> [t |-> "str", s |-> g.s]
AwkNull == [t |-> "str", s |-> ""]

\* how  print "R:" r  shows an AWK value (the concatenation converts a number to a string: integers as
\* integers, 2.5 through CONVFMT; 2.5 is the only non-integral magnitude)
AwkPrintCf(a, cf) ==
  IF a.t = "str" THEN a.s
  ELSE LET neg == a.h < 0
           m   == IF neg THEN 0 - a.h ELSE a.h
           txt == IF m % 2 = 0 THEN ToString(m \div 2)
                  ELSE IF m = 5 THEN TwoHalfText(cf) ELSE ToString(m \div 2) \o ".5"
       IN IF neg THEN "-" \o txt ELSE txt
AwkPrint(a) == AwkPrintCf(a, DefaultCf)

\* the constant a recording function returns when it does not echo
RetConst(k) ==
  CASE k = "bool" -> [k |-> "b", b |-> TRUE]
    [] k \in Signed -> [k |-> "i", n |-> 0 - 5]
    [] k \in Unsigned -> [k |-> "i", n |-> 5]
    [] k \in FloatKinds -> [k |-> "f", h |-> 5]
    [] k \in StrKinds -> [k |-> "s", s |-> "ret"]

\* ---- signatures ----
\* sig = [shape, name, params (kinds), variadic, res ("none" | "const" | "echo"), rk (result kind), err ("none" | "nil" | "err")]
\* shape "ok": parameters and result over Kinds.  Other shapes are the invalid ones; each has one parameter
\* slot (so that a call with one argument parses) except the result-shaped ones.
InvalidShapes == {"struct-param", "map-param", "chan-param", "complex-param", "func-param", "intslice-param",
                  "pointer-param", "interface-param", "three-results", "second-not-error", "struct-result",
                  "variadic-struct"}
KeywordNames == {"print", "BEGIN", "function", "getline", "length", "in", "substr"}
NumParams(sig) == IF sig.shape = "ok" THEN Len(sig.params)
                  ELSE IF sig.shape \in {"three-results", "second-not-error", "struct-result"} THEN 0 ELSE 1
IsVariadic(sig) == IF sig.shape = "ok" THEN sig.variadic ELSE sig.shape = "variadic-struct"
ValidSig(sig) == sig.shape = "ok" /\ sig.name \notin KeywordNames

\* kind of the parameter that receives argument number j
ParamKind(sig, j) ==
  IF sig.variadic /\ j >= Len(sig.params) THEN sig.params[Len(sig.params)] ELSE sig.params[j]

\* what the Go function receives: the converted arguments, then zero values for the missing
\* non-variadic parameters (a variadic tail without arguments is empty)
ReceivedCf(sig, args, cf) ==
  LET fixed == IF sig.variadic THEN Len(sig.params) - 1 ELSE Len(sig.params)
      n     == IF Len(args) > fixed THEN Len(args) ELSE fixed
  IN [j \in 1..n |-> IF j <= Len(args) THEN ToGoCf(ParamKind(sig, j), args[j], cf) ELSE Known(ZeroOf(sig.params[j]))]
Received(sig, args) == ReceivedCf(sig, args, DefaultCf)

\* ---- dispatch ----
\* The Funcs table of the model, in name order, and the call the program makes of each of the others BEFORE it
\* calls fn:  aa(7)  mm("q")  zz(2, 3).  As Go functions: aa(x int) int = x + 100, mm(s string) string = s "!",
\* zz(a, b int) int = 10a + b; as AWK functions (when shadowed): return "awk:" first argument.
Table   == <<"aa", "fn", "mm", "zz">>
Others  == <<"aa", "mm", "zz">>
Shadows == {"none", "aa", "mm", "zz"}
GoResultOf(name)  == CASE name = "aa" -> "107" [] name = "mm" -> "q!" [] name = "zz" -> "23"
AwkResultOf(name) == CASE name = "aa" -> "awk:7" [] name = "mm" -> "awk:q" [] name = "zz" -> "awk:2"
PosIn(seq, e) == CHOOSE k \in 1..Len(seq) : seq[k] = e
\* the index the resolver gives a Go function: its place in name order among ALL names of Funcs.  renumber = TRUE is
\* the slip (numbering only the names that no AWK function shadows) that DispatchAgrees excludes.
ResolverIndex(renumber, shadow, name) ==
  IF renumber THEN PosIn(SelectSeq(Table, LAMBDA nm : nm # shadow), name) ELSE PosIn(Table, name)
\* the interpreter's table: every name of Funcs, in name order
InterpTable == Table
\* which function a call of `name` reaches
Dispatch(renumber, shadow, name) ==
  IF name = shadow THEN "awk:" \o name ELSE InterpTable[ResolverIndex(renumber, shadow, name)]
DispatchAgrees(renumber) ==
  \A sh \in Shadows : \A k \in 1..Len(Table) : Table[k] # sh => Dispatch(renumber, sh, Table[k]) = Table[k]
\* the Go functions that run, in order, up to and including fn; and the lines printed for the calls of the others
RanBefore(shadow) == SelectSeq(Others, LAMBDA nm : nm # shadow)
OtherLines(shadow) == [k \in 1..Len(Others) |-> IF Others[k] = shadow THEN AwkResultOf(Others[k]) ELSE GoResultOf(Others[k])]

\* the outcome of   { r = name(args); print "R:" r }   under Funcs = {name: function of signature sig, ...},
\* CONVFMT = cf.  called = FALSE: the program does not mention the function (keyword-like names cannot be called)
OutcomeConv(sig, args, called, cf) ==
  IF called /\ ~IsVariadic(sig) /\ Len(args) > NumParams(sig) THEN [o |-> "parse-error"]
  ELSE IF ~ValidSig(sig) THEN [o |-> "setup-error"]
  ELSE IF ~called THEN [o |-> "not-called"]
  ELSE LET recv == ReceivedCf(sig, args, cf)
       IN IF sig.err = "err" THEN [o |-> "abort", recv |-> recv]
          ELSE [o |-> "ok", recv |-> recv,
                printed |-> CASE sig.res = "none"  -> Known(AwkPrintCf(AwkNull, cf))
                              [] sig.res = "const" -> Known(AwkPrintCf(FromGo(sig.rk, RetConst(sig.rk)), cf))
                              [] sig.res = "echo"  -> IF ~recv[1].ok THEN Unspecified
                                                      ELSE IF recv[1].val.k = "awk" THEN AwkTextPrinted   \* the echoed text, printed
                                                      ELSE Known(AwkPrintCf(FromGo(sig.rk, recv[1].val), cf))]
\* the outcome of   { print "D:" aa(7); print "D:" mm("q"); print "D:" zz(2, 3); r = fn(args); print "R:" r }
\* under Funcs = Table and an AWK function named `shadow`: as above, and
\* ran = the Go functions that ran, in order; dlines = the text printed after "D:" for the three other calls
OutcomeFull(sig, args, called, shadow, cf) ==
  LET oc  == OutcomeConv(sig, args, called, cf)
      ran == Append(RanBefore(shadow), Dispatch(FALSE, shadow, sig.name))
  IN CASE oc.o = "abort" -> [o |-> "abort", recv |-> oc.recv, ran |-> ran, dlines |-> OtherLines(shadow)]
       [] oc.o = "ok"    -> [o |-> "ok", recv |-> oc.recv, ran |-> ran, dlines |-> OtherLines(shadow), printed |-> oc.printed]
       [] OTHER          -> oc
\* a table with only the called function matters to the conversion tables: no shadow, default CONVFMT
Outcome(sig, args, called) == OutcomeConv(sig, args, called, DefaultCf)

\* an "echo" function returns its first parameter: it needs one, of the result's kind
WellFormedSig(sig) ==
  /\ sig.shape = "ok" => /\ \A j \in 1..Len(sig.params) : sig.params[j] \in Kinds
                         /\ (sig.variadic => Len(sig.params) >= 1)
                         /\ (sig.res # "none" => sig.rk \in Kinds)
                         /\ (sig.res = "echo" => (Len(sig.params) >= 1 /\ ~(sig.variadic /\ Len(sig.params) = 1)
                                                  /\ sig.params[1] = sig.rk))
                         /\ (sig.res = "none" => sig.err = "none")
=============================================================================
