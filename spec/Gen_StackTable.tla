--------------------------- MODULE Gen_StackTable ---------------------------
(* Exports the operand-count table of StackMachine.tla, so that the harness    *)
(* decodes executed instructions with the specification's table, not its own. *)
EXTENDS StackMachine
VARIABLES op, done
Init == op \in OpNames /\ done = FALSE
Next == ~done /\ done' = TRUE /\ op' = op /\ PrintT(ToJson([op |-> op, operands |-> Operands[op]]))
Spec == Init /\ [][Next]_<<op, done>>
=============================================================================
