SPECIFICATION Spec
CONSTANTS
  CheckEvery = 3
  MaxDepth = 3
  MaxPrint = 2
  MaxRecords = 2
  SharedCounter = TRUE
  PreferCtxErr = TRUE
  FlushOnCtxErr = TRUE
  WaitErrChecksDone = TRUE
  Outcomes = {"zero", "nonzero", "signal", "waitfail"}
  PrintKinds = {"pr_direct", "pr_buffered", "pr_file", "pr_cmd"}
INVARIANTS TypeOK Prompt ExactBound EndsRight NoSpuriousCtxErr RightIdentity Delivered DeliveredBefore Invisible
PROPERTIES Stops
CHECK_DEADLOCK FALSE
