SPECIFICATION Spec
CONSTANTS
  CheckEvery = 3
  MaxDepth = 3
  MaxPrint = 2
  MaxRecords = 2
  SharedCounter = TRUE
  PreferCtxErr = TRUE
  FlushOnCtxErr = TRUE
INVARIANTS TypeOK Prompt ExactBound EndsRight NoSpuriousCtxErr RightIdentity Delivered DeliveredBefore Invisible
PROPERTIES Stops
CHECK_DEADLOCK FALSE
