----------------------------- MODULE CommandLine -----------------------------
(***************************************************************************)
(* The command line of the goawk tool: how an argument vector becomes a    *)
(* program, settings and operands -- the user's way to everything the      *)
(* other modules specify (this module is not anchored in one of the listed *)
(* properties; it extends the specification to the tool's front end and is *)
(* run with the C11 check, which owns operands and ARGV).                  *)
(*                                                                         *)
(* An argument is [b |-> bytes, prog |-> BOOLEAN]: prog marks the argument *)
(* that holds the text of the probe program (its bytes are the harness's   *)
(* business; it does not begin with "-").                                  *)
(*                                                                         *)
(* The option scan is a state machine, one step per option (ScanStep), as  *)
(* in the tool: options are read up to the first argument that is "-" or   *)
(* does not begin with "-", or up to "--" (consumed) or -E (which takes    *)
(* its argument and ends the options).  An option's value is the rest of   *)
(* the same argument (-F: -vx=2 -fp.awk) or, when the argument is exactly  *)
(* the option, the next argument -- whatever it looks like.                *)
(*   -F sep     FS                      (last one wins)                    *)
(*   -v n=val   variable, before BEGIN, escapes interpreted, in order      *)
(*   -f file    program source; several are concatenated in order          *)
(*   -E file    like -f, ends the options, var=value operands are files    *)
(*   -c         characters instead of bytes (no effect on the probe)       *)
(*   -N mode    newline translation of the output: raw, smart (= raw on    *)
(*              this platform), crlf (every LF written becomes CR LF);     *)
(*              any other mode is an error                                 *)
(*   -version   prints the version, exit 0, nothing else happens           *)
(* Without -f / -E the first remaining argument is the program text; what  *)
(* remains are the operands (ARGV[1..]).  Errors (an option without its    *)
(* value, an unknown option, no program, a -v without "=", a program file  *)
(* that does not exist) end the run with a non-zero status and no output.  *)
(***************************************************************************)
EXTENDS AwkBuild

Arg(bytes) == [b |-> bytes, prog |-> FALSE]
ProgArg    == [b |-> <<>>, prog |-> TRUE]

IsPrefixOf(p, str) == Len(p) <= Len(str) /\ SubSeq(str, 1, Len(p)) = p
Rest(str, n) == SubSeq(str, n + 1, Len(str))

OptF == <<MINUS, C_F>>   Optv == <<MINUS, c_v>>   Optf == <<MINUS, c_f>>   OptE == <<MINUS, C_E>>
OptN == <<MINUS, C_N>>
ModeCrlf == <<c_c, c_r, c_l, c_f>>   ModeRaw == <<c_r, c_a, c_w>>   ModeSmart == <<c_s, c_m, c_a, c_r, c_t>>
Optc == <<MINUS, c_c>>   OptVersion == <<MINUS, c_v, c_e, c_r, c_s, c_i, c_o, c_n>>
DashDash == <<MINUS, MINUS>>   Dash == <<MINUS>>

\* scan state: i next argument; pf program files; vars the -v texts; fs; noargvars; res "scan" | "done" | "error" | "version"
Scan0 == [i |-> 1, pf |-> <<>>, vars |-> <<>>, fs |-> <<SP>>, noargvars |-> FALSE, crlf |-> FALSE, res |-> "scan"]

ValueOpts == {OptF, Optv, Optf, OptE, OptN}
SetOpt(sc, opt, val) ==
  CASE opt = OptF -> [sc EXCEPT !.fs = val]
    [] opt = Optv -> [sc EXCEPT !.vars = Append(@, val)]
    [] opt = Optf -> [sc EXCEPT !.pf = Append(@, val)]
    [] opt = OptE -> [sc EXCEPT !.pf = Append(@, val), !.noargvars = TRUE, !.res = "done"]
    [] opt = OptN -> IF val \in {ModeCrlf, ModeRaw, ModeSmart} THEN [sc EXCEPT !.crlf = (val = ModeCrlf)]
                     ELSE [sc EXCEPT !.res = "error"]                  \* -N arg can only be one of: smart, raw, crlf

ScanStep(av, sc) ==
  IF sc.i > Len(av) THEN [sc EXCEPT !.res = "done"]
  ELSE LET a == av[sc.i] IN
    IF a.prog \/ a.b = Dash \/ ~IsPrefixOf(Dash, a.b) THEN [sc EXCEPT !.res = "done"]
    ELSE IF a.b = DashDash THEN [sc EXCEPT !.i = @ + 1, !.res = "done"]
    ELSE IF a.b = OptVersion THEN [sc EXCEPT !.res = "version"]
    ELSE IF a.b = Optc THEN [sc EXCEPT !.i = @ + 1]
    ELSE IF a.b \in ValueOpts
         THEN IF sc.i + 1 > Len(av) THEN [sc EXCEPT !.res = "error"]         \* flag needs an argument
              ELSE LET nx == av[sc.i + 1]
                   IN IF nx.prog THEN [sc EXCEPT !.res = "unjudged"]        \* the probe text used as an option value
                      ELSE SetOpt([sc EXCEPT !.i = @ + 2], a.b, nx.b)
    ELSE IF \E o \in ValueOpts : IsPrefixOf(o, a.b)
         THEN LET o == CHOOSE o \in ValueOpts : IsPrefixOf(o, a.b) IN SetOpt([sc EXCEPT !.i = @ + 1], o, Rest(a.b, 2))
    ELSE [sc EXCEPT !.res = "error"]                                          \* flag provided but not defined

RECURSIVE ScanAll(_, _)
ScanAll(av, sc) == IF sc.res # "scan" THEN sc ELSE ScanAll(av, ScanStep(av, sc))

\* ---- the files of the harness's working directory
P1 == <<c_p, D1, DOT, c_a, c_w, c_k>>      \* p1.awk : the probe program
P2 == <<c_p, D2, DOT, c_a, c_w, c_k>>      \* p2.awk : BEGIN { print "p2" }
File1 == <<c_f, c_i, c_l, c_e, D1>>         \* file1  : two records
File1Recs == << <<c_l, D1>>, <<c_l, D2, SP, c_q>> >>
StdinRecs == << <<c_s, D1>> >>

\* ---- the probe program, as a syntax tree of AwkSem
ProbeBegin == <<SPrintf(<<S(<<C_B, SP, C_F, C_S, EQ, PCT, c_s, SP, c_x, EQ, PCT, c_s, SP, c_w, EQ, PCT, c_s, SP, C_A, EQ, PCT, c_d>>), V("FS"), V("x"), V("w"), V("ARGC")>>),
                SFor(SExpr(Asg(V("i"), N(0))), Bin("<", V("i"), V("ARGC")), SExpr(Inc("++", FALSE, V("i"))),
                     <<SPrintf(<<S(<<SP, LBRK, PCT, c_s, RBRK>>), Idx("ARGV", V("i"))>>)>>),
                SPrint(<<S(<<>>)>>)>>
ProbeRule == Rule(NoE, <<SPrintf(<<S(<<C_R, SP, PCT, c_d, SP, PCT, c_s, SP, c_x, EQ, PCT, c_s, SP, c_w, EQ, PCT, c_s, LF>>), V("NR"), Fld(N(0)), V("x"), V("w")>>)>>)
ProbeEnd == <<SPrintf(<<S(<<C_E, SP, PCT, c_d, SP, c_x, EQ, PCT, c_s, SP, c_w, EQ, PCT, c_s, LF>>), V("NR"), V("x"), V("w")>>)>>
P2Begin == <<SPrint(<<S(<<c_p, D2>>)>>)>>

\* the pieces a list of program sources contributes (several BEGIN blocks run in order)
RECURSIVE SourceOf(_)
SourceOf(srcs) ==      \* srcs: sequence of "probe" | "p2";  returns [begin, rules, end]
  IF srcs = <<>> THEN [begin |-> <<>>, rules |-> <<>>, end |-> <<>>]
  ELSE LET r == SourceOf(Tail(srcs))
       IN IF srcs[1] = "probe" THEN [begin |-> ProbeBegin \o r.begin, rules |-> <<ProbeRule>> \o r.rules, end |-> ProbeEnd \o r.end]
          ELSE [begin |-> P2Begin \o r.begin, rules |-> r.rules, end |-> r.end]

\* -v name=value: the value with escapes interpreted (only \t and \\ occur in the menu)
RECURSIVE Unesc(_)
Unesc(str) ==
  IF str = <<>> THEN <<>>
  ELSE IF str[1] = BSL /\ Len(str) >= 2 /\ str[2] = c_t THEN <<TAB>> \o Unesc(Rest(str, 2))
  ELSE IF str[1] = BSL /\ Len(str) >= 2 /\ str[2] = BSL THEN <<BSL>> \o Unesc(Rest(str, 2))
  ELSE <<str[1]>> \o Unesc(Tail(str))
EqPos(str) == IF \E j \in 1..Len(str) : str[j] = EQ THEN Min({j \in 1..Len(str) : str[j] = EQ}) ELSE 0
VarName(bytes) == CASE bytes = <<c_x>> -> "x" [] bytes = <<c_w>> -> "w" [] OTHER -> ""

\* newline translation of -N crlf: every LF of the output (which holds no CR) becomes CR LF
RECURSIVE CrLf(_)
CrLf(str) == IF str = <<>> THEN <<>> ELSE (IF str[1] = LF THEN <<CR, LF>> ELSE <<str[1]>>) \o CrLf(Tail(str))

\* ---- the outcome of a whole argument vector
\* [kind |-> "run", out, status, err] | [kind |-> "error"] | [kind |-> "version"] | [kind |-> "unjudged", why]
Unjudged(why) == [kind |-> "unjudged", why |-> why]
Outcome0(av) ==
  LET sc == ScanAll(av, Scan0)
      rest == SubSeq(av, sc.i, Len(av))
  IN IF sc.res = "version" THEN [kind |-> "version"]
     ELSE IF sc.res = "error" THEN [kind |-> "error"]
     ELSE IF sc.res = "unjudged" THEN Unjudged("probe text as option value")
     ELSE IF sc.pf = <<>> /\ rest = <<>> THEN [kind |-> "error"]                       \* usage
     ELSE IF sc.pf = <<>> /\ ~rest[1].prog THEN Unjudged("another argument in program position")
     ELSE IF \E j \in 1..Len(sc.pf) : sc.pf[j] = Dash THEN Unjudged("program read from standard input")
     ELSE IF \E j \in 1..Len(sc.pf) : sc.pf[j] = File1 THEN Unjudged("a data file as program file")
     ELSE IF \E j \in 1..Len(sc.pf) : sc.pf[j] \notin {P1, P2} THEN [kind |-> "error"]   \* no such program file
     ELSE IF \E j \in 1..Len(sc.vars) : EqPos(sc.vars[j]) = 0 THEN [kind |-> "error"]  \* -v without =
     ELSE IF \E j \in 1..Len(sc.vars) : VarName(SubSeq(sc.vars[j], 1, EqPos(sc.vars[j]) - 1)) = "" THEN Unjudged("variable outside the model")
     ELSE LET operands == IF sc.pf = <<>> THEN Tail(rest) ELSE rest
              srcs == IF sc.pf = <<>> THEN <<"probe">> ELSE [j \in 1..Len(sc.pf) |-> IF sc.pf[j] = P1 THEN "probe" ELSE "p2"]
              src == SourceOf(srcs)
              presets == <<SExpr(Asg(V("FS"), S(sc.fs)))>> \o
                         [j \in 1..Len(sc.vars) |->
                            SExpr(Asg(V(VarName(SubSeq(sc.vars[j], 1, EqPos(sc.vars[j]) - 1))), S(Unesc(Rest(sc.vars[j], EqPos(sc.vars[j]))))))]
              \* a program of BEGIN blocks only does not read its operands
              pg == Prog(presets \o src.begin, src.rules, src.end, <<>>)
              onlyBegin == src.rules = <<>> /\ src.end = <<>>
          IN IF \E j \in 1..Len(operands) : operands[j].prog THEN Unjudged("probe text as operand")
             ELSE LET fin == RunEnv(IF onlyBegin THEN BeginOnly(pg.begin) ELSE pg,
                                    [stdin |-> StdinRecs, files |-> [nm \in {File1} |-> File1Recs],
                                     args |-> [j \in 1..Len(operands) |-> operands[j].b], noargvars |-> sc.noargvars])
                      o == Outcome(fin)
                  IN IF o.bad THEN Unjudged("the run is outside the model of AwkSem (missing file operand, ...)")
                     ELSE [kind |-> "run", out |-> IF sc.crlf THEN CrLf(o.out) ELSE o.out, status |-> o.status, err |-> o.err]

\* ---- laws of the option scan (checked by MC_CommandLine on every vector of its menu)
\* nothing after the program text (or after --, or after -E file) is an option any more
ScanStopsAtProgram(av) ==
  LET sc == ScanAll(av, Scan0)
  IN sc.res = "done" => \A j \in 1..(sc.i - 1) : ~av[j].prog
\* the scan consumes arguments from the left only and never runs past the end
ScanInBounds(av) == LET sc == ScanAll(av, Scan0) IN sc.i >= 1 /\ sc.i <= Len(av) + 1
\* options the scan did not reach cannot matter: vectors that agree up to where the scan stopped scan alike
PrefixDetermines(av, bv) ==
  LET sa == ScanAll(av, Scan0)
  IN (sa.res = "done" /\ sa.i - 1 <= Len(bv) /\ SubSeq(av, 1, sa.i - 1) = SubSeq(bv, 1, sa.i - 1) /\ Len(av) = Len(bv)
        /\ (sa.i <= Len(av) => (av[sa.i] = bv[sa.i])))
     => ScanAll(bv, Scan0) = sa
=============================================================================
