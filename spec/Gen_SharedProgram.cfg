SPECIFICATION Spec
CONSTANTS
  NProc = 2
  MaxLen = 2
  MaxRuns = 1
  SharedCache = FALSE
  ReuseInterp = FALSE
  Rich = FALSE
  SharedShellArgs = FALSE
  Fam = "shared"
  NG = 4
  Extra = "none"
CHECK_DEADLOCK FALSE
