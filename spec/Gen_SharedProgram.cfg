SPECIFICATION Spec
CONSTANTS
  NProc = 2
  MaxLen = 2
  SharedCache = FALSE
  Rich = FALSE
CHECK_DEADLOCK FALSE
