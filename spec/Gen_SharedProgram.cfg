SPECIFICATION Spec
CONSTANTS
  NProc = 2
  MaxLen = 2
  MaxRuns = 1
  SharedCache = FALSE
  ReuseInterp = FALSE
  Rich = FALSE
CHECK_DEADLOCK FALSE
