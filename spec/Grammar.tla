------------------------------ MODULE Grammar ------------------------------
(***************************************************************************)
(* AWK expression grammar as the POSIX precedence table prescribes it.     *)
(*                                                                         *)
(*  - Table: the POSIX table as data (level, operators, associativity,     *)
(*    fixity, operand restrictions).                                       *)
(*  - Expression trees are records [k |-> kind, ...].                      *)
(*  - MinTop(t, ctx) / FullTop(t, ctx): the two printers (token sequences).*)
(*  - An operator-precedence parser written from the table alone, as an    *)
(*    explicit shift/reduce machine: state [toks, opnd, oprs, st, np],     *)
(*    one step PStep(ps) that is either a Shift or a Reduce.               *)
(*  - Derivations (sequences of productions, holes filled left to right)   *)
(*    and FromDeriv, used by MC_Grammar / Gen_Grammar to enumerate trees.  *)
(*                                                                         *)
(* The parser is STRICT: it accepts a token string only when the table     *)
(* alone determines the tree.  An operand may be a lower-level construct   *)
(* only inside parentheses, so `2 ^ -x`, `$-1`, `a !b`, `a ? b : c = d`,   *)
(* `!x = y`, `1 && x = 1`, `$$i++`, `a ++b`, `a < b | getline`,            *)
(* `x = "c" | getline`, `print B[a > b]` are outside its language (real awks accept them     *)
(* through yacc shift preferences, not through the table) and are never    *)
(* judged; MinParen writes one pair of parentheses more in those places.   *)
(***************************************************************************)
EXTENDS Integers, Sequences, FiniteSets, TLC

\* ------------------------------------------------------------------ tokens
\* A text is a sequence of tokens; a token is a TLA+ string holding the AWK
\* spelling.  The harness joins tokens with blanks (no blank between a
\* function or array name and the bracket that follows it).
\* Spacing: the tree of a text does not depend on blanks between tokens.  Besides the blank-separated text the harness
\* also parses the compact text, in which a blank is kept only where leaving it out could change the TOKENS: between two
\* tokens of which the first ends and the second begins with a word character (letter, digit, _, ., quote), between a
\* word and ( or [, between two tokens made of operator characters (+ - * / % ^ = < > ! & | ~ ? : , $), and around
\* regex literals and /.  (-2 ^ 2 and - 2 ^ 2 are the same tree: the sign is an operator, not part of the number.)
LeafNames == <<"a","b","c","d","e","g","h","k","m","n","p","q","r","s","t","u","v","w","x","y","z">>
NLeaf == Len(LeafNames)
LeafName(i) == LeafNames[((i - 1) % NLeaf) + 1]
NumTok(i)  == <<"1","2","3","4","5","6","7","8","9">>[((i - 1) % 9) + 1]
StrTok(i)  == "\"" \o LeafName(i) \o "\""
ReTok(i)   == "/" \o LeafName(i) \o "/"

ScalarNames == {LeafNames[i] : i \in 1..NLeaf} \cup {"tgt"}
ArrayNames  == {"A", "B"}
FuncNames   == {"length"}
NumToks     == {NumTok(i) : i \in 1..9}
StrToks     == {StrTok(i) : i \in 1..NLeaf}
ReToks      == {ReTok(i) : i \in 1..NLeaf}
AtomToks    == ScalarNames \cup NumToks \cup StrToks \cup ReToks

\* ------------------------------------------------------------- the table
RelOps   == {"<", "<=", "!=", "==", ">", ">="}
MatchOps == {"~", "!~"}
AsgOps   == {"=", "+=", "-=", "*=", "/=", "%=", "^="}
BinOps   == {"||", "&&"} \cup MatchOps \cup RelOps \cup {"cat", "+", "-", "*", "/", "%", "^"}

\* POSIX "Expressions in Decreasing Precedence in awk", read bottom-up
\* (row number = binding strength).  fix: infix / prefix / postfix / ternary;
\* restr: operand restriction enforced by the parser and honoured by MinParen.
Table == <<
  [ops |-> AsgOps,            assoc |-> "right", fix |-> "infix",   restr |-> "left operand is an lvalue"],
  [ops |-> {"?:"},            assoc |-> "right", fix |-> "ternary", restr |-> "none"],
  [ops |-> {"||"},            assoc |-> "left",  fix |-> "infix",   restr |-> "none"],
  [ops |-> {"&&"},            assoc |-> "left",  fix |-> "infix",   restr |-> "none"],
  [ops |-> {"in"},            assoc |-> "left",  fix |-> "infix",   restr |-> "right operand is an array NAME"],
  [ops |-> MatchOps,          assoc |-> "none",  fix |-> "infix",   restr |-> "none"],
  [ops |-> RelOps,            assoc |-> "none",  fix |-> "infix",   restr |-> "not at depth 0 of a print argument"],
  [ops |-> {"cat"},           assoc |-> "left",  fix |-> "infix",   restr |-> "right operand does not start with + - ! ++ -- regex getline"],
  [ops |-> {"+", "-"},        assoc |-> "left",  fix |-> "infix",   restr |-> "none"],
  [ops |-> {"*", "/", "%"},   assoc |-> "left",  fix |-> "infix",   restr |-> "none"],
  [ops |-> {"u+", "u-", "u!"}, assoc |-> "none", fix |-> "prefix",  restr |-> "none"],
  [ops |-> {"^"},             assoc |-> "right", fix |-> "infix",   restr |-> "none"],
  [ops |-> {"pre++", "pre--", "post++", "post--"}, assoc |-> "none", fix |-> "prefix/postfix", restr |-> "operand is an lvalue"],
  [ops |-> {"$"},             assoc |-> "none",  fix |-> "prefix",  restr |-> "none"],
  [ops |-> {"grp"},           assoc |-> "none",  fix |-> "circumfix", restr |-> "none"] >>

AllOps == UNION {Table[i].ops : i \in 1..Len(Table)}
LvlF   == [id \in AllOps |-> CHOOSE i \in 1..Len(Table) : id \in Table[i].ops]
AssocF == [id \in AllOps |-> Table[LvlF[id]].assoc]

LAsg == LvlF["="]     LCond == LvlF["?:"]   LIn == LvlF["in"]     LRel == LvlF["<"]
LCat == LvlF["cat"]   LUn == LvlF["u-"]     LPow == LvlF["^"]     LInc == LvlF["pre++"]
LField == LvlF["$"]   LPrim == LvlF["grp"]
\* `cmd | getline` binds looser than concatenation: its left operand may be
\* anything from the concatenation row upwards.  The getline forms themselves
\* are given level 0: as an operand of anything they are parenthesised.
LGetCmd == LCat

\* ------------------------------------------------------------------ trees
\*  [k |-> "atom", v]          NAME NUMBER STRING ERE
\*  [k |-> "grp", e]           ( e )
\*  [k |-> "idx", arr, i]      arr[i]
\*  [k |-> "call", fn, a]      fn(a)
\*  [k |-> "field", e]         $e
\*  [k |-> "pre"/"post", op, e]   op in {"++","--"}
\*  [k |-> "un", op, e]        op in {"-","+","!"}
\*  [k |-> "bin", op, l, r]    op in BinOps
\*  [k |-> "in", l, arr]
\*  [k |-> "cond", c, t, f]
\*  [k |-> "asg", op, l, r]
\*  [k |-> "pget", cmd, lv]    cmd | getline [lv]      (lv = "" for none)
\*  [k |-> "fget", lv, file]   getline [lv] < file
\*  [k |-> "get", lv]          getline [lv]
Atom(v) == [k |-> "atom", v |-> v]

Lvl(t) ==
  CASE t.k \in {"atom", "grp", "idx", "call"} -> LPrim
    [] t.k = "field" -> LField
    [] t.k \in {"pre", "post"} -> LInc
    [] t.k = "un" -> LUn
    [] t.k = "bin" -> LvlF[t.op]
    [] t.k = "in" -> LIn
    [] t.k = "cond" -> LCond
    [] t.k = "asg" -> LAsg
    [] t.k \in {"pget", "fget", "get"} -> 0

IsLv(t) == t.k \in {"idx", "field"} \/ (t.k = "atom" /\ t.v \in ScalarNames)
IsRel(t) == t.k = "bin" /\ t.op \in RelOps
IsGet(t) == t.k \in {"pget", "fget", "get"}

\* the tree without grouping nodes (what both texts must denote)
RECURSIVE Strip(_)
Strip(t) ==
  CASE t.k = "atom" -> t
    [] t.k = "grp" -> Strip(t.e)
    [] t.k = "idx" -> [t EXCEPT !.i = Strip(t.i)]
    [] t.k = "call" -> [t EXCEPT !.a = Strip(t.a)]
    [] t.k \in {"field", "pre", "post", "un"} -> [t EXCEPT !.e = Strip(t.e)]
    [] t.k \in {"bin", "asg"} -> [t EXCEPT !.l = Strip(t.l), !.r = Strip(t.r)]
    [] t.k = "in" -> [t EXCEPT !.l = Strip(t.l)]
    [] t.k = "cond" -> [t EXCEPT !.c = Strip(t.c), !.t = Strip(t.t), !.f = Strip(t.f)]
    [] t.k = "pget" -> [t EXCEPT !.cmd = Strip(t.cmd)]
    [] t.k = "fget" -> [t EXCEPT !.file = Strip(t.file)]
    [] t.k = "get" -> t

\* S-expression (grouping skipped); the harness prints the real syntax tree
\* in exactly this form.
LvS(lv) == IF lv = "" THEN "_" ELSE lv
RECURSIVE Sx(_)
Sx(t) ==
  CASE t.k = "atom" -> t.v
    [] t.k = "grp" -> Sx(t.e)
    [] t.k = "idx" -> "([] " \o t.arr \o " " \o Sx(t.i) \o ")"
    [] t.k = "call" -> "(call " \o t.fn \o " " \o Sx(t.a) \o ")"
    [] t.k = "field" -> "($ " \o Sx(t.e) \o ")"
    [] t.k \in {"pre", "post"} -> "(" \o t.k \o t.op \o " " \o Sx(t.e) \o ")"
    [] t.k = "un" -> "(u" \o t.op \o " " \o Sx(t.e) \o ")"
    [] t.k \in {"bin", "asg"} -> "(" \o t.op \o " " \o Sx(t.l) \o " " \o Sx(t.r) \o ")"
    [] t.k = "in" -> "(in " \o t.arr \o " " \o Sx(t.l) \o ")"
    [] t.k = "cond" -> "(?: " \o Sx(t.c) \o " " \o Sx(t.t) \o " " \o Sx(t.f) \o ")"
    [] t.k = "pget" -> "(pget " \o Sx(t.cmd) \o " " \o LvS(t.lv) \o ")"
    [] t.k = "fget" -> "(fget " \o LvS(t.lv) \o " " \o Sx(t.file) \o ")"
    [] t.k = "get" -> "(get " \o LvS(t.lv) \o ")"

\* --------------------------------------------------------------- contexts
Contexts == {"stmt", "print", "printgt", "printpipe", "pat", "cond"}
NoRel(ctx) == ctx \in {"print", "printgt", "printpipe"}
RedirDest == "\"out\""
\* the tokens that follow the expression inside the context's program
CtxTail(ctx) == IF ctx = "printgt" THEN <<">", RedirDest>> ELSE IF ctx = "printpipe" THEN <<"|", RedirDest>> ELSE <<>>
\* S-expression of the statement the context builds around the expression
CtxSx(ctx, sx) ==
  CASE ctx = "print"   -> "(print " \o sx \o ")"
    [] ctx = "printgt" -> "(print " \o sx \o " > " \o RedirDest \o ")"
    [] ctx = "printpipe" -> "(print " \o sx \o " | " \o RedirDest \o ")"
    [] OTHER -> sx

\* ------------------------------------------------------ the two printers
LvToks(lv) == IF lv = "" THEN <<>> ELSE <<lv>>
BadAfterCat == {"+", "-", "!", "++", "--", "getline"} \cup ReToks

\* M(t, np): minimal parenthesisation; np = "relational operators and getline
\* are not allowed here without parentheses" (depth 0 of a print argument).
RECURSIVE M(_, _)
Par(t) == <<"(">> \o M(t, FALSE) \o <<")">>
\* operand that must be at least of level `need`
P(t, need, np) == IF Lvl(t) >= need /\ ~(np /\ IsRel(t)) THEN M(t, np) ELSE Par(t)
\* right operand of a concatenation
PCatR(t, np) == LET x == P(t, LCat + 1, np) IN IF Head(x) \in BadAfterCat THEN Par(t) ELSE x
\* operand of $: a primary, another $, or a pre-increment (nothing that follows can be absorbed by it)
PField(e, np) == IF e.k = "pre" \/ Lvl(e) >= LField THEN M(e, np) ELSE Par(e)
M(t, np) ==
  CASE t.k = "atom" -> <<t.v>>
    [] t.k = "grp" -> Par(t.e)
    \* a subscript inside a print argument keeps the exclusion of > and getline: awks whose lexer counts
    \* only round brackets (gawk, mawk) read `print B[a > b]` as a redirection
    [] t.k = "idx" -> <<t.arr, "[">> \o (IF np /\ (IsRel(t.i) \/ IsGet(t.i)) THEN Par(t.i) ELSE M(t.i, np)) \o <<"]">>
    [] t.k = "call" -> <<t.fn, "(">> \o M(t.a, FALSE) \o <<")">>
    [] t.k = "field" -> <<"$">> \o PField(t.e, np)
    [] t.k = "pre" -> <<t.op>> \o M(t.e, np)
    [] t.k = "post" -> (IF t.e.k = "field" THEN <<"$">> \o P(t.e.e, LPrim, np) ELSE M(t.e, np)) \o <<t.op>>
    [] t.k = "un" -> <<t.op>> \o P(t.e, LUn, np)
    [] t.k = "bin" ->
         LET L == LvlF[t.op]  as == AssocF[t.op]
             lt == P(t.l, IF as = "left" THEN L ELSE L + 1, np)
         IN IF t.op = "cat" THEN lt \o PCatR(t.r, np)
            ELSE lt \o <<t.op>> \o P(t.r, IF as = "right" THEN L ELSE L + 1, np)
    [] t.k = "in" -> P(t.l, LIn, np) \o <<"in", t.arr>>
    [] t.k = "cond" -> P(t.c, LCond + 1, np) \o <<"?">> \o P(t.t, LCond, np) \o <<":">> \o P(t.f, LCond, np)
    [] t.k = "asg" -> M(t.l, np) \o <<t.op>> \o P(t.r, LAsg, np)
    [] t.k = "pget" -> P(t.cmd, LGetCmd, np) \o <<"|", "getline">> \o LvToks(t.lv)
    [] t.k = "fget" -> <<"getline">> \o LvToks(t.lv) \o <<"<">> \o P(t.file, LPrim, np)
    [] t.k = "get" -> <<"getline">> \o LvToks(t.lv)

MinTop(t, ctx) ==
  IF NoRel(ctx) /\ (IsRel(t) \/ IsGet(t)) THEN Par(t) ELSE M(t, NoRel(ctx))

\* F(t): every operand that is not an atom is parenthesised
RECURSIVE F(_)
W(t) == IF t.k \in {"atom", "grp"} THEN F(t) ELSE <<"(">> \o F(t) \o <<")">>
WCatR(t) == IF t.k = "atom" /\ t.v \in ReToks THEN <<"(", t.v, ")">> ELSE W(t)
F(t) ==
  CASE t.k = "atom" -> <<t.v>>
    [] t.k = "grp" -> <<"(">> \o F(t.e) \o <<")">>
    [] t.k = "idx" -> <<t.arr, "[">> \o W(t.i) \o <<"]">>
    [] t.k = "call" -> <<t.fn, "(">> \o F(t.a) \o <<")">>
    [] t.k = "field" -> <<"$">> \o W(t.e)
    [] t.k = "pre" -> <<t.op>> \o F(t.e)
    [] t.k = "post" -> F(t.e) \o <<t.op>>
    [] t.k = "un" -> <<t.op>> \o W(t.e)
    [] t.k = "bin" -> IF t.op = "cat" THEN W(t.l) \o WCatR(t.r) ELSE W(t.l) \o <<t.op>> \o W(t.r)
    [] t.k = "in" -> W(t.l) \o <<"in", t.arr>>
    [] t.k = "cond" -> W(t.c) \o <<"?">> \o W(t.t) \o <<":">> \o W(t.f)
    [] t.k = "asg" -> F(t.l) \o <<t.op>> \o W(t.r)
    [] t.k = "pget" -> W(t.cmd) \o <<"|", "getline">> \o LvToks(t.lv)
    [] t.k = "fget" -> <<"getline">> \o LvToks(t.lv) \o <<"<">> \o W(t.file)
    [] t.k = "get" -> <<"getline">> \o LvToks(t.lv)

FullTop(t, ctx) == IF NoRel(ctx) THEN W(t) ELSE F(t)

\* Loose(t): no parentheses at all except the grouping nodes of the tree itself.
\* The text may denote another tree or none; it is used (C20) as a source whose
\* tree is whatever the real parser says -- printing and re-parsing must keep it.
RECURSIVE Loose(_)
Loose(t) ==
  CASE t.k = "atom" -> <<t.v>>
    [] t.k = "grp" -> <<"(">> \o Loose(t.e) \o <<")">>
    [] t.k = "idx" -> <<t.arr, "[">> \o Loose(t.i) \o <<"]">>
    [] t.k = "call" -> <<t.fn, "(">> \o Loose(t.a) \o <<")">>
    [] t.k = "field" -> <<"$">> \o Loose(t.e)
    [] t.k = "pre" -> <<t.op>> \o Loose(t.e)
    [] t.k = "post" -> Loose(t.e) \o <<t.op>>
    [] t.k = "un" -> <<t.op>> \o Loose(t.e)
    [] t.k = "bin" -> IF t.op = "cat" THEN Loose(t.l) \o Loose(t.r) ELSE Loose(t.l) \o <<t.op>> \o Loose(t.r)
    [] t.k = "in" -> Loose(t.l) \o <<"in", t.arr>>
    [] t.k = "cond" -> Loose(t.c) \o <<"?">> \o Loose(t.t) \o <<":">> \o Loose(t.f)
    [] t.k = "asg" -> Loose(t.l) \o <<t.op>> \o Loose(t.r)
    [] t.k = "pget" -> Loose(t.cmd) \o <<"|", "getline">> \o LvToks(t.lv)
    [] t.k = "fget" -> <<"getline">> \o LvToks(t.lv) \o <<"<">> \o Loose(t.file)
    [] t.k = "get" -> <<"getline">> \o LvToks(t.lv)

\* ------------------------------------------- the shift/reduce machine
\* Parser state: toks  remaining input,
\*               opnd  operand stack (trees),
\*               oprs  operator stack (entries [e, op]),
\*               st    "opd" an operand is expected / "opr" an operand is complete /
\*                     "ok" accepted (opnd = <<tree>>) / "rej" outside the strict language,
\*               np    relational operators and getline are excluded at depth 0 (print argument),
\*               last  kind of the step that produced this state.
\* Entries: "(" "[" "f(" "?" are barriers; "bin" "un" "pre" "$" "asg" "?:" "<get" wait for operands.
En(e, op) == [e |-> e, op |-> op]
IsBarrier(en) == en.e \in {"(", "[", "f(", "?"}
ELvl(en) ==
  CASE IsBarrier(en) -> 0 - 1
    [] en.e = "?:" -> LCond
    [] en.e = "bin" -> LvlF[en.op]
    [] en.e = "un" -> LUn
    [] en.e = "pre" -> LInc
    [] en.e = "$" -> LField
    [] en.e = "asg" -> LAsg
    [] en.e = "<get" -> LPrim

PInit(toks, np) == [toks |-> toks, opnd |-> <<>>, oprs |-> <<>>, st |-> "opd", np |-> np, last |-> "init"]

Top(s) == s[Len(s)]
Pop(s) == SubSeq(s, 1, Len(s) - 1)
PopN(s, k) == SubSeq(s, 1, Len(s) - k)
Rej(ps) == [ps EXCEPT !.st = "rej", !.last = "rej"]
\* not inside round brackets (square brackets do not lift the print-argument exclusions)
Depth0(ps) == \A j \in 1..Len(ps.oprs) : ps.oprs[j].e \notin {"(", "f("}

\* postfix ++ -- : the operand is an lvalue; a field lvalue has a primary as its index
PostOK(y) == (y.k = "atom" /\ y.v \in ScalarNames) \/ y.k = "idx" \/ (y.k = "field" /\ Lvl(y.e) = LPrim)

\* Reduce: pop the top entry, combine it with its operands (checking the
\* operand levels the table demands) and push the result.
ReduceTop(ps) ==
  LET en == Top(ps.oprs)
      os == ps.opnd
      n  == Len(os)
      done(k, t) == [ps EXCEPT !.oprs = Pop(ps.oprs), !.opnd = Append(PopN(os, k), t), !.last = "reduce"]
  IN
  CASE en.e = "bin" ->
         IF n < 2 THEN Rej(ps) ELSE
         LET L == LvlF[en.op]  as == AssocF[en.op]
             needL == IF as = "left" THEN L ELSE L + 1
             needR == IF as = "right" THEN L ELSE L + 1
         IN IF Lvl(os[n - 1]) >= needL /\ Lvl(os[n]) >= needR
            THEN done(2, [k |-> "bin", op |-> en.op, l |-> os[n - 1], r |-> os[n]])
            ELSE Rej(ps)
    [] en.e = "asg" ->
         IF n >= 2 /\ IsLv(os[n - 1]) /\ Lvl(os[n]) >= LAsg
         THEN done(2, [k |-> "asg", op |-> en.op, l |-> os[n - 1], r |-> os[n]])
         ELSE Rej(ps)
    [] en.e = "?:" ->
         IF n >= 3 /\ Lvl(os[n - 2]) >= LCond + 1 /\ Lvl(os[n - 1]) >= LCond /\ Lvl(os[n]) >= LCond
         THEN done(3, [k |-> "cond", c |-> os[n - 2], t |-> os[n - 1], f |-> os[n]])
         ELSE Rej(ps)
    [] en.e = "un" ->
         IF n >= 1 /\ Lvl(os[n]) >= LUn THEN done(1, [k |-> "un", op |-> en.op, e |-> os[n]]) ELSE Rej(ps)
    [] en.e = "pre" ->
         IF n >= 1 /\ IsLv(os[n]) THEN done(1, [k |-> "pre", op |-> en.op, e |-> os[n]]) ELSE Rej(ps)
    [] en.e = "$" ->
         IF n >= 1 /\ (os[n].k = "pre" \/ Lvl(os[n]) >= LField) THEN done(1, [k |-> "field", e |-> os[n]]) ELSE Rej(ps)
    [] en.e = "<get" ->
         IF n >= 1 /\ Lvl(os[n]) = LPrim THEN done(1, [k |-> "fget", lv |-> en.op, file |-> os[n]]) ELSE Rej(ps)
    [] OTHER -> Rej(ps)

\* What an incoming infix/postfix operator of level ol, associativity oa does
\* against the top of the operator stack.
Decide(ps, ol, oa) ==
  IF ps.oprs = <<>> \/ IsBarrier(Top(ps.oprs)) THEN "shift"
  ELSE LET tl == ELvl(Top(ps.oprs)) IN
       IF tl > ol THEN "reduce"
       ELSE IF tl < ol THEN "shift"
       ELSE IF oa = "left" THEN "reduce" ELSE IF oa = "right" THEN "shift" ELSE "rej"

\* generic infix shift: reduce what binds tighter, then push `en`, consume k tokens
Infix(ps, ol, oa, en, k) ==
  LET d == Decide(ps, ol, oa) IN
  IF d = "reduce" THEN ReduceTop(ps)
  ELSE IF d = "rej" THEN Rej(ps)
  ELSE [ps EXCEPT !.oprs = Append(ps.oprs, en), !.toks = SubSeq(ps.toks, k + 1, Len(ps.toks)), !.st = "opd", !.last = "shift"]

\* closing token: reduce down to the barrier `open`, then wrap the operand
Close(ps, opens) ==
  IF ps.oprs = <<>> THEN Rej(ps)
  ELSE LET en == Top(ps.oprs) IN
       IF ~IsBarrier(en) THEN ReduceTop(ps)
       ELSE IF en.e \notin opens THEN Rej(ps)
       ELSE LET x == Top(ps.opnd)
                t == CASE en.e = "(" -> [k |-> "grp", e |-> x]
                       [] en.e = "[" -> [k |-> "idx", arr |-> en.op, i |-> x]
                       [] en.e = "f(" -> [k |-> "call", fn |-> en.op, a |-> x]
            IN [ps EXCEPT !.oprs = Pop(ps.oprs), !.opnd = Append(Pop(ps.opnd), t), !.toks = Tail(ps.toks),
                          !.st = "opr", !.last = "shift"]

StartsOperand(toks) ==
  LET tk == Head(toks) IN
  \/ tk \in ScalarNames \cup NumToks \cup StrToks \cup FuncNames \cup {"(", "$"}
  \/ tk \in ArrayNames /\ Len(toks) >= 2 /\ toks[2] = "["

\* one step with a complete operand on the stack
StepOpr(ps) ==
  IF ps.toks = <<>> THEN
     IF ps.oprs = <<>> THEN [ps EXCEPT !.st = "ok", !.last = "accept"]
     ELSE IF IsBarrier(Top(ps.oprs)) THEN Rej(ps) ELSE ReduceTop(ps)
  ELSE
  LET tk == Head(ps.toks)
      nt == Len(ps.toks)
      excl == ps.np /\ Depth0(ps)
  IN
  CASE tk = ")" -> Close(ps, {"(", "f("})
    [] tk = "]" -> Close(ps, {"["})
    [] tk = ":" ->
         IF ps.oprs = <<>> THEN Rej(ps)
         ELSE IF ~IsBarrier(Top(ps.oprs)) THEN ReduceTop(ps)
         ELSE IF Top(ps.oprs).e # "?" THEN Rej(ps)
         ELSE [ps EXCEPT !.oprs = Append(Pop(ps.oprs), En("?:", "?:")), !.toks = Tail(ps.toks), !.st = "opd", !.last = "shift"]
    [] tk = "?" -> Infix(ps, LCond, "right", En("?", "?"), 1)
    [] tk \in AsgOps -> Infix(ps, LAsg, "right", En("asg", tk), 1)
    [] tk \in BinOps \ {"cat"} ->
         IF excl /\ tk \in RelOps THEN Rej(ps) ELSE Infix(ps, LvlF[tk], AssocF[tk], En("bin", tk), 1)
    [] tk = "in" ->
         LET d == Decide(ps, LIn, "left") IN
         IF d = "reduce" THEN ReduceTop(ps)
         ELSE IF nt >= 2 /\ ps.toks[2] \in ArrayNames /\ Lvl(Top(ps.opnd)) >= LIn
              THEN [ps EXCEPT !.opnd = Append(Pop(ps.opnd), [k |-> "in", l |-> Top(ps.opnd), arr |-> ps.toks[2]]),
                              !.toks = SubSeq(ps.toks, 3, nt), !.last = "shift"]
              ELSE Rej(ps)
    [] tk = "|" ->
         IF excl \/ nt < 2 \/ ps.toks[2] # "getline" THEN Rej(ps)
         ELSE LET d == Decide(ps, LGetCmd, "left") IN
              IF d = "reduce" THEN ReduceTop(ps)
              ELSE IF ~(ps.oprs = <<>> \/ Top(ps.oprs).e \in {"(", "[", "f("}) \/ Lvl(Top(ps.opnd)) < LGetCmd THEN Rej(ps)
              ELSE LET hasLv == nt >= 3 /\ ps.toks[3] \in ScalarNames
                       lv == IF hasLv THEN ps.toks[3] ELSE ""
                   IN [ps EXCEPT !.opnd = Append(Pop(ps.opnd), [k |-> "pget", cmd |-> Top(ps.opnd), lv |-> lv]),
                                 !.toks = SubSeq(ps.toks, IF hasLv THEN 4 ELSE 3, nt), !.last = "shift"]
    [] tk \in {"++", "--"} ->
         LET d == Decide(ps, LInc, "none") IN
         IF d = "reduce" THEN ReduceTop(ps)
         ELSE IF d = "rej" \/ ~PostOK(Top(ps.opnd)) THEN Rej(ps)
         ELSE [ps EXCEPT !.opnd = Append(Pop(ps.opnd), [k |-> "post", op |-> tk, e |-> Top(ps.opnd)]),
                         !.toks = Tail(ps.toks), !.last = "shift"]
    [] StartsOperand(ps.toks) -> Infix(ps, LCat, "left", En("bin", "cat"), 0)
    [] OTHER -> Rej(ps)

\* one step when an operand is expected
StepOpd(ps) ==
  IF ps.toks = <<>> THEN Rej(ps) ELSE
  LET tk == Head(ps.toks)
      nt == Len(ps.toks)
      push(en, k) == [ps EXCEPT !.oprs = Append(ps.oprs, en), !.toks = SubSeq(ps.toks, k + 1, nt), !.last = "shift"]
  IN
  CASE tk \in AtomToks -> [ps EXCEPT !.opnd = Append(ps.opnd, Atom(tk)), !.toks = Tail(ps.toks), !.st = "opr", !.last = "shift"]
    [] tk = "(" -> push(En("(", "("), 1)
    [] tk \in ArrayNames -> IF nt >= 2 /\ ps.toks[2] = "[" THEN push(En("[", tk), 2) ELSE Rej(ps)
    [] tk \in FuncNames -> IF nt >= 2 /\ ps.toks[2] = "(" THEN push(En("f(", tk), 2) ELSE Rej(ps)
    [] tk \in {"-", "+", "!"} -> push(En("un", tk), 1)
    [] tk \in {"++", "--"} -> push(En("pre", tk), 1)
    [] tk = "$" -> push(En("$", "$"), 1)
    [] tk = "getline" ->
         IF ps.np /\ Depth0(ps) THEN Rej(ps) ELSE
         LET hasLv == nt >= 2 /\ ps.toks[2] \in ScalarNames
             lv == IF hasLv THEN ps.toks[2] ELSE ""
             k == IF hasLv THEN 2 ELSE 1
         IN IF nt > k /\ ps.toks[k + 1] = "<"
            THEN push(En("<get", lv), k + 1)
            ELSE [ps EXCEPT !.opnd = Append(ps.opnd, [k |-> "get", lv |-> lv]), !.toks = SubSeq(ps.toks, k + 1, nt),
                            !.st = "opr", !.last = "shift"]
    [] OTHER -> Rej(ps)

Running(ps) == ps.st \in {"opd", "opr"}
PStep(ps) == IF ps.st = "opd" THEN StepOpd(ps) ELSE StepOpr(ps)

RECURSIVE PRun(_)
PRun(ps) == IF Running(ps) THEN PRun(PStep(ps)) ELSE ps

\* Parse(tokens, ctx): [ok |-> BOOLEAN, t |-> tree]
NoTree == Atom("?")
Parse(toks, ctx) ==
  LET r == PRun(PInit(toks, NoRel(ctx)))
  IN IF r.st = "ok" /\ Len(r.opnd) = 1 THEN [ok |-> TRUE, t |-> r.opnd[1]] ELSE [ok |-> FALSE, t |-> NoTree]

\* index of the first `>` outside brackets (where a print statement's
\* redirection starts), 0 if there is none
RECURSIVE FirstGt(_, _, _)
FirstGt(toks, j, depth) ==
  IF j > Len(toks) THEN 0
  ELSE IF toks[j] = ">" /\ depth = 0 THEN j
  ELSE FirstGt(toks, j + 1, IF toks[j] \in {"(", "["} THEN depth + 1 ELSE IF toks[j] \in {")", "]"} THEN depth - 1 ELSE depth)

\* ------------------------------------------------------------ derivations
\* A derivation is the sequence of productions applied, holes filled left to
\* right (the tree in prefix notation).  Hole kinds: "E" expression, "L" lvalue.
LeafProds == {"name", "num", "str", "re"}
OddLeaves == {"num", "str", "re"}
E1Prods == {"grp", "field", "idx", "call", "u-", "u+", "u!", "in", "pget", "pgetv", "fget", "fgetv"}
L1Prods == {"post++", "post--", "pre++", "pre--"}
E0Prods == {"get", "getv"}
EProds  == LeafProds \cup E1Prods \cup L1Prods \cup E0Prods \cup BinOps \cup AsgOps \cup {"?:"}
LProds  == {"lname", "lfield", "lidx"}

Lhs(p) == IF p \in LProds THEN "L" ELSE "E"
Holes(p) ==
  CASE p \in LeafProds \cup E0Prods \cup {"lname"} -> <<>>
    [] p \in E1Prods \cup {"lfield", "lidx"} -> <<"E">>
    [] p \in L1Prods -> <<"L">>
    [] p \in BinOps -> <<"E", "E">>
    [] p \in AsgOps -> <<"L", "E">>
    [] p = "?:" -> <<"E", "E", "E">>
Cost(p) == IF p \in LeafProds \cup {"lname"} THEN 0 ELSE 1

RECURSIVE CountIn(_, _)
CountIn(d, S) == IF d = <<>> THEN 0 ELSE (IF Head(d) \in S THEN 1 ELSE 0) + CountIn(Tail(d), S)
NOps(d) == Len(d) - CountIn(d, LeafProds \cup {"lname"})

Mk1(p, x) ==
  CASE p = "grp" -> [k |-> "grp", e |-> x]
    [] p \in {"field", "lfield"} -> [k |-> "field", e |-> x]
    [] p \in {"idx", "lidx"} -> [k |-> "idx", arr |-> "B", i |-> x]
    [] p = "call" -> [k |-> "call", fn |-> "length", a |-> x]
    [] p = "u-" -> [k |-> "un", op |-> "-", e |-> x]
    [] p = "u+" -> [k |-> "un", op |-> "+", e |-> x]
    [] p = "u!" -> [k |-> "un", op |-> "!", e |-> x]
    [] p = "in" -> [k |-> "in", l |-> x, arr |-> "A"]
    [] p = "pget" -> [k |-> "pget", cmd |-> x, lv |-> ""]
    [] p = "pgetv" -> [k |-> "pget", cmd |-> x, lv |-> "tgt"]
    [] p = "fget" -> [k |-> "fget", lv |-> "", file |-> x]
    [] p = "fgetv" -> [k |-> "fget", lv |-> "tgt", file |-> x]
    [] p = "post++" -> [k |-> "post", op |-> "++", e |-> x]
    [] p = "post--" -> [k |-> "post", op |-> "--", e |-> x]
    [] p = "pre++" -> [k |-> "pre", op |-> "++", e |-> x]
    [] p = "pre--" -> [k |-> "pre", op |-> "--", e |-> x]

\* Build(d, j, lf): the tree whose derivation starts at d[j]; lf numbers the leaves
RECURSIVE Build(_, _, _)
Build(d, j, lf) ==
  LET p == d[j] IN
  CASE p \in {"name", "lname"} -> [t |-> Atom(LeafName(lf)), j |-> j + 1, lf |-> lf + 1]
    [] p = "num" -> [t |-> Atom(NumTok(lf)), j |-> j + 1, lf |-> lf + 1]
    [] p = "str" -> [t |-> Atom(StrTok(lf)), j |-> j + 1, lf |-> lf + 1]
    [] p = "re"  -> [t |-> Atom(ReTok(lf)), j |-> j + 1, lf |-> lf + 1]
    [] p = "get" -> [t |-> [k |-> "get", lv |-> ""], j |-> j + 1, lf |-> lf]
    [] p = "getv" -> [t |-> [k |-> "get", lv |-> "tgt"], j |-> j + 1, lf |-> lf]
    [] p \in E1Prods \cup L1Prods \cup {"lfield", "lidx"} ->
         LET x == Build(d, j + 1, lf) IN [t |-> Mk1(p, x.t), j |-> x.j, lf |-> x.lf]
    [] p \in BinOps ->
         LET x == Build(d, j + 1, lf)  y == Build(d, x.j, x.lf)
         IN [t |-> [k |-> "bin", op |-> p, l |-> x.t, r |-> y.t], j |-> y.j, lf |-> y.lf]
    [] p \in AsgOps ->
         LET x == Build(d, j + 1, lf)  y == Build(d, x.j, x.lf)
         IN [t |-> [k |-> "asg", op |-> p, l |-> x.t, r |-> y.t], j |-> y.j, lf |-> y.lf]
    [] p = "?:" ->
         LET x == Build(d, j + 1, lf)  y == Build(d, x.j, x.lf)  z == Build(d, y.j, y.lf)
         IN [t |-> [k |-> "cond", c |-> x.t, t |-> y.t, f |-> z.t], j |-> z.j, lf |-> z.lf]
FromDeriv(d) == Build(d, 1, 1).t

\* the derivation step shared by MC_Grammar and Gen_Grammar
CanExpand(deriv, pending, p, prods, maxOps, maxOdd) ==
  /\ pending # <<>>
  /\ p \in prods \cup {"lname"}
  /\ Lhs(p) = Head(pending)
  /\ NOps(deriv) + Cost(p) <= maxOps
  /\ CountIn(deriv, OddLeaves) + (IF p \in OddLeaves THEN 1 ELSE 0) <= maxOdd

\* Does the text MinTop(t, "printgt") end inside the false branch of a
\* conditional that is not parenthesised?  (classifies print ... > dest cases:
\* a conditional is unparenthesised only at the top and as the right operand
\* of an assignment)
RECURSIVE CondTail(_)
CondTail(t) == t.k = "cond" \/ (t.k = "asg" /\ CondTail(t.r))
=============================================================================
