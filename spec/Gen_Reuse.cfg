SPECIFICATION Spec
CONSTANTS
  Fams = {"reuse", "stdin", "exit", "ctx", "range", "rand", "args", "flags", "fmt", "depth"}
  MaxRuns = 3
  RunKinds = {"plain", "setglob", "setfs", "csvhdr", "setmodes", "openout", "exit3", "errfunc", "errforin", "cancel", "rand", "srand5", "midfile", "match", "p_io", "p_func"}
  RunCfgs = {"c0", "c1", "c2"}
  LastKinds = {"plain", "p_io", "p_func"}
  LastCfgs = {"c0"}
  ResetsAnywhere = FALSE
  Deep = FALSE
CHECK_DEADLOCK FALSE
