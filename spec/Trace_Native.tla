----------------------------- MODULE Trace_Native -----------------------------
(* Validates native-function calls recorded from the real interpreter: one    *)
(* trace is one run over a Funcs table of several recording functions and a   *)
(* program making several calls; one event per call:                          *)
(*   {"ev":"step","op":"call","sig":S,"args":[value ids],"called":true,       *)
(*    "o":"ok"|"abort"|"panic"|"missing","got":name of the function that      *)
(*    received the call,"recv":[Go values],"printed":text,"own":bool,          *)
(*    "cf":the CONVFMT in force,"awk":[the text (arg "") of every argument as  *)
(*    the program itself printed it],"shadow":name of the Funcs entry that an  *)
(*    AWK function of the program shadows, or "none","xnum":{"ok","neg",       *)
(*    "e10","digits"}: an extreme result (res "ext") as the program printed it *)
(*    with %.0f and %e -- sign, decimal exponent, integer digits}              *)
(* Calls inside whole programs (one trace = one run):                         *)
(*   {"ev":"step","op":"pos","sig":S,"args":[...],"pos":position,"o":"ok"|    *)
(*    "abort"|"panic"|...,"calls":n,"after":bool,"endmark":bool,"own":bool}    *)
(*   {"ev":"step","op":"keep","rk","policy","hold","args":[...],"o","calls",   *)
(*    "kept":[{"key","val"}]}   (Native!PosOutcome, Native!KeepOutcome)        *)
(* The same operators as MC_Native / Gen_Native decide (Native!OutcomeConv);  *)
(* the table of a recorded run has other names than the model's, so of the    *)
(* dispatch only "the function named in the program received the call, and it *)
(* is not the shadowed one" is required.                                      *)
EXTENDS Native, TraceBase

VARIABLES l
vars == <<l>>
Init == l = 1

Expect(ev) == OutcomeConv(ev.sig, ev.args, TRUE, ev.cf)
\* the value a prediction stands for: AwkText is the text the program itself got from (arg "")
Meant(pr, ev, j) == IF pr.val.k = "awk" THEN [k |-> "s", s |-> ev.awk[j]] ELSE pr.val
Explains(ev) ==
  LET ex == Expect(ev)
  IN /\ ex.o = ev.o
     /\ ev.got = ev.sig.name /\ ev.got # ev.shadow   \* the function named in the program received the call
     /\ Len(ev.recv) = Len(ex.recv)
     /\ \A j \in 1..Len(ex.recv) : ex.recv[j].ok => ev.recv[j] = Meant(ex.recv[j], ev, j)
     /\ (ex.o = "ok" /\ ex.printed.ok) => ev.printed = (IF "awk" \in DOMAIN ex.printed THEN ev.awk[1] ELSE ex.printed.val)
     /\ ex.o = "abort" => ev.own                     \* Execute returned exactly the function's error
     \* an extreme result: the AWK number has the sign and the order of magnitude of the value the function returned,
     \* and every digit of it where a float64 holds that value exactly
     /\ (ex.o = "ok" /\ "num" \in DOMAIN ex) =>
          /\ ev.xnum.ok /\ ev.xnum.neg = ex.num.neg /\ ev.xnum.e10 = ex.num.e10
          /\ ((ex.num.int /\ ex.num.exact) => ev.xnum.digits = ex.num.digits)

Show(ex) == IF ex.o \in {"ok", "abort"} THEN ex ELSE [o |-> ex.o]

\* calls inside whole programs (Native!PosOutcome, Native!KeepOutcome)
ExpectPos(ev) == PosOutcome(ev.sig, ev.args, ev.pos)
ExplainsPos(ev) ==
  LET ex == ExpectPos(ev)
  IN /\ ex.o = ev.o /\ ev.calls = ex.calls /\ ev.endmark = ex.endmark
     /\ ex.afterJudged => ev.after = ex.after
     /\ ex.o = "abort" => ev.own
ExpectKeep(ev) == KeepOutcome([rk |-> ev.rk, policy |-> ev.policy, hold |-> ev.hold, args |-> ev.args])
ExplainsKeep(ev) ==
  LET ex == ExpectKeep(ev)
  IN /\ ev.o = ex.o /\ ev.calls = ex.calls /\ Len(ev.kept) = Len(ex.kept)
     /\ {ev.kept[i] : i \in 1..Len(ev.kept)} = {ex.kept[i] : i \in 1..Len(ex.kept)}

TStep ==
  /\ l <= NLog /\ Log[l].ev = "step"
  /\ Log[l].op = "call"
  /\ LET ev == Log[l]
     IN /\ Assert(WellFormedSig(ev.sig) /\ (\A j \in 1..Len(ev.args) : ev.args[j] \in Values) /\ ev.cf \in ConvFmts
                  /\ Len(ev.awk) = Len(ev.args),
                  <<"recorded call outside the specified domain", l>>)
        /\ IF Explains(ev) THEN l' = l + 1
           ELSE Reject(l, [op |-> "call", expected |-> Show(Expect(ev))]) /\ l' = AfterNextReset(l)
TStepPos ==
  /\ l <= NLog /\ Log[l].ev = "step" /\ Log[l].op = "pos"
  /\ LET ev == Log[l]
     IN /\ Assert(WellFormedSig(ev.sig) /\ ev.sig.shape = "ok" /\ ev.sig.res = "const" /\ ev.pos \in Positions
                  /\ (\A j \in 1..Len(ev.args) : ev.args[j] \in Values),
                  <<"recorded call position outside the specified domain", l>>)
        /\ IF ExplainsPos(ev) THEN l' = l + 1
           ELSE Reject(l, [op |-> "pos", expected |-> ExpectPos(ev)]) /\ l' = AfterNextReset(l)
TStepKeep ==
  /\ l <= NLog /\ Log[l].ev = "step" /\ Log[l].op = "keep"
  /\ LET ev == Log[l]
     IN /\ Assert(ev.rk \in KeepRks /\ ev.policy \in KeepPolicies(ev.rk) /\ ev.hold \in KeepHolds
                  /\ (\A j \in 1..Len(ev.args) : ev.args[j] \in PlainValues),
                  <<"recorded kept results outside the specified domain", l>>)
        /\ IF ExplainsKeep(ev) THEN l' = l + 1
           ELSE Reject(l, [op |-> "keep", expected |-> ExpectKeep(ev)]) /\ l' = AfterNextReset(l)
TReset == l <= NLog /\ Log[l].ev = "reset" /\ l' = l + 1
TDone == l = NLog + 1 /\ PrintT("TRACE-END") /\ l' = l + 1
Next == TStep \/ TStepPos \/ TStepKeep \/ TReset \/ TDone
Spec == Init /\ [][Next]_vars
=============================================================================
