----------------------------- MODULE Trace_Native -----------------------------
(* Validates native-function calls recorded from the real interpreter: one    *)
(* trace is one run over a Funcs table of several recording functions and a   *)
(* program making several calls; one event per call:                          *)
(*   {"ev":"step","op":"call","sig":S,"args":[value ids],"called":true,       *)
(*    "o":"ok"|"abort"|"panic"|"missing","got":name of the function that      *)
(*    received the call,"recv":[Go values],"printed":text,"own":bool}          *)
(* The same operators as MC_Native / Gen_Native decide (Native!Outcome).      *)
EXTENDS Native, TraceBase

VARIABLES l
vars == <<l>>
Init == l = 1

Explains(ev) ==
  LET ex == Outcome(ev.sig, ev.args, TRUE)
  IN /\ ex.o = ev.o
     /\ ev.got = ev.sig.name                         \* the function named in the program received the call
     /\ Len(ev.recv) = Len(ex.recv)
     /\ \A j \in 1..Len(ex.recv) : ex.recv[j].ok => ev.recv[j] = ex.recv[j].val
     /\ (ex.o = "ok" /\ ex.printed.ok) => ev.printed = ex.printed.val
     /\ ex.o = "abort" => ev.own                     \* Execute returned exactly the function's error

Show(ex) == IF ex.o \in {"ok", "abort"} THEN ex ELSE [o |-> ex.o]

TStep ==
  /\ l <= NLog /\ Log[l].ev = "step"
  /\ LET ev == Log[l]
     IN /\ Assert(WellFormedSig(ev.sig) /\ \A j \in 1..Len(ev.args) : ev.args[j] \in Values,
                  <<"recorded call outside the specified domain", l>>)
        /\ IF Explains(ev) THEN l' = l + 1
           ELSE Reject(l, [op |-> "call", expected |-> Show(Outcome(ev.sig, ev.args, TRUE))]) /\ l' = AfterNextReset(l)
TReset == l <= NLog /\ Log[l].ev = "reset" /\ l' = l + 1
TDone == l = NLog + 1 /\ PrintT("TRACE-END") /\ l' = l + 1
Next == TStep \/ TReset \/ TDone
Spec == Init /\ [][Next]_vars
=============================================================================
