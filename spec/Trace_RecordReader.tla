------------------------- MODULE Trace_RecordReader -------------------------
(* Validates executions recorded from the real record reader: the real       *)
(* interleaving of Read calls on the input (how many bytes each returned)    *)
(* and of records reaching the program, against RecordReader.tla.            *)
(* Event shapes:                                                             *)
(*   {"ev":"reset"}                                                          *)
(*   {"ev":"start","name":menu entry,"rstext":bytes,"input":bytes}           *)
(*   {"ev":"read","n":k}         a Read returned k >= 1 bytes                *)
(*   {"ev":"eof"}                a Read returned end of input                *)
(*   {"ev":"step","nr":i,"rec":bytes,"rt":bytes}   the program saw a record  *)
(*   {"ev":"end"}                the run is over                             *)
(*   {"ev":"crash","msg":text}   the run died (panic or error)               *)
(* An emitted record is accepted iff it is the next element of               *)
(* Records(input, rs), its bytes have been delivered, and -- where the       *)
(* statement pins RT down too (regular-expression RS) -- the intended        *)
(* splitter, knowing only the bytes delivered so far, would have emitted it  *)
(* (an emission it would have deferred is a decision on a partial buffer: on *)
(* the input that continues differently the same decision is wrong).         *)
EXTENDS RecordReader, TraceBase

VARIABLES l, inp, ment, delivered, eof, cnt, exp
vars == <<l, inp, ment, delivered, eof, cnt, exp>>

NoEntry == [name |-> "none", rs |-> RsNl, cls |-> "none", alpha |-> {}]
Init == l = 1 /\ inp = <<>> /\ ment = NoEntry /\ delivered = 0 /\ eof = FALSE /\ cnt = 0 /\ exp = <<>>

rs == ment.rs
Expected == exp      \* Records(inp, rs), computed once at the start event

\* number of input bytes covered by the first j records and their terminators,
\* (a lower bound on what must have been delivered before record j is seen)
Known == SplitAll(SubSeq(inp, 1, delivered), eof, rs)

EmitVerdict(ev) ==
  IF cnt + 1 > Len(Expected) THEN "extra-record"
  ELSE IF ev.rec # Expected[cnt + 1].rec THEN "records"
  ELSE IF JudgeRT(rs) /\ ev.rt # Expected[cnt + 1].rt THEN "rt"
  ELSE IF ev.nr # cnt + 1 THEN "nr"
  ELSE IF JudgeRT(rs) /\ Len(Known) < cnt + 1 THEN "premature"
  ELSE "ok"

Skip(k, info) == Reject(k, info) /\ l' = AfterNextReset(k) /\ inp' = <<>> /\ ment' = NoEntry /\ delivered' = 0 /\ eof' = FALSE /\ cnt' = 0 /\ exp' = <<>>

TReset == l <= NLog /\ Log[l].ev = "reset" /\ l' = l + 1
          /\ inp' = <<>> /\ ment' = NoEntry /\ delivered' = 0 /\ eof' = FALSE /\ cnt' = 0 /\ exp' = <<>>

TStart ==
  /\ l <= NLog /\ Log[l].ev = "start"
  /\ LET m == MenuEntry(Log[l].name)
     IN /\ Assert(RsText(m.rs) = Log[l].rstext, "harness RS menu is inconsistent with the specification's")
        /\ ment' = m
        /\ exp' = Records(Log[l].input, m.rs)
  /\ inp' = Log[l].input /\ delivered' = 0 /\ eof' = FALSE /\ cnt' = 0 /\ l' = l + 1

TRead ==
  /\ l <= NLog /\ Log[l].ev = "read"
  /\ Assert(delivered + Log[l].n <= Len(inp) /\ ~eof, "harness delivered more bytes than the input has")
  /\ delivered' = delivered + Log[l].n /\ l' = l + 1 /\ UNCHANGED <<inp, ment, eof, cnt, exp>>

TEof ==
  /\ l <= NLog /\ Log[l].ev = "eof"
  /\ Assert(delivered = Len(inp), "harness signalled EOF early")
  /\ eof' = TRUE /\ l' = l + 1 /\ UNCHANGED <<inp, ment, delivered, cnt, exp>>

TEmit ==
  /\ l <= NLog /\ Log[l].ev = "step"
  /\ LET v == EmitVerdict(Log[l])
     IN IF v = "ok"
        THEN cnt' = cnt + 1 /\ l' = l + 1 /\ UNCHANGED <<inp, ment, delivered, eof, exp>>
        ELSE Skip(l, [what |-> v, cls |-> ment.cls, name |-> ment.name, kind |-> rs.k, all |-> Expected,
                      expected |-> IF cnt + 1 <= Len(Expected) THEN <<Expected[cnt + 1]>> ELSE <<>>,
                      delivered |-> delivered])

TEnd ==
  /\ l <= NLog /\ Log[l].ev = "end"
  /\ IF cnt = Len(Expected) /\ eof
     THEN l' = l + 1 /\ UNCHANGED <<inp, ment, delivered, eof, cnt, exp>>
     ELSE Skip(l, [what |-> "missing-record", cls |-> ment.cls, name |-> ment.name, kind |-> rs.k, all |-> Expected,
                   expected |-> IF cnt + 1 <= Len(Expected) THEN <<Expected[cnt + 1]>> ELSE <<>>, delivered |-> delivered])

TCrash == l <= NLog /\ Log[l].ev = "crash"
          /\ Skip(l, [what |-> "crash", cls |-> ment.cls, name |-> ment.name, kind |-> rs.k, all |-> Expected,
                      expected |-> <<>>, delivered |-> delivered])

TDone == l = NLog + 1 /\ PrintT("TRACE-END") /\ l' = l + 1 /\ UNCHANGED <<inp, ment, delivered, eof, cnt, exp>>

Next == TReset \/ TStart \/ TRead \/ TEof \/ TEmit \/ TEnd \/ TCrash \/ TDone
Spec == Init /\ [][Next]_vars
=============================================================================
