----------------------------- MODULE CsvReader -----------------------------
(***************************************************************************)
(* The CSV/TSV reader of C08: an RFC 4180 reader with lenient quotes as a  *)
(* character-level state machine, the reference CsvRead over a whole       *)
(* input, and the record-at-a-time scanner over a byte stream that arrives *)
(* in pieces (intended behaviour: nothing is consumed, no flag is set,     *)
(* until a whole record -- up to its line terminator or the end of input   *)
(* -- is available).  The writer CsvEncode is in Csv.tla.                  *)
(*                                                                         *)
(* cf = [sep |-> bytes of one character, comment |-> bytes or <<>>,        *)
(*       header |-> BOOLEAN]                                               *)
(* A row is [fields |-> sequence of byte strings, text |-> the row's own   *)
(* bytes in the input without its line terminator].                        *)
(*                                                                         *)
(* Field parser states: "fs" start of a field, "uq" inside an unquoted     *)
(* field, "q" inside a quoted field, "qq" just after a quote inside a      *)
(* quoted field.  Lenient quotes: a quote inside an unquoted field is      *)
(* data; a quote inside a quoted field that is followed by neither a       *)
(* quote, the separator nor a line end is data and the field goes on; a    *)
(* quoted field left open at the end of input ends there.  CR LF is a line *)
(* terminator (and becomes LF inside a quoted field); a CR that is the     *)
(* last byte of the input is dropped.                                      *)
(***************************************************************************)
EXTENDS Csv

NoCR(str)    == SelectSeq(str, LAMBDA ch : ch # CR)
EndsCR(str)  == str # <<>> /\ str[Len(str)] = CR
CutCR(str)   == IF EndsCR(str) THEN SubSeq(str, 1, Len(str) - 1) ELSE str
HasBOM(str)  == OccursAt(str, BOM, 1)
\* the form in which $0 is compared with a row's text: without carriage
\* returns (the reader turns CR LF inside quoted fields into LF) and without
\* trailing line feeds (of a quoted field left open at the end of input)
RECURSIVE TrimLF(_)
TrimLF(str)  == IF str # <<>> /\ str[Len(str)] = LF THEN TrimLF(SubSeq(str, 1, Len(str) - 1)) ELSE str
NormText(str) == TrimLF(NoCR(str))

RNone == [k |-> "none"]
RMore == [k |-> "more"]
RRow(flds, ts1, te1, nx) == [k |-> "row", fields |-> flds, ts |-> ts1, te |-> te1, next |-> nx]

\* Parse the fields of the row whose text starts at ts; p is the read
\* position, cur the bytes of the field being read, flds the finished fields.
RECURSIVE ParseRow(_, _, _, _, _, _, _, _)
ParseRow(str, cf, eof, ts, p, st, cur, flds) ==
  LET n == Len(str) IN
  IF p > n
  THEN IF ~eof THEN RMore
       ELSE CASE st = "fs" -> RRow(Append(flds, <<>>), ts, n + 1, n + 1)
              [] st = "uq" -> RRow(Append(flds, CutCR(cur)), ts, n + 1, n + 1)
              [] OTHER     -> RRow(Append(flds, cur), ts, n + 1, n + 1)
  ELSE
  CASE st = "fs" ->
         IF str[p] = DQ THEN ParseRow(str, cf, eof, ts, p + 1, "q", <<>>, flds)
         ELSE ParseRow(str, cf, eof, ts, p, "uq", <<>>, flds)
    [] st = "uq" ->
         IF OccursAt(str, cf.sep, p) THEN ParseRow(str, cf, eof, ts, p + Len(cf.sep), "fs", <<>>, Append(flds, cur))
         ELSE IF str[p] = LF THEN RRow(Append(flds, CutCR(cur)), ts, IF EndsCR(cur) THEN p - 1 ELSE p, p + 1)
         ELSE ParseRow(str, cf, eof, ts, p + 1, "uq", Append(cur, str[p]), flds)
    [] st = "q" ->
         IF str[p] = DQ THEN ParseRow(str, cf, eof, ts, p + 1, "qq", cur, flds)
         ELSE IF str[p] = CR /\ p < n /\ str[p + 1] = LF THEN ParseRow(str, cf, eof, ts, p + 2, "q", Append(cur, LF), flds)
         ELSE IF str[p] = CR /\ p = n THEN (IF eof THEN ParseRow(str, cf, eof, ts, p + 1, "q", cur, flds) ELSE RMore)
         ELSE ParseRow(str, cf, eof, ts, p + 1, "q", Append(cur, str[p]), flds)
    [] st = "qq" ->
         IF str[p] = DQ THEN ParseRow(str, cf, eof, ts, p + 1, "q", Append(cur, DQ), flds)
         ELSE IF OccursAt(str, cf.sep, p) THEN ParseRow(str, cf, eof, ts, p + Len(cf.sep), "fs", <<>>, Append(flds, cur))
         ELSE IF str[p] = LF THEN RRow(Append(flds, cur), ts, p, p + 1)
         ELSE IF str[p] = CR /\ p < n /\ str[p + 1] = LF THEN RRow(Append(flds, cur), ts, p, p + 2)
         ELSE IF str[p] = CR /\ p = n THEN (IF eof THEN RRow(Append(flds, cur), ts, p, n + 1) ELSE RMore)
         ELSE ParseRow(str, cf, eof, ts, p, "q", Append(cur, DQ), flds)

\* The next row at or after position p (a line start): blank lines and
\* comment lines are skipped.  Without eof nothing is decided before the line
\* at p is complete.
RECURSIVE NextRow(_, _, _, _)
NextRow(str, cf, eof, p) ==
  LET n  == Len(str)
      nl == FirstOcc(str, <<LF>>, p)
  IN IF p > n THEN (IF eof THEN RNone ELSE RMore)
     ELSE IF nl = 0 /\ ~eof THEN RMore
     ELSE IF cf.comment # <<>> /\ OccursAt(str, cf.comment, p)
          THEN (IF nl = 0 THEN RNone ELSE NextRow(str, cf, eof, nl + 1))
     ELSE IF str[p] = LF THEN NextRow(str, cf, eof, p + 1)
     ELSE IF str[p] = CR /\ p < n /\ str[p + 1] = LF THEN NextRow(str, cf, eof, p + 2)
     ELSE IF str[p] = CR /\ p = n THEN RNone
     ELSE ParseRow(str, cf, eof, p, p, "fs", <<>>, <<>>)

RECURSIVE RowsFrom(_, _, _, _)
RowsFrom(str, cf, eof, p) ==
  LET r == NextRow(str, cf, eof, p)
  IN IF r.k = "row" THEN << [fields |-> r.fields, text |-> SubSeq(str, r.ts, r.te - 1)] >> \o RowsFrom(str, cf, eof, r.next)
     ELSE <<>>

Body(bytes) == IF HasBOM(bytes) THEN SubSeq(bytes, 4, Len(bytes)) ELSE bytes

\* all rows of a whole input (a leading byte-order mark is ignored)
CsvRows(bytes, cf) == RowsFrom(Body(bytes), cf, TRUE, 1)

\* what a program sees: with header the first row gives the field names
CsvRead(bytes, cf) ==
  LET rows == CsvRows(bytes, cf)
  IN IF cf.header /\ rows # <<>> THEN [names |-> rows[1].fields, recs |-> Tail(rows)]
     ELSE [names |-> <<>>, recs |-> rows]

\* What a program sees that, between looking at the fields of a record, also does the other things that touch the
\* reader and the record: a two-argument split($0, parts) (in this mode the string is read as one CSV row), a
\* `getline var` (the text of the NEXT record goes to var; NR advances; the current record and its fields stay),
\* `$0 = $0` and `$0 = var` (the assigned text is read as one CSV row and becomes the fields).  Only "plain" texts
\* (no quote, CR or LF) are re-read here, for which reading the text as a row is beyond doubt what the record had.
\* The view is a sequence of [what, nr, text, fields, notext]; the harness prints the same things in the same order.
PlainText(t) == \A j \in 1..Len(t) : t[j] \notin {DQ, CR, LF}
RECURSIVE DisturbedFrom(_, _)
DisturbedFrom(recs, i) ==
  IF i > Len(recs) THEN <<>>
  ELSE LET r == recs[i]
           hasNext == i + 1 <= Len(recs)
           nr2 == IF hasNext THEN i + 1 ELSE i
           E(w, nr, t, f, nt) == [what |-> w, nr |-> nr, text |-> t, fields |-> f, notext |-> nt]
       IN <<E("record", i, r.text, r.fields, FALSE)>>
          \o (IF PlainText(r.text) THEN <<E("pieces of split", i, <<>>, r.fields, TRUE)>> ELSE <<>>)
          \o <<E("record after split", i, r.text, r.fields, FALSE)>>
          \o (IF hasNext THEN <<E("text delivered by getline var", nr2, recs[i + 1].text, <<>>, FALSE)>> ELSE <<>>)
          \o <<E("record after getline var", nr2, r.text, r.fields, FALSE)>>
          \o (IF PlainText(r.text) THEN <<E("record after $0 = $0", nr2, r.text, r.fields, FALSE)>> ELSE <<>>)
          \o (IF hasNext /\ PlainText(recs[i + 1].text)
               THEN <<E("record after $0 = text of the next record", nr2, recs[i + 1].text, recs[i + 1].fields, FALSE)>> ELSE <<>>)
          \o DisturbedFrom(recs, i + (IF hasNext THEN 2 ELSE 1))
Disturbed(recs) == DisturbedFrom(recs, 1)

\* The rows the intended scanner can deliver knowing only the first `d` bytes
\* (and, if eof, that nothing follows): the byte-order mark is only decided
\* when three bytes (or the end of input) are there.
BomUndecided(pre, eof) == ~eof /\ Len(pre) < 3 /\ pre = SubSeq(BOM, 1, Len(pre))
KnownRows(pre, eof, cf) == IF BomUndecided(pre, eof) THEN <<>> ELSE RowsFrom(Body(pre), cf, eof, 1)

\* ------------------------------ writer ------------------------------
\* CsvEncode of Csv.tla transcribes the writer as built; the statement's
\* round trip needs the one record that CsvEncode renders as an empty line
\* (a single empty field) to be written as a quoted empty field.
CsvWriteIntended(flds, sep) == IF flds = << <<>> >> THEN <<DQ, DQ>> ELSE CsvEncode(flds, sep)

\* ------------------------------ menus --------------------------------
CfgMenu == {
  [name |-> "csv",        sep |-> <<COMMA>>, comment |-> <<>>,     header |-> FALSE],
  [name |-> "csv-hash",   sep |-> <<COMMA>>, comment |-> <<HASH>>, header |-> FALSE],
  [name |-> "csv-header", sep |-> <<COMMA>>, comment |-> <<>>,     header |-> TRUE],
  [name |-> "tsv",        sep |-> <<TAB>>,   comment |-> <<>>,     header |-> FALSE],
  [name |-> "csv-bar-hh", sep |-> <<BAR>>, comment |-> <<HASH>>, header |-> TRUE],
  [name |-> "csv-eacute", sep |-> EACUTE,    comment |-> <<>>,     header |-> FALSE] }
CfgEntry(nm) == CHOOSE m \in CfgMenu : m.name = nm
\* the input alphabet explored with a configuration
CfgAlpha(m) == {c_a, DQ, LF, CR} \cup {m.sep[j] : j \in 1..Len(m.sep)} \cup {m.comment[j] : j \in 1..Len(m.comment)}

\* The statement pins everything down except what "CRLF is accepted" leaves
\* open: an input whose last byte is a carriage return that is not part of a
\* CRLF (dropped "for backwards compatibility" by the reader as built).
JudgeInput(bytes) == ~EndsCR(bytes)
=============================================================================
