----------------------------- MODULE MC_Cancel -----------------------------
(* Exhaustive check of Cancel.tla: all programs over the instruction menu,   *)
(* nesting <= MaxDepth, every moment of cancellation.                        *)
EXTENDS Cancel
=============================================================================
