----------------------------- MODULE MC_Cancel -----------------------------
(* Exhaustive check of Cancel.tla: all programs over the instruction menu    *)
(* (plain, print to each destination in PrintKinds, call, for-in, return,    *)
(* run-time error, the four waits), nesting <= MaxDepth, every moment of     *)
(* cancellation, every ending in Outcomes of a child that ends by itself,    *)
(* every moment at which a buffer is written out.                            *)
(* The quick tier checks the invariants with all four print destinations and *)
(* the liveness property Stops on the machine with one (tools/props/c15.py). *)
(* Four variants of the model must each violate an invariant (thorough):     *)
(* SharedCounter, PreferCtxErr, FlushOnCtxErr, WaitErrChecksDone = FALSE.    *)
EXTENDS Cancel
=============================================================================
