---------------------------- MODULE ParseHistory ----------------------------
(***************************************************************************)
(* Property C19a, histories: "parsing the same source always gives the     *)
(* same verdict, the same error message and position, and the same         *)
(* compiled program" -- whatever the process parsed before.                *)
(*                                                                         *)
(* A process-level HISTORY is a sequence of calls of ParseProgram.  The    *)
(* specified ParseProgram is a FUNCTION OF THE SOURCE ALONE: the context   *)
(* a recursive-descent parser keeps while it walks a source                *)
(*     inAction   inside a pattern-action rule (not BEGIN / END)           *)
(*     loopDepth  number of enclosing loop bodies                          *)
(*     inFunc     inside a function body                                   *)
(*     pending    the left operand of an unfinished  cmd | getline         *)
(*     multi      parenthesised comma lists not yet claimed by a print     *)
(*                or an `in` (reported as an error at the end of the text) *)
(* is state of ONE parse; every parse starts from Fresh.                   *)
(*                                                                         *)
(* An abstract source is  [ctx, loops, stmt, brk]:                         *)
(*   ctx    where its body is: BEGIN, END, a pattern-action rule, a        *)
(*          function body                                                  *)
(*   loops  the loop bodies (outermost first) around the statement, each   *)
(*          one of while / for(;;) / for-in / do-while                     *)
(*   stmt   the statement whose verdict depends on the context (next,      *)
(*          nextfile, break, continue, return, the getline forms, the      *)
(*          comma-list forms) or does not (plain, print)                   *)
(*   brk    "none", or the place at which an ordinary error follows the    *)
(*          statement: "syntax" / "lex" / "eof" (a malformed statement, an *)
(*          unterminated string, the end of the text at the same depth),   *)
(*          "pipe" (after the `|` of cmd | getline), "inlist" (inside a    *)
(*          parenthesised comma list), "afterlist" (after an unclaimed     *)
(*          comma list), "pattern" (in the pattern of the rule),           *)
(*          "toplevel" (between the items, before the body is entered),    *)
(*          "resolver" (a call of an undefined function: the text is       *)
(*          well-formed, the error is found after the walk)                *)
(* A parse that finds an error leaves through it: what the walk had set    *)
(* is NOT unwound (in the real parser: a panic).  That is harmless exactly *)
(* because the context is per-parse.                                       *)
(*                                                                         *)
(* The deliberately wrong variant: Survives # {} ("PooledParser") -- the   *)
(* parser object is recycled and the named context fields are not reset    *)
(* between two parses.  TLC refutes HistoryIndependent for it              *)
(* (MC_ParseHistory), for every single field (SlipsRefuted).               *)
(***************************************************************************)
EXTENDS Integers, Sequences, FiniteSets, TLC

CONSTANTS Survives      \* context fields a recycled parser carries into the next parse; {} is the specification

Fields    == {"inAction", "loopDepth", "inFunc", "pending", "multi"}
Ctxs      == {"begin", "end", "action", "func"}
LoopKinds == {"while", "for", "forin", "do"}
Stmts     == {"plain", "print", "next", "nextfile", "break", "continue", "return",
              "getline-cmd", "getline-file", "in-multi", "print-multi", "stray-multi"}
Brks      == {"none", "syntax", "lex", "eof", "pipe", "inlist", "afterlist", "pattern", "toplevel", "resolver"}

Fresh == [inAction |-> FALSE, loopDepth |-> 0, inFunc |-> FALSE, pending |-> FALSE, multi |-> 0]

WellFormed(s) == s.brk = "pattern" => s.ctx = "action"
SourcesOver(nests, stmts, brks) ==
  {s \in [ctx : Ctxs, loops : nests, stmt : stmts, brk : brks] : WellFormed(s)}

\* ---- one parse, started with context f0: [v, err, flags] -------------------------------------------------------
Rej(cls, fl) == [v |-> "reject", err |-> cls, flags |-> fl]

\* the context check of a statement (the error classes of the language rules)
StmtErr(st, f) ==
  CASE st \in {"next", "nextfile"} /\ ~f.inAction /\ ~f.inFunc -> "next-in-begin-end"
    [] st \in {"break", "continue"} /\ f.loopDepth = 0          -> "break-outside-loop"
    [] st = "return" /\ ~f.inFunc                               -> "return-outside-function"
    [] st \in {"print", "print-multi"} /\ f.pending             -> "syntax"     \* only reachable with a stale `pending`
    [] OTHER -> "none"
\* statements that contain a full expression reset `pending`; an unclaimed comma list is remembered
AfterStmt(st, f) ==
  LET g == IF st \in {"plain", "return", "getline-cmd", "getline-file", "in-multi", "stray-multi"}
           THEN [f EXCEPT !.pending = FALSE] ELSE f
  IN IF st = "stray-multi" THEN [g EXCEPT !.multi = IF @ < 2 THEN @ + 1 ELSE @] ELSE g

ParseWith(s, f0) ==
  IF s.brk = "toplevel" THEN Rej("syntax", f0)
  ELSE IF s.ctx = "func" /\ f0.inFunc THEN Rej("nested-function", f0)
  ELSE
    LET f1 == CASE s.ctx = "action" -> [f0 EXCEPT !.inAction = TRUE, !.pending = FALSE]   \* the pattern is an expression
                [] s.ctx = "func"   -> [f0 EXCEPT !.inFunc = TRUE]
                [] OTHER            -> f0
    IN IF s.brk = "pattern" THEN Rej("syntax", f1)
       ELSE
         LET f2 == [f1 EXCEPT !.loopDepth = @ + Len(s.loops),
                              !.pending = IF Len(s.loops) > 0 THEN FALSE ELSE @]          \* so is a loop header
             e  == StmtErr(s.stmt, f2)
         IN IF e # "none" THEN Rej(e, f2)
            ELSE
              LET f3 == AfterStmt(s.stmt, f2)
              IN CASE s.brk \in {"syntax", "lex", "eof"} -> Rej("syntax", f3)
                   [] s.brk = "pipe"      -> Rej("syntax", [f3 EXCEPT !.pending = TRUE])
                   [] s.brk = "inlist"    -> Rej("syntax", [f3 EXCEPT !.pending = FALSE])
                   [] s.brk = "afterlist" -> Rej("syntax", [f3 EXCEPT !.pending = FALSE, !.multi = IF @ < 2 THEN @ + 1 ELSE @])
                   [] OTHER ->
                        \* the walk returns: everything it set is unwound
                        LET f4 == [f3 EXCEPT !.loopDepth = @ - Len(s.loops),
                                             !.inAction = IF s.ctx = "action" THEN FALSE ELSE @,
                                             !.inFunc = IF s.ctx = "func" THEN FALSE ELSE @]
                        IN IF f4.multi > 0 THEN Rej("comma-list", f4)
                           ELSE IF s.brk = "resolver" THEN Rej("resolver", f4)
                           ELSE [v |-> "accept", err |-> "none", flags |-> f4]

\* what a caller of ParseProgram sees: verdict, error class, and -- when accepted -- the compiled program, which is
\* a function of the source (represented by the source itself)
Outcome(s, f0) ==
  LET r == ParseWith(s, f0) IN [v |-> r.v, err |-> r.err, prog |-> IF r.v = "accept" THEN <<s>> ELSE <<>>]

\* THE SPECIFICATION: a function of the source alone
Verdict(s) == Outcome(s, Fresh)

\* the context the next parse of the process starts with: Fresh -- except for what a recycled parser carries over
NextPool(fl) ==
  [inAction  |-> IF "inAction" \in Survives THEN fl.inAction ELSE FALSE,
   loopDepth |-> IF "loopDepth" \in Survives THEN fl.loopDepth ELSE 0,
   inFunc    |-> IF "inFunc" \in Survives THEN fl.inFunc ELSE FALSE,
   pending   |-> IF "pending" \in Survives THEN fl.pending ELSE FALSE,
   multi     |-> IF "multi" \in Survives THEN fl.multi ELSE 0]

\* the same with an explicit set of surviving fields (for SlipsRefuted)
PoolWith(sv, fl) ==
  [inAction  |-> IF "inAction" \in sv THEN fl.inAction ELSE FALSE,
   loopDepth |-> IF "loopDepth" \in sv THEN fl.loopDepth ELSE 0,
   inFunc    |-> IF "inFunc" \in sv THEN fl.inFunc ELSE FALSE,
   pending   |-> IF "pending" \in sv THEN fl.pending ELSE FALSE,
   multi     |-> IF "multi" \in sv THEN fl.multi ELSE 0]

=============================================================================
