----------------------------- MODULE ValuesCases -----------------------------
(* The enumerated families of C05 (shared by MC_Values and Gen_Values): the   *)
(* numeric alphabet, the comparators of the probe programs, the value set of  *)
(* the comparison table and the CONVFMT / OFMT settings.                      *)
EXTENDS Values

\* 18 symbols (NBSP is one symbol of two bytes)
Syms == { <<D0>>, <<D1>>, <<D9>>, <<DOT>>, <<c_e>>, <<C_E>>, <<PLUS>>, <<MINUS>>, <<SP>>, <<TAB>>,
          <<c_x>>, <<c_a>>, <<c_n>>, <<c_i>>, <<c_f>>, <<c_p>>, NBSP, <<USCORE>> }
RECURSIVE SymStrN(_)
SymStrN(k) == IF k = 0 THEN {<<>>} ELSE {sy \o w : sy \in Syms, w \in SymStrN(k - 1)}
SymStrUpTo(k) == UNION {SymStrN(j) : j \in 0..k}

Dec(neg, d, x) == MkNum(neg, d, x)
Half == Dec(FALSE, <<5>>, 0 - 1)

\* comparators the probe programs compare every string with (in this order)
KS == << VNum(Zero), VNum(NatNum(1)), VNum(NatNum(10)), VStr(<<D1>>), VNull, VStrnum(<<D1, DOT, D0>>) >>

\* CONVFMT / OFMT settings
CFs == << [verb |-> "g", prec |-> 6], [verb |-> "g", prec |-> 1], [verb |-> "f", prec |-> 1],
          [verb |-> "e", prec |-> 2], [verb |-> "g", prec |-> 10], [verb |-> "f", prec |-> 0] >>
NCF == Len(CFs)

\* ---- the value set of the comparison table
NumVals == { Zero, NatNum(1), NatNum(0 - 1), NatNum(2), NatNum(10), NatNum(12), NatNum(100), Half,
             Dec(TRUE, <<5>>, 0 - 1), Dec(FALSE, <<2, 5>>, 0 - 1), Dec(FALSE, <<1>>, 0 - 1), Dec(FALSE, <<1>>, 30),
             Dec(FALSE, <<1>>, 0 - 5), Dec(FALSE, P53, 0), Dec(FALSE, P53p2, 0), Dec(FALSE, P63, 0), Dec(TRUE, P63, 0),
             Dec(FALSE, <<1, 2, 3, 4, 5, 6, 7, 5>>, 0 - 1), Inf(FALSE), Inf(TRUE), NaN }
StrTexts == { <<>>, <<D0>>, <<D1>>, <<PLUS, D1>>, <<D1, DOT, D0>>, <<D1, D0>>, <<D9>>, <<c_a, c_b, c_c>>, <<SP, D1>>,
              <<D1, c_e, D0>>, <<D0, c_x, D1>>, <<c_a>>, <<C_A>>, <<MINUS, D1>>, <<D1, SP>>, <<D0, DOT, D5>> }
FieldTexts == StrTexts \cup
            { <<DOT>>, <<D1, c_e>>, <<D0, c_x, D1, D0>>, NBSP \o <<D1>>, <<PLUS, c_n, c_a, c_n>>, <<c_i, c_n, c_f>>,
              <<D1, c_e, D9, D9, D9>>, <<MINUS, D0>>, <<D0, D0>>, <<D1, DOT>>, <<DOT, D5>>, <<D5, c_e, MINUS, D1>>,
              <<D0, DOT, D5, D0>>, <<D1, D0, D0>>, <<D1, c_e, D2>>, <<SP, PLUS, D1, D2, TAB>>, <<D1, D2, c_a>>,
              <<D1, USCORE, D0>>, <<D2, DOT, D5>>, <<MINUS, DOT, D5>> }
Vals == {VNull} \cup {VNum(n1) : n1 \in NumVals} \cup {VStr(s1) : s1 \in StrTexts} \cup {VStrnum(s1) : s1 \in FieldTexts}

\* numbers whose conversion to a string is exported for every CONVFMT / OFMT
ToStrNums == NumVals \cup
   { Dec(FALSE, <<1, 2, 5>>, 0 - 3), Dec(TRUE, <<1, 2, 5>>, 0 - 3), Dec(FALSE, <<3, 1, 4, 1, 5, 9>>, 0 - 5),
     Dec(FALSE, <<1, 2, 3, 4, 5, 6, 7, 8, 9>>, 0 - 3), Dec(FALSE, <<9, 9, 9, 9, 9, 9, 5>>, 0 - 1), Dec(FALSE, <<1>>, 18),
     Dec(FALSE, <<1>>, 19), Dec(FALSE, <<1>>, 15), Dec(FALSE, <<1, 5>>, 0 - 1), Dec(FALSE, <<3, 5>>, 0 - 1),
     Dec(FALSE, <<9, 5>>, 0 - 1), Dec(FALSE, <<1, 2, 3>>, 0 - 6), Dec(FALSE, <<1>>, 0 - 4), Dec(TRUE, <<1>>, 100),
     Dec(FALSE, P53m1, 0), Dec(FALSE, P62, 0), Dec(FALSE, P63m1024, 0), Dec(FALSE, P64, 0), NatNum(2147483647),
     Dec(FALSE, <<2, 1, 4, 7, 4, 8, 3, 6, 4, 8>>, 0), Dec(TRUE, <<9, 9, 9, 9, 9, 9, 9, 9, 9, 9, 9, 9, 9, 9, 9>>, 0) }

\* ---- classification of a string (names the mechanism in failure signatures)
HasByte(str, S) == \E j \in 1..Len(str) : str[j] \in S
StrClass(str) ==
  LET w == WholeParse(str, GoawkDialect)
  IN IF HasByte(str, {xC2}) THEN "ublank"
     ELSE IF HasByte(str, {c_x, C_X}) THEN "hex"
     ELSE IF HasByte(str, {c_n, C_N}) THEN "infnan"
     ELSE IF w.t = "inf" THEN "overflow"
     ELSE IF w.t = "fin" /\ w.d = <<>> /\ HasByte(str, {D1, D2, D3, D4, D5, D6, D7, D8, D9}) THEN "underflow"
     ELSE IF w.t = "str" THEN "nonnumeric" ELSE "decimal"
\* the dialects that can matter for a string
RelDialects(str) ==
  { dl \in Dialects : /\ (~HasByte(str, {c_x, C_X}) => dl.hex = GoawkDialect.hex)
                      /\ (~HasByte(str, {c_n, C_N}) => dl.infnan = GoawkDialect.infnan)
                      /\ (~HasByte(str, {xC2}) => dl.ublank = GoawkDialect.ublank) }

\* ---- predictions
NumJ(n) == [t |-> n.t, neg |-> n.neg, d |-> n.d, x |-> n.x]
\* comparison numbers and CONVFMT strings of the comparators (none of them depends on the dialect)
KN == [k \in 1..Len(KS) |-> CmpNumber(KS[k], GoawkDialect)]
KT == [j \in 1..NCF |-> [k \in 1..Len(KS) |-> ToStr(KS[k], CFs[j])]]
\* observables of one value v with comparison number c and arithmetic value nv (cfi, ofi: indexes of CONVFMT, OFMT in CFs)
ObsOfC(v, c, nv, cfi, ofi) ==
  LET sv == ToStr(v, CFs[cfi])
      ord == [k \in 1..Len(KS) |-> OrderS(c, KN[k], sv, KT[cfi][k])]
  IN [ eq |-> [k \in 1..Len(KS) |-> CompareR(ord[k], "eq")],
       lt |-> [k \in 1..Len(KS) |-> CompareR(ord[k], "lt")],
       gt |-> [k \in 1..Len(KS) |-> CompareR(ord[k], "gt")],
       not |-> (LET tr == TruthC(c, v) IN IF tr < 0 THEN tr ELSE 1 - tr),
       num |-> NumJ(nv),
       cat |-> sv,
       prt |-> ToStr(v, CFs[ofi]) ]
\* a string in its three provenance classes
StrPred(str, dl, cfi, ofi) ==
  LET w == WholeParse(str, dl)
      pv == PrefixValue(str, dl)
  IN [ looks |-> w.t # "str",
       sn |-> ObsOfC(VStrnum(str), w, pv, cfi, ofi),
       st |-> ObsOfC(VStr(str), NotNum, pv, cfi, ofi),
       nm |-> ObsOfC(VNum(pv), pv, pv, cfi, ofi) ]
StrCase(str, cfi, ofi) ==
  [ fam |-> "s", s |-> str, cls |-> StrClass(str), cf |-> CfText(CFs[cfi]), of |-> CfText(CFs[ofi]),
    main |-> StrPred(str, GoawkDialect, cfi, ofi),
    alts |-> {StrPred(str, dl, cfi, ofi) : dl \in RelDialects(str) \ {GoawkDialect}} ]

ValJ(v) == [tag |-> v.tag, s |-> v.s, n |-> NumJ(v.n)]
\* comparison numbers (per dialect) and CONVFMT strings of the value set, computed once
VN == [v \in Vals |-> [dl \in Dialects |-> CmpNumber(v, dl)]]
VT == [v \in Vals |-> [j \in 1..NCF |-> ToStr(v, CFs[j])]]
PairPred(a, b, dl, cfi) ==
  LET r == OrderS(VN[a][dl], VN[b][dl], VT[a][cfi], VT[b][cfi])
  IN [ops |-> [j \in 1..6 |-> CompareR(r, Ops[j])], numeric |-> VN[a][dl].t # "str" /\ VN[b][dl].t # "str"]
PairDialects(a, b) == RelDialects((IF a.tag = "strnum" THEN a.s ELSE <<>>) \o (IF b.tag = "strnum" THEN b.s ELSE <<>>))
Rank(cl) == CASE cl = "ublank" -> 1 [] cl = "overflow" -> 2 [] cl = "underflow" -> 3 [] cl = "hex" -> 4 [] cl = "infnan" -> 5 [] OTHER -> 9
PairClass(a, b) ==
  LET ca == IF a.tag = "strnum" THEN StrClass(a.s) ELSE "decimal"
      cb == IF b.tag = "strnum" THEN StrClass(b.s) ELSE "decimal"
  IN IF Rank(ca) = 9 /\ Rank(cb) = 9 THEN "plain" ELSE IF Rank(ca) <= Rank(cb) THEN ca ELSE cb
PairCase(a, b, cfi) ==
  [ fam |-> "p", a |-> ValJ(a), b |-> ValJ(b), cf |-> CfText(CFs[cfi]), cls |-> PairClass(a, b),
    main |-> PairPred(a, b, GoawkDialect, cfi),
    alts |-> {PairPred(a, b, dl, cfi) : dl \in PairDialects(a, b) \ {GoawkDialect}} ]

ToStrCase(n, cf, of) ==
  [ fam |-> "v", n |-> NumJ(n), cf |-> CfText(cf), of |-> CfText(of),
    cat |-> NumToStr(n, cf), prt |-> NumToStr(n, of), integral |-> InInt64(n) ]
=============================================================================
