SPECIFICATION SSpec
CONSTANTS
  Slip = "none"
  MaxRuns = 4
INVARIANTS EveryBadRunRejected FixedRunLikeFresh NeverRunsOnPartialTable VerdictIsFunctionOfFuncs
CHECK_DEADLOCK FALSE
