SPECIFICATION Spec
CONSTANTS
  MaxField = 1000000
  MaxNum = 30000
  Fuel = 150
  MaxArgs = 3
  MaxArgsSmall = 3
  ErrThin = 12
  MaxUnits = 2
CHECK_DEADLOCK FALSE
