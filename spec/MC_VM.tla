-------------------------------- MODULE MC_VM --------------------------------
(* Translation validation of the compiler inside TLC: for every program (TLC's  *)
(* own C01 families with their equivalent spellings, and random programs        *)
(* recorded from the real interpreter) the byte code the REAL compiler emitted  *)
(* is run on the VM specification (VM.tla) and must yield the outcome the       *)
(* reference semantics predicted / the real run produced.                       *)
(*   {"ev":"step","name":..,"cp":<compiled program>,"env":{stdin,files,args},   *)
(*    "expect":{out,status,err}}                                                *)
EXTENDS VM, TraceBase

VARIABLES l
Init == l = 1

FilesOf(fl) == [nm \in {fl[j].name : j \in 1..Len(fl)} |-> fl[CHOOSE j \in 1..Len(fl) : fl[j].name = nm].recs]

TStep ==
  /\ l <= NLog /\ Log[l].ev = "step"
  /\ LET ev == Log[l]
         o == Outcome(RunVM(ev.cp, [stdin |-> ev.env.stdin, files |-> FilesOf(ev.env.files), args |-> ev.env.args]))
         got == [out |-> o.out, status |-> o.status, err |-> o.err]
     IN IF o.bad THEN PrintT(ToJson([skip |-> l])) /\ l' = l + 1
        ELSE IF got.out = ev.expect.out /\ got.err = ev.expect.err /\ (got.err \/ got.status = ev.expect.status)
             THEN l' = l + 1
             ELSE Reject(l, [vm |-> got]) /\ l' = l + 1
TReset == l <= NLog /\ Log[l].ev = "reset" /\ l' = l + 1
TDone == l = NLog + 1 /\ PrintT("TRACE-END") /\ l' = l + 1
Next == TStep \/ TReset \/ TDone
Spec == Init /\ [][Next]_<<l>>
=============================================================================
