----------------------------- MODULE PrintfCases -----------------------------
(* The enumerated families of C09 (shared by MC_Printf and Gen_Printf).        *)
EXTENDS Printf, FiniteSets

Cf6 == [verb |-> "g", prec |-> 6]
Dec(neg, d, x) == MkNum(neg, d, x)
EA == <<xC3, xA9>>                        \* e-acute, two bytes

\* width and precision options: <<kind, literal value or value passed for '*'>>
WOpts == << <<"none", 0>>, <<"n", 1>>, <<"n", 7>>, <<"star", 6>>, <<"star", 0 - 6>> >>
POpts == << <<"none", 0>>, <<"empty", 0>>, <<"n", 0>>, <<"n", 2>>, <<"n", 10>>, <<"star", 3>>, <<"star", 0 - 1>> >>

IntArgs == { VNum(Zero), VNum(NatNum(1)), VNum(NatNum(0 - 1)), VNum(NatNum(42)), VNum(NatNum(0 - 42)), VNum(NatNum(255)),
             VNum(Dec(FALSE, <<2, 1, 4, 7, 4, 8, 3, 6, 4, 8>>, 0)), VNum(Dec(FALSE, P53, 0)), VNum(Dec(TRUE, P63, 0)),
             VNum(Dec(FALSE, <<2, 5>>, 0 - 1)), VNum(Dec(TRUE, <<1, 2, 5>>, 0 - 3)), VNum(Dec(FALSE, <<1, 2, 3, 4, 5, 6, 7, 5>>, 0 - 1)),
             VStr(<<D4, D2, c_a, c_b, c_c>>), VStr(<<>>) }
FloatArgs == { VNum(Zero), VNum(NatNum(1)), VNum(NatNum(0 - 1)), VNum(NatNum(42)), VNum(Dec(FALSE, <<5>>, 0 - 1)),
               VNum(Dec(FALSE, <<2, 5>>, 0 - 1)), VNum(Dec(TRUE, <<1, 2, 5>>, 0 - 3)), VNum(Dec(FALSE, <<1, 2, 3, 4, 5, 6, 7, 5>>, 0 - 1)),
               VNum(Dec(FALSE, <<1>>, 0 - 1)), VNum(Dec(FALSE, <<1>>, 0 - 5)), VNum(NatNum(123456789)),
               VNum(Dec(FALSE, <<1, 2, 3, 4, 5, 6>>, 0 - 9)), VNum(Dec(FALSE, <<9, 5>>, 0 - 1)), VNum(Dec(FALSE, <<1>>, 100)),
               VNum(Dec(FALSE, <<9, 9, 9, 9, 9, 9, 5>>, 0 - 1)), VStr(<<D3, DOT, D5, c_x>>) }
StrArgs == { VStr(<<>>), VStr(<<c_a, c_b, c_c>>), VStr(<<c_h, c_e, c_l, c_l, c_o, SP, c_w, c_o, c_r, c_l, c_d>>), VStr(EA),
             VStr(<<c_a>> \o EA \o <<c_b>>), VNum(NatNum(42)), VNum(Dec(TRUE, <<1, 2, 5>>, 0 - 3)),
             VNum(Dec(FALSE, <<1, 2, 3, 4, 5, 6, 7, 5>>, 0 - 1)) }
CharArgs == { VNum(NatNum(65)), VStr(<<c_a, c_b, c_c>>), VStr(EA \o <<c_a>>), VNum(NatNum(233)), VNum(Zero), VStr(<<C_A>>),
              VNum(NatNum(256)), VNum(NatNum(8364)), VNum(Dec(FALSE, <<6, 5, 7>>, 0 - 1)) }
ArgsFor(verb) == IF verb \in IntVerbs \cup UnsVerbs THEN IntArgs
                 ELSE IF verb \in FloatVerbs THEN FloatArgs
                 ELSE IF verb = c_s THEN StrArgs ELSE CharArgs
ModesFor(verb) == IF verb \in {c_s, c_c} THEN {FALSE, TRUE} ELSE {FALSE}

\* a single-directive case
MkDir(flags, wi, pi, verb) == Dir(flags, WOpts[wi][1], IF WOpts[wi][1] = "n" THEN WOpts[wi][2] ELSE 0,
                                  POpts[pi][1], IF POpts[pi][1] = "n" THEN POpts[pi][2] ELSE 0, verb)
CaseFmt(d) == <<LBRK>> \o DirText(d) \o <<RBRK>>
CaseArgs(wi, pi, v) == (IF WOpts[wi][1] = "star" THEN <<VNum(NatNum(WOpts[wi][2]))>> ELSE <<>>) \o
                       (IF POpts[pi][1] = "star" THEN <<VNum(NatNum(POpts[pi][2]))>> ELSE <<>>) \o <<v>>
\* stratification of the single-directive family: the flag set is numbered 0..31, so that every
\* (width, precision, conversion) has the same number of flag sets in every stratum
FlagIndex(flags) == (IF MINUS \in flags THEN 1 ELSE 0) + (IF PLUS \in flags THEN 2 ELSE 0) + (IF SP \in flags THEN 4 ELSE 0) +
                    (IF HASH \in flags THEN 8 ELSE 0) + (IF D0 \in flags THEN 16 ELSE 0)
CaseHash(flags, wi, pi, verb) == FlagIndex(flags) + 3 * wi + 5 * pi + verb

\* what C leaves undefined in a directive (judged by glibc's behaviour, kept apart in signatures)
UbFlags(d) == \/ HASH \in d.flags /\ d.verb \in {c_d, c_i, c_u, c_c, c_s}
              \/ D0 \in d.flags /\ d.verb \in {c_c, c_s}

\* ---- formats with several directives, literal text, missing arguments, errors
N(m) == VNum(NatNum(m))
S3(a, b, c) == VStr(<<a, b, c>>)
Multi == {
  [f |-> <<PCT, c_d, SP, PCT, c_s, BAR, PCT, D5, DOT, D2, c_f, PCT, PCT>>, a |-> <<N(7), S3(c_a, c_b, c_c), VNum(Dec(FALSE, <<2, 5>>, 0 - 1))>>],
  [f |-> <<PCT, STAR, c_d, BAR, PCT, MINUS, STAR, c_d, BAR>>, a |-> <<N(4), N(7), N(4), N(7)>>],
  [f |-> <<PCT, DOT, STAR, c_f>>, a |-> <<N(1), VNum(Dec(FALSE, <<2, 5>>, 0 - 2))>>],
  [f |-> <<c_a, PCT, PCT, c_b>>, a |-> <<>>],
  [f |-> <<PCT, PCT>>, a |-> <<N(1)>>],
  [f |-> <<PCT, c_c, PCT, c_c, PCT, c_c>>, a |-> <<N(72), S3(c_i, c_x, c_x), N(33)>>],
  [f |-> <<PCT, c_s>>, a |-> <<>>],
  [f |-> <<PCT, c_d, SP, PCT, c_d>>, a |-> <<N(1)>>],
  [f |-> <<PCT, c_d>>, a |-> <<N(1), N(2)>>],
  [f |-> <<PCT, STAR, c_d>>, a |-> <<N(5)>>],
  [f |-> <<PCT, DOT, STAR, c_d>>, a |-> <<N(5)>>],
  [f |-> <<PCT, STAR, DOT, STAR, c_d>>, a |-> <<N(8), N(3), N(42)>>],
  [f |-> <<PCT, STAR, DOT, STAR, c_d>>, a |-> <<N(8), N(3)>>],
  [f |-> <<PCT>>, a |-> <<N(1)>>],
  [f |-> <<c_a, c_b, PCT>>, a |-> <<N(1)>>],
  [f |-> <<PCT, D5>>, a |-> <<N(1)>>],
  [f |-> <<PCT, MINUS>>, a |-> <<N(1)>>],
  [f |-> <<PCT, DOT>>, a |-> <<N(1)>>],
  [f |-> <<PCT, D5, DOT, D2>>, a |-> <<N(1)>>],
  [f |-> <<PCT, c_z>>, a |-> <<N(1)>>],
  [f |-> <<PCT, c_k, c_d>>, a |-> <<N(1)>>],
  [f |-> <<PCT, D5, c_y>>, a |-> <<N(1)>>],
  [f |-> <<PCT, c_d, PCT, c_z>>, a |-> <<N(1), N(2)>>],
  [f |-> <<c_x, EQ, PCT, c_x, COMMA, SP, c_o, EQ, PCT, HASH, c_o, COMMA, SP, c_e, EQ, PCT, DOT, D1, c_e>>, a |-> <<N(255), N(8), N(12345)>>],
  [f |-> <<PCT, c_s, PCT, c_s>>, a |-> <<S3(c_a, c_b, c_c), N(12)>>],
  [f |-> <<PCT, c_i, COLON, PCT, c_u, COLON, PCT, C_X>>, a |-> <<VNum(Dec(TRUE, <<3, 7>>, 0 - 1)), N(3), N(48879)>>],
  [f |-> <<PCT, D3, c_d, PCT, MINUS, D3, c_d, PCT, D0, D3, c_d>>, a |-> <<N(1), N(2), N(3)>>],
  [f |-> <<PCT, c_g, SP, PCT, c_g, SP, PCT, c_g>>, a |-> <<VNum(Dec(FALSE, <<1>>, 0 - 5)), VNum(Dec(FALSE, <<1>>, 0 - 4)), N(1000000)>>],
  [f |-> <<PCT, C_G, SP, PCT, C_E>>, a |-> <<VNum(Dec(FALSE, <<1>>, 0 - 10)), VNum(Dec(FALSE, <<1, 5>>, 0 - 1))>>],
  [f |-> <<>>, a |-> <<>>],
  [f |-> <<c_h, c_i>>, a |-> <<N(1)>>]
}
=============================================================================
