----------------------------- MODULE PrintfCases -----------------------------
(* The enumerated families of C09 (shared by MC_Printf and Gen_Printf):        *)
(*  - one directive (32 flag sets x widths x precisions x conversions) on the  *)
(*    constants of its argument class (ArgsFor);                                *)
(*  - the argument-KIND family: every conversion on text from input (strnum:    *)
(*    numeric-looking, blank-padded, hex-looking, inf, NBSP-padded, numeric     *)
(*    prefix only, non-numeric, empty, multi-byte), with the string constant    *)
(*    and the number of the same spelling next to it (KindArgs, KGrid);         *)
(*  - formats with several directives and erroneous formats (Multi);            *)
(*  - runs of several calls in ONE interpreter (Seqs): one format on arguments  *)
(*    of different kinds, and pairs of formats that differ only in a conversion *)
(*    letter an implementation may rewrite to the same one (c/s, u/d, i/d);     *)
(*  - print lines (PrintCases): OFMT texts x output modes x argument lists.     *)
EXTENDS Printf, FiniteSets

Cf6 == [verb |-> "g", prec |-> 6]
N(m) == VNum(NatNum(m))
Dec(neg, d, x) == MkNum(neg, d, x)
EA == <<xC3, xA9>>                        \* e-acute, two bytes

\* width and precision options: <<kind, literal value or value passed for '*'>>
WOpts == << <<"none", 0>>, <<"n", 1>>, <<"n", 7>>, <<"star", 6>>, <<"star", 0 - 6>> >>
POpts == << <<"none", 0>>, <<"empty", 0>>, <<"n", 0>>, <<"n", 2>>, <<"n", 10>>, <<"star", 3>>, <<"star", 0 - 1>> >>

IntArgs == { VNum(Zero), VNum(NatNum(1)), VNum(NatNum(0 - 1)), VNum(NatNum(42)), VNum(NatNum(0 - 42)), VNum(NatNum(255)),
             VNum(Dec(FALSE, <<2, 1, 4, 7, 4, 8, 3, 6, 4, 8>>, 0)), VNum(Dec(FALSE, P53, 0)), VNum(Dec(TRUE, P63, 0)),
             VNum(Dec(FALSE, <<2, 5>>, 0 - 1)), VNum(Dec(TRUE, <<1, 2, 5>>, 0 - 3)), VNum(Dec(FALSE, <<1, 2, 3, 4, 5, 6, 7, 5>>, 0 - 1)),
             VStr(<<D4, D2, c_a, c_b, c_c>>), VStr(<<>>) }
FloatArgs == { VNum(Zero), VNum(NatNum(1)), VNum(NatNum(0 - 1)), VNum(NatNum(42)), VNum(Dec(FALSE, <<5>>, 0 - 1)),
               VNum(Dec(FALSE, <<2, 5>>, 0 - 1)), VNum(Dec(TRUE, <<1, 2, 5>>, 0 - 3)), VNum(Dec(FALSE, <<1, 2, 3, 4, 5, 6, 7, 5>>, 0 - 1)),
               VNum(Dec(FALSE, <<1>>, 0 - 1)), VNum(Dec(FALSE, <<1>>, 0 - 5)), VNum(NatNum(123456789)),
               VNum(Dec(FALSE, <<1, 2, 3, 4, 5, 6>>, 0 - 9)), VNum(Dec(FALSE, <<9, 5>>, 0 - 1)), VNum(Dec(FALSE, <<1>>, 100)),
               VNum(Dec(FALSE, <<9, 9, 9, 9, 9, 9, 5>>, 0 - 1)), VStr(<<D3, DOT, D5, c_x>>) }
StrArgs == { VStr(<<>>), VStr(<<c_a, c_b, c_c>>), VStr(<<c_h, c_e, c_l, c_l, c_o, SP, c_w, c_o, c_r, c_l, c_d>>), VStr(EA),
             VStr(<<c_a>> \o EA \o <<c_b>>), VNum(NatNum(42)), VNum(Dec(TRUE, <<1, 2, 5>>, 0 - 3)),
             VNum(Dec(FALSE, <<1, 2, 3, 4, 5, 6, 7, 5>>, 0 - 1)) }
CharArgs == { VNum(NatNum(65)), VStr(<<c_a, c_b, c_c>>), VStr(EA \o <<c_a>>), VNum(NatNum(233)), VNum(Zero), VStr(<<C_A>>),
              VNum(NatNum(256)), VNum(NatNum(8364)), VNum(Dec(FALSE, <<6, 5, 7>>, 0 - 1)) }
ArgsFor(verb) == IF verb \in IntVerbs \cup UnsVerbs THEN IntArgs
                 ELSE IF verb \in FloatVerbs THEN FloatArgs
                 ELSE IF verb = c_s THEN StrArgs ELSE CharArgs
ModesFor(verb) == IF verb \in {c_s, c_c} THEN {FALSE, TRUE} ELSE {FALSE}

\* a single-directive case
MkDir(flags, wi, pi, verb) == Dir(flags, WOpts[wi][1], IF WOpts[wi][1] = "n" THEN WOpts[wi][2] ELSE 0,
                                  POpts[pi][1], IF POpts[pi][1] = "n" THEN POpts[pi][2] ELSE 0, verb)
CaseFmt(d) == <<LBRK>> \o DirText(d) \o <<RBRK>>
CaseArgs(wi, pi, v) == (IF WOpts[wi][1] = "star" THEN <<VNum(NatNum(WOpts[wi][2]))>> ELSE <<>>) \o
                       (IF POpts[pi][1] = "star" THEN <<VNum(NatNum(POpts[pi][2]))>> ELSE <<>>) \o <<v>>
\* stratification of the single-directive family: the flag set is numbered 0..31, so that every
\* (width, precision, conversion) has the same number of flag sets in every stratum
FlagIndex(flags) == (IF MINUS \in flags THEN 1 ELSE 0) + (IF PLUS \in flags THEN 2 ELSE 0) + (IF SP \in flags THEN 4 ELSE 0) +
                    (IF HASH \in flags THEN 8 ELSE 0) + (IF D0 \in flags THEN 16 ELSE 0)
CaseHash(flags, wi, pi, verb) == FlagIndex(flags) + 3 * wi + 5 * pi + verb

\* what C leaves undefined in a directive (judged by glibc's behaviour, kept apart in signatures)
UbFlags(d) == \/ HASH \in d.flags /\ d.verb \in {c_d, c_i, c_u, c_c, c_s}
              \/ D0 \in d.flags /\ d.verb \in {c_c, c_s}

\* ---- formats with several directives, literal text, missing arguments, errors
S3(a, b, c) == VStr(<<a, b, c>>)
Multi == {
  [f |-> <<PCT, c_d, SP, PCT, c_s, BAR, PCT, D5, DOT, D2, c_f, PCT, PCT>>, a |-> <<N(7), S3(c_a, c_b, c_c), VNum(Dec(FALSE, <<2, 5>>, 0 - 1))>>],
  [f |-> <<PCT, STAR, c_d, BAR, PCT, MINUS, STAR, c_d, BAR>>, a |-> <<N(4), N(7), N(4), N(7)>>],
  [f |-> <<PCT, DOT, STAR, c_f>>, a |-> <<N(1), VNum(Dec(FALSE, <<2, 5>>, 0 - 2))>>],
  [f |-> <<c_a, PCT, PCT, c_b>>, a |-> <<>>],
  [f |-> <<PCT, PCT>>, a |-> <<N(1)>>],
  [f |-> <<PCT, c_c, PCT, c_c, PCT, c_c>>, a |-> <<N(72), S3(c_i, c_x, c_x), N(33)>>],
  [f |-> <<PCT, c_s>>, a |-> <<>>],
  [f |-> <<PCT, c_d, SP, PCT, c_d>>, a |-> <<N(1)>>],
  [f |-> <<PCT, c_d>>, a |-> <<N(1), N(2)>>],
  [f |-> <<PCT, STAR, c_d>>, a |-> <<N(5)>>],
  [f |-> <<PCT, DOT, STAR, c_d>>, a |-> <<N(5)>>],
  [f |-> <<PCT, STAR, DOT, STAR, c_d>>, a |-> <<N(8), N(3), N(42)>>],
  [f |-> <<PCT, STAR, DOT, STAR, c_d>>, a |-> <<N(8), N(3)>>],
  [f |-> <<PCT>>, a |-> <<N(1)>>],
  [f |-> <<c_a, c_b, PCT>>, a |-> <<N(1)>>],
  [f |-> <<PCT, D5>>, a |-> <<N(1)>>],
  [f |-> <<PCT, MINUS>>, a |-> <<N(1)>>],
  [f |-> <<PCT, DOT>>, a |-> <<N(1)>>],
  [f |-> <<PCT, D5, DOT, D2>>, a |-> <<N(1)>>],
  [f |-> <<PCT, c_z>>, a |-> <<N(1)>>],
  [f |-> <<PCT, c_k, c_d>>, a |-> <<N(1)>>],
  [f |-> <<PCT, D5, c_y>>, a |-> <<N(1)>>],
  [f |-> <<PCT, c_d, PCT, c_z>>, a |-> <<N(1), N(2)>>],
  [f |-> <<c_x, EQ, PCT, c_x, COMMA, SP, c_o, EQ, PCT, HASH, c_o, COMMA, SP, c_e, EQ, PCT, DOT, D1, c_e>>, a |-> <<N(255), N(8), N(12345)>>],
  [f |-> <<PCT, c_s, PCT, c_s>>, a |-> <<S3(c_a, c_b, c_c), N(12)>>],
  [f |-> <<PCT, c_i, COLON, PCT, c_u, COLON, PCT, C_X>>, a |-> <<VNum(Dec(TRUE, <<3, 7>>, 0 - 1)), N(3), N(48879)>>],
  [f |-> <<PCT, D3, c_d, PCT, MINUS, D3, c_d, PCT, D0, D3, c_d>>, a |-> <<N(1), N(2), N(3)>>],
  [f |-> <<PCT, c_g, SP, PCT, c_g, SP, PCT, c_g>>, a |-> <<VNum(Dec(FALSE, <<1>>, 0 - 5)), VNum(Dec(FALSE, <<1>>, 0 - 4)), N(1000000)>>],
  [f |-> <<PCT, C_G, SP, PCT, C_E>>, a |-> <<VNum(Dec(FALSE, <<1>>, 0 - 10)), VNum(Dec(FALSE, <<1, 5>>, 0 - 1))>>],
  [f |-> <<>>, a |-> <<>>],
  [f |-> <<c_h, c_i>>, a |-> <<N(1)>>]
}

\* ---- the argument-kind family: text from input under every conversion
InputTexts == { <<D6, D5>>,                              \* 65
                <<SP, D6, D5, SP>>,                      \* blank-padded
                <<D6, DOT, D5, c_e, D1>>,                \* 6.5e1
                <<PLUS, D6, D5, DOT, D7>>,               \* +65.7
                <<MINUS, D3, DOT, D7>>,                  \* -3.7
                <<D2, D3, D3>>,                          \* 233: a byte / U+00E9
                <<DOT, D5>>,                             \* .5
                <<D0, c_x, D4, D1>>,                     \* 0x41: open (hexadecimal)
                <<c_i, c_n, c_f>>,                       \* inf: open
                NBSP \o <<D6, D5>>,                      \* open (non-ASCII blank)
                <<D6, D5, c_a, c_b, c_c>>,               \* numeric prefix only: a string
                <<D1, c_e>>,                             \* 1e: a string
                <<c_a, c_b, c_c>>,
                EA \o <<c_a>>,
                <<>> }
\* the same spelling as a string constant and as a number, so that the three kinds meet in one family
KindArgs == {VStrnum(str) : str \in InputTexts} \cup
            {VStr(<<D6, D5>>), VStr(<<SP, D6, D5, SP>>), VStr(<<D0, c_x, D4, D1>>), VNum(NatNum(65)), VNum(Dec(TRUE, <<3, 7>>, 0 - 1)), VNull}
\* the directives of the kind family.  The kind of the argument only meets the conversion, not the padding:
\* the small grid has 4 flag sets x 3 widths x 3 precisions, the full one is the grid of the directive family.
KFlagsSmall == {{}, {MINUS}, {D0}, {PLUS}}
KWSmall == {1, 3, 4}             \* none, 7, *=6
KPSmall == {1, 4, 6}             \* none, .2, .*=3
KFlags(full) == IF full THEN SUBSET FlagChars ELSE KFlagsSmall
KWs(full) == IF full THEN 1..Len(WOpts) ELSE KWSmall
KPs(full, verb) == IF verb = c_c THEN {1} ELSE IF full THEN 1..Len(POpts) ELSE KPSmall

\* ---- the description of one call that the harness needs (failure signature, C sanity gate)
PNumJ(n) == [t |-> n.t, neg |-> n.neg, d |-> n.d, x |-> n.x]
PValJ(a) == [tag |-> a.tag, s |-> a.s, n |-> PNumJ(a.n)]
ArgsJ(args) == [j \in 1..Len(args) |-> PValJ(args[j])]
ConvNum(vb, a) == IF vb \in IntVerbs \cup UnsVerbs \/ vb = c_c THEN IntArg(a) ELSE ToNum(a, GoawkDialect)
\* the (single) directive of a format, EmptyDir if there is not exactly one
DirOf(fmt) == LET sc == Scan(fmt)
                  ds == IF sc.err THEN <<>> ELSE SelectSeq(sc.items, LAMBDA it : it.k = "dir")
              IN IF Len(ds) = 1 THEN ds[1].d ELSE EmptyDir
\* family: "d" / "k"; d: the directive; argsj: the arguments as JSON; v: the converted (last) argument
CallJ(family, fmt, d, args, chars, r, alts) ==
  LET v == IF args = <<>> THEN VNull ELSE args[Len(args)]
      cs == IF d.verb = c_s THEN ToStr(v, Cf6) ELSE <<>>
  IN [fam |-> family, fmt |-> fmt, args |-> ArgsJ(args), chars |-> chars, verb |-> d.verb,
      flags |-> FlagText(d.flags), wk |-> d.wk, pk |-> d.pk, ub |-> UbFlags(d),
      cn |-> PNumJ(ConvNum(d.verb, v)), cs |-> (IF IsUnmStr(cs) THEN <<>> ELSE cs),
      isnum |-> ArgIsNumber(v, GoawkDialect), alts |-> alts, err |-> r.err, out |-> r.out]

\* ---- runs: several calls in one interpreter.  A run is a sequence of [f |-> format, a |-> arguments].
St(str) == VStr(str)
Inp(str) == VStrnum(str)
Hello == <<c_h, c_e, c_l, c_l, c_o>>
Call(f, a) == [f |-> f, a |-> a]
\* one format on arguments of every kind, number first / input text first
KindRun(f, verb) ==
  LET num == IF verb \in FloatVerbs THEN VNum(Dec(FALSE, <<6, 5, 5>>, 0 - 1)) ELSE N(65)
  IN { << Call(f, <<num>>), Call(f, <<St(<<D6, D5>>)>>), Call(f, <<Inp(<<D6, D5>>)>>), Call(f, <<Inp(<<D6, D5, c_a, c_b, c_c>>)>>), Call(f, <<num>>) >>,
       << Call(f, <<Inp(<<SP, D6, D5, SP>>)>>), Call(f, <<St(<<c_a, c_b, c_c>>)>>), Call(f, <<Inp(<<c_a, c_b, c_c>>)>>), Call(f, <<num>>), Call(f, <<Inp(<<D6, DOT, D5, c_e, D1>>)>>) >> }
Deco(verb) == { <<PCT, verb>>, <<PCT, verb, BAR>>, <<LBRK, PCT, D5, verb, RBRK>>, <<c_x, EQ, PCT, MINUS, D4, verb, BAR>> }
KindRuns == UNION { UNION { KindRun(f, verb) : f \in Deco(verb) } : verb \in Verbs }
\* two formats that differ only in the conversion letter; the first one is used first
SibArgs(verb) == IF verb \in {c_c, c_s} THEN {N(65), St(Hello), Inp(<<D7, D2>>)} ELSE {N(3), N(0 - 3), VNum(Dec(TRUE, <<2, 5>>, 0 - 1)), Inp(<<MINUS, D7>>)}
SibPairs == { <<c_c, c_s>>, <<c_s, c_c>>, <<c_u, c_d>>, <<c_d, c_u>>, <<c_i, c_d>>, <<c_d, c_i>>, <<c_u, c_i>>, <<c_i, c_u>>, <<c_x, C_X>>, <<c_e, C_E>>, <<c_g, c_f>> }
SibFmt(shape, verb) == CASE shape = 1 -> <<PCT, verb>> [] shape = 2 -> <<PCT, verb, BAR>> [] shape = 3 -> <<LBRK, PCT, D5, verb, RBRK>>
                         [] shape = 4 -> <<PCT, verb, LF>> [] shape = 5 -> <<PCT, MINUS, D3, verb, PCT, PCT>>
SibRun(sh, pr, a1, a2) == << Call(SibFmt(sh, pr[1]), <<a1>>), Call(SibFmt(sh, pr[2]), <<a2>>), Call(SibFmt(sh, pr[1]), <<a2>>), Call(SibFmt(sh, pr[2]), <<a1>>) >>
SibRuns == UNION { { SibRun(sh, pr, a1, a2) : sh \in 1..5, a1 \in SibArgs(pr[1]), a2 \in SibArgs(pr[1]) } : pr \in SibPairs }
\* a run ended by a run-time error: the calls before it have printed
ErrRuns == { << Call(<<PCT, c_d>>, <<N(1)>>), Call(<<PCT, c_d, SP, PCT, c_d>>, <<N(1)>>), Call(<<PCT, c_d>>, <<N(2)>>) >>,
             << Call(<<PCT, c_c>>, <<Inp(<<D6, D5>>)>>), Call(<<PCT, c_z>>, <<N(1)>>) >> }
Seqs == KindRuns \cup SibRuns \cup ErrRuns
\* the prediction for a run: the result of every call up to and including the first error
RECURSIVE RunResults(_, _, _)
RunResults(calls, k, chars) ==
  IF k > Len(calls) THEN <<>>
  ELSE LET r == Format(calls[k].f, calls[k].a, chars, Cf6)
       IN IF r.err THEN <<r>> ELSE <<r>> \o RunResults(calls, k + 1, chars)
RunOpen(calls) == \E k \in 1..Len(calls) : HasOpenArg(calls[k].a)

\* ---- print
OFmtTexts == { <<PCT, DOT, D6, c_g>>, <<PCT, DOT, D2, c_f>>, <<PCT, DOT, D3, c_e>>, <<PCT, DOT, D3, c_g>>,
               <<PCT, c_g>>, <<PCT, C_G>>,                       \* no precision: C's default is 6
               <<PCT, D8, DOT, D1, c_f>>,                         \* blanks in front (quoted in CSV output)
               <<PCT, DOT, D2, c_f, COMMA>>,                      \* text after the directive (quoted in CSV, not in TSV)
               <<PCT, PLUS, DOT, D1, c_e>>, <<c_x, PCT, MINUS, D7, DOT, D2, c_f, BAR>>, <<PCT, DOT, D0, c_f>>,
               <<PCT, D1, D0, c_g>>, <<PCT, MINUS, D1, D2, C_G, BAR>>, <<PCT, PLUS, c_g>> }   \* a width or a flag but no precision: still C's default 6
CFmtTexts == { <<PCT, DOT, D6, c_g>>, <<PCT, DOT, D3, c_e>>, <<PCT, DOT, D1, c_f>> }
PrintNums == { Zero, NatNum(1), NatNum(0 - 42), NatNum(100000), NatNum(1000000), NatNum(2147483647), Dec(FALSE, P53, 0), Dec(TRUE, P63, 0),
               Dec(FALSE, <<1>>, 18), Dec(FALSE, <<5>>, 0 - 1), Dec(TRUE, <<1, 2, 5>>, 0 - 3), Dec(FALSE, <<1, 2, 3, 4, 5, 6, 7, 5>>, 0 - 1),
               Dec(FALSE, <<1>>, 0 - 1), Dec(FALSE, <<3, 1, 4, 1, 5, 9, 2, 6, 5>>, 0 - 8), Dec(FALSE, <<1>>, 30), Dec(FALSE, <<1>>, 0 - 5),
               Dec(FALSE, <<1, 0, 0, 0, 0, 0, 0, 5>>, 0 - 1), Dec(FALSE, <<2, 5>>, 0 - 1), Dec(TRUE, <<2, 5>>, 20), Dec(FALSE, <<1, 6, 2, 7, 5>>, 0 - 4) }
Frac == VNum(Dec(FALSE, <<3, 1, 4, 1, 5, 9, 2, 6, 5>>, 0 - 8))
PrintLists ==
  { <<VNum(n1)>> : n1 \in PrintNums } \cup { <<VNum(n1), St(<<c_s>>), VNum(n1)>> : n1 \in PrintNums } \cup
  { <<St(<<c_a, COMMA, c_b>>), Frac>>, <<St(<<SP, c_a>>), Frac, St(<<c_q, DQ, c_q>>)>>, <<Frac, VNull, N(7)>>, <<VNull>>, <<St(<<>>)>>,
    <<Inp(<<D3, DOT, D0>>), Frac>>, <<Inp(<<SP, D4, D2, SP>>), Inp(<<D0, DOT, D1, D0>>), Frac>>, <<Inp(<<D1, c_e, D3>>), St(<<D1, c_e, D3>>), N(1000)>>,
    <<Inp(<<D0, c_x, D4, D1>>), Inp(<<c_a, c_b, c_c>>), VNum(Dec(TRUE, <<2, 5>>, 0 - 1))>>, <<St(<<D3, DOT, D1, D4, D1, D5, D9, D2, D6, D5>>), Frac>> }
OfsTexts == { <<SP>>, <<MINUS>> }
\* the class of a print line, for the failure signature
HasFraction(args) == \E j \in 1..Len(args) : args[j].tag = "num" /\ ~InInt64(args[j].n)
=============================================================================
