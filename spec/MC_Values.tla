------------------------------ MODULE MC_Values ------------------------------
(* TLC checks, over every string of at most MaxLen symbols of the numeric     *)
(* alphabet (in every dialect) and over every ordered pair of the value set:  *)
(*  - Consistency: a string that looks entirely like a number stands for the  *)
(*    same number in the whole-string routine (comparison, truth) and in the  *)
(*    prefix routine (arithmetic) -- the relation between the two separately  *)
(*    written routines;                                                       *)
(*  - the laws of the six comparison operators.                               *)
(* The machine grows a string symbol by symbol (action Feed), or picks the    *)
(* two operands of a comparison one after the other (PickA in Init, PickB);   *)
(* the laws are state invariants, so every string / every pair is a state.    *)
EXTENDS ValuesCases, TLC

CONSTANT MaxLen

VARIABLES k, s, len, a, b
vars == <<k, s, len, a, b>>

Init == \/ k = "s" /\ s = <<>> /\ len = 0 /\ a = VNull /\ b = VNull
        \/ k = "a" /\ s = <<>> /\ len = 0 /\ a \in Vals /\ b = VNull
Feed  == k = "s" /\ len < MaxLen /\ \E sy \in Syms : s' = s \o sy /\ len' = len + 1 /\ UNCHANGED <<k, a, b>>
PickB == k = "a" /\ k' = "p" /\ b' \in Vals /\ UNCHANGED <<s, len, a>>
Next == Feed \/ PickB
Spec == Init /\ [][Next]_vars

\* ---- string laws (one invariant, so that each routine runs once per dialect and string)
StringLaws ==
  k = "s" =>
    LET w == [dl \in Dialects |-> WholeParse(s, dl)]
        p == [dl \in Dialects |-> PrefixValue(s, dl)]
    IN \A dl \in Dialects :
         \* Consistency: a string that looks entirely like a number stands for the same number in both routines
         /\ w[dl].t # "str" => w[dl] = p[dl]
         \* the prefix value is a number of the model or Unmodelled
         /\ p[dl].t \in {"fin", "inf", "nan", "unm"}
         \* a numeric-looking string is false iff its prefix value is zero
         /\ w[dl].t # "str" /\ p[dl].t # "unm" => (TruthC(w[dl], VStrnum(s)) = 0) = IsZero(p[dl])
         \* the flags of a dialect matter only for strings containing the bytes they are about
         /\ \E dr \in RelDialects(s) : w[dl] = w[dr] /\ p[dl] = p[dr]
Consistency == k = "s" => \A dl \in RelDialects(s) : Consistent(s, dl)
\* a number with blanks around it is the same number; junk after a prefix does not change it
BlanksIgnored ==
  k = "s" => \A dl \in {GoawkDialect} :
     /\ WholeParse(<<SP>> \o s \o <<TAB>>, dl) = WholeParse(s, dl)
     /\ PrefixValue(<<TAB>> \o s, dl) = PrefixValue(s, dl)
     /\ PrefixValue(s \o <<c_z>>, dl) = PrefixValue(s, dl)

\* ---- comparison laws (default CONVFMT)
Cf6 == CFs[1]
H(r, op) == B01(OpHolds(op, r))
CmpLaws ==
  k = "p" => \A dl \in PairDialects(a, b) :
     LET r1 == Order(a, b, dl, Cf6)
         r2 == Order(b, a, dl, Cf6)
     IN r1 # "unm" /\ r2 # "unm" =>
       /\ H(r1, "ne") = 1 - H(r1, "eq")
       /\ H(r1, "lt") = H(r2, "gt") /\ H(r1, "gt") = H(r2, "lt")
       /\ H(r1, "eq") = H(r2, "eq")
       /\ r1 # "un" =>
            /\ H(r1, "lt") + H(r1, "eq") + H(r1, "gt") = 1     \* trichotomy
            /\ H(r1, "le") = 1 - H(r1, "gt")
            /\ H(r1, "ge") = 1 - H(r1, "lt")
\* numeric comparison exactly when each side is a number, unset, or numeric-looking input
ModeLaw ==
  k = "p" => \A dl \in PairDialects(a, b) :
     IsNumericCmp(a, b, dl) =
        (\A v \in {a, b} : v.tag \in {"num", "null"} \/ (v.tag = "strnum" /\ LooksNumeric(v.s, dl)))
\* integers print exactly, whatever CONVFMT is
IntLaw == k = "a" /\ a.tag = "num" /\ InInt64(a.n) /\ a.n.ex =>
            \A j \in 1..NCF : NumToStr(a.n, CFs[j]) = NumToStr(a.n, Cf6)
=============================================================================
