------------------------------ MODULE AwkBuild ------------------------------
(* Constructors for the syntax trees of AwkSem.tla, used by the Gen_ modules *)
(* to write program families as TLA+ set comprehensions.                     *)
EXTENDS AwkSem

V(nm)            == [k |-> "var", name |-> nm]
N(m)             == [k |-> "num", n |-> m]
FN(txt)          == [k |-> "fnum", src |-> txt]      \* non-integer literal, e.g. FN("3.14159")
S(str)           == [k |-> "str", s |-> str]
Bin(op, l, r)    == [k |-> "bin", op |-> op, l |-> l, r |-> r]
Cc(l, r)         == Bin("cat", l, r)
Un(op, e)        == [k |-> "un", op |-> op, e |-> e]
Grp(e)           == [k |-> "group", e |-> e]
Fld(e)           == [k |-> "field", e |-> e]
Idx(ar, e)       == [k |-> "idx", arr |-> ar, e |-> e]
Multi(es)        == [k |-> "multi", es |-> es]
Asg(lv, e)       == [k |-> "assign", lv |-> lv, e |-> e]
Aug(op, lv, e)   == [k |-> "aug", op |-> op, lv |-> lv, e |-> e]
Inc(op, pre, lv) == [k |-> "incr", op |-> op, pre |-> pre, lv |-> lv]
Cnd(c, t, f)     == [k |-> "cond", c |-> c, t |-> t, f |-> f]
InA(e, ar)       == [k |-> "in", e |-> e, arr |-> ar]
Mat(e, re)       == [k |-> "match", neg |-> FALSE, e |-> e, re |-> re]
NMat(e, re)      == [k |-> "match", neg |-> TRUE, e |-> e, re |-> re]
Call(f, args)    == [k |-> "call", f |-> f, args |-> args]
Bi(f, args)      == [k |-> "bi", f |-> f, args |-> args]

Re0(re)          == [k |-> "re0", re |-> re]
MatchFn(e, re)   == [k |-> "matchfn", e |-> e, re |-> re]
Subst(gl, re, repl, lv) == [k |-> "subst", global |-> gl, re |-> re, repl |-> repl, lv |-> lv]

SExpr(e)         == [k |-> "expr", e |-> e]
SPrintf(args)    == [k |-> "printf", args |-> args]
SPrint(args)     == [k |-> "print", args |-> args]
SIf(c, t, f)     == [k |-> "if", c |-> c, t |-> t, f |-> f]
SWhile(c, b)     == [k |-> "while", c |-> c, b |-> b]
SDo(b, c)        == [k |-> "do", b |-> b, c |-> c]
SFor(pre, c, post, b) == [k |-> "for", pre |-> pre, c |-> c, post |-> post, b |-> b]
SForIn(v, ar, b) == [k |-> "forin", v |-> v, arr |-> ar, b |-> b]
SBreak           == [k |-> "break"]
SCont            == [k |-> "continue"]
SNext            == [k |-> "next"]
SGetline         == [k |-> "getline"]
SExit(e)         == [k |-> "exit", e |-> e]
SRet(e)          == [k |-> "return", e |-> e]
SDel(ar, e)      == [k |-> "delete", arr |-> ar, e |-> e]
SBlock(b)        == [k |-> "block", b |-> b]

GetL(lv)         == [k |-> "getline", src |-> "main", name |-> NoE, lv |-> lv]
GetF(lv, name)   == [k |-> "getline", src |-> "file", name |-> name, lv |-> lv]
CloseF(name)     == [k |-> "close", name |-> name]
SNextfile        == [k |-> "nextfile"]
RangeRule(p1, p2, body) == [pat |-> p1, pat2 |-> p2, body |-> body, nobody |-> FALSE]
RangeNoBody(p1, p2)     == [pat |-> p1, pat2 |-> p2, body |-> <<>>, nobody |-> TRUE]
Rule(pat, body)  == [pat |-> pat, body |-> body, nobody |-> FALSE]
RuleNoBody(pat)  == [pat |-> pat, body |-> <<>>, nobody |-> TRUE]
Param(nm)        == [n |-> nm, arr |-> FALSE]
AParam(nm)       == [n |-> nm, arr |-> TRUE]
Func(nm, params, body) == [name |-> nm, params |-> params, body |-> body]
Prog(bg, rules, en, funcs) == [begin |-> bg, rules |-> rules, end |-> en, funcs |-> funcs]
BeginOnly(body)  == Prog(body, <<>>, <<>>, <<>>)

T1(str) == SPrint(<<S(str)>>)     \* print a marker
=============================================================================
