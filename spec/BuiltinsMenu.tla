---------------------------- MODULE BuiltinsMenu ----------------------------
(* The menu of builtin calls MC_Builtins and Gen_Builtins explore.          *)
(* Subjects are all strings of at most MaxLen characters over the four      *)
(* characters a, b, e-acute (2 bytes, C3 A9) and the lone byte FF (invalid  *)
(* UTF-8; one character).                                                   *)
EXTENDS Builtins

CONSTANT MaxLen,   \* subjects have at most MaxLen characters
         MaxLen2,  \* histories of two calls start from subjects of at most MaxLen2 characters
         Rich      \* FALSE: the reduced menu only

CharsU == { <<c_a>>, <<c_b>>, EACUTE, <<xFF>> }
RECURSIVE UStrN(_)
UStrN(m) == IF m = 0 THEN {<<>>} ELSE {ch \o w : ch \in CharsU, w \in UStrN(m - 1)}
\* a few subjects with a genuine U+FFFD character (three bytes that a decoder reports with the same
\* rune as an invalid byte): positions must not be cut inside it either
U_FFFD == <<239, 191, 189>>
ExtraSubjects == { <<c_a>> \o U_FFFD \o <<c_b>>, U_FFFD, U_FFFD \o <<c_a>>, <<c_b>> \o U_FFFD \o U_FFFD, <<xFF>> \o U_FFFD \o EACUTE }
Subjects == UNION {UStrN(m) : m \in 0..MaxLen} \cup {w \in ExtraSubjects : NumChars(w) <= MaxLen}

AB == Cls({c_a, c_b})
RegexesSmall ==
  { Star(Lit(c_b)),                                  \* (b)*       matches the empty string
    Alt(Lit(c_a), Cat(Lit(c_a), Lit(c_b))),          \* (a|ab)     longest, not first, alternative
    Opt(Lit(c_a)),                                   \* (a)?
    Eol,                                             \* $
    Plus(AB),                                        \* ([ab])+
    DotU }                                           \* .
Regexes == RegexesSmall \cup
  (IF Rich THEN
  { Eps,                                             \* ()
    Bol,                                             \* ^
    Cat(Lit(c_a), Plus(Lit(c_b))),                   \* a(b)+
    Plus(EAcute),                                    \* (e-acute)+
    Cat(Star(Alt(Lit(c_a), Lit(c_b))), Lit(c_b)),    \* ((a|b))*b
    Cat(Bol, Star(Lit(c_a))),                        \* ^(a)*
    Cat(Lit(c_b), Eol),                              \* b$
    Star(DotU),                                      \* (.)*
    Lit(c_a),                                        \* a
    Cat(DotU, Opt(Lit(c_b))) }                       \* .(b)?
  ELSE {})

\* "$1" and "$$x" are ordinary text in an AWK replacement (they are template references in some regex libraries)
ReplsSmall == { <<AMP>>, <<>>, <<c_x>>, <<BSL, AMP>>, <<c_x, AMP, AMP>>, <<DOLLAR, D1>>, <<DOLLAR, DOLLAR, c_x>> }
Repls == ReplsSmall \cup
  (IF Rich THEN { <<c_a>>, <<AMP, c_x, AMP>>, <<BSL, AMP, AMP>>, <<AMP, BSL, AMP>>, <<c_b, BSL, AMP, c_b>>,
                 \* the property is silent about these (exported, not judged):
                 <<BSL, BSL>>, <<BSL, BSL, AMP>>, <<BSL, c_x>>, <<c_x, BSL>> }
  ELSE {})

Halves   == { Fin(0 - 3), Fin(0 - 1), Fin(1), Fin(3), Fin(5) }       \* -1.5 -0.5 0.5 1.5 2.5
Extremes == { Num("huge", 1), Num("huge", 0 - 1), Num("inf", 1), Num("inf", 0 - 1), Num("bigh", 1), Num("big", 0 - 1) }
Starts  == IF Rich THEN {IntN(m) : m \in (0 - 3)..(MaxLen + 3)} \cup Halves \cup Extremes
           ELSE {IntN(m) : m \in {0 - 1, 0, 1, 2, 3}} \cup {Fin(3), Num("huge", 1)}
Counts  == IF Rich THEN {IntN(m) : m \in (0 - 2)..(MaxLen + 3)} \cup Halves \cup Extremes \cup {NoArg}
           ELSE {IntN(m) : m \in {0 - 1, 0, 1, 2}} \cup {Fin(3), Num("huge", 1), NoArg}

IntArgs == {Fin(h) : h \in (0 - 7)..7} \cup
           { Num("big", 1), Num("big", 0 - 1), Num("bigh", 1), Num("bigh", 0 - 1), Num("huge", 1), Num("huge", 0 - 1) }

Needles == { <<c_a>>, <<c_b>>, EACUTE, <<xFF>> } \cup
           (IF Rich THEN { <<c_a, c_b>>, <<c_b, c_b>>, <<c_b>> \o EACUTE, EACUTE \o <<c_a>>, <<xFF, xFF>>, <<c_x>> } ELSE {})

Seps == { SepChar(<<c_a>>), SepChar(<<c_b>>), SepChar(EACUTE), SepChar(<<xFF>>), SepChar(<<DOT>>) } \cup
        (IF Rich THEN { SepChar(<<BAR>>), SepChar(<<STAR>>),
                       SepRe(Cat(Lit(c_a), Plus(Lit(c_b)))), SepRe(Plus(AB)), SepRe(Alt(Lit(c_a), Cat(Lit(c_a), Lit(c_b)))),
                       SepRe(Plus(EAcute)) }
        ELSE {})

\* calls on the current state (RSTART/RLENGTH arguments only after a match)
Menu(st) ==
       {[op |-> "match", r |-> r1] : r1 \in Regexes}
  \cup {[op |-> "substr", m |-> m1, n |-> n1] : m1 \in Starts, n1 \in Counts}
  \cup (IF st.matched
        THEN {[op |-> "substr", m |-> VarRSTART, n |-> VarRLENGTH], [op |-> "substr", m |-> VarRSTART, n |-> NoArg],
              [op |-> "substr", m |-> IntN(1), n |-> VarRSTART]}
        ELSE {})
  \cup {[op |-> "index", pat |-> p1] : p1 \in Needles}
  \cup {[op |-> "split", sep |-> s1] : s1 \in Seps}
  \cup {[op |-> o1, r |-> r1, repl |-> p1] : o1 \in {"sub", "gsub"}, r1 \in Regexes, p1 \in Repls}
  \cup {[op |-> "length"]}
  \cup {[op |-> "int", x |-> x1] : x1 \in IntArgs}

\* calls that follow a state-changing call (match, sub, gsub) in a history: the
\* ones that read what the first call left behind
Regexes2 == { Star(Lit(c_b)), Alt(Lit(c_a), Cat(Lit(c_a), Lit(c_b))), DotU }
Menu2(st) ==
       (IF st.matched
        THEN {[op |-> "substr", m |-> VarRSTART, n |-> VarRLENGTH], [op |-> "substr", m |-> VarRSTART, n |-> NoArg],
              [op |-> "substr", m |-> IntN(1), n |-> VarRSTART], [op |-> "substr", m |-> VarRLENGTH, n |-> VarRSTART]}
        ELSE {})
  \cup {[op |-> "length"]}
  \cup {[op |-> "match", r |-> r1] : r1 \in RegexesSmall}
  \cup {[op |-> "index", pat |-> p1] : p1 \in {<<c_x>>, EACUTE, <<AMP>>}}
  \cup {[op |-> "split", sep |-> s1] : s1 \in {SepChar(<<c_a>>), SepChar(<<c_x>>)}}
  \cup {[op |-> o1, r |-> r1, repl |-> p1] : o1 \in {"sub", "gsub"}, r1 \in Regexes2, p1 \in {<<AMP>>, <<c_x, AMP>>}}
  \cup {[op |-> "substr", m |-> Fin(5), n |-> IntN(2)]}

StateChanging(call) == call.op \in {"match", "sub", "gsub"}

\* A history is extended by a second call only after a call that changes the
\* state (the histories through a call that changes nothing but the returned
\* value are the histories without it), taken from the reduced menu, on a short subject.
ExtRepls == { <<AMP>>, <<c_x, AMP, AMP>>, <<BSL, AMP>> }
Extendable(call, subject) ==
  /\ StateChanging(call)
  /\ Len(Chars(subject)) <= MaxLen2
  /\ call.r \in RegexesSmall
  /\ call.op \in {"sub", "gsub"} => call.repl \in ExtRepls
=============================================================================
