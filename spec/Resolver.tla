------------------------------ MODULE Resolver ------------------------------
(***************************************************************************)
(* Scalar/array typing of AWK variables and parameters (properties C16 and *)
(* C19a).                                                                  *)
(*                                                                         *)
(* A program is  [funcs |-> <<fn, ...>>, main |-> body]  with              *)
(*    fn   = [np |-> number of parameters, body |-> body]                  *)
(*    body = sequence of statements                                        *)
(*    stmt = [k |-> "s", v |-> var]      scalar use    v = v "x"; print    *)
(*           [k |-> "a", v |-> var]      array use     v[length(v)] = 1    *)
(*           [k |-> "len", v |-> arg]    length(arg)                       *)
(*           [k |-> "call", f |-> g, args |-> <<arg, ...>>]                *)
(*    var  = [sc |-> "L", i |-> parameter number, fm |-> "v"]              *)
(*           [sc |-> "G", i |-> global number, fm |-> "v"]                 *)
(*    arg  = [sc |-> "L" or "G", i |-> number, fm |-> FORM]  or            *)
(*           [sc |-> "C", i |-> 0, fm |-> "v"]  (a constant: no variable)  *)
(*    FORM = "v"  the bare variable            x                           *)
(*           "p"  the parenthesised variable   (x)                         *)
(*           "e"  an expression over it        x ""                        *)
(*           "x"  an element of it             x[length(x)]                *)
(* Only the bare variable is `a variable passed as an argument` (it shares *)
(* the type of the parameter) and only length(x) of the bare variable      *)
(* carries no evidence.  Every other form is an EXPRESSION, i.e. a scalar  *)
(* value whatever it names: (x) and x "" are scalar uses of x, x[...] is   *)
(* an array use of x, and the parameter that receives an expression is a   *)
(* scalar, exactly as the one that receives a constant.                    *)
(* Function 0 is the main body (BEGIN).  A node is <<f, i>>: parameter i   *)
(* of function f, or global i when f = 0.                                  *)
(*                                                                         *)
(* Three layers:                                                           *)
(*  1. declarative typing (what the language demands): evidence, edges     *)
(*     argument <-> parameter, connected components, DeclReject, DeclType; *)
(*  2. the multi-pass inference of internal/resolver/resolve.go +          *)
(*     toposort.go as a state machine over a state record `rs`; every      *)
(*     action is a thin wrapper around a pure step function (R...), so     *)
(*     that MC_, Gen_ and Trace_ modules and Run share them;               *)
(*  3. the run-time meaning of an accepted program (Exec): arrays are      *)
(*     passed by reference, scalars by value, missing array parameters are *)
(*     fresh arrays, missing scalar parameters are uninitialised -- on     *)
(*     EVERY call, recursive ones included; the constant passed as         *)
(*     argument number j is a string of j characters (so that a callee     *)
(*     frame shifted by one place is visible); every use prints.  An       *)
(*     expression argument passes a COPY of a scalar value: (x) and x ""   *)
(*     the value of x; x[length(x)] names an element that does not exist   *)
(*     yet: the reference creates it (one more element in x, visible to    *)
(*     everybody who shares x) and its value is the empty string.          *)
(*  4. (C19a) errors that the parser COLLECTS before it reports one: the   *)
(*     unused parenthesised comma lists (parser.go keeps them in a table   *)
(*     without order and reports one at the end of the text); the report   *)
(*     must not depend on the order in which the table is walked.          *)
(***************************************************************************)
EXTENDS Integers, Sequences, FiniteSets, TLC

\* ---------------------------------------------------------------- syntax
NumFuncs(p)  == Len(p.funcs)
BodyOf(p, f) == IF f = 0 THEN p.main ELSE p.funcs[f].body
FuncIds(p)   == 0..NumFuncs(p)
Sites(p)     == UNION {{<<f, s>> : s \in 1..Len(BodyOf(p, f))} : f \in FuncIds(p)}
StmtAt(p, site) == BodyOf(p, site[1])[site[2]]
IsUse(st)    == st.k \in {"s", "a", "len"}
NodeOf(f, v) == IF v.sc = "L" THEN <<f, v.i>> ELSE <<0, v.i>>
ArgForms     == {"v", "p", "e", "x"}
IsConst(a)   == a.sc = "C"
IsBare(a)    == a.sc # "C" /\ a.fm = "v"        \* the variable itself: may be an array
IsExprOf(a)  == a.sc # "C" /\ a.fm # "v"        \* an expression that names a variable: a scalar value
\* what an expression says about the variable it names
FormEvidence(fm) == IF fm = "x" THEN "A" ELSE "S"   \* only asked for "p", "e", "x"

CallSites(p) == {x \in Sites(p) : StmtAt(p, x).k = "call"}
UseSites(p)  == {x \in Sites(p) : IsUse(StmtAt(p, x))}

ParamNodes(p) == UNION {{<<f, j>> : j \in 1..p.funcs[f].np} : f \in 1..NumFuncs(p)}
\* the (site, argument) pairs that are expressions naming a variable: arguments of calls and of length();
\* argument number 0 is the operand of a use statement
ExprArgs(p) ==
  UNION {{<<x, j>> : j \in {q \in 1..Len(StmtAt(p, x).args) : IsExprOf(StmtAt(p, x).args[q])}} : x \in CallSites(p)}
  \cup {<<x, 0>> : x \in {y \in UseSites(p) : StmtAt(p, y).k = "len" /\ IsExprOf(StmtAt(p, y).v)}}
ArgAt(p, xa) == IF xa[2] = 0 THEN StmtAt(p, xa[1]).v ELSE StmtAt(p, xa[1]).args[xa[2]]

GlobalIds(p) ==
     {StmtAt(p, x).v.i : x \in {y \in UseSites(p) : StmtAt(p, y).v.sc = "G"}}
  \cup UNION {{StmtAt(p, x).args[j].i : j \in {q \in 1..Len(StmtAt(p, x).args) : StmtAt(p, x).args[q].sc = "G"}}
              : x \in CallSites(p)}
GlobalNodes(p) == {<<0, g>> : g \in GlobalIds(p)}
Nodes(p) == ParamNodes(p) \cup GlobalNodes(p)

\* the statement's precondition: calls name defined functions with no more
\* arguments than parameters; variables are parameters of the enclosing
\* function or globals
WellFormed(p) ==
  /\ \A x \in CallSites(p) :
       LET st == StmtAt(p, x)
       IN /\ st.f \in 1..NumFuncs(p)
          /\ Len(st.args) <= p.funcs[st.f].np
          /\ \A j \in 1..Len(st.args) :
               /\ st.args[j].sc \in {"L", "G", "C"} /\ st.args[j].fm \in ArgForms
               /\ st.args[j].sc = "C" => st.args[j].fm = "v"
               /\ st.args[j].sc = "L" => (x[1] >= 1 /\ st.args[j].i \in 1..p.funcs[x[1]].np)
  /\ \A x \in UseSites(p) :
       LET st == StmtAt(p, x)
       IN /\ st.v.sc = "L" => (x[1] >= 1 /\ st.v.i \in 1..p.funcs[x[1]].np)
          \* only length() takes an operand that is not the bare variable
          /\ st.v.fm \in ArgForms /\ (st.k # "len" => IsBare(st.v)) /\ (st.v.sc = "C" => st.v.fm = "v")

\* --------------------------------------------------- 1. declarative typing
\* direct uses; a parameter that receives anything but a bare variable (a constant or an expression) is a
\* scalar; an expression (argument of a call or of length) is a use of the variable it names
EvScalar(p) ==
     {NodeOf(x[1], StmtAt(p, x).v) : x \in {y \in UseSites(p) : StmtAt(p, y).k = "s"}}
  \cup UNION {{<<StmtAt(p, x).f, j>> : j \in {q \in 1..Len(StmtAt(p, x).args) : ~IsBare(StmtAt(p, x).args[q])}}
              : x \in CallSites(p)}
  \cup {NodeOf(xa[1][1], ArgAt(p, xa)) : xa \in {y \in ExprArgs(p) : FormEvidence(ArgAt(p, y).fm) = "S"}}
EvArray(p) ==
     {NodeOf(x[1], StmtAt(p, x).v) : x \in {y \in UseSites(p) : StmtAt(p, y).k = "a"}}
  \cup {NodeOf(xa[1][1], ArgAt(p, xa)) : xa \in {y \in ExprArgs(p) : FormEvidence(ArgAt(p, y).fm) = "A"}}

\* an argument variable (the bare variable, no other form) shares the type of the parameter it is passed to
Edges(p) ==
  UNION {{{NodeOf(x[1], StmtAt(p, x).args[j]), <<StmtAt(p, x).f, j>>}
          : j \in {q \in 1..Len(StmtAt(p, x).args) : IsBare(StmtAt(p, x).args[q])}}
         : x \in CallSites(p)}

RECURSIVE Closure(_, _)
Closure(E, S) ==
  LET T == S \cup UNION {e \in E : e \cap S # {}}
  IN IF T = S THEN S ELSE Closure(E, T)
Comp(p, n) == Closure(Edges(p), {n})

\* reject exactly when some component holds both kinds of evidence
DeclReject(p) ==
  LET ed == Edges(p)
      ea == EvArray(p)
  IN \E n \in EvScalar(p) : Closure(ed, {n}) \cap ea # {}
DeclVerdict(p) == IF DeclReject(p) THEN "reject" ELSE "accept"

\* the type of every node of an accepted program (no evidence: scalar)
DeclTypes(p) ==
  LET ed == Edges(p)
      ea == EvArray(p)
  IN [n \in Nodes(p) |-> IF Closure(ed, {n}) \cap ea # {} THEN "A" ELSE "S"]

\* size of the largest component - 1: no forwarding chain is longer
MaxChain(p) ==
  LET ed == Edges(p)
      szs == {Cardinality(Closure(ed, {n})) : n \in Nodes(p)} \cup {1}
  IN (CHOOSE m \in szs : \A k \in szs : m >= k) - 1

\* indexes: globals by name order (gorder = global ids sorted by name),
\* parameters by position; scalars and arrays are numbered separately
RECURSIVE CountBefore(_, _, _, _)
CountBefore(seq, k, ty, t) ==      \* how many of seq[1..k-1] have type class of t
  IF k <= 1 THEN 0
  ELSE CountBefore(seq, k - 1, ty, t) + (IF (ty[seq[k - 1]] = "A") = (t = "A") THEN 1 ELSE 0)
IndexesOf(p, ty, gorder) ==
  LET gseq == [k \in 1..Len(gorder) |-> <<0, gorder[k]>>]
      pseq(f) == [k \in 1..p.funcs[f].np |-> <<f, k>>]
      pos(seq, n) == CHOOSE k \in 1..Len(seq) : seq[k] = n
  IN [n \in Nodes(p) |->
        IF n[1] = 0 THEN CountBefore(gseq, pos(gseq, n), ty, ty[n])
        ELSE CountBefore(pseq(n[1]), n[2], ty, ty[n])]

\* ------------------------------------------- 2. the inference, as built
\* --- the order in which function bodies are visited (toposort.go) ---
Callees(p, f) == {StmtAt(p, x).f : x \in {y \in CallSites(p) : y[1] = f}}
GraphKeys(p)  == {f \in FuncIds(p) : Callees(p, f) # {}}
MinOf(S) == CHOOSE m \in S : \A k \in S : m <= k
\* what a Go `for k := range m` may deliver first: any key (MapOrder "any"),
\* or the smallest (MapOrder "sorted": the iteration is over sorted keys)
Pick(S, mapOrder) == IF mapOrder = "sorted" THEN {MinOf(S)} ELSE S

\* depth-first visit; ts = [perm, temp, sorted]; the result is the SET of
\* states the nondeterministic iteration order can produce
RECURSIVE VisitNode(_, _, _, _), VisitKids(_, _, _, _)
VisitNode(p, n, ts, mo) ==
  IF n \in ts.perm \/ n \in ts.temp THEN {ts}
  ELSE {[t2 EXCEPT !.temp = @ \ {n}, !.perm = @ \cup {n}, !.sorted = Append(@, n)]
        : t2 \in VisitKids(p, Callees(p, n), [ts EXCEPT !.temp = @ \cup {n}], mo)}
VisitKids(p, kids, ts, mo) ==
  IF kids = {} THEN {ts}
  ELSE UNION {UNION {VisitKids(p, kids \ {m}, t2, mo) : t2 \in VisitNode(p, m, ts, mo)} : m \in Pick(kids, mo)}
RECURSIVE TopoLoop(_, _, _)
TopoLoop(p, ts, mo) ==
  LET un == GraphKeys(p) \ ts.perm
  IN IF un = {} THEN {ts.sorted}
     ELSE UNION {UNION {TopoLoop(p, t2, mo) : t2 \in VisitNode(p, n, ts, mo)} : n \in Pick(un, mo)}
RECURSIVE AppendAll(_, _, _)
AppendAll(seq, rest, mo) ==        \* uncalled functions, appended in map order
  IF rest = {} THEN {seq}
  ELSE UNION {AppendAll(Append(seq, m), rest \ {m}, mo) : m \in Pick(rest, mo)}
InSeq(seq, e) == \E k \in 1..Len(seq) : seq[k] = e
PossibleOrders(p, mo) ==
  UNION {AppendAll(srt, {f \in 1..NumFuncs(p) : ~InSeq(srt, f)}, mo)
         : srt \in TopoLoop(p, [perm |-> {}, temp |-> {}, sorted |-> <<>>], mo)}
\* the bodies visited in one pass: the order without the main body's entry, then main
WalkList(order) == SelectSeq(order, LAMBDA f : f # 0) \o <<0>>

\* --- the resolver state ---
NoErr == [kind |-> "none"]
RInit(p) ==
  [phase |-> "order", order |-> <<>>, walk |-> <<>>, pass |-> 0, oi |-> 1, si |-> 1,
   ty |-> TLCEval([n \in Nodes(p) |-> IF n[1] = 0 THEN "X" ELSE "U"]),   \* globals do not exist yet
   upd |-> 0, prev |-> 0, verdict |-> "none", err |-> NoErr, idx |-> <<>>]

\* the cursor <<oi, si>> always rests on a statement or after the last body: moving on to the
\* next body (walkOrdered's loop) is folded into the step that exhausts a body
RECURSIVE RSkip(_, _)
RSkip(p, rs) ==
  IF rs.phase = "walk" /\ rs.oi <= Len(rs.walk) /\ rs.si > Len(BodyOf(p, rs.walk[rs.oi]))
  THEN RSkip(p, [rs EXCEPT !.oi = @ + 1, !.si = 1]) ELSE rs
RChooseOrder(p, rs, order) ==
  RSkip(p, [rs EXCEPT !.phase = "walk", !.order = order, !.walk = WalkList(order), !.pass = 1, !.oi = 1, !.si = 1])

RFail(rs, e) == [rs EXCEPT !.phase = "done", !.verdict = "reject", !.err = e]
Failed(rs) == rs.verdict = "reject"

TyOf(rs, n) == IF rs.ty[n] = "X" THEN "U" ELSE rs.ty[n]

\* recordVar(funcName, varName, typ, pos)
RRecord(rs, n, t, site) ==
  LET cur == rs.ty[n]
  IN IF Failed(rs) THEN rs
     ELSE IF cur = "X" THEN [rs EXCEPT !.ty[n] = t, !.upd = @ + 1]
     ELSE IF cur # t /\ cur # "U" /\ t # "U"
          THEN RFail(rs, [kind |-> "use", n |-> n, have |-> cur, want |-> t, at |-> site, arg |-> 0])
     ELSE IF cur = "U" /\ t # "U" THEN [rs EXCEPT !.ty[n] = t, !.upd = @ + 1]
     ELSE rs

\* an expression is walked: the variable it names is used as its form says
RWalkExpr(rs, f, arg, site) ==
  IF IsExprOf(arg) THEN RRecord(rs, NodeOf(f, arg), FormEvidence(arg.fm), site) ELSE rs

\* one argument of a call to g (the cases of resolve.go:484-526).  An argument that is not a bare variable
\* (constant, parenthesised variable, expression, element) is a scalar: it cannot go to a parameter known to be
\* an array, and is then walked like any expression; the forms differ only in what the walk records
RArg(rs, f, g, j, arg, site) ==
  IF Failed(rs) THEN rs
  ELSE IF ~IsBare(arg)
       THEN IF TyOf(rs, <<g, j>>) = "A"
            THEN RFail(rs, [kind |-> IF IsConst(arg) THEN "constarray" ELSE "exprarray", n |-> <<g, j>>, have |-> "S", want |-> "A", at |-> site, arg |-> j])
            ELSE RWalkExpr(rs, f, arg, site)
  ELSE LET n  == NodeOf(f, arg)
           vt == TyOf(rs, n)
           pt == TyOf(rs, <<g, j>>)
       IN IF vt = "U" /\ pt # "U" THEN RRecord(rs, n, pt, site)
          ELSE IF vt # "U" /\ pt = "U" THEN RRecord(rs, <<g, j>>, vt, site)
          ELSE IF vt # pt /\ vt # "U" /\ pt # "U"
               THEN RFail(rs, [kind |-> "pass", n |-> n, have |-> vt, want |-> pt, at |-> site, arg |-> j])
          ELSE RRecord(rs, n, "U", site)
RECURSIVE RArgs(_, _, _, _, _, _)
RArgs(rs, f, g, args, j, site) ==
  IF j > Len(args) THEN rs ELSE RArgs(RArg(rs, f, g, j, args[j], site), f, g, args, j + 1, site)

\* one statement of the body of f
RVisitUse(rs, f, st, site) ==
  LET n == NodeOf(f, st.v)       \* (not evaluated for length(constant))
  IN CASE st.k = "s"   -> RRecord(rs, n, "S", site)
       [] st.k = "a"   -> RRecord(RRecord(rs, n, "U", site), n, "A", site)   \* v[length(v)] = 1
       [] st.k = "len" -> IF IsBare(st.v) THEN RRecord(rs, n, "U", site)    \* length(v): v may be either
                          ELSE RWalkExpr(rs, f, st.v, site)                \* length(expression): walked
RVisitCall(rs, f, st, site) == RArgs(rs, f, st.f, st.args, 1, site)

CurFunc(rs) == rs.walk[rs.oi]
AtStmt(p, rs) == rs.phase = "walk" /\ rs.oi <= Len(rs.walk) /\ rs.si <= Len(BodyOf(p, CurFunc(rs)))
AtPassEnd(rs) == rs.phase = "walk" /\ rs.oi > Len(rs.walk)

RVisitStmt(p, rs) ==
  LET f  == CurFunc(rs)
      st == BodyOf(p, f)[rs.si]
      r2 == IF st.k = "call" THEN RVisitCall(rs, f, st, <<f, rs.si>>) ELSE RVisitUse(rs, f, st, <<f, rs.si>>)
  IN IF Failed(r2) THEN r2 ELSE RSkip(p, [r2 EXCEPT !.si = @ + 1])

MaxPasses == 102       \* the first pass plus `for i := 0; ...; i++ { ...; if i >= 100 { panic } }`
REndPass(p, rs) ==
  IF rs.upd # rs.prev
  THEN IF rs.pass >= MaxPasses
       THEN RFail(rs, [kind |-> "toomany", n |-> <<0, 0>>, have |-> "U", want |-> "U", at |-> <<0, 0>>, arg |-> 0])
       ELSE RSkip(p, [rs EXCEPT !.prev = rs.upd, !.pass = @ + 1, !.oi = 1, !.si = 1])
  ELSE [rs EXCEPT !.phase = "default"]

RDefault(p, rs) ==
  [rs EXCEPT !.phase = "index", !.ty = [n \in Nodes(p) |-> IF rs.ty[n] = "U" THEN "S" ELSE rs.ty[n]]]
RAssignIndexes(p, rs, gorder) ==
  [rs EXCEPT !.phase = "done", !.verdict = "accept",
             !.idx = IndexesOf(p, [n \in Nodes(p) |-> IF rs.ty[n] = "A" THEN "A" ELSE "S"], gorder)]

\* the deterministic part of the machine as one function, and its closure
RStep(p, rs, gorder) ==
  IF AtStmt(p, rs) THEN RVisitStmt(p, rs)
  ELSE IF AtPassEnd(rs) THEN REndPass(p, rs)
  ELSE IF rs.phase = "default" THEN RDefault(p, rs)
  ELSE IF rs.phase = "index" THEN RAssignIndexes(p, rs, gorder)
  ELSE rs
RECURSIVE RRun(_, _, _)
RRun(p, rs, gorder) == IF rs.phase = "done" THEN rs ELSE RRun(p, RStep(p, rs, gorder), gorder)
RunWithOrder(p, order, gorder) == RRun(p, RChooseOrder(p, RInit(p), order), gorder)

IdentityOrder(p) == LET gs == GlobalIds(p)
                        mx == IF gs = {} THEN 0 ELSE CHOOSE m \in gs : \A k \in gs : m >= k
                    IN SelectSeq([k \in 1..mx |-> k], LAMBDA g : g \in gs)

\* what a caller of the parser can observe of a finished resolution
ObsVerdict(rs) == [verdict |-> rs.verdict, ty |-> IF rs.verdict = "accept" THEN rs.ty ELSE <<>>,
                   idx |-> rs.idx]
ObsError(rs)   == rs.err          \* message and position of a rejection

\* ---- properties of a finished resolution (used by MC_ and Trace_ modules) ----
Exact(p, rs)  == rs.phase = "done" => rs.verdict = DeclVerdict(p)
Sound(p, rs)  ==
  (rs.phase = "done" /\ rs.verdict = "accept") =>
     /\ \A n \in Nodes(p) : rs.ty[n] = DeclTypes(p)[n]
     /\ \A x \in UseSites(p) :
          LET st == StmtAt(p, x)
          IN /\ st.k = "s" => rs.ty[NodeOf(x[1], st.v)] = "S"
             /\ st.k = "a" => rs.ty[NodeOf(x[1], st.v)] = "A"
     /\ \A x \in CallSites(p) :
          LET st == StmtAt(p, x)
          IN \A j \in 1..Len(st.args) :
               IF ~IsBare(st.args[j]) THEN rs.ty[<<st.f, j>>] = "S"
               ELSE rs.ty[NodeOf(x[1], st.args[j])] = rs.ty[<<st.f, j>>]
     \* the variable named by an expression has the type the expression uses it with
     /\ \A xa \in ExprArgs(p) : rs.ty[NodeOf(xa[1][1], ArgAt(p, xa))] = FormEvidence(ArgAt(p, xa).fm)
PassBound(p, rs) == rs.pass <= MaxChain(p) + 2

\* ------------------------------------------------ 3. run-time behaviour
\* Values are abstracted to counters: a scalar holds a string of that many
\* characters, an array that many elements.  "s" appends a character and
\* prints the length; "a" adds an element and prints the count; "len"
\* prints length(v).  Global g lives in memory cell g; a missing array
\* parameter gets a fresh (empty) cell and a missing scalar parameter the
\* value 0 (uninitialised) on every call; the constant passed as argument
\* number j has j characters; calls made from inside a function are
\* guarded by a depth limit (the generated AWK text contains that guard).
\* Expressions (arguments of calls and of length()): (v) and v "" have the
\* value of the scalar v; the constant operand of length() has one character;
\* v[length(v)] is an element that v does not have (the elements of an array
\* of n elements are numbered 0..n-1): referring to it creates it -- v has
\* one element more from then on, for everybody who shares v -- and its
\* value is the empty string.  Arguments are evaluated one after the other;
\* the result does not depend on the direction, since the only effect of an
\* evaluation is one more element in an array.
MaxDepth == 2

\* frame entry of a parameter: [ref |-> TRUE, c |-> cell] or [ref |-> FALSE, c |-> value]
CellOf(f, fr, v)  == IF v.sc = "G" THEN v.i ELSE fr[v.i].c
IsRefVar(f, fr, v) == v.sc = "G" \/ fr[v.i].ref
GetVal(ms, f, fr, v) == IF IsRefVar(f, fr, v) THEN ms.mem[CellOf(f, fr, v)] ELSE fr[v.i].c
\* the value of an expression (a constant is dealt with by the caller) and the memory after evaluating it
ExprVal(ms, f, fr, a) == IF a.fm = "x" THEN 0 ELSE GetVal(ms, f, fr, a)
ExprMem(ms, f, fr, a) == IF a.fm = "x" THEN [ms EXCEPT !.mem[CellOf(f, fr, a)] = @ + 1] ELSE ms

RECURSIVE ExecBody(_, _, _, _, _, _), ExecCall(_, _, _, _, _, _, _)
\* returns [fr, ms]
ExecBody(p, ty, f, fr, si, ms) ==
  IF si > Len(BodyOf(p, f)) THEN [fr |-> fr, ms |-> ms]
  ELSE
    LET st == BodyOf(p, f)[si]
    IN IF st.k = "call"
       THEN IF f # 0 /\ ms.depth >= MaxDepth
            THEN ExecBody(p, ty, f, fr, si + 1, ms)
            ELSE LET m1 == IF f # 0 THEN [ms EXCEPT !.depth = @ + 1] ELSE ms
                     m2 == ExecCall(p, ty, f, fr, st.f, st.args, m1)
                     m3 == IF f # 0 THEN [m2 EXCEPT !.depth = @ - 1] ELSE m2
                 IN ExecBody(p, ty, f, fr, si + 1, m3)
       ELSE
         IF st.k = "len" /\ ~IsBare(st.v)
         THEN \* length(expression): prints the length of the value; the evaluation may add an element
              LET val == IF IsConst(st.v) THEN 1 ELSE ExprVal(ms, f, fr, st.v)
                  ms2 == IF IsConst(st.v) THEN ms ELSE ExprMem(ms, f, fr, st.v)
              IN ExecBody(p, ty, f, fr, si + 1, [ms2 EXCEPT !.out = Append(@, [f |-> f, i |-> si, k |-> st.k, n |-> val])])
         ELSE
         LET cur == GetVal(ms, f, fr, st.v)
             nv  == IF st.k = "len" THEN cur ELSE cur + 1
             ms2 == IF IsRefVar(f, fr, st.v) THEN [ms EXCEPT !.mem[CellOf(f, fr, st.v)] = nv] ELSE ms
             fr2 == IF IsRefVar(f, fr, st.v) THEN fr ELSE [fr EXCEPT ![st.v.i].c = nv]
             ms3 == [ms2 EXCEPT !.out = Append(@, [f |-> f, i |-> si, k |-> st.k, n |-> nv])]
         IN ExecBody(p, ty, f, fr2, si + 1, ms3)

\* build the callee's frame (left to right), run the callee's body
RECURSIVE BuildFrame(_, _, _, _, _, _, _, _)
BuildFrame(p, ty, f, fr, g, args, j, acc) ==     \* acc = [fr2, ms]
  IF j > p.funcs[g].np THEN acc
  ELSE
    LET isArr == ty[<<g, j>>] = "A"
    IN IF j <= Len(args)
       THEN LET a == args[j]
                \* an array parameter receives a bare variable (Sound): the caller's array itself; a scalar
                \* parameter a copy of the value of the variable, the constant or the expression
                ent == IF isArr THEN [ref |-> TRUE, c |-> CellOf(f, fr, a)]
                       ELSE [ref |-> FALSE, c |-> IF IsConst(a) THEN j ELSE IF IsBare(a) THEN GetVal(acc.ms, f, fr, a)
                                                                            ELSE ExprVal(acc.ms, f, fr, a)]
                ms2 == IF IsExprOf(a) THEN ExprMem(acc.ms, f, fr, a) ELSE acc.ms
            IN BuildFrame(p, ty, f, fr, g, args, j + 1, [fr |-> Append(acc.fr, ent), ms |-> ms2])
       ELSE IF isArr
            THEN BuildFrame(p, ty, f, fr, g, args, j + 1,
                            [fr |-> Append(acc.fr, [ref |-> TRUE, c |-> Len(acc.ms.mem) + 1]),
                             ms |-> [acc.ms EXCEPT !.mem = Append(@, 0)]])
            ELSE BuildFrame(p, ty, f, fr, g, args, j + 1, [acc EXCEPT !.fr = Append(@, [ref |-> FALSE, c |-> 0])])
ExecCall(p, ty, f, fr, g, args, ms) ==
  LET b == BuildFrame(p, ty, f, fr, g, args, 1, [fr |-> <<>>, ms |-> ms])
  IN ExecBody(p, ty, g, b.fr, 1, b.ms).ms

\* the output of an accepted program: sequence of [f, i, k, n]
MaxGlobal(p) == LET gs == GlobalIds(p) IN IF gs = {} THEN 0 ELSE CHOOSE m \in gs : \A k \in gs : m >= k
ExecOut(p, ty) ==
  ExecBody(p, ty, 0, <<>>, 1, [mem |-> [k \in 1..MaxGlobal(p) |-> 0], out |-> <<>>, depth |-> 0]).ms.out

\* what a call leaves out: the kinds of the parameters that get no argument ("S", "A"), over all calls of p
OmittedKinds(p, ty) ==
  UNION {{ty[<<StmtAt(p, x).f, j>>] : j \in (Len(StmtAt(p, x).args) + 1)..p.funcs[StmtAt(p, x).f].np} : x \in CallSites(p)}

\* ------------------------- 4. errors collected before one is reported (C19a)
\* A site is [l |-> line, c |-> place on the line, k |-> kind]:
\*   "comma"  an unused parenthesised comma list   (a, 1);    the parser keeps these in a table (multiExprs)
\*            until the whole text is read and then reports ONE of them
\*   "type"   a global used as an array and as a scalar       reported by the resolver: the first in its walk
\*   "undef"  a call of a function that is not defined        (same)
\*   "args"   a call with more arguments than parameters      (same)
\* The table has no order (a Go map).  The report is what a walk over the table in ANY order ends with when it
\* keeps the smaller of (best so far, next).  With a total order that is the minimum whatever the walk; rel = "lex"
\* is the lexicographic order on <<line, column>>, rel = "either" the relation `line smaller or column smaller`,
\* which is not an order: TLC refutes CollectDeterministic for it (the demonstration that the property bites).
PosLess(rel, a, b) == IF rel = "lex" THEN a[1] < b[1] \/ (a[1] = b[1] /\ a[2] < b[2]) ELSE a[1] < b[1] \/ a[2] < b[2]
FarAway == <<1000000000, 1000000000>>
RECURSIVE FoldReport(_, _, _)
FoldReport(rel, walk, best) ==
  IF walk = <<>> THEN best
  ELSE FoldReport(rel, Tail(walk), IF PosLess(rel, Head(walk), best) THEN Head(walk) ELSE best)
RECURSIVE WalksOf(_)
WalksOf(S) == IF S = {} THEN {<<>>} ELSE UNION {{<<x>> \o w : w \in WalksOf(S \ {x})} : x \in S}
ReportsOf(rel, S) == {FoldReport(rel, w, FarAway) : w \in WalksOf(S)}
CommaPositions(sites) == {<<sites[k].l, sites[k].c>> : k \in {q \in 1..Len(sites) : sites[q].k = "comma"}}
\* C19a on collected errors: one report, whatever the walk
CollectDeterministic(rel, sites) == Cardinality(ReportsOf(rel, CommaPositions(sites))) = 1
CollectVerdict(sites) == IF sites = <<>> THEN "accept" ELSE "reject"
=============================================================================
