SPECIFICATION Spec
CONSTANTS
  McFull = FALSE
INVARIANTS Totality ScanRoundTrip WidthLaws PlainD VerbLaws SignLaws
CHECK_DEADLOCK FALSE
