SPECIFICATION Spec
CONSTANTS
  McFull = FALSE
INVARIANTS Totality ScanRoundTrip WidthLaws PlainD VerbLaws SignLaws KindLaws PrintLaws
CHECK_DEADLOCK FALSE
