------------------------------ MODULE Gen_Native ------------------------------
(* Behaviour export for Native: one case = a signature, an argument list and  *)
(* the outcome the specification predicts (parse error / set-up error / the    *)
(* values received, the text printed for the result, abort with the error).    *)
(* Families (constant Family):                                                 *)
(*  "args"     one parameter of every kind, plain and variadic, result none or *)
(*             echo, every error mode x every argument list of 0..2 values     *)
(*  "results"  no parameter / one int parameter, constant result of every kind *)
(*             x error modes x 0..1 arguments                                  *)
(*  "invalid"  the invalid shapes and keyword-like names, called with 0..2     *)
(*             arguments or not called                                         *)
(*  "strform"  string and []byte parameters (one of either, or both in either   *)
(*             order receiving the SAME value), plain and variadic, x every    *)
(*             menu value (non-integral, huge, nan, inf, -inf included) x      *)
(*             every CONVFMT setting                                           *)
(*  "dispatch" the Funcs table {aa, fn, mm, zz} with an AWK function shadowing *)
(*             none / the first / a middle / the last name, the program        *)
(*             calling the other Go functions and then fn                      *)
(*  "extreme"  no parameter / one int parameter, result of every kind at every *)
(*             extreme value of that kind (minimum, maximum, -1, 2^63, 2^63-1, *)
(*             2^63+1, 2^53+1, +-MaxFloat, +-smallest denormal) x {no error    *)
(*             result, nil error}; the prediction is the NUMBER (outcome.num)  *)
(*  "shapes"   signatures built from parts (NativeMachine!GenSigs): every      *)
(*             parameter kind, documented or not, plain / variadic / beside a  *)
(*             documented one; 1-3 results over every first and second result  *)
(*             type (error, concrete types implementing error, others); called *)
(*             with 0..2 arguments or not called: set-up verdict, and the      *)
(*             accepted ones are called                                        *)
(*  "session"  histories of 2-3 Execute calls on ONE interpreter that start    *)
(*             with a rejected set-up (an invalid function of every shape, or  *)
(*             a keyword-like name), then the same Funcs again or the          *)
(*             corrected function (exported as fam "session", one outcome per  *)
(*             run)                                                            *)
(*  "position" the one call of the program written in every syntactic position  *)
(*             (Native!Positions) x no / one parameter x five result kinds x   *)
(*             every error mode: an error aborts the run there (fam "position")*)
(*  "keep"     2..MaxKeep calls whose []byte / string results are kept in a     *)
(*             variable, an array element, a field or as an array subscript,    *)
(*             the Go function returning fresh memory, one reused buffer, or    *)
(*             wiping what it returned before (fam "keep")                      *)
(*  "small"    the union of the ten families above                            *)
(*  "extra"    (thorough tier) every PAIR of parameter kinds, documented or    *)
(*             not, plain and variadic; every result shape behind an int and   *)
(*             behind a map parameter; histories of 4 Execute calls            *)
(*  "wide"     built slot by slot (for -simulate): 0..3 parameters over all    *)
(*             kinds, variadic or not, any result mode, 0..n+2 arguments, any  *)
(*             CONVFMT setting, any shadowed name                              *)
EXTENDS NativeMachine, Json

CONSTANTS Family

RECURSIVE ArgLists(_)
ArgLists(n) == IF n = 0 THEN {<<>>} ELSE ArgLists(n - 1) \cup {Append(a, v) : a \in {b \in ArgLists(n - 1) : Len(b) = n - 1}, v \in Values}

EchoModes(params, variadic) == {rm \in ResModes(params, variadic) : rm.res \in {"none", "echo"}}
ConstModes(params, variadic) == {rm \in ResModes(params, variadic) : rm.res = "const"}

Plain(sg, a, cl) == [sig |-> sg, args |-> a, called |-> cl, shadow |-> "none", cf |-> DefaultCf]
CasesArgs ==
  UNION {UNION {{Plain(MkSig(<<k>>, vr, rm), a, TRUE) : rm \in EchoModes(<<k>>, vr), a \in ArgLists(2)}
                : vr \in {FALSE, TRUE}} : k \in Kinds}
CasesResults ==
  UNION {{Plain(MkSig(ps, FALSE, rm), a, TRUE) : rm \in ConstModes(ps, FALSE), a \in ArgLists(1)}
         : ps \in {<<>>, <<"int">>}}
CasesInvalid ==
  {Plain(InvalidSig(s), a, TRUE) : s \in InvalidShapes, a \in {<<>>, <<"three">>, <<"three", "abc">>}}
  \cup {Plain(InvalidSig(s), <<>>, FALSE) : s \in InvalidShapes}
  \cup {Plain(KeywordSig(n), <<>>, FALSE) : n \in KeywordNames}
\* string kinds x every value x every CONVFMT; two parameters receive the same value
StrModes(ps, vr) == {rm \in EchoModes(ps, vr) : rm.err = "none"}
CasesStrForm ==
  UNION {UNION {{[sig |-> MkSig(ps, vr, rm), args |-> [j \in 1..Len(ps) |-> v], called |-> TRUE, shadow |-> "none", cf |-> c]
                 : rm \in StrModes(ps, vr), v \in Values, c \in ConvFmts}
                : vr \in {FALSE, TRUE}}
         : ps \in {<<"string">>, <<"bytes">>, <<"string", "bytes">>, <<"bytes", "string">>}}
\* an AWK function shadows one name of the Funcs table; the other Go functions and then fn are called
DispatchModes(ps) == {rm \in ResModes(ps, FALSE) : rm.res # "const" \/ rm.rk = "int"}
CasesDispatch ==
  UNION {{[sig |-> MkSig(ps, FALSE, rm), args |-> a, called |-> TRUE, shadow |-> sh, cf |-> DefaultCf]
          : rm \in DispatchModes(ps), a \in {b \in {<<>>, <<"three">>, <<"abc">>} : Len(b) <= Len(ps)}, sh \in Shadows}
         : ps \in {<<>>, <<"int">>, <<"string", "int">>}}

\* extreme results
CasesExtreme ==
  {Plain(sg, <<>>, TRUE) : sg \in ExtSigs(<<>>)} \cup {Plain(sg, a, TRUE) : sg \in ExtSigs(<<"int">>), a \in {<<"three">>}}
\* shapes built from parts: called with as many arguments as fit, with fewer, with one too many, or not called
CasesShapes ==
  {Plain(sg, a, TRUE) : sg \in GenParamSigs, a \in {<<>>, <<"three">>, <<"three", "abc">>, <<"three", "abc", "zero">>}}
  \cup {Plain(sg, a, TRUE) : sg \in GenResultSigs, a \in {<<>>, <<"three">>}}
  \cup {Plain(sg, <<>>, FALSE) : sg \in GenSigs}
\* histories on one interpreter.  The invalid functions: the fixed menu, one undocumented parameter of every kind
\* (plain / variadic), the rejected result shapes; keyword-like names (not callable: the same Funcs every time)
SessionSigs ==
  {InvalidSig(s) : s \in InvalidShapes}
  \cup {MkGen(<<k>>, vr, 0, "int", "error") : k \in BadKinds, vr \in {FALSE, TRUE}}
  \cup {MkGen(<<"int">>, FALSE, 2, "int", r) : r \in SecondKinds \ {"error"}}
  \cup {MkGen(<<>>, FALSE, 3, "int", "error"), MkGen(<<>>, FALSE, 1, "map", "error"), MkGen(<<"string">>, FALSE, 2, "struct", "error")}
SessionRuns == {<<"bad", "bad">>, <<"bad", "fixed">>, <<"bad", "bad", "bad">>, <<"bad", "bad", "fixed">>, <<"bad", "fixed", "fixed">>}
Session(sg, a, cl, rs) == [session |-> TRUE, sig |-> sg, args |-> a, called |-> cl, runs |-> rs]
CasesSession ==
  {Session(sg, a, TRUE, rs) : sg \in SessionSigs, a \in {<<>>, <<"three">>}, rs \in SessionRuns}
  \cup {Session(sg, <<>>, FALSE, rs) : sg \in SessionSigs, rs \in SessionRuns}
  \cup {Session(KeywordSig(n), <<>>, FALSE, rs) : n \in KeywordNames, rs \in {<<"bad", "bad">>, <<"bad", "bad", "bad">>}}
\* only histories that begin: a call with too many arguments is rejected by the parser, there is no interpreter then
SessionOK(c) == ~(c.called /\ ~IsVariadic(c.sig) /\ Len(c.args) > NumParams(c.sig))

\* the thorough tier's additions
CasesShapes2 ==
  {Plain(MkGen(<<k1, k2>>, vr, 0, "int", "error"), a, TRUE) : k1 \in ParamKinds, k2 \in ParamKinds, vr \in {FALSE, TRUE}, a \in {<<>>, <<"three", "abc">>}}
  \cup {Plain(MkGen(<<k>>, FALSE, n, rk, r), <<"three">>, TRUE) : k \in {"int", "map"}, n \in 1..3, rk \in ParamKinds, r \in SecondKinds}
SessionRunsLong == {<<"bad", "bad", "bad", "bad">>, <<"bad", "bad", "bad", "fixed">>, <<"bad", "bad", "fixed", "fixed">>, <<"bad", "fixed", "fixed", "fixed">>}
CasesSessionLong == {Session(sg, a, TRUE, rs) : sg \in SessionSigs, a \in {<<>>, <<"three">>}, rs \in SessionRunsLong}

ExportSession(c) == [fam |-> "session", sig |-> c.sig, args |-> c.args, called |-> c.called, runs |-> c.runs,
                     fixed |-> IF c.sig.name \in KeywordNames THEN c.sig ELSE Fixed(c.sig),
                     outcomes |-> SessionOutcomes(c.sig, c.args, c.called, c.runs)]
Export(c) == [fam |-> "native", sig |-> c.sig, args |-> c.args, called |-> c.called, shadow |-> c.shadow, cf |-> c.cf,
              outcome |-> OutcomeFull(c.sig, c.args, c.called, c.shadow, c.cf)]

\* calls inside whole programs
MaxKeep == 3
ExportPos(c)  == [fam |-> "position", sig |-> c.sig, args |-> c.args, pos |-> c.pos, outcome |-> PosOutcome(c.sig, c.args, c.pos)]
ExportKeep(c) == [fam |-> "keep", rk |-> c.rk, policy |-> c.policy, hold |-> c.hold, args |-> c.args, outcome |-> KeepOutcome(c)]

ExportAny(c) == IF "session" \in DOMAIN c THEN ExportSession(c)
                ELSE IF "pos" \in DOMAIN c THEN ExportPos(c)
                ELSE IF "policy" \in DOMAIN c THEN ExportKeep(c) ELSE Export(c)

\* builder state for the "wide" family
VARIABLES b, emitted
gvars == <<b, emitted, phase, sig, args, called, shadow, cf, recv, printed, ran>>

Init ==
  /\ emitted = FALSE
  /\ phase = "start" /\ sig = <<>> /\ args = <<>> /\ called = TRUE /\ recv = <<>> /\ printed = Unspecified
  /\ shadow = "none" /\ cf = DefaultCf /\ ran = <<>>
  /\ IF Family = "wide" THEN b = [stage |-> "np", params |-> <<>>, np |-> 0, variadic |-> FALSE, sig |-> <<>>, nargs |-> 0, args |-> <<>>,
                                  shadow |-> "none", cf |-> DefaultCf]
     ELSE b \in (CASE Family = "args" -> CasesArgs [] Family = "results" -> CasesResults [] Family = "invalid" -> CasesInvalid
                    [] Family = "strform" -> CasesStrForm [] Family = "dispatch" -> CasesDispatch
                    [] Family = "extreme" -> CasesExtreme [] Family = "shapes" -> CasesShapes
                    [] Family = "session" -> {c \in CasesSession : SessionOK(c)}
                    [] Family = "position" -> PosCases [] Family = "keep" -> KeepCases(MaxKeep)
                    [] Family = "extra" -> CasesShapes2 \cup {c \in CasesSessionLong : SessionOK(c)}
                    [] Family = "small" -> CasesArgs \cup CasesResults \cup CasesInvalid \cup CasesStrForm \cup CasesDispatch
                                           \cup CasesExtreme \cup CasesShapes \cup {c \in CasesSession : SessionOK(c)}
                                           \cup PosCases \cup KeepCases(MaxKeep))

Grow ==
  /\ Family = "wide" /\ ~emitted
  /\ \/ b.stage = "np" /\ \E n \in 0..3 : b' = [b EXCEPT !.np = n, !.stage = IF n = 0 THEN "res" ELSE "kinds"]
     \/ b.stage = "kinds" /\ \E k \in Kinds :
          b' = [b EXCEPT !.params = Append(@, k), !.stage = IF Len(b.params) + 1 = b.np THEN "var" ELSE "kinds"]
     \/ b.stage = "var" /\ \E vr \in {FALSE, TRUE} : b' = [b EXCEPT !.variadic = vr, !.stage = "res"]
     \/ b.stage = "res" /\ \E rm \in ResModes(b.params, b.variadic) :
          b' = [b EXCEPT !.sig = MkSig(b.params, b.variadic, rm), !.stage = "env"]
     \/ b.stage = "env" /\ \E sh \in Shadows, c \in ConvFmts : b' = [b EXCEPT !.shadow = sh, !.cf = c, !.stage = "nargs"]
     \/ b.stage = "nargs" /\ \E n \in 0..(b.np + 2) : b' = [b EXCEPT !.nargs = n, !.stage = IF n = 0 THEN "done" ELSE "args"]
     \/ b.stage = "args" /\ \E v \in Values :
          b' = [b EXCEPT !.args = Append(@, v), !.stage = IF Len(b.args) + 1 = b.nargs THEN "done" ELSE "args"]
  /\ UNCHANGED <<emitted, phase, sig, args, called, shadow, cf, recv, printed, ran>>

Emit ==
  /\ ~emitted /\ (Family = "wide" => b.stage = "done")
  /\ PrintT(ToJson(ExportAny(IF Family = "wide" THEN [sig |-> b.sig, args |-> b.args, called |-> TRUE, shadow |-> b.shadow, cf |-> b.cf]
                              ELSE b)))
  /\ emitted' = TRUE
  /\ UNCHANGED <<b, phase, sig, args, called, shadow, cf, recv, printed, ran>>
Next == Grow \/ Emit
Spec == Init /\ [][Next]_gvars
=============================================================================
