------------------------------ MODULE Gen_Native ------------------------------
(* Behaviour export for Native: one case = a signature, an argument list and  *)
(* the outcome the specification predicts (parse error / set-up error / the    *)
(* values received, the text printed for the result, abort with the error).    *)
(* Families (constant Family):                                                 *)
(*  "args"     one parameter of every kind, plain and variadic, result none or *)
(*             echo, every error mode x every argument list of 0..2 values     *)
(*  "results"  no parameter / one int parameter, constant result of every kind *)
(*             x error modes x 0..1 arguments                                  *)
(*  "invalid"  the invalid shapes and keyword-like names, called with 0..2     *)
(*             arguments or not called                                         *)
(*  "small"    the union of the three families above                          *)
(*  "wide"     built slot by slot (for -simulate): 0..3 parameters over all    *)
(*             kinds, variadic or not, any result mode, 0..n+2 arguments       *)
EXTENDS NativeMachine, Json

CONSTANTS Family

RECURSIVE ArgLists(_)
ArgLists(n) == IF n = 0 THEN {<<>>} ELSE ArgLists(n - 1) \cup {Append(a, v) : a \in {b \in ArgLists(n - 1) : Len(b) = n - 1}, v \in Values}

EchoModes(params, variadic) == {rm \in ResModes(params, variadic) : rm.res \in {"none", "echo"}}
ConstModes(params, variadic) == {rm \in ResModes(params, variadic) : rm.res = "const"}

CasesArgs ==
  UNION {UNION {{[sig |-> MkSig(<<k>>, vr, rm), args |-> a, called |-> TRUE] : rm \in EchoModes(<<k>>, vr), a \in ArgLists(2)}
                : vr \in {FALSE, TRUE}} : k \in Kinds}
CasesResults ==
  UNION {{[sig |-> MkSig(ps, FALSE, rm), args |-> a, called |-> TRUE] : rm \in ConstModes(ps, FALSE), a \in ArgLists(1)}
         : ps \in {<<>>, <<"int">>}}
CasesInvalid ==
  {[sig |-> InvalidSig(s), args |-> a, called |-> TRUE] : s \in InvalidShapes, a \in {<<>>, <<"three">>, <<"three", "abc">>}}
  \cup {[sig |-> InvalidSig(s), args |-> <<>>, called |-> FALSE] : s \in InvalidShapes}
  \cup {[sig |-> KeywordSig(n), args |-> <<>>, called |-> FALSE] : n \in KeywordNames}

Export(c) == [fam |-> "native", sig |-> c.sig, args |-> c.args, called |-> c.called,
              outcome |-> Outcome(c.sig, c.args, c.called)]

\* builder state for the "wide" family
VARIABLES b, emitted
gvars == <<b, emitted, phase, sig, args, called, recv, printed>>

Init ==
  /\ emitted = FALSE
  /\ phase = "start" /\ sig = <<>> /\ args = <<>> /\ called = TRUE /\ recv = <<>> /\ printed = Unspecified
  /\ IF Family = "wide" THEN b = [stage |-> "np", params |-> <<>>, np |-> 0, variadic |-> FALSE, sig |-> <<>>, nargs |-> 0, args |-> <<>>]
     ELSE b \in (CASE Family = "args" -> CasesArgs [] Family = "results" -> CasesResults [] Family = "invalid" -> CasesInvalid
                    [] Family = "small" -> CasesArgs \cup CasesResults \cup CasesInvalid)

Grow ==
  /\ Family = "wide" /\ ~emitted
  /\ \/ b.stage = "np" /\ \E n \in 0..3 : b' = [b EXCEPT !.np = n, !.stage = IF n = 0 THEN "res" ELSE "kinds"]
     \/ b.stage = "kinds" /\ \E k \in Kinds :
          b' = [b EXCEPT !.params = Append(@, k), !.stage = IF Len(b.params) + 1 = b.np THEN "var" ELSE "kinds"]
     \/ b.stage = "var" /\ \E vr \in {FALSE, TRUE} : b' = [b EXCEPT !.variadic = vr, !.stage = "res"]
     \/ b.stage = "res" /\ \E rm \in ResModes(b.params, b.variadic) :
          b' = [b EXCEPT !.sig = MkSig(b.params, b.variadic, rm), !.stage = "nargs"]
     \/ b.stage = "nargs" /\ \E n \in 0..(b.np + 2) : b' = [b EXCEPT !.nargs = n, !.stage = IF n = 0 THEN "done" ELSE "args"]
     \/ b.stage = "args" /\ \E v \in Values :
          b' = [b EXCEPT !.args = Append(@, v), !.stage = IF Len(b.args) + 1 = b.nargs THEN "done" ELSE "args"]
  /\ UNCHANGED <<emitted, phase, sig, args, called, recv, printed>>

Emit ==
  /\ ~emitted /\ (Family = "wide" => b.stage = "done")
  /\ PrintT(ToJson(Export(IF Family = "wide" THEN [sig |-> b.sig, args |-> b.args, called |-> TRUE] ELSE b)))
  /\ emitted' = TRUE
  /\ UNCHANGED <<b, phase, sig, args, called, recv, printed>>
Next == Grow \/ Emit
Spec == Init /\ [][Next]_gvars
=============================================================================
