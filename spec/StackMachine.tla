---------------------------- MODULE StackMachine ----------------------------
(***************************************************************************)
(* C02, part 2: stack discipline of the byte code the compiler emits.      *)
(*                                                                         *)
(* The virtual machine of interp/vm.go is abstracted to what matters for   *)
(* "never crashes": for every opcode its operand count, how many values it *)
(* pops and pushes, its successors, and the tables it indexes.  The state  *)
(* is (program, block, window stack, ip, depth); branch outcomes are       *)
(* nondeterministic, so one exploration covers all inputs of a program.    *)
(* Checked for REAL compiled programs (dumped by the harness as JSON):     *)
(*   - no instruction pops more values than its block has pushed;          *)
(*   - every jump lands on an instruction boundary inside its window;      *)
(*   - a statement block ends with an empty stack, a pattern block with    *)
(*     exactly one value, a for-in body with the depth it started with;    *)
(*   - every constant / variable / array / function index is in range.     *)
(* The opcode table below is also exported (Gen_StackTable) and validated  *)
(* against every instruction the real VM executes (verif step hook).       *)
(***************************************************************************)
EXTENDS Integers, Sequences, FiniteSets, TLC, Json

\* ---------------------------------------------------------------- the table
\* operand words following the opcode (CallUser is variable: see Arity)
Operands ==
  [Nop |-> 0, Num |-> 1, Str |-> 1, Dupe |-> 0, Drop |-> 0, Swap |-> 0, Rote |-> 0,
   Field |-> 0, FieldInt |-> 1, FieldByName |-> 0, FieldByNameStr |-> 1, Global |-> 1, Local |-> 1, Special |-> 1,
   ArrayGlobal |-> 1, ArrayLocal |-> 1, InGlobal |-> 1, InLocal |-> 1,
   AssignField |-> 0, AssignFieldSub |-> 0, AssignGlobal |-> 1, AssignLocal |-> 1, AssignSpecial |-> 1,
   AssignArrayGlobal |-> 1, AssignArrayLocal |-> 1, Delete |-> 2, DeleteAll |-> 2,
   IncrField |-> 1, IncrGlobal |-> 2, IncrLocal |-> 2, IncrSpecial |-> 2, IncrArrayGlobal |-> 2, IncrArrayLocal |-> 2,
   AugAssignField |-> 1, AugAssignGlobal |-> 2, AugAssignLocal |-> 2, AugAssignSpecial |-> 2,
   AugAssignArrayGlobal |-> 2, AugAssignArrayLocal |-> 2,
   Regex |-> 1, IndexMulti |-> 1, ConcatMulti |-> 1,
   Add |-> 0, Subtract |-> 0, Multiply |-> 0, Divide |-> 0, Power |-> 0, Modulo |-> 0, Equals |-> 0, NotEquals |-> 0,
   Less |-> 0, Greater |-> 0, LessOrEqual |-> 0, GreaterOrEqual |-> 0, Concat |-> 0, Match |-> 0, NotMatch |-> 0,
   Not |-> 0, UnaryMinus |-> 0, UnaryPlus |-> 0, Boolean |-> 0,
   Jump |-> 1, JumpFalse |-> 1, JumpTrue |-> 1, JumpEquals |-> 1, JumpNotEquals |-> 1, JumpLess |-> 1, JumpGreater |-> 1,
   JumpLessOrEqual |-> 1, JumpGreaterOrEqual |-> 1, Next |-> 0, Nextfile |-> 0, Exit |-> 0, ExitStatus |-> 0,
   ForIn |-> 5, BreakForIn |-> 0,
   CallBuiltin |-> 1, CallLengthArray |-> 2, CallSplit |-> 2, CallSplitSep |-> 3, CallSprintf |-> 1,
   CallUser |-> 2, CallNative |-> 2, Return |-> 0, ReturnNull |-> 0, Nulls |-> 1,
   Print |-> 2, Printf |-> 2, Getline |-> 1, GetlineField |-> 1, GetlineGlobal |-> 2, GetlineLocal |-> 2,
   GetlineSpecial |-> 2, GetlineArray |-> 3]

OpNames == DOMAIN Operands

\* builtin function number -> <<pops, pushes>>  (order of compiler.BuiltinOp)
BuiltinNames == <<"Atan2", "Close", "Cos", "Exp", "Fflush", "FflushAll", "Gsub", "Index", "Int", "Length", "LengthArg", "Log",
                  "Match", "Rand", "Sin", "Sqrt", "Srand", "SrandSeed", "Sub", "Substr", "SubstrLength", "System", "Tolower", "Toupper">>
BuiltinEffect ==
  [Atan2 |-> <<2, 1>>, Close |-> <<1, 1>>, Cos |-> <<1, 1>>, Exp |-> <<1, 1>>, Fflush |-> <<1, 1>>, FflushAll |-> <<0, 1>>,
   Gsub |-> <<3, 2>>, Index |-> <<2, 1>>, Int |-> <<1, 1>>, Length |-> <<0, 1>>, LengthArg |-> <<1, 1>>, Log |-> <<1, 1>>,
   Match |-> <<2, 1>>, Rand |-> <<0, 1>>, Sin |-> <<1, 1>>, Sqrt |-> <<1, 1>>, Srand |-> <<0, 1>>, SrandSeed |-> <<1, 1>>,
   Sub |-> <<3, 2>>, Substr |-> <<2, 1>>, SubstrLength |-> <<3, 1>>, System |-> <<1, 1>>, Tolower |-> <<1, 1>>, Toupper |-> <<1, 1>>]

Binary == {"Add", "Subtract", "Multiply", "Divide", "Power", "Modulo", "Equals", "NotEquals", "Less", "Greater", "LessOrEqual",
           "GreaterOrEqual", "Concat", "Match", "NotMatch"}
Unary == {"Not", "UnaryMinus", "UnaryPlus", "Boolean"}
CondJump1 == {"JumpFalse", "JumpTrue"}
CondJump2 == {"JumpEquals", "JumpNotEquals", "JumpLess", "JumpGreater", "JumpLessOrEqual", "JumpGreaterOrEqual"}
Terminal == {"Next", "Nextfile", "Exit", "ExitStatus", "Return", "ReturnNull", "BreakForIn"}

\* <<pops, pushes>> of an instruction; a = operand words, pg = the program (for CallUser), illegal = the "no redirect" token
Effect(op, a, pg) ==
  LET rd(x) == IF x = pg.illegal THEN 0 ELSE 1
  IN CASE op \in {"Nop", "Jump", "DeleteAll", "IncrGlobal", "IncrLocal", "IncrSpecial", "Next", "Nextfile", "Exit", "ReturnNull",
                  "ForIn", "BreakForIn"} -> <<0, 0>>
       [] op \in {"Num", "Str", "FieldInt", "FieldByNameStr", "Global", "Local", "Special", "Regex", "CallLengthArray"} -> <<0, 1>>
       [] op = "Dupe" -> <<1, 2>> [] op = "Drop" -> <<1, 0>> [] op = "Swap" -> <<2, 2>> [] op = "Rote" -> <<3, 3>>
       [] op \in {"Field", "FieldByName", "ArrayGlobal", "ArrayLocal", "InGlobal", "InLocal", "CallSplit"} \cup Unary -> <<1, 1>>
       [] op \in {"AssignField", "AssignArrayGlobal", "AssignArrayLocal", "AugAssignField", "AugAssignArrayGlobal",
                  "AugAssignArrayLocal"} \cup CondJump2 -> <<2, 0>>
       [] op = "AssignFieldSub" -> <<3, 1>>
       [] op \in {"AssignGlobal", "AssignLocal", "AssignSpecial", "Delete", "IncrField", "IncrArrayGlobal", "IncrArrayLocal",
                  "AugAssignGlobal", "AugAssignLocal", "AugAssignSpecial", "ExitStatus", "Return"} \cup CondJump1 -> <<1, 0>>
       [] op \in Binary \cup {"CallSplitSep"} -> <<2, 1>>
       [] op \in {"IndexMulti", "ConcatMulti", "CallSprintf"} -> <<a[1], 1>>
       [] op = "CallBuiltin" -> BuiltinEffect[BuiltinNames[a[1] + 1]]
       [] op = "CallUser" -> <<pg.funcs[a[1] + 1].numScalars, 1>>
       [] op = "CallNative" -> <<a[2], 1>>
       [] op = "Nulls" -> <<0, a[1]>>
       [] op \in {"Print", "Printf"} -> <<a[1] + rd(a[2]), 0>>
       [] op \in {"Getline", "GetlineGlobal", "GetlineLocal", "GetlineSpecial"} -> <<rd(a[1]), 1>>
       [] op \in {"GetlineField", "GetlineArray"} -> <<rd(a[1]) + 1, 1>>

\* the table as data, for the dynamic validation in the harness
TableRow(op) == [op |-> op, operands |-> Operands[op]]
=============================================================================
