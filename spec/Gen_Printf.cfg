SPECIFICATION Spec
CONSTANTS
  NStrata = 8
  Stratum = 0
  KFull = FALSE
  KStrata = 1
  KStratum = 0
CHECK_DEADLOCK FALSE
