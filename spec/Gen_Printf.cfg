SPECIFICATION Spec
CONSTANTS
  NStrata = 8
  Stratum = 0
CHECK_DEADLOCK FALSE
