------------------------------ MODULE MC_Lexer ------------------------------
(***************************************************************************)
(* Model check of Lexer.tla over every source of at most MaxLen bytes from *)
(* the alphabet Alpha.                                                     *)
(*                                                                         *)
(* SpecLex: the lexer as a machine of micro-steps.  A scan is planned by   *)
(* ScanTok and then executed one next()/unread() at a time on the position *)
(* state (PsAdvance / PsUnread), the way lexer.scan() does it; PosInStepInv*)
(* is checked in every intermediate state, and the delivered positions are *)
(* required to be the TRUE positions of the token starts.                  *)
(* SpecFree: arbitrary interleavings of PsAdvance and PsUnread (wherever   *)
(* the un-read's precondition holds) keep the position in step (sources of *)
(* at most MaxLenFree bytes).  SpecAll runs both.                          *)
(* AsBuilt = TRUE swaps in unread() as found in the pinned tree; the check *)
(* runs that variant only to demonstrate that PosInStepInv bites.          *)
(***************************************************************************)
EXTENDS Lexer, TLC

CONSTANTS Alpha, MaxLen, MaxLenFree, AsBuilt

VARIABLES src, phase, rx, ps, plan, tkv, pend, out, done
vars == <<src, phase, rx, ps, plan, tkv, pend, out, done>>

NoTok == Tok("none", 0, 0, 0)
Rep(x, n) == [i \in 1..n |-> x]
Unread(p) == IF AsBuilt THEN PsUnreadAsBuilt(src, p) ELSE PsUnread(src, p)

Init == /\ src = <<>> /\ phase = "grow" /\ rx = FALSE /\ ps = PsInit(<<>>) /\ plan = <<>> /\ tkv = NoTok
        /\ pend = 0 /\ out = <<>> /\ done = FALSE

Grow == /\ phase = "grow" /\ Len(src) < MaxLen
        /\ \E b \in Alpha : src' = Append(src, b)
        /\ UNCHANGED <<phase, rx, ps, plan, tkv, pend, out, done>>

\* ---- the lexer in micro-steps ----
Start == /\ phase = "grow"
         /\ \E r \in BOOLEAN : rx' = r
         /\ phase' = "start" /\ ps' = PsInit(src)
         /\ UNCHANGED <<src, plan, tkv, pend, out, done>>

PlanOf(tk, off) ==
  LET tgt == IF tk.err THEN tk.eo ELSE tk.s
      from == IF tgt > off THEN tgt ELSE off
  IN Rep("adv", from - off) \o <<"emit">>
     \o (IF tk.err THEN <<>> ELSE Rep("adv", tk.r - from) \o Rep("unr", tk.r - tk.e)) \o <<"fin">>

DoPlan == /\ phase \in {"start", "lex"} /\ plan = <<>> /\ ~done
          /\ tkv' = ScanTok(src, ps.off, pend)
          /\ plan' = PlanOf(tkv', ps.off)
          /\ phase' = "lex"
          /\ UNCHANGED <<src, rx, ps, pend, out, done>>

DoAdv == /\ plan # <<>> /\ Head(plan) = "adv"
         /\ ps' = PsAdvance(src, ps) /\ plan' = Tail(plan)
         /\ UNCHANGED <<src, phase, rx, tkv, pend, out, done>>

DoUnr == /\ plan # <<>> /\ Head(plan) = "unr"
         /\ ps' = Unread(ps) /\ plan' = Tail(plan)
         /\ UNCHANGED <<src, phase, rx, tkv, pend, out, done>>

DoEmit == /\ plan # <<>> /\ Head(plan) = "emit"
          /\ LET rp == IF pend > 0 /\ ~tkv.err THEN Pos(ps.cur.line, ps.cur.col - pend) ELSE ps.cur
             IN out' = Append(out, [k |-> tkv.k, s |-> tkv.s, line |-> rp.line, col |-> rp.col])
          /\ plan' = Tail(plan)
          /\ UNCHANGED <<src, phase, rx, ps, tkv, pend, done>>

DoFin == /\ plan # <<>> /\ Head(plan) = "fin"
         /\ done' = (tkv.err \/ tkv.k = "eof")
         /\ pend' = IF rx THEN tkv.div ELSE 0
         /\ plan' = Tail(plan)
         /\ UNCHANGED <<src, phase, rx, ps, tkv, out>>

NextLex == Grow \/ Start \/ DoPlan \/ DoAdv \/ DoUnr \/ DoEmit \/ DoFin
SpecLex == Init /\ [][NextLex]_vars

\* ---- free interleavings of next() and unread() ----
StartFree == /\ phase = "grow" /\ Len(src) <= MaxLenFree /\ phase' = "free" /\ ps' = PsInit(src)
             /\ UNCHANGED <<src, rx, plan, tkv, pend, out, done>>
FreeAdv == /\ phase = "free" /\ ps.off < Len(src) /\ ps' = PsAdvance(src, ps)
           /\ UNCHANGED <<src, phase, rx, plan, tkv, pend, out, done>>
FreeUnr == /\ phase = "free" /\ UnreadOK(src, ps) /\ ps' = Unread(ps)
           /\ UNCHANGED <<src, phase, rx, plan, tkv, pend, out, done>>
NextFree == Grow \/ StartFree \/ FreeAdv \/ FreeUnr
SpecFree == Init /\ [][NextFree]_vars
\* both explorations in one run (their phases are disjoint)
SpecAll == Init /\ [][NextLex \/ NextFree]_vars

\* ---------------------------------------------------------- properties ----
\* the tracked positions are the true positions of the offset, in every intermediate state
PosInStepInv == phase \in {"start", "lex", "free"} => PosInStep(src, ps)

\* the un-read is only ever asked to step back to a byte that is neither LF nor CR
UnreadPre == (plan # <<>> /\ Head(plan) = "unr") => UnreadOK(src, ps)

\* delivered positions: true position of the token's first byte (also for a regex, whose column is
\* computed by subtraction); an ILLEGAL position is the true position of the offending byte and valid
Delivered ==
  \A i \in 1..Len(out) :
    IF out[i].k = "illegal"
    THEN ValidPos(src, out[i].line, out[i].col)
    ELSE Pos(out[i].line, out[i].col) = TruePos(src, out[i].s)

\* the machine and the function Lex (which Gen_Lexer exports and Trace_Lexer steps) agree
Proj(t) == [k |-> t.k, s |-> t.s, line |-> t.line, col |-> t.col]
MachineIsLex == done => out = [i \in 1..Len(Lex(src, rx)) |-> Proj(Lex(src, rx)[i])]

FirstByteOK(t) ==
  LET b == At(src, t.s) IN
  CASE t.k = "word"    -> IsLetter(b)
    [] t.k = "number"  -> IsDigit(b) \/ b = DOT
    [] t.k = "string"  -> b = DQ \/ b = APOS
    [] t.k = "newline" -> b = LF
    [] t.k = "regex"   -> b = SLASH
    [] t.k = "op"      -> OpLen(b, At(src, t.s + 1), At(src, t.s + 2)) > 0
    [] t.k = "eof"     -> b = NUL
    [] OTHER           -> TRUE

\* laws of the token stream and of the position functions, evaluated once per (source, rx)
StreamLaws ==
  phase = "start" =>
    LET toks == Lex(src, rx)
        n    == Len(toks)
    IN /\ n >= 1 /\ n <= Len(src) + 1
       /\ toks[n].k \in {"eof", "illegal"}
       /\ \A i \in 1..(n - 1) : toks[i].k \notin {"eof", "illegal"}
       /\ \A i \in 1..n : FirstByteOK(toks[i]) /\ toks[i].s >= 0 /\ toks[i].s <= Len(src)
       \* starts strictly increase; a regex starts where the / or /= before it started
       /\ \A i \in 2..n : toks[i].k # "illegal" =>
             IF toks[i].k = "regex" THEN toks[i].s = toks[i - 1].s /\ rx ELSE toks[i].s > toks[i - 1].s
       \* an un-read steps back over at most two bytes (sign, exponent letter)
       /\ \A i \in 1..n : "ub" \in DOMAIN toks[i] => toks[i].ub \in {1, 2} /\ toks[i].k = "number"

PosLaws ==
  phase = "start" /\ ~rx =>
    LET n  == Len(src)
        lt == LineTable(src)
        cs == CliSource(src)
        ct == LineTable(cs)
    IN \* the two formulations of "the position exists in the source" coincide
       /\ \A l \in 0..(n + 2), c \in 0..(n + 2) : ValidPos(src, l, c) <=> ValidPosDef(src, l, c)
       \* the line table partitions the source at its LF bytes
       /\ lt[1].lo = 0 /\ lt[Len(lt)].hi = n
       /\ \A j \in 1..(Len(lt) - 1) : lt[j + 1].lo = lt[j].hi + 1 /\ src[lt[j].hi + 1] = LF
       /\ \A j \in 1..Len(lt) : \A i \in (lt[j].lo + 1)..lt[j].hi : src[i] # LF
       \* two offsets share a position only across CR bytes
       /\ \A j \in 0..n, k \in 0..n : (j < k /\ TruePos(src, j) = TruePos(src, k)) => \A i \in (j + 1)..k : src[i] = CR
       \* a valid position lets the command line tool slice the line it shows: col - 1 <= raw length
       /\ \A l \in 1..Len(lt), c \in 1..(n + 2) : ValidPosIn(lt, l, c) => c - 1 <= lt[l].hi - lt[l].lo
       /\ \A l \in 1..Len(ct), c \in 1..(n + 3) : ValidPosIn(ct, l, c) => c - 1 <= ct[l].hi - ct[l].lo
       \* a position valid in the source is valid in what the tool parses
       /\ \A l \in 1..Len(lt), c \in 1..(n + 2) : ValidPosIn(lt, l, c) => ValidPosIn(ct, l, c)
=============================================================================
