SPECIFICATION Spec
CONSTANTS
  MaxField = 1000000
  MaxNum = 30000
  Fuel = 150
CHECK_DEADLOCK FALSE
