SPECIFICATION SpecAll
CONSTANTS
  Alpha = {97, 101, 49, 46, 43, 32, 13, 10, 92, 34, 47, 35, 61, 195}
  MaxLen = 4
  MaxLenFree = 3
  AsBuilt = FALSE
INVARIANTS PosInStepInv UnreadPre Delivered MachineIsLex StreamLaws PosLaws
CHECK_DEADLOCK FALSE
