SPECIFICATION Spec
CONSTANTS
  MaxField = 1000000
CHECK_DEADLOCK FALSE
