SPECIFICATION Spec
CONSTANTS
  Fam = "pairs"
  HistLen = 2
  Rich = FALSE
  Survives = {}
CHECK_DEADLOCK FALSE
