SPECIFICATION TSpec
CONSTANTS
  CheckEvery = 1032
  MaxDepth = 8
  MaxPrint = 100
  MaxRecords = 1
  SharedCounter = TRUE
  PreferCtxErr = TRUE
  FlushOnCtxErr = TRUE
  WaitErrChecksDone = TRUE
  Outcomes = {"zero", "nonzero", "signal", "waitfail"}
  PrintKinds = {"pr_direct", "pr_buffered", "pr_file", "pr_cmd"}
CHECK_DEADLOCK FALSE
