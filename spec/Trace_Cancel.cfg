SPECIFICATION TSpec
CONSTANTS
  CheckEvery = 1032
  MaxDepth = 8
  MaxPrint = 100
  MaxRecords = 1
  SharedCounter = TRUE
  PreferCtxErr = TRUE
  FlushOnCtxErr = TRUE
CHECK_DEADLOCK FALSE
