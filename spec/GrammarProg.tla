---------------------------- MODULE GrammarProg ----------------------------
(***************************************************************************)
(* Statement and program forms of AWK over the expressions of Grammar.tla, *)
(* for C20 (the printed form of a program is a faithful AWK program).      *)
(*                                                                         *)
(* A program is grown as a derivation (sequence of statement productions,  *)
(* holes filled left to right); BuildProg turns a complete derivation into *)
(* the specification's own source text (a token sequence, "\n" = newline)  *)
(* and the S-expression of the program it denotes.  Expression positions   *)
(* are filled, in order, from a rotating menu of expressions chosen to     *)
(* stress the printer: adjacent signs (- -a, + +a, - --a, a - -b), division*)
(* next to a regex, ! next to ~, getline and redirection forms, and forms  *)
(* whose printed text needs parentheses the source did not have (a ^ -b,   *)
(* $$a++, 1 && a = 1, a ? b : c = d).                                      *)
(***************************************************************************)
EXTENDS Grammar

\* ---- the expression menu: [toks, ptoks (safe as a print argument), sx] ----
\* tree = TRUE: the entry is a tree of Grammar.tla printed by MinTop (the strict parser must read it back)
T(t) == [toks |-> MinTop(t, "stmt"), ptoks |-> MinTop(t, "print"), sx |-> Sx(t), tree |-> TRUE]
Raw(toks, sx) == [toks |-> toks, ptoks |-> toks, sx |-> sx, tree |-> FALSE]
RawP(toks, sx) == [toks |-> toks, ptoks |-> <<"(">> \o toks \o <<")">>, sx |-> sx, tree |-> FALSE]
\* self-consistency of a menu entry: where the strict parser accepts the entry's text, it reads the entry's tree
MenuEntryOK(x) ==
  LET r == Parse(x.toks, "stmt")  q == Parse(x.ptoks, "print")
  IN (r.ok => Sx(r.t) = x.sx) /\ (q.ok => Sx(q.t) = x.sx)
Un(op, e) == [k |-> "un", op |-> op, e |-> e]
Bin(op, l, r) == [k |-> "bin", op |-> op, l |-> l, r |-> r]
Pre(op, e) == [k |-> "pre", op |-> op, e |-> e]
XMenu == <<
  T(Atom("a")),
  T(Un("-", Un("-", Atom("a")))),
  T(Un("+", Un("+", Atom("a")))),
  T(Bin("-", Atom("a"), Un("-", Atom("b")))),
  T(Bin("/", Atom("a"), Atom("b"))),
  T(Atom("/r/")),
  T(Bin("/", Atom("a"), Atom("/r/"))),
  T(Bin("~", Un("!", Atom("a")), Atom("b"))),
  T(Bin("~", Atom("a"), Atom("/r/"))),
  T(Atom("\"s\"")),
  T([k |-> "asg", op |-> "=", l |-> Atom("a"), r |-> Atom("b")]),
  T([k |-> "post", op |-> "++", e |-> Atom("a")]),
  T([k |-> "field", e |-> Atom("1")]),
  T([k |-> "in", l |-> Atom("a"), arr |-> "A"]),
  T([k |-> "pget", cmd |-> Atom("\"c\""), lv |-> ""]),
  T([k |-> "fget", lv |-> "", file |-> Atom("\"f\"")]),
  T(Bin(">", [k |-> "grp", e |-> [k |-> "fget", lv |-> "tgt", file |-> Atom("\"f\"")]], Atom("0"))),
  Raw(<<"length">>, "(call length)"),
  Raw(<<"substr", "(", "a", ",", "1", ",", "2", ")">>, "(call substr a 1 2)"),
  T([k |-> "cond", c |-> Atom("a"), t |-> Atom("b"), f |-> Atom("c")]),
  T(Bin("cat", Atom("a"), Atom("b"))),
  Raw(<<"(", "a", ",", "b", ")", "in", "A">>, "(in A a b)"),
  T(Un("-", Pre("--", Atom("a")))),
  T(Un("+", Pre("++", Atom("a")))),
  T(Un("!", Atom("/=r/"))),
  T([k |-> "asg", op |-> "/=", l |-> Atom("a"), r |-> Atom("/=/")]),
  Raw(<<"a", "^", "-", "b">>, "(^ a (u- b))"),
  Raw(<<"$", "$", "a", "++">>, "($ (post++ ($ a)))"),
  Raw(<<"1", "&&", "a", "=", "1">>, "(&& 1 (= a 1))"),
  Raw(<<"a", "?", "b", ":", "c", "=", "d">>, "(?: a b (= c d))"),
  Raw(<<"a", "!", "b">>, "(cat a (u! b))"),
  Raw(<<"split", "(", "a", ",", "A", ",", "/r/", ")">>, "(call split a A /r/)"),
  Raw(<<"sub", "(", "/r/", ",", "\"s\"", ",", "$", "0", ")">>, "(call sub /r/ \"s\" ($ 0))"),
  Raw(<<"@", "\"s\"">>, "(@ \"s\")"),
  T(Un("-", Atom("1"))),
  RawP(<<"a", "<", "b">>, "(< a b)"),
  RawP(<<"\"c\"", "|", "getline", "tgt", ">", "0">>, "(> (pget \"c\" tgt) 0)"),
  RawP(<<"getline", "tgt", "<", "\"f\"", "\"g\"">>, "(cat (fget tgt \"f\") \"g\")"),
  \* a > deeper inside an argument: in the middle / at the start / at the end of && and || chains, under ?: and =
  RawP(<<"p", "&&", "a", ">", "b", "&&", "c">>, "(&& (&& p (> a b)) c)"),
  RawP(<<"a", ">", "b", "||", "c">>, "(|| (> a b) c)"),
  RawP(<<"p", "||", "a", ">", "b">>, "(|| p (> a b))"),
  RawP(<<"a", "?", "b", ">", "c", ":", "d">>, "(?: a (> b c) d)"),
  RawP(<<"x", "=", "a", ">", "b">>, "(= x (> a b))"),
  RawP(<<"p", "||", "q", "&&", "a", ">", "b", "&&", "c">>, "(|| p (&& (&& q (> a b)) c))"),
  Raw(<<"A", "[", "a", ",", "b", "]">>, "([] A a b)"),
  T([k |-> "asg", op |-> "-=", l |-> Atom("a"), r |-> Atom("b")]),
  T([k |-> "asg", op |-> "*=", l |-> Atom("a"), r |-> Atom("b")]),
  T([k |-> "asg", op |-> "%=", l |-> Atom("a"), r |-> Atom("b")]),
  T([k |-> "asg", op |-> "^=", l |-> Atom("a"), r |-> Atom("b")]),
  T([k |-> "asg", op |-> "+=", l |-> [k |-> "field", e |-> Atom("1")], r |-> Atom("b")]),
  Raw(<<"a", "**", "b">>, "(^ a b)"),
  Raw(<<"a", "**=", "b">>, "(^= a b)")
>>
NX == Len(XMenu)

\* the regex-kind distinction the C20 harness makes: a regex that is the right
\* operand of ~ / !~ or a regex argument of split/sub is a "string regex"
\* (the harness prints it as (strre /r/)); elsewhere it is a stand-alone match.
\* The menu's S-expressions above are written for the harness mode that does
\* not distinguish them; Gen_GrammarProg states the mode in each case.

DMenu == << [toks |-> <<"\"out\"">>, sx |-> "\"out\""],
            [toks |-> <<"a">>, sx |-> "a"],
            [toks |-> <<"(", "\"o\"", "\"ut\"", ")">>, sx |-> "(cat \"o\" \"ut\")"],
            [toks |-> <<"\"o\"", "\"ut\"">>, sx |-> "(cat \"o\" \"ut\")"] >>
ND == Len(DMenu)

\* ---- statement productions ----
SimpleProds == {"x", "print0", "print1", "print2", "printp2", "print>", "print>>", "print|", "printf1", "printfp2>",
                "next", "nextfile", "exit0", "exit1", "return0", "return1", "delete0", "delete1", "delete2", "block0"}
LoopOnly    == {"break", "continue"}
BodyProds   == {"if", "ifelse", "while", "do", "for3", "for0", "forc", "forin", "block"}
SProds      == SimpleProds \cup LoopOnly \cup BodyProds
BProds      == {"b0", "b0semi", "b1", "b1bare", "b2"}

IsLoopKind(h) == h \in {"SL", "BL"}
\* holes of production p when it fills a hole of kind h
SHoles(p, h) ==
  LET bk == IF IsLoopKind(h) THEN "BL" ELSE "B"
      sk == IF IsLoopKind(h) THEN "SL" ELSE "S"
  IN CASE p \in SimpleProds \cup LoopOnly -> <<>>
       [] p = "if" -> <<bk>>
       [] p = "ifelse" -> <<bk, bk>>
       [] p \in {"while", "do", "for3", "for0", "forc", "forin"} -> <<"BL">>
       [] p = "block" -> <<sk>>
       [] p \in {"b0", "b0semi"} -> <<>>
       [] p \in {"b1", "b1bare"} -> <<sk>>
       [] p = "b2" -> <<sk, sk>>

CanExpandS(deriv, pending, p, maxS) ==
  /\ pending # <<>>
  /\ LET h == Head(pending) IN
     \/ h \in {"S", "SL"} /\ p \in SProds /\ (p \in LoopOnly => h = "SL")
     \/ h \in {"B", "BL"} /\ p \in BProds
  /\ CountIn(deriv, SProds) + (IF p \in SProds THEN 1 ELSE 0) <= maxS

\* ---- building text and S-expression ----
XAt(xi, shift) == XMenu[((xi + shift) % NX) + 1]
DAt(xi, shift) == DMenu[((xi + shift) % ND) + 1]
NL == "\n"

\* BuildS(d, j, xi, sh): statement or body whose derivation starts at d[j]; xi counts expression holes.
\* Result: [toks, sx, j, xi]; for bodies sx is the blank-separated list of the statements' S-expressions
\* (with a leading blank per statement) and `bare`/`semi` tell how the source spells the body.
RECURSIVE BuildS(_, _, _, _)
BuildS(d, j, xi, sh) ==
  LET p == d[j]
      x1 == XAt(xi, sh)  x2 == XAt(xi + 1, sh)  x3 == XAt(xi + 2, sh)
      dd == DAt(xi, sh)
      leaf(toks, sx, used) == [toks |-> toks, sx |-> sx, j |-> j + 1, xi |-> xi + used]
      body(b) == \* source text of a body after a header
        IF b.spell = "semi" THEN <<";">>
        ELSE IF b.spell = "bare" THEN <<NL>> \o b.toks
        ELSE IF b.toks = <<>> THEN <<"{", "}">> ELSE <<"{", NL>> \o b.toks \o <<NL, "}">>
  IN
  CASE p = "x" -> leaf(x1.toks, "(expr " \o x1.sx \o ")", 1)
    [] p = "print0" -> leaf(<<"print">>, "(print)", 0)
    [] p = "print1" -> leaf(<<"print">> \o x1.ptoks, "(print " \o x1.sx \o ")", 1)
    [] p = "print2" -> leaf(<<"print">> \o x1.ptoks \o <<",">> \o x2.ptoks, "(print " \o x1.sx \o " " \o x2.sx \o ")", 2)
    [] p = "printp2" -> leaf(<<"print", "(">> \o x1.toks \o <<",">> \o x2.toks \o <<")">>, "(print " \o x1.sx \o " " \o x2.sx \o ")", 2)
    [] p = "print>" -> leaf(<<"print">> \o x1.ptoks \o <<">">> \o dd.toks, "(print " \o x1.sx \o " > " \o dd.sx \o ")", 1)
    [] p = "print>>" -> leaf(<<"print">> \o x1.ptoks \o <<">>">> \o dd.toks, "(print " \o x1.sx \o " >> " \o dd.sx \o ")", 1)
    [] p = "print|" -> leaf(<<"print">> \o x1.ptoks \o <<"|">> \o dd.toks, "(print " \o x1.sx \o " | " \o dd.sx \o ")", 1)
    [] p = "printf1" -> leaf(<<"printf">> \o x1.ptoks, "(printf " \o x1.sx \o ")", 1)
    [] p = "printfp2>" -> leaf(<<"printf", "(", "\"%s\"", ",">> \o x1.toks \o <<")", ">">> \o dd.toks,
                               "(printf \"%s\" " \o x1.sx \o " > " \o dd.sx \o ")", 1)
    [] p = "next" -> leaf(<<"next">>, "(next)", 0)
    [] p = "nextfile" -> leaf(<<"nextfile">>, "(nextfile)", 0)
    [] p = "break" -> leaf(<<"break">>, "(break)", 0)
    [] p = "continue" -> leaf(<<"continue">>, "(continue)", 0)
    [] p = "exit0" -> leaf(<<"exit">>, "(exit _)", 0)
    [] p = "exit1" -> leaf(<<"exit">> \o x1.toks, "(exit " \o x1.sx \o ")", 1)
    [] p = "return0" -> leaf(<<"return">>, "(return _)", 0)
    [] p = "return1" -> leaf(<<"return">> \o x1.toks, "(return " \o x1.sx \o ")", 1)
    [] p = "delete0" -> leaf(<<"delete", "A">>, "(delete A)", 0)
    [] p = "delete1" -> leaf(<<"delete", "A", "[">> \o x1.toks \o <<"]">>, "(delete A " \o x1.sx \o ")", 1)
    [] p = "delete2" -> leaf(<<"delete", "A", "[">> \o x1.toks \o <<",">> \o x2.toks \o <<"]">>,
                             "(delete A " \o x1.sx \o " " \o x2.sx \o ")", 2)
    [] p = "block0" -> leaf(<<"{", "}">>, "(block)", 0)
    [] p = "block" -> LET s == BuildS(d, j + 1, xi, sh)
                      IN [toks |-> <<"{", NL>> \o s.toks \o <<NL, "}">>, sx |-> "(block " \o s.sx \o ")", j |-> s.j, xi |-> s.xi]
    [] p = "if" -> LET b == BuildS(d, j + 1, xi + 1, sh)
                   IN [toks |-> <<"if", "(">> \o x1.toks \o <<")">> \o body(b),
                       sx |-> "(if " \o x1.sx \o " (body" \o b.sx \o ") (else))", j |-> b.j, xi |-> b.xi]
    [] p = "ifelse" -> LET b0 == BuildS(d, j + 1, xi + 1, sh)
                           \* dangling else: an unbraced then-part that contains an else-less `if` would capture
                           \* the `else`; such a then-part is written with braces
                           dangling == \E q \in (j + 1)..(b0.j - 1) : d[q] = "if"
                           b == IF b0.spell = "bare" /\ dangling THEN [b0 EXCEPT !.spell = "brace"] ELSE b0
                           e == BuildS(d, b.j, b.xi, sh)
                           \* a body that is `;` or bare is separated from `else` by a newline
                       IN [toks |-> <<"if", "(">> \o x1.toks \o <<")">> \o body(b) \o <<NL, "else">> \o body(e),
                           sx |-> "(if " \o x1.sx \o " (body" \o b.sx \o ") (else" \o e.sx \o "))", j |-> e.j, xi |-> e.xi]
    [] p = "while" -> LET b == BuildS(d, j + 1, xi + 1, sh)
                      IN [toks |-> <<"while", "(">> \o x1.toks \o <<")">> \o body(b),
                          sx |-> "(while " \o x1.sx \o " (body" \o b.sx \o "))", j |-> b.j, xi |-> b.xi]
    [] p = "do" -> LET b == BuildS(d, j + 1, xi + 1, sh)
                   IN [toks |-> <<"do">> \o body(b) \o <<NL, "while", "(">> \o x1.toks \o <<")">>,
                       sx |-> "(do (body" \o b.sx \o ") " \o x1.sx \o ")", j |-> b.j, xi |-> b.xi]
    [] p = "for3" -> LET b == BuildS(d, j + 1, xi + 3, sh)
                     IN [toks |-> <<"for", "(">> \o x1.toks \o <<";">> \o x2.toks \o <<";">> \o x3.toks \o <<")">> \o body(b),
                         sx |-> "(for (expr " \o x1.sx \o ") " \o x2.sx \o " (expr " \o x3.sx \o ") (body" \o b.sx \o "))",
                         j |-> b.j, xi |-> b.xi]
    [] p = "for0" -> LET b == BuildS(d, j + 1, xi, sh)
                     IN [toks |-> <<"for", "(", ";", ";", ")">> \o body(b),
                         sx |-> "(for _ _ _ (body" \o b.sx \o "))", j |-> b.j, xi |-> b.xi]
    [] p = "forc" -> LET b == BuildS(d, j + 1, xi + 1, sh)
                     IN [toks |-> <<"for", "(", ";">> \o x1.toks \o <<";", ")">> \o body(b),
                         sx |-> "(for _ " \o x1.sx \o " _ (body" \o b.sx \o "))", j |-> b.j, xi |-> b.xi]
    [] p = "forin" -> LET b == BuildS(d, j + 1, xi, sh)
                      IN [toks |-> <<"for", "(", "k", "in", "A", ")">> \o body(b),
                          sx |-> "(forin k A (body" \o b.sx \o "))", j |-> b.j, xi |-> b.xi]
    \* bodies
    [] p = "b0" -> [toks |-> <<>>, sx |-> "", j |-> j + 1, xi |-> xi, spell |-> "brace"]
    [] p = "b0semi" -> [toks |-> <<>>, sx |-> "", j |-> j + 1, xi |-> xi, spell |-> "semi"]
    [] p \in {"b1", "b1bare"} ->
         LET s == BuildS(d, j + 1, xi, sh)
             \* a bare body that starts with a brace would be read as a braced body
         IN [toks |-> s.toks, sx |-> " " \o s.sx, j |-> s.j, xi |-> s.xi,
             spell |-> IF p = "b1" \/ d[j + 1] \in {"block", "block0"} THEN "brace" ELSE "bare"]
    [] p = "b2" -> LET s == BuildS(d, j + 1, xi, sh)
                       u == BuildS(d, s.j, s.xi, sh)
                   IN [toks |-> s.toks \o <<NL>> \o u.toks, sx |-> " " \o s.sx \o " " \o u.sx, j |-> u.j, xi |-> u.xi, spell |-> "brace"]

\* the program: the generated statements are the body of a function (every statement kind is allowed there)
BuildProg(d, sh) ==
  LET b == BuildS(d, 1, 1, sh)
  IN [toks |-> <<"function", "fn", "(", "prm", ")", "{", NL>> \o b.toks \o <<NL, "}">>,
      sx |-> "(program (function fn (params prm) (body " \o b.sx \o ")))"]

\* ---- fixed menu of program shapes: [toks, sx] ----
Shapes == <<
  [toks |-> <<"BEGIN", "{", "}">>, sx |-> "(program (begin))"],
  [toks |-> <<"END", "{", "a", "}">>, sx |-> "(program (end (expr a)))"],
  [toks |-> <<"a">>, sx |-> "(program (action (pattern a) (default)))"],
  [toks |-> <<"a", ",", "b">>, sx |-> "(program (action (pattern a b) (default)))"],
  [toks |-> <<"a", ",", "b", "{", "c", "}">>, sx |-> "(program (action (pattern a b) (body (expr c))))"],
  [toks |-> <<"{", "}">>, sx |-> "(program (action (pattern) (body)))"],
  [toks |-> <<"BEGIN", "{", "a", "}", NL, "BEGIN", "{", "b", "}">>, sx |-> "(program (begin (expr a)) (begin (expr b)))"],
  [toks |-> <<"END", "{", "a", "}", NL, "BEGIN", "{", "b", "}", NL, "c", "{", "d", "}", NL, "function", "fg", "(", ")", "{", "}">>,
   sx |-> "(program (begin (expr b)) (action (pattern c) (body (expr d))) (end (expr a)) (function fg (params) (body)))"],
  [toks |-> <<"function", "fg", "(", "p", ",", "q", ")", "{", "return", "p", "+", "q", "}", NL, "BEGIN", "{", "a", "=", "fg", "(", "1", ",", "2", ")", "}">>,
   sx |-> "(program (begin (expr (= a (ucall fg 1 2)))) (function fg (params p q) (body (return (+ p q)))))"],
  [toks |-> <<"a", ";", "b">>, sx |-> "(program (action (pattern a) (default)) (action (pattern b) (default)))"],
  [toks |-> <<"BEGIN", "{", "a", ";", "b", ";", ";", "c", "}">>, sx |-> "(program (begin (expr a) (expr b) (expr c)))"],
  [toks |-> <<"BEGIN", "{", "a", "}", ";", "END", "{", "b", "}">>, sx |-> "(program (begin (expr a)) (end (expr b)))"],
  [toks |-> <<"/r/">>, sx |-> "(program (action (pattern /r/) (default)))"],
  [toks |-> <<"!", "/r/", "{", "}">>, sx |-> "(program (action (pattern (u! /r/)) (body)))"],
  [toks |-> <<"/r/", ",", "/s/", "{", "}">>, sx |-> "(program (action (pattern /r/ /s/) (body)))"],
  [toks |-> <<"BEGIN", "{", "getline", ";", "getline", "a", ";", "getline", "<", "\"f\"", ";", "getline", "a", "<", "\"f\"", ";",
              "\"c\"", "|", "getline", ";", "\"c\"", "|", "getline", "a", ";", "getline", "$", "1", ";", "getline", "A", "[", "1", "]", "}">>,
   sx |-> "(program (begin (expr (get _)) (expr (get a)) (expr (fget _ \"f\")) (expr (fget a \"f\")) (expr (pget \"c\" _)) (expr (pget \"c\" a)) (expr (get ($ 1))) (expr (get ([] A 1)))))"],
  [toks |-> <<"BEGIN", "{", "if", "(", "a", ")", "b", ";", "else", "c", "}">>,
   sx |-> "(program (begin (if a (body (expr b)) (else (expr c)))))"],
  [toks |-> <<"BEGIN", "{", "while", "(", "a", ")", "{", "if", "(", "b", ")", "break", ";", "else", "continue", "}", "}">>,
   sx |-> "(program (begin (while a (body (if b (body (break)) (else (continue)))))))"],
  [toks |-> <<"$", "1", "==", "1", "{", "print", "}", NL, "END", "{", "print", "a", ",", "b", ">", "\"o\"", "}">>,
   sx |-> "(program (action (pattern (== ($ 1) 1)) (body (print))) (end (print a b > \"o\")))"],
  [toks |-> <<"BEGIN", "{", "for", "(", "a", "=", "0", ";", "a", "<", "3", ";", "a", "++", ")", "print", "a", "}">>,
   sx |-> "(program (begin (for (expr (= a 0)) (< a 3) (expr (post++ a)) (body (print a)))))"],
  [toks |-> <<"BEGIN", "{", "print", "(", "a", ")", "(", "b", ")", ">", "\"o\"", "}">>,
   sx |-> "(program (begin (print (cat a b) > \"o\")))"],
  [toks |-> <<"BEGIN", "{", "print", "(", "a", ",", "b", ")", ">", "\"o\"", "}">>,
   sx |-> "(program (begin (print a b > \"o\")))"],
  [toks |-> <<"BEGIN", "{", "print", "a", ",", "(", "b", ">", "c", ")", "}">>,
   sx |-> "(program (begin (print a (> b c))))"],
  [toks |-> <<"BEGIN", "{", "print", ">", "\"o\"", "}">>, sx |-> "(program (begin (print > \"o\")))"],
  [toks |-> <<"BEGIN", "{", "printf", "(", "\"%s\"", ",", "a", "?", "b", ":", "c", ")", ">", "\"o\"", "}">>,
   sx |-> "(program (begin (printf \"%s\" (?: a b c) > \"o\")))"],
  [toks |-> <<"BEGIN", "{", "print", "(", "a", ",", "b", "?", "c", ":", "d", ")", "|", "\"cmd\"", "}">>,
   sx |-> "(program (begin (print a (?: b c d) | \"cmd\")))"],
  [toks |-> <<"BEGIN", "{", "print", "(", "a", ">", "b", ",", "c", ")", "}">>, sx |-> "(program (begin (print (> a b) c)))"],
  [toks |-> <<"BEGIN", "{", "print", "(", "a", ",", "b", ">", "c", ")", "}">>, sx |-> "(program (begin (print a (> b c))))"],
  [toks |-> <<"BEGIN", "{", "a", "=", "length", NL, "b", "=", "length", "(", ")", NL, "c", "=", "length", "(", "a", ")", "}">>,
   sx |-> "(program (begin (expr (= a (call length))) (expr (= b (call length))) (expr (= c (call length a)))))"]
>>
=============================================================================
