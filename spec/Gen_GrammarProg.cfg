SPECIFICATION Spec
CONSTANTS
  MaxS = 2
  Shifts = {0, 7, 13, 22}
  Pairs = FALSE
  ReLen = 2
CHECK_DEADLOCK FALSE
