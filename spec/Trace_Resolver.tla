--------------------------- MODULE Trace_Resolver ---------------------------
(* Validates resolutions recorded from the real parser against Resolver.tla. *)
(* Event:                                                                     *)
(*   {"ev":"step","op":"resolve","prog":P,"gorder":[global ids by name],      *)
(*    "verdict":"accept"|"reject"|"panic",                                    *)
(*    "types":[{"f","i","t","x"}...]   type and index of every node (from     *)
(*                                     ParserConfig.DebugTypes; globals: rank *)
(*                                     among the program's globals of a type) *)
(*    "run":"ok"|"error"|"panic"|"none","out":[{"f","i","k","n"}...]}         *)
(* P is a program of Resolver.tla; every variable reference carries its form *)
(* "fm" ("v" bare, "p" (x), "e" x "", "x" x[length(x)]), also as argument of  *)
(* length(); WellFormed (InDomain) checks the shape.                          *)
(* Each event is a complete resolution (the resolver keeps no state between   *)
(* parses), so every event is preceded by a reset.                            *)
EXTENDS Resolver, TraceBase

VARIABLES l
vars == <<l>>
Init == l = 1

Expected(ev) ==
  LET p  == ev.prog
      ty == DeclTypes(p)
      ix == IndexesOf(p, ty, ev.gorder)
      v  == DeclVerdict(p)
  IN [verdict |-> v,
      types |-> IF v = "accept" THEN [k \in 1..Len(ev.types) |->
                     [f |-> ev.types[k].f, i |-> ev.types[k].i, t |-> ty[<<ev.types[k].f, ev.types[k].i>>],
                      x |-> ix[<<ev.types[k].f, ev.types[k].i>>]]] ELSE <<>>,
      run |-> IF v = "accept" THEN "ok" ELSE "none",
      out |-> IF v = "accept" THEN ExecOut(p, ty) ELSE <<>>]

InDomain(ev) ==
  /\ WellFormed(ev.prog)
  /\ {ev.gorder[k] : k \in 1..Len(ev.gorder)} = GlobalIds(ev.prog)
  /\ ev.verdict = "accept" =>
       /\ Len(ev.types) = Cardinality(Nodes(ev.prog))
       /\ {<<ev.types[k].f, ev.types[k].i>> : k \in 1..Len(ev.types)} = Nodes(ev.prog)

\* the inference as built, on the first of the orders it may take, also gives the recorded verdict
AlgoVerdict(ev) ==
  RunWithOrder(ev.prog, CHOOSE o \in PossibleOrders(ev.prog, "sorted") : TRUE, ev.gorder).verdict

Explains(ev) ==
  LET ex == Expected(ev)
  IN /\ ev.verdict = ex.verdict
     /\ AlgoVerdict(ev) = ev.verdict
     /\ ev.run = ex.run
     /\ ev.verdict = "accept" => (\A k \in 1..Len(ev.types) : ev.types[k] = ex.types[k]) /\ ev.out = ex.out

TStep ==
  /\ l <= NLog /\ Log[l].ev = "step"
  /\ LET ev == Log[l]
     IN /\ Assert(InDomain(ev), <<"recorded program outside the specified domain", l>>)
        /\ IF Explains(ev)
           THEN l' = l + 1
           ELSE /\ Reject(l, [op |-> "resolve", expected |-> Expected(ev), algo |-> AlgoVerdict(ev)])
                /\ l' = AfterNextReset(l)
TReset == l <= NLog /\ Log[l].ev = "reset" /\ l' = l + 1
TDone == l = NLog + 1 /\ PrintT("TRACE-END") /\ l' = l + 1
Next == TStep \/ TReset \/ TDone
Spec == Init /\ [][Next]_vars
=============================================================================
