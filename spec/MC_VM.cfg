SPECIFICATION Spec
CONSTANTS
  MaxField = 1000000
  MaxNum = 30000
  Fuel = 200
CHECK_DEADLOCK FALSE
