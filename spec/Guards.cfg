SPECIFICATION Spec
INVARIANT ClassOK
CHECK_DEADLOCK FALSE
