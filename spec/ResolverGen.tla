---------------------------- MODULE ResolverGen ----------------------------
(***************************************************************************)
(* Program universes for Resolver.tla, built slot by slot so that TLC's    *)
(* breadth-first search enumerates a universe exhaustively and -simulate   *)
(* samples it.  Two families:                                              *)
(*                                                                         *)
(*  "usage"  Len(NPs) functions, function f with NPs[f] parameters.  Per   *)
(*           parameter one direct use {none, scalar, array, length}; per   *)
(*           function at most one call (to itself: recursion, or to any    *)
(*           other function) whose arguments are any tuple over {constant, *)
(*           own parameters}, possibly fewer than the callee's parameters; *)
(*           a main body over NG globals, each with a direct use {none,    *)
(*           scalar, array} and up to MaxMainCalls calls whose arguments   *)
(*           are tuples over {constant, globals}; optionally every body    *)
(*           reversed (call before uses).  The main body ends with         *)
(*           length(g) of every global (prints the final values).          *)
(*  "multi"  NFm one-parameter functions, each {scalar use, array use,     *)
(*           array then scalar use (a type error), scalar then array use   *)
(*           (a type error)}, each either called from main with a fresh    *)
(*           global, called by its predecessor, or not called at all:      *)
(*           programs with several INDEPENDENT type errors, for C19a.      *)
(*  "frames" one function of NPf parameters, each with one direct use      *)
(*           {none, scalar, array (, length)}; a recursive call with FEWER *)
(*           arguments than parameters (0..NPf-1 arguments over {own       *)
(*           parameters (, constant)}) or none, then length(p) of every    *)
(*           parameter (what the callee did to an array argument is seen,  *)
(*           what it did to a scalar is not); the main body makes a scalar *)
(*           global g1 (value 1) and an array global g2 (one element) and  *)
(*           calls the function TWICE with the same 0..NPf arguments over  *)
(*           {g1, g2 (, constant)}: the omitted parameters are any mix of  *)
(*           scalars and local arrays, and every call -- the second one    *)
(*           and the recursive ones included -- must find them empty.      *)
(*  "forms"  the FORM of an argument (Resolver.tla: bare variable, (x),     *)
(*           x "", x[length(x)], constant) at every kind of place: function *)
(*           1 has one parameter with one direct use {none, scalar, array,  *)
(*           length(p), length of each expression form over p} and passes   *)
(*           p on to function 2 in any form (or a constant, or makes no     *)
(*           call); function 2 has one parameter used {not, as scalar, as   *)
(*           array}; the main body uses a global {not, as scalar, as        *)
(*           array}, passes it to function 1 in any form (or a constant, or *)
(*           makes no call) and takes length() of any form of it (or of a   *)
(*           constant, or not at all), then prints length(g).  So every     *)
(*           form meets a parameter that is a scalar, an array, unused, or  *)
(*           only passed on (as a variable or inside an expression), and    *)
(*           length().  FxWide: function 1 may also call itself, the main   *)
(*           body may also call function 2.                                 *)
(*  Forms    switches the forms on in family "usage" as well (arguments of  *)
(*           every call, length() as a direct use): {} in the exhaustive    *)
(*           universes, {"p", "e", "x"} in sampled ones.                    *)
(*  "collect" sources with up to MaxSites independent errors on a grid of  *)
(*           CLines lines x 3 places per line (C19a): see CollectSites.    *)
(***************************************************************************)
EXTENDS Resolver

CONSTANTS NP1, NP2, NP3,  \* parameters of functions 1..3 (9: the function does not exist)
          NG,             \* number of globals of the main body
          MaxMainCalls,
          AllowRev,       \* BOOLEAN: also generate every body reversed
          MinArgs,        \* 0 or 1: smallest number of arguments of a generated call
          NFm,            \* number of functions of the "multi" family
          NPf,            \* parameters of the function of the "frames" family
          FrLen,          \* BOOLEAN: "frames" also uses length(p) as a direct use and constants as arguments
          Forms,          \* "usage": the argument forms besides the bare variable, a subset of {"p", "e", "x"}
          FxWide,         \* BOOLEAN: "forms" with recursion in function 1 and calls of function 2 from the main body
          CLines,         \* "collect": number of source lines holding error sites
          MaxSites,       \* "collect": largest number of error sites in one source
          CKinds          \* "collect": the kinds of sites, a subset of {"comma", "type", "undef", "args"}

Lvar(i) == [sc |-> "L", i |-> i, fm |-> "v"]
Gvar(i) == [sc |-> "G", i |-> i, fm |-> "v"]
Cst     == [sc |-> "C", i |-> 0, fm |-> "v"]
InForm(v, fm) == [v EXCEPT !.fm = fm]
\* a variable as an argument: itself and in each of the expression forms fms
AsArgs(v, fms) == {InForm(v, fm) : fm \in {"v"} \cup fms}
AllForms == {"p", "e", "x"}
\* direct uses that are length() of an expression form / of a constant
LenChoice(fm) == CASE fm = "p" -> "lenp" [] fm = "e" -> "lene" [] fm = "x" -> "lenx"
LenChoices(fms) == {LenChoice(fm) : fm \in fms}
NPs     == IF NP2 = 9 THEN <<NP1>> ELSE IF NP3 = 9 THEN <<NP1, NP2>> ELSE <<NP1, NP2, NP3>>
NFn     == Len(NPs)

RECURSIVE Tuples(_, _)
Tuples(A, n) == IF n = 0 THEN {<<>>} ELSE {Append(t, a) : t \in Tuples(A, n - 1), a \in A}
ArgTuples(A, lo, hi) == UNION {Tuples(A, n) : n \in lo..hi}

NoCall == [k |-> "nocall"]
FuncCallOpts(f) ==
  {NoCall} \cup UNION {{[k |-> "call", f |-> g, args |-> t]
                        : t \in ArgTuples({Cst} \cup UNION {AsArgs(Lvar(i), Forms) : i \in 1..NPs[f]}, MinArgs, NPs[g])}
                       : g \in 1..NFn}
MainCallOpts ==
  {NoCall} \cup UNION {{[k |-> "call", f |-> g, args |-> t]
                        : t \in ArgTuples({Cst} \cup UNION {AsArgs(Gvar(i), Forms) : i \in 1..NG}, 1, NPs[g])}
                       : g \in 1..NFn}

\* ---- slots of the "usage" family ----
RECURSIVE ParamSlots(_, _)
ParamSlots(f, i) == IF i > NPs[f] THEN <<>> ELSE <<[s |-> "dir", f |-> f, i |-> i]>> \o ParamSlots(f, i + 1)
RECURSIVE FuncSlots(_)
FuncSlots(f) == IF f > NFn THEN <<>> ELSE ParamSlots(f, 1) \o <<[s |-> "fcall", f |-> f, i |-> 0]>> \o FuncSlots(f + 1)
UsageSlots ==
  FuncSlots(1)
  \o [g \in 1..NG |-> [s |-> "gdir", f |-> 0, i |-> g]]
  \o [c \in 1..MaxMainCalls |-> [s |-> "mcall", f |-> 0, i |-> c]]
  \o <<[s |-> "rev", f |-> 0, i |-> 0]>>

SlotOpts(slot, chosen) ==
  CASE slot.s = "dir"   -> {"none", "s", "a", "len"} \cup LenChoices(Forms)
    [] slot.s = "fcall" -> FuncCallOpts(slot.f)
    [] slot.s = "gdir"  -> {"none", "s", "a"} \cup LenChoices(Forms)
    [] slot.s = "mcall" -> IF slot.i > 1 /\ chosen[Len(chosen)] = NoCall THEN {NoCall} ELSE MainCallOpts
    [] slot.s = "rev"   -> IF AllowRev THEN {FALSE, TRUE} ELSE {FALSE}

\* ---- assembling a program from the choices ----
UseStmt(c, v) ==
  CASE c = "none" -> <<>>
    [] c = "lenp" -> <<[k |-> "len", v |-> InForm(v, "p")]>>
    [] c = "lene" -> <<[k |-> "len", v |-> InForm(v, "e")]>>
    [] c = "lenx" -> <<[k |-> "len", v |-> InForm(v, "x")]>>
    [] c = "lenc" -> <<[k |-> "len", v |-> Cst]>>
    [] OTHER      -> <<[k |-> c, v |-> v]>>
CallStmt(c)   == IF c = NoCall THEN <<>> ELSE <<[k |-> "call", f |-> c.f, args |-> c.args]>>
Rev(seq)      == [k \in 1..Len(seq) |-> seq[Len(seq) + 1 - k]]

SlotIndex(slots, s, f, i) == CHOOSE k \in 1..Len(slots) : slots[k].s = s /\ slots[k].f = f /\ slots[k].i = i
RECURSIVE ConcatSeqs(_)
ConcatSeqs(ss) == IF ss = <<>> THEN <<>> ELSE Head(ss) \o ConcatSeqs(Tail(ss))

UsageProgram(ch) ==
  LET sl == UsageSlots
      at(s, f, i) == ch[SlotIndex(sl, s, f, i)]
      rv == at("rev", 0, 0)
      ord(seq) == IF rv THEN Rev(seq) ELSE seq
      fbody(f) == ord(ConcatSeqs([i \in 1..NPs[f] |-> UseStmt(at("dir", f, i), Lvar(i))]) \o CallStmt(at("fcall", f, 0)))
      mbody == ord(ConcatSeqs([g \in 1..NG |-> UseStmt(at("gdir", 0, g), Gvar(g))])
                   \o ConcatSeqs([c \in 1..MaxMainCalls |-> CallStmt(at("mcall", 0, c))]))
               \o [g \in 1..NG |-> [k |-> "len", v |-> Gvar(g)]]
  IN [funcs |-> [f \in 1..NFn |-> [np |-> NPs[f], body |-> fbody(f)]], main |-> mbody]

\* ---- the "multi" family ----
MultiSlots == [f \in 1..NFm |-> [s |-> "m", f |-> f, i |-> 0]]
MultiBodyOpts == {"s", "a", "as", "sa"}
MultiLinkOpts == {"main", "pred", "uncalled"}
MultiOpts(slot) == {[b |-> b1, l |-> l1] : b1 \in MultiBodyOpts,
                                           l1 \in IF slot.f = 1 THEN MultiLinkOpts \ {"pred"} ELSE MultiLinkOpts}
MultiUses(b) ==
  CASE b = "s"  -> <<[k |-> "s", v |-> Lvar(1)]>>
    [] b = "a"  -> <<[k |-> "a", v |-> Lvar(1)]>>
    [] b = "as" -> <<[k |-> "a", v |-> Lvar(1)], [k |-> "s", v |-> Lvar(1)]>>
    [] b = "sa" -> <<[k |-> "s", v |-> Lvar(1)], [k |-> "a", v |-> Lvar(1)]>>
\* f calls its successor when the successor's link is "pred" (passing its own parameter on
\* would couple the errors; it passes nothing: only the call graph changes)
MultiProgram(ch) ==
  LET fbody(f) == MultiUses(ch[f].b)
                  \o (IF f < NFm /\ ch[f + 1].l = "pred" THEN <<[k |-> "call", f |-> f + 1, args |-> <<>>]>> ELSE <<>>)
      mcalls == ConcatSeqs([f \in 1..NFm |-> IF ch[f].l = "main"
                                             THEN <<[k |-> "call", f |-> f, args |-> <<>>]>> ELSE <<>>])
  IN [funcs |-> [f \in 1..NFm |-> [np |-> 1, body |-> fbody(f)]], main |-> mcalls]

\* ---- the "frames" family ----
FramesSlots == [i \in 1..NPf |-> [s |-> "fdir", f |-> 1, i |-> i]]
               \o <<[s |-> "frec", f |-> 1, i |-> 0], [s |-> "fmain", f |-> 0, i |-> 0]>>
FramesOpts(slot) ==
  CASE slot.s = "fdir"  -> {"none", "s", "a"} \cup (IF FrLen THEN {"len"} ELSE {})
    [] slot.s = "frec"  -> {NoCall} \cup {[k |-> "call", f |-> 1, args |-> t]
                                          : t \in ArgTuples((IF FrLen THEN {Cst} ELSE {}) \cup {Lvar(i) : i \in 1..NPf}, 0, NPf - 1)}
    [] slot.s = "fmain" -> {[k |-> "call", f |-> 1, args |-> t]
                            : t \in ArgTuples({Gvar(1), Gvar(2)} \cup (IF FrLen THEN {Cst} ELSE {}), 0, NPf)}
FramesProgram(ch) ==
  LET uses == ConcatSeqs([i \in 1..NPf |-> UseStmt(ch[i], Lvar(i))])
      rec  == ch[NPf + 1]
      lens == IF rec = NoCall THEN <<>> ELSE [i \in 1..NPf |-> [k |-> "len", v |-> Lvar(i)]]
      mc   == CallStmt(ch[NPf + 2])
  IN [funcs |-> <<[np |-> NPf, body |-> uses \o CallStmt(rec) \o lens]>>,
      main  |-> <<[k |-> "s", v |-> Gvar(1)], [k |-> "a", v |-> Gvar(2)]>> \o mc \o mc
                \o <<[k |-> "len", v |-> Gvar(1)], [k |-> "len", v |-> Gvar(2)]>>]

\* ---- the "forms" family ----
FormsSlots == <<[s |-> "xdir", f |-> 1, i |-> 1], [s |-> "xfcall", f |-> 1, i |-> 0], [s |-> "xdir", f |-> 2, i |-> 1],
                [s |-> "xgdir", f |-> 0, i |-> 1], [s |-> "xmcall", f |-> 0, i |-> 0], [s |-> "xmlen", f |-> 0, i |-> 1],
                [s |-> "rev", f |-> 0, i |-> 0]>>
OneArgCalls(gs, atoms) == {[k |-> "call", f |-> g, args |-> <<a>>] : g \in gs, a \in atoms}
FormsOpts(slot) ==
  CASE slot.s = "xdir"   -> IF slot.f = 1 THEN {"none", "s", "a", "len"} \cup LenChoices(AllForms) ELSE {"none", "s", "a"}
    [] slot.s = "xfcall" -> {NoCall} \cup OneArgCalls(IF FxWide THEN {1, 2} ELSE {2}, {Cst} \cup AsArgs(Lvar(1), AllForms))
    [] slot.s = "xgdir"  -> {"none", "s", "a"}
    [] slot.s = "xmcall" -> {NoCall} \cup OneArgCalls(IF FxWide THEN {1, 2} ELSE {1}, {Cst} \cup AsArgs(Gvar(1), AllForms))
    [] slot.s = "xmlen"  -> {"none", "len", "lenc"} \cup LenChoices(AllForms)
    [] slot.s = "rev"    -> IF AllowRev THEN {FALSE, TRUE} ELSE {FALSE}
FormsProgram(ch) ==
  LET ord(seq) == IF ch[7] THEN Rev(seq) ELSE seq
  IN [funcs |-> <<[np |-> 1, body |-> ord(UseStmt(ch[1], Lvar(1)) \o CallStmt(ch[2]))],
                  [np |-> 1, body |-> UseStmt(ch[3], Lvar(1))]>>,
      main  |-> ord(UseStmt(ch[4], Gvar(1)) \o CallStmt(ch[5]) \o UseStmt(ch[6], Gvar(1)))
                \o <<[k |-> "len", v |-> Gvar(1)]>>]

\* ---- the "collect" family (Resolver.tla, section 4) ----
\* CLines lines of three places each; a place holds an error site of some kind or a harmless statement; at most
\* MaxSites sites: every way in which line order and column order of two or three sites can agree or disagree
CollectSlots == [k \in 1..(CLines * 3) |-> [s |-> "site", f |-> ((k - 1) \div 3) + 1, i |-> ((k - 1) % 3) + 1]]
NumChosen(chosen) == Cardinality({k \in 1..Len(chosen) : chosen[k] # "none"})
CollectOpts(slot, chosen) == {"none"} \cup (IF NumChosen(chosen) < MaxSites THEN CKinds ELSE {})
CollectSites(ch) ==
  SelectSeq([k \in 1..Len(ch) |-> [l |-> CollectSlots[k].f, c |-> CollectSlots[k].i, k |-> ch[k]]], LAMBDA st : st.k # "none")
=============================================================================
