---------------------------- MODULE ResolverGen ----------------------------
(***************************************************************************)
(* Program universes for Resolver.tla, built slot by slot so that TLC's    *)
(* breadth-first search enumerates a universe exhaustively and -simulate   *)
(* samples it.  Two families:                                              *)
(*                                                                         *)
(*  "usage"  Len(NPs) functions, function f with NPs[f] parameters.  Per   *)
(*           parameter one direct use {none, scalar, array, length}; per   *)
(*           function at most one call (to itself: recursion, or to any    *)
(*           other function) whose arguments are any tuple over {constant, *)
(*           own parameters}, possibly fewer than the callee's parameters; *)
(*           a main body over NG globals, each with a direct use {none,    *)
(*           scalar, array} and up to MaxMainCalls calls whose arguments   *)
(*           are tuples over {constant, globals}; optionally every body    *)
(*           reversed (call before uses).  The main body ends with         *)
(*           length(g) of every global (prints the final values).          *)
(*  "multi"  NFm one-parameter functions, each {scalar use, array use,     *)
(*           array then scalar use (a type error), scalar then array use   *)
(*           (a type error)}, each either called from main with a fresh    *)
(*           global, called by its predecessor, or not called at all:      *)
(*           programs with several INDEPENDENT type errors, for C19a.      *)
(***************************************************************************)
EXTENDS Resolver

CONSTANTS NP1, NP2, NP3,  \* parameters of functions 1..3 (9: the function does not exist)
          NG,             \* number of globals of the main body
          MaxMainCalls,
          AllowRev,       \* BOOLEAN: also generate every body reversed
          MinArgs,        \* 0 or 1: smallest number of arguments of a generated call
          NFm             \* number of functions of the "multi" family

Lvar(i) == [sc |-> "L", i |-> i]
Gvar(i) == [sc |-> "G", i |-> i]
Cst     == [sc |-> "C", i |-> 0]
NPs     == IF NP2 = 9 THEN <<NP1>> ELSE IF NP3 = 9 THEN <<NP1, NP2>> ELSE <<NP1, NP2, NP3>>
NFn     == Len(NPs)

RECURSIVE Tuples(_, _)
Tuples(A, n) == IF n = 0 THEN {<<>>} ELSE {Append(t, a) : t \in Tuples(A, n - 1), a \in A}
ArgTuples(A, lo, hi) == UNION {Tuples(A, n) : n \in lo..hi}

NoCall == [k |-> "nocall"]
FuncCallOpts(f) ==
  {NoCall} \cup UNION {{[k |-> "call", f |-> g, args |-> t]
                        : t \in ArgTuples({Cst} \cup {Lvar(i) : i \in 1..NPs[f]}, MinArgs, NPs[g])}
                       : g \in 1..NFn}
MainCallOpts ==
  {NoCall} \cup UNION {{[k |-> "call", f |-> g, args |-> t]
                        : t \in ArgTuples({Cst} \cup {Gvar(i) : i \in 1..NG}, 1, NPs[g])}
                       : g \in 1..NFn}

\* ---- slots of the "usage" family ----
RECURSIVE ParamSlots(_, _)
ParamSlots(f, i) == IF i > NPs[f] THEN <<>> ELSE <<[s |-> "dir", f |-> f, i |-> i]>> \o ParamSlots(f, i + 1)
RECURSIVE FuncSlots(_)
FuncSlots(f) == IF f > NFn THEN <<>> ELSE ParamSlots(f, 1) \o <<[s |-> "fcall", f |-> f, i |-> 0]>> \o FuncSlots(f + 1)
UsageSlots ==
  FuncSlots(1)
  \o [g \in 1..NG |-> [s |-> "gdir", f |-> 0, i |-> g]]
  \o [c \in 1..MaxMainCalls |-> [s |-> "mcall", f |-> 0, i |-> c]]
  \o <<[s |-> "rev", f |-> 0, i |-> 0]>>

SlotOpts(slot, chosen) ==
  CASE slot.s = "dir"   -> {"none", "s", "a", "len"}
    [] slot.s = "fcall" -> FuncCallOpts(slot.f)
    [] slot.s = "gdir"  -> {"none", "s", "a"}
    [] slot.s = "mcall" -> IF slot.i > 1 /\ chosen[Len(chosen)] = NoCall THEN {NoCall} ELSE MainCallOpts
    [] slot.s = "rev"   -> IF AllowRev THEN {FALSE, TRUE} ELSE {FALSE}

\* ---- assembling a program from the choices ----
UseStmt(c, v) == IF c = "none" THEN <<>> ELSE <<[k |-> c, v |-> v]>>
CallStmt(c)   == IF c = NoCall THEN <<>> ELSE <<[k |-> "call", f |-> c.f, args |-> c.args]>>
Rev(seq)      == [k \in 1..Len(seq) |-> seq[Len(seq) + 1 - k]]

SlotIndex(slots, s, f, i) == CHOOSE k \in 1..Len(slots) : slots[k].s = s /\ slots[k].f = f /\ slots[k].i = i
RECURSIVE ConcatSeqs(_)
ConcatSeqs(ss) == IF ss = <<>> THEN <<>> ELSE Head(ss) \o ConcatSeqs(Tail(ss))

UsageProgram(ch) ==
  LET sl == UsageSlots
      at(s, f, i) == ch[SlotIndex(sl, s, f, i)]
      rv == at("rev", 0, 0)
      ord(seq) == IF rv THEN Rev(seq) ELSE seq
      fbody(f) == ord(ConcatSeqs([i \in 1..NPs[f] |-> UseStmt(at("dir", f, i), Lvar(i))]) \o CallStmt(at("fcall", f, 0)))
      mbody == ord(ConcatSeqs([g \in 1..NG |-> UseStmt(at("gdir", 0, g), Gvar(g))])
                   \o ConcatSeqs([c \in 1..MaxMainCalls |-> CallStmt(at("mcall", 0, c))]))
               \o [g \in 1..NG |-> [k |-> "len", v |-> Gvar(g)]]
  IN [funcs |-> [f \in 1..NFn |-> [np |-> NPs[f], body |-> fbody(f)]], main |-> mbody]

\* ---- the "multi" family ----
MultiSlots == [f \in 1..NFm |-> [s |-> "m", f |-> f, i |-> 0]]
MultiBodyOpts == {"s", "a", "as", "sa"}
MultiLinkOpts == {"main", "pred", "uncalled"}
MultiOpts(slot) == {[b |-> b1, l |-> l1] : b1 \in MultiBodyOpts,
                                           l1 \in IF slot.f = 1 THEN MultiLinkOpts \ {"pred"} ELSE MultiLinkOpts}
MultiUses(b) ==
  CASE b = "s"  -> <<[k |-> "s", v |-> Lvar(1)]>>
    [] b = "a"  -> <<[k |-> "a", v |-> Lvar(1)]>>
    [] b = "as" -> <<[k |-> "a", v |-> Lvar(1)], [k |-> "s", v |-> Lvar(1)]>>
    [] b = "sa" -> <<[k |-> "s", v |-> Lvar(1)], [k |-> "a", v |-> Lvar(1)]>>
\* f calls its successor when the successor's link is "pred" (passing its own parameter on
\* would couple the errors; it passes nothing: only the call graph changes)
MultiProgram(ch) ==
  LET fbody(f) == MultiUses(ch[f].b)
                  \o (IF f < NFm /\ ch[f + 1].l = "pred" THEN <<[k |-> "call", f |-> f + 1, args |-> <<>>]>> ELSE <<>>)
      mcalls == ConcatSeqs([f \in 1..NFm |-> IF ch[f].l = "main"
                                             THEN <<[k |-> "call", f |-> f, args |-> <<>>]>> ELSE <<>>])
  IN [funcs |-> [f \in 1..NFm |-> [np |-> 1, body |-> fbody(f)]], main |-> mcalls]
=============================================================================
