------------------------------- MODULE Record -------------------------------
(***************************************************************************)
(* The current record of an AWK program: $0, the fields $1..$NF and NF.    *)
(*                                                                         *)
(* Two machines are specified.                                             *)
(*  - The *abstract* record (what the AWK language defines): a record      *)
(*    value `rec` = [line, fields, fs, ofs, omode, err].  Every operation  *)
(*    is a pure transformer RecXxx(rec, ...); the actions of the state     *)
(*    machine are thin wrappers around them.  This is the oracle the real  *)
(*    interpreter is compared with.                                        *)
(*  - The *lazy* record (how interp/interp.go and interp/io.go implement   *)
(*    it): the line is split only on first access, with the FS saved when  *)
(*    the line was set, and NF is stored separately.  TLC checks that the  *)
(*    lazy machine refines the abstract one (MC_Record), which is what     *)
(*    makes laziness invisible -- and what a change to the code can break. *)
(***************************************************************************)
EXTENDS Regex, Csv

CONSTANT MaxField          \* largest legal field index / NF (1000000 in the code)

\* ------------------------------------------------------------------------
\* Field separators:  [k |-> "space"], [k |-> "char", c |-> byte],
\*                    [k |-> "re", r |-> regex]
FsSpace     == [k |-> "space"]
FsChar(ch)  == [k |-> "char", c |-> ch]
FsRe(r)     == [k |-> "re", r |-> r]
FsText(fsv) == CASE fsv.k = "space" -> <<SP>>
                 [] fsv.k = "char"  -> <<fsv.c>>
                 [] fsv.k = "re"    -> Render(fsv.r)

\* The FS rules of the property.
SplitFS(str, fsv) ==
  CASE fsv.k = "space" -> SplitBlanks(str)
    [] fsv.k = "char"  -> IF str = <<>> THEN <<>> ELSE SplitLit(str, <<fsv.c>>)
    [] fsv.k = "re"    -> IF str = <<>> THEN <<>> ELSE SplitRe(fsv.r, str)

JoinOut(flds, ofs, omode) ==
  IF omode = "csv" THEN CsvEncode(flds, <<COMMA>>)
  ELSE IF omode = "tsv" THEN CsvEncode(flds, <<TAB>>)
  ELSE Join(flds, ofs)

\* ------------------------------------------------------------------------
\* Abstract record
RecInit == [line |-> <<>>, fields |-> <<>>, fs |-> FsSpace, ofs |-> <<SP>>,
            omode |-> "default", err |-> FALSE]

RecNF(rc) == Len(rc.fields)

\* read a new record from input, or assign $0
RecSet0(rc, str) == [rc EXCEPT !.line = str, !.fields = SplitFS(str, rc.fs)]

Extend(flds, m) == [j \in 1..m |-> IF j <= Len(flds) THEN flds[j] ELSE <<>>]

\* value of $k (k may be 0, negative or beyond NF)
RecGet(rc, k) ==
  IF k = 0 THEN rc.line
  ELSE LET j == IF k < 0 THEN RecNF(rc) + 1 + k ELSE k
       IN IF j >= 1 /\ j <= RecNF(rc) THEN rc.fields[j] ELSE <<>>

\* $k = v
RecSetField(rc, k, v) ==
  IF k = 0 THEN RecSet0(rc, v)
  ELSE IF k > MaxField THEN [rc EXCEPT !.err = TRUE]
  ELSE LET j == IF k < 0 THEN RecNF(rc) + 1 + k ELSE k
       IN IF j < 1 THEN rc          \* a negative index before $1: nothing to assign
          ELSE LET fl == [Extend(rc.fields, IF j > RecNF(rc) THEN j ELSE RecNF(rc)) EXCEPT ![j] = v]
               IN [rc EXCEPT !.fields = fl, !.line = JoinOut(fl, rc.ofs, rc.omode)]

\* NF = m   (m already truncated to an integer)
RecSetNF(rc, m) ==
  IF m < 0 \/ m > MaxField THEN [rc EXCEPT !.err = TRUE]
  ELSE LET fl == Extend(rc.fields, m)
       IN [rc EXCEPT !.fields = fl, !.line = JoinOut(fl, rc.ofs, rc.omode)]

RecSetFS(rc, fsv)    == [rc EXCEPT !.fs = fsv]
RecSetOFS(rc, str)   == [rc EXCEPT !.ofs = str]
RecSetOMode(rc, md)  == [rc EXCEPT !.omode = md]

\* what a program can observe of the record
RecObs(rc) == [nf |-> RecNF(rc), line |-> rc.line, fields |-> rc.fields]

\* ------------------------------------------------------------------------
\* Lazy record (the implementation's representation)
\*   line, fields, have (fields valid?), saved (FS captured when the line was
\*   set), nf (stored NF; meaningful only when have), fs, ofs, omode, err
LazyInit == [line |-> <<>>, fields |-> <<>>, have |-> TRUE, saved |-> FsSpace, nf |-> 0,
             fs |-> FsSpace, ofs |-> <<SP>>, omode |-> "default", err |-> FALSE]

LazyEnsure(lz) ==
  IF lz.have THEN lz
  ELSE LET fl == SplitFS(lz.line, lz.saved)
       IN [lz EXCEPT !.have = TRUE, !.fields = fl, !.nf = Len(fl)]

LazySet0(lz, str) == [lz EXCEPT !.line = str, !.have = FALSE, !.saved = lz.fs]

LazyGet(lz, k) ==           \* returns <<new state, value>>
  IF k = 0 THEN <<lz, lz.line>>
  ELSE LET l2 == LazyEnsure(lz)
           j  == IF k < 0 THEN Len(l2.fields) + 1 + k ELSE k
       IN <<l2, IF j >= 1 /\ j <= Len(l2.fields) THEN l2.fields[j] ELSE <<>> >>

LazyGetNF(lz) == LET l2 == LazyEnsure(lz) IN <<l2, l2.nf>>

LazySetField(lz, k, v) ==
  IF k = 0 THEN LazySet0(lz, v)
  ELSE IF k > MaxField THEN [lz EXCEPT !.err = TRUE]
  ELSE LET l2 == LazyEnsure(lz)
           j  == IF k < 0 THEN Len(l2.fields) + 1 + k ELSE k
       IN IF j < 1 THEN l2
          ELSE LET fl == [Extend(l2.fields, IF j > Len(l2.fields) THEN j ELSE Len(l2.fields)) EXCEPT ![j] = v]
               IN [l2 EXCEPT !.fields = fl, !.nf = Len(fl), !.line = JoinOut(fl, l2.ofs, l2.omode)]

LazySetNF(lz, m) ==
  IF m < 0 \/ m > MaxField THEN [lz EXCEPT !.err = TRUE]
  ELSE LET l2 == LazyEnsure(lz)
           fl == Extend(l2.fields, m)
       IN [l2 EXCEPT !.fields = fl, !.nf = m, !.line = JoinOut(fl, l2.ofs, l2.omode)]

\* abstraction function: the abstract record a lazy record stands for
LazyAbs(lz) ==
  LET l2 == LazyEnsure(lz)
  IN [line |-> l2.line, fields |-> l2.fields, fs |-> l2.fs, ofs |-> l2.ofs,
      omode |-> l2.omode, err |-> l2.err]
=============================================================================
