SPECIFICATION Spec
CONSTANTS
  NFields = 2
  FLen = 2
CHECK_DEADLOCK FALSE
