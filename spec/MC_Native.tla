------------------------------ MODULE MC_Native ------------------------------
(* Exhaustive check of Native.tla over every signature with at most one      *)
(* parameter (every kind, variadic or not, every result mode), the invalid    *)
(* shapes and keyword-like names, and every argument list of at most MaxArgs  *)
(* menu values; for a part of the signatures also every CONVFMT setting       *)
(* (calls with one argument) and every shadowed entry of the Funcs table      *)
(* (calls without arguments).  Also the signatures with an extreme result     *)
(* (ExtTableRight) and the shapes built from parts (ShapeRule,                     *)
(* RejectedNeverCalled).                                                      *)
EXTENDS NativeMachine

CONSTANTS MaxArgs

RECURSIVE ArgLists(_)
ArgLists(n) == IF n = 0 THEN {<<>>} ELSE ArgLists(n - 1) \cup {Append(a, v) : a \in {b \in ArgLists(n - 1) : Len(b) = n - 1}, v \in Values}

ParamLists == {<<>>} \cup {<<k>> : k \in Kinds}
Sigs == UNION {UNION {{MkSig(ps, vr, rm) : rm \in ResModes(ps, vr)} : vr \in IF ps = <<>> THEN {FALSE} ELSE {FALSE, TRUE}} : ps \in ParamLists}
        \cup {InvalidSig(s) : s \in InvalidShapes}
        \cup ExtSigs(<<>>) \cup ExtSigs(<<"int">>) \cup GenSigs

\* the shadowed name varies for calls without arguments, the CONVFMT setting for calls with one argument, both
\* over the signatures whose result is none, an echo, or a constant of kind int or string
Varied(sg) == sg.shape = "ok" /\ (sg.res # "const" \/ sg.rk \in {"int", "string"})
Init ==
  /\ phase = "start" /\ recv = <<>> /\ printed = Unspecified /\ ran = <<>>
  /\ \/ /\ sig \in Sigs /\ called = TRUE /\ args \in ArgLists(MaxArgs)
        /\ \/ shadow = "none" /\ cf = DefaultCf
           \/ Varied(sig) /\ Len(args) = 0 /\ shadow \in Shadows \ {"none"} /\ cf = DefaultCf
           \/ Varied(sig) /\ Len(args) = 1 /\ shadow = "none" /\ cf \in ConvFmts \ {DefaultCf}
     \/ /\ sig \in {KeywordSig(n) : n \in KeywordNames} \cup {InvalidSig(s) : s \in InvalidShapes} \cup {MkSig(<<"int">>, FALSE, [res |-> "none", rk |-> "int", err |-> "none"])}
        /\ called = FALSE /\ args = <<>> /\ shadow \in Shadows /\ cf = DefaultCf
Spec == Init /\ [][NNext]_nvars

SigsWellFormed == WellFormedSig(sig)
\* the machine and the function Outcome are the same thing
MachineIsOutcome == phase \in Finals => MachineOutcome = OutcomeFull(sig, args, called, shadow, cf)
\* the Go function reached by the call is the one named in the program, whatever AWK function shadows another entry
\* of the table; a call of the shadowed name reaches the AWK function
DispatchRight == phase \in {"called", "converted", "returned", "aborted"} =>
                   (ran = Append(RanBefore(shadow), sig.name) /\ Len(ran) = (IF shadow = "none" THEN 4 ELSE 3))
\* string and []byte parameters receive the same string form, and it is the argument's own text for strings,
\* the integer spelling for integral numbers whatever CONVFMT is
StringKindsAgree ==
  phase = "converted" =>
     \A j \in 1..Len(args) :
        LET k == ParamKind(sig, j)
        IN k \in StrKinds =>
             /\ recv[j] = ToGoCf(IF k = "string" THEN "bytes" ELSE "string", args[j], cf)
             /\ (args[j] \in PlainValues \ {"twohalf"} => recv[j] = ToGoCf(k, args[j], DefaultCf))

\* no stage is ever stuck (no panic): every non-final phase has a successor
NeverStuck == phase \notin Finals => ENABLED NNext
\* totality of the conversion tables on the in-range part of the menu (constant formulas: ASSUMEd
\* below, so that TLC evaluates them once)
TotalTables ==
  /\ \A k \in Kinds, v \in PlainValues :
       (k \in IntKinds => InRange(k, TruncHalves(NumHalves(v)))) => ToGo(k, v).ok
  /\ \A k \in Kinds : FromGo(k, RetConst(k)).t \in {"num", "str"} /\ FromGo(k, ZeroOf(k)).t \in {"num", "str"}
\* integers in range survive the round trip AWK -> Go -> AWK
RoundTrip ==
  \A k \in IntKinds, v \in {"three", "negthree", "n300", "zero", "sn12", "sn0"} :
     InRange(k, TruncHalves(NumHalves(v))) => FromGo(k, ToGo(k, v).val) = [t |-> "num", h |-> NumHalves(v)]
\* the set-up verdict of a shape built from parts: accepted exactly when every parameter and the first result are of
\* a documented kind and a second result is of the type error; in particular a concrete type that implements error,
\* an undocumented parameter kind anywhere, a variadic tail of one, or a third result are rejected -- and a rejected
\* function is never called
ShapeRule ==
  \A sg \in GenSigs :
     /\ ValidSig(sg) <=> (/\ \A j \in 1..Len(sg.params) : sg.params[j] \notin BadKinds
                          /\ sg.nres <= 2 /\ (sg.nres >= 1 => sg.rk \notin BadKinds) /\ (sg.nres = 2 => sg.r2 = "error"))
     /\ (sg.nres = 2 /\ sg.r2 \in ImplementsError \ {"error"}) => ~ValidSig(sg)
     /\ WellFormedSig(sg) /\ WellFormedSig(Fixed(sg)) /\ ValidSig(Fixed(sg))
     /\ Len(Fixed(sg).params) = Len(sg.params)     \* the corrected function fits the calls the program was parsed with
RejectedNeverCalled == (sig.shape = "gen" /\ ~GenValid(sig)) => phase \in {"start", "parsed", "parse-error", "setup-error"}
\* extreme results: the predicted number has the sign and the digits of the mathematical value; exactness as a
\* float64 follows from the number of significant bits (spot values written out)
ExtTableRight ==
  /\ \A k \in Kinds : \A x \in ExtOf(k) : LET v == ExtNum(k, x) IN (v.int => Len(v.digits) = v.e10 + 1) /\ (~v.int => v.digits = "")
  /\ ExtNum("int64", "min").digits = "9223372036854775808" /\ ExtNum("int64", "min").neg /\ ExtNum("int64", "min").exact
  /\ ExtNum("int", "max").digits = "9223372036854775807" /\ ~ExtNum("int", "max").exact
  /\ ExtNum("uint64", "max").digits = "18446744073709551615" /\ ~ExtNum("uint64", "max").neg /\ ~ExtNum("uint64", "max").exact
  /\ ExtNum("uint", "p63").digits = "9223372036854775808" /\ ~ExtNum("uint", "p63").neg /\ ExtNum("uint", "p63").exact
  /\ ExtNum("uint32", "max").digits = "4294967295" /\ ExtNum("uint32", "max").exact
  /\ ExtNum("int8", "min").digits = "128" /\ ExtNum("int16", "max").digits = "32767"
  /\ ExtNum("float32", "fmax").digits = "340282346638528859811704183484516925440"
  /\ ExtNum("float64", "fmax").e10 = 308 /\ ExtNum("float64", "negfmax").neg /\ ExtNum("float64", "fden").e10 = 0 - 324
  /\ \A k \in Unsigned : \A x \in ExtOf(k) : ~ExtNum(k, x).neg          \* an unsigned result is never negative
ASSUME ShapeRule
ASSUME ExtTableRight
ASSUME TotalTables
ASSUME RoundTrip
\* indexes agree between resolver and interpreter -- and would not if the resolver numbered only the unshadowed names
ASSUME DispatchAgrees(FALSE)
ASSUME ~DispatchAgrees(TRUE)
\* missing arguments are zero values, extra arguments of a variadic function reach its tail
ZeroFill ==
  (phase = "converted" /\ ~sig.variadic) =>
     /\ Len(recv) = Len(sig.params)
     /\ \A j \in (Len(args) + 1)..Len(sig.params) : recv[j] = Known(ZeroOf(sig.params[j]))
VariadicSpread ==
  (phase = "converted" /\ sig.variadic) =>
     /\ Len(recv) = (IF Len(args) > Len(sig.params) - 1 THEN Len(args) ELSE Len(sig.params) - 1)
     /\ \A j \in 1..Len(args) : recv[j] = ToGoCf(ParamKind(sig, j), args[j], cf)
=============================================================================
