SPECIFICATION Spec
CONSTANTS
  Family = "sandbox"
  Depth = 3
  Rich = 1
  Runs = 1
CHECK_DEADLOCK FALSE
