SPECIFICATION Spec
CONSTANTS
  MaxLen = 5
  Rich = FALSE
INVARIANTS ChunkIndependence PrefixSafe NRCount Progress SplitAllAgrees Laws
CHECK_DEADLOCK FALSE
