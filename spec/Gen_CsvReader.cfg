SPECIFICATION Spec
CONSTANTS
  MaxLen = 4
  BomMaxLen = 3
  EmitMin = 0
CHECK_DEADLOCK FALSE
