---------------------------- MODULE MC_CsvReader ----------------------------
(* Every delivery schedule of every input up to MaxLen (with and without a   *)
(* leading byte-order mark) over each configuration's alphabet: the intended *)
(* record-at-a-time scanner delivers exactly CsvRows(input); every row's     *)
(* text is its own; and the write/read round trip holds on the reference.    *)
EXTENDS CsvReader, TLC

CONSTANTS MaxLen, RTFields, RTLen

VARIABLES input, cfg, delivered, consumed, eof, bomDone, rows,
          ref          \* CsvRows(input, cfg), computed once per input
vars == <<input, cfg, delivered, consumed, eof, bomDone, rows, ref>>

buf == SubSeq(input, consumed + 1, delivered)

Init ==
  /\ cfg \in CfgMenu
  /\ \E body \in StrUpTo(CfgAlpha(cfg), MaxLen) : input \in {body, BOM \o body}
  /\ delivered = 0 /\ consumed = 0 /\ eof = FALSE /\ bomDone = FALSE /\ rows = <<>>
  /\ ref = CsvRows(input, cfg)

Deliver(k) ==
  /\ ~eof /\ delivered + k <= Len(input)
  /\ delivered' = delivered + k
  /\ UNCHANGED <<input, cfg, consumed, eof, bomDone, rows, ref>>

DeliverEOF ==
  /\ ~eof /\ delivered = Len(input)
  /\ eof' = TRUE
  /\ UNCHANGED <<input, cfg, delivered, consumed, bomDone, rows, ref>>

\* the byte-order mark is looked at once, when it can be decided
SplitBOM ==
  /\ ~bomDone /\ ~BomUndecided(buf, eof)
  /\ bomDone' = TRUE
  /\ consumed' = IF HasBOM(buf) THEN 3 ELSE 0
  /\ UNCHANGED <<input, cfg, delivered, eof, rows, ref>>

Split ==
  /\ bomDone
  /\ LET r == NextRow(buf, cfg, eof, 1)
     IN /\ r.k = "row"
        /\ rows' = Append(rows, [fields |-> r.fields, text |-> SubSeq(buf, r.ts, r.te - 1)])
        /\ consumed' = consumed + r.next - 1
  /\ UNCHANGED <<input, cfg, delivered, eof, bomDone, ref>>

Next == (\E k \in 1..(MaxLen + 3) : Deliver(k)) \/ DeliverEOF \/ SplitBOM \/ Split
Spec == Init /\ [][Next]_vars

Terminated == eof /\ bomDone /\ NextRow(buf, cfg, eof, 1).k = "none"
IsPrefix(s1, s2) == Len(s1) <= Len(s2) /\ \A j \in 1..Len(s1) : s1[j] = s2[j]

ChunkIndependence == Terminated => rows = ref
PrefixSafe        == IsPrefix(rows, ref)
Progress          == (eof /\ bomDone) => NextRow(buf, cfg, eof, 1).k # "more"
\* KnownRows (used by Trace_CsvReader) never knows more than the machine can have delivered
KnownAgrees       == LET kr == KnownRows(SubSeq(input, 1, delivered), eof, cfg)
                     IN IsPrefix(kr, ref) /\ (bomDone => IsPrefix(rows, kr))

\* ---- laws of the reference (checked once per input) ----
OneRow(str, cf) == RowsFrom(str, cf, TRUE, 1)
Laws ==
  (delivered = 0 /\ ~eof) =>
    LET rws == ref
        NoComment == [cfg EXCEPT !.comment = <<>>]
    IN
    \* every row's text, read on its own (terminated by CR LF), gives that row's fields and that text
    \* (every row but the last was ended by a line terminator outside quotes)
    /\ \A j \in 1..(Len(rws) - 1) :
         ~HasBOM(rws[j].text) => OneRow(rws[j].text \o <<CR, LF>>, cfg) = << rws[j] >>
    \* rows are non-empty, no unquoted row text contains a line feed
    /\ \A j \in 1..Len(rws) : rws[j].fields # <<>> /\ rws[j].text # <<>>
    \* without quotes a row is its line split at the separator
    /\ ~Contains(input, DQ) /\ ~Contains(input, CR) =>
         \A j \in 1..Len(rws) : rws[j].fields = SplitLit(rws[j].text, cfg.sep) /\ ~Contains(rws[j].text, LF)

\* ---- write/read round trip on the reference ----
RTAlpha(sep) == {c_a, DQ, LF, SP} \cup {sep[j] : j \in 1..Len(sep)}
RTLists(sep) == UNION {[1..m -> StrUpTo(RTAlpha(sep), RTLen)] : m \in 1..RTFields}
Plain(sep) == [sep |-> sep, comment |-> <<>>, header |-> FALSE]
RoundTrip ==
  (delivered = 0 /\ ~eof /\ input = <<>> /\ cfg.name \in {"csv", "tsv", "csv-eacute"}) =>
    /\ \A fl \in RTLists(cfg.sep) :
         LET w == CsvWriteIntended(fl, cfg.sep)
         IN CsvRows(w \o <<LF>>, Plain(cfg.sep)) = << [fields |-> fl, text |-> w] >>
    \* two records in a row stay apart
    /\ \A f1 \in RTLists(cfg.sep) : \A f2 \in {<< <<>> >>, << <<c_a>>, <<LF>> >>, << <<DQ>> >>} :
         LET w1 == CsvWriteIntended(f1, cfg.sep)
             w2 == CsvWriteIntended(f2, cfg.sep)
         IN CsvRows(w1 \o <<LF>> \o w2 \o <<LF>>, Plain(cfg.sep)) = << [fields |-> f1, text |-> w1], [fields |-> f2, text |-> w2] >>
=============================================================================
