--------------------------- MODULE Trace_Builtins ---------------------------
(* Validates histories of builtin calls recorded from the real interpreter   *)
(* (random calls on random subjects of up to 12 characters) with the         *)
(* operators of Builtins.tla -- the ones MC_Builtins checks and Gen_Builtins *)
(* exports.  Event shapes:                                                    *)
(*   {"ev":"reset","mode":"bytes"|"chars","s":bytes}   a new program, t = s   *)
(*   {"ev":"step","act":{...},"obs":{"ret","rstart","rlength","t","arr"}}     *)
(*   {"ev":"error","act":{...}}     the call ended the program                *)
(* Regexes arrive as ASTs (JSON) together with the source text the program    *)
(* used; the module asserts that the text is its own rendering of the AST.    *)
EXTENDS Builtins, TraceBase

RECURSIVE FixRe(_)
FixRe(r) ==
  CASE r.k = "dot" -> DotU
    [] r.k = "cls" -> Cls({r.set[j] : j \in 1..Len(r.set)})
    [] r.k \in {"cat", "alt"} -> [k |-> r.k, l |-> FixRe(r.l), r |-> FixRe(r.r)]
    [] r.k \in {"star", "plus", "opt"} -> [k |-> r.k, r |-> FixRe(r.r)]
    [] OTHER -> r

FixAct(act) ==
  CASE act.op \in {"match", "sub", "gsub"} -> [act EXCEPT !.r = FixRe(act.r)]
    [] act.op = "split" /\ act.sep.k = "re" -> [act EXCEPT !.sep = SepRe(FixRe(act.sep.r))]
    [] OTHER -> act

TextOK(raw, act) ==
  CASE act.op \in {"match", "sub", "gsub"} -> RenderB(act.r) = raw.text
    [] act.op = "split" -> SepText(act.sep) = raw.text
    [] OTHER -> TRUE

\* the reset event that follows position k (it carries the mode and the subject
\* of the next trace, so it is processed, not skipped), or NLog + 1
ResetAfter(k) ==
  LET a == AfterNextReset(k)
  IN IF a - 1 >= 1 /\ a - 1 <= NLog /\ a - 1 > k /\ Log[a - 1].ev = "reset" THEN a - 1 ELSE a

VARIABLES st, mode, s0, l      \* s0: the subject the current trace started from
vars == <<st, mode, s0, l>>

Init == st = StInit(<<>>) /\ mode = "bytes" /\ s0 = <<>> /\ l = 1

\* what of the recorded observation the property pins down
Agrees(o, exp, act, before) ==
  /\ o.t = exp.t
  /\ exp.matched => o.rstart = exp.rstart /\ o.rlength = exp.rlength
  /\ IF act.op = "split" /\ before = <<>> /\ act.sep.k = "char"
     THEN Join(o.arr, act.sep.c) = before          \* the number of pieces of "" is left open
     ELSE o.ret = exp.ret /\ o.arr = exp.arr

\* the state after an event whose outcome the property leaves open: what was observed
Adopt(o, exp) == [exp EXCEPT !.t = o.t, !.ret = o.ret, !.arr = o.arr]

TStep ==
  /\ l <= NLog /\ Log[l].ev \in {"step", "error"}
  /\ LET ev  == Log[l]
         act == FixAct(ev.act)
     IN /\ Assert(TextOK(ev.act, act), "harness regex text is not the specification's rendering of its AST")
        /\ IF ev.ev = "step" /\ Enabled(st, act)
              /\ (Open(st, act, mode) \/ Agrees(ev.obs, Apply(st, act, mode), act, st.t))
           THEN /\ st' = IF Open(st, act, mode) \/ (act.op = "split" /\ st.t = <<>>)
                         THEN Adopt(ev.obs, Apply(st, act, mode)) ELSE Apply(st, act, mode)
                /\ l' = l + 1
                /\ UNCHANGED <<mode, s0>>
           ELSE /\ Reject(l, [op |-> act.op, mode |-> mode, s0 |-> s0, before |-> st.t,
                              expected |-> IF Enabled(st, act) THEN Obs(Apply(st, act, mode))
                                           ELSE [ret |-> <<>>, rstart |-> 0, rlength |-> 0, t |-> <<>>, arr |-> <<>>],
                              indomain |-> Enabled(st, act)])
                /\ l' = ResetAfter(l)
                /\ UNCHANGED <<st, mode, s0>>

TReset == /\ l <= NLog /\ Log[l].ev = "reset"
          /\ st' = StInit(Log[l].s) /\ mode' = Log[l].mode /\ s0' = Log[l].s /\ l' = l + 1

TDone == l = NLog + 1 /\ PrintT("TRACE-END") /\ l' = l + 1 /\ UNCHANGED <<st, mode, s0>>

Next == TStep \/ TReset \/ TDone
Spec == Init /\ [][Next]_vars
=============================================================================
