--------------------------- MODULE Gen_ParseHistory ---------------------------
(* Behaviour export for ParseHistory: histories of parses in one process.      *)
(*   Fam = "pairs"  every history  <<b, p>>  with b a source that is rejected   *)
(*                  (a plain statement followed by an error at every place, or  *)
(*                  an unbroken source whose statement is not allowed where it  *)
(*                  stands) and p an unbroken source (every statement kind in   *)
(*                  every context); exhaustive under breadth-first search       *)
(*   Fam = "walk"   histories of HistLen sources drawn from the whole universe  *)
(*                  (two in five unbroken); one history per random walk of      *)
(*                  -simulate                                                   *)
(* A case lists the abstract sources in the order in which the process parses   *)
(* them, each with the specified verdict (Verdict: a function of the source     *)
(* alone) and error class.                                                      *)
EXTENDS ParseHistory, Json

CONSTANTS Fam, HistLen, Rich

AllNests == {<<>>, <<"while">>, <<"for">>, <<"forin">>, <<"do">>, <<"for", "while">>, <<"do", "forin">>}
FewNests == {<<>>, <<"while">>, <<"do", "forin">>}
Universe == SourcesOver(AllNests, Stmts, Brks)
\* the places at which a parse can fail ...
Breakers == SourcesOver(AllNests, {"plain"}, Brks \ {"none"})
            \cup {s \in SourcesOver(FewNests, Stmts, {"none"}) : Verdict(s).v = "reject"}
\* ... and the sources parsed after it
Probes   == SourcesOver(IF Rich THEN AllNests ELSE FewNests, Stmts, {"none"})

VARIABLES hist, emitted
vars == <<hist, emitted>>
Init == hist = <<>> /\ emitted = FALSE

Describe(s) == LET o == Verdict(s) IN [ctx |-> s.ctx, loops |-> s.loops, stmt |-> s.stmt, brk |-> s.brk, v |-> o.v, err |-> o.err]
Export(h) == LET j == ToJson([fam |-> "history", hist |-> [k \in 1..Len(h) |-> Describe(h[k])]])
             IN Len(j) > 0 /\ PrintT(j)

Grow ==
  /\ ~emitted
  /\ IF Fam = "pairs"
     THEN \/ Len(hist) = 0 /\ \E b \in Breakers : hist' = <<b>> /\ UNCHANGED emitted
          \/ Len(hist) = 1 /\ \E p \in Probes : hist' = Append(hist, p) /\ Export(hist') /\ emitted' = TRUE
     ELSE /\ Len(hist) < HistLen
          \* a source drawn component by component (two in five unbroken)
          /\ \E b \in {IF RandomElement(1..5) <= 2 THEN "none" ELSE RandomElement(Brks \ {"none"})} :
                hist' = Append(hist, [ctx |-> IF b = "pattern" THEN "action" ELSE RandomElement(Ctxs),
                                      loops |-> RandomElement(AllNests), stmt |-> RandomElement(Stmts), brk |-> b])
          /\ UNCHANGED emitted
Emit ==
  /\ Fam = "walk" /\ ~emitted /\ Len(hist) = HistLen
  /\ Export(hist)
  /\ emitted' = TRUE /\ UNCHANGED hist
Next == Grow \/ Emit
Spec == Init /\ [][Next]_vars
=============================================================================
