-------------------------------- MODULE Csv --------------------------------
(***************************************************************************)
(* CSV/TSV encoding and decoding (RFC 4180 with lenient quotes), the way   *)
(* GoAWK's CSV input and output modes are documented to behave.            *)
(***************************************************************************)
EXTENDS Strings

\* ------------------------------ writer ------------------------------
Contains(str, ch) == \E k \in 1..Len(str) : str[k] = ch
\* sep is a byte string (one character, possibly multi-byte)
ContainsStr(str, pat) == FirstOcc(str, pat, 1) # 0

NeedsQuotes(fld, sep) ==
  /\ fld # <<>>
  /\ \/ ContainsStr(fld, sep) \/ Contains(fld, DQ) \/ Contains(fld, LF) \/ Contains(fld, CR)
     \/ fld[1] \in {SP, TAB, LF, CR, 11, 12}          \* leading white space
     \/ fld = <<BSL, DOT>>

RECURSIVE DoubleQuotes(_)
DoubleQuotes(fld) ==
  IF fld = <<>> THEN <<>>
  ELSE (IF fld[1] = DQ THEN <<DQ, DQ>> ELSE <<fld[1]>>) \o DoubleQuotes(Tail(fld))

CsvField(fld, sep) == IF NeedsQuotes(fld, sep) THEN <<DQ>> \o DoubleQuotes(fld) \o <<DQ>> ELSE fld

\* one record, without the line terminator.  A record consisting of one empty field is written
\* as "" (an empty line would read back as no record at all).
CsvEncode(flds, sep) ==
  IF flds = << <<>> >> THEN <<DQ, DQ>>
  ELSE Join([j \in 1..Len(flds) |-> CsvField(flds[j], sep)], sep)
=============================================================================
