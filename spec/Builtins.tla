------------------------------ MODULE Builtins ------------------------------
(***************************************************************************)
(* The string, regex and int() builtins of AWK as the property C10 states  *)
(* them: substr, index, match (+ RSTART/RLENGTH), split, sub, gsub, int,   *)
(* length; in byte mode and in character mode.                             *)
(*                                                                         *)
(* Numbers.  TLC has 32-bit integers and no reals, so a numeric argument   *)
(* is a symbolic value [k |-> kind, v |-> integer]:                        *)
(*   "fin"   the number v/2 (half units: 3 is 1.5, -1 is -0.5, 4 is 2)     *)
(*   "big"   v * 1e15            (an integer outside 32 bits, inside 64)   *)
(*   "bigh"  v * (1e15 + 0.5)    (not an integer)                          *)
(*   "huge"  v * 1e30            (an integer outside every machine integer)*)
(*   "inf"   v * infinity                                                  *)
(*   "nan"   not a number        (v = 0)                                   *)
(*   "none"  argument omitted    (v = 0)                                   *)
(*   "rstart" / "rlength"  the current value of that special variable      *)
(* with v in {1, -1} for big/bigh/huge/inf.  Every string the              *)
(* specification is used with has fewer than 1e15 characters, which is the *)
(* only fact about the big kinds the position arithmetic needs.            *)
(*                                                                         *)
(* Modes.  "bytes": positions and lengths count bytes.  "chars": they      *)
(* count UTF-8 characters (Strings!Chars).  Regular expressions match      *)
(* characters in both modes (a match never starts or ends inside a         *)
(* character); what the mode changes is how RSTART/RLENGTH are counted.    *)
(***************************************************************************)
EXTENDS Regex

\* ------------------------------------------------------------------ numbers
Num(kind, val) == [k |-> kind, v |-> val]
Fin(h)      == Num("fin", h)
IntN(m)     == Num("fin", 2 * m)
NoArg       == Num("none", 0)
VarRSTART   == Num("rstart", 0)
VarRLENGTH  == Num("rlength", 0)

\* v/2 truncated toward zero
TruncH(h) == IF h >= 0 THEN h \div 2 ELSE 0 - ((0 - h) \div 2)

IsFiniteN(x)  == x.k \in {"fin", "big", "bigh", "huge"}
IsIntegerN(x) == (x.k = "fin" /\ x.v % 2 = 0) \/ x.k \in {"big", "huge"}

\* int(x): x truncated toward zero, for finite x
IntOf(x) ==
  CASE x.k = "fin"  -> Fin(2 * TruncH(x.v))
    [] x.k = "bigh" -> Num("big", x.v)
    [] x.k \in {"big", "huge"} -> x

\* AWK source text of a number (also the way an expected int() value is handed
\* to the probe program, which compares with ==)
E15 == <<D1, c_e, D1, D5>>
E30 == <<D1, c_e, D3, D0>>
Sign(val) == IF val < 0 THEN <<MINUS>> ELSE <<>>
NumSrc(x) ==
  CASE x.k = "fin"  -> IF x.v % 2 = 0 THEN IntStr(x.v \div 2)
                       ELSE Sign(x.v) \o IntStr(TruncH(IF x.v < 0 THEN 0 - x.v ELSE x.v)) \o <<DOT, D5>>
    [] x.k = "big"  -> Sign(x.v) \o E15
    [] x.k = "bigh" -> Sign(x.v) \o <<D1, D0, D0, D0, D0, D0, D0, D0, D0, D0, D0, D0, D0, D0, D0, D0, DOT, D5>>
    [] x.k = "huge" -> Sign(x.v) \o E30

\* ------------------------------------------------- positions and lengths
\* the units positions count: bytes or characters
Units(str, mode) == IF mode = "chars" THEN Chars(str) ELSE [j \in 1..Len(str) |-> <<str[j]>>]
Length(str, mode) == Len(Units(str, mode))

\* where substr starts, as a unit position in 1..total+1: "position m,
\* truncated to an integer, and taken as 1 if smaller"
StartOf(x, total) ==
  CASE x.k = "fin" -> LET p == TruncH(x.v) IN IF p < 1 THEN 1 ELSE IF p > total THEN total + 1 ELSE p
    [] x.k \in {"big", "bigh", "huge", "inf"} -> IF x.v > 0 THEN total + 1 ELSE 1

\* how many units it returns: "the next n characters (truncated, none if
\* negative, all remaining if n is omitted or exceeds what is left)"
CountOf(x, left) ==
  CASE x.k = "none" -> left
    [] x.k = "fin"  -> LET c == TruncH(x.v) IN IF c < 0 THEN 0 ELSE IF c > left THEN left ELSE c
    [] x.k \in {"big", "bigh", "huge", "inf"} -> IF x.v > 0 THEN left ELSE 0

Substr(str, x, y, mode) ==
  LET u == Units(str, mode)
      p == StartOf(x, Len(u))
      c == CountOf(y, Len(u) - p + 1)
  IN Concat(SubSeq(u, p, p + c - 1))

\* unit position of the byte offset b (1-based) of str
UnitPos(str, b, mode) == IF mode = "chars" THEN NumChars(SubSeq(str, 1, b - 1)) + 1 ELSE b

\* index(s, t), t not empty: position of the first occurrence, 0 if none
Index(str, pat, mode) ==
  LET b == FirstOcc(str, pat, 1) IN IF b = 0 THEN 0 ELSE UnitPos(str, b, mode)

\* ------------------------------------------- regular expressions on characters
\* "." over the strings of the specification: one whole character, that is, an
\* ASCII byte, e-acute, or the invalid byte FF (which counts as one character)
EAcute == Cat(Lit(xC3), Lit(xA9))
UFFFD == Cat(Lit(239), Cat(Lit(191), Lit(189)))      \* a genuine U+FFFD (EF BF BD): valid UTF-8, one character
DotU == Alt(Cls(0..127), Alt(EAcute, Alt(Lit(xFF), UFFFD)))

RECURSIVE RenderB(_)
RenderB(r) ==
  IF r = DotU THEN <<DOT>>
  ELSE CASE r.k = "cat"  -> RenderB(r.l) \o RenderB(r.r)
         [] r.k = "alt"  -> <<LPAR>> \o RenderB(r.l) \o <<BAR>> \o RenderB(r.r) \o <<RPAR>>
         [] r.k = "star" -> <<LPAR>> \o RenderB(r.r) \o <<RPAR, STAR>>
         [] r.k = "plus" -> <<LPAR>> \o RenderB(r.r) \o <<RPAR, PLUS>>
         [] r.k = "opt"  -> <<LPAR>> \o RenderB(r.r) \o <<RPAR, QM>>
         [] OTHER        -> Render(r)

\* character boundaries of str: the start of every character, and Len+1
RECURSIVE BoundsFrom(_, _)
BoundsFrom(str, b) == IF b > Len(str) THEN {Len(str) + 1} ELSE {b} \cup BoundsFrom(str, b + CharLenAt(str, b))
Bounds(str) == BoundsFrom(str, 1)

\* leftmost-longest match starting at a character boundary >= from:
\* <<start, end>> as byte offsets, end exclusive; <<0, 0>> when none
FindC(r, str, from) ==
  LET bd == Bounds(str)
      P  == {b \in bd : b >= from /\ (Ends(r, str, b) \cap bd) # {}}
  IN IF P = {} THEN <<0, 0>>
     ELSE LET st == Min(P) IN <<st, Max(Ends(r, str, st) \cap bd)>>

\* all successive non-overlapping leftmost-longest matches (the rule of
\* Regex!FindAll: an empty match right at the end of the previous match is not
\* a match), stepping over whole characters
RECURSIVE FindAllCFrom(_, _, _, _)
FindAllCFrom(r, str, from, prevEnd) ==
  IF from > Len(str) + 1 THEN <<>>
  ELSE LET m == FindC(r, str, from)
       IN IF m[1] = 0 THEN <<>>
          ELSE IF m[2] = m[1]
          THEN LET nx == IF m[1] <= Len(str) THEN m[1] + CharLenAt(str, m[1]) ELSE m[1] + 1
               IN IF m[1] = prevEnd THEN FindAllCFrom(r, str, nx, 0 - 1)
                  ELSE <<m>> \o FindAllCFrom(r, str, nx, m[2])
          ELSE <<m>> \o FindAllCFrom(r, str, m[2], m[2])
FindAllC(r, str) == FindAllCFrom(r, str, 1, 0 - 1)

Matched(str, m) == SubSeq(str, m[1], m[2] - 1)

\* match(s, r): [rstart, rlength]; 0 and -1 when there is no match
Match(str, r, mode) ==
  LET m == FindC(r, str, 1)
  IN IF m[1] = 0 THEN [rstart |-> 0, rlength |-> 0 - 1]
     ELSE [rstart |-> UnitPos(str, m[1], mode), rlength |-> Length(Matched(str, m), mode)]

\* ---------------------------------------------------------------- sub, gsub
\* the replacement string: & is the matched text, \& a literal ampersand;
\* (\\ is a backslash and a backslash before anything else stays -- POSIX;
\* the property is silent about those, see ReplPinned)
RECURSIVE Expand(_, _)
Expand(repl, mt) ==
  IF repl = <<>> THEN <<>>
  ELSE IF repl[1] = AMP THEN mt \o Expand(Tail(repl), mt)
  ELSE IF repl[1] = BSL
       THEN IF Len(repl) = 1 THEN <<BSL>>
            ELSE IF repl[2] = AMP THEN <<AMP>> \o Expand(SubSeq(repl, 3, Len(repl)), mt)
            ELSE IF repl[2] = BSL THEN <<BSL>> \o Expand(SubSeq(repl, 3, Len(repl)), mt)
            ELSE <<BSL, repl[2]>> \o Expand(SubSeq(repl, 3, Len(repl)), mt)
  ELSE <<repl[1]>> \o Expand(Tail(repl), mt)

\* every backslash of repl is the first half of \&
RECURSIVE ReplPinned(_)
ReplPinned(repl) ==
  IF repl = <<>> THEN TRUE
  ELSE IF repl[1] = BSL THEN Len(repl) >= 2 /\ repl[2] = AMP /\ ReplPinned(SubSeq(repl, 3, Len(repl)))
  ELSE ReplPinned(Tail(repl))

\* replace the matches ms[j..] of str, the text before them starting at byte pos
RECURSIVE ReplFrom(_, _, _, _, _)
ReplFrom(str, ms, j, pos, repl) ==
  IF j > Len(ms) THEN SubSeq(str, pos, Len(str))
  ELSE SubSeq(str, pos, ms[j][1] - 1) \o Expand(repl, Matched(str, ms[j])) \o ReplFrom(str, ms, j + 1, ms[j][2], repl)

Gsub(r, repl, str) ==
  LET ms == FindAllC(r, str) IN [out |-> ReplFrom(str, ms, 1, 1, repl), n |-> Len(ms)]

Sub(r, repl, str) ==
  LET m == FindC(r, str, 1)
  IN IF m[1] = 0 THEN [out |-> str, n |-> 0]
     ELSE [out |-> SubSeq(str, 1, m[1] - 1) \o Expand(repl, Matched(str, m)) \o SubSeq(str, m[2], Len(str)), n |-> 1]

\* -------------------------------------------------------------------- split
\* separators: [k |-> "char", c |-> the bytes of ONE character other than space],
\*             [k |-> "re", r |-> regex that matches no empty string], [k |-> "space"]
SepChar(ch)  == [k |-> "char", c |-> ch]
SepRe(r)     == [k |-> "re", r |-> r]
SepSpace     == [k |-> "space"]
SepText(sep) == CASE sep.k = "char" -> sep.c [] sep.k = "re" -> RenderB(sep.r) [] sep.k = "space" -> <<SP>>

SplitReC(r, str) ==
  LET ms == SelectSeq(FindAllC(r, str), LAMBDA m : m[2] > m[1])
      nm == Len(ms)
      PieceStart(j) == IF j = 1 THEN 1 ELSE ms[j - 1][2]
      PieceEnd(j)   == IF j = nm + 1 THEN Len(str) ELSE ms[j][1] - 1
  IN [j \in 1..(nm + 1) |-> SubSeq(str, PieceStart(j), PieceEnd(j))]

Split(str, sep) ==
  CASE sep.k = "char"  -> IF str = <<>> THEN <<>> ELSE SplitLit(str, sep.c)
    [] sep.k = "re"    -> IF str = <<>> THEN <<>> ELSE SplitReC(sep.r, str)
    [] sep.k = "space" -> SplitBlanks(str)

\* ------------------------------------------------------------ state machine
\* State of a program fragment that calls builtins: the target variable t,
\* the special variables RSTART and RLENGTH, whether match() has run (before
\* that the two are not defined by the property), the array filled by split,
\* and the value returned by the last call (numbers in decimal).
\*
\* call                                   AWK rendering
\* [op "set", s]                          t = s
\* [op "match", r]                        ret = match(t, r)
\* [op "substr", m, n]                    ret = substr(t, m [, n])
\* [op "index", pat]                      ret = index(t, pat)
\* [op "split", sep]                      ret = split(t, A, sep)
\* [op "sub"/"gsub", r, repl]             ret = sub(r, repl, t)
\* [op "length"]                          ret = length(t)
\* [op "int", x]                          ret = int(x)   (as source text of the value)
StInit(str) == [t |-> str, rstart |-> 0, rlength |-> 0 - 1, matched |-> FALSE, arr |-> <<>>, ret |-> <<>>]

Resolve(x, st) ==
  IF x.k = "rstart" THEN IntN(st.rstart) ELSE IF x.k = "rlength" THEN IntN(st.rlength) ELSE x

Apply(st, call, mode) ==
  CASE call.op = "set"    -> [st EXCEPT !.t = call.s, !.ret = <<>>]
    [] call.op = "match"  -> LET mr == Match(st.t, call.r, mode)
                             IN [st EXCEPT !.rstart = mr.rstart, !.rlength = mr.rlength, !.matched = TRUE,
                                           !.ret = IntStr(mr.rstart)]
    [] call.op = "substr" -> [st EXCEPT !.ret = Substr(st.t, Resolve(call.m, st), Resolve(call.n, st), mode)]
    [] call.op = "index"  -> [st EXCEPT !.ret = IntStr(Index(st.t, call.pat, mode))]
    [] call.op = "split"  -> LET ps == Split(st.t, call.sep) IN [st EXCEPT !.arr = ps, !.ret = IntStr(Len(ps))]
    [] call.op = "sub"    -> LET sr == Sub(call.r, call.repl, st.t) IN [st EXCEPT !.t = sr.out, !.ret = IntStr(sr.n)]
    [] call.op = "gsub"   -> LET sr == Gsub(call.r, call.repl, st.t) IN [st EXCEPT !.t = sr.out, !.ret = IntStr(sr.n)]
    [] call.op = "length" -> [st EXCEPT !.ret = IntStr(Length(st.t, mode))]
    [] call.op = "int"    -> [st EXCEPT !.ret = NumSrc(IntOf(call.x))]

UsesVar(call) == call.op = "substr" /\ ({call.m.k, call.n.k} \cap {"rstart", "rlength"}) # {}
NumDomain(x)  == x.k \in {"fin", "big", "bigh", "huge", "inf", "rstart", "rlength"}

\* A call is inside the domain the property speaks about when
\*  - RSTART/RLENGTH are read only after a match();
\*  - substr positions/lengths are numbers other than NaN; int() gets a finite number;
\*  - index() is not asked for the empty string.
Enabled(st, call) ==
  /\ UsesVar(call) => st.matched
  /\ call.op = "substr" => NumDomain(call.m) /\ (NumDomain(call.n) \/ call.n.k = "none")
  /\ call.op = "int" => IsFiniteN(call.x)
  /\ call.op = "index" => call.pat # <<>>

\* What the property leaves open for this call (exported, never judged):
\*  - a replacement string with a backslash that is not part of \& ;
\*  - byte mode, and matching bytes would give other matches than matching
\*    characters (an empty match inside a multi-byte character);
\*  - the number of pieces of split on the empty string.
Open(st, call, mode) ==
  \/ call.op \in {"sub", "gsub"} /\ ~ReplPinned(call.repl)
  \/ mode = "bytes" /\ call.op = "gsub" /\ FindAll(call.r, st.t) # FindAllC(call.r, st.t)
  \/ mode = "bytes" /\ call.op \in {"sub", "match"} /\ Find(call.r, st.t, 1) # FindC(call.r, st.t, 1)
  \/ mode = "bytes" /\ call.op = "split" /\ call.sep.k = "re"
       /\ FindAll(call.sep.r, st.t) # FindAllC(call.sep.r, st.t)

\* the matches the call is about (for the sanity gate of the harness)
MatchesOf(st, call) ==
  CASE call.op = "gsub" -> FindAllC(call.r, st.t)
    [] call.op \in {"sub", "match"} -> LET m == FindC(call.r, st.t, 1) IN IF m[1] = 0 THEN <<>> ELSE <<m>>
    [] call.op = "split" /\ call.sep.k = "re" -> FindAllC(call.sep.r, st.t)
    [] OTHER -> <<>>

Obs(st) == [ret |-> st.ret, rstart |-> st.rstart, rlength |-> st.rlength, t |-> st.t, arr |-> st.arr]
=============================================================================
