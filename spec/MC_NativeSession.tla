--------------------------- MODULE MC_NativeSession ---------------------------
(* Every history of at most MaxRuns Execute calls on one interpreter that     *)
(* starts with a rejected set-up: the verdict of every call is a function of  *)
(* the Funcs value it is given (Slip = "none"); refuted for the variant that  *)
(* allocates the table before checking (Slip = "alloc-before-check").         *)
EXTENDS NativeSession
=============================================================================
