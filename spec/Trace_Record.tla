---------------------------- MODULE Trace_Record ----------------------------
(* Validates record-operation traces recorded from the real interpreter      *)
(* against RecordMachine (the same Apply/Enabled operators MC_Record and     *)
(* Gen_Record use).  Event shapes:                                            *)
(*   {"ev":"step","act":{...},"obs":{"nf":bytes,"line":bytes,"fields":[..]}, *)
(*    "read":bytes}                                                           *)
(*   {"ev":"error","act":{...}}       the run ended with an error here        *)
(*   {"ev":"reset"}                   a new interpreter / new trace           *)
EXTENDS RecordMachine, TraceBase

RECURSIVE FixRe(_)
FixRe(r) ==
  CASE r.k = "cls" -> Cls({r.set[j] : j \in 1..Len(r.set)})
    [] r.k \in {"cat", "alt"} -> [k |-> r.k, l |-> FixRe(r.l), r |-> FixRe(r.r)]
    [] r.k \in {"star", "plus", "opt"} -> [k |-> r.k, r |-> FixRe(r.r)]
    [] OTHER -> r
FixAct(act) ==
  IF act.op = "setfs"
  THEN [act EXCEPT !.fsv = IF act.fsv.k = "re" THEN FsRe(FixRe(act.fsv.r)) ELSE act.fsv]
  ELSE IF act.op = "subf"
  THEN [act EXCEPT !.re = FixRe(act.re)]
  ELSE act

VARIABLES rec, l
vars == <<rec, l>>

Init == rec = RecInit /\ l = 1

ObsOf(rc) == [nf |-> IntStr(RecNF(rc)), line |-> rc.line, fields |-> rc.fields]

Explains(ev, act) ==
  /\ Enabled(rec, act, 1000)
  /\ IF ev.ev = "error"
     THEN Apply(rec, act).err
     ELSE /\ ~Apply(rec, act).err
          /\ ev.obs = ObsOf(Apply(rec, act))
          /\ ev.read = ReadValue(rec, act)

TStep ==
  /\ l <= NLog /\ Log[l].ev \in {"step", "error"}
  /\ LET ev == Log[l]
         act == FixAct(ev.act)
     IN /\ (act.op = "setfs" => Assert(FsText(act.fsv) = ev.act.text, "harness FS menu is inconsistent with its regex AST"))
        /\ (act.op = "subf" => Assert(Render(act.re) = ev.act.text, "harness regex menu is inconsistent with its regex AST"))
        /\ IF Explains(ev, act)
           THEN /\ rec' = Apply(rec, act)
                /\ l' = l + 1
           ELSE /\ Reject(l, [op |-> act.op,
                              expected |-> IF Enabled(rec, act, 1000)
                                           THEN [err |-> Apply(rec, act).err, obs |-> ObsOf(Apply(rec, act)),
                                                 read |-> ReadValue(rec, act)]
                                           ELSE [err |-> FALSE, obs |-> "operation outside the specified domain", read |-> <<>>]])
                /\ rec' = RecInit
                /\ l' = AfterNextReset(l)

TReset == l <= NLog /\ Log[l].ev = "reset" /\ rec' = RecInit /\ l' = l + 1

TDone == l = NLog + 1 /\ PrintT("TRACE-END") /\ l' = l + 1 /\ UNCHANGED rec

Next == TStep \/ TReset \/ TDone
Spec == Init /\ [][Next]_vars
=============================================================================
