--------------------------- MODULE Trace_CsvReader ---------------------------
(* Validates executions recorded from the real CSV/TSV reader: the real        *)
(* interleaving of Read calls on the input and of records reaching the         *)
(* program, against CsvReader.tla.  Event shapes:                              *)
(*   {"ev":"reset"}                                                            *)
(*   {"ev":"start","name":configuration,"input":bytes}                         *)
(*   {"ev":"read","n":k}   {"ev":"eof"}                                        *)
(*   {"ev":"step","nr":i,"fields":[bytes..],"text":bytes}   a record ($0 = text)*)
(*   {"ev":"names","names":[bytes..]}     FIELDS at the end of the run         *)
(*   {"ev":"end"}      {"ev":"crash","msg":text}  the run died                 *)
(* A record is accepted iff it is the next record of CsvRead(input, cfg)       *)
(* (fields exactly, $0 modulo carriage returns), and the intended scanner,     *)
(* knowing only the bytes delivered so far, could already have delivered it.   *)
EXTENDS CsvReader, TraceBase

VARIABLES l, inp, cfg, delivered, eof, cnt, exp
vars == <<l, inp, cfg, delivered, eof, cnt, exp>>

NoCfg == [name |-> "none", sep |-> <<COMMA>>, comment |-> <<>>, header |-> FALSE]
NoExp == [names |-> <<>>, recs |-> <<>>]
Init == l = 1 /\ inp = <<>> /\ cfg = NoCfg /\ delivered = 0 /\ eof = FALSE /\ cnt = 0 /\ exp = NoExp

StartsBOM(str) == OccursAt(str, BOM, 1)
\* the header names this run reports at its end (looked up ahead in the log)
NamesAhead(k) ==
  LET R == {j \in k..NLog : Log[j].ev \in {"names", "reset"}}
  IN IF R = {} THEN <<>>
     ELSE LET m == CHOOSE q \in R : \A j \in R : q <= j
          IN IF Log[m].ev = "names" THEN Log[m].names ELSE <<>>
\* mechanism class: the byte-order mark was not skipped and is data of the first row
\* (the first record, or -- with header -- the first name)
BomKept(flds, text) ==
  /\ HasBOM(inp)
  /\ \/ StartsBOM(text) \/ (flds # <<>> /\ StartsBOM(flds[1]))
     \/ (cfg.header /\ NamesAhead(l) # <<>> /\ StartsBOM(NamesAhead(l)[1]))
KnownCount == Len(KnownRows(SubSeq(inp, 1, delivered), eof, cfg)) - (IF cfg.header THEN 1 ELSE 0)

EmitVerdict(ev) ==
  IF BomKept(ev.fields, ev.text) THEN "bom-kept"
  ELSE IF cnt + 1 > Len(exp.recs) THEN "fields"
  ELSE IF ev.fields # exp.recs[cnt + 1].fields THEN "fields"
  ELSE IF ev.nr # cnt + 1 THEN "fields"
  ELSE IF NormText(ev.text) # NormText(exp.recs[cnt + 1].text) THEN "text"
  ELSE IF KnownCount < cnt + 1 THEN "premature"
  ELSE "ok"

Blank == inp' = <<>> /\ cfg' = NoCfg /\ delivered' = 0 /\ eof' = FALSE /\ cnt' = 0 /\ exp' = NoExp
Skip(k, what) ==
  /\ Reject(k, [what |-> what, name |-> cfg.name, cfg |-> cfg, all |-> exp, bom |-> HasBOM(inp), delivered |-> delivered,
                expected |-> IF cnt + 1 <= Len(exp.recs) THEN <<exp.recs[cnt + 1]>> ELSE <<>>, names |-> exp.names])
  /\ l' = AfterNextReset(k) /\ Blank

TReset == l <= NLog /\ Log[l].ev = "reset" /\ l' = l + 1 /\ Blank

TStart ==
  /\ l <= NLog /\ Log[l].ev = "start"
  /\ cfg' = CfgEntry(Log[l].name) /\ exp' = CsvRead(Log[l].input, CfgEntry(Log[l].name))
  /\ Assert(JudgeInput(Log[l].input), "driver produced an input the statement does not pin down")
  /\ inp' = Log[l].input /\ delivered' = 0 /\ eof' = FALSE /\ cnt' = 0 /\ l' = l + 1

TRead ==
  /\ l <= NLog /\ Log[l].ev = "read"
  /\ Assert(delivered + Log[l].n <= Len(inp) /\ ~eof, "harness delivered more bytes than the input has")
  /\ delivered' = delivered + Log[l].n /\ l' = l + 1 /\ UNCHANGED <<inp, cfg, eof, cnt, exp>>

TEof ==
  /\ l <= NLog /\ Log[l].ev = "eof"
  /\ Assert(delivered = Len(inp), "harness signalled EOF early")
  /\ eof' = TRUE /\ l' = l + 1 /\ UNCHANGED <<inp, cfg, delivered, cnt, exp>>

TEmit ==
  /\ l <= NLog /\ Log[l].ev = "step"
  /\ LET v == EmitVerdict(Log[l])
     IN IF v = "ok" THEN cnt' = cnt + 1 /\ l' = l + 1 /\ UNCHANGED <<inp, cfg, delivered, eof, exp>>
        ELSE Skip(l, v)

TNames ==
  /\ l <= NLog /\ Log[l].ev = "names"
  /\ IF Log[l].names = exp.names /\ cnt = Len(exp.recs) THEN l' = l + 1 /\ UNCHANGED <<inp, cfg, delivered, eof, cnt, exp>>
     ELSE IF HasBOM(inp) /\ Log[l].names # <<>> /\ StartsBOM(Log[l].names[1]) THEN Skip(l, "bom-kept")
     ELSE IF cnt # Len(exp.recs) THEN Skip(l, "fields")
     ELSE Skip(l, "header")

TEnd == l <= NLog /\ Log[l].ev = "end" /\ l' = l + 1 /\ UNCHANGED <<inp, cfg, delivered, eof, cnt, exp>>

TCrash == l <= NLog /\ Log[l].ev = "crash" /\ Skip(l, "crash")

TDone == l = NLog + 1 /\ PrintT("TRACE-END") /\ l' = l + 1 /\ UNCHANGED <<inp, cfg, delivered, eof, cnt, exp>>

Next == TReset \/ TStart \/ TRead \/ TEof \/ TEmit \/ TNames \/ TEnd \/ TCrash \/ TDone
Spec == Init /\ [][Next]_vars
=============================================================================
