----------------------------- MODULE MC_Record -----------------------------
(* Exhaustive check that the lazy record refines the abstract record, and   *)
(* of the equations the property states, over the menu below.               *)
EXTENDS RecordMachine

CONSTANT Depth, MaxNF,
         WithSub     \* TRUE: the menu includes $k += d, sub/gsub on a field and getline $k

Texts == { <<>>, <<c_a>>, <<c_a, SP, c_b>>, <<SP, c_a, SP, SP, c_b, SP>>, <<c_a, COMMA, c_b>>, <<COMMA, c_a, COMMA>>,
           <<c_a, COLON, c_b, COMMA, D1>>, <<c_a, TAB, c_b, LF, D1>>, <<c_a, c_a, c_b, c_a, c_b, c_b>>, <<D1, SP, D2>> }
Vals  == { <<>>, <<c_x>>, <<c_a, SP, c_b>>, <<c_a, COMMA, DQ>> }
FSs   == { FsSpace, FsChar(COMMA), FsChar(COLON), FsChar(TAB), FsChar(BAR),
           FsRe(Cat(Lit(COMMA), Star(Lit(SP)))), FsRe(Alt(Lit(c_a), Cat(Lit(c_a), Lit(c_b)))),
           FsRe(Star(Lit(c_b))), FsRe(Plus(Cls({COMMA, COLON}))) }
OFSs  == { <<SP>>, <<MINUS>>, <<>>, <<COMMA, SP>> }
Idx   == { 0 - 4, 0 - 2, 0 - 1, 0, 1, 2, 3, 5, MaxField + 1 }
NFs   == { 0 - 1, 0, 1, 2, 4, MaxField + 1 }

Menu ==
       {[op |-> "read", s |-> s1] : s1 \in Texts}
  \cup {[op |-> "set0", s |-> s1] : s1 \in Texts}
  \cup {[op |-> "setf", k |-> k1, v |-> v1] : k1 \in Idx, v1 \in Vals}
  \cup {[op |-> "setnf", m |-> m1] : m1 \in NFs}
  \cup {[op |-> "setfs", fsv |-> f1] : f1 \in FSs}
  \cup {[op |-> "setofs", s |-> s1] : s1 \in OFSs}
  \cup {[op |-> "setom", md |-> m1] : m1 \in {"default", "csv", "tsv"}}
  \cup {[op |-> "getf", k |-> k1] : k1 \in Idx \ {MaxField + 1}}
  \cup {[op |-> "getnf"]}
  \cup {[op |-> "incr", k |-> k1] : k1 \in {1, 2, 0 - 1, 0 - 4}}
  \cup (IF WithSub THEN
          {[op |-> "augf", k |-> 2, d |-> 2]}
     \cup {[op |-> "subf", k |-> k1, gl |-> g1, re |-> r1, rp |-> p1] : k1 \in {0, 2, 4, 0 - 1}, g1 \in BOOLEAN,
                                                             r1 \in {Lit(c_b), Star(Lit(c_x)), Lit(COMMA)}, p1 \in {<<AMP>>, <<c_q>>, <<>>}}
     \cup {[op |-> "getlinef", k |-> k1, s |-> s1] : k1 \in {0, 2, 4, 0 - 1}, s1 \in {<<c_x, SP, c_x>>, <<>>}}
        ELSE {})

VARIABLES rec, lz, steps, lastA, lastL
vars == <<rec, lz, steps, lastA, lastL>>

Init == rec = RecInit /\ lz = LazyInit /\ steps = 0 /\ lastA = <<>> /\ lastL = <<>>

Step(act) ==
  /\ steps < Depth
  /\ Enabled(rec, act, MaxNF)
  /\ rec' = Apply(rec, act)
  /\ lz' = LazyApply(lz, act)
  /\ lastA' = ReadValue(rec, act)
  /\ lastL' = LazyReadValue(lz, act)
  /\ steps' = steps + 1

Next == \E act \in Menu : Step(act)
Spec == Init /\ [][Next]_vars

\* ---- properties ----
Refines      == LazyAbs(lz) = rec
ReadsAgree   == lastA = lastL
NFIsCount    == LazyEnsure(lz).nf = Len(LazyEnsure(lz).fields)
\* the FS equations on the current line
SplitLaws ==
  /\ \A fl \in {SplitBlanks(rec.line)} :
        \A j \in 1..Len(fl) : fl[j] # <<>> /\ \A q \in 1..Len(fl[j]) : ~IsBlank(fl[j][q])
  /\ \A ch \in {COMMA, COLON} : rec.line # <<>> => Join(SplitLit(rec.line, <<ch>>), <<ch>>) = rec.line
\* reads change nothing; assignments rebuild $0 from the fields
ReadsAreSilent == [][\A act \in Menu : (act.op \in {"getf", "getnf"} /\ Step(act)) => rec' = rec]_vars
\* after any assignment to a field (also a successful sub/gsub or getline into it) $0 is the fields joined
AssignRebuilds == [][\A act \in Menu :
                      (act.op \in {"setf", "incr", "augf", "getlinef"} /\ act.k # 0 /\ act.k <= MaxField /\ ~NegOutOfRange(rec, act) /\ Step(act))
                        => rec'.line = JoinOut(rec'.fields, rec'.ofs, rec'.omode)]_vars
SubAssigns == [][\A act \in Menu :
                      (act.op = "subf" /\ act.k # 0 /\ ~NegOutOfRange(rec, act) /\ Step(act))
                        => IF Substitute(act.re, act.rp, RecGet(rec, act.k), act.gl)[2] = 0 THEN rec' = rec
                           ELSE rec'.line = JoinOut(rec'.fields, rec'.ofs, rec'.omode)]_vars
View == <<rec, lz, lastA, lastL>>
=============================================================================
