------------------------------ MODULE MC_Reuse ------------------------------
(* The property of C14 as TLC-checked invariants of Reuse.tla.               *)
(*                                                                           *)
(* Two copies of the interpreter state advance in lock step through runs and *)
(* resets: `sp` under ExecSpec (the statement: nothing of the per-run state  *)
(* carries over), `cd` under ExecCode(Clears) (what newexecute.go does:      *)
(* resetCore clears the fields in Clears, setExecuteConfig overwrites what   *)
(* the Config sets, dead streams stay in the maps).                          *)
(*  Refines          every run gives the same result on both                 *)
(*  FreshAfterReset  after ResetVars and ResetRand every possible next run   *)
(*                   gives the result it gives on a new interpreter          *)
(*  OnlyVarsCarry    without them the next run gives the result of a new     *)
(*                   interpreter that was handed just vars and rnd           *)
(* There is no history variable, so the search runs to a fixpoint over the   *)
(* reachable states (bounded only by MaxDraws on the draw counter).  Runs    *)
(* are drawn from McKinds x McCfgs x McTags (the tag makes a run's standard  *)
(* input its own).  Among the clears, "dash" (the scanners map: the scanner  *)
(* of getline < "-"), "status", "ctx" (the call installs its own context)    *)
(* and "range" (the flags of the range patterns are new for every pass over  *)
(* the input) are load-bearing: without any of them TLC violates Refines.    *)
(* ResetVars empties ARGV, ENVIRON and FIELDS with the other arrays and      *)
(* resets RT (ResetsAreExact); FreshAfterReset covers what a later run       *)
(* enumerates of them, the generator restarted, the range closed.            *)
(* With Clears = CoreFields \ {"hdr"} (the code as built) TLC violates all   *)
(* three: the counterexample is DESIGN F11.                                  *)
EXTENDS Reuse

CONSTANT Clears, MaxDraws, JudgeKinds, JudgeCfgs, McKinds, McCfgs, McTags

\* ok: the last run gave the same result (output, status, error) under ExecSpec and under ExecCode.  (The results
\* themselves are not kept in the state: the reachable states are then the reachable PAIRS OF INTERPRETER STATES,
\* not multiplied by everything a run can print; a differing pair of results is printed when it occurs.)
VARIABLES sp, cd, rv, rr, ok
vars == <<sp, cd, rv, rr, ok>>

Init == sp = StInit /\ cd = StInit /\ rv = FALSE /\ rr = FALSE /\ ok = TRUE

\* (bound with \E over a singleton: TLC evaluates a LET body anew at every reference inside an action)
DoRun(kind, cfg) ==
  \E es \in {ExecSpec(sp, kind, cfg)} : \E ec \in {ExecCode(cd, kind, cfg, Clears)} :
     \* (what the run leaves in the per-run state is kept only as far as a later run can see it: nothing of it
     \* under ExecSpec; under ExecCode what resetCore does not clear and setExecuteConfig does not overwrite)
     /\ sp' = [es.st EXCEPT !.pr = PrInit] /\ cd' = [ec.st EXCEPT !.pr = Settled(@, Clears)]
     /\ ok' = (es.res = ec.res)
     /\ (es.res = ec.res \/ PrintT(<<"Refines: results differ", kind, cfg.name, es.res, ec.res>>))
     /\ rv' = FALSE /\ rr' = FALSE

DoResetVars == sp' = ResetVarsOp(sp) /\ cd' = ResetVarsOp(cd) /\ rv' = TRUE /\ UNCHANGED <<rr, ok>>
DoResetRand == sp' = ResetRandOp(sp) /\ cd' = ResetRandOp(cd) /\ rr' = TRUE /\ UNCHANGED <<rv, ok>>

Next == \/ \E kind \in McKinds, cn \in McCfgs, tag \in McTags : DoRun(kind, WithTag(CfgNamed(cn), tag))
        \/ DoResetVars \/ DoResetRand
Spec == Init /\ [][Next]_vars

Bounded == sp.rnd.idx <= MaxDraws

Refines == ok

NextResult(st, kind, cfg) == ExecCode(st, kind, cfg, Clears).res

FreshAfterReset ==
  (rv /\ rr) => \A kind \in JudgeKinds, cn \in JudgeCfgs :
                   NextResult(cd, kind, CfgNamed(cn)) = NextResult(StInit, kind, CfgNamed(cn))

OnlyVarsCarry ==
  \A kind \in JudgeKinds, cn \in JudgeCfgs :
    NextResult(cd, kind, CfgNamed(cn)) = NextResult([StInit EXCEPT !.vars = cd.vars, !.rnd = cd.rnd], kind, CfgNamed(cn))

\* ResetVars restores exactly the variable group, ResetRand the generator
ResetsAreExact == /\ rv => cd.vars = VarsInit
                  /\ rr => cd.rnd = RndInit
=============================================================================
