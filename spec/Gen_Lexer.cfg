SPECIFICATION Spec
CONSTANTS
  Fams = {"bytes", "soup", "file"}
  Alpha = {97, 101, 49, 46, 43, 32, 13, 10, 92, 34, 47, 35, 61, 195}
  MaxBytes = 4
  MaxToks = 2
  Targets = {6}
  Sim = FALSE
  TokSet = {1, 2, 3, 4, 5, 6, 7, 8, 9, 10, 11, 12, 13, 14, 15, 16, 17, 18, 19, 20, 21, 22, 23, 24}
  SepSet = {1, 2, 3, 4, 5, 6, 7, 8}
CHECK_DEADLOCK FALSE
