--------------------------- MODULE Trace_IOStreams ---------------------------
(* Validates runs recorded from the real interpreter against IOStreams (the   *)
(* same Apply / Enabled / Prediction / IsAllowedStdout as MC_ and Gen_).      *)
(* Events (all "step" events carry act and obs):                              *)
(*  act.op = "config": act.cfg = configuration of the run that follows;       *)
(*           act.cont = TRUE: the run is the next Execute on the Interpreter  *)
(*           of the run that has just ended (NextRun), FALSE: a new one       *)
(*  act.op = an action: obs.opens = calls of the open-file function made      *)
(*           during this action, obs.notes = results the program saw          *)
(*  act.op = "end":    obs = [err, starts, files, extra, stdout, serr, stale] *)
(*           (stale = calls, during this run, of an open-file function that   *)
(*           was configured for an earlier run of the session: none allowed)  *)
(*  {"ev":"reset"} separates runs.                                            *)
EXTENDS IOStreams, TraceBase

VARIABLES st, l
vars == <<st, l>>

DefaultCfg == [ne |-> FALSE, nw |-> FALSE, nr |-> FALSE, custom |-> TRUE, failAt |-> 0 - 1, wkind |-> "plain", omode |-> "default", nlmode |-> "smart",
               stdin |-> <<>>, pre |-> {}]
FixCfg(c) == [ne |-> c.ne, nw |-> c.nw, nr |-> c.nr, custom |-> c.custom, failAt |-> c.failAt, wkind |-> c.wkind, omode |-> c.omode,
              nlmode |-> c.nlmode, stdin |-> c.stdin, pre |-> {c.pre[k] : k \in 1..Len(c.pre)}]
\* configurations the specification speaks about (CRLF newlines: in the default output mode only)
CfgInDomain(c) == c.nlmode \in NLModes /\ c.omode \in OModes /\ (c.nlmode = "crlf" => c.omode = "default")

Init == st = InitState(DefaultCfg) /\ l = 1

NotesMatch(got, want) ==
  /\ Len(got) = Len(want)
  /\ \A k \in 1..Len(want) : /\ got[k].k = want[k].k
                             /\ want[k].j => (got[k].v = want[k].v /\ got[k].s = want[k].s)

AllCmds == OutCmds \cup SysCmds
\* process starts as a multiset; ign: commands whose start is not judged (command lines without a command, unless
\* NoExec is set: then NOTHING may start)
Bag(q, ign) == [c \in (AllCmds \ ign) \cup {"other"} |->
                  Cardinality({k \in 1..Len(q) : q[k] \notin ign /\ (IF q[k] \in AllCmds THEN q[k] ELSE "other") = c})]
Unjudged(s) == IF s.flags.ne THEN {} ELSE BlankCmds

\* the kind of name / payload / configuration an action exercises (part of the signature of a rejected trace)
ArgKind(act) ==
  IF act.op = "print" /\ ShapeOf(act) # "plain" THEN "-payload-" \o ShapeOf(act) \o (IF st.crlf THEN "-crlf-newline-output" ELSE "")
  ELSE IF act.op = "print" /\ st.crlf THEN "-crlf-newline-output"
  ELSE IF ~HasName(act) THEN ""
  ELSE IF act.name \in NullFiles THEN "-dev-null"
  ELSE IF act.name \in Dirs THEN "-directory"
  ELSE IF act.op = "operand" /\ act.name \in SkipOperands THEN "-not-a-file"
  ELSE IF act.op = "operand" /\ act.name \in Files /\ ~st.fsys[act.name].ex THEN "-missing-file"
  ELSE IF act.name \in BlankCmds THEN "-blank-command"
  ELSE IF act.name \in LeadCmds THEN "-command-with-leading-blanks"
  ELSE IF FileOf(act) # "" /\ ClsOf(act) \in PathClasses THEN "-path-" \o ClsOf(act)
  ELSE ""

OpName0(act) ==
  IF act.op = "print" THEN (IF act.dest = "stdout" THEN "print-stdout" ELSE IF act.dest = "cmd" THEN "print-pipe"
                            ELSE IF act.name \in StdNames THEN "print-to-std" ELSE IF act.mode = "append" THEN "print-append" ELSE "print-trunc")
  ELSE act.op
OpName(act) == OpName0(act) \o ArgKind(act)

Fail(what, opname, expected) ==
  /\ Reject(l, [what |-> what, opname |-> opname, expected |-> expected])
  /\ st' = InitState(DefaultCfg)
  /\ l' = AfterNextReset(l)

\* a continued run needs a run that has ended (and whose end event was accepted) before it
TConfig ==
  /\ l <= NLog /\ Log[l].ev = "step" /\ Log[l].act.op = "config"
  /\ IF Log[l].act.cont
     THEN IF st.result = "run" THEN Fail("continued-run-without-a-finished-one", "config", "the driver recorded a session out of order")
          ELSE IF ~CfgInDomain(Log[l].act.cfg) THEN Fail("outside-domain", "config", "the driver produced a configuration outside the specified domain")
          ELSE st' = NextRun(st, FixCfg(Log[l].act.cfg)) /\ l' = l + 1
     ELSE IF ~CfgInDomain(Log[l].act.cfg) THEN Fail("outside-domain", "config", "the driver produced a configuration outside the specified domain")
     ELSE st' = InitState(FixCfg(Log[l].act.cfg)) /\ l' = l + 1

TAct ==
  /\ l <= NLog /\ Log[l].ev = "step" /\ Log[l].act.op \notin {"config", "end"}
  /\ LET act == Log[l].act
         obs == Log[l].obs
     IN IF st.result # "run" THEN Fail("run-continued-after-its-end", OpName(act), [result |-> st.result])
        ELSE IF ~Enabled(st, act) THEN Fail("outside-domain", OpName(act), "the driver produced an action outside the specified domain")
        ELSE LET s2 == Apply(st, act)
                 newOpens == SubSeq(s2.opens, Len(st.opens) + 1, Len(s2.opens))
                 newNotes == SubSeq(s2.notes, Len(st.notes) + 1, Len(s2.notes))
             \* (without a custom open-file function the calls cannot be observed)
             IN IF st.custom /\ obs.opens # newOpens THEN Fail("opens", OpName(act), [opens |-> newOpens])
                ELSE IF ~NotesMatch(obs.notes, newNotes) THEN Fail("results", OpName(act), [notes |-> newNotes])
                ELSE st' = s2 /\ l' = l + 1

TEnd ==
  /\ l <= NLog /\ Log[l].ev = "step" /\ Log[l].act.op = "end"
  /\ LET obs == Log[l].obs
         s2  == IF st.result = "run" THEN Apply(st, [op |-> "finish"]) ELSE st
         pr  == Prediction(s2)
         lastop == Log[l].act.last
     IN IF pr.errJudged /\ obs.err # pr.err THEN Fail("error-outcome", lastop, [err |-> pr.err])
        ELSE IF Bag(obs.starts, Unjudged(s2)) # Bag(pr.starts, Unjudged(s2)) THEN Fail("process-starts", lastop, [starts |-> pr.starts])
        ELSE IF obs.extra # <<>> \/ \E n \in Files : obs.files[n] # pr.files[n] THEN Fail("files", lastop, [files |-> pr.files])
        ELSE IF pr.stdoutJudged /\ ~IsAllowedStdout(obs.stdout, pr.stdout.prog, pr.stdout.kids) THEN Fail("stdout", lastop, [stdout |-> pr.stdout])
        ELSE IF pr.serrJudged /\ obs.serr # pr.serr THEN Fail("stderr", lastop, [serr |-> pr.serr])
        ELSE IF obs.stale # <<>> THEN Fail("open-through-earlier-runs-openfile", lastop, [stale |-> <<>>])
        ELSE st' = s2 /\ l' = l + 1      \* the ended run stays: the next Execute of the session starts from it

TReset == l <= NLog /\ Log[l].ev = "reset" /\ st' = InitState(DefaultCfg) /\ l' = l + 1
TDone == l = NLog + 1 /\ PrintT("TRACE-END") /\ l' = l + 1 /\ UNCHANGED st

Next == TConfig \/ TAct \/ TEnd \/ TReset \/ TDone
Spec == Init /\ [][Next]_vars
=============================================================================
