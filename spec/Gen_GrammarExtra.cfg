SPECIFICATION Spec
CONSTANTS
  Ctxs = {"stmt", "print", "pat", "cond"}
CHECK_DEADLOCK FALSE
