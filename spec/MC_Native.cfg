SPECIFICATION Spec
CONSTANTS
  MaxArgs = 2
INVARIANTS SigsWellFormed MachineIsOutcome NeverStuck ZeroFill VariadicSpread DispatchRight StringKindsAgree RejectedNeverCalled
CHECK_DEADLOCK FALSE
