SPECIFICATION Spec
CONSTANTS
  MaxArgs = 2
INVARIANTS SigsWellFormed MachineIsOutcome NeverStuck ZeroFill VariadicSpread
CHECK_DEADLOCK FALSE
