SPECIFICATION Spec
CONSTANTS
  Family = "args"
CHECK_DEADLOCK FALSE
