SPECIFICATION Spec
CONSTANTS
  Survives = {}
CHECK_DEADLOCK FALSE
