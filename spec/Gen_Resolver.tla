---------------------------- MODULE Gen_Resolver ----------------------------
(* Behaviour export for Resolver: every program of a ResolverGen universe    *)
(* (exhaustive under breadth-first search, sampled under -simulate), with    *)
(* what the specification predicts for it: the declarative verdict, the type *)
(* and index of every parameter and global, the output of the program when   *)
(* it is accepted, the number of body orders the as-built resolver may use   *)
(* and the set of first errors it may report over those orders (C19a); the    *)
(* programs of family "forms" carry the form of every argument of a call or   *)
(* of length() (prog...args[j].fm, prog...v.fm: "v" bare variable, "p" (x),   *)
(* "e" x "", "x" x[length(x)]; sc = "C" a constant) and the predicted output   *)
(* accounts for what evaluating the expression does (Resolver!ExprVal); for   *)
(* family "collect" the sites of the collected errors and the prediction that *)
(* every parse reports the same one.                                           *)
EXTENDS ResolverGen, Json

CONSTANTS Family

Slots == CASE Family = "usage" -> UsageSlots [] Family = "multi" -> MultiSlots
           [] Family = "frames" -> FramesSlots [] Family = "collect" -> CollectSlots
           [] Family = "forms" -> FormsSlots
Opts(k, chosen) == CASE Family = "usage" -> SlotOpts(Slots[k], chosen) [] Family = "multi" -> MultiOpts(Slots[k])
                     [] Family = "frames" -> FramesOpts(Slots[k]) [] Family = "collect" -> CollectOpts(Slots[k], chosen)
                     [] Family = "forms" -> FormsOpts(Slots[k])
Program(chosen) == CASE Family = "usage" -> UsageProgram(chosen) [] Family = "multi" -> MultiProgram(chosen)
                     [] Family = "frames" -> FramesProgram(chosen) [] Family = "forms" -> FormsProgram(chosen)
                     [] Family = "collect" -> [funcs |-> <<>>, main |-> <<>>, sites |-> CollectSites(chosen)]

\* prog is a state variable so that TLC holds the assembled program as an explicit value
\* (an operator result would be re-assembled lazily at every access)
VARIABLES ch, prog, emitted
vars == <<ch, prog, emitted>>

SetToSeq(S) == LET RECURSIVE go(_)
                   go(T) == IF T = {} THEN <<>> ELSE LET x == CHOOSE y \in T : TRUE IN <<x>> \o go(T \ {x})
               IN go(S)

\* ty, gorder and orders are bound by the caller (Emit) to explicit values: a LET definition would be
\* re-evaluated at every reference
CaseT(p, ty, gorder, orders) ==
  LET verdict == DeclVerdict(p)
      idx     == IndexesOf(p, ty, gorder)
      nodes   == SetToSeq(Nodes(p))
      errs    == {ObsError(RunWithOrder(p, o, gorder)) : o \in orders}
  IN [fam |-> Family, prog |-> p, verdict |-> verdict,
      types |-> [k \in 1..Len(nodes) |-> [f |-> nodes[k][1], i |-> nodes[k][2], t |-> ty[nodes[k]], x |-> idx[nodes[k]]]],
      out |-> IF verdict = "accept" THEN ExecOut(p, ty) ELSE <<>>,
      omitted |-> IF verdict = "accept" THEN SetToSeq(OmittedKinds(p, ty)) ELSE <<>>,
      norders |-> Cardinality(orders),
      errs |-> SetToSeq(errs)]

\* family "collect": the source is described by its sites; predicted are the verdict and that every parse
\* reports the same error (distinct = 1); walks = the number of orders in which the parser's table of comma
\* lists can be walked (non-trivial when > 1), first = the comma list that comes first in the text
CollectCase(p) ==
  LET cp == CommaPositions(p.sites)
  IN [fam |-> "collect", lines |-> CLines, sites |-> p.sites, verdict |-> CollectVerdict(p.sites),
      distinct |-> 1, walks |-> Cardinality(WalksOf(cp)),
      first |-> IF cp = {} THEN <<0, 0>> ELSE CHOOSE m \in cp : \A x \in cp : m = x \/ PosLess("lex", m, x),
      \* the number of different reports over all walks of the table: 1 for the lexicographic order (the property
      \* CollectDeterministic, asserted by Emit), and what the slip `line smaller or column smaller` would give
      reports |-> Cardinality(ReportsOf("lex", cp)),
      slipReports |-> Cardinality(ReportsOf("either", cp))]

Init == ch = <<>> /\ prog = <<>> /\ emitted = FALSE
Build ==
  /\ Len(ch) < Len(Slots) /\ prog = <<>>
  /\ \E c \in Opts(Len(ch) + 1, ch) : ch' = Append(ch, c)
  /\ UNCHANGED <<prog, emitted>>
Finish ==
  /\ Len(ch) = Len(Slots) /\ prog = <<>>
  /\ prog' = Program(ch) /\ ch' = <<>> /\ UNCHANGED emitted
Emit ==
  /\ prog # <<>> /\ ~emitted
  /\ IF Family = "collect"
     THEN /\ Assert(CommaPositions(prog.sites) = {} \/ CollectDeterministic("lex", prog.sites),
                    <<"MODEL DEFECT: the report of collected errors depends on the walk", prog.sites>>)
          /\ \E j \in {ToJson(CollectCase(prog))} : PrintT(j)
     ELSE \E ty \in {DeclTypes(prog)}, gorder \in {IdentityOrder(prog)}, orders \in {PossibleOrders(prog, "any")} :
            \E j \in {ToJson(CaseT(prog, ty, gorder, orders))} : PrintT(j)
  /\ emitted' = TRUE /\ UNCHANGED <<ch, prog>>
Next == Build \/ Finish \/ Emit
Spec == Init /\ [][Next]_vars
=============================================================================
