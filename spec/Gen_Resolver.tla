---------------------------- MODULE Gen_Resolver ----------------------------
(* Behaviour export for Resolver: every program of a ResolverGen universe    *)
(* (exhaustive under breadth-first search, sampled under -simulate), with    *)
(* what the specification predicts for it: the declarative verdict, the type *)
(* and index of every parameter and global, the output of the program when   *)
(* it is accepted, the number of body orders the as-built resolver may use   *)
(* and the set of first errors it may report over those orders (C19a).       *)
EXTENDS ResolverGen, Json

CONSTANTS Family

Slots == IF Family = "usage" THEN UsageSlots ELSE MultiSlots
Opts(k, chosen) == IF Family = "usage" THEN SlotOpts(Slots[k], chosen) ELSE MultiOpts(Slots[k])
Program(chosen) == IF Family = "usage" THEN UsageProgram(chosen) ELSE MultiProgram(chosen)

\* prog is a state variable so that TLC holds the assembled program as an explicit value
\* (an operator result would be re-assembled lazily at every access)
VARIABLES ch, prog, emitted
vars == <<ch, prog, emitted>>

SetToSeq(S) == LET RECURSIVE go(_)
                   go(T) == IF T = {} THEN <<>> ELSE LET x == CHOOSE y \in T : TRUE IN <<x>> \o go(T \ {x})
               IN go(S)

Case(p) ==
  LET verdict == DeclVerdict(p)
      ty      == DeclTypes(p)
      gorder  == IdentityOrder(p)
      idx     == IndexesOf(p, ty, gorder)
      nodes   == SetToSeq(Nodes(p))
      orders  == PossibleOrders(p, "any")
      errs    == {ObsError(RunWithOrder(p, o, gorder)) : o \in orders}
  IN [fam |-> Family, prog |-> p, verdict |-> verdict,
      types |-> [k \in 1..Len(nodes) |-> [f |-> nodes[k][1], i |-> nodes[k][2], t |-> ty[nodes[k]], x |-> idx[nodes[k]]]],
      out |-> IF verdict = "accept" THEN ExecOut(p, ty) ELSE <<>>,
      norders |-> Cardinality(orders),
      errs |-> SetToSeq(errs)]

Init == ch = <<>> /\ prog = <<>> /\ emitted = FALSE
Build ==
  /\ Len(ch) < Len(Slots) /\ prog = <<>>
  /\ \E c \in Opts(Len(ch) + 1, ch) : ch' = Append(ch, c)
  /\ UNCHANGED <<prog, emitted>>
Finish ==
  /\ Len(ch) = Len(Slots) /\ prog = <<>>
  /\ prog' = Program(ch) /\ ch' = <<>> /\ UNCHANGED emitted
Emit ==
  /\ prog # <<>> /\ ~emitted
  /\ PrintT(ToJson(Case(prog)))
  /\ emitted' = TRUE /\ UNCHANGED <<ch, prog>>
Next == Build \/ Finish \/ Emit
Spec == Init /\ [][Next]_vars
=============================================================================
