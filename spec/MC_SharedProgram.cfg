SPECIFICATION Spec
CONSTANTS
  NProc = 2
  MaxLen = 2
  SharedCache = FALSE
INVARIANTS NoSharedWrite NoForeignRead Equivalent
PROPERTIES Immutable
CHECK_DEADLOCK FALSE
