SPECIFICATION Spec
CONSTANTS
  NProc = 2
  MaxLen = 2
  MaxRuns = 1
  SharedCache = FALSE
  ReuseInterp = FALSE
  SharedShellArgs = FALSE
  Cmds = FALSE
  Extra = "none"
INVARIANTS NoSharedWrite NoForeignRead Equivalent RegexesAsCompiled
PROPERTIES Immutable
CHECK_DEADLOCK FALSE
