----------------------------- MODULE Gen_Cancel -----------------------------
(* Scenario export for Cancel: the model is explored up to the moment of      *)
(* cancellation (states with a done context are not extended); every          *)
(* CancelNow transition exports the situation in which the context became     *)
(* done -- nesting of execution contexts, blocked-in-child state, position of *)
(* the poll counter, output printed so far, cancel vs deadline, before or     *)
(* after the first instruction -- with what the specification demands of the  *)
(* rest of the run.  Output printed so far is given per destination (direct / *)
(* buffered standard output, file, command) with how much of it is still      *)
(* pending in a buffer; all of it must have been delivered when the call      *)
(* returns.  Every uncancelled ExecuteContext state with a new shape          *)
(* is exported as a "nocancel" scenario (the context must be invisible); when *)
(* the step is a child ending by itself, the scenario names the instruction   *)
(* that waited (waited) and how the child ended (outcome: what system() /     *)
(* close() hand to the program: zero / status / signal / fail = -1 with a     *)
(* diagnostic).                                                               *)
(* The harness renders a scenario to an AWK program of that shape.            *)
EXTENDS Cancel, Json

Kinds(s) == [j \in 1..Len(s.stack) |-> s.stack[j].kind]
OpsClass == IF ps.waiting # "none" THEN "n/a" ELSE IF Counter = 0 THEN "after-poll" ELSE IF Counter = CheckEvery - 1 THEN "before-poll" ELSE "mid"

VARIABLE started
gvars == <<vars, started>>

CancelScenario ==
  [fam |-> "cancel", kinds |-> Kinds(ps), phase |-> ps.phase, waiting |-> ps.waiting, opsclass |-> OpsClass,
   printed |-> ps.printed, pending |-> ps.pending, why |-> why', started |-> started, checkevery |-> CheckEvery,
   \* what the specification demands of the rest of the run
   expect |-> [results |-> {"ctxerr", "ok"}, errid |-> why', maxsince |-> CheckEvery, mindelivered |-> ps.printed]]

\* Invisible: the run must equal the run of the context-free machine (Execute)
NoCancelScenario == [fam |-> "nocancel", kinds |-> Kinds(ps'), phase |-> ps'.phase, waiting |-> ps'.waiting, printed |-> ps'.printed,
                     waited |-> IF ps.waiting # "none" /\ ps'.waiting = "none" THEN ps.waiting ELSE "none",
                     outcome |-> ps'.lastret,
                     expect |-> [same |-> (ViewOf(ps') = ViewOf(bs'))]]

GInit == Init /\ started = FALSE
GNext ==
  \/ /\ CancelNow /\ ps.stack # <<>> /\ started' = started /\ PrintT(ToJson(CancelScenario))
  \/ /\ (Step \/ NextRecord \/ LeaveBegin \/ EnterEnd \/ ChildDone \/ BufferFull) /\ started' = TRUE
     /\ (useCtx /\ ps'.stack # <<>> /\ ViewOf(ps') # ViewOf(ps)) => PrintT(ToJson(NoCancelScenario))
  \/ FinishOk /\ started' = started

NotCancelled == ~cancelled /\ result = "running"
GSpec == GInit /\ [][GNext]_gvars
=============================================================================
