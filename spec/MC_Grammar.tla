----------------------------- MODULE MC_Grammar -----------------------------
(* The table-driven parser of Grammar.tla as a state machine explored by TLC. *)
(* Phase 1 (Expand): a derivation grows production by production until no     *)
(* hole is left -- every expression tree with at most MaxOps operators.       *)
(* Phase 2 (Start): a context and one of the two printers are chosen; the     *)
(* tree is printed.  Phase 3 (Shift / Reduce): the shift/reduce machine runs  *)
(* on the printed tokens.  Checked: the machine never leaves the strict       *)
(* language on a printed text, and it accepts with exactly the printed tree   *)
(* (grouping nodes apart):  Parse(MinParen(t, ctx), ctx) = t  and             *)
(* Parse(FullParen(t), ctx) = t.                                              *)
EXTENDS Grammar

CONSTANTS MaxOps,     \* operators per tree
          MaxOdd,     \* leaves that are not plain names (number, string, regex) per tree
          Prods,      \* productions in use
          Ctxs        \* contexts in use

VARIABLES deriv, pending, run
vars == <<deriv, pending, run>>

Idle == [on |-> FALSE]

Init == deriv = <<>> /\ pending = <<"E">> /\ run = Idle

Expand(p) ==
  /\ ~run.on
  /\ CanExpand(deriv, pending, p, Prods, MaxOps, MaxOdd)
  /\ deriv' = Append(deriv, p)
  /\ pending' = Holes(p) \o Tail(pending)
  /\ UNCHANGED run

Text(t, ctx, mode) == IF mode = "min" THEN MinTop(t, ctx) ELSE FullTop(t, ctx)

Start(ctx, mode) ==
  /\ ~run.on /\ pending = <<>>
  /\ LET t == FromDeriv(deriv) IN
     run' = [on |-> TRUE, ctx |-> ctx, mode |-> mode, t |-> t, ps |-> PInit(Text(t, ctx, mode), NoRel(ctx))]
  /\ UNCHANGED <<deriv, pending>>

Shift ==
  /\ run.on /\ Running(run.ps)
  /\ PStep(run.ps).last # "reduce"
  /\ run' = [run EXCEPT !.ps = PStep(run.ps)]
  /\ UNCHANGED <<deriv, pending>>

Reduce ==
  /\ run.on /\ Running(run.ps)
  /\ PStep(run.ps).last = "reduce"
  /\ run' = [run EXCEPT !.ps = PStep(run.ps)]
  /\ UNCHANGED <<deriv, pending>>

Next == (\E p \in Prods \cup {"lname"} : Expand(p)) \/ (\E c \in Ctxs, m \in {"min", "full"} : Start(c, m)) \/ Shift \/ Reduce
Spec == Init /\ [][Next]_vars

\* ---- properties ----
\* printed texts stay inside the strict language
NeverRejected == run.on => run.ps.st # "rej"
\* an accepted text denotes the printed tree
ParsesBack == (run.on /\ run.ps.st = "ok") => (Len(run.ps.opnd) = 1 /\ Strip(run.ps.opnd[1]) = Strip(run.t))
\* the stacks are bounded by the input (no runaway)
StacksBounded == run.on => Len(run.ps.opnd) + Len(run.ps.oprs) <= 4 * MaxOps + 4
\* the S-expression is a faithful name of the stripped tree on accepted runs
SxAgrees == (run.on /\ run.ps.st = "ok") => Sx(run.ps.opnd[1]) = Sx(run.t)
\* a print argument never shows a `>` outside brackets, so the first one of
\* `print e > dest` is the redirection
PrintGtIsRedirect ==
  (run.on /\ run.ps.last = "init" /\ NoRel(run.ctx)) =>
     FirstGt(run.ps.toks \o CtxTail("printgt"), 1, 0) = Len(run.ps.toks) + 1
\* the big-step function used by Gen_/Trace_ modules is this machine
RunIsMachine == (run.on /\ run.ps.last = "init") =>
     LET r == Parse(run.ps.toks, run.ctx) IN r.ok /\ Strip(r.t) = Strip(run.t)
=============================================================================
