SPECIFICATION Spec
CONSTANTS
  MaxField = 1000000
  MaxNum = 30000
  Fuel = 150
  Families = {"assign"}
CHECK_DEADLOCK FALSE
