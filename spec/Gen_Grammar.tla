----------------------------- MODULE Gen_Grammar -----------------------------
(* Behaviour export for Grammar: every expression tree with at most MaxOps    *)
(* operators (exhaustive under BFS; random derivations under -simulate),      *)
(* grown production by production.  For every complete derivation and every   *)
(* context one JSON line is printed: both texts (MinParen, FullParen) and the *)
(* S-expression the table prescribes for them.  The spec's own parser is run  *)
(* on both texts first (TLC stops if it does not return the tree: a defect of *)
(* the model, never of the code).  `rt` is C20's prediction (the text printed  *)
(* by the real printer denotes the same tree again); `loose` is the text with *)
(* no parentheses added at all, a C20 source whose tree is not predicted.     *)
EXTENDS Grammar, Json

CONSTANTS MaxOps, MaxOdd, Prods, Ctxs, OddCtxs, MinLen

VARIABLES deriv, pending
vars == <<deriv, pending>>

Init == deriv = <<>> /\ pending = <<"E">>

Case(t, ctx) ==
  LET mn == MinTop(t, ctx)
      fl == FullTop(t, ctx)
      pm == Parse(mn, ctx)
      pf == Parse(fl, ctx)
  IN /\ Assert(pm.ok /\ Strip(pm.t) = Strip(t), <<"spec parser does not return the tree of its own minimal text", mn, ctx>>)
     /\ Assert(pf.ok /\ Strip(pf.t) = Strip(t), <<"spec parser does not return the tree of its own full text", fl, ctx>>)
     /\ PrintT(ToJson([fam |-> "expr", ctx |-> ctx,
                       min |-> mn \o CtxTail(ctx), full |-> fl \o CtxTail(ctx),
                       loose |-> Loose(t) \o CtxTail(ctx),
                       sx |-> CtxSx(ctx, Sx(t)), rt |-> CtxSx(ctx, Sx(t)), nops |-> NOps(deriv), condtail |-> CondTail(t),
                       deriv |-> deriv]))

Expand(p) ==
  /\ CanExpand(deriv, pending, p, Prods, MaxOps, MaxOdd)
  /\ deriv' = Append(deriv, p)
  /\ pending' = Holes(p) \o Tail(pending)
  \* trees with a leaf that is not a plain name are exported in the contexts OddCtxs only
  /\ (pending' = <<>> /\ Len(deriv') >= MinLen) =>
        \A c \in (IF CountIn(deriv', OddLeaves) = 0 THEN Ctxs ELSE OddCtxs) : Case(FromDeriv(deriv'), c)

Next == \E p \in Prods \cup {"lname"} : Expand(p)
Spec == Init /\ [][Next]_vars
=============================================================================
