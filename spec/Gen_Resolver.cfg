SPECIFICATION Spec
CONSTANTS
  NP1 = 1
  NP2 = 1
  NP3 = 9
  NG = 2
  MaxMainCalls = 1
  AllowRev = FALSE
  MinArgs = 1
  NFm = 3
  NPf = 3
  FrLen = FALSE
  Forms = {}
  FxWide = FALSE
  CLines = 3
  MaxSites = 3
  CKinds = {"comma", "type", "undef"}
  Family = "usage"
CHECK_DEADLOCK FALSE
