SPECIFICATION Spec
CONSTANTS
  Serialised = TRUE
INVARIANTS AtMostOneInside NoLostUpdate
CHECK_DEADLOCK FALSE
