----------------------------- MODULE Gen_Reuse -----------------------------
(* Behaviour export for Reuse: every history of at most MaxRuns runs on one  *)
(* interpreter.  A history is extended run by run; a run is (reset variant   *)
(* applied before it, kind, configuration).  Every history is exported once, *)
(* with the status/error class the specification predicts for each run and   *)
(* the complete predicted output of its last run.  Unless ResetsAnywhere, a  *)
(* history that contains a reset is exported but not extended further, so    *)
(* the resets sit before the last run (the probe).  Runs at position MaxRuns *)
(* are drawn from LastKinds x LastCfgs, earlier ones from RunKinds x RunCfgs.*)
EXTENDS Reuse, Json

CONSTANT MaxRuns, RunKinds, RunCfgs, LastKinds, LastCfgs, ResetsAnywhere

VARIABLES st, h, open
vars == <<st, h, open>>

Init == st = StInit /\ h = <<>> /\ open = TRUE

Summary(vr, kind, cfg, res) == [vr |-> vr, kind |-> kind, cfg |-> cfg.name, status |-> res.status, err |-> res.err]

Next ==
  /\ open /\ Len(h) < MaxRuns
  /\ \E vr \in Variants :
     \E kind \in (IF Len(h) + 1 = MaxRuns THEN LastKinds ELSE RunKinds) :
     \E cn \in (IF Len(h) + 1 = MaxRuns THEN LastCfgs ELSE RunCfgs) :
       LET cfg == CfgNamed(cn)
           ex  == ExecSpec(ApplyVariant(st, vr), kind, cfg)
       IN /\ (h = <<>> => vr = "none")            \* resets on a new interpreter are covered by vr = "none"
          /\ st' = ex.st
          /\ h' = Append(h, Summary(vr, kind, cfg, ex.res))
          /\ open' = (ResetsAnywhere \/ vr = "none")
          /\ PrintT(ToJson([fam |-> "reuse", runs |-> h', out |-> ex.res.out]))

Spec == Init /\ [][Next]_vars
=============================================================================
