----------------------------- MODULE Gen_Reuse -----------------------------
(* Behaviour export for Reuse: histories of runs on one interpreter.  A      *)
(* history is extended run by run; a run is (reset variant applied before    *)
(* it, kind, configuration, tag = its position in the history, which makes   *)
(* its standard input its own).  Every history is exported once, with the    *)
(* status/error class the specification predicts for each run and the        *)
(* complete predicted output of its last run.  Unless ResetsAnywhere, a      *)
(* history that contains a reset is exported but not extended further, so    *)
(* the resets sit before the last run (the probe).  Runs at the last         *)
(* position are drawn from lk x lc, earlier ones from rk x rc.               *)
(*                                                                           *)
(* Families (variable fam, chosen in Init; one TLC run exports all of Fams): *)
(*  reuse  the 16 original kinds x c0..c2, probes plain / p_io / p_func      *)
(*         (constants MaxRuns, RunKinds, RunCfgs, LastKinds, LastCfgs); the  *)
(*         variant "ResetRand alone" only when Deep                          *)
(*  stdin  every path a run can read its standard input through (main loop,  *)
(*         plain getline, getline < "-", getline var < "-"), each run with   *)
(*         its own input, followed by every path again                       *)
(*  exit   runs that execute exit N outside END and then fail in END (error  *)
(*         or cancellation), followed by runs that end normally, by a bare   *)
(*         exit or by exit 3: the status and error Execute returns           *)
(*  ctx    Execute / ExecuteContext(Background) / ExecuteContext with a      *)
(*         context that is cancelled or expires after the call returned (or  *)
(*         is cancelled by the run itself), followed by runs that are long   *)
(*         enough to poll a context, fail with a run-time error, or start a  *)
(*         command (system(), cmd | getline)                                 *)
(*  range  the range pattern of the program opened and the run ended in     *)
(*         every way (closed by a later record, open to the end of input,    *)
(*         nextfile, getline or next in the body, exit / run-time error /    *)
(*         cancellation inside the range), also followed by a run that never *)
(*         reaches the main loop, then a probe whose input has a record      *)
(*         before the start pattern                                          *)
(*  rand   rand() / srand(n) / srand() in every order (fp() draws first; no  *)
(*         draw at all; srand(n) before the first draw; srand(n) only;       *)
(*         srand()), with resets before ANY run of the history (a reset      *)
(*         followed by runs that never draw, then one that seeds first)      *)
(*  args   per-run Args / Argv0 / Environ that differ from run to run        *)
(*         (longer, then shorter; other keys), programs that add and delete  *)
(*         elements of ARGV and ENVIRON; every run enumerates both arrays    *)
(*  flags  Chars, NoExec / NoFileWrites / NoFileReads / NoArgVars switched   *)
(*         on in one run and off in the next (and the reverse), followed by  *)
(*         runs that write and read files and start commands                 *)
(*  fmt    printf / sprintf of %c (numbers above 127, multi-byte strings),    *)
(*         %s of a number and %d, with format strings that are the same text *)
(*         in every run (every kind does it in fp()) or built at run time    *)
(*         (fmtc), in runs whose Config.Chars, CONVFMT and output mode differ *)
(*         from run to run, in both orders                                   *)
(*  depth  runs aborted 1 / 400 / 700 / CallLimit user-function calls deep    *)
(*         (run-time error, exit 3, cancellation at the bottom of the        *)
(*         recursion; runaway recursion stopped at the limit), once or       *)
(*         twice, followed by a probe that nests 3 / 700 / CallLimit /       *)
(*         CallLimit + 1 calls                                               *)
(* mvs: the reset variants before runs that are not the last one; any: a     *)
(* history with a reset is extended further.                                 *)
(* Deep widens the families other than "reuse" (thorough tier).              *)
EXTENDS Reuse, Json

CONSTANT Fams, MaxRuns, RunKinds, RunCfgs, LastKinds, LastCfgs, ResetsAnywhere, Deep

StdinKinds == {"plain", "gl_plain", "gl_dash", "gl_dashvar"}
FamDef(f) ==
  CASE f = "reuse" ->
         \* (ResetRand alone is a variant of the family "rand", which holds these kinds' draws too)
         [max |-> MaxRuns, rk |-> RunKinds, rc |-> RunCfgs, lk |-> LastKinds, lc |-> LastCfgs,
          vs |-> IF Deep THEN Variants ELSE {"none", "vars", "both"}, mvs |-> IF Deep THEN Variants ELSE {"none", "vars", "both"}, any |-> FALSE]
    [] f = "stdin" ->
         [max |-> 3,
          rk |-> StdinKinds \cup (IF Deep THEN {"exit3", "errfunc", "cancel", "csvhdr"} ELSE {}),
          rc |-> {"c0", "c1", "c2"},
          lk |-> StdinKinds,
          lc |-> IF Deep THEN {"c0", "c1", "c2", "c3"} ELSE {"c0", "c1"},
          vs |-> IF Deep THEN Variants ELSE {"none", "both"}, mvs |-> IF Deep THEN Variants ELSE {"none", "both"}, any |-> FALSE]
    [] f = "exit" ->
         [max |-> 3,
          rk |-> {"exit_enderr", "exitbegin", "exit_endcancel", "exit3", "plain"} \cup (IF Deep THEN {"errfunc", "p_func"} ELSE {}),
          rc |-> IF Deep THEN {"c0", "c1", "c2", "c3"} ELSE {"c0", "c1"},
          lk |-> {"plain", "p_func", "exit3"} \cup (IF Deep THEN {"exit_enderr", "gl_dash"} ELSE {}),
          lc |-> IF Deep THEN {"c0", "c1", "c4"} ELSE {"c0"},
          vs |-> IF Deep THEN Variants ELSE {"none", "both"}, mvs |-> IF Deep THEN Variants ELSE {"none", "both"}, any |-> FALSE]
    [] f = "ctx" ->
         [max |-> 3,
          rk |-> {"plain", "cancel"} \cup (IF Deep THEN {"sys", "pipe", "p_func", "exit_endcancel", "errfunc"} ELSE {}),
          rc |-> {"c0", "c1", "c3", "c4"},
          lk |-> {"p_func", "errfunc", "sys", "pipe"},
          lc |-> IF Deep THEN {"c0", "c1", "c4"} ELSE {"c0", "c4"},
          vs |-> IF Deep THEN Variants ELSE {"none", "both"}, mvs |-> IF Deep THEN Variants ELSE {"none", "both"}, any |-> FALSE]
    [] f = "range" ->
         [max |-> 3,
          rk |-> RangeKinds \cup {"plain", "exitbegin"},
          rc |-> IF Deep THEN {"c0", "c1", "c2"} ELSE {"c0", "c1"},
          lk |-> {"plain", "rg_close"} \cup (IF Deep THEN {"rg_eof"} ELSE {}),
          lc |-> IF Deep THEN {"c0", "c1", "c2"} ELSE {"c0", "c1"},
          vs |-> IF Deep THEN Variants ELSE {"none", "both"}, mvs |-> {"none", "both"}, any |-> FALSE]
    [] f = "rand" ->
         [max |-> 3,
          rk |-> {"plain", "rand", "srand5", "nr_plain", "sr_first", "sr_only", "sr_time"} \cup (IF Deep THEN {"exit3", "errfunc"} ELSE {}),
          rc |-> {"c0"},
          lk |-> {"plain", "rand", "srand5", "nr_plain", "sr_first", "sr_only"},
          lc |-> IF Deep THEN {"c0", "c1"} ELSE {"c0"},
          vs |-> Variants, mvs |-> IF Deep THEN Variants ELSE {"none", "rand"}, any |-> TRUE]
    [] f = "args" ->
         [max |-> 3,
          rk |-> {"plain", "av_write", "av_del"} \cup (IF Deep THEN {"exit3", "errfunc", "gl_plain"} ELSE {}),
          rc |-> {"c0", "c1", "c5", "c6"},
          lk |-> {"plain", "av_del"} \cup (IF Deep THEN {"av_write", "gl_plain"} ELSE {}),
          lc |-> {"c0", "c5", "c6"},
          vs |-> IF Deep THEN Variants ELSE {"none", "vars", "both"}, mvs |-> IF Deep THEN Variants ELSE {"none", "vars", "both"}, any |-> FALSE]
    [] f = "flags" ->
         [max |-> IF Deep THEN 3 ELSE 2,
          rk |-> {"plain", "openout", "midfile", "sys"},
          rc |-> {"c0", "c6", "c7"},
          lk |-> {"p_io", "midfile", "sys", "pipe", "openout"},
          lc |-> {"c0", "c7"},
          vs |-> {"none", "both"}, mvs |-> {"none", "both"}, any |-> FALSE]

    [] f = "fmt" ->
         [max |-> 3,
          rk |-> {"plain", "setfs", "fmtc"},
          rc |-> {"c0", "c1", "c6"},
          lk |-> {"plain", "fmtc"},
          lc |-> {"c0", "c6"},
          vs |-> {"none", "both"}, mvs |-> {"none", "both"}, any |-> FALSE]

    [] f = "depth" ->
         [max |-> 3,
          rk |-> {"dp_err", "dp_exit", "dp_cancel", "dp_ok", "plain", "errfunc"},
          rc |-> {"c8", "c9", "c11"},
          lk |-> {"dp_ok", "p_func"},
          lc |-> {"c0", "c9", "c10", "c11"},
          vs |-> {"none", "both"}, mvs |-> {"none", "both"}, any |-> FALSE]

VARIABLES st, h, open, fam
vars == <<st, h, open, fam>>

Init == st = StInit /\ h = <<>> /\ open = TRUE /\ fam \in Fams

Summary(vr, kind, cfg, res) ==
  [vr |-> vr, kind |-> kind, cfg |-> cfg.name, tag |-> cfg.tag, status |-> res.status, err |-> res.err]

\* (\E over a singleton binds the run's result once; the JSON text is built before PrintT takes its lock)
Next ==
  /\ open /\ Len(h) < FamDef(fam).max
  /\ \E fd \in {FamDef(fam)} :
     \E vr \in (IF h = <<>> THEN {"none"} ELSE IF Len(h) + 1 = fd.max THEN fd.vs ELSE fd.mvs) :    \* resets on a new interpreter are covered by "none"
     \E kind \in (IF Len(h) + 1 = fd.max THEN fd.lk ELSE fd.rk) :
     \E cn \in (IF Len(h) + 1 = fd.max THEN fd.lc ELSE fd.rc) :
     \E cfg \in {WithTag(CfgNamed(cn), Len(h) + 1)} :
     \E ex \in {ExecSpec(ApplyVariant(st, vr), kind, cfg)} :
          /\ st' = ex.st
          /\ h' = Append(h, Summary(vr, kind, cfg, ex.res))
          /\ open' = (ResetsAnywhere \/ fd.any \/ vr = "none")
          /\ fam' = fam
          /\ \E js \in {ToJson([fam |-> fam, runs |-> h', out |-> ex.res.out])} : Len(js) > 0 /\ PrintT(js)

Spec == Init /\ [][Next]_vars
=============================================================================
