----------------------------- MODULE Gen_Reuse -----------------------------
(* Behaviour export for Reuse: histories of runs on one interpreter.  A      *)
(* history is extended run by run; a run is (reset variant applied before    *)
(* it, kind, configuration, tag = its position in the history, which makes   *)
(* its standard input its own).  Every history is exported once, with the    *)
(* status/error class the specification predicts for each run and the        *)
(* complete predicted output of its last run.  Unless ResetsAnywhere, a      *)
(* history that contains a reset is exported but not extended further, so    *)
(* the resets sit before the last run (the probe).  Runs at the last         *)
(* position are drawn from lk x lc, earlier ones from rk x rc.               *)
(*                                                                           *)
(* Families (variable fam, chosen in Init; one TLC run exports all of Fams): *)
(*  reuse  the 16 original kinds x c0..c2, probes plain / p_io / p_func      *)
(*         (constants MaxRuns, RunKinds, RunCfgs, LastKinds, LastCfgs)       *)
(*  stdin  every path a run can read its standard input through (main loop,  *)
(*         plain getline, getline < "-", getline var < "-"), each run with   *)
(*         its own input, followed by every path again                       *)
(*  exit   runs that execute exit N outside END and then fail in END (error  *)
(*         or cancellation), followed by runs that end normally, by a bare   *)
(*         exit or by exit 3: the status and error Execute returns           *)
(*  ctx    Execute / ExecuteContext(Background) / ExecuteContext with a      *)
(*         context that is cancelled or expires after the call returned (or  *)
(*         is cancelled by the run itself), followed by runs that are long   *)
(*         enough to poll a context, fail with a run-time error, or start a  *)
(*         command (system(), cmd | getline)                                 *)
(* Deep widens the three new families (thorough tier).                       *)
EXTENDS Reuse, Json

CONSTANT Fams, MaxRuns, RunKinds, RunCfgs, LastKinds, LastCfgs, ResetsAnywhere, Deep

StdinKinds == {"plain", "gl_plain", "gl_dash", "gl_dashvar"}
FamDef(f) ==
  CASE f = "reuse" ->
         [max |-> MaxRuns, rk |-> RunKinds, rc |-> RunCfgs, lk |-> LastKinds, lc |-> LastCfgs, vs |-> Variants]
    [] f = "stdin" ->
         [max |-> 3,
          rk |-> StdinKinds \cup (IF Deep THEN {"exit3", "errfunc", "cancel", "csvhdr"} ELSE {}),
          rc |-> {"c0", "c1", "c2"},
          lk |-> StdinKinds,
          lc |-> IF Deep THEN {"c0", "c1", "c2", "c3"} ELSE {"c0", "c1"},
          vs |-> IF Deep THEN Variants ELSE {"none", "both"}]
    [] f = "exit" ->
         [max |-> 3,
          rk |-> {"exit_enderr", "exitbegin", "exit_endcancel", "exit3", "plain"} \cup (IF Deep THEN {"errfunc", "p_func"} ELSE {}),
          rc |-> IF Deep THEN {"c0", "c1", "c2", "c3"} ELSE {"c0", "c1"},
          lk |-> {"plain", "p_func", "exit3"} \cup (IF Deep THEN {"exit_enderr", "gl_dash"} ELSE {}),
          lc |-> IF Deep THEN {"c0", "c1", "c4"} ELSE {"c0"},
          vs |-> IF Deep THEN Variants ELSE {"none", "both"}]
    [] f = "ctx" ->
         [max |-> 3,
          rk |-> {"plain", "cancel"} \cup (IF Deep THEN {"sys", "pipe", "p_func", "exit_endcancel", "errfunc"} ELSE {}),
          rc |-> {"c0", "c1", "c3", "c4"},
          lk |-> {"p_func", "errfunc", "sys", "pipe"},
          lc |-> IF Deep THEN {"c0", "c1", "c4"} ELSE {"c0", "c4"},
          vs |-> IF Deep THEN Variants ELSE {"none", "both"}]

VARIABLES st, h, open, fam
vars == <<st, h, open, fam>>

Init == st = StInit /\ h = <<>> /\ open = TRUE /\ fam \in Fams

Summary(vr, kind, cfg, res) ==
  [vr |-> vr, kind |-> kind, cfg |-> cfg.name, tag |-> cfg.tag, status |-> res.status, err |-> res.err]

\* (\E over a singleton binds the run's result once; the JSON text is built before PrintT takes its lock)
Next ==
  /\ open /\ Len(h) < FamDef(fam).max
  /\ \E fd \in {FamDef(fam)} :
     \E vr \in (IF h = <<>> THEN {"none"} ELSE fd.vs) :    \* resets on a new interpreter are covered by "none"
     \E kind \in (IF Len(h) + 1 = fd.max THEN fd.lk ELSE fd.rk) :
     \E cn \in (IF Len(h) + 1 = fd.max THEN fd.lc ELSE fd.rc) :
     \E cfg \in {WithTag(CfgNamed(cn), Len(h) + 1)} :
     \E ex \in {ExecSpec(ApplyVariant(st, vr), kind, cfg)} :
          /\ st' = ex.st
          /\ h' = Append(h, Summary(vr, kind, cfg, ex.res))
          /\ open' = (ResetsAnywhere \/ vr = "none")
          /\ fam' = fam
          /\ \E js \in {ToJson([fam |-> fam, runs |-> h', out |-> ex.res.out])} : Len(js) > 0 /\ PrintT(js)

Spec == Init /\ [][Next]_vars
=============================================================================
