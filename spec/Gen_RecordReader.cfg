SPECIFICATION Spec
CONSTANTS
  MaxLen = 4
  EmitMin = 0
  Sel = "base"
CHECK_DEADLOCK FALSE
