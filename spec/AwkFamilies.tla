----------------------------- MODULE AwkFamilies -----------------------------
(***************************************************************************)
(* Program families for C01.  Each family crosses one mechanism of the     *)
(* byte-code compiler completely while keeping the rest of the program     *)
(* minimal.  A case is [fam, mech, prog, variants, input]: `variants` are  *)
(* spellings that the reference semantics proves equivalent to `prog`      *)
(* (checked here by TLC for every case: a difference is a defect of the    *)
(* model and stops the run); the harness requires the real outputs of all  *)
(* spellings to equal the single prediction exported with the case.        *)
(***************************************************************************)
EXTENDS AwkBuild

CONSTANT Families        \* which families to export, e.g. {"assign", "cond"}

REC3 == <<D1, D0, SP, D9, SP, c_a, c_b, c_c>>          \* "10 9 abc"
REC2 == <<D1, D0, SP, D2, D0, SP, D3, D0>>             \* "10 20 30"
IdFunc == Func("id", <<Param("v")>>, <<SRet(V("v"))>>)

\* ------------------------------------------------------------ F-assign
LvKinds == {"gvar", "lvar", "special", "fieldc", "fielde", "gelem", "lelem"}
AssignOps == {"=", "+", "-", "*", "/", "%", "^", "++pre", "++post", "--pre", "--post"}
Positions == {"stmt", "value", "cond", "arg", "subscript"}
Inits == {"none", "five", "str3x"}
Rhss == {2, 7}

LvOf(kind) ==
  CASE kind = "gvar" -> V("x") [] kind = "lvar" -> V("p") [] kind = "special" -> V("NR")
    [] kind = "fieldc" -> Fld(N(2)) [] kind = "fielde" -> Fld(V("i"))
    [] kind = "gelem" -> Idx("a", S(<<c_k>>)) [] kind = "lelem" -> Idx("A", S(<<c_k>>))

InitVal(init) == CASE init = "five" -> N(5) [] init = "str3x" -> S(<<D3, c_c>>) [] OTHER -> NoE

\* the operation as an expression, and its equivalent spellings (value-equal)
OpExprs(op, lv, rhs) ==
  CASE op = "=" -> <<Asg(lv, N(rhs))>>
    [] op \in {"+", "-", "*", "/", "%", "^"} -> <<Aug(op, lv, N(rhs)), Asg(lv, Bin(op, lv, N(rhs)))>>
    [] op = "++pre" -> <<Inc("++", TRUE, lv), Aug("+", lv, N(1)), Asg(lv, Bin("+", lv, N(1)))>>
    [] op = "--pre" -> <<Inc("--", TRUE, lv), Aug("-", lv, N(1)), Asg(lv, Bin("-", lv, N(1)))>>
    [] op = "++post" -> <<Inc("++", FALSE, lv), Bin("-", Aug("+", lv, N(1)), N(1))>>
    [] op = "--post" -> <<Inc("--", FALSE, lv), Bin("+", Aug("-", lv, N(1)), N(1))>>
\* in statement position the value is discarded, so pre and post forms are equivalent too
StmtExprs(op, lv, rhs) ==
  CASE op \in {"++pre", "++post"} -> <<Inc("++", op = "++pre", lv), Inc("++", op # "++pre", lv), Aug("+", lv, N(1))>>
    [] op \in {"--pre", "--post"} -> <<Inc("--", op = "--pre", lv), Inc("--", op # "--pre", lv), Aug("-", lv, N(1))>>
    [] OTHER -> OpExprs(op, lv, rhs)

UseAt(pos, ex) ==
  CASE pos = "stmt" -> <<SExpr(ex)>>
    [] pos = "value" -> <<SPrint(<<ex>>)>>
    [] pos = "cond" -> <<SIf(Bin(">", ex, N(3)), <<T1(<<C_T>>)>>, <<T1(<<C_F>>)>>)>>
    [] pos = "arg" -> <<SPrint(<<Call("id", <<ex>>)>>)>>
    [] pos = "subscript" -> <<SExpr(Asg(Idx("b", ex), N(1))), SForIn("q", "b", <<SPrint(<<V("q")>>)>>)>>

AssignBody(kind, init, pos, ex) ==
  LET lv == LvOf(kind)
      pre == (IF kind \in {"fieldc", "fielde"} THEN <<SExpr(Asg(Fld(N(0)), S(REC2)))>> ELSE <<>>)
             \o (IF kind = "fielde" THEN <<SExpr(Asg(V("i"), N(2)))>> ELSE <<>>)
             \o (IF init # "none" /\ kind \notin {"lvar"} THEN <<SExpr(Asg(lv, InitVal(init)))>> ELSE <<>>)
  IN pre \o UseAt(pos, ex) \o <<SPrint(<<lv>>)>>
     \o (IF kind \in {"fieldc", "fielde"} THEN <<SPrint(<<Fld(N(0)), V("NF")>>)>> ELSE <<>>)

AssignProg(kind, init, pos, ex) ==
  LET body == AssignBody(kind, init, pos, ex)
  IN CASE kind = "lvar" ->
            Prog(<<SExpr(Call("f", IF init = "none" THEN <<>> ELSE <<InitVal(init)>>))>>, <<>>, <<>>,
                 <<IdFunc, Func("f", <<Param("p")>>, body)>>)
       [] kind = "lelem" ->
            Prog(<<SExpr(Call("f", <<V("a")>>)), SPrint(<<Idx("a", S(<<c_k>>))>>)>>, <<>>, <<>>,
                 <<IdFunc, Func("f", <<AParam("A")>>, body)>>)
       [] OTHER -> Prog(body, <<>>, <<>>, <<IdFunc>>)

AssignCases ==
  {LET exs == IF pos = "stmt" THEN StmtExprs(op, LvOf(kind), rhs) ELSE OpExprs(op, LvOf(kind), rhs)
   IN [fam |-> "assign", mech |-> "assign/" \o kind \o "/" \o pos \o "/" \o op,
       prog |-> AssignProg(kind, init, pos, exs[1]),
       variants |-> [j \in 1..(Len(exs) - 1) |-> AssignProg(kind, init, pos, exs[j + 1])],
       input |-> <<>>]
   : kind \in LvKinds, op \in AssignOps, pos \in Positions, init \in Inits, rhs \in Rhss}

\* -------------------------------------------------------------- F-cond
CmpOps == {"<", "<=", "==", "!=", ">", ">="}
Inverse(op) == CASE op = "<" -> ">=" [] op = "<=" -> ">" [] op = "==" -> "!=" [] op = "!=" -> "==" [] op = ">" -> "<=" [] op = ">=" -> "<"
Mirror(op)  == CASE op = "<" -> ">" [] op = "<=" -> ">=" [] op = "==" -> "==" [] op = "!=" -> "!=" [] op = ">" -> "<" [] op = ">=" -> "<="
NanOp == Bi("log", <<N(0 - 1)>>)         \* a NaN: every ordering comparison with it is false, so is ==, and != is true
Operands == { N(0), N(1), N(2), N(10), S(<<c_a>>), S(<<D0>>), S(<<D1, D0>>), S(<<D9>>), Fld(N(1)), Fld(N(2)), Fld(N(3)), V("u"), S(<<>>), NanOp }

TF(c) == SIf(c, <<T1(<<C_T>>)>>, <<T1(<<C_F>>)>>)
CondSpellings(op, x, y) ==
  LET c == Bin(op, x, y)
  IN << TF(c),                                                    \* if / else: fused jump, inverted
        SPrint(<<Cnd(c, S(<<C_T>>), S(<<C_F>>))>>),                \* ?: fused jump
        SBlock(<<SExpr(Asg(V("t"), c)), TF(V("t"))>>),              \* comparison opcode + JumpFalse
        \* the inverse comparison, negated (not the same thing when an operand is unordered)
        IF x = NanOp \/ y = NanOp THEN TF(Grp(c)) ELSE TF(Un("!", Bin(Inverse(op), x, y))),
        TF(Bin(Mirror(op), y, x)),                                 \* operands swapped
        TF(Bin("&&", c, N(1))), TF(Bin("||", c, N(0))),
        SIf(Un("!", c), <<T1(<<C_F>>)>>, <<T1(<<C_T>>)>>),
        SBlock(<<SExpr(Asg(V("w"), N(1))), SWhile(c, <<SExpr(Asg(V("w"), N(0))), T1(<<C_T>>), SBreak>>),
                 SIf(V("w"), <<T1(<<C_F>>)>>, <<>>)>>),             \* loop-top test
        SBlock(<<SExpr(Asg(V("w"), N(0))),
                 SDo(<<SIf(Bin("==", V("w"), N(1)), <<SExpr(Asg(V("w"), N(2))), SBreak>>, <<>>), SExpr(Inc("++", FALSE, V("w")))>>, c),
                 SIf(Bin("==", V("w"), N(2)), <<T1(<<C_T>>)>>, <<T1(<<C_F>>)>>)>>)   \* loop-bottom test
     >>
CondProg(st) == Prog(<<SExpr(Asg(Fld(N(0)), S(REC3))), st>>, <<>>, <<>>, <<>>)
CondCases ==
  {LET sp == CondSpellings(op, x, y)
   IN [fam |-> "cond", mech |-> "cond/" \o op,
       prog |-> CondProg(sp[1]), variants |-> [j \in 1..(Len(sp) - 1) |-> CondProg(sp[j + 1])], input |-> <<>>]
   : op \in CmpOps, x \in Operands, y \in Operands}

\* -------------------------------------------------------------- F-loop
\* for (i = A; i op B; i += D) { print i; guard }   ==  while  ==  if + do-while
LoopCases ==
  {LET c == Bin(op, V("i"), bnd)
       guard == SIf(Bin(">", Inc("++", TRUE, V("g")), N(3)), <<SBreak>>, <<>>)
       body == <<SPrint(<<V("i")>>), guard>>
       step == SExpr(Aug("+", V("i"), N(dlt)))
       fin == SPrint(<<S(<<c_z>>), V("i")>>)
       pre == SExpr(Asg(Fld(N(0)), S(REC3)))
   IN [fam |-> "loop", mech |-> "loop/" \o op,
       prog |-> BeginOnly(<<pre, SFor(SExpr(Asg(V("i"), N(a0))), c, step, body), fin>>),
       variants |-> << BeginOnly(<<pre, SExpr(Asg(V("i"), N(a0))), SWhile(c, body \o <<step>>), fin>>),
                       BeginOnly(<<pre, SExpr(Asg(V("i"), N(a0))), SIf(c, <<SDo(body \o <<step>>, c)>>, <<>>), fin>>),
                       BeginOnly(<<pre, SExpr(Asg(V("i"), N(a0))), SFor(NoE, NoE, NoE, <<SIf(Un("!", c), <<SBreak>>, <<>>)>> \o body \o <<step>>), fin>>) >>,
       input |-> <<>>]
   : op \in CmpOps, a0 \in {0, 2, 9}, bnd \in {N(2), N(9), Fld(N(2)), S(<<D1, D0>>)}, dlt \in {1, 0 - 1, 3}}

\* -------------------------------------------------------------- F-flow
\* loop nests with break / continue / exit / return / next at every body position
LoopKinds == {"while", "do", "for", "forin"}
Jumps == {"break", "continue", "exit", "return", "next", "none"}
JumpStmt(jm) == CASE jm = "break" -> SBreak [] jm = "continue" -> SCont [] jm = "exit" -> SExit(N(3))
                  [] jm = "return" -> SRet(N(7)) [] jm = "next" -> SNext [] OTHER -> T1(<<c_s>>)
\* a counted loop of kind lk over variable nm running body 3 times (for-in: over keys 1..3 of array "r")
CountLoop(lk, nm, body) ==
  CASE lk = "while" -> <<SExpr(Asg(V(nm), N(0))), SWhile(Bin("<", V(nm), N(3)), <<SExpr(Inc("++", FALSE, V(nm)))>> \o body)>>
    [] lk = "do" -> <<SExpr(Asg(V(nm), N(0))), SDo(<<SExpr(Inc("++", FALSE, V(nm)))>> \o body, Bin("<", V(nm), N(3)))>>
    [] lk = "for" -> <<SFor(SExpr(Asg(V(nm), N(1))), Bin("<=", V(nm), N(3)), SExpr(Inc("++", FALSE, V(nm))), body)>>
    [] lk = "forin" -> <<SForIn(nm, "r", body)>>
\* inside for-in the iteration order is not specified: bodies only count
FlowBody(lk1, lk2, jm, where, cnd) ==
  LET mark(str) == IF lk1 = "forin" \/ lk2 = "forin" THEN SExpr(Inc("++", FALSE, V("n"))) ELSE SPrint(<<S(str), V("i"), V("j")>>)
      jump == IF cnd = "always" THEN JumpStmt(jm)
              ELSE SIf(Bin("==", V(IF lk2 = "forin" \/ lk1 = "forin" THEN "n" ELSE IF where \in {"in-pre", "in-post"} THEN "j" ELSE "i"), N(2)), <<JumpStmt(jm)>>, <<>>)
      inner == CountLoop(lk2, "j", (IF where = "in-pre" THEN <<jump>> ELSE <<>>) \o <<mark(<<c_b>>)>> \o (IF where = "in-post" THEN <<jump>> ELSE <<>>))
  IN CountLoop(lk1, "i", (IF where = "out-pre" THEN <<jump>> ELSE <<>>) \o <<mark(<<c_a>>)>> \o inner \o (IF where = "out-post" THEN <<jump>> ELSE <<>>) \o <<mark(<<c_c>>)>>)
FlowOK(jm, ctx) ==
  /\ (jm = "return" => ctx \in {"func", "rulefunc"})
  /\ (jm = "next" => ctx \in {"rule", "rulefunc"})
FlowCase(lk1, lk2, jm, where, cnd, ctx) ==
  LET body == FlowBody(lk1, lk2, jm, where, cnd)
      setup == <<SExpr(Bi("split", <<S(<<c_a, SP, c_b, SP, c_c>>), V("r")>>))>>
      tail == <<SPrint(<<S(<<c_z>>), V("n")>>)>>
  IN [fam |-> "flow", mech |-> "flow/" \o lk1 \o "/" \o lk2 \o "/" \o jm \o "/" \o where,
      prog |-> CASE ctx = "begin" -> Prog(setup \o body \o tail, <<>>, <<T1(<<c_e>>)>>, <<>>)
                 [] ctx = "rule" -> Prog(setup, <<Rule(NoE, body \o tail), Rule(NoE, <<T1(<<c_r>>)>>)>>, <<T1(<<c_e>>)>>, <<>>)
                 [] ctx = "func" -> Prog(setup \o <<SPrint(<<Call("f", <<V("r")>>)>>)>> \o tail, <<>>, <<T1(<<c_e>>)>>,
                                         <<Func("f", <<AParam("r"), Param("i"), Param("j")>>, body \o <<SRet(N(1))>>)>>)
                 [] ctx = "rulefunc" -> Prog(setup, <<Rule(NoE, <<SPrint(<<Call("f", <<V("r")>>)>>)>> \o tail), Rule(NoE, <<T1(<<c_r>>)>>)>>, <<T1(<<c_e>>)>>,
                                         <<Func("f", <<AParam("r"), Param("i"), Param("j")>>, body \o <<SRet(N(1))>>)>>),
      variants |-> <<>>, input |-> << <<c_x>>, <<c_y>> >>]
FlowCases ==
  UNION {IF FlowOK(jm, ctx) THEN {FlowCase(lk1, lk2, jm, where, cnd, ctx)} ELSE {}
         : lk1 \in LoopKinds, lk2 \in LoopKinds, jm \in Jumps, where \in {"in-pre", "in-post", "out-pre", "out-post"},
           cnd \in {"always", "second"}, ctx \in {"begin", "rule", "func", "rulefunc"}}

\* ------------------------------------------------------------ F-concat
\* chains of 2..5 operands in every grouping, with side-effecting operands
ConcatOperands == << S(<<c_a>>), Inc("++", FALSE, V("x")), N(7), Asg(V("y"), Cc(V("y"), S(<<c_q>>))), Fld(N(1)) >>
RECURSIVE Groupings(_)
Groupings(ops) ==       \* all binary concatenation trees over the operand sequence
  IF Len(ops) = 1 THEN {ops[1]}
  ELSE UNION {{Cc(l, r) : l \in Groupings(SubSeq(ops, 1, j)), r \in Groupings(SubSeq(ops, j + 1, Len(ops)))} : j \in 1..(Len(ops) - 1)}
RECURSIVE LeftChain(_)
LeftChain(ops) == IF Len(ops) = 1 THEN ops[1] ELSE Cc(LeftChain(SubSeq(ops, 1, Len(ops) - 1)), ops[Len(ops)])
ConcatProg(ex) == BeginOnly(<<SExpr(Asg(Fld(N(0)), S(REC3))), SPrint(<<ex>>), SPrint(<<V("x"), V("y")>>)>>)
ConcatCase(tr, m, st0) ==
  [fam |-> "concat", mech |-> "concat/" \o ToString(m), prog |-> ConcatProg(tr),
   \* concatenation is associative: the left-nested chain is an equivalent spelling of every grouping
   variants |-> << ConcatProg(LeftChain(SubSeq(ConcatOperands, st0, st0 + m - 1))) >>, input |-> <<>>]
ConcatCases ==
  UNION {UNION {{ConcatCase(tr, m, st0) : tr \in Groupings(SubSeq(ConcatOperands, st0, st0 + m - 1))}
                : st0 \in 1..(6 - m)} : m \in 2..5}

\* -------------------------------------------------------------- F-call
\* parameters scalar / array / missing, recursion, arrays by reference, return inside loops
CallCases ==
  {[fam |-> "call", mech |-> "call/" \o nm, prog |-> pg, variants |-> <<>>, input |-> <<>>] : <<nm, pg>> \in {
    <<"scalar-by-value",
      Prog(<<SExpr(Asg(V("x"), N(5))), SPrint(<<Call("f", <<V("x")>>)>>), SPrint(<<V("x")>>)>>, <<>>, <<>>,
           <<Func("f", <<Param("p")>>, <<SExpr(Aug("+", V("p"), N(1))), SRet(V("p"))>>)>>)>>,
    <<"array-by-reference",
      Prog(<<SExpr(Asg(Idx("a", N(1)), N(5))), SExpr(Call("f", <<V("a")>>)), SPrint(<<Idx("a", N(1)), Idx("a", N(2))>>)>>, <<>>, <<>>,
           <<Func("f", <<AParam("A")>>, <<SExpr(Inc("++", FALSE, Idx("A", N(1)))), SExpr(Asg(Idx("A", N(2)), S(<<c_b>>)))>>)>>)>>,
    <<"missing-scalars",
      Prog(<<SPrint(<<Call("f", <<N(1)>>)>>), SPrint(<<Call("f", <<N(1), N(2)>>)>>), SPrint(<<Call("f", <<>>)>>)>>, <<>>, <<>>,
           <<Func("f", <<Param("p"), Param("q"), Param("r")>>,
                  <<SExpr(Aug("+", V("r"), N(10))), SRet(Cc(Cc(Cc(V("p"), S(<<COMMA>>)), Cc(V("q"), S(<<COMMA>>))), V("r")))>>)>>)>>,
    <<"missing-array-fresh-each-call",
      Prog(<<SPrint(<<Call("f", <<N(1)>>)>>), SPrint(<<Call("f", <<N(2)>>)>>)>>, <<>>, <<>>,
           <<Func("f", <<Param("p"), AParam("L")>>,
                  <<SExpr(Asg(Idx("L", V("p")), N(1))), SExpr(Call("g", <<V("L")>>)), SRet(Bi("alength", <<V("L")>>))>>),
             Func("g", <<AParam("M")>>, <<SExpr(Asg(Idx("M", S(<<c_z>>)), N(1)))>>)>>)>>,
    <<"scalar-array-interleaved",
      Prog(<<SExpr(Asg(Idx("a", N(1)), N(4))), SExpr(Asg(Idx("b", N(1)), N(6))),
             SPrint(<<Call("f", <<N(1), V("a"), N(2), V("b")>>)>>), SPrint(<<Call("f", <<N(1), V("a")>>)>>),
             SPrint(<<Idx("a", N(9)), Idx("b", N(9))>>)>>, <<>>, <<>>,
           <<Func("f", <<Param("p"), AParam("A"), Param("q"), AParam("B"), Param("r")>>,
                  <<SExpr(Asg(Idx("A", N(9)), V("p"))), SExpr(Asg(Idx("B", N(9)), V("q"))),
                    SRet(Cc(Cc(Cc(V("p"), V("q")), Cc(V("r"), S(<<COLON>>))), Cc(Idx("A", N(1)), Idx("B", N(1)))))>>)>>)>>,
    <<"recursion-factorial",
      Prog(<<SPrint(<<Call("f", <<N(5)>>)>>)>>, <<>>, <<>>,
           <<Func("f", <<Param("p")>>, <<SIf(Bin("<=", V("p"), N(1)), <<SRet(N(1))>>, <<>>), SRet(Bin("*", V("p"), Call("f", <<Bin("-", V("p"), N(1))>>)))>>)>>)>>,
    <<"recursion-locals-independent",
      Prog(<<SPrint(<<Call("f", <<N(3)>>)>>)>>, <<>>, <<>>,
           <<Func("f", <<Param("p"), Param("l")>>,
                  <<SExpr(Asg(V("l"), V("p"))), SIf(Bin(">", V("p"), N(0)), <<SExpr(Call("f", <<Bin("-", V("p"), N(1))>>))>>, <<>>),
                    SPrint(<<V("p"), V("l")>>), SRet(V("l"))>>)>>)>>,
    <<"mutual-recursion-array",
      Prog(<<SExpr(Call("f", <<V("a"), N(3)>>)), SPrint(<<Bi("alength", <<V("a")>>), Idx("a", N(1)), Idx("a", N(3))>>)>>, <<>>, <<>>,
           <<Func("f", <<AParam("A"), Param("p")>>, <<SIf(Bin(">", V("p"), N(0)), <<SExpr(Asg(Idx("A", V("p")), S(<<c_g>>))), SExpr(Call("g", <<V("A"), Bin("-", V("p"), N(1))>>))>>, <<>>)>>),
             Func("g", <<AParam("B"), Param("q")>>, <<SIf(Bin(">", V("q"), N(0)), <<SExpr(Asg(Idx("B", V("q")), S(<<c_h>>))), SExpr(Call("f", <<V("B"), Bin("-", V("q"), N(1))>>))>>, <<>>)>>)>>)>>,
    <<"deep-recursion-locals-survive-stack-growth",
      Prog(<<SPrint(<<Call("f", <<N(45)>>), Call("h", <<N(40)>>)>>)>>, <<>>, <<>>,
           <<Func("f", <<Param("p"), Param("l"), Param("r")>>,
                  <<SIf(Bin("==", V("p"), N(0)), <<SRet(N(0))>>, <<>>), SExpr(Asg(V("l"), V("p"))),
                    SExpr(Asg(V("r"), Call("f", <<Bin("-", V("p"), N(1))>>))), SRet(Bin("+", V("l"), V("r")))>>),
             Func("h", <<Param("p"), Param("l"), Param("m")>>,
                  <<SIf(Bin("==", V("p"), N(0)), <<SRet(N(0))>>, <<>>), SExpr(Asg(V("l"), V("p"))), SExpr(Asg(V("m"), N(1))),
                    SRet(Bin("+", Bin("+", Call("h", <<Bin("-", V("p"), N(1))>>), V("l")), V("m")))>>)>>)>>,
    <<"return-inside-loops",
      Prog(<<SPrint(<<Call("f", <<N(2)>>)>>), SPrint(<<Call("f", <<N(9)>>)>>)>>, <<>>, <<>>,
           <<Func("f", <<Param("p"), Param("i"), Param("j")>>,
                  <<SFor(SExpr(Asg(V("i"), N(0))), Bin("<", V("i"), N(3)), SExpr(Inc("++", FALSE, V("i"))),
                         <<SExpr(Asg(V("j"), N(0))),
                           SWhile(Bin("<", V("j"), N(3)), <<SIf(Bin("==", Bin("+", V("i"), V("j")), V("p")), <<SRet(Cc(V("i"), V("j")))>>, <<>>), SExpr(Inc("++", FALSE, V("j")))>>)>>),
                    SRet(S(<<c_m>>))>>)>>)>>,
    <<"no-return-value",
      Prog(<<SExpr(Asg(V("x"), Call("f", <<>>))), SPrint(<<Cc(Cc(S(<<LBRK>>), V("x")), S(<<RBRK>>)), Bin("+", V("x"), N(1))>>)>>, <<>>, <<>>,
           <<Func("f", <<>>, <<T1(<<c_q>>)>>)>>)>>,
    <<"call-in-condition-and-args",
      Prog(<<SIf(Bin("<", Call("f", <<N(1)>>), Call("f", <<N(2)>>)), <<T1(<<C_T>>)>>, <<T1(<<C_F>>)>>), SPrint(<<Call("f", <<Call("f", <<Call("f", <<N(1)>>)>>)>>)>>)>>, <<>>, <<>>,
           <<Func("f", <<Param("p")>>, <<SExpr(Inc("++", FALSE, V("c"))), SRet(Bin("+", Bin("*", V("p"), N(2)), V("c")))>>)>>)>>,
    <<"global-shadowed-by-param",
      Prog(<<SExpr(Asg(V("p"), N(1))), SExpr(Call("f", <<N(9)>>)), SPrint(<<V("p"), V("q")>>)>>, <<>>, <<>>,
           <<Func("f", <<Param("p")>>, <<SExpr(Asg(V("p"), N(2))), SExpr(Asg(V("q"), V("p")))>>)>>)>>
  }}

\* ------------------------------------------------------------- F-const
\* constant-field and constant-subscript shortcuts vs computed spellings
ConstCases ==
  {[fam |-> "const", mech |-> "const/field", input |-> <<>>,
    prog |-> BeginOnly(<<SExpr(Asg(Fld(N(0)), S(REC2))), SExpr(Asg(V("i"), N(kk))), SPrint(<<Fld(N(kk))>>),
                         SExpr(Asg(Fld(N(kk)), S(<<c_w>>))), SPrint(<<Fld(N(0)), V("NF")>>)>>),
    variants |-> << BeginOnly(<<SExpr(Asg(Fld(N(0)), S(REC2))), SExpr(Asg(V("i"), N(kk))), SPrint(<<Fld(V("i"))>>),
                                SExpr(Asg(Fld(V("i")), S(<<c_w>>))), SPrint(<<Fld(N(0)), V("NF")>>)>>),
                    BeginOnly(<<SExpr(Asg(Fld(N(0)), S(REC2))), SExpr(Asg(V("i"), N(kk))), SPrint(<<Fld(Bin("+", N(0), N(kk)))>>),
                                SExpr(Asg(Fld(Bin("-", N(kk + 1), N(1))), S(<<c_w>>))), SPrint(<<Fld(N(0)), V("NF")>>)>>),
                    BeginOnly(<<SExpr(Asg(Fld(N(0)), S(REC2))), SExpr(Asg(V("i"), N(kk))), SPrint(<<Fld(S(IntStr(kk)))>>),
                                SExpr(Asg(Fld(Grp(N(kk))), S(<<c_w>>))), SPrint(<<Fld(N(0)), V("NF")>>)>>) >>]
   : kk \in 0..5} \cup
  {[fam |-> "const", mech |-> "const/subscript", input |-> <<>>,
    prog |-> BeginOnly(<<SExpr(Asg(Idx("a", N(kk)), S(<<c_v>>))), SExpr(Asg(V("i"), N(kk))), SExpr(Aug("+", Idx("a", N(7)), N(2))),
                         SPrint(<<Idx("a", N(kk)), Idx("a", N(7)), InA(N(kk), "a"), InA(N(8), "a"), Bi("alength", <<V("a")>>)>>)>>),
    variants |-> << BeginOnly(<<SExpr(Asg(Idx("a", S(IntStr(kk))), S(<<c_v>>))), SExpr(Asg(V("i"), N(kk))), SExpr(Aug("+", Idx("a", S(<<D7>>)), N(2))),
                                SPrint(<<Idx("a", V("i")), Idx("a", Bin("+", N(3), N(4))), InA(V("i"), "a"), InA(S(<<D8>>), "a"), Bi("alength", <<V("a")>>)>>)>>) >>]
   : kk \in {0, 1, 12}} \cup
  {[fam |-> "const", mech |-> "const/multi-subscript", input |-> <<>>,
    prog |-> BeginOnly(<<SExpr(Asg(Idx("a", Multi(<<N(1), S(<<c_b>>)>>)), N(5))), SExpr(Inc("++", FALSE, Idx("a", Multi(<<N(1), S(<<c_b>>)>>)))),
                         SPrint(<<Idx("a", Multi(<<N(1), S(<<c_b>>)>>)), InA(Multi(<<N(1), S(<<c_b>>)>>), "a"), InA(Multi(<<N(1), S(<<c_c>>)>>), "a")>>)>>),
    variants |-> << BeginOnly(<<SExpr(Asg(Idx("a", Cc(Cc(N(1), V("SUBSEP")), S(<<c_b>>))), N(5))), SExpr(Aug("+", Idx("a", Multi(<<N(1), S(<<c_b>>)>>)), N(1))),
                                SPrint(<<Idx("a", Cc(N(1), Cc(V("SUBSEP"), S(<<c_b>>)))), InA(Cc(Cc(N(1), V("SUBSEP")), S(<<c_b>>)), "a"), InA(Multi(<<N(1), S(<<c_c>>)>>), "a")>>)>>) >>]}

\* ----------------------------------------------------------- F-pattern
Inputs3 == { << <<D1, D0, SP, c_a>>, <<D5, SP, c_b, c_a>>, <<D7>> >>, << <<c_a, c_b>>, <<>>, <<D0>> >> }
Patterns == { NoE, Bin("==", V("NR"), N(2)), Bin(">", Fld(N(1)), N(5)), Fld(N(2)), Fld(N(1)),
              Mat(Fld(N(0)), Cat(Lit(c_b), Opt(Lit(c_a)))), NMat(Fld(N(0)), Lit(c_a)), Bin("&&", Bin(">=", V("NR"), N(2)), Fld(N(0))),
              Un("!", Fld(N(1))), Asg(V("k"), Bin("%", V("NR"), N(2))) }
PatternCases ==
  {[fam |-> "pattern", mech |-> "pattern", input |-> inp, variants |-> <<>>,
    prog |-> Prog(IF hb THEN <<SExpr(Asg(V("k"), N(1))), T1(<<c_b>>)>> ELSE <<>>,
                  <<(IF nb THEN RuleNoBody(IF p1.k = "none" THEN N(1) ELSE p1) ELSE Rule(p1, <<SPrint(<<S(<<D1>>), V("NR"), V("NF"), Fld(N(0))>>)>> \o (IF nx THEN <<SNext>> ELSE <<>>))),
                    Rule(p2, <<SPrint(<<S(<<D2>>), V("NR"), Fld(N(1))>>)>>)>>,
                  IF he THEN <<SPrint(<<S(<<c_e>>), V("NR"), V("NF"), Fld(N(0))>>)>> ELSE <<>>, <<>>)]
   : inp \in Inputs3, p1 \in Patterns, p2 \in Patterns, hb \in BOOLEAN, he \in BOOLEAN, nb \in BOOLEAN, nx \in BOOLEAN}

\* -------------------------------------------------------------- F-misc
\* delete, `in` on a local array, bare exit / return, bare-regex patterns, printf / sprintf,
\* sub / gsub on each kind of target (with and without a match), builtins
ReB == Plus(Lit(c_b))                         \* b+
ReAB == Alt(Lit(c_a), Cat(Lit(c_a), Lit(c_b)))  \* a|ab   (leftmost-longest picks ab)
SubTargets == {"var", "field", "elem", "lelem", "dollar0", "default"}
SubCase(gl, re, rp, tk, subject) ==
  LET tgt == CASE tk = "var" -> V("x") [] tk = "field" -> Fld(N(2)) [] tk = "elem" -> Idx("a", S(<<c_k>>))
               [] tk = "lelem" -> Idx("A", S(<<c_k>>)) [] OTHER -> Fld(N(0))
      setup == CASE tk \in {"var", "elem", "lelem"} -> <<SExpr(Asg(tgt, S(subject)))>>
                 [] tk = "field" -> <<SExpr(Asg(Fld(N(0)), S(<<c_z, SP, SP>> \o subject \o <<SP, c_y>>)))>>
                 [] OTHER -> <<SExpr(Asg(Fld(N(0)), S(subject \o <<SP, SP, c_y>>)))>>
      body == setup \o <<SPrint(<<Subst(gl, re, S(rp), tgt)>>), SPrint(<<tgt>>), SPrint(<<Fld(N(0)), V("NF")>>)>>
  IN [fam |-> "misc", mech |-> "subst/" \o tk \o (IF gl THEN "/gsub" ELSE "/sub"), input |-> <<>>, variants |-> <<>>,
      prog |-> IF tk = "lelem"
               THEN Prog(<<SExpr(Call("f", <<V("a")>>)), SPrint(<<Idx("a", S(<<c_k>>))>>)>>, <<>>, <<>>, <<Func("f", <<AParam("A")>>, body)>>)
               ELSE BeginOnly(body)]
MiscCases ==
  {SubCase(gl, re, rp, tk, subject)
   : gl \in BOOLEAN, re \in {ReB, ReAB}, rp \in {<<c_q>>, <<LBRK, AMP, RBRK>>, <<BSL, AMP, AMP>>, <<>>},
     tk \in SubTargets, subject \in {<<c_a, c_b, c_b, c_a, c_b>>, <<c_c, c_c>>, <<>>}} \cup
  {[fam |-> "misc", mech |-> "misc/" \o nm, prog |-> pg, variants |-> vs, input |-> inp] : <<nm, pg, vs, inp>> \in {
    <<"delete-element-and-all",
      BeginOnly(<<SExpr(Bi("split", <<S(<<c_a, SP, c_b, SP, c_c>>), V("a")>>)), SDel("a", N(2)), SPrint(<<Bi("alength", <<V("a")>>), InA(N(2), "a"), InA(N(3), "a")>>),
                  SDel("a", V("u")), SDel("a", NoE), SPrint(<<Bi("alength", <<V("a")>>), InA(N(1), "a")>>)>>), <<>>, <<>> >>,
    <<"delete-in-local-array",
      Prog(<<SExpr(Bi("split", <<S(<<c_a, SP, c_b>>), V("a")>>)), SPrint(<<Call("f", <<V("a")>>)>>), SPrint(<<Bi("alength", <<V("a")>>), InA(N(1), "a")>>)>>, <<>>, <<>>,
           <<Func("f", <<AParam("A"), Param("r")>>, <<SExpr(Asg(V("r"), Cc(InA(N(1), "A"), InA(N(5), "A")))), SDel("A", N(1)),
                                                     SRet(Cc(V("r"), Cc(InA(N(1), "A"), Bi("alength", <<V("A")>>))))>>)>>), <<>>, <<>> >>,
    \* an action whose statements compile to nothing is still an action (not the default { print })
    <<"action-of-empty-blocks",
      Prog(<<>>, <<Rule(NoE, <<SBlock(<<>>)>>), Rule(Re0(ReB), <<SBlock(<<SBlock(<<>>)>>), SBlock(<<>>)>>), Rule(NoE, <<SPrint(<<S(<<c_r>>), V("NR")>>)>>)>>,
           <<SBlock(<<>>)>>, <<>>),
      << Prog(<<>>, <<Rule(NoE, <<>>), Rule(Re0(ReB), <<>>), Rule(NoE, <<SPrint(<<S(<<c_r>>), V("NR")>>)>>)>>, <<>>, <<>>) >>,
      << <<c_a, c_b>>, <<c_c>> >> >>,
    \* a for-in whose body is empty still assigns the loop variable (the "pick any key" idiom), also in a function
    <<"forin-empty-body-assigns-variable",
      Prog(<<SExpr(Asg(Idx("a", S(<<c_o, c_n, c_l, c_y>>)), N(1))), SForIn("k", "a", <<>>), SPrint(<<S(<<LBRK>>), V("k"), S(<<RBRK>>)>>),
             SForIn("k2", "a", <<SBlock(<<>>)>>), SPrint(<<V("k2")>>), SPrint(<<Call("pick", <<V("a")>>)>>)>>, <<>>, <<>>,
           <<Func("pick", <<AParam("A"), Param("q")>>, <<SForIn("q", "A", <<>>), SRet(V("q"))>>)>>),
      << Prog(<<SExpr(Asg(Idx("a", S(<<c_o, c_n, c_l, c_y>>)), N(1))), SForIn("k", "a", <<SExpr(N(0))>>), SPrint(<<S(<<LBRK>>), V("k"), S(<<RBRK>>)>>),
                SForIn("k2", "a", <<SExpr(V("k2"))>>), SPrint(<<V("k2")>>), SPrint(<<Call("pick", <<V("a")>>)>>)>>, <<>>, <<>>,
              <<Func("pick", <<AParam("A"), Param("q")>>, <<SForIn("q", "A", <<SExpr(N(0))>>), SRet(V("q"))>>)>>) >>,
      <<>> >>,
    \* NF assigned the value it has is an assignment all the same: $0 is rebuilt with OFS
    <<"nf-assigned-its-own-value",
      BeginOnly(<<SExpr(Asg(V("OFS"), S(<<MINUS>>))), SExpr(Asg(Fld(N(0)), S(<<c_a, SP, SP, c_b, SP, SP, SP, c_c>>))), SExpr(Asg(V("NF"), V("NF"))), SPrint(<<Fld(N(0))>>),
                  SExpr(Asg(Fld(N(0)), S(<<c_a, SP, SP, c_b>>))), SExpr(Aug("+", V("NF"), N(0))), SPrint(<<Fld(N(0))>>),
                  SExpr(Asg(Fld(N(0)), S(<<c_a, SP, SP, c_b>>))), SPrint(<<Aug("*", V("NF"), N(1)), Fld(N(0))>>),
                  SExpr(Asg(Fld(N(0)), S(<<c_a, SP, SP, c_b>>))), SExpr(Asg(V("NF"), N(2))), SPrint(<<Fld(N(0))>>)>>), <<>>, <<>> >>,
    <<"bare-exit-in-begin", Prog(<<T1(<<c_b>>), SExit(NoE), T1(<<c_x>>)>>, <<Rule(NoE, <<T1(<<c_r>>)>>)>>, <<T1(<<c_e>>)>>, <<>>), <<>>, << <<c_x>> >> >>,
    <<"exit-status-then-bare-exit-in-end", Prog(<<>>, <<Rule(NoE, <<SExit(N(4))>>)>>, <<T1(<<c_e>>), SExit(NoE), T1(<<c_x>>)>>, <<>>), <<>>, << <<c_x>>, <<c_y>> >> >>,
    <<"exit-in-function", Prog(<<SExpr(Call("f", <<>>)), T1(<<c_x>>)>>, <<>>, <<T1(<<c_e>>)>>, <<Func("f", <<>>, <<T1(<<c_g>>), SExit(N(2)), T1(<<c_y>>)>>)>>), <<>>, <<>> >>,
    <<"exit-in-end-replaces-status", Prog(<<SExit(N(1))>>, <<>>, <<SExit(N(5))>>, <<>>), <<>>, <<>> >>,
    <<"bare-return", Prog(<<SExpr(Asg(V("x"), Call("f", <<N(1)>>))), SPrint(<<Cc(S(<<LBRK>>), Cc(V("x"), S(<<RBRK>>)))>>)>>, <<>>, <<>>,
                          <<Func("f", <<Param("p")>>, <<SIf(V("p"), <<SRet(NoE)>>, <<>>), SRet(N(9))>>)>>), <<>>, <<>> >>,
    <<"bare-regex-pattern-and-condition",
      Prog(<<>>, <<RuleNoBody(Re0(ReB)), Rule(Re0(ReAB), <<SPrint(<<S(<<c_m>>), V("NR")>>)>>),
                   Rule(NoE, <<SIf(Un("!", Re0(ReB)), <<SPrint(<<S(<<c_n>>), V("NR")>>)>>, <<>>), SPrint(<<Cnd(Re0(ReB), S(<<c_y>>), S(<<c_n>>))>>)>>)>>, <<>>, <<>>),
      << Prog(<<>>, <<RuleNoBody(Mat(Fld(N(0)), ReB)), Rule(Mat(Fld(N(0)), ReAB), <<SPrint(<<S(<<c_m>>), V("NR")>>)>>),
                      Rule(NoE, <<SIf(NMat(Fld(N(0)), ReB), <<SPrint(<<S(<<c_n>>), V("NR")>>)>>, <<>>), SPrint(<<Cnd(Mat(Fld(N(0)), ReB), S(<<c_y>>), S(<<c_n>>))>>)>>)>>, <<>>, <<>>) >>,
      << <<c_a, c_b, c_b>>, <<c_c>>, <<c_a>>, <<>> >> >>,
    <<"printf-and-sprintf",
      BeginOnly(<<SPrintf(<<S(<<LBRK, PCT, c_d, RBRK, PCT, D5, c_s, BAR, PCT, MINUS, D4, c_d, BAR, PCT, PCT, LF>>), S(<<D4, D2, c_a>>), S(<<c_a, c_b>>), N(7)>>),
                  SExpr(Asg(V("x"), Bi("sprintf", <<S(<<PCT, c_s, MINUS, PCT, D3, c_d>>), N(12), S(<<D5>>)>>))), SPrint(<<V("x"), Bi("length", <<V("x")>>)>>),
                  SPrintf(<<S(<<c_a, c_b, LF>>)>>), SPrintf(<<S(<<PCT, c_d, LF>>)>>), T1(<<c_x>>)>>), <<>>, <<>> >>,
    <<"builtins",
      BeginOnly(<<SExpr(Asg(Fld(N(0)), S(REC3))),
                  SPrint(<<Bi("length", <<>>), Bi("length", <<Fld(N(3))>>), Bi("length", <<N(12345)>>), Bi("substr", <<Fld(N(3)), N(2)>>), Bi("substr", <<S(<<c_a, c_b, c_c, c_d>>), N(2), N(2)>>),
                           Bi("substr", <<S(<<c_a, c_b>>), N(3), N(5)>>), Bi("index", <<S(<<c_a, c_b, c_c, c_b, c_c>>), S(<<c_b, c_c>>)>>), Bi("index", <<Fld(N(3)), S(<<c_z>>)>>),
                           Bi("int", <<S(<<D4, D2, c_a>>)>>), Bi("int", <<Un("-", N(7))>>)>>),
                  SPrint(<<Bi("split", <<S(<<c_a, COLON, c_b, COLON>>), V("a"), S(<<COLON>>)>>), Idx("a", N(1)), Idx("a", N(3)), Bi("alength", <<V("a")>>)>>),
                  SPrint(<<Bi("split", <<S(<<SP, c_a, SP, SP, c_b>>), V("a"), S(<<SP>>)>>), Idx("a", N(1)), Bi("split", <<S(<<>>), V("a")>>), Bi("alength", <<V("a")>>)>>)>>), <<>>, <<>> >>
  }}

\* ------------------------------------------------------------ F-fracconst
\* Non-integer constants are outside the numeric model of AwkSem, so no output is predicted for these
\* programs; what the specification contributes is the EQUIVALENCE: a constant used directly (as a
\* subscript, a field index, an operand) must behave like the same value held in a variable or spelled
\* as a computation, whatever CONVFMT / OFMT are.  The harness requires all spellings to print the same.
FracTexts == {"3.14159", "0.5", "2.50", "1e-1", "100.25", "0.1234567"}
Fmts == { <<PCT, DOT, D2, c_f>>, <<PCT, DOT, D6, c_g>>, <<PCT, c_d>>, <<PCT, DOT, D1, D0, c_g>> }
FracProg(use(_), fmt, whichfmt) ==
  BeginOnly(<<SExpr(Asg(V(whichfmt), S(fmt))), SExpr(Asg(V("x"), use("x"))), SExpr(Asg(Idx("a", use("a")), S(<<c_p>>))),
              SForIn("q", "a", <<SPrint(<<V("q")>>)>>), SPrint(<<InA(use("i"), "a"), Cc(use("c"), S(<<>>)), use("p")>>),
              SPrint(<<Bin("==", use("e"), V("x")), Bin("+", use("p"), N(1))>>), SPrint(<<Bi("substr", <<S(<<c_a, c_b, c_c, c_d>>), use("s")>>)>>)>>)
FracCases ==
  {[fam |-> "fracconst", mech |-> "const/non-integer/" \o whichfmt, input |-> <<>>, equiv |-> TRUE,
    prog |-> FracProg(LAMBDA pos : FN(txt), fmt, whichfmt),
    variants |-> << FracProg(LAMBDA pos : Bin("+", FN(txt), N(0)), fmt, whichfmt),
                    FracProg(LAMBDA pos : IF pos = "x" THEN FN(txt) ELSE V("x"), fmt, whichfmt),
                    FracProg(LAMBDA pos : Grp(FN(txt)), fmt, whichfmt) >>]
   : txt \in FracTexts, fmt \in Fmts, whichfmt \in {"CONVFMT", "OFMT"}}

\* ------------------------------------------------------------ F-builtins2
\* The remaining builtin functions: tolower / toupper, match() with RSTART and RLENGTH, the mathematical functions
\* (predicted at the points where their value is an integer, compared across spellings elsewhere), rand / srand
\* (compared across spellings only).  Each program is also spelled with the arguments held in variables, in a user
\* function, and in statement position, so that every way the compiler emits the call is exercised.
B2Subject == <<C_A, c_b, c_b, C_C, D1, c_z, c_b>>
B2Prog(arg(_), wrap(_)) ==
  <<SExpr(Asg(Fld(N(0)), S(<<c_x, SP, C_A, c_b, C_C, SP, D4, D9>>))),
    SPrint(<<wrap(Bi("tolower", <<arg(S(B2Subject))>>)), wrap(Bi("toupper", <<arg(S(B2Subject))>>)), Bi("toupper", <<Fld(N(2))>>), Bi("tolower", <<Fld(N(3))>>),
             Bi("toupper", <<arg(N(12))>>), Bi("tolower", <<arg(S(<<>>))>>), Bi("toupper", <<V("u")>>)>>),
    SPrint(<<wrap(MatchFn(arg(S(B2Subject)), Plus(Lit(c_b)))), V("RSTART"), V("RLENGTH"), Bi("substr", <<S(B2Subject), V("RSTART"), V("RLENGTH")>>)>>),
    SPrint(<<MatchFn(Fld(N(0)), ReAB), V("RSTART"), V("RLENGTH")>>),
    SPrint(<<wrap(MatchFn(arg(S(B2Subject)), Lit(c_q))), V("RSTART"), V("RLENGTH")>>),
    SExpr(MatchFn(arg(S(B2Subject)), Lit(c_z))), SPrint(<<V("RSTART"), V("RLENGTH")>>),
    SIf(MatchFn(Fld(N(2)), Lit(C_C)), <<SPrint(<<S(<<c_y>>), V("RSTART")>>)>>, <<SPrint(<<S(<<c_n>>)>>)>>),
    SPrint(<<Bi("sqrt", <<arg(N(16))>>), Bi("exp", <<arg(N(0))>>), Bi("log", <<arg(N(1))>>), Bi("sin", <<arg(N(0))>>), Bi("cos", <<arg(N(0))>>),
             Bi("atan2", <<arg(N(0)), arg(N(5))>>), Bi("int", <<Bi("sqrt", <<Fld(N(3))>>)>>), wrap(Bi("sqrt", <<Bin("+", arg(N(40)), N(9))>>))>>)>>
B2Float(arg(_)) ==
  <<SPrint(<<Bi("sqrt", <<arg(N(2))>>), Bi("exp", <<arg(N(1))>>), Bi("log", <<arg(N(10))>>), Bi("sin", <<arg(N(1))>>), Bi("cos", <<arg(N(1))>>),
             Bi("atan2", <<arg(N(1)), arg(N(2))>>), Bi("atan2", <<arg(N(2)), arg(N(1))>>), Bi("atan2", <<arg(N(0)), Un("-", arg(N(1)))>>),
             Bi("exp", <<arg(S(<<D2, c_x>>))>>), Bi("log", <<Bi("exp", <<arg(N(2))>>)>>), Bi("int", <<Bi("exp", <<arg(N(3))>>)>>)>>)>>
B2Rand(arg(_)) ==
  <<SPrint(<<Bi("srand", <<arg(N(3))>>), Bi("srand", <<arg(N(9))>>)>>), SExpr(Asg(V("r1"), Bi("rand", <<>>))), SExpr(Asg(V("r2"), Bi("rand", <<>>))),
    SPrint(<<Bi("srand", <<arg(N(9))>>)>>), SPrint(<<Bin("==", V("r1"), Bi("rand", <<>>)), Bin("==", V("r2"), Bi("rand", <<>>)), Bin("<", V("r1"), N(1)), Bin(">=", V("r2"), N(0)),
    Bin("==", V("r1"), V("r2"))>>), SPrint(<<V("r1"), V("r2"), Bi("int", <<Bin("*", V("r1"), N(1000))>>)>>)>>
Direct(e) == e
ViaVar(e) == Grp(Asg(V("t"), e))          \* the argument goes through an assignment expression
ViaFunc(e) == Call("id", <<e>>)           \* ... or through a user function
Builtins2Cases ==
  { [fam |-> "builtins2", mech |-> "builtin/case-match-math", input |-> <<>>,
     prog |-> Prog(B2Prog(Direct, Direct), <<>>, <<>>, <<IdFunc>>),
     variants |-> << Prog(B2Prog(ViaVar, Direct), <<>>, <<>>, <<IdFunc>>), Prog(B2Prog(ViaFunc, Direct), <<>>, <<>>, <<IdFunc>>),
                     Prog(B2Prog(Direct, ViaFunc), <<>>, <<>>, <<IdFunc>>), Prog(B2Prog(ViaVar, ViaVar), <<>>, <<>>, <<IdFunc>>) >>],
    [fam |-> "builtins2", mech |-> "builtin/math-non-integer", input |-> <<>>, equiv |-> TRUE,
     prog |-> Prog(B2Float(Direct), <<>>, <<>>, <<IdFunc>>),
     variants |-> << Prog(B2Float(ViaVar), <<>>, <<>>, <<IdFunc>>), Prog(B2Float(ViaFunc), <<>>, <<>>, <<IdFunc>>) >>],
    [fam |-> "builtins2", mech |-> "builtin/rand-srand", input |-> <<>>, equiv |-> TRUE,
     prog |-> Prog(B2Rand(Direct), <<>>, <<>>, <<IdFunc>>),
     variants |-> << Prog(B2Rand(ViaVar), <<>>, <<>>, <<IdFunc>>), Prog(B2Rand(ViaFunc), <<>>, <<>>, <<IdFunc>>) >>] }

\* ------------------------------------------------------------ F-valuetype
\* The VALUE (not only the truth) of && and ||, and the TYPE (string) of a concatenation.
\*  - x && y and x || y are 1 or 0 whatever x and y are: also when the left operand decides (5 || ..., "" && ...)
\*    and the right operand is itself boolean-valued (a comparison, !, in, ~, a nested && / ||);
\*  - a concatenation is a string even when one operand is empty or unset and the other is a number: it
\*    compares as a string, and stays a string through assignment and function calls.
\* $0 = "10 9 abc"
LogicLeft  == { N(5), N(0), S(<<c_a>>), S(<<>>), V("u"), Fld(N(1)), Fld(N(3)), S(<<D0>>) }
LogicRight == { Bin("<", V("m"), N(2)), Bin(">", V("m"), N(2)), Un("!", V("m")), InA(N(1), "arr"), Mat(Fld(N(3)), ReB),
                Grp(Bin("==", V("m"), N(0))), Bin("&&", V("m"), N(1)), Bin("||", V("m"), N(0)), N(7), S(<<>>), V("u") }
LogicProg(e) == BeginOnly(<<SExpr(Asg(Fld(N(0)), S(REC3))), SExpr(Asg(V("m"), N(3))), SPrint(<<S(<<LBRK>>), e, S(<<RBRK>>)>>),
                            SPrint(<<Cc(e, S(<<>>)), Bin("+", e, N(1)), Bin("==", e, S(<<D1>>))>>)>>)
LogicCases ==
  {LET e == Bin(op, x, y)
   IN [fam |-> "valuetype", mech |-> "logic-value/" \o op, input |-> <<>>, prog |-> LogicProg(e),
       variants |-> << LogicProg(Grp(Asg(V("t"), e))), LogicProg(Call("id", <<e>>)),
                       LogicProg(Cnd(e, N(1), N(0))), LogicProg(Un("!", Un("!", e))) >>]
   : op \in {"&&", "||"}, x \in LogicLeft, y \in LogicRight}
CatEmpty == { V("u"), S(<<>>), Idx("fresh", N(1)) }
CatNum   == { N(10), Fld(N(1)), Bin("+", N(9), N(1)) }
CatProg(e) == BeginOnly(<<SExpr(Asg(Fld(N(0)), S(REC3))),
                          SPrint(<<e, Bin("<", e, N(9)), Bin("<", e, Fld(N(2))), Bin("==", e, N(10)), Bin("<", e, S(<<D9>>))>>),
                          SExpr(Asg(V("w"), e)), SPrint(<<Bin("<", V("w"), N(9)), Bin("<", V("w"), Fld(N(2))), Bin(">", V("w"), N(9))>>),
                          SIf(Bin("<", e, N(9)), <<T1(<<C_S>>)>>, <<T1(<<C_N>>)>>)>>)
CatTypeCases ==
  {LET e == IF left THEN Cc(em, nm) ELSE Cc(nm, em)
       e3 == IF left THEN Cc(Cc(em, S(<<>>)), nm) ELSE Cc(Cc(nm, S(<<>>)), em)
   IN [fam |-> "valuetype", mech |-> "concat-is-string", input |-> <<>>, prog |-> CatProg(e),
       variants |-> << CatProg(e3), CatProg(Call("id", <<e>>)), CatProg(Grp(Asg(V("t"), e))) >>]
   : em \in CatEmpty, nm \in CatNum, left \in BOOLEAN}
ValueTypeProgs(pg) == Prog(pg.begin, pg.rules, pg.end, <<IdFunc>>)
ValueTypeCases ==
  {[cs EXCEPT !.prog = ValueTypeProgs(cs.prog), !.variants = [j \in 1..Len(cs.variants) |-> ValueTypeProgs(cs.variants[j])]]
   : cs \in LogicCases \cup CatTypeCases}

\* ------------------------------------------------------------ F-multidim
\* Multi-dimensional subscripts: a[i,j] is a[i SUBSEP j], with SUBSEP read each time a subscript is
\* evaluated (so a key stored under one SUBSEP is not found under another), operands evaluated once
\* and left to right, numbers converted like any number-to-string conversion; the same holds for
\* (i,j) in a and delete a[i,j].  The equivalent spelling writes every subscript list as the
\* concatenation it stands for.  $0 = "10 9 abc"
MdOperands == { N(1), N(12), S(<<c_x>>), S(<<>>), V("u"), Fld(N(1)), Un("-", N(3)), Inc("++", FALSE, V("x")) }
MdSeps == { <<28>>, <<COLON>>, <<>>, <<c_a, c_b>> }
MdSub(es, asCat) ==
  IF ~asCat THEN Multi(es)
  ELSE LET RECURSIVE Go(_, _)
           Go(j, acc) == IF j > Len(es) THEN acc ELSE Go(j + 1, Cc(Cc(acc, V("SUBSEP")), es[j]))
       IN Go(2, es[1])
MdProg(sep, i, j, asCat) ==
  LET ij == MdSub(<<i, j>>, asCat)  ji == MdSub(<<j, i>>, asCat)  iji == MdSub(<<i, j, i>>, asCat)
  IN BeginOnly(<<SExpr(Asg(Fld(N(0)), S(REC3)))>> \o
               (IF sep = <<28>> THEN <<>> ELSE <<SExpr(Asg(V("SUBSEP"), S(sep)))>>) \o
               <<SExpr(Asg(Idx("a", ij), N(7))),
                 SPrint(<<InA(ij, "a"), InA(ji, "a"), InA(Cc(i, j), "a"), Bi("alength", <<V("a")>>)>>),
                 SExpr(Inc("++", FALSE, Idx("a", ij))), SExpr(Aug("+", Idx("a", ij), N(2))), SPrint(<<Idx("a", ij), Bi("alength", <<V("a")>>)>>),
                 SForIn("k", "a", <<SExpr(Asg(V("n"), Bin("+", V("n"), N(1))))>>), SPrint(<<V("n")>>),
                 SExpr(Asg(V("SUBSEP"), S(<<MINUS>>))), SPrint(<<InA(ij, "a"), Bi("alength", <<V("a")>>)>>),
                 SExpr(Asg(Idx("a", iji), N(1))), SPrint(<<Bi("alength", <<V("a")>>), InA(iji, "a"), InA(ij, "a")>>),
                 SDel("a", iji), SPrint(<<Bi("alength", <<V("a")>>), InA(iji, "a")>>),
                 SDel("a", ij), SPrint(<<Bi("alength", <<V("a")>>), V("x")>>)>>)
MultiDimCases ==
  {[fam |-> "multidim", mech |-> "multidim/subsep-" \o (IF sep = <<28>> THEN "default" ELSE IF sep = <<>> THEN "empty" ELSE IF Len(sep) = 1 THEN "char" ELSE "string"),
    input |-> <<>>, prog |-> MdProg(sep, i, j, FALSE), variants |-> << MdProg(sep, i, j, TRUE) >>]
   : sep \in MdSeps, i \in MdOperands, j \in MdOperands}

Cases(fm) ==
  CASE fm = "multidim" -> MultiDimCases [] fm = "valuetype" -> ValueTypeCases [] fm = "builtins2" -> Builtins2Cases [] fm = "assign" -> AssignCases [] fm = "cond" -> CondCases [] fm = "loop" -> LoopCases
    [] fm = "concat" -> ConcatCases [] fm = "call" -> CallCases [] fm = "const" -> ConstCases
    [] fm = "pattern" -> PatternCases [] fm = "flow" -> FlowCases [] fm = "misc" -> MiscCases [] fm = "fracconst" -> FracCases

AllCases == UNION {Cases(fm) : fm \in Families}
=============================================================================
