------------------------------- MODULE Values -------------------------------
(***************************************************************************)
(* The AWK value model (property C05) and the number formatter it needs.   *)
(*                                                                         *)
(* A value is [tag, s, n]: tag in {"null","str","num","strnum"}, s a byte  *)
(* string (Strings.tla), n a number.  TLC has 32-bit integers and no       *)
(* reals, so a number is an exact DECIMAL                                  *)
(*      [t |-> "fin", neg, d, x, ex]   =  (-1)^neg * d * 10^x              *)
(* with d a sequence of digits 0..9 (no leading, no trailing zero; <<>> is *)
(* zero), or one of the specials "inf" (with neg), "nan", "unm".           *)
(*   ex = TRUE  iff the decimal is known to be exactly a float64;          *)
(*   "unm" is the distinguished Unmodelled value: whatever leaves the      *)
(*   domain in which this text can predict a float64 computation exactly   *)
(*   (more than 15 significant digits and not in the table of exact big    *)
(*   integers, magnitudes near the float64 limits, a rounding tie on a     *)
(*   value that is not exactly representable) evaluates to it, it          *)
(*   propagates, and Gen_ modules do not export predictions containing it. *)
(*                                                                         *)
(* Two SEPARATE routines read numbers out of strings, as in every AWK:     *)
(*   WholeParse(s, dl)  - the "looks entirely like a number" test: blanks  *)
(*       trimmed, then the whole rest must be one numeric token (a         *)
(*       declarative grammar match by position);                           *)
(*   PrefixValue(s, dl) - the longest numeric prefix (else 0): a           *)
(*       deterministic automaton PStep run over the bytes, remembering the *)
(*       last accepting snapshot.                                          *)
(* Comparison and truth tests use the first, arithmetic the second.  The   *)
(* property says they stand for the same number (Consistent below; TLC     *)
(* checks it over all strings of MC_Values).                               *)
(*                                                                         *)
(* A dialect dl = [hex, infnan, ublank] fixes the three points POSIX       *)
(* leaves open: are 0x.. forms, inf/nan spellings numbers, and are         *)
(* non-ASCII blanks (NBSP) trimmed.  Each dialect is consistent in itself; *)
(* the conformance check accepts an implementation on a string if its      *)
(* observations agree with SOME dialect, i.e. only consistency is judged   *)
(* on the open forms.                                                      *)
(***************************************************************************)
EXTENDS Strings

\* ------------------------------------------------------------------ numbers
Num(t, neg, d, x, ex) == [t |-> t, neg |-> neg, d |-> d, x |-> x, ex |-> ex]
Unm      == Num("unm", FALSE, <<>>, 0, FALSE)
NaN      == Num("nan", FALSE, <<>>, 0, TRUE)
Inf(neg) == Num("inf", neg, <<>>, 0, TRUE)
Zero     == Num("fin", FALSE, <<>>, 0, TRUE)
NotNum   == Num("str", FALSE, <<>>, 0, FALSE)   \* result of WholeParse on a true string

Zeros(k) == [j \in 1..k |-> 0]
RECURSIVE StripLead(_)
StripLead(d) == IF d # <<>> /\ d[1] = 0 THEN StripLead(Tail(d)) ELSE d
RECURSIVE TrailZ(_)
TrailZ(d) == IF d # <<>> /\ d[Len(d)] = 0 THEN 1 + TrailZ(SubSeq(d, 1, Len(d) - 1)) ELSE 0
AllZero(d) == \A j \in 1..Len(d) : d[j] = 0

\* digit-sequence arithmetic with a small multiplier / divisor (2..16)
RECURSIVE MulAdd(_, _, _)          \* d * c + carry, as digits
MulAdd(d, c, carry) ==
  IF d = <<>> THEN (IF carry = 0 THEN <<>> ELSE MulAdd(<<>>, c, carry \div 10) \o <<carry % 10>>)
  ELSE LET v == d[Len(d)] * c + carry
       IN MulAdd(SubSeq(d, 1, Len(d) - 1), c, v \div 10) \o <<v % 10>>
RECURSIVE DivSmallFrom(_, _, _, _)  \* long division: <<quotient digits, remainder>>
DivSmallFrom(d, c, k, rem) ==
  IF k > Len(d) THEN <<<<>>, rem>>
  ELSE LET v == rem * 10 + d[k]
           rest == DivSmallFrom(d, c, k + 1, v % c)
       IN <<<<v \div c>> \o rest[1], rest[2]>>
DivSmall(d, c) == LET r == DivSmallFrom(d, c, 1, 0) IN <<StripLead(r[1]), r[2]>>
Incr(d) == MulAdd(d, 1, 1)
RECURSIVE MulPow(_, _, _)
MulPow(d, c, k) == IF k = 0 THEN d ELSE MulPow(MulAdd(d, c, 0), c, k - 1)
RECURSIVE DivisibleByPow5(_, _)
DivisibleByPow5(d, k) ==
  IF k = 0 THEN TRUE
  ELSE LET q == DivSmall(d, 5) IN q[2] = 0 /\ DivisibleByPow5(q[1], k - 1)

\* lexicographic comparison of two sequences of integers: -1, 0, 1
RECURSIVE SeqCmpFrom(_, _, _)
SeqCmpFrom(a, b, k) ==
  IF k > Len(a) /\ k > Len(b) THEN 0
  ELSE IF k > Len(a) THEN 0 - 1
  ELSE IF k > Len(b) THEN 1
  ELSE IF a[k] < b[k] THEN 0 - 1
  ELSE IF a[k] > b[k] THEN 1
  ELSE SeqCmpFrom(a, b, k + 1)
SeqCmp(a, b) == SeqCmpFrom(a, b, 1)

\* Integers >= 10^15 that are exactly float64 values, and decimal texts that
\* are not, with the float64 they round to (IEEE round-to-nearest-even).  The
\* harness re-derives every entry with strconv before trusting a prediction.
P53   == <<9,0,0,7,1,9,9,2,5,4,7,4,0,9,9,2>>                  \* 2^53
P53m1 == <<9,0,0,7,1,9,9,2,5,4,7,4,0,9,9,1>>                  \* 2^53 - 1
P53p1 == <<9,0,0,7,1,9,9,2,5,4,7,4,0,9,9,3>>                  \* 2^53 + 1 (not a float64)
P53p2 == <<9,0,0,7,1,9,9,2,5,4,7,4,0,9,9,4>>                  \* 2^53 + 2
P62   == <<4,6,1,1,6,8,6,0,1,8,4,2,7,3,8,7,9,0,4>>            \* 2^62
P63   == <<9,2,2,3,3,7,2,0,3,6,8,5,4,7,7,5,8,0,8>>            \* 2^63
P63m1 == <<9,2,2,3,3,7,2,0,3,6,8,5,4,7,7,5,8,0,7>>            \* 2^63 - 1 (not a float64)
P63m1024 == <<9,2,2,3,3,7,2,0,3,6,8,5,4,7,7,4,7,8,4>>         \* 2^63 - 1024, largest float64 below 2^63
P64   == <<1,8,4,4,6,7,4,4,0,7,3,7,0,9,5,5,1,6,1,6>>          \* 2^64
BigExact == { <<P53, 0>>, <<P53m1, 0>>, <<P53p2, 0>>, <<P62, 0>>, <<P63, 0>>, <<P63m1024, 0>>, <<P64, 0>> }
BigRound(d, x) ==
  IF <<d, x>> = <<P53p1, 0>> THEN <<P53, 0>>
  ELSE IF <<d, x>> = <<P63m1, 0>> THEN <<P63, 0>>
  ELSE <<>>

\* normalise and classify a decimal
MkNum(neg, d0, x0) ==
  LET d1 == StripLead(d0)
      z  == TrailZ(d1)
      d2 == SubSeq(d1, 1, Len(d1) - z)
      x2 == x0 + z
      adj == x2 + Len(d2) - 1
      exact == IF x2 >= 0
               THEN Len(d2) + x2 <= 15 \/ (d2 = <<1>> /\ x2 <= 22) \/ <<d2, x2>> \in BigExact
               ELSE Len(d2) <= 15 /\ 0 - x2 <= 60 /\ DivisibleByPow5(d2, 0 - x2)
  IN IF d2 = <<>> THEN Zero
     ELSE IF adj >= 310 THEN Inf(neg)
     ELSE IF adj <= 0 - 330 THEN Zero
     ELSE IF adj >= 300 \/ adj <= 0 - 300 THEN Unm
     ELSE IF Len(d2) <= 15 \/ <<d2, x2>> \in BigExact THEN Num("fin", neg, d2, x2, exact)
     ELSE IF BigRound(d2, x2) # <<>> THEN Num("fin", neg, BigRound(d2, x2)[1], BigRound(d2, x2)[2], TRUE)
     ELSE Unm

\* NatDigitsV: digit VALUES of a natural number (Strings.NatDigits gives bytes)
RECURSIVE NatDigitsV(_)
NatDigitsV(m) == IF m < 10 THEN <<m>> ELSE NatDigitsV(m \div 10) \o <<m % 10>>
NatNum(m) == MkNum(m < 0, NatDigitsV(IF m < 0 THEN 0 - m ELSE m), 0)

IsZero(n) == n.t = "fin" /\ n.d = <<>>
Sgn(n) == IF n.t = "inf" THEN (IF n.neg THEN 0 - 1 ELSE 1)
          ELSE IF n.d = <<>> THEN 0 ELSE IF n.neg THEN 0 - 1 ELSE 1
Adj(n) == n.x + Len(n.d) - 1

\* compare magnitudes of two non-zero finite numbers
MagCmp(a, b) ==
  IF Adj(a) < Adj(b) THEN 0 - 1 ELSE IF Adj(a) > Adj(b) THEN 1
  ELSE LET w == Max({Len(a.d), Len(b.d)})
       IN SeqCmp(a.d \o Zeros(w - Len(a.d)), b.d \o Zeros(w - Len(b.d)))

\* "lt" "eq" "gt", "un" (a NaN is involved), "unm"
NumCmp(a, b) ==
  IF a.t = "unm" \/ b.t = "unm" \/ a.t = "str" \/ b.t = "str" THEN "unm"
  ELSE IF a.t = "nan" \/ b.t = "nan" THEN "un"
  ELSE IF Sgn(a) # Sgn(b) THEN (IF Sgn(a) < Sgn(b) THEN "lt" ELSE "gt")
  ELSE IF Sgn(a) = 0 THEN "eq"
  ELSE IF a.t = "inf" /\ b.t = "inf" THEN "eq"
  ELSE IF a.t = "inf" THEN (IF a.neg THEN "lt" ELSE "gt")
  ELSE IF b.t = "inf" THEN (IF b.neg THEN "gt" ELSE "lt")
  \* a float64 holding more than 15 digits against a decimal that is not exactly a float64:
  \* the two may collapse in the implementation's binary arithmetic
  ELSE IF (Len(a.d) > 15 /\ ~b.ex) \/ (Len(b.d) > 15 /\ ~a.ex) THEN "unm"
  ELSE LET m == MagCmp(a, b)
           r == IF Sgn(a) > 0 THEN m ELSE 0 - m
       IN IF r < 0 THEN "lt" ELSE IF r > 0 THEN "gt" ELSE "eq"

IsIntegral(n) == n.t = "fin" /\ n.x >= 0
IntDigits(n)  == IF n.d = <<>> THEN <<0>> ELSE n.d \o Zeros(n.x)     \* of an integral number
InInt64(n) ==
  /\ IsIntegral(n)
  /\ LET w == IF n.d = <<>> THEN 1 ELSE Len(n.d) + n.x
     IN \/ w <= 18
        \/ w = 19 /\ SeqCmp(IntDigits(n), IF n.neg THEN P63 ELSE P63m1) <= 0
\* truncation toward zero (int(), %d): an integral number
Trunc(n) ==
  IF n.t # "fin" THEN n
  ELSE IF n.x >= 0 THEN n
  ELSE IF 0 - n.x >= Len(n.d) THEN Zero
  ELSE MkNum(n.neg, SubSeq(n.d, 1, Len(n.d) + n.x), 0)

\* ---------------------------------------------------------- float formatting
UnmStr == <<0 - 1>>                       \* the Unmodelled string
IsUnmStr(str) == \E j \in 1..Len(str) : str[j] < 0
DigBytes(d) == [j \in 1..Len(d) |-> 48 + d[j]]

\* |n| rounded to a multiple of 10^k (round half to even on the exact binary
\* value): the digits of the integer R with |n| ~ R * 10^k (<<>> = 0), or
\* <<-1>> if this text cannot know the result.
RoundAt(n, k) ==
  IF n.d = <<>> THEN <<>>
  ELSE IF k <= n.x THEN n.d \o Zeros(n.x - k)
  ELSE LET cut == k - n.x
       IN IF cut > Len(n.d) THEN <<>>
          ELSE LET kept == SubSeq(n.d, 1, Len(n.d) - cut)
                   first == n.d[Len(n.d) - cut + 1]
                   up == IF first > 5 THEN 1
                         ELSE IF first < 5 THEN 0
                         ELSE IF cut > 1 THEN 1               \* 5 followed by a non-zero digit (d has no trailing zero)
                         ELSE IF ~n.ex THEN 2                 \* a decimal tie on an inexact value
                         ELSE IF kept # <<>> /\ kept[Len(kept)] % 2 = 1 THEN 1 ELSE 0
               IN IF up = 2 THEN <<0 - 1>> ELSE IF up = 1 THEN Incr(kept) ELSE kept
\* digits that are guaranteed to be those of the float64: all of them if the
\* decimal is exact, the first 15 significant ones otherwise
Trusted(n, r) == n.ex \/ Len(StripLead(r)) <= 15

ExpText(e, upper) ==
  <<IF upper THEN C_E ELSE c_e, IF e < 0 THEN MINUS ELSE PLUS>> \o
  (LET a == IF e < 0 THEN 0 - e ELSE e IN IF a < 10 THEN <<D0>> \o NatDigits(a) ELSE NatDigits(a))

\* exponent of the %e style with precision p, after rounding (0 for zero)
ERound(n, p) ==            \* <<digits (p+1 of them), exponent>> or <<<<-1>>, 0>>
  IF n.d = <<>> THEN <<Zeros(p + 1), 0>>
  ELSE LET a == Adj(n)
           r == RoundAt(n, a - p)
       IN IF r = <<0 - 1>> THEN <<r, 0>>
          ELSE IF Len(r) = p + 2 THEN <<SubSeq(r, 1, p + 1), a + 1>>
          ELSE <<r, a>>

\* the three C styles on |n| (sign is added by the caller); n finite
FmtE(n, p, alt, upper) ==
  LET er == ERound(n, p)
      r == er[1]
  IN IF r = <<0 - 1>> \/ ~Trusted(n, r) THEN UnmStr
     ELSE <<48 + r[1]>> \o (IF p > 0 \/ alt THEN <<DOT>> ELSE <<>>) \o DigBytes(SubSeq(r, 2, p + 1)) \o ExpText(er[2], upper)

FmtF(n, p, alt) ==
  LET r0 == RoundAt(n, 0 - p)
      r  == IF Len(r0) < p + 1 THEN Zeros(p + 1 - Len(r0)) \o r0 ELSE r0
  IN IF r0 = <<0 - 1>> \/ ~Trusted(n, r0) THEN UnmStr
     ELSE DigBytes(SubSeq(r, 1, Len(r) - p)) \o (IF p > 0 \/ alt THEN <<DOT>> ELSE <<>>) \o DigBytes(SubSeq(r, Len(r) - p + 1, Len(r)))

\* remove trailing zeros of the fraction, and the point if nothing is left (the %g rule without #)
RECURSIVE DropFracZeros(_)
DropFracZeros(str) ==
  IF \E j \in 1..Len(str) : str[j] = DOT
  THEN IF str[Len(str)] = D0 THEN DropFracZeros(SubSeq(str, 1, Len(str) - 1))
       ELSE IF str[Len(str)] = DOT THEN SubSeq(str, 1, Len(str) - 1)
       ELSE str
  ELSE str

FmtG(n, p0, alt, upper) ==
  LET p == IF p0 = 0 THEN 1 ELSE p0
      er == ERound(n, p - 1)
      ex == er[2]
  IN IF er[1] = <<0 - 1>> THEN UnmStr
     ELSE IF ex < 0 - 4 \/ ex >= p
          THEN LET str == FmtE(n, p - 1, alt, upper)
               IN IF IsUnmStr(str) \/ alt THEN str
                  ELSE LET q == CHOOSE j \in 1..Len(str) : str[j] \in {c_e, C_E}
                       IN DropFracZeros(SubSeq(str, 1, q - 1)) \o SubSeq(str, q, Len(str))
          ELSE LET str == FmtF(n, p - 1 - ex, alt)
               IN IF IsUnmStr(str) \/ alt THEN str ELSE DropFracZeros(str)

\* A CONVFMT / OFMT setting of the model: [verb |-> "g" | "f" | "e", prec |-> 0..30]
CfText(cf) == <<PCT, DOT>> \o NatDigits(cf.prec) \o <<CASE cf.verb = "g" -> c_g [] cf.verb = "f" -> c_f [] cf.verb = "e" -> c_e>>
FmtFloat(n, cf) ==
  LET body == CASE cf.verb = "g" -> FmtG(n, cf.prec, FALSE, FALSE)
                [] cf.verb = "f" -> FmtF(n, cf.prec, FALSE)
                [] cf.verb = "e" -> FmtE(n, cf.prec, FALSE, FALSE)
  IN IF IsUnmStr(body) THEN UnmStr ELSE (IF n.neg THEN <<MINUS>> ELSE <<>>) \o body

\* number -> string: "an integral number within the signed 64-bit range converts
\* as an exact integer and any other number via CONVFMT (OFMT in print)".
\* The spelling of non-finite numbers is not pinned by the statement: Unmodelled.
NumToStr(n, cf) ==
  IF n.t # "fin" THEN UnmStr
  ELSE IF InInt64(n) THEN (IF n.ex THEN (IF n.neg /\ n.d # <<>> THEN <<MINUS>> ELSE <<>>) \o DigBytes(IntDigits(n)) ELSE UnmStr)
  ELSE FmtFloat(n, cf)

\* ------------------------------------------------------------ character classes
AsciiWs == {9, 10, 11, 12, 13, 32}
IsDig(ch) == ch >= 48 /\ ch <= 57
Lower(ch) == IF ch >= 65 /\ ch <= 90 THEN ch + 32 ELSE ch
IsHexDig(ch) == IsDig(ch) \/ (Lower(ch) >= 97 /\ Lower(ch) <= 102)
HexVal(ch) == IF IsDig(ch) THEN ch - 48 ELSE Lower(ch) - 87
LowerStr(str) == [j \in 1..Len(str) |-> Lower(str[j])]
NBSP == <<xC2, xA0>>
Dialects == [hex : BOOLEAN, infnan : BOOLEAN, ublank : BOOLEAN]
GoawkDialect == [hex |-> TRUE, infnan |-> TRUE, ublank |-> FALSE]

\* value of a hexadecimal mantissa hd (hex digit bytes) * 2^k
RECURSIVE HexDigitsToDec(_, _)
HexDigitsToDec(hd, acc) == IF hd = <<>> THEN acc ELSE HexDigitsToDec(Tail(hd), MulAdd(acc, 16, HexVal(hd[1])))
HexNum(neg, hd, k) ==
  IF Len(hd) > 12 \/ k > 70 \/ k < 0 - 40 THEN Unm
  ELSE LET m == StripLead(HexDigitsToDec(hd, <<>>))
       IN IF k >= 0 THEN MkNum(neg, MulPow(m, 2, k), 0) ELSE MkNum(neg, MulPow(m, 5, 0 - k), k)

\* value of decimal digits-with-exponent: mantissa digit bytes md, fd of them after the point
RECURSIVE SatVal(_, _)         \* value of a digit-byte string, saturating at 100000
SatVal(ds, acc) == IF ds = <<>> THEN acc
                   ELSE SatVal(Tail(ds), IF acc >= 100000 THEN acc ELSE acc * 10 + (ds[1] - 48))
DecNum(neg, md, fd, eneg, ed) ==
  LET e == SatVal(ed, 0) IN MkNum(neg, [j \in 1..Len(md) |-> md[j] - 48], (IF eneg THEN 0 - e ELSE e) - fd)

\* --------------------------------------------- routine 1: the whole-string test
RECURSIVE TrimL(_, _)
TrimL(str, dl) ==
  IF str # <<>> /\ str[1] \in AsciiWs THEN TrimL(Tail(str), dl)
  ELSE IF dl.ublank /\ Len(str) >= 2 /\ str[1] = xC2 /\ str[2] = xA0 THEN TrimL(SubSeq(str, 3, Len(str)), dl)
  ELSE str
RECURSIVE TrimR(_, _)
TrimR(str, dl) ==
  IF str # <<>> /\ str[Len(str)] \in AsciiWs THEN TrimR(SubSeq(str, 1, Len(str) - 1), dl)
  ELSE IF dl.ublank /\ Len(str) >= 2 /\ str[Len(str) - 1] = xC2 /\ str[Len(str)] = xA0 THEN TrimR(SubSeq(str, 1, Len(str) - 2), dl)
  ELSE str
FirstOf(str, S) == LET P == {j \in 1..Len(str) : str[j] \in S} IN IF P = {} THEN 0 ELSE Min(P)
AllDig(str) == \A j \in 1..Len(str) : IsDig(str[j])
AllHexDig(str) == \A j \in 1..Len(str) : IsHexDig(str[j])

\* mantissa "ip.fp" / "ip" / ".fp" and optional exponent, split by position
SplitMant(b, expChars) ==
  LET ePos == FirstOf(b, expChars)
      mant == IF ePos = 0 THEN b ELSE SubSeq(b, 1, ePos - 1)
      expo == IF ePos = 0 THEN <<>> ELSE SubSeq(b, ePos + 1, Len(b))
      dPos == FirstOf(mant, {DOT})
      esg  == expo # <<>> /\ expo[1] \in {PLUS, MINUS}
  IN [hasE |-> ePos # 0,
      ip |-> IF dPos = 0 THEN mant ELSE SubSeq(mant, 1, dPos - 1),
      fp |-> IF dPos = 0 THEN <<>> ELSE SubSeq(mant, dPos + 1, Len(mant)),
      eneg |-> esg /\ expo[1] = MINUS,
      ed |-> IF esg THEN Tail(expo) ELSE expo]

DecWhole(neg, b) ==
  LET m == SplitMant(b, {c_e, C_E})
  IN IF AllDig(m.ip) /\ AllDig(m.fp) /\ m.ip \o m.fp # <<>> /\ AllDig(m.ed) /\ (m.hasE => m.ed # <<>>)
     THEN DecNum(neg, m.ip \o m.fp, Len(m.fp), m.eneg, m.ed)
     ELSE NotNum
HexWhole(neg, b) ==        \* b: what follows "0x"
  LET m == SplitMant(b, {c_p, 80})
  IN IF AllHexDig(m.ip) /\ AllHexDig(m.fp) /\ m.ip \o m.fp # <<>> /\ AllDig(m.ed) /\ (m.hasE => m.ed # <<>>)
     THEN LET e == SatVal(m.ed, 0)
          IN HexNum(neg, m.ip \o m.fp, (IF m.eneg THEN 0 - e ELSE e) - 4 * Len(m.fp))
     ELSE NotNum

WholeParse(str, dl) ==
  LET t == TrimR(TrimL(str, dl), dl)
      sg == t # <<>> /\ t[1] \in {PLUS, MINUS}
      neg == sg /\ t[1] = MINUS
      body == IF sg THEN Tail(t) ELSE t
      low == LowerStr(body)
  IN IF body = <<>> THEN NotNum
     ELSE IF low \in {<<c_i, c_n, c_f>>, <<c_i, c_n, c_f, c_i, c_n, c_i, c_t, c_y>>} THEN (IF dl.infnan THEN Inf(neg) ELSE NotNum)
     ELSE IF low = <<c_n, c_a, c_n>> THEN (IF dl.infnan THEN NaN ELSE NotNum)
     ELSE IF dl.hex /\ Len(body) >= 2 /\ body[1] = D0 /\ Lower(body[2]) = c_x THEN HexWhole(neg, SubSeq(body, 3, Len(body)))
     ELSE DecWhole(neg, body)
LooksNumeric(str, dl) == WholeParse(str, dl).t # "str"

\* --------------------------------------------- routine 2: the longest numeric prefix
\* automaton state: st, accumulators, and the snapshot of the last accepting configuration
PInit == [st |-> "ws", neg |-> FALSE, md |-> <<>>, fd |-> 0, eneg |-> FALSE, ed |-> <<>>,
          snap |-> [kind |-> "none", md |-> <<>>, fd |-> 0, eneg |-> FALSE, ed |-> <<>>]]
Accepting == {"zero", "int", "frac", "exp", "hxi", "hxf", "hpe", "nan", "inf"}
KindOf(st) == CASE st \in {"zero", "int", "frac", "exp"} -> "dec"
                [] st \in {"hxi", "hxf", "hpe"} -> "hex"
                [] st = "nan" -> "nan"
                [] st = "inf" -> "inf"
                [] OTHER -> "none"
Snap(ps) == IF ps.st \in Accepting
            THEN [ps EXCEPT !.snap = [kind |-> KindOf(ps.st), md |-> ps.md, fd |-> ps.fd, eneg |-> ps.eneg, ed |-> ps.ed]]
            ELSE ps
Go(ps, st) == [ps EXCEPT !.st = st]
Dead(ps) == Go(ps, "dead")

\* one transition (before Snap)
PDelta(ps, ch, dl) ==
  LET mantStart ==       \* first byte of the mantissa
        IF ch = D0 THEN [ps EXCEPT !.st = "zero", !.md = <<ch>>]
        ELSE IF IsDig(ch) THEN [ps EXCEPT !.st = "int", !.md = <<ch>>]
        ELSE IF ch = DOT THEN Go(ps, "dot0")
        ELSE IF dl.infnan /\ Lower(ch) = c_n THEN Go(ps, "n1")
        ELSE IF dl.infnan /\ Lower(ch) = c_i THEN Go(ps, "i1")
        ELSE Dead(ps)
  IN CASE ps.st = "ws" ->
            IF ch \in AsciiWs THEN ps
            ELSE IF dl.ublank /\ ch = xC2 THEN Go(ps, "ws2")
            ELSE IF ch = PLUS THEN Go(ps, "sign")
            ELSE IF ch = MINUS THEN [ps EXCEPT !.st = "sign", !.neg = TRUE]
            ELSE mantStart
       [] ps.st = "ws2" -> IF ch = xA0 THEN Go(ps, "ws") ELSE Dead(ps)
       [] ps.st = "sign" -> mantStart
       [] ps.st \in {"zero", "int"} ->
            IF IsDig(ch) THEN [ps EXCEPT !.st = "int", !.md = @ \o <<ch>>]
            ELSE IF ch = DOT THEN Go(ps, "frac")
            ELSE IF Lower(ch) = c_e THEN Go(ps, "e")
            ELSE IF ps.st = "zero" /\ dl.hex /\ Lower(ch) = c_x THEN [ps EXCEPT !.st = "hx0", !.md = <<>>]
            ELSE Dead(ps)
       [] ps.st = "dot0" -> IF IsDig(ch) THEN [ps EXCEPT !.st = "frac", !.md = @ \o <<ch>>, !.fd = 1] ELSE Dead(ps)
       [] ps.st = "frac" ->
            IF IsDig(ch) THEN [ps EXCEPT !.md = @ \o <<ch>>, !.fd = @ + 1]
            ELSE IF Lower(ch) = c_e THEN Go(ps, "e")
            ELSE Dead(ps)
       [] ps.st = "e" ->
            IF ch = PLUS THEN Go(ps, "esign")
            ELSE IF ch = MINUS THEN [ps EXCEPT !.st = "esign", !.eneg = TRUE]
            ELSE IF IsDig(ch) THEN [ps EXCEPT !.st = "exp", !.ed = <<ch>>]
            ELSE Dead(ps)
       [] ps.st = "esign" -> IF IsDig(ch) THEN [ps EXCEPT !.st = "exp", !.ed = <<ch>>] ELSE Dead(ps)
       [] ps.st = "exp" -> IF IsDig(ch) THEN [ps EXCEPT !.ed = @ \o <<ch>>] ELSE Dead(ps)
       [] ps.st = "hx0" ->
            IF IsHexDig(ch) THEN [ps EXCEPT !.st = "hxi", !.md = <<ch>>]
            ELSE IF ch = DOT THEN Go(ps, "hxd0")
            ELSE Dead(ps)
       [] ps.st = "hxi" ->
            IF IsHexDig(ch) THEN [ps EXCEPT !.md = @ \o <<ch>>]
            ELSE IF ch = DOT THEN Go(ps, "hxf")
            ELSE IF Lower(ch) = c_p THEN Go(ps, "hp")
            ELSE Dead(ps)
       [] ps.st = "hxd0" -> IF IsHexDig(ch) THEN [ps EXCEPT !.st = "hxf", !.md = @ \o <<ch>>, !.fd = 1] ELSE Dead(ps)
       [] ps.st = "hxf" ->
            IF IsHexDig(ch) THEN [ps EXCEPT !.md = @ \o <<ch>>, !.fd = @ + 1]
            ELSE IF Lower(ch) = c_p THEN Go(ps, "hp")
            ELSE Dead(ps)
       [] ps.st = "hp" ->
            IF ch = PLUS THEN Go(ps, "hpsign")
            ELSE IF ch = MINUS THEN [ps EXCEPT !.st = "hpsign", !.eneg = TRUE]
            ELSE IF IsDig(ch) THEN [ps EXCEPT !.st = "hpe", !.ed = <<ch>>]
            ELSE Dead(ps)
       [] ps.st = "hpsign" -> IF IsDig(ch) THEN [ps EXCEPT !.st = "hpe", !.ed = <<ch>>] ELSE Dead(ps)
       [] ps.st = "hpe" -> IF IsDig(ch) THEN [ps EXCEPT !.ed = @ \o <<ch>>] ELSE Dead(ps)
       [] ps.st = "n1" -> IF Lower(ch) = c_a THEN Go(ps, "n2") ELSE Dead(ps)
       [] ps.st = "n2" -> IF Lower(ch) = c_n THEN Go(ps, "nan") ELSE Dead(ps)
       [] ps.st = "i1" -> IF Lower(ch) = c_n THEN Go(ps, "i2") ELSE Dead(ps)
       [] ps.st = "i2" -> IF Lower(ch) = c_f THEN Go(ps, "inf") ELSE Dead(ps)
       [] ps.st \in {"nan", "inf", "dead"} -> Dead(ps)
PStep(ps, ch, dl) == Snap(PDelta(ps, ch, dl))

RECURSIVE PRun(_, _, _, _)
PRun(ps, str, k, dl) == IF k > Len(str) \/ ps.st = "dead" THEN ps ELSE PRun(PStep(ps, str[k], dl), str, k + 1, dl)

PrefixValue(str, dl) ==
  LET ps == PRun(PInit, str, 1, dl)
      sn == ps.snap
  IN CASE sn.kind = "none" -> Zero
       [] sn.kind = "dec"  -> DecNum(ps.neg, sn.md, sn.fd, sn.eneg, sn.ed)
       [] sn.kind = "hex"  -> LET e == SatVal(sn.ed, 0)
                              IN HexNum(ps.neg, sn.md, (IF sn.eneg THEN 0 - e ELSE e) - 4 * sn.fd)
       [] sn.kind = "nan"  -> NaN
       [] sn.kind = "inf"  -> Inf(ps.neg)

\* The relation between the two routines that the property demands.
Consistent(str, dl) ==
  LET w == WholeParse(str, dl) IN w.t # "str" => w = PrefixValue(str, dl)

\* ------------------------------------------------------------------- values
VNull        == [tag |-> "null",   s |-> <<>>, n |-> Zero]
VStr(str)    == [tag |-> "str",    s |-> str,  n |-> Zero]
VNum(n)      == [tag |-> "num",    s |-> <<>>, n |-> n]
VStrnum(str) == [tag |-> "strnum", s |-> str,  n |-> Zero]

\* the number a value contributes to a comparison / truth test, or NotNum
CmpNumber(v, dl) ==
  CASE v.tag = "num" -> v.n
    [] v.tag = "null" -> Zero
    [] v.tag = "strnum" -> WholeParse(v.s, dl)
    [] v.tag = "str" -> NotNum
ToNum(v, dl) == IF v.tag = "num" THEN v.n ELSE IF v.tag = "null" THEN Zero ELSE PrefixValue(v.s, dl)
ToStr(v, cf) == IF v.tag = "num" THEN NumToStr(v.n, cf) ELSE v.s
B01(b) == IF b THEN 1 ELSE 0
\* truth of value v whose comparison number is c: 1 / 0 / -1 (unmodelled)
TruthC(c, v) == IF c.t = "str" THEN B01(v.s # <<>>) ELSE IF c.t = "unm" THEN 0 - 1 ELSE B01(~IsZero(c))
Truth(v, dl) == TruthC(CmpNumber(v, dl), v)

Ops == <<"lt", "le", "eq", "ne", "gt", "ge">>
OpHolds(op, r) ==        \* r in {"lt","eq","gt","un"}
  CASE op = "lt" -> r = "lt"  [] op = "le" -> r \in {"lt", "eq"} [] op = "eq" -> r = "eq"
    [] op = "ne" -> r # "eq"  [] op = "gt" -> r = "gt"           [] op = "ge" -> r \in {"gt", "eq"}
\* the ordering of two values: "lt" "eq" "gt" "un" or "unm"; numeric exactly when both sides
\* contribute a number (ca, cb: their comparison numbers), else as strings (bytewise) after
\* conversion with CONVFMT
OrderC(ca, cb, a, b, cf) ==
  IF ca.t = "unm" \/ cb.t = "unm" THEN "unm"
  ELSE IF ca.t # "str" /\ cb.t # "str" THEN NumCmp(ca, cb)
  ELSE LET sa == ToStr(a, cf)
           sb == ToStr(b, cf)
       IN IF IsUnmStr(sa) \/ IsUnmStr(sb) THEN "unm"
          ELSE LET c == SeqCmp(sa, sb) IN IF c < 0 THEN "lt" ELSE IF c > 0 THEN "gt" ELSE "eq"
Order(a, b, dl, cf) == OrderC(CmpNumber(a, dl), CmpNumber(b, dl), a, b, cf)
\* the same with the comparison numbers and the CONVFMT strings of both sides already computed
OrderS(ca, cb, sa, sb) ==
  IF ca.t = "unm" \/ cb.t = "unm" THEN "unm"
  ELSE IF ca.t # "str" /\ cb.t # "str" THEN NumCmp(ca, cb)
  ELSE IF IsUnmStr(sa) \/ IsUnmStr(sb) THEN "unm"
  ELSE LET c == SeqCmp(sa, sb) IN IF c < 0 THEN "lt" ELSE IF c > 0 THEN "gt" ELSE "eq"
IsNumericCmp(a, b, dl) == CmpNumber(a, dl).t # "str" /\ CmpNumber(b, dl).t # "str"
\* 1 / 0 / -1.  -1: not predicted -- Unmodelled, or a NaN operand (the statement pins the operators
\* down for non-NaN operands only)
CompareR(r, op) == IF r \in {"unm", "un"} THEN 0 - 1 ELSE B01(OpHolds(op, r))
Compare(a, b, op, dl, cf) == CompareR(Order(a, b, dl, cf), op)
=============================================================================
