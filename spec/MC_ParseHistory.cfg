SPECIFICATION Spec
CONSTANTS
  MaxHist = 2
  Rich = FALSE
  Survives = {}
INVARIANTS HistoryIndependent PoolFresh
CHECK_DEADLOCK FALSE
