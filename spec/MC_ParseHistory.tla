--------------------------- MODULE MC_ParseHistory ---------------------------
(* All histories of at most MaxHist parses over the universe of abstract      *)
(* sources (Rich: every loop nest; otherwise three of them).  The state keeps *)
(* the context the next parse starts with (`pool`), the number of parses and  *)
(* whether the caller of the LAST parse saw what Verdict says (what a parse   *)
(* gives depends on `pool` and its source only, so nothing else of the past   *)
(* has to be kept; the sources of a refuting history are the parameters of    *)
(* the Parse steps in TLC's trace).                                           *)
(*   HistoryIndependent  what the caller saw is Verdict(source): the verdict, *)
(*                       the error class and the compiled program do not      *)
(*                       depend on the parses before it                       *)
(*   PoolFresh           every parse starts from the fresh context (the       *)
(*                       inductive reason; holds for Survives = {} only)      *)
(* With Survives # {} (a recycled parser that keeps the named fields) TLC     *)
(* refutes HistoryIndependent; SlipsRefuted (an ASSUME, evaluated when the    *)
(* model is loaded) demands a refuting history of two parses for every single *)
(* field.                                                                     *)
EXTENDS ParseHistory

CONSTANTS MaxHist, Rich

LoopNests == IF Rich THEN {<<>>, <<"while">>, <<"for">>, <<"forin">>, <<"do">>, <<"for", "while">>, <<"do", "forin">>}
             ELSE {<<>>, <<"while">>, <<"do", "forin">>}
Universe == SourcesOver(LoopNests, Stmts, Brks)

\* (searched among: a plain statement followed by an error at some place, then an unbroken source without loops)
ASSUME SlipsRefuted ==
  \A fld \in Fields :
     \E a \in SourcesOver(LoopNests, {"plain"}, Brks \ {"none"}) : \E b \in SourcesOver({<<>>}, Stmts, {"none"}) :
        Outcome(b, PoolWith({fld}, ParseWith(a, Fresh).flags)) # Verdict(b)

VARIABLES pool, n, lastok
vars == <<pool, n, lastok>>

Init == pool = Fresh /\ n = 0 /\ lastok = TRUE

\* one call of ParseProgram
Parse(s) ==
  /\ n < MaxHist
  /\ LET r == ParseWith(s, pool)
     IN /\ lastok' = (Outcome(s, pool) = Verdict(s))
        /\ pool' = NextPool(r.flags)
  /\ n' = n + 1
Next == \E s \in Universe : Parse(s)
Spec == Init /\ [][Next]_vars

HistoryIndependent == lastok
PoolFresh == pool = Fresh
=============================================================================
