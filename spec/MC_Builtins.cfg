SPECIFICATION Spec
CONSTANTS
  MaxLen = 3
  MaxLen2 = 2
  Rich = TRUE
  Depth = 2
INVARIANTS SameTarget MatchLaw IndexLaw SplitLaw GsubAmpLaw SubLaw AmpLaw NeverCuts SubstrLaw AsciiAgree IntLaw LengthLaw Frames
CHECK_DEADLOCK FALSE
