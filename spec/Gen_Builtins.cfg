SPECIFICATION Spec
CONSTANTS
  MaxLen = 3
  MaxLen2 = 2
  Rich = TRUE
  Depth = 2
CHECK_DEADLOCK FALSE
