---------------------------- MODULE Trace_AwkSem ----------------------------
(* Validates programs recorded from the real interpreter (random programs of  *)
(* a seeded generator, as syntax trees, with the outcome the real compiler +   *)
(* VM produced) against the reference semantics AwkSem.  Event shape:          *)
(*   {"ev":"step","prog":<tree>,"input":[bytes..],                              *)
(*    "obs":{"out":bytes,"status":n,"err":bool}}                                *)
(* A program whose evaluation leaves the modelled domain is skipped.           *)
EXTENDS AwkSem, TraceBase

VARIABLES l
vars == <<l>>
Init == l = 1

TStep ==
  /\ l <= NLog /\ Log[l].ev = "step"
  /\ LET ev == Log[l]
         o == Outcome(Run(ev.prog, ev.input))
         exp == [out |-> o.out, status |-> o.status, err |-> o.err]
     IN IF o.bad THEN PrintT(ToJson([skip |-> l])) /\ l' = l + 1
        ELSE IF exp.out = ev.obs.out /\ exp.err = ev.obs.err /\ (exp.err \/ exp.status = ev.obs.status)
             THEN l' = l + 1
             ELSE Reject(l, [expected |-> exp]) /\ l' = AfterNextReset(l)

TReset == l <= NLog /\ Log[l].ev = "reset" /\ l' = l + 1
TDone == l = NLog + 1 /\ PrintT("TRACE-END") /\ l' = l + 1
Next == TStep \/ TReset \/ TDone
Spec == Init /\ [][Next]_vars
=============================================================================
