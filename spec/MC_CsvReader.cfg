SPECIFICATION Spec
CONSTANTS
  MaxLen = 4
  RTFields = 2
  RTLen = 2
INVARIANTS ChunkIndependence PrefixSafe Progress KnownAgrees Laws RoundTrip
CHECK_DEADLOCK FALSE
