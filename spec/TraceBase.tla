------------------------------ MODULE TraceBase ------------------------------
(***************************************************************************)
(* Shared skeleton of the Trace_* modules (code -> spec direction).        *)
(*                                                                         *)
(* The harness records events from the real code as one JSON object per    *)
(* line in trace.ndjson; many traces are concatenated, separated by        *)
(* {"ev":"reset"} events.  A Trace_* module steps variable `l` through the *)
(* log using the actions of the module it validates.  An event the         *)
(* specification cannot explain does not stop TLC: the module prints       *)
(* {"reject": l, ...} (with what the specification expected) and resumes   *)
(* after the next reset, so the rest of the log is still examined.  When   *)
(* the whole log is consumed the marker TRACE-END is printed; its absence  *)
(* means the trace module is stuck (specification out of date), which the  *)
(* check reports as a machinery error, never as a violation.               *)
(***************************************************************************)
EXTENDS Integers, Sequences, TLC, Json

Log == ndJsonDeserialize("trace.ndjson")
NLog == Len(Log)

\* index just after the next reset event following position k (or NLog + 1)
AfterNextReset(k) ==
  LET R == {j \in k..NLog : Log[j].ev = "reset"}
  IN IF R = {} THEN NLog + 1 ELSE (CHOOSE m \in R : \A q \in R : m <= q) + 1

Reject(k, info) == PrintT(ToJson([reject |-> k, info |-> info]))
=============================================================================
