------------------------------- MODULE Regex -------------------------------
(***************************************************************************)
(* A small regular-expression algebra with POSIX leftmost-longest matching *)
(* (the semantics GoAWK asks of Go's regexp with Longest()).               *)
(*                                                                         *)
(* A regex is a record tagged by field k:                                  *)
(*   [k |-> "lit", c |-> byte]        one literal byte                     *)
(*   [k |-> "any"]                    any one byte (ASCII subjects only)   *)
(*   [k |-> "cls", set |-> S]         one byte of the set S                *)
(*   [k |-> "eps"]                    the empty string                     *)
(*   [k |-> "bol"] / [k |-> "eol"]    start / end of subject               *)
(*   [k |-> "cat", l |-> r1, r |-> r2]                                     *)
(*   [k |-> "alt", l |-> r1, r |-> r2]                                     *)
(*   [k |-> "star"/"plus"/"opt", r |-> r1]                                 *)
(* The subjects this module is used with are ASCII (one byte = one         *)
(* character); modules that use multi-byte characters build them from      *)
(* literal bytes with "cat".                                               *)
(***************************************************************************)
EXTENDS Strings

Lit(ch)      == [k |-> "lit", c |-> ch]
AnyCh        == [k |-> "any"]
Cls(S)       == [k |-> "cls", set |-> S]
Eps          == [k |-> "eps"]
Bol          == [k |-> "bol"]
Eol          == [k |-> "eol"]
Cat(r1, r2)  == [k |-> "cat", l |-> r1, r |-> r2]
Alt(r1, r2)  == [k |-> "alt", l |-> r1, r |-> r2]
Star(r1)     == [k |-> "star", r |-> r1]
Plus(r1)     == [k |-> "plus", r |-> r1]
Opt(r1)      == [k |-> "opt", r |-> r1]
RECURSIVE LitStr(_)
LitStr(str) == IF str = <<>> THEN Eps ELSE IF Len(str) = 1 THEN Lit(str[1]) ELSE Cat(Lit(str[1]), LitStr(Tail(str)))

\* Ends(r, str, k): the set of positions j (k <= j <= Len(str)+1) such that r
\* matches str[k .. j-1].
RECURSIVE Ends(_, _, _), CloseStar(_, _, _)
Ends(r, str, k) ==
  CASE r.k = "lit"  -> IF k <= Len(str) /\ str[k] = r.c THEN {k + 1} ELSE {}
    [] r.k = "any"  -> IF k <= Len(str) THEN {k + 1} ELSE {}
    [] r.k = "cls"  -> IF k <= Len(str) /\ str[k] \in r.set THEN {k + 1} ELSE {}
    [] r.k = "eps"  -> {k}
    [] r.k = "bol"  -> IF k = 1 THEN {k} ELSE {}
    [] r.k = "eol"  -> IF k = Len(str) + 1 THEN {k} ELSE {}
    [] r.k = "cat"  -> UNION {Ends(r.r, str, j) : j \in Ends(r.l, str, k)}
    [] r.k = "alt"  -> Ends(r.l, str, k) \cup Ends(r.r, str, k)
    [] r.k = "star" -> CloseStar(r.r, str, {k})
    [] r.k = "plus" -> CloseStar(r.r, str, Ends(r.r, str, k))
    [] r.k = "opt"  -> {k} \cup Ends(r.r, str, k)
CloseStar(r, str, S) ==
  LET N == S \cup UNION {Ends(r, str, j) : j \in S}
  IN IF N = S THEN S ELSE CloseStar(r, str, N)

\* Leftmost-longest match at or after position `from`:
\* <<start, end>> (end exclusive), or <<0, 0>> when there is none.
Find(r, str, from) ==
  LET P == {k \in from..(Len(str) + 1) : Ends(r, str, k) # {}}
  IN IF P = {} THEN <<0, 0>>
     ELSE LET st == Min(P) IN <<st, Max(Ends(r, str, st))>>

Matches(r, str) == Find(r, str, 1)[1] # 0

\* All successive non-overlapping leftmost-longest matches, scanning left to
\* right the way Go's FindAllIndex (and POSIX awk gsub) does: after a match
\* [st, en) the search resumes at en; an empty match found exactly at the end
\* of the previous (non-empty or empty) match is not reported and the scan
\* moves one byte on.
RECURSIVE FindAllFrom(_, _, _, _)
FindAllFrom(r, str, from, prevEnd) ==
  IF from > Len(str) + 1 THEN <<>>
  ELSE LET m == Find(r, str, from)
       IN IF m[1] = 0 THEN <<>>
          ELSE IF m[2] = m[1] /\ m[1] = prevEnd
               THEN \* empty match adjacent to the previous match: skip one byte
                    FindAllFrom(r, str, m[1] + 1, 0 - 1)
               ELSE IF m[2] = m[1]
               THEN <<m>> \o FindAllFrom(r, str, m[1] + 1, m[2])
               ELSE <<m>> \o FindAllFrom(r, str, m[2], m[2])
FindAll(r, str) == FindAllFrom(r, str, 1, 0 - 1)

\* Split on the non-empty matches of r (regex FS): empty matches are ignored.
SplitRe(r, str) ==
  LET ms == SelectSeq(FindAll(r, str), LAMBDA m : m[2] > m[1])
      nm == Len(ms)
      PieceStart(j) == IF j = 1 THEN 1 ELSE ms[j - 1][2]
      PieceEnd(j)   == IF j = nm + 1 THEN Len(str) ELSE ms[j][1] - 1
  IN [j \in 1..(nm + 1) |-> SubSeq(str, PieceStart(j), PieceEnd(j))]

\* ---- sub / gsub on a text ----
\* replacement text for one match: & is the matched text, \& a literal ampersand, \\ a backslash
RECURSIVE ExpandRepl(_, _)
ExpandRepl(rp, matched) ==
  IF rp = <<>> THEN <<>>
  ELSE IF rp[1] = AMP THEN matched \o ExpandRepl(Tail(rp), matched)
  ELSE IF rp[1] = BSL /\ Len(rp) >= 2 /\ rp[2] \in {AMP, BSL} THEN <<rp[2]>> \o ExpandRepl(SubSeq(rp, 3, Len(rp)), matched)
  ELSE <<rp[1]>> \o ExpandRepl(Tail(rp), matched)

\* <<new string, number of replacements>>: all (gsub) or the first (sub) of the non-overlapping
\* leftmost-longest matches
Substitute(re, rp, str, global) ==
  LET all == FindAll(re, str)
      ms == IF global \/ all = <<>> THEN all ELSE <<all[1]>>
      nm == Len(ms)
      Gap(j) == SubSeq(str, IF j = 1 THEN 1 ELSE ms[j - 1][2], IF j = nm + 1 THEN Len(str) ELSE ms[j][1] - 1)
      RECURSIVE Build(_)
      Build(j) == IF j > nm THEN Gap(nm + 1)
                  ELSE Gap(j) \o ExpandRepl(rp, SubSeq(str, ms[j][1], ms[j][2] - 1)) \o Build(j + 1)
  IN <<Build(1), nm>>

\* ---- rendering to AWK / RE2 source text (fully parenthesised) ----
IsMeta(ch) == ch \in {BSL, DOT, PLUS, STAR, QM, LPAR, RPAR, BAR, LBRK, RBRK, LBRC, RBRC, CARET, DOLLAR, SLASH}
RECURSIVE Render(_), SetToSeq(_)
SetToSeq(S) == IF S = {} THEN <<>> ELSE LET m == Min(S) IN <<m>> \o SetToSeq(S \ {m})
Render(r) ==
  CASE r.k = "lit"  -> IF IsMeta(r.c) THEN <<BSL, r.c>> ELSE <<r.c>>
    [] r.k = "any"  -> <<DOT>>
    [] r.k = "cls"  -> <<LBRK>> \o SetToSeq(r.set) \o <<RBRK>>
    [] r.k = "eps"  -> <<LPAR, RPAR>>
    [] r.k = "bol"  -> <<CARET>>
    [] r.k = "eol"  -> <<DOLLAR>>
    [] r.k = "cat"  -> Render(r.l) \o Render(r.r)
    [] r.k = "alt"  -> <<LPAR>> \o Render(r.l) \o <<BAR>> \o Render(r.r) \o <<RPAR>>
    [] r.k = "star" -> <<LPAR>> \o Render(r.r) \o <<RPAR, STAR>>
    [] r.k = "plus" -> <<LPAR>> \o Render(r.r) \o <<RPAR, PLUS>>
    [] r.k = "opt"  -> <<LPAR>> \o Render(r.r) \o <<RPAR, QM>>
=============================================================================
