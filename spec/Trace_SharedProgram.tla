------------------------- MODULE Trace_SharedProgram -------------------------
(* Validates executions recorded from the real interpreter: G interpreters,  *)
(* each created with interp.New over ONE *parser.Program, executed one after *)
(* another and then concurrently from G goroutines.  Events of one trace:     *)
(*   {"ev":"step","op":"parse","digest":D,"solo":R}   the program was parsed; *)
(*                          D = structural digest of the Program, R = result *)
(*                          of one execution on a program of its own          *)
(*   {"ev":"step","op":"exec","proc":i,"phase":"seq"|"conc",                  *)
(*    "before":D1,"after":D2,"result":R}   one Execute of interpreter i       *)
(*   {"ev":"step","op":"parses","n":N,"distinct":K,"hasprog":B,"prog":P}      *)
(*                          the same source parsed N times gave K distinct    *)
(*                          (verdict, message, position, disassembly,         *)
(*                          compiled tables) outcomes; P is the abstract      *)
(*                          program of Resolver.tla when the source was       *)
(*                          rendered from one (B)                             *)
(* The abstraction keeps of the shared program only its digest, of an         *)
(* interpreter only its result; the actions are those of SharedProgram:       *)
(* a step of process i leaves `program` unchanged (Immutable), and a finished *)
(* process holds the result of running alone (Equivalent).                    *)
EXTENDS Resolver, TraceBase

VARIABLES l, program, solo
vars == <<l, program, solo>>

Init == l = 1 /\ program = "" /\ solo = ""

Explains(ev) ==
  CASE ev.op = "parse"  -> TRUE
    [] ev.op = "exec"   -> /\ ev.before = program /\ ev.after = program      \* [][program' = program]_vars
                           /\ ev.result = solo                               \* Equivalent
    [] ev.op = "parses" -> ev.distinct = 1                                   \* Deterministic
    [] OTHER -> FALSE

TStep ==
  /\ l <= NLog /\ Log[l].ev = "step"
  /\ LET ev == Log[l]
     IN IF Explains(ev)
        THEN /\ l' = l + 1
             /\ program' = IF ev.op = "parse" THEN ev.digest ELSE program
             /\ solo' = IF ev.op = "parse" THEN ev.solo ELSE solo
        ELSE /\ Reject(l, [op |-> ev.op, expected |-> [program |-> program, result |-> solo, distinct |-> 1],
                            \* how many first errors the as-built inference can report for this program
                            \* (Resolver!PossibleOrders under Go's map order): > 1 explains a varying message
                            modelErrors |-> IF ev.op = "parses" /\ ev.hasprog
                                            THEN Cardinality({ObsError(RunWithOrder(ev.prog, o, IdentityOrder(ev.prog)))
                                                              : o \in PossibleOrders(ev.prog, "any")})
                                            ELSE 0])
             /\ l' = AfterNextReset(l) /\ program' = "" /\ solo' = ""
TReset == l <= NLog /\ Log[l].ev = "reset" /\ l' = l + 1 /\ program' = "" /\ solo' = ""
TDone == l = NLog + 1 /\ PrintT("TRACE-END") /\ l' = l + 1 /\ UNCHANGED <<program, solo>>
Next == TStep \/ TReset \/ TDone
Spec == Init /\ [][Next]_vars
=============================================================================
