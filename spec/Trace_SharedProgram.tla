------------------------- MODULE Trace_SharedProgram -------------------------
(* Validates executions recorded from the real interpreter: ONE             *)
(* *parser.Program executed several times one after another and then from G  *)
(* goroutines at the same time, every execution with an interpreter of its   *)
(* own, through every execution interface of the package.  Events of a trace: *)
(*   {"ev":"step","op":"parse","digest":D,"solo":{"v0":R0,...}}   the program *)
(*                          was parsed; D = structural digest of the Program  *)
(*                          (state of its compiled regular expressions        *)
(*                          included), Rk = result of ONE execution on a      *)
(*                          Program of its own under variant k of Config.Funcs*)
(*   {"ev":"step","op":"exec","proc":i,"phase":"seq"|"conc","api":A,          *)
(*    "variant":"vk","before":D1,"after":D2,"result":R}   one execution       *)
(*                          through interface A (SharedProgram!ApiOf)         *)
(*   {"ev":"step","op":"parses","n":N,"distinct":K,"hasprog":B,"prog":P}      *)
(*                          the same source parsed N times gave K distinct    *)
(*                          (verdict, message, position, disassembly,         *)
(*                          compiled tables) outcomes; P is the abstract      *)
(*                          program of Resolver.tla when the source was       *)
(*                          rendered from one (B)                             *)
(* The abstraction keeps of the shared program only its digest, of an         *)
(* execution only its result; the actions are those of SharedProgram:         *)
(* an execution leaves `program` unchanged (Immutable), and holds the result  *)
(* of running alone (Equivalent) -- whichever interface started it, however   *)
(* many executions came before, whatever they drew from the random generator. *)
(* A "variant" is what is PRIVATE to an execution besides its interpreter: the *)
(* functions in Config.Funcs when it starts, and -- for the sources that start *)
(* commands (system, cmd | getline, print | cmd, close) -- its command string  *)
(* (SharedProgram!CmdOf: the variable id of Config.Vars, different for every   *)
(* goroutine): an execution must produce what a single execution with ITS      *)
(* variant produces, whatever commands other interpreters start meanwhile.     *)
(* The same holds for the NUMBER FORMATS of an execution (OFMT / CONVFMT given  *)
(* as Config.Vars, a different non-default pair for every goroutine, applied   *)
(* to non-integer numbers): the formats are state of the interpreter, so the   *)
(* text an execution prints is the one a single execution with ITS formats     *)
(* prints, whatever formats other interpreters use at the same time.  Sources  *)
(* with range rules end inside an open range (end of input, exit): the         *)
(* in-range state is state of the execution (SharedProgram: interp[i].open).   *)
EXTENDS Resolver, TraceBase

VARIABLES l, program, solo
vars == <<l, program, solo>>

Init == l = 1 /\ program = "" /\ solo = ""

Explains(ev) ==
  CASE ev.op = "parse"  -> TRUE
    [] ev.op = "exec"   -> /\ ev.before = program /\ ev.after = program      \* [][program' = program]_vars
                           /\ ev.result = solo[ev.variant]                  \* Equivalent
    [] ev.op = "parses" -> ev.distinct = 1                                   \* Deterministic
    [] OTHER -> FALSE

\* the execution interfaces (SharedProgram!ApiOf)
ExecApis == {"new-execute", "new-executecontext", "execprogram"}

TStep ==
  /\ l <= NLog /\ Log[l].ev = "step"
  /\ LET ev == Log[l]
     IN /\ Assert(ev.op = "exec" => (ev.api \in ExecApis /\ ev.variant \in DOMAIN solo),
                  <<"recorded execution outside the specified domain", l>>)
        /\ IF Explains(ev)
           THEN /\ l' = l + 1
                /\ program' = IF ev.op = "parse" THEN ev.digest ELSE program
                /\ solo' = IF ev.op = "parse" THEN ev.solo ELSE solo
           ELSE /\ Reject(l, [op |-> ev.op, expected |-> [program |-> program, result |-> solo, distinct |-> 1],
                               \* how many first errors the as-built inference can report for this program
                               \* (Resolver!PossibleOrders under Go's map order): > 1 explains a varying message
                               modelErrors |-> IF ev.op = "parses" /\ ev.hasprog
                                               THEN Cardinality({ObsError(RunWithOrder(ev.prog, o, IdentityOrder(ev.prog)))
                                                                 : o \in PossibleOrders(ev.prog, "any")})
                                               ELSE 0])
                /\ l' = AfterNextReset(l) /\ program' = "" /\ solo' = ""
TReset == l <= NLog /\ Log[l].ev = "reset" /\ l' = l + 1 /\ program' = "" /\ solo' = ""
TDone == l = NLog + 1 /\ PrintT("TRACE-END") /\ l' = l + 1 /\ UNCHANGED <<program, solo>>
Next == TStep \/ TReset \/ TDone
Spec == Init /\ [][Next]_vars
=============================================================================
