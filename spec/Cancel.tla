------------------------------- MODULE Cancel -------------------------------
(***************************************************************************)
(* Cancellation of ExecuteContext (interp/newexecute.go, the dispatch loop *)
(* of interp/vm.go, executeAll in interp/interp.go, execShell in io.go).   *)
(*                                                                         *)
(* The interpreter executes VM instructions in nested execution contexts:  *)
(* BEGIN, a pattern, an action, a function body (p.execute called          *)
(* recursively by CallUser), a for-in body (p.execute called by ForIn),    *)
(* END.  Every dispatch first counts: `ops` is ONE counter shared by all   *)
(* nested executions; when it reaches CheckEvery it is reset and the       *)
(* context is polled.  An instruction may block in a child process         *)
(* (system(), cmd | getline, close of / write to an output pipe); children *)
(* are                                                                     *)
(* started with CommandContext, so cancellation kills them.                *)
(*                                                                         *)
(* Variables                                                               *)
(*   useCtx    the call is ExecuteContext (else Execute: no polling)       *)
(*   ops       the shared poll counter; stack[i].own is the counter a      *)
(*             per-call implementation would use (SharedCounter = FALSE)   *)
(*   cancelled, why   the context is done, and how ("cancel"/"deadline")   *)
(*   since     dispatches since the context became done                    *)
(*   ps        program state: phase, stack of contexts, waiting, and per   *)
(*             destination the lines printed and the lines still pending   *)
(*             in a buffer; lastret = what the wait that just completed    *)
(*             handed to the program                                       *)
(*   bs        program state of the context-free machine run in lock step  *)
(*   atCancel  snapshot [printed, ops] taken by CancelNow                  *)
(*   result    "running", "ok", "error", "ctxerr"; errId = which context   *)
(*             error was returned; delivered = per destination the lines   *)
(*             that had reached it when the call returned                  *)
(*                                                                         *)
(* Destinations of print (Dests): "direct" = standard output, Config.      *)
(* Output being a writer without a buffer of its own; "buffered" = standard*)
(* output, Config.Output having a Flush method (a *bufio.Writer; nil =     *)
(* buffered os.Stdout) -- the interpreter flushes it when a call returns,  *)
(* that is how the default output works at all; "file" = print > "f";      *)
(* "cmd" = print | "command".  All but "direct" hold lines back: a printed *)
(* line is pending until the buffer fills (BufferFull) or the call ends    *)
(* and closes / flushes everything (closeAll).  "Everything printed before *)
(* that point has been delivered" is DeliveredBefore, for every            *)
(* destination, also when fewer than a buffer-full is pending.             *)
(*                                                                         *)
(* Children end in one of Outcomes: exit status 0, another exit status,    *)
(* killed by a signal, or the wait itself fails (os/exec: a descendant of  *)
(* the shell keeps the inherited output open past WaitDelay).  system()    *)
(* and close() then hand the program 0 / the status / 256+signal / -1 with *)
(* a diagnostic on the error stream -- under Execute and under             *)
(* ExecuteContext alike as long as the context is not done (Invisible      *)
(* compares lastret of the two machines).                                  *)
(***************************************************************************)
EXTENDS Integers, Sequences, TLC

CONSTANTS CheckEvery,      \* 3 in the model, checkContextOps = 1000 in the code
          MaxDepth,        \* bound on nesting of contexts
          MaxPrint,        \* bound on printed lines
          MaxRecords,      \* bound on records of the main loop
          SharedCounter,   \* TRUE: the code; FALSE: a per-execute counter (mutant)
          PreferCtxErr,    \* TRUE: executeAll reports the context error over a secondary one
          FlushOnCtxErr,   \* TRUE: closeAll runs (deferred) also when the context error is returned
          WaitErrChecksDone, \* TRUE: a failed wait counts as the context's doing only when the context is done
          Outcomes,        \* how a child that ends by itself can end: subset of AllOutcomes
          PrintKinds       \* the print instructions programs are built from: subset of PrintInstrs

VARIABLES useCtx, ops, cancelled, why, since, ps, bs, atCancel, result, errId, delivered
vars == <<useCtx, ops, cancelled, why, since, ps, bs, atCancel, result, errId, delivered>>

CtxKinds  == {"begin", "pattern", "action", "func", "forin", "end"}
WaitKinds == {"system", "piperead", "pipeclose", "pipewrite"}
Dests     == {"direct", "buffered", "file", "cmd"}
PrintInstrs == {"pr_direct", "pr_buffered", "pr_file", "pr_cmd"}
DestOf(ins) == CASE ins = "pr_direct" -> "direct" [] ins = "pr_buffered" -> "buffered" [] ins = "pr_file" -> "file" [] ins = "pr_cmd" -> "cmd"
Instrs    == {"plain", "call", "forin", "ret", "fail"} \cup PrintKinds \cup WaitKinds
AllOutcomes == {"zero", "nonzero", "signal", "waitfail"}
\* what system() / close() hand to the program: "fail" is -1 together with a diagnostic on the error stream;
\* "absent" is no value and no diagnostic at all (only with WaitErrChecksDone = FALSE)
RetOf(oc) == CASE oc = "zero" -> "zero" [] oc = "nonzero" -> "status" [] oc = "signal" -> "signal" [] oc = "waitfail" -> "fail"
WaitsForExit == {"system", "pipeclose"}     \* the instructions that wait for the child and report how it ended

Zero == [d \in Dests |-> 0]
Total(f) == f["direct"] + f["buffered"] + f["file"] + f["cmd"]
Frame(kind) == [kind |-> kind, own |-> 0]
PsInit == [phase |-> "begin", stack |-> <<Frame("begin")>>, waiting |-> "none", printed |-> Zero, pending |-> Zero,
           lastret |-> "none", recs |-> 0]

Init == /\ useCtx \in BOOLEAN
        /\ ops = 0 /\ cancelled \in {FALSE} /\ why = "none" /\ since = 0
        /\ ps = PsInit /\ bs = PsInit
        /\ atCancel = [printed |-> Zero, ops |-> 0]
        /\ result = "running" /\ errId = "none" /\ delivered = Zero

Running == result = "running"
Top(s)  == s.stack[Len(s.stack)]
Pop(s)  == [s EXCEPT !.stack = SubSeq(@, 1, Len(@) - 1)]
Push(s, kind) == [s EXCEPT !.stack = Append(@, Frame(kind))]

\* ---- the program: effect of one executed instruction on the program state
CanExec(s, ins) ==
  /\ s.stack # <<>> /\ s.waiting = "none"
  /\ ins \in PrintInstrs => Total(s.printed) < MaxPrint
  /\ ins = "pr_direct" => s.printed["buffered"] = 0      \* one call has one Config.Output
  /\ ins = "pr_buffered" => s.printed["direct"] = 0
  /\ ins \in {"call", "forin"} => Len(s.stack) < MaxDepth
\* (the value a completed wait handed over is used up by the next instruction)
Exec(s0, ins) ==
  LET s == [s0 EXCEPT !.lastret = "none"] IN
  CASE ins = "plain" -> s
    [] ins \in PrintInstrs ->
         [s EXCEPT !.printed[DestOf(ins)] = @ + 1,
                   !.pending[DestOf(ins)] = IF ins = "pr_direct" THEN @ ELSE @ + 1]
    [] ins = "call"  -> Push(s, "func")
    [] ins = "forin" -> Push(s, "forin")
    [] ins = "ret"   -> Pop(s)              \* end of the code block of the innermost context
    [] ins \in WaitKinds -> [s EXCEPT !.waiting = ins]
    [] OTHER -> s

\* ---- the counter
Tick(st) == [st EXCEPT ![Len(st)].own = (@ + 1) % CheckEvery]
Counter == IF SharedCounter \/ ps.stack = <<>> THEN ops ELSE Top(ps).own
PollsNow == useCtx /\ Counter + 1 = CheckEvery

Finish(res) ==
  /\ result' = res
  /\ errId' = IF res = "ctxerr" THEN why ELSE "none"
  \* closeAll closes every file and command stream and flushes standard output: nothing stays pending
  /\ delivered' = IF res = "ctxerr" /\ ~FlushOnCtxErr THEN [d \in Dests |-> ps.printed[d] - ps.pending[d]] ELSE ps.printed

\* One iteration of the dispatch loop: count, maybe poll, execute.
Dispatch(ins) ==
  /\ Running /\ CanExec(ps, ins)
  /\ ops' = IF useCtx THEN (ops + 1) % CheckEvery ELSE ops
  /\ since' = IF cancelled THEN since + 1 ELSE since
  /\ IF PollsNow /\ cancelled
     THEN \* checkContext returns ctx.Err(): every nested execute returns it
          /\ Finish("ctxerr")
          /\ ps' = [ps EXCEPT !.stack = <<>>]
          /\ UNCHANGED bs
     ELSE IF ins = "fail"
     THEN \* a run-time error; executeAll prefers the context's error when the context is done
          /\ Finish(IF useCtx /\ cancelled /\ PreferCtxErr THEN "ctxerr" ELSE "error")
          /\ ps' = [ps EXCEPT !.stack = <<>>]
          /\ bs' = [bs EXCEPT !.stack = <<>>]
     ELSE \* (the per-frame counters exist only in the variant: with the shared counter they would just multiply states)
          /\ ps' = Exec([ps EXCEPT !.stack = IF useCtx /\ ~SharedCounter THEN Tick(@) ELSE @], ins)
          /\ bs' = IF cancelled THEN bs ELSE Exec(bs, ins)
          /\ UNCHANGED <<result, errId, delivered>>
  /\ UNCHANGED <<useCtx, cancelled, why, atCancel>>

\* the record loop of execActions and the switch between BEGIN, main loop and END
NextRecord ==
  /\ Running /\ ps.stack = <<>> /\ ps.phase = "main" /\ ps.recs < MaxRecords
  /\ \E kind \in {"pattern", "action"} :
       /\ ps' = Push([ps EXCEPT !.recs = @ + 1], kind)
       /\ bs' = IF cancelled THEN bs ELSE Push([bs EXCEPT !.recs = @ + 1], kind)
  /\ UNCHANGED <<useCtx, ops, cancelled, why, since, atCancel, result, errId, delivered>>
LeaveBegin ==
  /\ Running /\ ps.stack = <<>> /\ ps.phase = "begin"
  /\ ps' = [ps EXCEPT !.phase = "main"] /\ bs' = IF cancelled THEN bs ELSE [bs EXCEPT !.phase = "main"]
  /\ UNCHANGED <<useCtx, ops, cancelled, why, since, atCancel, result, errId, delivered>>
EnterEnd ==
  /\ Running /\ ps.stack = <<>> /\ ps.phase = "main"
  /\ ps' = Push([ps EXCEPT !.phase = "end"], "end")
  /\ bs' = IF cancelled THEN bs ELSE Push([bs EXCEPT !.phase = "end"], "end")
  /\ UNCHANGED <<useCtx, ops, cancelled, why, since, atCancel, result, errId, delivered>>
FinishOk ==
  /\ Running /\ ps.stack = <<>> /\ ps.phase = "end"
  /\ Finish("ok")
  /\ UNCHANGED <<useCtx, ops, cancelled, why, since, ps, bs, atCancel>>

\* the context becomes done (cancel() or the deadline passes); possible at any moment, also before the first step
CancelNow ==
  /\ Running /\ useCtx /\ ~cancelled
  /\ cancelled' = TRUE /\ why' \in {"cancel", "deadline"} /\ since' = 0
  /\ atCancel' = [printed |-> ps.printed, ops |-> Counter]
  /\ UNCHANGED <<useCtx, ops, ps, bs, result, errId, delivered>>

\* a buffer fills up and is written out (or the program calls fflush): nothing of that destination stays pending
BufferFull ==
  /\ Running
  /\ \E d \in Dests \ {"direct"} :
       /\ ps.pending[d] > 0
       /\ ps' = [ps EXCEPT !.pending[d] = 0]
       /\ bs' = IF cancelled THEN bs ELSE [bs EXCEPT !.pending[d] = 0]
  /\ UNCHANGED <<useCtx, ops, cancelled, why, since, atCancel, result, errId, delivered>>

\* a child process ends by itself: the blocked instruction completes; system() and close() report how it ended.
\* The context plays no part in that as long as it is not done.
ChildDone ==
  /\ Running /\ ps.waiting # "none"
  /\ \E oc \in (IF ps.waiting \in WaitsForExit THEN Outcomes ELSE {"zero"}) :
       LET ret == IF ps.waiting \in WaitsForExit THEN RetOf(oc) ELSE "none"
           \* the variant: under ExecuteContext any failed wait of system() is taken for the context's doing; the
           \* context not being done there is no error to return, and the program goes on without value or diagnostic
           cret == IF ~WaitErrChecksDone /\ useCtx /\ ps.waiting = "system" /\ oc = "waitfail" THEN "absent" ELSE ret
       IN /\ ps' = [ps EXCEPT !.waiting = "none", !.lastret = cret]
          /\ bs' = IF cancelled THEN bs ELSE [bs EXCEPT !.waiting = "none", !.lastret = ret]
  /\ UNCHANGED <<useCtx, ops, cancelled, why, since, atCancel, result, errId, delivered>>
\* CommandContext kills the child of a done context; system() then returns the context's error at once
\* (or, when Wait reports a plain "killed by signal" status, the status), getline / close return to the
\* program, which is stopped by the next poll
ChildKilled ==
  /\ Running /\ useCtx /\ cancelled /\ ps.waiting # "none"
  /\ \/ /\ ps.waiting = "system"       \* Wait reports an error: system() returns the context's error
        /\ Finish("ctxerr") /\ ps' = [ps EXCEPT !.waiting = "none", !.stack = <<>>]
     \/ /\ ps.waiting = "pipewrite"    \* the blocked write fails (broken pipe): a secondary run-time error
        /\ Finish(IF PreferCtxErr THEN "ctxerr" ELSE "error") /\ ps' = [ps EXCEPT !.waiting = "none", !.stack = <<>>]
     \/ /\ ps.waiting # "pipewrite"
        /\ ps' = [ps EXCEPT !.waiting = "none"] /\ UNCHANGED <<result, errId, delivered>>
  /\ UNCHANGED <<useCtx, ops, cancelled, why, since, bs, atCancel>>

Step == \E ins \in Instrs : Dispatch(ins)
Next == Step \/ NextRecord \/ LeaveBegin \/ EnterEnd \/ FinishOk \/ CancelNow \/ ChildDone \/ ChildKilled \/ BufferFull

\* progress of the interpreter and of the operating system (not of the program: it may loop for ever)
Fairness == WF_vars(Step) /\ WF_vars(ChildKilled) /\ WF_vars(NextRecord \/ LeaveBegin \/ EnterEnd \/ FinishOk)
Spec == Init /\ [][Next]_vars /\ Fairness

\* ------------------------------------------------------------- properties
TypeOK == /\ ops \in 0..(CheckEvery - 1) /\ since \in 0..(CheckEvery + 1)
          /\ result \in {"running", "ok", "error", "ctxerr"}
          /\ Len(ps.stack) <= MaxDepth

\* at most CheckEvery dispatches after the context is done
Prompt == since <= CheckEvery

\* after cancellation the call ends with the context's error, or by itself within the bound
EndsRight == (cancelled /\ ~Running) => result \in {"ctxerr", "ok"}
NoSpuriousCtxErr == result = "ctxerr" => (useCtx /\ cancelled)
\* context.Canceled for a cancelled context, context.DeadlineExceeded for an expired one
RightIdentity == (result = "ctxerr" => errId = why) /\ (result # "ctxerr" => errId = "none")

\* everything printed (before the cancellation, and altogether) has been delivered when the call returns,
\* whatever the destination and however little of it is pending
Delivered == ~Running => delivered = ps.printed
DeliveredBefore == ~Running => \A d \in Dests : delivered[d] >= atCancel.printed[d]

\* a context that is never cancelled is invisible: same program state as the context-free machine
ViewOf(s) == [phase |-> s.phase, kinds |-> [j \in 1..Len(s.stack) |-> s.stack[j].kind], waiting |-> s.waiting,
              printed |-> s.printed, pending |-> s.pending, lastret |-> s.lastret, recs |-> s.recs]
Invisible == ~cancelled => ViewOf(ps) = ViewOf(bs)

\* exact count of the shared-counter implementation (information for the harness, not demanded of the code)
ExactBound == (cancelled /\ SharedCounter) => since <= CheckEvery - atCancel.ops

\* liveness: a done context ends the call (the program may loop for ever, the interpreter keeps dispatching)
Stops == cancelled ~> ~Running
=============================================================================
