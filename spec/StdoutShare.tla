----------------------------- MODULE StdoutShare -----------------------------
(***************************************************************************)
(* The shared standard output of C13 at the level of single writes.         *)
(*                                                                         *)
(* Two writers use ONE buffered writer (Go's bufio.Writer: a byte array    *)
(* `buf` and a fill count `n`): the interpreter (print) and the goroutine   *)
(* of os/exec that copies the output of a child process started with       *)
(* cmd.Stdout = the very same writer (print | cmd, system).  A Write of a   *)
(* chunk is not atomic: it reads n, copies the chunk behind position n and  *)
(* stores n + length.  With Serialised = TRUE a writer holds a lock around  *)
(* the three steps (what the property demands: "never lost or corrupted by  *)
(* concurrent writes from the program itself"); with Serialised = FALSE     *)
(* the steps of the two writers interleave freely (what a tree does that    *)
(* hands the writer to the child unprotected).                              *)
(*                                                                         *)
(* TLC proves NoLostUpdate and AtMostOneInside for Serialised = TRUE and    *)
(* exhibits the lost-update schedule for Serialised = FALSE: both writers   *)
(* inside Write at once.  That schedule is what the harness provokes on the *)
(* real code with a gate writer as Config.Output (Scenarios below).         *)
(***************************************************************************)
EXTENDS IOStreams, Json

CONSTANT Serialised

Writers == {"interp", "copier"}
\* chunks as the real writers issue them: print "p" is two writes, the copier forwards what cat echoed
Chunks == [interp |-> << <<c_p>>, <<LF>>, <<c_p>>, <<LF>> >>, copier |-> << <<c_k, LF>> >>]
Cap == 8
Flat(w) == Concat(Chunks[w])

VARIABLES buf, n, pc, loc, idx, lock
vars == <<buf, n, pc, loc, idx, lock>>

Init == /\ buf = [k \in 1..Cap |-> 0] /\ n = 0
        /\ pc = [w \in Writers |-> "idle"] /\ loc = [w \in Writers |-> 0]
        /\ idx = [w \in Writers |-> 1] /\ lock = "none"

Enter(w) == /\ pc[w] = "idle" /\ idx[w] <= Len(Chunks[w])
            /\ IF Serialised THEN lock = "none" /\ lock' = w ELSE UNCHANGED lock
            /\ pc' = [pc EXCEPT ![w] = "read"]
            /\ UNCHANGED <<buf, n, loc, idx>>
ReadN(w) == /\ pc[w] = "read" /\ loc' = [loc EXCEPT ![w] = n] /\ pc' = [pc EXCEPT ![w] = "copy"]
            /\ UNCHANGED <<buf, n, idx, lock>>
Copy(w)  == /\ pc[w] = "copy"
            /\ LET d == Chunks[w][idx[w]]
               IN buf' = [k \in 1..Cap |-> IF k > loc[w] /\ k <= loc[w] + Len(d) THEN d[k - loc[w]] ELSE buf[k]]
            /\ pc' = [pc EXCEPT ![w] = "store"]
            /\ UNCHANGED <<n, loc, idx, lock>>
Store(w) == /\ pc[w] = "store"
            /\ n' = loc[w] + Len(Chunks[w][idx[w]])
            /\ idx' = [idx EXCEPT ![w] = @ + 1]
            /\ pc' = [pc EXCEPT ![w] = "idle"]
            /\ lock' = (IF Serialised THEN "none" ELSE lock)
            /\ UNCHANGED <<buf, loc>>

Next == \E w \in Writers : Enter(w) \/ ReadN(w) \/ Copy(w) \/ Store(w)
Spec == Init /\ [][Next]_vars

Inside(w) == pc[w] # "idle"
AllDone == \A w \in Writers : pc[w] = "idle" /\ idx[w] > Len(Chunks[w])
Delivered == [k \in 1..n |-> buf[k]]

\* what the property demands
AtMostOneInside == ~(Inside("interp") /\ Inside("copier"))
NoLostUpdate ==
  AllDone => IsAllowedStdout(Delivered, Flat("interp"), <<[out |-> Flat("copier"), lo |-> 0, hi |-> Len(Flat("interp"))]>>)

\* ---- what is provoked on the real code: programs in which two writers can be active at once.
\* maxInside = the largest number of goroutines the property allows inside Config.Output.Write.
Scenarios ==
  { [fam |-> "share", scenario |-> "pipe-and-print",  pred |-> [maxInside |-> 1]],
    [fam |-> "share", scenario |-> "two-pipes",       pred |-> [maxInside |-> 1]],
    [fam |-> "share", scenario |-> "system-child",    pred |-> [maxInside |-> 1]],
    [fam |-> "share", scenario |-> "no-child",        pred |-> [maxInside |-> 1]] }
ASSUME \A sc \in Scenarios : PrintT(ToJson(sc))
=============================================================================
