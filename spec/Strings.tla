------------------------------ MODULE Strings ------------------------------
(***************************************************************************)
(* Byte strings of the GoAWK specification.                                *)
(*                                                                         *)
(* A string is a sequence of integers 0..255 (bytes).  TLC cannot index    *)
(* TLA+ string literals, so every module of the specification uses this    *)
(* representation; the conformance harness maps JSON arrays of integers to *)
(* Go byte slices and back.                                                *)
(***************************************************************************)
EXTENDS Integers, Sequences, FiniteSets

\* ---- named bytes (ASCII) ----
NUL == 0    TAB == 9    LF == 10   CR == 13   SP == 32
BANG == 33  DQ == 34    HASH == 35 DOLLAR == 36 PCT == 37  AMP == 38
LPAR == 40  RPAR == 41  STAR == 42 PLUS == 43 COMMA == 44 MINUS == 45
DOT == 46   SLASH == 47 COLON == 58 SEMI == 59 LT == 60   EQ == 61  GT == 62
QM == 63    AT == 64    LBRK == 91 BSL == 92  RBRK == 93 CARET == 94
USCORE == 95 LBRC == 123 BAR == 124 RBRC == 125 TILDE == 126
D0 == 48 D1 == 49 D2 == 50 D3 == 51 D4 == 52 D5 == 53 D6 == 54 D7 == 55 D8 == 56 D9 == 57
\* letters: c_a .. c_z, C_A .. C_Z  (single-letter names are left free for bound variables)
C_A == 65 C_B == 66 C_C == 67 C_D == 68 C_E == 69 C_F == 70 C_G == 71 C_I == 73 C_N == 78 C_R == 82 C_S == 83 C_T == 84 C_X == 88
c_a == 97 c_b == 98 c_c == 99 c_d == 100 c_e == 101 c_f == 102 c_g == 103 c_h == 104 c_i == 105
c_j == 106 c_k == 107 c_l == 108 c_m == 109 c_n == 110 c_o == 111 c_p == 112 c_q == 113 c_r == 114
c_s == 115 c_t == 116 c_u == 117 c_v == 118 c_w == 119 c_x == 120 c_y == 121 c_z == 122
\* multi-byte / non-UTF-8 bytes
xC3 == 195 xA9 == 169 xFF == 255 xC2 == 194 xA0 == 160 xEF == 239 xBB == 187 xBF == 191
EACUTE == <<195, 169>>      \* U+00E9 in UTF-8
BOM    == <<239, 187, 191>> \* U+FEFF in UTF-8

Min(S) == CHOOSE m \in S : \A k \in S : m <= k
Max(S) == CHOOSE m \in S : \A k \in S : m >= k

IsBlank(ch) == ch \in {SP, TAB, LF}
IsDigit(ch) == ch >= 48 /\ ch <= 57

\* ---- concatenation of a sequence of strings, with a separator ----
RECURSIVE Join(_, _)
Join(ss, sep) ==
  IF ss = <<>> THEN <<>>
  ELSE IF Len(ss) = 1 THEN ss[1]
  ELSE ss[1] \o sep \o Join(Tail(ss), sep)

RECURSIVE Concat(_)
Concat(ss) == IF ss = <<>> THEN <<>> ELSE ss[1] \o Concat(Tail(ss))

\* does `pat` occur in `str` starting at position k (1-based)?
OccursAt(str, pat, k) ==
  /\ k >= 1 /\ k + Len(pat) - 1 <= Len(str)
  /\ \A j \in 1..Len(pat) : str[k + j - 1] = pat[j]

\* first position >= from where pat occurs, 0 if none
FirstOcc(str, pat, from) ==
  LET P == {k \in from..(Len(str) - Len(pat) + 1) : OccursAt(str, pat, k)}
  IN IF P = {} THEN 0 ELSE Min(P)

\* ---- split on a literal, non-empty separator string (strings.Split) ----
RECURSIVE SplitLit(_, _)
SplitLit(str, sep) ==
  LET k == FirstOcc(str, sep, 1)
  IN IF k = 0 THEN <<str>>
     ELSE <<SubSeq(str, 1, k - 1)>> \o SplitLit(SubSeq(str, k + Len(sep), Len(str)), sep)

\* ---- split on runs of blanks, leading/trailing ignored (default FS) ----
RECURSIVE SkipBlanks(_, _)
SkipBlanks(str, k) == IF k <= Len(str) /\ IsBlank(str[k]) THEN SkipBlanks(str, k + 1) ELSE k
RECURSIVE SkipNonBlanks(_, _)
SkipNonBlanks(str, k) == IF k <= Len(str) /\ ~IsBlank(str[k]) THEN SkipNonBlanks(str, k + 1) ELSE k

RECURSIVE SplitBlanksFrom(_, _)
SplitBlanksFrom(str, k) ==
  LET st == SkipBlanks(str, k)
  IN IF st > Len(str) THEN <<>>
     ELSE LET en == SkipNonBlanks(str, st)
          IN <<SubSeq(str, st, en - 1)>> \o SplitBlanksFrom(str, en)
SplitBlanks(str) == SplitBlanksFrom(str, 1)

\* ---- UTF-8 view: the sequence of characters (each a byte string) of str.
\* Only the encodings the specification uses are recognised as multi-byte:
\* two-byte sequences C2..DF 80..BF and three-byte EF BB BF style E0..EF xx xx.
\* Any other byte >= 128 is a character of its own (Go decodes it as U+FFFD, width 1).
IsCont(ch) == ch >= 128 /\ ch <= 191
CharLenAt(str, k) ==
  IF str[k] >= 194 /\ str[k] <= 223 /\ k + 1 <= Len(str) /\ IsCont(str[k + 1]) THEN 2
  ELSE IF str[k] >= 225 /\ str[k] <= 239 /\ k + 2 <= Len(str) /\ IsCont(str[k + 1]) /\ IsCont(str[k + 2]) THEN 3
  ELSE 1
RECURSIVE CharsFrom(_, _)
CharsFrom(str, k) ==
  IF k > Len(str) THEN <<>>
  ELSE LET w == CharLenAt(str, k) IN <<SubSeq(str, k, k + w - 1)>> \o CharsFrom(str, k + w)
Chars(str) == CharsFrom(str, 1)
NumChars(str) == Len(Chars(str))

\* ---- decimal rendering of an integer ----
RECURSIVE NatDigits(_)
NatDigits(m) == IF m < 10 THEN <<48 + m>> ELSE NatDigits(m \div 10) \o <<48 + (m % 10)>>
IntStr(m) == IF m < 0 THEN <<MINUS>> \o NatDigits(0 - m) ELSE NatDigits(m)

\* all strings over alphabet A of length exactly k / at most k
RECURSIVE StrN(_, _)
StrN(A, k) == IF k = 0 THEN {<<>>} ELSE {<<ch>> \o w : ch \in A, w \in StrN(A, k - 1)}
StrUpTo(A, k) == UNION {StrN(A, j) : j \in 0..k}
=============================================================================
