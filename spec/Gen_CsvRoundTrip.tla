--------------------------- MODULE Gen_CsvRoundTrip ---------------------------
(* Case export for the write-then-read direction of C08: lists of records of   *)
(* carriage-return-free field values; the prediction is what the specification *)
(* reads back from what the intended writer writes -- by the RoundTrip law of  *)
(* MC_CsvReader, the same values.                                              *)
EXTENDS CsvReader, TLC, Json

CONSTANTS NFields, FLen

VARIABLES cfg, recs, via, done
vars == <<cfg, recs, via, done>>

\* the default separators, a multi-byte one, and a one-byte custom one (so that already with one-byte
\* fields a value can consist of the configured separator and nothing else that forces quoting)
RTMenu == {m \in CfgMenu : m.name \in {"csv", "tsv", "csv-eacute"}}
          \cup {[name |-> "csv-bar", sep |-> <<BAR>>, comment |-> <<>>, header |-> FALSE],
                [name |-> "csv-semicolon", sep |-> <<SEMI>>, comment |-> <<>>, header |-> FALSE]}
Alpha(sep) == {c_a, DQ, LF, SP} \cup {sep[j] : j \in 1..Len(sep)}
Lists(sep) == UNION {[1..m -> StrUpTo(Alpha(sep), FLen)] : m \in 1..NFields}
Seconds == { << <<>> >>, << <<c_a>>, <<LF>> >>, << <<DQ>>, <<>> >>, << <<BSL, DOT>> >> }

RECURSIVE WriteAll(_, _)
WriteAll(rs, sep) == IF rs = <<>> THEN <<>> ELSE CsvWriteIntended(rs[1], sep) \o <<LF>> \o WriteAll(Tail(rs), sep)
ReadBack(rs, sep) ==
  LET rows == CsvRows(WriteAll(rs, sep), [sep |-> sep, comment |-> <<>>, header |-> FALSE])
  IN [j \in 1..Len(rows) |-> rows[j].fields]

Init ==
  /\ cfg \in RTMenu
  /\ \E f1 \in Lists(cfg.sep) : recs \in ({<<f1>>} \cup {<<f1, f2>> : f2 \in Seconds} \cup {<<f2, f1>> : f2 \in {<< <<>> >>}})
  /\ via \in {"print", "rebuild"}
  /\ done = FALSE

Next ==
  /\ ~done /\ done' = TRUE
  /\ Assert(ReadBack(recs, cfg.sep) = recs, "the specification's own round trip fails")
  /\ PrintT(ToJson([fam |-> "rt", name |-> cfg.name, sep |-> cfg.sep, via |-> via, recs |-> recs, back |-> ReadBack(recs, cfg.sep)]))
  /\ UNCHANGED <<cfg, recs, via>>

Spec == Init /\ [][Next]_vars
=============================================================================
