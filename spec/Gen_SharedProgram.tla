-------------------------- MODULE Gen_SharedProgram --------------------------
(* Behaviour export for SharedProgram: every complete interleaving of NProc  *)
(* interpreters over one shared program (exhaustive under breadth-first      *)
(* search, sampled under -simulate).  A case is the program body, the        *)
(* schedule (the sequence of process numbers in the order in which they took *)
(* their steps, the first step of a process being its New) and the result    *)
(* the specification predicts for EVERY process: that of running alone.      *)
EXTENDS SharedProgram, Json

CONSTANTS MaxLen, Rich

Menu == { [op |-> "set", g |-> 1, k |-> 3], [op |-> "set", g |-> 2, k |-> 4],
          [op |-> "add", g |-> 1, k |-> 2], [op |-> "add", g |-> 2, k |-> 3],
          [op |-> "match", g |-> 1, k |-> 1], [op |-> "match", g |-> 2, k |-> 2],
          [op |-> "call", g |-> 1, k |-> 0], [op |-> "print", g |-> 1, k |-> 0] }
        \cup (IF Rich THEN { [op |-> "set", g |-> 1, k |-> 4], [op |-> "add", g |-> 2, k |-> 4],
                             [op |-> "match", g |-> 1, k |-> 2], [op |-> "call", g |-> 2, k |-> 0],
                             [op |-> "print", g |-> 2, k |-> 0] } ELSE {})

VARIABLES body, program, interp, sched, emitted
vars == <<body, program, interp, sched, emitted>>

Init ==
  /\ body = <<>> /\ program = <<>> /\ interp = [i \in 1..NProc |-> NoInterp] /\ sched = <<>> /\ emitted = FALSE

\* choose the program instruction by instruction, then freeze it
Grow ==
  /\ program = <<>> /\ Len(body) < MaxLen
  /\ \E m \in Menu : body' = Append(body, m)
  /\ UNCHANGED <<program, interp, sched, emitted>>
Freeze ==
  /\ program = <<>>
  /\ program' = MkProgram(body)
  /\ UNCHANGED <<body, interp, sched, emitted>>
New(i) ==
  /\ program # <<>> /\ interp[i].status = "none"
  /\ interp' = [interp EXCEPT ![i] = NewInterp] /\ sched' = Append(sched, i)
  /\ UNCHANGED <<body, program, emitted>>
Step(i) ==
  /\ program # <<>> /\ interp[i].status = "run"
  /\ LET e == Exec1(program, interp[i], i)
     IN interp' = [interp EXCEPT ![i] = e.it] /\ program' = e.pr
  /\ sched' = Append(sched, i)
  /\ UNCHANGED <<body, emitted>>
AllDone == \A i \in 1..NProc : interp[i].status = "done"
Emit ==
  /\ program # <<>> /\ AllDone /\ ~emitted
  /\ PrintT(ToJson([fam |-> "shared", body |-> body, nproc |-> NProc, sched |-> sched,
                    expect |-> [out |-> Solo(body).out, g |-> Solo(body).g]]))
  /\ emitted' = TRUE /\ UNCHANGED <<body, program, interp, sched>>
Next == Grow \/ Freeze \/ (\E i \in 1..NProc : New(i) \/ Step(i)) \/ Emit
Spec == Init /\ [][Next]_vars
=============================================================================
