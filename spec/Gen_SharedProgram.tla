-------------------------- MODULE Gen_SharedProgram --------------------------
(* Behaviour export for SharedProgram: every complete interleaving of NProc  *)
(* processes over one shared program, each executing it MaxRuns times         *)
(* (exhaustive under breadth-first search, sampled under -simulate).  A case  *)
(* is the program body, the schedule (the sequence of process numbers in the  *)
(* order in which they took their steps, the first step of an execution being *)
(* its New), the execution interface of every process and the result the      *)
(* specification predicts for EVERY execution: that of running alone.  Random *)
(* numbers and the initial seed appear in it as tokens (>= 10000): equal      *)
(* tokens are equal numbers in all executions of the case.                    *)
EXTENDS SharedProgram, Json

CONSTANTS MaxLen, Rich

\* regular expression 3 (/1|10/) is used both as the compiled literal ("match") and, with the same source, on the
\* run-time path ("rlen")
Menu == { [op |-> "set", g |-> 1, k |-> 3], [op |-> "set", g |-> 2, k |-> 4],
          [op |-> "add", g |-> 1, k |-> 2],
          [op |-> "match", g |-> 2, k |-> 3], [op |-> "rlen", g |-> 2, k |-> 3],
          [op |-> "call", g |-> 1, k |-> 0],
          [op |-> "rand", g |-> 1, k |-> 0], [op |-> "srand", g |-> 1, k |-> 3] }
        \cup (IF Rich THEN { [op |-> "set", g |-> 1, k |-> 4], [op |-> "add", g |-> 2, k |-> 3], [op |-> "add", g |-> 2, k |-> 4],
                             [op |-> "match", g |-> 1, k |-> 1], [op |-> "match", g |-> 1, k |-> 2], [op |-> "match", g |-> 1, k |-> 3],
                             [op |-> "rlen", g |-> 1, k |-> 3], [op |-> "rlen", g |-> 1, k |-> 1],
                             [op |-> "call", g |-> 2, k |-> 0], [op |-> "srand", g |-> 1, k |-> 2],
                             [op |-> "print", g |-> 1, k |-> 0], [op |-> "print", g |-> 2, k |-> 0] } ELSE {})

VARIABLES body, program, interp, runs, sched, emitted
vars == <<body, program, interp, runs, sched, emitted>>

Init ==
  /\ body = <<>> /\ program = <<>> /\ interp = [i \in 1..NProc |-> NoInterp] /\ runs = [i \in 1..NProc |-> 0]
  /\ sched = <<>> /\ emitted = FALSE

\* choose the program instruction by instruction, then freeze it
Grow ==
  /\ program = <<>> /\ Len(body) < MaxLen
  /\ \E m \in Menu : body' = Append(body, m)
  /\ UNCHANGED <<program, interp, runs, sched, emitted>>
Freeze ==
  /\ program = <<>>
  /\ program' = MkProgram(body)
  /\ UNCHANGED <<body, interp, runs, sched, emitted>>
New(i) ==
  /\ program # <<>> /\ interp[i].status \in {"none", "done"} /\ runs[i] < MaxRuns
  /\ interp' = [interp EXCEPT ![i] = StartInterp(NoInterp)] /\ runs' = [runs EXCEPT ![i] = @ + 1]
  /\ sched' = Append(sched, i)
  /\ UNCHANGED <<body, program, emitted>>
Step(i) ==
  /\ program # <<>> /\ interp[i].status = "run"
  /\ LET e == Exec1(program, interp[i], i)
     IN interp' = [interp EXCEPT ![i] = e.it] /\ program' = e.pr
  /\ sched' = Append(sched, i)
  /\ UNCHANGED <<body, runs, emitted>>
AllDone == \A i \in 1..NProc : interp[i].status = "done" /\ runs[i] = MaxRuns
Emit ==
  /\ program # <<>> /\ AllDone /\ ~emitted
  /\ PrintT(ToJson([fam |-> "shared", body |-> body, nproc |-> NProc, runs |-> MaxRuns, sched |-> sched,
                    apis |-> [i \in 1..NProc |-> ApiOf(i)],
                    expect |-> [out |-> Solo(body).out, g |-> Solo(body).g]]))
  /\ emitted' = TRUE /\ UNCHANGED <<body, program, interp, runs, sched>>
Next == Grow \/ Freeze \/ (\E i \in 1..NProc : New(i) \/ Step(i)) \/ Emit
Spec == Init /\ [][Next]_vars
=============================================================================
