-------------------------- MODULE Gen_SharedProgram --------------------------
(* Behaviour export for SharedProgram: every complete interleaving of NProc  *)
(* processes over one shared program, each executing it MaxRuns times         *)
(* (exhaustive under breadth-first search, sampled under -simulate).  A case  *)
(* is the program body, the schedule (the sequence of process numbers in the  *)
(* order in which they took their steps, the first step of an execution being *)
(* its New), the execution interface of every process and the result the      *)
(* specification predicts for EVERY execution: that of running alone.  Random *)
(* numbers and the initial seed appear in it as tokens (>= 10000): equal      *)
(* tokens are equal numbers in all executions of the case.                    *)
(* Extra = "rules": bodies over the menu of RANGE RULES (SharedProgram: "range"),  *)
(* executions that end inside a range included.                                *)
(* Fam = "formats": like "shell", for programs that convert a NON-INTEGER        *)
(* number (print through OFMT, concatenation through CONVFMT): NG free-running  *)
(* executions, every one with number formats of its own (fmts[i] = FmtOf(i)     *)
(* fraction digits in OFMT, one more in CONVFMT, given as Config.Vars); the     *)
(* case holds what running alone with ITS formats gives.                        *)
(* Fam = "shell": programs over the instructions that START COMMANDS, for NG   *)
(* executions that run freely at the same time (no schedule is imposed: the    *)
(* step that matters lies inside one instruction), every execution with an     *)
(* interpreter and a COMMAND STRING of its own (CmdOf(i); the real execution    *)
(* gets it as the variable id = CmdVal(CmdOf(i)), the command is `echo <id>`).  *)
(* The case holds, for every execution i, what running alone with ITS command  *)
(* string gives (MC_SharedProgram with Cmds = TRUE: Equivalent over all         *)
(* interleavings of the two steps of starting a command).                       *)
EXTENDS SharedProgram, Json

CONSTANTS MaxLen, Rich, Fam, NG, Extra

\* regular expression 3 (/1|10/) is used both as the compiled literal ("match") and, with the same source, on the
\* run-time path ("rlen")
CmdMenu == { [op |-> "set", g |-> 1, k |-> 3], [op |-> "print", g |-> 1, k |-> 0],
             [op |-> "system", g |-> 1, k |-> 0], [op |-> "cmdgetline", g |-> 1, k |-> 0], [op |-> "cmdgetline", g |-> 2, k |-> 0],
             [op |-> "printcmd", g |-> 1, k |-> 0], [op |-> "close", g |-> 1, k |-> 0] }
\* Extra = "rules": programs with range rules over the three records of the input (closing before the end, at the record
\* that opens them, later than they open, or never: the execution ends inside the range)
RuleMenu == { [op |-> "range", g |-> 1, k |-> 2], [op |-> "range", g |-> 2, k |-> 9], [op |-> "range", g |-> 3, k |-> 3],
              [op |-> "range", g |-> 2, k |-> 3], [op |-> "range", g |-> 3, k |-> 9],
              [op |-> "set", g |-> 1, k |-> 3], [op |-> "print", g |-> 1, k |-> 0] }
\* Fam = "formats": conversions of a non-integer number under the formats of the execution
FmtMenu == { [op |-> "set", g |-> 1, k |-> 3], [op |-> "add", g |-> 1, k |-> 2], [op |-> "oprint", g |-> 1, k |-> 0],
             [op |-> "conv", g |-> 1, k |-> 0], [op |-> "print", g |-> 1, k |-> 0] }
Menu == IF Fam = "shell" THEN CmdMenu ELSE IF Fam = "formats" THEN FmtMenu ELSE IF Extra = "rules" THEN RuleMenu ELSE
        { [op |-> "set", g |-> 1, k |-> 3], [op |-> "set", g |-> 2, k |-> 4],
          [op |-> "add", g |-> 1, k |-> 2],
          [op |-> "match", g |-> 2, k |-> 3], [op |-> "rlen", g |-> 2, k |-> 3],
          [op |-> "call", g |-> 1, k |-> 0],
          [op |-> "rand", g |-> 1, k |-> 0], [op |-> "srand", g |-> 1, k |-> 3] }
        \cup (IF Rich THEN { [op |-> "set", g |-> 1, k |-> 4], [op |-> "add", g |-> 2, k |-> 3], [op |-> "add", g |-> 2, k |-> 4],
                             [op |-> "match", g |-> 1, k |-> 1], [op |-> "match", g |-> 1, k |-> 2], [op |-> "match", g |-> 1, k |-> 3],
                             [op |-> "rlen", g |-> 1, k |-> 3], [op |-> "rlen", g |-> 1, k |-> 1],
                             [op |-> "call", g |-> 2, k |-> 0], [op |-> "srand", g |-> 1, k |-> 2],
                             [op |-> "print", g |-> 1, k |-> 0], [op |-> "print", g |-> 2, k |-> 0] } ELSE {})

VARIABLES body, program, shell, interp, runs, sched, emitted
vars == <<body, program, shell, interp, runs, sched, emitted>>

Init ==
  /\ body = <<>> /\ program = <<>> /\ shell = NoShell /\ interp = [i \in 1..NProc |-> NoInterp] /\ runs = [i \in 1..NProc |-> 0]
  /\ sched = <<>> /\ emitted = FALSE

\* choose the program instruction by instruction, then freeze it
Grow ==
  /\ program = <<>> /\ Len(body) < MaxLen
  /\ \E m \in Menu : body' = Append(body, m)
  /\ UNCHANGED <<program, shell, interp, runs, sched, emitted>>
Freeze ==
  /\ program = <<>>
  /\ program' = MkProgram(body)
  /\ UNCHANGED <<body, shell, interp, runs, sched, emitted>>
New(i) ==
  /\ Fam = "shared"
  /\ program # <<>> /\ interp[i].status \in {"none", "done"} /\ runs[i] < MaxRuns
  /\ interp' = [interp EXCEPT ![i] = StartInterpOf(i, NoInterp)] /\ runs' = [runs EXCEPT ![i] = @ + 1]
  /\ sched' = Append(sched, i)
  /\ UNCHANGED <<body, program, shell, emitted>>
Step(i) ==
  /\ Fam = "shared"
  /\ program # <<>> /\ interp[i].status = "run"
  /\ LET e == ExecP(program, shell, interp[i], i)
     IN interp' = [interp EXCEPT ![i] = e.it] /\ program' = e.pr /\ shell' = e.sh
  /\ sched' = Append(sched, i)
  /\ UNCHANGED <<body, runs, emitted>>
AllDone == \A i \in 1..NProc : interp[i].status = "done" /\ runs[i] = MaxRuns
Emit ==
  /\ Fam = "shared"
  /\ program # <<>> /\ AllDone /\ ~emitted
  /\ PrintT(ToJson([fam |-> "shared", body |-> body, nproc |-> NProc, runs |-> MaxRuns, sched |-> sched,
                    apis |-> [i \in 1..NProc |-> ApiOf(i)],
                    expect |-> [out |-> Solo(body).out, g |-> Solo(body).g]]))
  /\ emitted' = TRUE /\ UNCHANGED <<body, program, shell, interp, runs, sched>>
\* a program that starts commands, for NG free-running executions: one prediction per execution
StartsCommand(b) == \E j \in 1..Len(b) : b[j].op \in CmdOps
EmitShell ==
  /\ Fam = "shell"
  /\ program # <<>> /\ ~emitted /\ StartsCommand(body)
  /\ LET j == ToJson([fam |-> "shell", body |-> body, ng |-> NG,
                       ids |-> [i \in 1..NG |-> CmdVal(CmdOf(i))],
                       apis |-> [i \in 1..NG |-> ApiOf(i)],
                       expect |-> [i \in 1..NG |-> [out |-> SoloFor(body, CmdOf(i)).out, g |-> SoloFor(body, CmdOf(i)).g]]])
     IN Len(j) > 0 /\ PrintT(j)
  /\ emitted' = TRUE /\ UNCHANGED <<body, program, shell, interp, runs, sched>>
Converts(b) == \E j \in 1..Len(b) : b[j].op \in FmtOps
EmitFormats ==
  /\ Fam = "formats"
  /\ program # <<>> /\ ~emitted /\ Converts(body)
  /\ LET j == ToJson([fam |-> "formats", body |-> body, ng |-> NG,
                       fmts |-> [i \in 1..NG |-> FmtOf(i)],
                       apis |-> [i \in 1..NG |-> ApiOf(i)],
                       expect |-> [i \in 1..NG |-> [out |-> SoloFor(body, i).out, g |-> SoloFor(body, i).g]]])
     IN Len(j) > 0 /\ PrintT(j)
  /\ emitted' = TRUE /\ UNCHANGED <<body, program, shell, interp, runs, sched>>
Next == EmitFormats \/ Grow \/ Freeze \/ (\E i \in 1..NProc : New(i) \/ Step(i)) \/ Emit \/ EmitShell
Spec == Init /\ [][Next]_vars
=============================================================================
