------------------------ MODULE MC_RecordReaderSwitch ------------------------
(* The chunked reader of MC_RecordReader when the program assigns a new RS in  *)
(* the action of record k: every Split decision is taken with the RS in force  *)
(* (RsAt), on the bytes retained so far.  On every delivery schedule the       *)
(* emitted records are RecordsSwitch(input, rs1, rs2, k), which is defined on  *)
(* the whole input -- what licenses RecordsSwitch as the oracle of the replay. *)
EXTENDS RecordReader, TLC

CONSTANTS MaxLen, Afters

VARIABLES input, ment, after, delivered, consumed, eof, emitted, ref
vars == <<input, ment, after, delivered, consumed, eof, emitted, ref>>

rs  == RsAt(ment.rs, ment.rs2, after, Len(emitted))
buf == SubSeq(input, consumed + 1, delivered)

Init ==
  /\ ment \in SwitchMenu /\ after \in Afters
  /\ input \in StrUpTo(ment.alpha, MaxLen)
  /\ delivered = 0 /\ consumed = 0 /\ eof = FALSE /\ emitted = <<>>
  /\ ref = RecordsSwitch(input, ment.rs, ment.rs2, after)

Deliver(k) == /\ ~eof /\ delivered + k <= Len(input) /\ delivered' = delivered + k
              /\ UNCHANGED <<input, ment, after, consumed, eof, emitted, ref>>
DeliverEOF == /\ ~eof /\ delivered = Len(input) /\ eof' = TRUE
              /\ UNCHANGED <<input, ment, after, delivered, consumed, emitted, ref>>
Split ==
  LET st == SplitStep(buf, eof, rs)
  IN /\ st.k \in {"emit", "skip"}
     /\ consumed' = consumed + st.adv
     /\ emitted' = IF st.k = "emit" THEN Append(emitted, [rec |-> st.rec, rt |-> st.rt]) ELSE emitted
     /\ UNCHANGED <<input, ment, after, delivered, eof, ref>>

Next == (\E k \in 1..MaxLen : Deliver(k)) \/ DeliverEOF \/ Split
Spec == Init /\ [][Next]_vars

Terminated == eof /\ SplitStep(buf, eof, rs).k = "done"
IsPrefix(s1, s2) == Len(s1) <= Len(s2) /\ \A j \in 1..Len(s1) : s1[j] = s2[j]
ChunkIndependence == Terminated => emitted = ref
PrefixSafe        == IsPrefix(emitted, ref)
Progress          == (eof => SplitStep(buf, eof, rs).k # "more") /\ consumed <= delivered
\* the records after the switch are those of the new RS on the rest; everything is kept
Lossless          == (delivered = 0 /\ ~eof) => RecAndRT(ref) = input
=============================================================================
