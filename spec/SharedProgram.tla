---------------------------- MODULE SharedProgram ----------------------------
(***************************************************************************)
(* Property C19b: a parsed Program is immutable and shareable.             *)
(*                                                                         *)
(* One shared `program` (what parser.ParseProgram returns: compiled code,  *)
(* constant table, compiled regular expressions, function table) and       *)
(* NProc interpreters, each with PRIVATE state interp[i] (what interp.New  *)
(* allocates: globals, value stack, output buffer).  Every action executes *)
(* one instruction of one interpreter and records in `acc` the set of      *)
(* locations it read and wrote.  A location is                             *)
(*      <<"prog", table, index>>   or   <<"interp", i, part, index>>.      *)
(*                                                                         *)
(* Instructions (the program is straight-line; the rendering as AWK is     *)
(* given next to each):                                                    *)
(*   [op |-> "set",   g, k]   g = consts[k]            a = 7               *)
(*   [op |-> "add",   g, k]   g = g + consts[k]        a = a + 1           *)
(*   [op |-> "match", g, k]   g = (g ~ regexes[k])     a = (a ~ /^1/)      *)
(*   [op |-> "call",  g, k]   g = dbl(g)  (k unused)   a = dbl(a)          *)
(*   [op |-> "print", g, k]   out = out ++ <<g>>       print a             *)
(* Every program ends with  print a; print b  (appended by Code).          *)
(*                                                                         *)
(* Properties (checked by MC_SharedProgram over all interleavings):        *)
(*   Immutable      [][program' = program]_vars                            *)
(*   NoSharedWrite  no step writes a location outside its own interp[i]    *)
(*   NoForeignRead  no step reads another interpreter's state              *)
(*   Equivalent     a finished interpreter holds the result of Solo        *)
(* With SharedCache = TRUE the "match" instruction memoises its last       *)
(* result inside the program (a mutable cache in a shared object, the      *)
(* typical way such a property gets broken); TLC then refutes all four,    *)
(* which shows that the properties are not vacuous.                        *)
(***************************************************************************)
EXTENDS Integers, Sequences, FiniteSets, TLC

CONSTANTS NProc, SharedCache

Consts  == <<0, 1, 7, 10>>            \* program.Compiled.Nums
NumRegex == 2                         \* program.Compiled.Regexes: /^1/ and /0$/
\* the two regular expressions on the decimal spelling of 0..99
Matches(r, n) == IF r = 1 THEN (n = 1 \/ (n >= 10 /\ n <= 19)) ELSE n % 10 = 0

Tail2 == <<[op |-> "print", g |-> 1, k |-> 0], [op |-> "print", g |-> 2, k |-> 0]>>
Code(body) == body \o Tail2

MkProgram(body) == [code |-> Code(body), consts |-> Consts, nregex |-> NumRegex,
                    cache |-> [r \in 1..NumRegex |-> [valid |-> FALSE, arg |-> 0, res |-> 0]]]

NewInterp == [status |-> "run", pc |-> 1, g |-> <<0, 0>>, out |-> <<>>]
NoInterp  == [status |-> "none", pc |-> 0, g |-> <<0, 0>>, out |-> <<>>]

PLoc(table, idx)   == <<"prog", table, idx>>
ILoc(i, part, idx) == <<"interp", i, part, idx>>

\* One instruction of interpreter state `it` (of process i) over program pr:
\* returns [it, pr, reads, writes]
Exec1(pr, it, i) ==
  LET ins == pr.code[it.pc]
      rd0 == {PLoc("code", it.pc), ILoc(i, "pc", 0)}
      nxt(it2) == [it2 EXCEPT !.pc = @ + 1, !.status = IF it.pc = Len(pr.code) THEN "done" ELSE "run"]
      gv  == it.g[ins.g]
  IN CASE ins.op = "set" ->
            [it |-> nxt([it EXCEPT !.g[ins.g] = pr.consts[ins.k]]), pr |-> pr,
             reads |-> rd0 \cup {PLoc("consts", ins.k)}, writes |-> {ILoc(i, "g", ins.g), ILoc(i, "pc", 0)}]
       [] ins.op = "add" ->
            [it |-> nxt([it EXCEPT !.g[ins.g] = gv + pr.consts[ins.k]]), pr |-> pr,
             reads |-> rd0 \cup {PLoc("consts", ins.k), ILoc(i, "g", ins.g)}, writes |-> {ILoc(i, "g", ins.g), ILoc(i, "pc", 0)}]
       [] ins.op = "call" ->
            [it |-> nxt([it EXCEPT !.g[ins.g] = gv + gv]), pr |-> pr,
             reads |-> rd0 \cup {PLoc("funcs", 1), ILoc(i, "g", ins.g)}, writes |-> {ILoc(i, "g", ins.g), ILoc(i, "pc", 0)}]
       [] ins.op = "print" ->
            [it |-> nxt([it EXCEPT !.out = Append(@, gv)]), pr |-> pr,
             reads |-> rd0 \cup {ILoc(i, "g", ins.g)}, writes |-> {ILoc(i, "out", 0), ILoc(i, "pc", 0)}]
       [] ins.op = "match" ->
            IF SharedCache
            THEN \* as a broken implementation would do it: look the argument up in a cache kept in the program
                 LET c   == pr.cache[ins.k]
                     res == IF c.valid THEN c.res ELSE (IF Matches(ins.k, gv) THEN 1 ELSE 0)
                 IN [it |-> nxt([it EXCEPT !.g[ins.g] = res]),
                     pr |-> [pr EXCEPT !.cache[ins.k] = [valid |-> TRUE, arg |-> gv, res |-> res]],
                     reads |-> rd0 \cup {PLoc("regexes", ins.k), PLoc("cache", ins.k), ILoc(i, "g", ins.g)},
                     writes |-> {ILoc(i, "g", ins.g), ILoc(i, "pc", 0), PLoc("cache", ins.k)}]
            ELSE [it |-> nxt([it EXCEPT !.g[ins.g] = IF Matches(ins.k, gv) THEN 1 ELSE 0]), pr |-> pr,
                  reads |-> rd0 \cup {PLoc("regexes", ins.k), ILoc(i, "g", ins.g)},
                  writes |-> {ILoc(i, "g", ins.g), ILoc(i, "pc", 0)}]

\* running alone, on a pristine program
RECURSIVE SoloRun(_, _)
SoloRun(pr, it) == IF it.status = "done" THEN it ELSE LET e == Exec1(pr, it, 0) IN SoloRun(e.pr, e.it)
Solo(body) == SoloRun(MkProgram(body), NewInterp)

\* ---- the properties, as predicates over (program, interp, acc) ----
OwnLoc(loc, i)  == loc[1] = "interp" /\ loc[2] = i
ProgLoc(loc)    == loc[1] = "prog"
NoSharedWriteP(acc) == \A loc \in acc.writes : OwnLoc(loc, acc.p)
NoForeignReadP(acc) == \A loc \in acc.reads : ProgLoc(loc) \/ OwnLoc(loc, acc.p)
EquivalentP(body, its) ==
  \A i \in DOMAIN its : its[i].status = "done" => (its[i].out = Solo(body).out /\ its[i].g = Solo(body).g)
=============================================================================
